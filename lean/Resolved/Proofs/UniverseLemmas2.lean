/-
  Helper lemmas for `Props/C07Universe2.lean`: resolutions from WARM caches that also hold answers
  of earlier questions, at a later time, and referrals WITHOUT glue.

  The chain of `Proofs/UniverseLemmas.lean` is redone over a more general cache invariant
  (`uni2_Cache V G K c T`: NS sets of the zones `V`, addresses of the servers `G`, anything under the
  keys `K`; every NS / address tuple lives at least until `T`) and over a glue policy
  (`authReplyG gp`), and every step EXPORTS the invariant of the state it ends in:
  * `uni2_descend` / `uni2_loop`: the descent along a (glued) delegation path and the final answer,
    whose records are inserted into a cache described by the invariant;
  * `uni2_candidates_warm`, `uni2_resolveRec_warm`: the machine from any warm state (start: the
    deepest cached zone or the root hints); `uni2_first` / `uni2_second`: a first question from the
    start context and a later one from the state it leaves behind; `uni2_repeat`,
    `uni2_tuplesAt_insertAll_fresh`, `uni2_cacheGet_stored`: a question whose answer is cached;
  * `uni2_loop_setaside`, `uni2_loop_nested_query`: the candidate loop for a candidate without
    address: set aside, then resolved recursively, then contacted;
  * `uni2_reply_referral` / `uni2_reply_terminal` / `uni2_resolveRec_wrap`: handling a reply, the
    wrapper around the loop; `uni2_walk`: THE MACHINE ON A WALK (`UniWalk`: any mix of referrals
    with and without glue, nested resolutions of name server addresses), `uni2_walk_start` from the
    start context, `uni2_walk_of_path` / `uni2_walk_glueless_one`: walks from delegation paths;
  * the facts about the example universes `UniEx.uni` (second questions), `uniG`, `uniG2`.
-/
import Resolved.Proofs.UniverseLemmas

namespace Resolved

open Gen

set_option autoImplicit false

/-! ## The generalised cache invariant -/

/-- what a stored tuple may be: the address of a server of `G` under its host name (`A`, alive at
    least until `T`), the NS record of a zone of `V` (alive at least until `T`), some `AAAA` record
    under the host name of a server of `G`, or anything under a key of `K`. -/
def uni2_TupleOK (V G : List UEntry) (K : List (Name × Nat)) (T : Nat) (name : Name) (rk : Nat)
    (t : CRec × Nat) : Prop :=
  (rk = RT_A ∧ ∃ E ∈ G, E.host = name ∧ t.1 = ⟨RT_A, [.a E.addr]⟩ ∧ T ≤ t.2) ∨
  (rk = RT_NS ∧ ∃ C ∈ V, C.apex = name ∧ t.1 = ⟨RT_NS, [.name C.host]⟩ ∧ T ≤ t.2) ∨
  (rk = RT_AAAA ∧ ∃ E ∈ G, E.host = name) ∨
  ((name, rk) ∈ K)

def uni2_Sound (V G : List UEntry) (K : List (Name × Nat)) (c : PCache) (T : Nat) : Prop :=
  Inv c ∧ ∀ name rk, ∀ t ∈ tuplesAt c name rk, uni2_TupleOK V G K T name rk t

/-- the cache invariant: soundness, the NS sets of `V` and the addresses of `G` are stored. -/
def uni2_Cache (V G : List UEntry) (K : List (Name × Nat)) (c : PCache) (T : Nat) : Prop :=
  uni2_Sound V G K c T ∧ (∀ C ∈ V, tuplesAt c C.apex RT_NS ≠ []) ∧ (∀ C ∈ G, tuplesAt c C.host RT_A ≠ [])

/-- records that may be inserted at time `now`. -/
def uni2_RROK (V G : List UEntry) (K : List (Name × Nat)) (T now : Nat) (rr : RR) : Prop :=
  (rr.rtype = RT_A ∧ ∃ E ∈ G, E.host = rr.name ∧ rr.fields = [.a E.addr] ∧ T ≤ now + rr.ttl * NANOS) ∨
  (rr.rtype = RT_NS ∧ ∃ C ∈ V, C.apex = rr.name ∧ rr.fields = [.name C.host] ∧ T ≤ now + rr.ttl * NANOS) ∨
  (rr.rtype = RT_AAAA ∧ ∃ E ∈ G, E.host = rr.name) ∨
  ((rr.name, rr.rtype) ∈ K)

theorem uni2_cache_new (d T : Nat) : uni2_Cache [] [] [] (PCache.new d) T := by
  refine ⟨⟨Inv.new d, ?_⟩, (fun C hC => nomatch hC), (fun C hC => nomatch hC)⟩
  intro name rk t ht
  simp [tuplesAt, recsAt, PCache.new] at ht

theorem uni2_sound_same {V G : List UEntry} {K : List (Name × Nat)} {c c' : PCache} {T : Nat}
    (h : uni2_Sound V G K c T) (hs : UniSameStore c c') : uni2_Sound V G K c' T :=
  ⟨hs.1 h.1, fun name rk t ht => h.2 name rk t (by rw [hs.2] at ht; exact ht)⟩

theorem uni2_cache_same {V G : List UEntry} {K : List (Name × Nat)} {c c' : PCache} {T : Nat}
    (h : uni2_Cache V G K c T) (hs : UniSameStore c c') : uni2_Cache V G K c' T :=
  ⟨uni2_sound_same h.1 hs, fun C hC => by rw [hs.2]; exact h.2.1 C hC, fun C hC => by rw [hs.2]; exact h.2.2 C hC⟩

theorem uni2_tupleOK_mono {V V' G G' : List UEntry} {K K' : List (Name × Nat)} {T T' : Nat} {name : Name}
    {rk : Nat} {t : CRec × Nat} (hV : ∀ C ∈ V, C ∈ V') (hG : ∀ C ∈ G, C ∈ G') (hK : ∀ k ∈ K, k ∈ K') (hT : T' ≤ T)
    (h : uni2_TupleOK V G K T name rk t) : uni2_TupleOK V' G' K' T' name rk t := by
  rcases h with ⟨h1, E, hE, h2, h3, h4⟩ | ⟨h1, C, hC, h2, h3, h4⟩ | ⟨h1, E, hE, h2⟩ | h
  · exact Or.inl ⟨h1, E, hG E hE, h2, h3, Nat.le_trans hT h4⟩
  · exact Or.inr (Or.inl ⟨h1, C, hV C hC, h2, h3, Nat.le_trans hT h4⟩)
  · exact Or.inr (Or.inr (Or.inl ⟨h1, E, hG E hE, h2⟩))
  · exact Or.inr (Or.inr (Or.inr (hK _ h)))

theorem uni2_sound_mono {V V' G G' : List UEntry} {K K' : List (Name × Nat)} {c : PCache} {T T' : Nat}
    (hV : ∀ C ∈ V, C ∈ V') (hG : ∀ C ∈ G, C ∈ G') (hK : ∀ k ∈ K, k ∈ K') (hT : T' ≤ T)
    (h : uni2_Sound V G K c T) : uni2_Sound V' G' K' c T' :=
  ⟨h.1, fun name rk t ht => uni2_tupleOK_mono hV hG hK hT (h.2 name rk t ht)⟩

theorem uni2_cache_mono {V G : List UEntry} {K K' : List (Name × Nat)} {c : PCache} {T T' : Nat}
    (hK : ∀ k ∈ K, k ∈ K') (hT : T' ≤ T) (h : uni2_Cache V G K c T) : uni2_Cache V G K' c T' :=
  ⟨uni2_sound_mono (fun _ h => h) (fun _ h => h) hK hT h.1, h.2⟩

theorem uni2_sound_insert {V G : List UEntry} {K : List (Name × Nat)} {c : PCache} {T now : Nat}
    (h : uni2_Sound V G K c T) (rr : RR) (hrr : 0 < rr.ttl → uni2_RROK V G K T now rr) :
    uni2_Sound V G K (sharedInsert c rr now) T := by
  refine ⟨h.1.sharedInsert rr now, ?_⟩
  unfold sharedInsert
  split
  · rename_i hpos
    have hrr := hrr hpos
    intro name rk t ht
    unfold cacheInsert at ht
    by_cases hk : name = rr.name ∧ rk = rr.rtype
    · obtain ⟨hk1, hk2⟩ := hk
      subst hk1; subst hk2
      obtain ⟨w, e⟩ := t
      rw [mem_tuplesAt_upsert h.1 rr.name (rr.ttl * NANOS) now] at ht
      rcases ht with ⟨hw, he⟩ | ⟨_, hold⟩
      · rcases hrr with ⟨h1, E, hE, hh, hf, hT⟩ | ⟨h1, C, hC, hh, hf, hT⟩ | ⟨h1, h2⟩ | h2
        · exact Or.inl ⟨h1, E, hE, hh, by simp only [hw, h1, hf], by rw [he]; exact hT⟩
        · exact Or.inr (Or.inl ⟨h1, C, hC, hh, by simp only [hw, h1, hf], by rw [he]; exact hT⟩)
        · exact Or.inr (Or.inr (Or.inl ⟨h1, h2⟩))
        · exact Or.inr (Or.inr (Or.inr h2))
      · exact h.2 _ _ _ hold
    · have hne : name ≠ rr.name ∨ rk ≠ rr.rtype := by
        by_cases h1 : name = rr.name
        · exact Or.inr (fun h2 => hk ⟨h1, h2⟩)
        · exact Or.inl h1
      rw [tuplesAt_upsert_other h.1 rr.name (rr.ttl * NANOS) now name rk hne] at ht
      exact h.2 name rk t ht
  · exact h.2

theorem uni2_sound_insertAll {V G : List UEntry} {K : List (Name × Nat)} {T now : Nat} (rrs : List RR) :
    ∀ {c : PCache}, uni2_Sound V G K c T → (∀ rr ∈ rrs, 0 < rr.ttl → uni2_RROK V G K T now rr) →
      uni2_Sound V G K (sharedInsertAll c rrs now) T := by
  unfold sharedInsertAll
  induction rrs with
  | nil => intro c h _; exact h
  | cons rr rrs ih =>
    intro c h hall
    exact ih (uni2_sound_insert h rr (hall rr List.mem_cons_self))
      (fun r hr => hall r (List.mem_cons_of_mem _ hr))

/-- inserting records keeps the invariant (for possibly larger `V`, `G`, `K`); what was present
    stays present. -/
theorem uni2_cache_insertAll {V V' G G' : List UEntry} {K K' : List (Name × Nat)} {c : PCache} {T now : Nat}
    (h : uni2_Cache V G K c T) (hV : ∀ C ∈ V, C ∈ V') (hG : ∀ C ∈ G, C ∈ G') (hK : ∀ k ∈ K, k ∈ K')
    (rrs : List RR) (hrr : ∀ rr ∈ rrs, 0 < rr.ttl → uni2_RROK V' G' K' T now rr)
    (hnewV : ∀ C ∈ V', C ∈ V ∨ ∃ rr ∈ rrs, rr.ttl > 0 ∧ C.apex = rr.name ∧ RT_NS = rr.rtype)
    (hnewG : ∀ C ∈ G', C ∈ G ∨ ∃ rr ∈ rrs, rr.ttl > 0 ∧ C.host = rr.name ∧ RT_A = rr.rtype) :
    uni2_Cache V' G' K' (sharedInsertAll c rrs now) T := by
  refine ⟨uni2_sound_insertAll rrs (uni2_sound_mono hV hG hK (Nat.le_refl _) h.1) hrr, ?_, ?_⟩
  · intro C hC
    rcases hnewV C hC with h1 | h1
    · exact uni_tuples_insertAll_ne rrs now _ _ h.1.1 (Or.inl (h.2.1 C h1))
    · exact uni_tuples_insertAll_ne rrs now _ _ h.1.1 (Or.inr h1)
  · intro C hC
    rcases hnewG C hC with h1 | h1
    · exact uni_tuples_insertAll_ne rrs now _ _ h.1.1 (Or.inl (h.2.2 C h1))
    · exact uni_tuples_insertAll_ne rrs now _ _ h.1.1 (Or.inr h1)

/-- the lookup of a cached address: non-empty, every record returned is an `A` record of the host
    with the server's address. -/
theorem uni2_cache_lookup {U : Universe} {V G : List UEntry} {K : List (Name × Nat)} {c : PCache} {T now : Nat}
    (h : uni2_Sound V G K c T) (hT : now + NANOS ≤ T) (hU : HostsFunctional U) (hG : ∀ E ∈ G, E ∈ U)
    (E : UEntry) (hE : E ∈ U) (hK : (E.host, RT_A) ∉ K) (hne : tuplesAt c E.host RT_A ≠ []) :
    (cacheGet c E.host RT_A now).2 ≠ [] ∧
    ∀ rr ∈ (cacheGet c E.host RT_A now).2, rr.name = E.host ∧ rr.rtype = RT_A ∧ rr.fields = [.a E.addr] := by
  have hall : ∀ t ∈ tuplesAt c E.host RT_A, t.1 = ⟨RT_A, [.a E.addr]⟩ ∧ now + NANOS ≤ t.2 := by
    intro t ht
    rcases h.2 E.host RT_A t ht with ⟨_, E', hE', hh, ht1, ht2⟩ | ⟨h1, _⟩ | ⟨h1, _⟩ | h1
    · rw [hU E' (hG E' hE') E hE hh] at ht1
      exact ⟨ht1, Nat.le_trans hT ht2⟩
    · exact absurd h1 (by decide)
    · exact absurd h1 (by decide)
    · exact absurd h1 hK
  rw [uni_cacheGet_live c E.host RT_A now uni_lookupNat_A (fun t ht => (hall t ht).2)]
  constructor
  · intro hh
    exact hne (List.map_eq_nil_iff.mp hh)
  · intro rr hrr
    obtain ⟨t, ht, rfl⟩ := List.mem_map.mp hrr
    have := (hall t ht).1
    simp [mkRR, this]

/-- the lookup of the cached NS set of a zone of `V`: exactly one record, naming the zone's host. -/
theorem uni2_cache_lookup_ns {U : Universe} {V G : List UEntry} {K : List (Name × Nat)} {c : PCache} {T now : Nat}
    (h : uni2_Sound V G K c T) (hT : now + NANOS ≤ T) (hV : ∀ C ∈ V, C ∈ U)
    (ha : ∀ E ∈ U, ∀ E' ∈ U, E.apex = E'.apex → E.host = E'.host)
    (C : UEntry) (hC : C ∈ V) (hK : (C.apex, RT_NS) ∉ K) (hne : tuplesAt c C.apex RT_NS ≠ []) :
    (cacheGet c C.apex RT_NS now).2 ≠ [] ∧ (cacheGet c C.apex RT_NS now).2.filterMap nsTarget = [C.host] := by
  have hall : ∀ t ∈ tuplesAt c C.apex RT_NS, t.1 = ⟨RT_NS, [.name C.host]⟩ ∧ now + NANOS ≤ t.2 := by
    intro t ht
    rcases h.2 C.apex RT_NS t ht with ⟨h1, _⟩ | ⟨_, C', hC', hh, ht1, ht2⟩ | ⟨h1, _⟩ | h1
    · exact absurd h1 (by decide)
    · rw [ha C' (hV C' hC') C (hV C hC) hh] at ht1
      exact ⟨ht1, Nat.le_trans hT ht2⟩
    · exact absurd h1 (by decide)
    · exact absurd h1 hK
  rw [uni_cacheGet_live c C.apex RT_NS now uni_lookupNat_NS (fun t ht => (hall t ht).2)]
  have hlen : (tuplesAt c C.apex RT_NS).length ≤ 1 :=
    uni_nodup_const (·.1) ⟨RT_NS, [.name C.host]⟩ _ (h.1.tuplesAt_nodup C.apex RT_NS) (fun t ht => (hall t ht).1)
  cases hts : tuplesAt c C.apex RT_NS with
  | nil => exact absurd hts hne
  | cons t rest =>
    rw [hts] at hlen hall
    have hrest : rest = [] := by
      cases rest with
      | nil => rfl
      | cons _ _ => simp at hlen
    subst hrest
    have ht := (hall t List.mem_cons_self).1
    refine ⟨by simp, ?_⟩
    simp [mkRR, nsTarget, ht]

/-- nothing is stored where the invariant allows nothing. -/
theorem uni2_sound_empty {V G : List UEntry} {K : List (Name × Nat)} {c : PCache} {T : Nat}
    (h : uni2_Sound V G K c T) (name : Name) (rk : Nat)
    (hA : rk = RT_A ∨ rk = RT_AAAA → ∀ E ∈ G, E.host ≠ name) (hN : rk = RT_NS → ∀ C ∈ V, C.apex ≠ name)
    (hK : (name, rk) ∉ K) : tuplesAt c name rk = [] := by
  apply List.eq_nil_iff_forall_not_mem.mpr
  intro t ht
  rcases h.2 name rk t ht with ⟨h1, E, hE, hh, _⟩ | ⟨h1, C, hC', hh, _⟩ | ⟨h1, E, hE, hh⟩ | h2
  · exact hA (Or.inl h1) E hE hh
  · exact hN h1 C hC' hh
  · exact hA (Or.inr h1) E hE hh
  · exact hK h2

/-- a server's address comes from the cache once it has been stored. -/
theorem uni2_addr_cached {U : Universe} {V G : List UEntry} {K : List (Name × Nat)} {T : Nat} {ctx : Ctx}
    (hU : HostsFunctional U) (hG : ∀ E ∈ G, E ∈ U) (E : UEntry) (hE : E ∈ U)
    (hc : uni2_Sound V G K ctx.cache T) (hT : ctx.now + NANOS ≤ T) (hK : (E.host, RT_A) ∉ K)
    (hne : tuplesAt ctx.cache E.host RT_A ≠ [])
    (hmiss : localMiss ctx.zones E.host RT_A = true)
    (hl : ctx.stack.length ≠ RECURSION_LIMIT) (hd : uniHostQ E.host ∉ ctx.stack) :
    UniAddrKnown ctx E.host E.addr := by
  obtain ⟨h1, h2⟩ := uni2_cache_lookup hc hT hU hG E hE hK hne
  have := uni_local_hit RECURSION_LIMIT ctx (uniHostQ E.host) hl hd hmiss uni_A_ne_wildcard
    (by rw [Ctx.cacheGet_snd]; exact h1)
  refine ⟨_, by rw [this], ?_, ?_⟩
  · exact uni_getIp _ E.host E.addr (by rw [Ctx.cacheGet_snd]; exact h1)
      (by rw [Ctx.cacheGet_snd]; exact h2)
  · rw [this]
    simp only
    rw [Ctx.cacheGet_fst_cache]
    exact uni_sameStore_get _ _ _ _


/-! ## Replies under a glue policy -/

theorem uni2_authReplyG_std (U : Universe) (E : UEntry) (q : Question) (rd : Bool) :
    authReplyG (uniGlue U) E q rd = authReply U E q rd := by
  unfold authReplyG authReply
  cases E.zone.resolve q.name q.qtype with
  | none => rfl
  | some zr => cases zr <;> rfl

theorem uni2_faithful_std {U : Universe} {cfg : RecCfg} (h : Faithful U cfg) : FaithfulG (uniGlue U) U cfg := by
  intro E hE q rd tcp
  rw [uni2_authReplyG_std]
  exact h E hE q rd tcp

theorem uni2_ok_std {U : Universe} {cfg : RecCfg} (h : UniOK U cfg) : UniOKG (uniGlue U) U cfg :=
  ⟨uni2_faithful_std h.faithful, fun _ _ hg => hg, h.mode, h.order, h.hosts, h.apexes, h.delay, h.glueTtl⟩

theorem uni2_authReplyG_nondeleg (gp : List RR → List RR) (E : UEntry) (q : Question) (rd : Bool)
    (h : ∀ ns, E.zone.resolve q.name q.qtype ≠ some (.delegation ns)) :
    authReplyG gp E q rd = authReply [] E q rd := by
  unfold authReplyG
  split
  · rename_i ns hres; exact absurd hres (h ns)
  · rfl

theorem uni2_authReplyG_matches {gp : List RR → List RR} {E : UEntry} {q : Question} {rd : Bool} {m : Message}
    (h : authReplyG gp E q rd = some m) : responseMatchesRequest (requestFor q rd) m = true := by
  unfold authReplyG at h
  split at h
  · cases h; exact uni_matches_hdr _ _ _ _ _ _ _ (Or.inl rfl)
  · exact uni_authReply_matches h

theorem uni2_expected_nondeleg {Z : UEntry} {q : Question} {res : ResolvedRecord} (h : expectedAt Z q = some res) :
    ∀ ns, Z.zone.resolve q.name q.qtype ≠ some (.delegation ns) := by
  intro ns hns
  unfold expectedAt at h
  rw [hns] at h
  cases h

/-- what the last server of a path replies under any glue policy, and what the filter makes of it. -/
theorem uni2_terminal (gp : List RR → List RR) (Z : UEntry) (q : Question) (res : ResolvedRecord) (mc : Nat)
    (hq : lookupNat queryTypeFromU16 q.qtype = none) (hexp : expectedAt Z q = some res)
    (hans : ∀ rrs, Z.zone.resolve q.name q.qtype = some (.answer rrs) → UniAnswerOK q rrs)
    (hmc : mc ≤ Z.apex.labels.length) :
    ∃ m rrs soa, authReplyG gp Z q false = some m ∧
      validateNameserverResponse q m mc = some (.answer rrs soa) ∧ res = .nonAuthoritative rrs soa := by
  rw [uni2_authReplyG_nondeleg gp Z q false (uni2_expected_nondeleg hexp)]
  exact uni_terminal (U := []) Z q res mc hq hexp hans hmc

/-- the referral a server on the path gives under the glue policy `gp`, as filtered. -/
theorem uni2_referral {gp : List RR → List RR} {U : Universe}
    (hsub : ∀ ns g, g ∈ gp ns → g ∈ uniGlue U ns) (Y C : UEntry) (q : Question) (ttl : Nat)
    (hres : Y.zone.resolve q.name q.qtype = some (.delegation [C.nsRR ttl]))
    (hdepth : Y.apex.labels.length < C.apex.labels.length)
    (hsubd : q.name.isSubdomainOf C.apex = true)
    (hqa : isAddrQ q → q.name ≠ C.host) :
    ∃ m, authReplyG gp Y q false = some m ∧
      validateNameserverResponse q m Y.apex.labels.length =
        some (.delegation ([C.nsRR ttl] ++ gp [C.nsRR ttl]) [C.host] C.apex) ∧
      uni_glueFor q ([C.nsRR ttl] ++ gp [C.nsRR ttl]) = none ∧
      (∀ g ∈ gp [C.nsRR ttl], ∃ E ∈ U, E.host = C.host ∧ g ∈ E.glueRRs) := by
  have hmemg : ∀ g ∈ gp [C.nsRR ttl], ∃ E ∈ U, E.host = C.host ∧ g ∈ E.glueRRs := fun g hg =>
    uni_mem_glue.mp (hsub _ g hg)
  have hglue : ∀ g ∈ gp [C.nsRR ttl], (g.rtype = RT_A ∨ g.rtype = RT_AAAA) ∧ g.name = C.host := by
    intro g hg
    obtain ⟨E, _, hh, hgE⟩ := hmemg g hg
    rcases uni_mem_glueRRs.mp hgE with rfl | ⟨g6, _, rfl⟩
    · exact ⟨Or.inl rfl, hh⟩
    · exact ⟨Or.inr rfl, hh⟩
  refine ⟨_, by unfold authReplyG; rw [hres], ?_, ?_, hmemg⟩
  · exact uni_validate_referral q _ _ (C.nsRR ttl) C.apex C.host rfl rfl rfl rfl rfl hglue hsubd hdepth
  · have hnone : ∀ t, (t = RT_A ∨ t = RT_AAAA → q.name ≠ C.host) → t ≠ RT_NS →
        getRecord ([C.nsRR ttl] ++ gp [C.nsRR ttl]) q.name t = none := by
      intro t ht hns
      unfold getRecord
      rw [List.find?_eq_none]
      intro rr hrr
      rcases List.mem_append.mp hrr with h1 | h1
      · simp only [List.mem_singleton] at h1
        subst h1
        simp [UEntry.nsRR, Ne.symm hns]
      · obtain ⟨h2, h3⟩ := hglue rr h1
        by_cases hta : t = RT_A ∨ t = RT_AAAA
        · have := ht hta
          simp [h3, Ne.symm this]
        · have hne : rr.rtype ≠ t := by
            intro he
            rcases h2 with h2 | h2
            · exact hta (Or.inl (by rw [← he, h2]))
            · exact hta (Or.inr (by rw [← he, h2]))
          simp [hne]
    unfold uni_glueFor
    by_cases h1 : q.qtype = RT_A
    · simp only [h1, beq_self_eq_true, if_true]
      exact hnone RT_A (fun _ => hqa (Or.inl h1)) (by decide)
    · have h1' : (q.qtype == RT_A) = false := by simp [h1]
      simp only [h1', Bool.false_eq_true, if_false]
      split
      · rename_i h6
        exact hnone RT_AAAA (fun _ => hqa (Or.inr (by simpa using h6))) (by decide)
      · rfl

/-- the records of a referral to `C` may be cached once `C` counts among the zones referred to
    (`V`) and — if glue came along — among the servers with a known address (`G`). -/
theorem uni2_referral_rrok {U : Universe} (hU : HostsFunctional U) {T now : Nat}
    (hTg : ∀ E ∈ U, T ≤ now + E.glueTtl * NANOS) (C : UEntry) (hC : C ∈ U) (ttl : Nat)
    (hTn : T ≤ now + ttl * NANOS) (V G : List UEntry) (K : List (Name × Nat)) (hCV : C ∈ V) (glue : List RR)
    (hglue : ∀ g ∈ glue, ∃ E ∈ U, E.host = C.host ∧ g ∈ E.glueRRs) (hCG : glue ≠ [] → C ∈ G) :
    ∀ rr ∈ [C.nsRR ttl] ++ glue, uni2_RROK V G K T now rr := by
  intro rr hrr
  rcases List.mem_append.mp hrr with h1 | h1
  · simp only [List.mem_singleton] at h1
    subst h1
    exact Or.inr (Or.inl ⟨rfl, C, hCV, rfl, rfl, hTn⟩)
  · have hCG' := hCG (List.ne_nil_of_mem h1)
    obtain ⟨E, hE, hh, hgE⟩ := hglue rr h1
    rcases uni_mem_glueRRs.mp hgE with rfl | ⟨g6, _, rfl⟩
    · refine Or.inl ⟨rfl, C, hCG', hh.symm, ?_, hTg E hE⟩
      show [FieldVal.a E.addr] = [FieldVal.a C.addr]
      rw [hU E hE C hC hh]
    · exact Or.inr (Or.inr (Or.inl ⟨rfl, C, hCG', hh.symm⟩))


/-! ## One referral -/

/-- the state after the exchange with `Y` that ends in a referral with records `rrs`. -/
def uni2_afterReferral (st : St) (port : Nat) (q : Question) (Y : UEntry) (rrs : List RR) : St :=
  ⟨((resolveLocal (RECURSION_LIMIT + 1) st.ctx (uniHostQ Y.host)).1).cacheInsertAll rrs,
    ⟨st.run.log ++ [Y.exchange port q], st.run.elapsedMs + Y.delayMs, false⟩⟩

/-- One iteration of the candidate loop: the server `Y` (address known locally) refers to `C`; the
    NS record and whatever glue the policy serves are cached, the next iteration has `C`'s host as
    its only candidate. -/
theorem uni2_referral_core {gp : List RR → List RR} {U : Universe} {cfg : RecCfg} (h : UniOKG gp U cfg)
    (q : Question) (hq : QuestionOK q) (Y C : UEntry) (ttl : Nat) (hY : Y ∈ U)
    (hres : Y.zone.resolve q.name q.qtype = some (.delegation [C.nsRR ttl]))
    (hdepth : Y.apex.labels.length < C.apex.labels.length)
    (hsubd : q.name.isSubdomainOf C.apex = true) (hqa : isAddrQ q → q.name ≠ C.host)
    (f : Nat) (st : St) (hlive : st.run.timedOut = false)
    (ht : st.run.elapsedMs + Y.delayMs < RESOLVE_TIMEOUT_MS) (hk : UniAddrKnown st.ctx Y.host Y.addr) :
    candidateLoop cfg (f + 2) st q [] Y.apex.labels.length [Y.host] [] true =
      candidateLoop cfg (f + 1) (uni2_afterReferral st cfg.port q Y ([C.nsRR ttl] ++ gp [C.nsRR ttl])) q []
        C.apex.labels.length [C.host] [] true := by
  obtain ⟨m, hm, hv, hg, _⟩ := uni2_referral h.sub Y C q ttl hres hdepth hsubd hqa
  have ho := h.faithful Y hY q false false
  rw [hm] at ho
  rw [uni_loop_query cfg f st q _ Y m h.mode hlive hk ho hq.fits (h.delay Y hY) ht (uni2_authReplyG_matches hm), hv]
  simp only [uni_afterReply, hg, h.order, uni2_afterReferral]

/-- the projections of the state after a referral. -/
theorem uni2_afterReferral_proj (st : St) (port : Nat) (q : Question) (Y : UEntry) (rrs : List RR) :
    (uni2_afterReferral st port q Y rrs).ctx.stack = st.ctx.stack ∧
    (uni2_afterReferral st port q Y rrs).ctx.zones = st.ctx.zones ∧
    (uni2_afterReferral st port q Y rrs).ctx.now = st.ctx.now ∧
    (uni2_afterReferral st port q Y rrs).run =
      ⟨st.run.log ++ [Y.exchange port q], st.run.elapsedMs + Y.delayMs, false⟩ := by
  refine ⟨?_, ?_, ?_, rfl⟩
  · show ((resolveLocal (RECURSION_LIMIT + 1) st.ctx (uniHostQ Y.host)).1).stack = _
    exact resolveLocal_stack _ _ _
  · show ((resolveLocal (RECURSION_LIMIT + 1) st.ctx (uniHostQ Y.host)).1).zones = _
    exact resolveLocal_zones _ _ _
  · show ((resolveLocal (RECURSION_LIMIT + 1) st.ctx (uniHostQ Y.host)).1).now = _
    exact resolveLocal_now _ _ _

/-- the cache after a referral to `C`: `C` joins the zones referred to; with glue, also the servers
    with a known address. -/
theorem uni2_afterReferral_cache {gp : List RR → List RR} {U : Universe} (hsub : ∀ ns g, g ∈ gp ns → g ∈ uniGlue U ns)
    (hU : HostsFunctional U) (hgt : ∀ E ∈ U, 0 < E.glueTtl) {T : Nat} (st : St) (port : Nat) (q : Question)
    (Y C : UEntry) (hC : C ∈ U) (ttl : Nat) (httl : 0 < ttl)
    (hTg : ∀ E ∈ U, T ≤ st.ctx.now + E.glueTtl * NANOS) (hTn : T ≤ st.ctx.now + ttl * NANOS)
    (V G G' : List UEntry) (K : List (Name × Nat)) (hcache : uni2_Cache V G K st.ctx.cache T)
    (hk : UniAddrKnown st.ctx Y.host Y.addr)
    (hG1 : ∀ D ∈ G, D ∈ G') (hG2 : gp [C.nsRR ttl] ≠ [] → C ∈ G')
    (hG3 : ∀ D ∈ G', D ∈ G ∨ (D = C ∧ C.glueRR ∈ gp [C.nsRR ttl])) :
    uni2_Cache (V ++ [C]) G' K
      (uni2_afterReferral st port q Y ([C.nsRR ttl] ++ gp [C.nsRR ttl])).ctx.cache T := by
  obtain ⟨r0, _, _, hsame⟩ := hk
  have hnow1 := resolveLocal_now (RECURSION_LIMIT + 1) st.ctx (uniHostQ Y.host)
  show uni2_Cache (V ++ [C]) G' K
    (sharedInsertAll (resolveLocal (RECURSION_LIMIT + 1) st.ctx (uniHostQ Y.host)).1.cache _
      (resolveLocal (RECURSION_LIMIT + 1) st.ctx (uniHostQ Y.host)).1.now) T
  rw [hnow1]
  have hmemg : ∀ g ∈ gp [C.nsRR ttl], ∃ E ∈ U, E.host = C.host ∧ g ∈ E.glueRRs := fun g hg =>
    uni_mem_glue.mp (hsub _ g hg)
  refine uni2_cache_insertAll (uni2_cache_same hcache hsame) (fun D hD => List.mem_append_left _ hD) hG1
    (fun _ hk => hk) _ ?_ ?_ ?_
  · intro rr hrr _
    exact uni2_referral_rrok hU hTg C hC ttl hTn (V ++ [C]) G' K (by simp) _ hmemg hG2 rr hrr
  · intro D hD
    rcases List.mem_append.mp hD with hD | hD
    · exact Or.inl hD
    · simp only [List.mem_singleton] at hD
      subst hD
      exact Or.inr ⟨D.nsRR ttl, List.mem_append_left _ List.mem_cons_self, httl, rfl, rfl⟩
  · intro D hD
    rcases hG3 D hD with h1 | ⟨h1, h2⟩
    · exact Or.inl h1
    · subst h1
      exact Or.inr ⟨D.glueRR, List.mem_append_right _ h2, hgt D hC, rfl, rfl⟩


/-! ## The descent along a glued delegation path, exporting the cache invariant -/

/-- THE DESCENT (as `uni_descend`) under a glue policy that serves glue for every server of the
    path, over the generalised cache invariant. -/
theorem uni2_descend {gp : List RR → List RR} {U : Universe} {cfg : RecCfg} (h : UniOKG gp U cfg) (q : Question)
    (hq : QuestionOK q) {Y Z : UEntry} {rest : List UEntry} (hp : DelegPath U q Y rest Z)
    (hz : (Z.zone.resolve q.name q.qtype).isSome = true) (K : List (Name × Nat)) (T : Nat) :
    ∀ (f : Nat) (st : St) (V G : List UEntry), (∀ C ∈ rest, (C.host, RT_A) ∉ K) → st.run.timedOut = false →
      st.run.elapsedMs + totalDelay (Y :: rest) < RESOLVE_TIMEOUT_MS →
      st.ctx.stack.length ≠ RECURSION_LIMIT →
      (∀ C ∈ rest, uniHostQ C.host ∉ st.ctx.stack) →
      (isAddrQ q → ∀ C ∈ rest, q.name ≠ C.host) →
      (∀ C ∈ rest, localMiss st.ctx.zones C.host RT_A = true) →
      (∀ C ∈ rest, ∀ ttl, C.glueRR ∈ gp [C.nsRR ttl]) →
      st.ctx.now + NANOS ≤ T → (∀ E ∈ U, T ≤ st.ctx.now + E.glueTtl * NANOS) →
      (∀ Y' ∈ Y :: rest, ∀ (C : UEntry) (ttl : Nat), Y'.zone.resolve q.name q.qtype = some (.delegation [C.nsRR ttl]) →
        T ≤ st.ctx.now + ttl * NANOS) →
      (∀ E ∈ G, E ∈ U) →
      uni2_Cache V G K st.ctx.cache T →
      UniAddrKnown st.ctx Y.host Y.addr →
      ∃ stZ, candidateLoop cfg (rest.length + f + 2) st q [] Y.apex.labels.length [Y.host] [] true =
          candidateLoop cfg (f + 2) stZ q [] Z.apex.labels.length [Z.host] [] true ∧
        stZ.run.timedOut = false ∧
        stZ.run.elapsedMs + Z.delayMs = st.run.elapsedMs + totalDelay (Y :: rest) ∧
        stZ.run.log ++ [Z.exchange cfg.port q] = st.run.log ++ (Y :: rest).map (·.exchange cfg.port q) ∧
        stZ.ctx.stack = st.ctx.stack ∧ stZ.ctx.zones = st.ctx.zones ∧ stZ.ctx.now = st.ctx.now ∧
        uni2_Cache (V ++ rest) (G ++ rest) K stZ.ctx.cache T ∧
        UniAddrKnown stZ.ctx Z.host Z.addr := by
  induction hp with
  | here Z hZ =>
    intro f st V G _ hlive _ _ _ _ _ _ _ _ _ _ hcache hk
    refine ⟨st, by simp, hlive, by simp [totalDelay], by simp, rfl, rfl, rfl, by simpa using hcache, hk⟩
  | down Y C Z rest ttl hY hC hres httl hdepth hpath ih =>
    intro f st V G hK hlive ht hlim hnotin hqa hmiss hgl hT hTg hTn hG hcache hk
    have hsub := uni_path_sub hpath hz
    rw [uni_totalDelay_cons] at ht
    have hfuel : (C :: rest).length + f + 2 = (rest.length + f + 1) + 2 := by
      simp only [List.length_cons]; omega
    rw [hfuel, uni2_referral_core h q hq Y C ttl hY hres hdepth hsub (fun h1 => hqa h1 C List.mem_cons_self)
      (rest.length + f + 1) st hlive (by omega) hk]
    obtain ⟨hp1, hp2, hp3, hp4⟩ :=
      uni2_afterReferral_proj st cfg.port q Y ([C.nsRR ttl] ++ gp [C.nsRR ttl])
    have hcache3 : uni2_Cache (V ++ [C]) (G ++ [C]) K
        (uni2_afterReferral st cfg.port q Y ([C.nsRR ttl] ++ gp [C.nsRR ttl])).ctx.cache T :=
      uni2_afterReferral_cache h.sub h.hosts h.glueTtl st cfg.port q Y C hC ttl httl hTg
        (hTn Y List.mem_cons_self C ttl hres) V G (G ++ [C]) K hcache hk
        (fun D hD => List.mem_append_left _ hD) (fun _ => by simp)
        (fun D hD => by
          rcases List.mem_append.mp hD with hD | hD
          · exact Or.inl hD
          · simp only [List.mem_singleton] at hD
            exact Or.inr ⟨hD, hgl C List.mem_cons_self ttl⟩)
    have hG' : ∀ E ∈ G ++ [C], E ∈ U := by
      intro E hE
      rcases List.mem_append.mp hE with hE | hE
      · exact hG E hE
      · simp only [List.mem_singleton] at hE
        subst hE; exact hC
    generalize hst1 : uni2_afterReferral st cfg.port q Y ([C.nsRR ttl] ++ gp [C.nsRR ttl]) = st1 at *
    have hk3 : UniAddrKnown st1.ctx C.host C.addr := by
      apply uni2_addr_cached (V := V ++ [C]) (G := G ++ [C]) (K := K) (T := T) h.hosts hG' C hC hcache3.1
      · rw [hp3]; exact hT
      · exact hK C List.mem_cons_self
      · exact hcache3.2.2 C (by simp)
      · rw [hp2]; exact hmiss C List.mem_cons_self
      · rw [hp1]; exact hlim
      · rw [hp1]; exact hnotin C List.mem_cons_self
    obtain ⟨stZ, h1, h2, h3, h4, h5, h6, h7, h8, h9⟩ := ih hz f st1 (V ++ [C]) (G ++ [C])
      (fun D hD => hK D (List.mem_cons_of_mem _ hD))
      (by rw [hp4]) (by rw [hp4]; simp only; omega)
      (by rw [hp1]; exact hlim)
      (fun D hD => by rw [hp1]; exact hnotin D (List.mem_cons_of_mem _ hD))
      (fun h1 D hD => hqa h1 D (List.mem_cons_of_mem _ hD))
      (fun D hD => by rw [hp2]; exact hmiss D (List.mem_cons_of_mem _ hD))
      (fun D hD => hgl D (List.mem_cons_of_mem _ hD))
      (by rw [hp3]; exact hT) (by rw [hp3]; exact hTg)
      (fun Y' hY' => by rw [hp3]; exact hTn Y' (List.mem_cons_of_mem _ hY'))
      hG' hcache3 hk3
    refine ⟨stZ, h1, h2, ?_, ?_, ?_, ?_, ?_, ?_, h9⟩
    · rw [h3, hp4]; simp only [uni_totalDelay_cons]; omega
    · rw [h4, hp4]; simp
    · rw [h5]; exact hp1
    · rw [h6]; exact hp2
    · rw [h7]; exact hp3
    · have e1 : V ++ C :: rest = (V ++ [C]) ++ rest := by simp
      have e2 : G ++ C :: rest = (G ++ [C]) ++ rest := by simp
      rw [e1, e2]; exact h8

/-- THE LOOP INVARIANT (as `uni_loop`), exporting the final cache: the result's records inserted
    into a cache satisfying the invariant for the zones of the path. -/
theorem uni2_loop {gp : List RR → List RR} {U : Universe} {cfg : RecCfg} (h : UniOKG gp U cfg) (q : Question)
    (hq : QuestionOK q) {Y Z : UEntry} {rest : List UEntry} (hp : DelegPath U q Y rest Z) (res : ResolvedRecord)
    (hexp : expectedAt Z q = some res)
    (hans : ∀ rrs, Z.zone.resolve q.name q.qtype = some (.answer rrs) → UniAnswerOK q rrs)
    (K : List (Name × Nat)) (T : Nat) (hK : ∀ C ∈ rest, (C.host, RT_A) ∉ K)
    (f : Nat) (st : St) (V G : List UEntry) (hf : rest.length ≤ f) (hlive : st.run.timedOut = false)
    (ht : st.run.elapsedMs + totalDelay (Y :: rest) < RESOLVE_TIMEOUT_MS)
    (hlim : st.ctx.stack.length ≠ RECURSION_LIMIT)
    (hnotin : ∀ C ∈ rest, uniHostQ C.host ∉ st.ctx.stack)
    (hqa : isAddrQ q → ∀ C ∈ rest, q.name ≠ C.host)
    (hmiss : ∀ C ∈ rest, localMiss st.ctx.zones C.host RT_A = true)
    (hgl : ∀ C ∈ rest, ∀ ttl, C.glueRR ∈ gp [C.nsRR ttl])
    (hT : st.ctx.now + NANOS ≤ T) (hTg : ∀ E ∈ U, T ≤ st.ctx.now + E.glueTtl * NANOS)
    (hTn : ∀ Y' ∈ Y :: rest, ∀ (C : UEntry) (ttl : Nat), Y'.zone.resolve q.name q.qtype = some (.delegation [C.nsRR ttl]) →
      T ≤ st.ctx.now + ttl * NANOS)
    (hG : ∀ E ∈ G, E ∈ U) (hcache : uni2_Cache V G K st.ctx.cache T)
    (hk : UniAddrKnown st.ctx Y.host Y.addr) :
    ∃ st', candidateLoop cfg (f + 2) st q [] Y.apex.labels.length [Y.host] [] true = (st', .ok res) ∧
      st'.run = uniRun st.run cfg.port q (Y :: rest) ∧
      st'.ctx.stack = st.ctx.stack ∧ st'.ctx.zones = st.ctx.zones ∧ st'.ctx.now = st.ctx.now ∧
      ∃ c1, st'.ctx.cache = sharedInsertAll c1 res.rrs st.ctx.now ∧
        uni2_Cache (V ++ rest) (G ++ rest) K c1 T := by
  obtain ⟨stZ, h1, h2, h3, h4, h5, h6, h7, h8, h9⟩ := uni2_descend h q hq hp (uni_expected_isSome hexp) K T
    (f - rest.length) st V G hK hlive ht hlim hnotin hqa hmiss hgl hT hTg hTn hG hcache hk
  have hfu : rest.length + (f - rest.length) + 2 = f + 2 := by omega
  rw [hfu] at h1
  have hZ := uni_path_end_mem hp
  obtain ⟨m, rrs, soa, hm, hv, hr⟩ :=
    uni2_terminal gp Z q res Z.apex.labels.length hq.qtype hexp hans (Nat.le_refl _)
  have ho := h.faithful Z hZ q false false
  rw [hm] at ho
  rw [h1, uni_loop_query cfg (f - rest.length) stZ q _ Z m h.mode h2 h9 ho hq.fits (h.delay Z hZ)
    (by omega) (uni2_authReplyG_matches hm), hv]
  subst hr
  simp only [uni_afterReply, prioritisingMerge_nil]
  obtain ⟨r0, _, _, hsame⟩ := h9
  refine ⟨_, rfl, ?_, ?_, ?_, ?_, ?_⟩
  · simp only [uniRun, h3, h4]
  · simp only [Ctx.cacheInsertAll]; rw [resolveLocal_stack]; exact h5
  · simp only [Ctx.cacheInsertAll]; rw [resolveLocal_zones]; exact h6
  · simp only [Ctx.cacheInsertAll]; rw [resolveLocal_now]; exact h7
  · refine ⟨(resolveLocal (RECURSION_LIMIT + 1) stZ.ctx (uniHostQ Z.host)).1.cache, ?_, uni2_cache_same h8 hsame⟩
    simp only [Ctx.cacheInsertAll, ResolvedRecord.rrs]
    rw [resolveLocal_now, h7]


/-! ## The machine from a warm state -/

/-- With a warm cache the walk up from a name ends at the deepest zone `Y'` whose NS set is cached
    (or at the root hints). -/
theorem uni2_candidates_warm {U : Universe} (hapex : ∀ E ∈ U, ∀ E' ∈ U, E.apex = E'.apex → E.host = E'.host)
    (zs : Zones) (V G : List UEntry) (K : List (Name × Nat)) (T : Nat) (hV : ∀ C ∈ V, C ∈ U) (Y' : UEntry)
    (hY' : (Y' ∈ V ∧ localMiss zs Y'.apex RT_NS = true ∧ (Y'.apex, RT_NS) ∉ K) ∨
      (Y'.apex = Name.root ∧ RootHints zs Y'.host Y'.addr))
    (hwf : Name.fromLabels Y'.apex.labels = some Y'.apex) :
    ∀ (ls : List Label) (st : St), st.ctx.zones = zs → uni2_Cache V G K st.ctx.cache T →
      st.ctx.now + NANOS ≤ T →
      st.ctx.stack.length ≠ RECURSION_LIMIT → (∀ q0 ∈ st.ctx.stack, q0.qtype ≠ RT_NS) →
      Y'.apex.labels <:+ ls → warmMissK zs V K Y'.apex.labels.length ls = true →
      ∃ st', candidateNameservers st ls = (st', some ⟨[Y'.host], Y'.apex⟩) ∧ st'.run = st.run ∧
        st'.ctx.stack = st.ctx.stack ∧ st'.ctx.zones = st.ctx.zones ∧ st'.ctx.now = st.ctx.now ∧
        UniSameStore st.ctx.cache st'.ctx.cache := by
  intro ls
  induction ls with
  | nil =>
    intro st _ _ _ _ _ hsuf _
    have : Y'.apex.labels = [] := by simpa using hsuf
    rw [this] at hwf
    simp [Name.fromLabels] at hwf
  | cons l ls ih =>
    intro st hzs hcache hT hlim hstack hsuf hwm
    have hnotin : ∀ n, uniNsQ n ∉ st.ctx.stack := fun n hn => hstack _ hn rfl
    unfold warmMissK at hwm
    by_cases hlen : (l :: ls).length ≤ Y'.apex.labels.length
    · have heq : Y'.apex.labels = l :: ls := by
        rcases List.suffix_cons_iff.mp hsuf with h1 | h1
        · exact h1
        · have := h1.length_le
          simp only [List.length_cons] at hlen
          omega
      rw [candidateNameservers, ← heq, hwf]
      simp only
      have e : ({ name := Y'.apex, qtype := RT_NS, qclass := CLASS_IN } : Question) = uniNsQ Y'.apex := rfl
      rw [e]
      rcases hY' with ⟨hYV, hmiss, hKn⟩ | ⟨hroot, hh⟩
      · obtain ⟨h1, h2⟩ := uni2_cache_lookup_ns hcache.1 hT hV hapex Y' hYV hKn (hcache.2.1 Y' hYV)
        have := uni_local_hit RECURSION_LIMIT st.ctx (uniNsQ Y'.apex) hlim (hnotin _) (by rw [hzs]; exact hmiss)
          (by show RT_NS ≠ QTYPE_WILDCARD; decide) (by rw [Ctx.cacheGet_snd]; exact h1)
        rw [this]
        have e2 : (st.ctx.cacheGet (uniNsQ Y'.apex).name (uniNsQ Y'.apex).qtype).2 =
            (cacheGet st.ctx.cache Y'.apex RT_NS st.ctx.now).2 := rfl
        simp only [ResolvedRecord.rrs, e2, h2, List.isEmpty_cons, Bool.not_false, if_true]
        refine ⟨_, rfl, rfl, by simp [Ctx.cacheGet], by simp [Ctx.cacheGet], by simp [Ctx.cacheGet], ?_⟩
        show UniSameStore st.ctx.cache (st.ctx.cacheGet Y'.apex RT_NS).1.cache
        rw [Ctx.cacheGet_fst_cache]; exact uni_sameStore_get _ _ _ _
      · obtain ⟨z, ttl, hz, hs⟩ := hh.ns
        rw [hroot]
        have := uni_local_zone_answer RECURSION_LIMIT st.ctx (uniNsQ Name.root) z _ hlim (hnotin _)
          (by rw [hzs]; exact hz) hs (by show RT_NS ≠ QTYPE_WILDCARD; decide) (by simp)
        rw [this]
        simp only [ResolvedRecord.rrs, List.filterMap_cons, nsTarget, List.filterMap_nil]
        simp only [beq_self_eq_true, if_true, List.isEmpty_cons, Bool.not_false]
        exact ⟨_, rfl, rfl, rfl, rfl, rfl, uni_sameStore_refl _⟩
    · rw [if_neg hlen] at hwm
      simp only [Bool.and_eq_true] at hwm
      have hsuf' : Y'.apex.labels <:+ ls := by
        rcases List.suffix_cons_iff.mp hsuf with h1 | h1
        · rw [h1] at hlen; exact absurd (Nat.le_refl _) hlen
        · exact h1
      rw [candidateNameservers]
      cases hn : Name.fromLabels (l :: ls) with
      | none => simp only; exact ih st hzs hcache hT hlim hstack hsuf' hwm.2
      | some name =>
        rw [hn] at hwm
        simp only [Bool.and_eq_true, Bool.not_eq_true', List.all_eq_true, bne_iff_ne, ne_eq] at hwm
        obtain ⟨⟨⟨⟨hm1, hm2⟩, hm2'⟩, hm3⟩, hm4⟩ := hwm
        have hk1 : (name, RT_NS) ∉ K := by
          intro hc
          have : K.contains (name, RT_NS) = true := by simpa using hc
          rw [this] at hm2; cases hm2
        have hk2 : (name, RT_CNAME) ∉ K := by
          intro hc
          have : K.contains (name, RT_CNAME) = true := by simpa using hc
          rw [this] at hm2'; cases hm2'
        have ht1 : tuplesAt st.ctx.cache name RT_NS = [] :=
          uni2_sound_empty hcache.1 name RT_NS (fun hh => by rcases hh with hh | hh <;> cases hh)
            (fun _ C hC => hm3 C hC) hk1
        have ht2 : tuplesAt st.ctx.cache name RT_CNAME = [] :=
          uni2_sound_empty hcache.1 name RT_CNAME (fun hh => by rcases hh with hh | hh <;> cases hh)
            (fun hh => by cases hh) hk2
        obtain ⟨ctx', he, hs1, hs2, hs3, hs4⟩ := uni_local_warm_miss RECURSION_LIMIT st.ctx (uniNsQ name) hlim
          (hnotin _) (by rw [hzs]; exact hm1) uni_lookupNat_NS ht1 ht2
        simp only
        have e : ({ name := name, qtype := RT_NS, qclass := CLASS_IN } : Question) = uniNsQ name := rfl
        rw [e, he]
        simp only [List.isEmpty_nil, Bool.not_true, Bool.false_eq_true, if_false]
        obtain ⟨st', h1, h2, h3, h4, h5, h6⟩ := ih ⟨ctx', st.run⟩ (by show ctx'.zones = zs; rw [hs2]; exact hzs)
          (by show uni2_Cache V G K ctx'.cache T; exact uni2_cache_same hcache hs4)
          (by show ctx'.now + NANOS ≤ T; rw [hs3]; exact hT)
          (by show ctx'.stack.length ≠ RECURSION_LIMIT; rw [hs1]; exact hlim)
          (by show ∀ q0 ∈ ctx'.stack, q0.qtype ≠ RT_NS; rw [hs1]; exact hstack) hsuf' hm4
        exact ⟨st', h1, h2, by rw [h3]; exact hs1, by rw [h4]; exact hs2, by rw [h5]; exact hs3,
          uni_sameStore_trans hs4 h6⟩

/-- THE MACHINE from a warm state (as `uni_resolveRec_warm`), over the generalised invariant, at any
    time at which the cached NS sets and addresses are still alive, exporting the final cache. -/
theorem uni2_resolveRec_warm {gp : List RR → List RR} {U : Universe} {cfg : RecCfg} (h : UniOKG gp U cfg)
    (q' : Question) (hq' : QuestionOK q') (hnotNS : q'.qtype ≠ RT_NS)
    {Y' Z' : UEntry} {rest' : List UEntry} (hp' : DelegPath U q' Y' rest' Z') (res' : ResolvedRecord)
    (hexp' : expectedAt Z' q' = some res')
    (hans' : ∀ rrs, Z'.zone.resolve q'.name q'.qtype = some (.answer rrs) → UniAnswerOK q' rrs)
    (zs : Zones) (V G : List UEntry) (K : List (Name × Nat)) (T : Nat) (hV : ∀ C ∈ V, C ∈ U) (hG : ∀ C ∈ G, C ∈ U)
    (hKA : ∀ E ∈ Y' :: rest', (E.host, RT_A) ∉ K)
    (hY' : (Y' ∈ V ∧ Y' ∈ G ∧ localMiss zs Y'.apex RT_NS = true ∧ localMiss zs Y'.host RT_A = true ∧
        (Y'.apex, RT_NS) ∉ K) ∨
      (Y'.apex = Name.root ∧ RootHints zs Y'.host Y'.addr))
    (hwf : Name.fromLabels Y'.apex.labels = some Y'.apex)
    (st : St) (hzs : st.ctx.zones = zs) (hcache : uni2_Cache V G K st.ctx.cache T)
    (hT : st.ctx.now + NANOS ≤ T) (hTg : ∀ E ∈ U, T ≤ st.ctx.now + E.glueTtl * NANOS)
    (hTn : ∀ Y ∈ Y' :: rest', ∀ (C : UEntry) (ttl : Nat),
      Y.zone.resolve q'.name q'.qtype = some (.delegation [C.nsRR ttl]) → T ≤ st.ctx.now + ttl * NANOS)
    (hgl : ∀ C ∈ rest', ∀ ttl, C.glueRR ∈ gp [C.nsRR ttl])
    (hlive : st.run.timedOut = false) (hlim : st.ctx.stack.length + 1 < RECURSION_LIMIT)
    (hst : ∀ q0 ∈ st.ctx.stack, q0.qtype ≠ RT_NS ∧ q0 ≠ q' ∧ ∀ E ∈ Y' :: rest', q0 ≠ uniHostQ E.host)
    (hqmiss : localMiss zs q'.name q'.qtype = true)
    (hqA : isAddrQ q' → ∀ E ∈ G ++ rest', q'.name ≠ E.host) (hqY : q' ≠ uniHostQ Y'.host)
    (hqK : (q'.name, q'.qtype) ∉ K ∧ (q'.name, RT_CNAME) ∉ K)
    (hwarm : warmMissK zs V K Y'.apex.labels.length q'.name.labels = true)
    (hmiss' : ∀ C ∈ rest', localMiss zs C.host RT_A = true)
    (ht : st.run.elapsedMs + totalDelay (Y' :: rest') < RESOLVE_TIMEOUT_MS) (f2 : Nat) (hf : rest'.length ≤ f2) :
    ∃ st', resolveRec cfg (f2 + 3) st q' = (st', .ok res') ∧
      st'.run = uniRun st.run cfg.port q' (Y' :: rest') ∧ st'.ctx.stack = st.ctx.stack ∧
      st'.ctx.zones = zs ∧ st'.ctx.now = st.ctx.now ∧
      ∃ c1, st'.ctx.cache = sharedInsertAll c1 res'.rrs st.ctx.now ∧
        uni2_Cache (V ++ rest') (G ++ rest') K c1 T := by
  have hmem := uni_path_mem hp'
  have hsuf : Y'.apex.labels <:+ q'.name.labels := by
    have := uni_path_sub hp' (uni_expected_isSome hexp')
    unfold Name.isSubdomainOf at this
    exact List.isSuffixOf_iff_suffix.mp this
  have ht1 : tuplesAt st.ctx.cache q'.name q'.qtype = [] :=
    uni2_sound_empty hcache.1 q'.name q'.qtype
      (fun hh E hE he => hqA hh E (List.mem_append_left _ hE) he.symm)
      (fun hh => absurd hh hnotNS) hqK.1
  have ht2 : tuplesAt st.ctx.cache q'.name RT_CNAME = [] :=
    uni2_sound_empty hcache.1 q'.name RT_CNAME (fun hh => by rcases hh with hh | hh <;> cases hh)
      (fun hh => by cases hh) hqK.2
  have hnd : q' ∉ st.ctx.stack := fun hin => (hst q' hin).2.1 rfl
  obtain ⟨ctx4, hloc, hs1, hs2, hs3, hs4⟩ := uni_local_warm_miss RECURSION_LIMIT st.ctx q' (by omega) hnd
    (by rw [hzs]; exact hqmiss) hq'.qtype ht1 ht2
  have hcands := uni2_candidates_warm h.apexes zs V G K T hV Y'
    (hY'.imp (fun hh => ⟨hh.1, hh.2.2.1, hh.2.2.2.2⟩) id) hwf q'.name.labels ⟨ctx4.push q', st.run⟩
    (by show ctx4.zones = zs; rw [hs2]; exact hzs)
    (by show uni2_Cache V G K ctx4.cache T; exact uni2_cache_same hcache hs4)
    (by show ctx4.now + NANOS ≤ T; rw [hs3]; exact hT)
    (by simp only [Ctx.push, List.length_append, List.length_singleton, hs1]; omega)
    (by
      intro q0 hq0
      simp only [Ctx.push, List.mem_append, List.mem_singleton, hs1] at hq0
      rcases hq0 with hq0 | rfl
      · exact (hst q0 hq0).1
      · exact hnotNS)
    hsuf hwarm
  obtain ⟨st5, hc1, hc2, hc3, hc4, hc5, hc6⟩ := hcands
  have hc3' : st5.ctx.stack = st.ctx.stack ++ [q'] := by rw [hc3]; simp [Ctx.push, hs1]
  have hc4' : st5.ctx.zones = zs := by rw [hc4]; show ctx4.zones = zs; rw [hs2]; exact hzs
  have hc5' : st5.ctx.now = st.ctx.now := by rw [hc5]; exact hs3
  have hcache5 : uni2_Cache V G K st5.ctx.cache T :=
    uni2_cache_same (uni2_cache_same hcache hs4) hc6
  have hnotinE : ∀ E ∈ Y' :: rest', uniHostQ E.host ∉ st5.ctx.stack := by
    intro E hE hin
    rw [hc3'] at hin
    rcases List.mem_append.mp hin with hin | hin
    · exact (hst _ hin).2.2 E hE rfl
    · simp only [List.mem_singleton] at hin
      rcases List.mem_cons.mp hE with rfl | hE
      · exact hqY hin.symm
      · have h1 : q'.qtype = RT_A := by rw [← hin]; rfl
        exact hqA (Or.inl h1) E (List.mem_append_right _ hE) (by rw [← hin]; rfl)
  have hlim5 : st5.ctx.stack.length ≠ RECURSION_LIMIT := by
    rw [hc3']; simp only [List.length_append, List.length_singleton]; omega
  have hk5 : UniAddrKnown st5.ctx Y'.host Y'.addr := by
    rcases hY' with ⟨hYV, hYG, _, hm2, _⟩ | ⟨_, hh⟩
    · exact uni2_addr_cached h.hosts hG Y' hmem.1 hcache5.1 (by rw [hc5']; exact hT) (hKA Y' List.mem_cons_self)
        (hcache5.2.2 Y' hYG) (by rw [hc4']; exact hm2) hlim5 (hnotinE Y' List.mem_cons_self)
    · exact uni_addr_hints (by rw [hc4']; exact hh) hlim5 (hnotinE Y' List.mem_cons_self)
  obtain ⟨st6, h1, h2, h3, h4, h5, c1, h6, h7⟩ := uni2_loop h q' hq' hp' res' hexp' hans' K T
    (fun C hC => hKA C (List.mem_cons_of_mem _ hC)) f2 st5 V G hf
    (by rw [hc2]; exact hlive) (by rw [hc2]; exact ht) hlim5
    (fun C hC => hnotinE C (List.mem_cons_of_mem _ hC))
    (fun h1 C hC => hqA h1 C (List.mem_append_right _ hC))
    (fun C hC => by rw [hc4']; exact hmiss' C hC) hgl
    (by rw [hc5']; exact hT) (by rw [hc5']; exact hTg) (by rw [hc5']; exact hTn) hG hcache5 hk5
  refine ⟨⟨st6.ctx.pop, st6.run⟩, ?_, by rw [h2, hc2], by simp [Ctx.pop, h3, hc3'], ?_, ?_, c1, ?_, h7⟩
  · have hlimb : st.ctx.atRecursionLimit = false := by
      simp only [Ctx.atRecursionLimit, beq_eq_false_iff_ne, ne_eq]; omega
    have hdup : st.ctx.isDuplicate q' = false := Ctx.not_duplicate hnd
    rw [show f2 + 3 = (f2 + 2) + 1 from rfl, resolveRec]
    simp only [hlive, hlimb, hdup, Bool.false_eq_true, if_false, hloc, hc1, Nameservers.matchCount, h1]
  · show st6.ctx.zones = zs
    rw [h4]; exact hc4'
  · show st6.ctx.now = st.ctx.now
    rw [h5]; exact hc5'
  · show st6.ctx.cache = _
    rw [h6, hc5']


/-! ## What an answer leaves in the cache, and what a later lookup returns -/

/-- `upsert` of a value that is not stored yet appends it to the tuple list of its key. -/
theorem uni2_tuplesAt_upsert_fresh {c : PCache} (k : Name) {rk : Nat} {v : CRec} (ttl now : Nat)
    (hv : v ∉ (tuplesAt c k rk).map (·.1)) :
    tuplesAt (c.upsert k rk v ttl now) k rk = tuplesAt c k rk ++ [(v, now + ttl)] := by
  cases hp : AL.get c.partitions k with
  | none =>
    rw [upsert_new rk v ttl now hp, tuplesAt_of_none hp]
    simp [tuplesAt, recsAt, AL.get_set, AL.get]
  | some p =>
    cases hg : AL.get p.records rk with
    | none =>
      have hts : tuplesAt c k rk = [] := by rw [tuplesAt_of_get hp, hg]; rfl
      rw [upsert_fresh_none rk v ttl now hp hg, hts]
      simp [tuplesAt, recsAt, AL.get_set]
    | some ts =>
      have hts : tuplesAt c k rk = ts := by rw [tuplesAt_of_get hp, hg]; rfl
      have hd : PCache.findDup ts v = none := findDup_none.mpr (by rw [← hts]; exact hv)
      rw [upsert_fresh_some rk v ttl now hp hg hd, hts]
      simp [tuplesAt, recsAt, AL.get_set]

/-- the tuple a record is stored as. -/
def uni2_tupleOf (now : Nat) (rr : RR) : CRec × Nat := (⟨rr.rtype, rr.fields⟩, now + rr.ttl * NANOS)

/-- inserting records of one name and type with TTL > 0 and pairwise different data, none of it
    stored yet, appends their tuples in order. -/
theorem uni2_tuplesAt_insertAll_fresh (name : Name) (rk now : Nat) (rrs : List RR) : ∀ (c : PCache), Inv c →
    (∀ rr ∈ rrs, rr.name = name ∧ rr.rtype = rk ∧ 0 < rr.ttl) → (rrs.map (·.fields)).Nodup →
    (∀ rr ∈ rrs, (⟨rk, rr.fields⟩ : CRec) ∉ (tuplesAt c name rk).map (·.1)) →
    tuplesAt (sharedInsertAll c rrs now) name rk = tuplesAt c name rk ++ rrs.map (uni2_tupleOf now) := by
  unfold sharedInsertAll
  induction rrs with
  | nil => intro c _ _ _ _; simp
  | cons r rrs ih =>
    intro c hi hall hnd hfresh
    obtain ⟨h1, h2, h3⟩ := hall r List.mem_cons_self
    simp only [List.map_cons, List.nodup_cons] at hnd
    have hstep : tuplesAt (sharedInsert c r now) name rk = tuplesAt c name rk ++ [uni2_tupleOf now r] := by
      unfold sharedInsert cacheInsert
      rw [if_pos h3, h1, h2]
      rw [uni2_tuplesAt_upsert_fresh name (r.ttl * NANOS) now (hfresh r List.mem_cons_self)]
      simp [uni2_tupleOf, h2]
    simp only [List.foldl_cons]
    rw [ih (sharedInsert c r now) (hi.sharedInsert r now) (fun rr hr => hall rr (List.mem_cons_of_mem _ hr)) hnd.2
      (by
        intro rr hr
        rw [hstep]
        simp only [List.map_append, List.map_cons, List.map_nil, List.mem_append, List.mem_singleton, not_or]
        refine ⟨hfresh rr (List.mem_cons_of_mem _ hr), ?_⟩
        intro he
        simp only [uni2_tupleOf, h2, CRec.mk.injEq, true_and] at he
        exact hnd.1 (List.mem_map.mpr ⟨rr, hr, he⟩)), hstep]
    simp

/-- a lookup of the records `rrs` stored at time `now`, at a later time `now'` at which each of
    them has a full second left: the records, with their remaining TTLs. -/
theorem uni2_cacheGet_stored (c : PCache) (name : Name) (rk now now' : Nat) (rrs : List RR)
    (hq : lookupNat queryTypeFromU16 rk = none)
    (hts : tuplesAt c name rk = rrs.map (uni2_tupleOf now))
    (hall : ∀ rr ∈ rrs, rr.name = name ∧ now' + NANOS ≤ now + rr.ttl * NANOS) :
    (cacheGet c name rk now').2 = rrs.map (cachedRR now now') := by
  rw [uni_cacheGet_live c name rk now' hq (by
    rw [hts]
    intro t ht
    obtain ⟨rr, hr, rfl⟩ := List.mem_map.mp ht
    exact (hall rr hr).2), hts, List.map_map]
  apply List.map_congr_left
  intro rr hr
  simp [mkRR, uni2_tupleOf, cachedRR, (hall rr hr).1]

/-- a question whose records the cache holds (the local zones knowing nothing) is answered from
    the cache: no exchange. -/
theorem uni2_resolveRec_cached (cfg : RecCfg) (f : Nat) (st : St) (q : Question)
    (hlive : st.run.timedOut = false) (hlim : st.ctx.stack.length ≠ RECURSION_LIMIT) (hd : q ∉ st.ctx.stack)
    (hmiss : localMiss st.ctx.zones q.name q.qtype = true) (hq : q.qtype ≠ QTYPE_WILDCARD)
    (hne : (st.ctx.cacheGet q.name q.qtype).2 ≠ []) :
    resolveRec cfg (f + 1) st q =
      (⟨(st.ctx.cacheGet q.name q.qtype).1, st.run⟩,
        .ok (.nonAuthoritative (st.ctx.cacheGet q.name q.qtype).2 none)) := by
  rw [resolveRec]
  simp only [hlive, Ctx.not_atLimit hlim, Ctx.not_duplicate hd, Bool.false_eq_true, if_false,
    uni_local_hit RECURSION_LIMIT st.ctx q hlim hd hmiss hq hne]

theorem uni2_warm_of_cand (zs : Zones) : ∀ (ls : List Label), candMiss zs ls = true → warmMissK zs [] [] 1 ls = true := by
  intro ls
  induction ls with
  | nil => intro _; rfl
  | cons l ls ih =>
    intro hc
    unfold candMiss at hc
    unfold warmMissK
    cases ls with
    | nil => simp
    | cons l2 ls2 =>
      simp only [List.isEmpty_cons, Bool.false_or, Bool.and_eq_true] at hc
      have hlen : ¬ (l :: l2 :: ls2).length ≤ 1 := by simp
      rw [if_neg hlen]
      simp only [Bool.and_eq_true]
      refine ⟨?_, ih hc.2⟩
      cases hn : Name.fromLabels (l :: l2 :: ls2) with
      | none => rfl
      | some n =>
        rw [hn] at hc
        simp [hc.1]


/-! ## First and second question -/

theorem uni2_recursive_of_rec (cfg : RecCfg) (ctx : Ctx) (q : Question) (st' : St)
    (r : Except ResolutionError ResolvedRecord)
    (h : resolveRec cfg REC_FUEL ⟨ctx, Run.empty⟩ q = (st', r)) (hlive : st'.run.timedOut = false) :
    resolveRecursive cfg ctx q = (st', r) := by
  unfold resolveRecursive
  rw [h]
  simp only [hlive, Bool.false_eq_true, if_false]

/-- the TTL hypotheses in the form the lemmas want them. -/
theorem uni2_nsTtl {m : Nat} {q : Question} {Y : UEntry} (h : nsTtlOK m q Y = true) (C : UEntry) (ttl : Nat)
    (hres : Y.zone.resolve q.name q.qtype = some (.delegation [C.nsRR ttl])) : m ≤ ttl := by
  unfold nsTtlOK at h
  rw [hres] at h
  simpa [UEntry.nsRR] using h

/-- THE FIRST QUESTION: from the start context along the (glued) path `R :: rest`; the state it
    ends in: the result's records inserted, at time `now`, into a cache holding exactly the NS sets
    and addresses of the servers of `rest`, all alive until `T`. -/
theorem uni2_first {gp : List RR → List RR} {U : Universe} {cfg : RecCfg} (h : UniOKG gp U cfg) (q : Question)
    (hq : QuestionOK q) (hnotNS : q.qtype ≠ RT_NS)
    {R Z : UEntry} {rest : List UEntry} (hp : DelegPath U q R rest Z) (res : ResolvedRecord)
    (hexp : expectedAt Z q = some res)
    (hans : ∀ rrs, Z.zone.resolve q.name q.qtype = some (.answer rrs) → UniAnswerOK q rrs)
    (zs : Zones) (d now T : Nat) (hs : UniStart zs q R rest)
    (hgl : ∀ C ∈ rest, ∀ ttl, C.glueRR ∈ gp [C.nsRR ttl])
    (hT : now + NANOS ≤ T) (hTg : ∀ E ∈ U, T ≤ now + E.glueTtl * NANOS)
    (hTn : ∀ Y ∈ R :: rest, ∀ (C : UEntry) (ttl : Nat),
      Y.zone.resolve q.name q.qtype = some (.delegation [C.nsRR ttl]) → T ≤ now + ttl * NANOS) :
    ∃ st', resolveRecursive cfg (startCtx zs d now) q = (st', .ok res) ∧
      st'.run = uniRun Run.empty cfg.port q (R :: rest) ∧ st'.ctx.stack = [] ∧ st'.ctx.zones = zs ∧
      st'.ctx.now = now ∧
      ∃ c1, st'.ctx.cache = sharedInsertAll c1 res.rrs now ∧ uni2_Cache rest rest [] c1 T := by
  have hRwf : Name.fromLabels R.apex.labels = some R.apex := by rw [hs.root]; decide
  have hstop : R.apex.labels.length = 1 := by rw [hs.root]; rfl
  obtain ⟨st', h1, h2, h3, h4, h5, c1, h6, h7⟩ := uni2_resolveRec_warm h q hq hnotNS hp res hexp hans zs [] [] [] T
    (fun _ hC => nomatch hC) (fun _ hC => nomatch hC) (fun _ _ hk => nomatch hk)
    (Or.inr ⟨hs.root, hs.hints⟩) hRwf ⟨startCtx zs d now, Run.empty⟩ rfl (uni2_cache_new d T) hT hTg hTn hgl rfl
    (by simp [startCtx, RECURSION_LIMIT]) (fun _ hq0 => nomatch hq0) hs.qmiss
    (fun h1 E hE => hs.notHost h1 E (by simpa using hE)) (uni_miss_ne_hints hs.hints q hs.qmiss).2
    ⟨(fun hk => nomatch hk), (fun hk => nomatch hk)⟩
    (by rw [hstop]; exact uni2_warm_of_cand zs _ hs.cand) hs.hostsMiss
    (by simpa [Run.empty] using hs.time) (REC_FUEL - 3) (by have := hs.fuel; omega)
  have hfu : REC_FUEL - 3 + 3 = REC_FUEL := by have := hs.fuel; omega
  rw [hfu] at h1
  refine ⟨st', uni2_recursive_of_rec cfg _ q st' _ h1 (by rw [h2]; rfl), h2, h3, h4, h5, c1, h6, ?_⟩
  simpa using h7

/-- A LATER QUESTION `q2` whose name lies in the zone of a server `Z` whose NS set and address the
    cache holds (or which is the root server), no deeper cached delegation enclosing the name: one
    exchange, with `Z`. -/
theorem uni2_second {gp : List RR → List RR} {U : Universe} {cfg : RecCfg} (h : UniOKG gp U cfg) (q2 : Question)
    (hq2 : QuestionOK q2) (hnotNS : q2.qtype ≠ RT_NS) {Z : UEntry} (hZ : Z ∈ U) (res2 : ResolvedRecord)
    (hexp2 : expectedAt Z q2 = some res2)
    (hans2 : ∀ rrs, Z.zone.resolve q2.name q2.qtype = some (.answer rrs) → UniAnswerOK q2 rrs)
    (zs : Zones) (V : List UEntry) (hV : ∀ C ∈ V, C ∈ U) (K : List (Name × Nat)) (T : Nat)
    (ctx : Ctx) (hzs : ctx.zones = zs) (hstack : ctx.stack = []) (hcache : uni2_Cache V V K ctx.cache T)
    (hT : ctx.now + NANOS ≤ T) (hTg : ∀ E ∈ U, T ≤ ctx.now + E.glueTtl * NANOS)
    (hstart : (Z ∈ V ∧ localMiss zs Z.apex RT_NS = true ∧ localMiss zs Z.host RT_A = true ∧ (Z.apex, RT_NS) ∉ K) ∨
      (Z.apex = Name.root ∧ RootHints zs Z.host Z.addr))
    (hwf : Name.fromLabels Z.apex.labels = some Z.apex) (hKA : (Z.host, RT_A) ∉ K)
    (hqmiss : localMiss zs q2.name q2.qtype = true)
    (hqA : isAddrQ q2 → ∀ E ∈ V, q2.name ≠ E.host) (hqY : q2 ≠ uniHostQ Z.host)
    (hqK : (q2.name, q2.qtype) ∉ K ∧ (q2.name, RT_CNAME) ∉ K)
    (hwarm : warmMissK zs V K Z.apex.labels.length q2.name.labels = true) :
    ∃ st2, resolveRecursive cfg ctx q2 = (st2, .ok res2) ∧
      st2.run = uniRun Run.empty cfg.port q2 [Z] ∧ st2.ctx.stack = [] ∧ st2.ctx.zones = zs ∧
      st2.ctx.now = ctx.now ∧
      ∃ c1, st2.ctx.cache = sharedInsertAll c1 res2.rrs ctx.now ∧ uni2_Cache V V K c1 T := by
  have hnd := uni2_expected_nondeleg hexp2
  obtain ⟨st', h1, h2, h3, h4, h5, c1, h6, h7⟩ := uni2_resolveRec_warm h q2 hq2 hnotNS (DelegPath.here Z hZ) res2
    hexp2 hans2 zs V V K T hV hV
    (fun E hE => by simp only [List.mem_singleton] at hE; subst hE; exact hKA)
    (hstart.imp (fun hh => ⟨hh.1, hh.1, hh.2⟩) id) hwf ⟨ctx, Run.empty⟩ hzs hcache hT hTg
    (fun Y hY C ttl hres => by
      simp only [List.mem_singleton] at hY
      subst hY
      exact absurd hres (hnd _))
    (fun _ hC => nomatch hC) rfl
    (by show ctx.stack.length + 1 < RECURSION_LIMIT; rw [hstack]; simp [RECURSION_LIMIT])
    (by show ∀ q0 ∈ ctx.stack, _; rw [hstack]; exact fun _ hq0 => nomatch hq0) hqmiss
    (fun h1 E hE => hqA h1 E (by simpa using hE)) hqY hqK hwarm (fun _ hC => nomatch hC)
    (by
      have := h.delay Z hZ
      simp only [Run.empty, totalDelay, List.map_cons, List.map_nil, List.sum_cons, List.sum_nil]
      have e1 : EXCHANGE_TIMEOUT_MS = 5000 := rfl
      have e2 : RESOLVE_TIMEOUT_MS = 60000 := rfl
      omega)
    (REC_FUEL - 3) (Nat.zero_le _)
  have hfu : REC_FUEL - 3 + 3 = REC_FUEL := rfl
  rw [hfu] at h1
  refine ⟨st', uni2_recursive_of_rec cfg _ q2 st' _ h1 (by rw [h2]; rfl), h2, by rw [h3]; exact hstack, h4, h5,
    c1, h6, ?_⟩
  simpa using h7


/-- along a path whose last server does not refer further, every referral has a TTL > 0. -/
theorem uni2_path_ttl_pos {U : Universe} {q : Question} {Y Z : UEntry} {rest : List UEntry}
    (hp : DelegPath U q Y rest Z) (hnd : ∀ ns, Z.zone.resolve q.name q.qtype ≠ some (.delegation ns)) :
    ∀ Y' ∈ Y :: rest, ∀ (C : UEntry) (ttl : Nat),
      Y'.zone.resolve q.name q.qtype = some (.delegation [C.nsRR ttl]) → 0 < ttl := by
  induction hp with
  | here Z _ =>
    intro Y' hY' C ttl hres
    simp only [List.mem_singleton] at hY'
    subst hY'
    exact absurd hres (hnd _)
  | down Y C' Z rest ttl' _ _ hres httl _ _ ih =>
    intro Y' hY' C ttl hres'
    rcases List.mem_cons.mp hY' with rfl | hY'
    · rw [hres] at hres'
      have : (C'.nsRR ttl').ttl = (C.nsRR ttl).ttl := by
        simp only [Option.some.injEq, ZoneResult.delegation.injEq, List.cons.injEq, and_true] at hres'
        rw [hres']
      simp only [UEntry.nsRR] at this
      omega
    · exact ih hnd Y' hY' C ttl hres'

/-- the servers of a path are served glue by `authReply`'s policy. -/
theorem uni2_std_glued {U : Universe} {q : Question} {Y Z : UEntry} {rest : List UEntry}
    (hp : DelegPath U q Y rest Z) : ∀ C ∈ rest, ∀ ttl, C.glueRR ∈ uniGlue U [C.nsRR ttl] :=
  fun C hC _ => uni_mem_glue.mpr ⟨C, (uni_path_mem hp).2 C hC, rfl, uni_mem_glueRRs.mpr (Or.inl rfl)⟩

/-- the records of the expected result are owned by the question name and of the asked type. -/
theorem uni2_expected_rrs {Z : UEntry} {q : Question} {res : ResolvedRecord} (hexp : expectedAt Z q = some res)
    (hans : ∀ rrs, Z.zone.resolve q.name q.qtype = some (.answer rrs) → UniAnswerOK q rrs) :
    ∀ rr ∈ res.rrs, rr.name = q.name ∧ rr.rtype = q.qtype := by
  unfold expectedAt at hexp
  split at hexp
  · rename_i rrs soa hres _
    split at hexp
    · cases hexp; intro rr hrr; cases hrr
    · cases hexp
      intro rr hrr
      exact ⟨(hans rrs hres rr hrr).1, (hans rrs hres rr hrr).2.1⟩
  · cases hexp; intro rr hrr; cases hrr
  · cases hexp

/-- A REPEATED QUESTION whose records the cache holds, each with a full second left: answered from
    the cache with the remaining TTLs, without any exchange. -/
theorem uni2_repeat (cfg : RecCfg) (q : Question) (hqt : lookupNat queryTypeFromU16 q.qtype = none) (ctx : Ctx)
    (hstack : ctx.stack = []) (hmiss : localMiss ctx.zones q.name q.qtype = true) (now : Nat) (rrs : List RR)
    (hne : rrs ≠ []) (hts : tuplesAt ctx.cache q.name q.qtype = rrs.map (uni2_tupleOf now))
    (hall : ∀ rr ∈ rrs, rr.name = q.name ∧ ctx.now + NANOS ≤ now + rr.ttl * NANOS) :
    (resolveRecursive cfg ctx q).2 = .ok (.nonAuthoritative (rrs.map (cachedRR now ctx.now)) none) ∧
    (resolveRecursive cfg ctx q).1.run = Run.empty ∧
    (resolveRecursive cfg ctx q).1.ctx.stack = [] := by
  have hw : q.qtype ≠ QTYPE_WILDCARD := by
    intro hw; rw [hw] at hqt; revert hqt; decide
  have hget : (ctx.cacheGet q.name q.qtype).2 = rrs.map (cachedRR now ctx.now) := by
    rw [Ctx.cacheGet_snd]
    exact uni2_cacheGet_stored ctx.cache q.name q.qtype now ctx.now rrs hqt hts hall
  have hne' : (ctx.cacheGet q.name q.qtype).2 ≠ [] := by
    rw [hget]
    intro he
    exact hne (List.map_eq_nil_iff.mp he)
  have h1 := uni2_resolveRec_cached cfg (REC_FUEL - 1) ⟨ctx, Run.empty⟩ q rfl
    (by show ctx.stack.length ≠ RECURSION_LIMIT; rw [hstack]; simp [RECURSION_LIMIT])
    (by show q ∉ ctx.stack; rw [hstack]; simp) hmiss hw hne'
  have hfu : REC_FUEL - 1 + 1 = REC_FUEL := rfl
  rw [hfu] at h1
  rw [uni2_recursive_of_rec cfg ctx q _ _ h1 rfl]
  refine ⟨by simp only [hget], rfl, ?_⟩
  show (ctx.cacheGet q.name q.qtype).1.stack = []
  simp [Ctx.cacheGet, hstack]


/-- a name and type the local zones miss is not the address of the root server the hints hold. -/
theorem uni2_miss_ne_hints_key {zs : Zones} {host : Name} {addr : Nat} (hh : RootHints zs host addr) {name : Name}
    {t : Nat} (hq : localMiss zs name t = true) : ¬ (name = host ∧ t = RT_A) := by
  rintro ⟨rfl, rfl⟩
  obtain ⟨z, ttl, hz, _⟩ := hh.a
  unfold localMiss at hq
  rw [hz] at hq
  simp at hq


/-! ## A candidate without address: set aside, resolved recursively, contacted -/

theorem uni2_lookupNat_AAAA : lookupNat queryTypeFromU16 RT_AAAA = none := by decide

/-- one LOCAL attempt of `resolve_hostname_to_ip` for a type about which nothing is known. -/
theorem uni2_tryTypes_local_step (cfg : RecCfg) (f : Nat) (st : St) (host : Name) (t : Nat) (more : List Nat)
    (hlive : st.run.timedOut = false) (hlim : st.ctx.stack.length ≠ RECURSION_LIMIT)
    (hnd : ({ name := host, qclass := CLASS_IN, qtype := t } : Question) ∉ st.ctx.stack)
    (hmiss : localMiss st.ctx.zones host t = true) (hq : lookupNat queryTypeFromU16 t = none)
    (h1 : tuplesAt st.ctx.cache host t = []) (h2 : tuplesAt st.ctx.cache host RT_CNAME = []) :
    ∃ ctx', tryTypes cfg (f + 1) st true host (t :: more) = tryTypes cfg f ⟨ctx', st.run⟩ true host more ∧
      ctx'.stack = st.ctx.stack ∧ ctx'.zones = st.ctx.zones ∧ ctx'.now = st.ctx.now ∧
      UniSameStore st.ctx.cache ctx'.cache := by
  obtain ⟨ctx', he, hs1, hs2, hs3, hs4⟩ := uni_local_warm_miss RECURSION_LIMIT st.ctx
    { name := host, qclass := CLASS_IN, qtype := t } hlim hnd hmiss hq h1 h2
  refine ⟨ctx', ?_, hs1, hs2, hs3, hs4⟩
  rw [tryTypes]
  simp only [hlive, Bool.false_eq_true, if_false, if_true, he]

theorem uni2_tryTypes_nil (cfg : RecCfg) (f : Nat) (st : St) (locally : Bool) (host : Name) :
    tryTypes cfg f st locally host [] = (st, none) := by
  cases f <;> simp [tryTypes]

/-- `resolve_hostname_to_ip`, LOCAL pass, for a host about which neither the local zones nor the
    cache know anything: no address; the cache is only touched. -/
theorem uni2_tryTypes_miss (cfg : RecCfg) (hmode : cfg.mode = .onlyV4 ∨ cfg.mode = .preferV4) (f : Nat) (st : St)
    (host : Name) (hlive : st.run.timedOut = false) (hlim : st.ctx.stack.length ≠ RECURSION_LIMIT)
    (hnd : uniHostQ host ∉ st.ctx.stack ∧ uniHost6Q host ∉ st.ctx.stack)
    (hmiss : localMiss st.ctx.zones host RT_A = true ∧ localMiss st.ctx.zones host RT_AAAA = true)
    (h1 : tuplesAt st.ctx.cache host RT_A = []) (h2 : tuplesAt st.ctx.cache host RT_AAAA = [])
    (h3 : tuplesAt st.ctx.cache host RT_CNAME = []) :
    ∃ ctx', tryTypes cfg (f + 2) st true host (rtypesFor cfg.mode) = (⟨ctx', st.run⟩, none) ∧
      ctx'.stack = st.ctx.stack ∧ ctx'.zones = st.ctx.zones ∧ ctx'.now = st.ctx.now ∧
      UniSameStore st.ctx.cache ctx'.cache := by
  rcases hmode with hm | hm <;> rw [hm] <;> simp only [rtypesFor]
  · obtain ⟨ctx1, e1, a1, a2, a3, a4⟩ := uni2_tryTypes_local_step cfg (f + 1) st host RT_A [] hlive hlim hnd.1
      hmiss.1 uni_lookupNat_A h1 h3
    exact ⟨ctx1, by rw [e1, uni2_tryTypes_nil], a1, a2, a3, a4⟩
  · obtain ⟨ctx1, e1, a1, a2, a3, a4⟩ := uni2_tryTypes_local_step cfg (f + 1) st host RT_A [RT_AAAA] hlive hlim hnd.1
      hmiss.1 uni_lookupNat_A h1 h3
    obtain ⟨ctx2, e2, b1, b2, b3, b4⟩ := uni2_tryTypes_local_step cfg f ⟨ctx1, st.run⟩ host RT_AAAA [] hlive
      (by show ctx1.stack.length ≠ _; rw [a1]; exact hlim) (by show _ ∉ ctx1.stack; rw [a1]; exact hnd.2)
      (by show localMiss ctx1.zones _ _ = _; rw [a2]; exact hmiss.2) uni2_lookupNat_AAAA
      (by show tuplesAt ctx1.cache _ _ = _; rw [a4.2]; exact h2)
      (by show tuplesAt ctx1.cache _ _ = _; rw [a4.2]; exact h3)
    exact ⟨ctx2, by rw [e1, e2, uni2_tryTypes_nil], by rw [b1]; exact a1, by rw [b2]; exact a2, by rw [b3]; exact a3,
      uni_sameStore_trans a4 b4⟩

/-- the candidate loop SETS ASIDE its only candidate when the local pass finds no address, and comes
    back to it with `locally = false`. -/
theorem uni2_loop_setaside (cfg : RecCfg) (hmode : cfg.mode = .onlyV4 ∨ cfg.mode = .preferV4) (f : Nat) (st : St)
    (q : Question) (mc : Nat) (host : Name) (hlive : st.run.timedOut = false)
    (hlim : st.ctx.stack.length ≠ RECURSION_LIMIT)
    (hnd : uniHostQ host ∉ st.ctx.stack ∧ uniHost6Q host ∉ st.ctx.stack)
    (hmiss : localMiss st.ctx.zones host RT_A = true ∧ localMiss st.ctx.zones host RT_AAAA = true)
    (h1 : tuplesAt st.ctx.cache host RT_A = []) (h2 : tuplesAt st.ctx.cache host RT_AAAA = [])
    (h3 : tuplesAt st.ctx.cache host RT_CNAME = []) :
    ∃ ctx', candidateLoop cfg (f + 3) st q [] mc [host] [] true =
        candidateLoop cfg (f + 2) ⟨ctx', st.run⟩ q [] mc [host] [] false ∧
      ctx'.stack = st.ctx.stack ∧ ctx'.zones = st.ctx.zones ∧ ctx'.now = st.ctx.now ∧
      UniSameStore st.ctx.cache ctx'.cache := by
  obtain ⟨ctx', e, a1, a2, a3, a4⟩ := uni2_tryTypes_miss cfg hmode f st host hlive hlim hnd hmiss h1 h2 h3
  refine ⟨ctx', ?_, a1, a2, a3, a4⟩
  rw [candidateLoop]
  simp only [hlive, Bool.false_eq_true, if_false, List.getLast?_singleton, e, List.dropLast_singleton,
    List.isEmpty_nil, if_true, List.nil_append]

/-- … and with `locally = false` resolves the host name RECURSIVELY, then contacts the server at the
    address found: the loop goes on with the filter's verdict on the reply. -/
theorem uni2_loop_nested_query (cfg : RecCfg) (hmode : cfg.mode = .onlyV4 ∨ cfg.mode = .preferV4) (f : Nat)
    (st st2 : St) (q : Question) (mc : Nat) (E : UEntry) (result : ResolvedRecord) (m : Message)
    (hlive : st.run.timedOut = false)
    (hrec : resolveRec cfg f st (uniHostQ E.host) = (st2, .ok result))
    (hip : getIp result.rrs E.host RT_A = some (.a E.addr)) (hlive2 : st2.run.timedOut = false)
    (ho : cfg.oracle { addr := .a E.addr, port := cfg.port, tcp := false, question := q, recursionDesired := false } =
      { delayMs := E.delayMs, reply := some m })
    (hfit : udpFits q = true) (hd : E.delayMs < EXCHANGE_TIMEOUT_MS)
    (ht : st2.run.elapsedMs + E.delayMs < RESOLVE_TIMEOUT_MS)
    (hm : responseMatchesRequest (requestFor q false) m = true) :
    candidateLoop cfg (f + 2) st q [] mc [E.host] [] false =
      uni_afterReply cfg (f + 1)
        ⟨st2.ctx, { log := st2.run.log ++ [E.exchange cfg.port q], elapsedMs := st2.run.elapsedMs + E.delayMs,
                    timedOut := false }⟩ q [] (validateNameserverResponse q m mc) := by
  have htry : tryTypes cfg (f + 1) st false E.host (rtypesFor cfg.mode) = (st2, some (.a E.addr)) := by
    have key : ∀ more, tryTypes cfg (f + 1) st false E.host (RT_A :: more) = (st2, some (.a E.addr)) := by
      intro more
      rw [tryTypes]
      simp only [hlive, Bool.false_eq_true, if_false]
      have e : ({ name := E.host, qclass := CLASS_IN, qtype := RT_A } : Question) = uniHostQ E.host := rfl
      rw [e, hrec]
      simp only [hip]
    rcases hmode with hm | hm <;> rw [hm] <;> simp only [rtypesFor] <;> exact key _
  rw [candidateLoop]
  simp only [hlive, Bool.false_eq_true, if_false, List.getLast?_singleton, htry, hlive2]
  rw [uni_query cfg.oracle st2.run (.a E.addr) cfg.port q E.delayMs m ho hfit hlive2 hd ht hm]
  simp only [Bool.false_eq_true, if_false, Option.bind_some]
  cases validateNameserverResponse q m mc with
  | none => rfl
  | some resp => cases resp <;> rfl


/-! ## Handling a reply; the wrapper around the candidate loop -/

theorem uni2_reply_referral {gp : List RR → List RR} {U : Universe} {cfg : RecCfg} (h : UniOKG gp U cfg) (q : Question)
    (Y C : UEntry) (ttl : Nat) (hres : Y.zone.resolve q.name q.qtype = some (.delegation [C.nsRR ttl]))
    (hdepth : Y.apex.labels.length < C.apex.labels.length) (hsubd : q.name.isSubdomainOf C.apex = true)
    (hqa : isAddrQ q → q.name ≠ C.host) (F : Nat) (stQ : St) (mY : Message)
    (hmY : authReplyG gp Y q false = some mY) :
    uni_afterReply cfg F stQ q [] (validateNameserverResponse q mY Y.apex.labels.length) =
      candidateLoop cfg F ⟨stQ.ctx.cacheInsertAll ([C.nsRR ttl] ++ gp [C.nsRR ttl]), stQ.run⟩ q []
        C.apex.labels.length [C.host] [] true := by
  obtain ⟨m, hm, hv, hg, _⟩ := uni2_referral h.sub Y C q ttl hres hdepth hsubd hqa
  rw [hmY] at hm
  cases hm
  rw [hv]
  simp only [uni_afterReply, hg, h.order]

theorem uni2_reply_terminal (gp : List RR → List RR) (cfg : RecCfg) (Z : UEntry) (q : Question) (res : ResolvedRecord)
    (hq : lookupNat queryTypeFromU16 q.qtype = none) (hexp : expectedAt Z q = some res)
    (hans : ∀ rrs, Z.zone.resolve q.name q.qtype = some (.answer rrs) → UniAnswerOK q rrs)
    (F : Nat) (stQ : St) (mZ : Message) (hmZ : authReplyG gp Z q false = some mZ) :
    uni_afterReply cfg F stQ q [] (validateNameserverResponse q mZ Z.apex.labels.length) =
      (⟨stQ.ctx.cacheInsertAll res.rrs, stQ.run⟩, .ok res) := by
  obtain ⟨m, rrs, soa, hm, hv, hr⟩ := uni2_terminal gp Z q res Z.apex.labels.length hq hexp hans (Nat.le_refl _)
  rw [hmZ] at hm
  cases hm
  rw [hv]
  subst hr
  simp only [uni_afterReply, prioritisingMerge_nil, ResolvedRecord.rrs]

/-- the cache after the records of a referral to `C` went in. -/
theorem uni2_referral_cache {gp : List RR → List RR} {U : Universe} (hsub : ∀ ns g, g ∈ gp ns → g ∈ uniGlue U ns)
    (hU : HostsFunctional U) (hgt : ∀ E ∈ U, 0 < E.glueTtl) {T now : Nat} (c : PCache)
    (C : UEntry) (hC : C ∈ U) (ttl : Nat) (httl : 0 < ttl)
    (hTg : ∀ E ∈ U, T ≤ now + E.glueTtl * NANOS) (hTn : T ≤ now + ttl * NANOS)
    (V G G' : List UEntry) (K : List (Name × Nat)) (hcache : uni2_Cache V G K c T)
    (hG1 : ∀ D ∈ G, D ∈ G') (hG2 : gp [C.nsRR ttl] ≠ [] → C ∈ G')
    (hG3 : ∀ D ∈ G', D ∈ G ∨ (D = C ∧ C.glueRR ∈ gp [C.nsRR ttl])) :
    uni2_Cache (V ++ [C]) G' K (sharedInsertAll c ([C.nsRR ttl] ++ gp [C.nsRR ttl]) now) T := by
  have hmemg : ∀ g ∈ gp [C.nsRR ttl], ∃ E ∈ U, E.host = C.host ∧ g ∈ E.glueRRs := fun g hg =>
    uni_mem_glue.mp (hsub _ g hg)
  refine uni2_cache_insertAll hcache (fun D hD => List.mem_append_left _ hD) hG1
    (fun _ hk => hk) _ ?_ ?_ ?_
  · intro rr hrr _
    exact uni2_referral_rrok hU hTg C hC ttl hTn (V ++ [C]) G' K (by simp) _ hmemg hG2 rr hrr
  · intro D hD
    rcases List.mem_append.mp hD with hD | hD
    · exact Or.inl hD
    · simp only [List.mem_singleton] at hD
      subst hD
      exact Or.inr ⟨D.nsRR ttl, List.mem_append_left _ List.mem_cons_self, httl, rfl, rfl⟩
  · intro D hD
    rcases hG3 D hD with h1 | ⟨h1, h2⟩
    · exact Or.inl h1
    · subst h1
      exact Or.inr ⟨D.glueRR, List.mem_append_right _ h2, hgt D hC, rfl, rfl⟩

/-- THE WRAPPER: `resolveRec` on a question `q'` about which the local zones and the cache hold
    nothing, the walk up ending at `Y'` (deepest cached delegation, address cached; or the root
    hints): `Y'` is asked, and whatever the candidate loop makes of its reply (`hloop`) is the
    result, the question being popped off the stack again. -/
theorem uni2_resolveRec_wrap {gp : List RR → List RR} {U : Universe} {cfg : RecCfg} (h : UniOKG gp U cfg)
    (q' : Question) (hq' : QuestionOK q') (hnotNS : q'.qtype ≠ RT_NS)
    {Y' : UEntry} (hY'U : Y' ∈ U) (hsub : q'.name.isSubdomainOf Y'.apex = true)
    (zs : Zones) (V G : List UEntry) (K : List (Name × Nat)) (T : Nat) (hV : ∀ C ∈ V, C ∈ U) (hG : ∀ C ∈ G, C ∈ U)
    (hKA : (Y'.host, RT_A) ∉ K)
    (hY' : (Y' ∈ V ∧ Y' ∈ G ∧ localMiss zs Y'.apex RT_NS = true ∧ localMiss zs Y'.host RT_A = true ∧
        (Y'.apex, RT_NS) ∉ K) ∨
      (Y'.apex = Name.root ∧ RootHints zs Y'.host Y'.addr))
    (hwf : Name.fromLabels Y'.apex.labels = some Y'.apex)
    (st : St) (hzs : st.ctx.zones = zs) (hcache : uni2_Cache V G K st.ctx.cache T)
    (hT : st.ctx.now + NANOS ≤ T)
    (hlive : st.run.timedOut = false) (hlim : st.ctx.stack.length + 1 < RECURSION_LIMIT)
    (hst : ∀ q0 ∈ st.ctx.stack, q0.qtype ≠ RT_NS ∧ q0 ≠ q' ∧ q0 ≠ uniHostQ Y'.host)
    (hqmiss : localMiss zs q'.name q'.qtype = true)
    (hqG : isAddrQ q' → ∀ E ∈ G, q'.name ≠ E.host) (hqY : q' ≠ uniHostQ Y'.host)
    (hqK : (q'.name, q'.qtype) ∉ K ∧ (q'.name, RT_CNAME) ∉ K)
    (hwarm : warmMissK zs V K Y'.apex.labels.length q'.name.labels = true)
    (mY' : Message) (hmY' : authReplyG gp Y' q' false = some mY')
    (htime : st.run.elapsedMs + Y'.delayMs < RESOLVE_TIMEOUT_MS)
    (F : Nat) (res' : ResolvedRecord) (P : St → Prop)
    (hloop : ∀ stQ : St, stQ.ctx.zones = zs → stQ.ctx.stack = st.ctx.stack ++ [q'] → stQ.ctx.now = st.ctx.now →
      uni2_Cache V G K stQ.ctx.cache T →
      stQ.run = ⟨st.run.log ++ [Y'.exchange cfg.port q'], st.run.elapsedMs + Y'.delayMs, false⟩ →
      ∃ st6, uni_afterReply cfg (F + 1) stQ q' [] (validateNameserverResponse q' mY' Y'.apex.labels.length) =
        (st6, .ok res') ∧ P st6) :
    ∃ st6, resolveRec cfg (F + 3) st q' = (⟨st6.ctx.pop, st6.run⟩, .ok res') ∧ P st6 := by
  have hsuf : Y'.apex.labels <:+ q'.name.labels := by
    unfold Name.isSubdomainOf at hsub
    exact List.isSuffixOf_iff_suffix.mp hsub
  have ht1 : tuplesAt st.ctx.cache q'.name q'.qtype = [] :=
    uni2_sound_empty hcache.1 q'.name q'.qtype (fun hh E hE he => hqG hh E hE he.symm)
      (fun hh => absurd hh hnotNS) hqK.1
  have ht2 : tuplesAt st.ctx.cache q'.name RT_CNAME = [] :=
    uni2_sound_empty hcache.1 q'.name RT_CNAME (fun hh => by rcases hh with hh | hh <;> cases hh)
      (fun hh => by cases hh) hqK.2
  have hnd : q' ∉ st.ctx.stack := fun hin => (hst q' hin).2.1 rfl
  obtain ⟨ctx4, hloc, hs1, hs2, hs3, hs4⟩ := uni_local_warm_miss RECURSION_LIMIT st.ctx q' (by omega) hnd
    (by rw [hzs]; exact hqmiss) hq'.qtype ht1 ht2
  have hcands := uni2_candidates_warm h.apexes zs V G K T hV Y'
    (hY'.imp (fun hh => ⟨hh.1, hh.2.2.1, hh.2.2.2.2⟩) id) hwf q'.name.labels ⟨ctx4.push q', st.run⟩
    (by show ctx4.zones = zs; rw [hs2]; exact hzs)
    (by show uni2_Cache V G K ctx4.cache T; exact uni2_cache_same hcache hs4)
    (by show ctx4.now + NANOS ≤ T; rw [hs3]; exact hT)
    (by simp only [Ctx.push, List.length_append, List.length_singleton, hs1]; omega)
    (by
      intro q0 hq0
      simp only [Ctx.push, List.mem_append, List.mem_singleton, hs1] at hq0
      rcases hq0 with hq0 | rfl
      · exact (hst q0 hq0).1
      · exact hnotNS)
    hsuf hwarm
  obtain ⟨st5, hc1, hc2, hc3, hc4, hc5, hc6⟩ := hcands
  have hc3' : st5.ctx.stack = st.ctx.stack ++ [q'] := by rw [hc3]; simp [Ctx.push, hs1]
  have hc4' : st5.ctx.zones = zs := by rw [hc4]; show ctx4.zones = zs; rw [hs2]; exact hzs
  have hc5' : st5.ctx.now = st.ctx.now := by rw [hc5]; exact hs3
  have hcache5 : uni2_Cache V G K st5.ctx.cache T :=
    uni2_cache_same (uni2_cache_same hcache hs4) hc6
  have hnotinY : uniHostQ Y'.host ∉ st5.ctx.stack := by
    intro hin
    rw [hc3'] at hin
    rcases List.mem_append.mp hin with hin | hin
    · exact (hst _ hin).2.2 rfl
    · simp only [List.mem_singleton] at hin
      exact hqY hin.symm
  have hlim5 : st5.ctx.stack.length ≠ RECURSION_LIMIT := by
    rw [hc3']; simp only [List.length_append, List.length_singleton]; omega
  have hk5 : UniAddrKnown st5.ctx Y'.host Y'.addr := by
    rcases hY' with ⟨hYV, hYG, _, hm2, _⟩ | ⟨_, hh⟩
    · exact uni2_addr_cached h.hosts hG Y' hY'U hcache5.1 (by rw [hc5']; exact hT) hKA
        (hcache5.2.2 Y' hYG) (by rw [hc4']; exact hm2) hlim5 hnotinY
    · exact uni_addr_hints (by rw [hc4']; exact hh) hlim5 hnotinY
  have ho := h.faithful Y' hY'U q' false false
  rw [hmY'] at ho
  have hquery := uni_loop_query cfg F st5 q' Y'.apex.labels.length Y' mY' h.mode (by rw [hc2]; exact hlive) hk5 ho
    hq'.fits (h.delay Y' hY'U) (by rw [hc2]; exact htime) (uni2_authReplyG_matches hmY')
  obtain ⟨r0, _, _, hsame⟩ := hk5
  obtain ⟨st6, hl1, hl2⟩ := hloop
    ⟨(resolveLocal (RECURSION_LIMIT + 1) st5.ctx (uniHostQ Y'.host)).1,
      ⟨st5.run.log ++ [Y'.exchange cfg.port q'], st5.run.elapsedMs + Y'.delayMs, false⟩⟩
    (by show (resolveLocal _ _ _).1.zones = zs; rw [resolveLocal_zones]; exact hc4')
    (by show (resolveLocal _ _ _).1.stack = _; rw [resolveLocal_stack]; exact hc3')
    (by show (resolveLocal _ _ _).1.now = _; rw [resolveLocal_now]; exact hc5')
    (uni2_cache_same hcache5 hsame) (by rw [hc2])
  rw [hl1] at hquery
  refine ⟨st6, ?_, hl2⟩
  have hlimb : st.ctx.atRecursionLimit = false := by
    simp only [Ctx.atRecursionLimit, beq_eq_false_iff_ne, ne_eq]; omega
  have hdup : st.ctx.isDuplicate q' = false := Ctx.not_duplicate hnd
  rw [show F + 3 = (F + 2) + 1 from rfl, resolveRec]
  simp only [hlive, hlimb, hdup, Bool.false_eq_true, if_false, hloc, hc1, Nameservers.matchCount, hquery]


/-! ## Walks -/

theorem uni2_walk_reply {gp : List RR → List RR} {U : Universe} {zs : Zones} {K : List (Name × Nat)} {m : Nat}
    {S : List Question} {q : Question} {V G : List UEntry} {Y : UEntry} {ex : List (UEntry × Question)} {f : Nat}
    {V' G' : List UEntry} {res : ResolvedRecord} (hw : UniWalk gp U zs K m S q V G Y ex f V' G' res)
    (hq : lookupNat queryTypeFromU16 q.qtype = none) : ∃ mY, authReplyG gp Y q false = some mY := by
  cases hw with
  | last hexp hsays =>
    obtain ⟨mY, _, _, hm, _, _⟩ := uni2_terminal gp Y q res 0 hq hexp hsays.1 (Nat.zero_le _)
    exact ⟨mY, hm⟩
  | glued hC hres _ _ _ _ _ _ => exact ⟨_, by unfold authReplyG; rw [hres]⟩
  | glueless hC hres _ _ _ _ _ _ _ _ _ => exact ⟨_, by unfold authReplyG; rw [hres]⟩

theorem uni2_walk_rrs {gp : List RR → List RR} {U : Universe} {zs : Zones} {K : List (Name × Nat)} {m : Nat}
    {S : List Question} {q : Question} {V G : List UEntry} {Y : UEntry} {ex : List (UEntry × Question)} {f : Nat}
    {V' G' : List UEntry} {res : ResolvedRecord} (hw : UniWalk gp U zs K m S q V G Y ex f V' G' res) :
    ∀ rr ∈ res.rrs, rr.name = q.name ∧ rr.rtype = q.qtype := by
  induction hw with
  | last hexp hsays => exact uni2_expected_rrs hexp hsays.1
  | glued _ _ _ _ _ _ _ _ ih => exact ih
  | glueless _ _ _ _ _ _ _ _ _ _ _ _ ih => exact ih

theorem uni2_planDelay_cons (E : UEntry) (q : Question) (ex : List (UEntry × Question)) :
    planDelay ((E, q) :: ex) = E.delayMs + planDelay ex := by
  simp [planDelay, totalDelay]

theorem uni2_planLog_cons (port : Nat) (E : UEntry) (q : Question) (ex : List (UEntry × Question)) :
    planLog port ((E, q) :: ex) = E.exchange port q :: planLog port ex := by
  simp [planLog]

theorem uni2_planLog_append (port : Nat) (a b : List (UEntry × Question)) :
    planLog port (a ++ b) = planLog port a ++ planLog port b := by
  simp [planLog]

/-- THE MACHINE ON A WALK: once the reply of `Y` is in, the candidate loop does what the walk says —
    the exchanges of the walk, in order, in their time — and ends with the walk's result, cached. -/
theorem uni2_walk {gp : List RR → List RR} {U : Universe} {cfg : RecCfg} (h : UniOKG gp U cfg) {zs : Zones}
    {K : List (Name × Nat)} {m : Nat} (hmU : ∀ E ∈ U, m ≤ E.glueTtl)
    {S : List Question} {q : Question} {V G : List UEntry} {Y : UEntry} {ex : List (UEntry × Question)} {f : Nat}
    {V' G' : List UEntry} {res : ResolvedRecord} (hw : UniWalk gp U zs K m S q V G Y ex f V' G' res) :
    ∀ (F : Nat) (stQ : St) (T : Nat) (mY : Message), QuestionOK q → authReplyG gp Y q false = some mY → f ≤ F →
      stQ.ctx.zones = zs → stQ.ctx.stack = S → uni2_Cache V G K stQ.ctx.cache T →
      (∀ C ∈ V, C ∈ U) → (∀ C ∈ G, C ∈ U) →
      stQ.ctx.now + NANOS ≤ T → T ≤ stQ.ctx.now + m * NANOS →
      stQ.run.timedOut = false → stQ.run.elapsedMs + planDelay ex < RESOLVE_TIMEOUT_MS →
      ∃ st', uni_afterReply cfg F stQ q [] (validateNameserverResponse q mY Y.apex.labels.length) = (st', .ok res) ∧
        st'.run = ⟨stQ.run.log ++ planLog cfg.port ex, stQ.run.elapsedMs + planDelay ex, false⟩ ∧
        st'.ctx.stack = S ∧ st'.ctx.zones = zs ∧ st'.ctx.now = stQ.ctx.now ∧
        (∀ C ∈ V', C ∈ U) ∧ (∀ C ∈ G', C ∈ U) ∧
        ∃ c1, st'.ctx.cache = sharedInsertAll c1 res.rrs stQ.ctx.now ∧ uni2_Cache V' G' K c1 T := by
  induction hw with
  | @last S q V G Z res hexp hsays =>
    intro F stQ T mY hq hmY _ hzs hstack hcache hV hG _ _ hlive _
    rw [uni2_reply_terminal gp cfg Z q res hq.qtype hexp hsays.1 F stQ mY hmY]
    refine ⟨_, rfl, ?_, hstack, hzs, rfl, hV, hG, stQ.ctx.cache, rfl, hcache⟩
    have hrun : stQ.run = ⟨stQ.run.log, stQ.run.elapsedMs, false⟩ := by rw [← hlive]
    rw [hrun]
    simp [planLog, planDelay, totalDelay]
  | @glued S q V G Y C ttl ex f V' G' res hC hres httl hdepth hsub hglue hok next ih =>
    intro F stQ T mY hq hmY hF hzs hstack hcache hV hG hT1 hT2 hlive htime
    rw [uni2_reply_referral h q Y C ttl hres hdepth hsub hok.notHost F stQ mY hmY]
    rw [uni2_planDelay_cons] at htime
    have hTg : ∀ E ∈ U, T ≤ stQ.ctx.now + E.glueTtl * NANOS := fun E hE =>
      Nat.le_trans hT2 (Nat.add_le_add_left (Nat.mul_le_mul_right _ (hmU E hE)) _)
    have hTn : T ≤ stQ.ctx.now + ttl * NANOS :=
      Nat.le_trans hT2 (Nat.add_le_add_left (Nat.mul_le_mul_right _ httl.2) _)
    have hcache1 : uni2_Cache (V ++ [C]) (G ++ [C]) K
        (sharedInsertAll stQ.ctx.cache ([C.nsRR ttl] ++ gp [C.nsRR ttl]) stQ.ctx.now) T :=
      uni2_referral_cache h.sub h.hosts h.glueTtl stQ.ctx.cache C hC ttl httl.1 hTg hTn V G (G ++ [C]) K hcache
        (fun D hD => List.mem_append_left _ hD) (fun _ => by simp)
        (fun D hD => by
          rcases List.mem_append.mp hD with hD | hD
          · exact Or.inl hD
          · simp only [List.mem_singleton] at hD
            exact Or.inr ⟨hD, hglue⟩)
    have hV' : ∀ E ∈ V ++ [C], E ∈ U := by
      intro E hE
      rcases List.mem_append.mp hE with hE | hE
      · exact hV E hE
      · simp only [List.mem_singleton] at hE
        subst hE; exact hC
    have hG' : ∀ E ∈ G ++ [C], E ∈ U := by
      intro E hE
      rcases List.mem_append.mp hE with hE | hE
      · exact hG E hE
      · simp only [List.mem_singleton] at hE
        subst hE; exact hC
    generalize hst1 : (⟨stQ.ctx.cacheInsertAll ([C.nsRR ttl] ++ gp [C.nsRR ttl]), stQ.run⟩ : St) = st1
    have p1 : st1.ctx.stack = S := by rw [← hst1]; exact hstack
    have p2 : st1.ctx.zones = zs := by rw [← hst1]; exact hzs
    have p3 : st1.ctx.now = stQ.ctx.now := by rw [← hst1]; rfl
    have p4 : st1.run = stQ.run := by rw [← hst1]
    have p5 : uni2_Cache (V ++ [C]) (G ++ [C]) K st1.ctx.cache T := by rw [← hst1]; exact hcache1
    have hk : UniAddrKnown st1.ctx C.host C.addr :=
      uni2_addr_cached (V := V ++ [C]) (G := G ++ [C]) (K := K) (T := T) h.hosts hG' C hC p5.1
        (by rw [p3]; exact hT1) hok.key (p5.2.2 C (by simp)) (by rw [p2]; exact hok.miss)
        (by rw [p1]; exact hok.depth) (by rw [p1]; exact hok.stack)
    obtain ⟨mC, hmC⟩ := uni2_walk_reply next hq.qtype
    obtain ⟨F', rfl⟩ : ∃ F', F = F' + 2 := ⟨F - 2, by omega⟩
    have ho := h.faithful C hC q false false
    rw [hmC] at ho
    rw [uni_loop_query cfg F' st1 q _ C mC h.mode (by rw [p4]; exact hlive) hk ho hq.fits (h.delay C hC)
      (by rw [p4]; omega) (uni2_authReplyG_matches hmC)]
    obtain ⟨_, _, _, hsame⟩ := hk
    obtain ⟨st', e1, e2, e3, e4, e5, e6, e7, c1, e8, e9⟩ := ih (F' + 1)
      ⟨(resolveLocal (RECURSION_LIMIT + 1) st1.ctx (uniHostQ C.host)).1,
        ⟨st1.run.log ++ [C.exchange cfg.port q], st1.run.elapsedMs + C.delayMs, false⟩⟩ T mC hq hmC (by omega)
      (by show (resolveLocal _ _ _).1.zones = zs; rw [resolveLocal_zones]; exact p2)
      (by show (resolveLocal _ _ _).1.stack = S; rw [resolveLocal_stack]; exact p1)
      (uni2_cache_same p5 hsame) hV' hG'
      (by show (resolveLocal _ _ _).1.now + NANOS ≤ T; rw [resolveLocal_now, p3]; exact hT1)
      (by show T ≤ (resolveLocal _ _ _).1.now + m * NANOS; rw [resolveLocal_now, p3]; exact hT2)
      rfl (by simp only; rw [p4]; omega)
    refine ⟨st', e1, ?_, e3, e4, ?_, e6, e7, c1, ?_, e9⟩
    · rw [e2]
      simp only [p4, uni2_planLog_cons, uni2_planDelay_cons, List.append_assoc, List.singleton_append,
        Nat.add_assoc]
    · rw [e5]; show (resolveLocal _ _ _).1.now = _; rw [resolveLocal_now, p3]
    · rw [e8]; show sharedInsertAll c1 res.rrs (resolveLocal _ _ _).1.now = _; rw [resolveLocal_now, p3]
  | @glueless S q V G Y C Y2 ttl exN fN V1 G1 resH ex f V' G' res hC hres httl hdepth hsub hglue hunk hstart nested
      haddr next ihN ih =>
    intro F stQ T mY hq hmY hF hzs hstack hcache hV hG hT1 hT2 hlive htime
    rw [uni2_reply_referral h q Y C ttl hres hdepth hsub hunk.notHost F stQ mY hmY]
    rw [uni_planDelay_append, uni2_planDelay_cons, uni2_planDelay_cons] at htime
    have hn : NANOS = 1000000000 := rfl
    have hm1 : 1 ≤ m := by
      rcases Nat.eq_zero_or_pos m with h0 | h0
      · rw [h0] at hT2; omega
      · exact h0
    have hTg : ∀ E ∈ U, T ≤ stQ.ctx.now + E.glueTtl * NANOS := fun E hE =>
      Nat.le_trans hT2 (Nat.add_le_add_left (Nat.mul_le_mul_right _ (hmU E hE)) _)
    have hTn : T ≤ stQ.ctx.now + ttl * NANOS :=
      Nat.le_trans hT2 (Nat.add_le_add_left (Nat.mul_le_mul_right _ httl.2) _)
    have hcache1 : uni2_Cache (V ++ [C]) G K
        (sharedInsertAll stQ.ctx.cache ([C.nsRR ttl] ++ gp [C.nsRR ttl]) stQ.ctx.now) T :=
      uni2_referral_cache h.sub h.hosts h.glueTtl stQ.ctx.cache C hC ttl httl.1 hTg hTn V G G K hcache
        (fun D hD => hD) (fun hne => absurd hglue hne) (fun D hD => Or.inl hD)
    have hV' : ∀ E ∈ V ++ [C], E ∈ U := by
      intro E hE
      rcases List.mem_append.mp hE with hE | hE
      · exact hV E hE
      · simp only [List.mem_singleton] at hE
        subst hE; exact hC
    generalize hst1 : (⟨stQ.ctx.cacheInsertAll ([C.nsRR ttl] ++ gp [C.nsRR ttl]), stQ.run⟩ : St) = st1
    have p1 : st1.ctx.stack = S := by rw [← hst1]; exact hstack
    have p2 : st1.ctx.zones = zs := by rw [← hst1]; exact hzs
    have p3 : st1.ctx.now = stQ.ctx.now := by rw [← hst1]; rfl
    have p4 : st1.run = stQ.run := by rw [← hst1]
    have p5 : uni2_Cache (V ++ [C]) G K st1.ctx.cache T := by rw [← hst1]; exact hcache1
    -- nothing is known about `C`'s host
    have hemp : ∀ t, t = RT_A ∨ t = RT_AAAA ∨ t = RT_CNAME → tuplesAt st1.ctx.cache C.host t = [] := by
      intro t ht
      refine uni2_sound_empty p5.1 C.host t (fun _ E hE => hunk.notG E hE) ?_ ?_
      · intro hns; rcases ht with rfl | rfl | rfl <;> cases hns
      · rcases ht with rfl | rfl | rfl
        · exact hunk.keys.1
        · exact hunk.keys.2.1
        · exact hunk.keys.2.2
    have hdepth' := hunk.depth
    obtain ⟨F2, rfl⟩ : ∃ F2, F = F2 + 6 := ⟨F - 6, by omega⟩
    obtain ⟨ctx', e, a1, a2, a3, a4⟩ := uni2_loop_setaside cfg h.mode (F2 + 3) st1 q C.apex.labels.length C.host
      (by rw [p4]; exact hlive) (by rw [p1]; omega) (by rw [p1]; exact hunk.stack)
      (by rw [p2]; exact ⟨hunk.missA, hunk.missAAAA⟩) (hemp _ (Or.inl rfl)) (hemp _ (Or.inr (Or.inl rfl)))
      (hemp _ (Or.inr (Or.inr rfl)))
    rw [show F2 + 6 = F2 + 3 + 3 from rfl, e]
    -- the nested resolution of `C`'s address
    obtain ⟨mY2, hmY2⟩ := uni2_walk_reply nested hunk.ok.qtype
    have hnotin2 : uniHostQ Y2.host ∉ S ∧ uniHostQ Y2.host ≠ uniHostQ C.host := by
      have := hstart.stack
      simp only [List.mem_append, List.mem_singleton, not_or] at this
      exact this
    obtain ⟨st6, hrec, g2, g3, g4, g5, g6, g7, c1, g8, g9⟩ := uni2_resolveRec_wrap h (uniHostQ C.host) hunk.ok
      (by show RT_A ≠ RT_NS; decide) hstart.mem hstart.sub zs (V ++ [C]) G K T hV' hG hstart.key hstart.start hstart.wf
      ⟨ctx', st1.run⟩ (by show ctx'.zones = zs; rw [a2]; exact p2) (uni2_cache_same p5 a4)
      (by show ctx'.now + NANOS ≤ T; rw [a3, p3]; exact hT1) (by rw [p4]; exact hlive)
      (by show ctx'.stack.length + 1 < _; rw [a1, p1]; exact hunk.depth)
      (by
        show ∀ q0 ∈ ctx'.stack, _
        rw [a1, p1]
        intro q0 hq0
        exact ⟨hunk.noNS q0 hq0, fun he => hunk.stack.1 (he ▸ hq0), fun he => hnotin2.1 (he ▸ hq0)⟩)
      hunk.missA (fun _ E hE he => hunk.notG E hE he.symm) (fun he => hnotin2.2 he.symm)
      ⟨hunk.keys.1, hunk.keys.2.2⟩ hstart.warm mY2 hmY2
      (by show st1.run.elapsedMs + Y2.delayMs < _; rw [p4]; omega) F2 resH
      (fun st6 => st6.run = ⟨(st1.run.log ++ [Y2.exchange cfg.port (uniHostQ C.host)]) ++ planLog cfg.port exN,
          (st1.run.elapsedMs + Y2.delayMs) + planDelay exN, false⟩ ∧
        st6.ctx.stack = S ++ [uniHostQ C.host] ∧ st6.ctx.zones = zs ∧ st6.ctx.now = stQ.ctx.now ∧
        (∀ C ∈ V1, C ∈ U) ∧ (∀ C ∈ G1, C ∈ U) ∧
        ∃ c1, st6.ctx.cache = sharedInsertAll c1 resH.rrs stQ.ctx.now ∧ uni2_Cache V1 G1 K c1 T)
      (by
        intro stQ2 hz2 hs2 hn2 hc2 hr2
        have hn2' : stQ2.ctx.now = stQ.ctx.now := by rw [hn2]; show ctx'.now = _; rw [a3, p3]
        obtain ⟨st6, e1, e2, e3, e4, e5, e6, e7, c1, e8, e9⟩ := ihN (F2 + 1) stQ2 T mY2 hunk.ok hmY2 (by omega) hz2
          (by rw [hs2]; show ctx'.stack ++ _ = _; rw [a1, p1]) hc2 hV' hG
          (by rw [hn2']; exact hT1) (by rw [hn2']; exact hT2) (by rw [hr2])
          (by rw [hr2]; simp only; rw [p4]; omega)
        refine ⟨st6, e1, ?_, e3, e4, by rw [e5, hn2'], e6, e7, c1, by rw [e8, hn2'], e9⟩
        rw [e2, hr2])
    -- `C`'s address is in the nested answer
    have hrrsH := uni2_walk_rrs nested
    have hip : getIp resH.rrs C.host RT_A = some (.a C.addr) :=
      uni_getIp resH.rrs C.host C.addr haddr.1 (fun rr hr => ⟨(hrrsH rr hr).1, (hrrsH rr hr).2, (haddr.2 rr hr).1⟩)
    obtain ⟨mC, hmC⟩ := uni2_walk_reply next hq.qtype
    have ho := h.faithful C hC q false false
    rw [hmC] at ho
    rw [uni2_loop_nested_query cfg h.mode (F2 + 3) ⟨ctx', st1.run⟩ ⟨st6.ctx.pop, st6.run⟩ q C.apex.labels.length C
      resH mC (by rw [p4]; exact hlive) hrec hip (by show st6.run.timedOut = false; rw [g2]) ho hq.fits
      (h.delay C hC) (by show st6.run.elapsedMs + C.delayMs < _; rw [g2]; simp only; rw [p4]; omega)
      (uni2_authReplyG_matches hmC)]
    -- the cache now also holds `C`'s address
    have hG1' : ∀ E ∈ G1 ++ [C], E ∈ U := by
      intro E hE
      rcases List.mem_append.mp hE with hE | hE
      · exact g7 E hE
      · simp only [List.mem_singleton] at hE
        subst hE; exact hC
    have hcache2 : uni2_Cache V1 (G1 ++ [C]) K st6.ctx.cache T := by
      rw [g8]
      refine uni2_cache_insertAll g9 (fun _ hD => hD) (fun D hD => List.mem_append_left _ hD) (fun _ hk => hk) _ ?_
        (fun D hD => Or.inl hD) ?_
      · intro rr hrr _
        refine Or.inl ⟨(hrrsH rr hrr).2, C, by simp, (hrrsH rr hrr).1.symm, (haddr.2 rr hrr).1, ?_⟩
        exact Nat.le_trans hT2 (Nat.add_le_add_left (Nat.mul_le_mul_right _ (haddr.2 rr hrr).2) _)
      · intro D hD
        rcases List.mem_append.mp hD with hD | hD
        · exact Or.inl hD
        · simp only [List.mem_singleton] at hD
          subst hD
          obtain ⟨rr, hrr⟩ := List.exists_mem_of_ne_nil _ haddr.1
          exact Or.inr ⟨rr, hrr, Nat.lt_of_lt_of_le hm1 (haddr.2 rr hrr).2, (hrrsH rr hrr).1.symm,
            (hrrsH rr hrr).2.symm⟩
    obtain ⟨st', e1, e2, e3, e4, e5, e6, e7, c2, e8, e9⟩ := ih (F2 + 3 + 1)
      ⟨st6.ctx.pop, ⟨st6.run.log ++ [C.exchange cfg.port q], st6.run.elapsedMs + C.delayMs, false⟩⟩ T mC hq hmC
      (by omega) (by show st6.ctx.zones = zs; exact g4)
      (by show st6.ctx.stack.dropLast = S; rw [g3]; simp) hcache2 g6 hG1'
      (by show st6.ctx.now + NANOS ≤ T; rw [g5]; exact hT1) (by show T ≤ st6.ctx.now + _; rw [g5]; exact hT2)
      rfl (by simp only; rw [g2]; simp only; rw [p4]; omega)
    refine ⟨st', e1, ?_, e3, e4, by rw [e5]; exact g5, e6, e7, c2, by rw [e8]; show sharedInsertAll _ _ st6.ctx.now = _; rw [g5], e9⟩
    rw [e2, g2]
    simp only [p4, uni2_planLog_cons, uni2_planLog_append, uni2_planDelay_cons, uni_planDelay_append,
      List.append_assoc, List.cons_append, List.nil_append, Nat.add_assoc]


theorem uni2_walk_sub {gp : List RR → List RR} {U : Universe} {zs : Zones} {K : List (Name × Nat)} {m : Nat}
    {S : List Question} {q : Question} {V G : List UEntry} {Y : UEntry} {ex : List (UEntry × Question)} {f : Nat}
    {V' G' : List UEntry} {res : ResolvedRecord} (hw : UniWalk gp U zs K m S q V G Y ex f V' G' res) :
    q.name.isSubdomainOf Y.apex = true := by
  cases hw with
  | last hexp _ => exact uni_resolve_sub (uni_expected_isSome hexp)
  | glued _ hres _ _ _ _ _ _ => exact uni_resolve_sub (by rw [hres]; rfl)
  | glueless _ hres _ _ _ _ _ _ _ _ _ => exact uni_resolve_sub (by rw [hres]; rfl)

/-- THE MACHINE ON A WALK FROM THE START CONTEXT (root hints, empty cache): the root server is asked,
    then the walk is followed. -/
theorem uni2_walk_start {gp : List RR → List RR} {U : Universe} {cfg : RecCfg} (h : UniOKG gp U cfg) {zs : Zones}
    {m : Nat} (hmU : ∀ E ∈ U, m ≤ E.glueTtl) (hm1 : 1 ≤ m) {q : Question} (hq : QuestionOK q)
    (hnotNS : q.qtype ≠ RT_NS) {R : UEntry} (hR : R ∈ U) (hroot : R.apex = Name.root)
    (hints : RootHints zs R.host R.addr) (hqmiss : localMiss zs q.name q.qtype = true)
    (hcand : candMiss zs q.name.labels = true) {ex : List (UEntry × Question)} {f : Nat} {V' G' : List UEntry}
    {res : ResolvedRecord} (hw : UniWalk gp U zs [] m [q] q [] [] R ex f V' G' res)
    (htime : R.delayMs + planDelay ex < RESOLVE_TIMEOUT_MS) (hfuel : f + 3 ≤ REC_FUEL) (d now : Nat) :
    ∃ st', resolveRecursive cfg (startCtx zs d now) q = (st', .ok res) ∧
      st'.run = ⟨R.exchange cfg.port q :: planLog cfg.port ex, R.delayMs + planDelay ex, false⟩ ∧
      st'.ctx.stack = [] ∧ st'.ctx.zones = zs ∧ st'.ctx.now = now ∧
      ∃ c1, st'.ctx.cache = sharedInsertAll c1 res.rrs now ∧ uni2_Cache V' G' [] c1 (now + m * NANOS) := by
  have hRwf : Name.fromLabels R.apex.labels = some R.apex := by rw [hroot]; decide
  have hstop : R.apex.labels.length = 1 := by rw [hroot]; rfl
  have hn : NANOS = 1000000000 := rfl
  obtain ⟨mR, hmR⟩ := uni2_walk_reply hw hq.qtype
  obtain ⟨F, hF⟩ : ∃ F, REC_FUEL = F + 3 := ⟨REC_FUEL - 3, by omega⟩
  obtain ⟨st6, hrec, g2, g3, g4, g5, c1, g8, g9⟩ := uni2_resolveRec_wrap h q hq hnotNS hR (uni2_walk_sub hw) zs [] [] []
    (now + m * NANOS) (fun _ hC => nomatch hC) (fun _ hC => nomatch hC) (fun hk => nomatch hk)
    (Or.inr ⟨hroot, hints⟩) hRwf ⟨startCtx zs d now, Run.empty⟩ rfl (uni2_cache_new d _)
    (by
      show now + NANOS ≤ now + m * NANOS
      have : 1 * NANOS ≤ m * NANOS := Nat.mul_le_mul_right _ hm1
      omega)
    rfl (by simp [startCtx, RECURSION_LIMIT]) (fun _ hq0 => nomatch hq0) hqmiss
    (fun _ _ hE => nomatch hE) (uni_miss_ne_hints hints q hqmiss).2
    ⟨(fun hk => nomatch hk), (fun hk => nomatch hk)⟩
    (by rw [hstop]; exact uni2_warm_of_cand zs _ hcand) mR hmR
    (by simp only [Run.empty]; omega) F res
    (fun st6 => st6.run = ⟨[R.exchange cfg.port q] ++ planLog cfg.port ex, R.delayMs + planDelay ex, false⟩ ∧
      st6.ctx.stack = [q] ∧ st6.ctx.zones = zs ∧ st6.ctx.now = now ∧
      ∃ c1, st6.ctx.cache = sharedInsertAll c1 res.rrs now ∧ uni2_Cache V' G' [] c1 (now + m * NANOS))
    (by
      intro stQ hz2 hs2 hn2 hc2 hr2
      have hn2' : stQ.ctx.now = now := hn2
      obtain ⟨st6, e1, e2, e3, e4, e5, _, _, c1, e8, e9⟩ := uni2_walk h hmU hw (F + 1) stQ (now + m * NANOS) mR hq hmR
        (by omega) hz2 (by rw [hs2]; rfl) hc2 (fun _ hC => nomatch hC) (fun _ hC => nomatch hC)
        (by
          rw [hn2']
          have : 1 * NANOS ≤ m * NANOS := Nat.mul_le_mul_right _ hm1
          omega)
        (by rw [hn2']; exact Nat.le_refl _) (by rw [hr2]) (by rw [hr2]; simp only [Run.empty]; omega)
      refine ⟨st6, e1, ?_, e3, e4, by rw [e5, hn2'], c1, by rw [e8, hn2'], e9⟩
      rw [e2, hr2]
      simp [Run.empty])
  rw [← hF] at hrec
  refine ⟨⟨st6.ctx.pop, st6.run⟩, uni2_recursive_of_rec cfg _ q _ _ hrec (by show st6.run.timedOut = false; rw [g2]),
    by show st6.run = _; rw [g2]; simp, by show st6.ctx.stack.dropLast = []; rw [g3]; rfl, g4, g5, c1, g8, g9⟩

/-- a glued delegation path, followed by a walk from its last server, is a walk. -/
theorem uni2_walk_of_path {gp : List RR → List RR} {U : Universe} {zs : Zones} {K : List (Name × Nat)} {m : Nat}
    {S : List Question} {q : Question} {Y P : UEntry} {rest : List UEntry} (hp : DelegPath U q Y rest P)
    (hz : (P.zone.resolve q.name q.qtype).isSome = true) :
    ∀ (V G : List UEntry) (ex : List (UEntry × Question)) (f : Nat) (V' G' : List UEntry) (res : ResolvedRecord),
      (∀ C ∈ rest, GluedOK zs K S q C ∧ ∀ ttl, C.glueRR ∈ gp [C.nsRR ttl]) →
      (∀ Y' ∈ Y :: rest, nsTtlOK m q Y' = true) →
      UniWalk gp U zs K m S q (V ++ rest) (G ++ rest) P ex f V' G' res →
      UniWalk gp U zs K m S q V G Y (legExchanges q rest ++ ex) (f + 2 * rest.length) V' G' res := by
  induction hp with
  | here Z _ =>
    intro V G ex f V' G' res _ _ hw
    simpa [legExchanges] using hw
  | down Y C Z rest ttl hY hC hres httl hdepth hpath ih =>
    intro V G ex f V' G' res hok hns hw
    have hsub := uni_path_sub hpath hz
    have e1 : V ++ C :: rest = (V ++ [C]) ++ rest := by simp
    have e2 : G ++ C :: rest = (G ++ [C]) ++ rest := by simp
    rw [e1, e2] at hw
    have hnext := ih hz (V ++ [C]) (G ++ [C]) ex f V' G' res
      (fun D hD => hok D (List.mem_cons_of_mem _ hD)) (fun Y' hY' => hns Y' (List.mem_cons_of_mem _ hY')) hw
    have hfu : f + 2 * (C :: rest).length = (f + 2 * rest.length) + 2 := by
      simp only [List.length_cons]; omega
    rw [hfu]
    exact UniWalk.glued hC hres ⟨httl, uni2_nsTtl (hns Y List.mem_cons_self) C ttl hres⟩ hdepth hsub
      ((hok C List.mem_cons_self).2 ttl) (hok C List.mem_cons_self).1 hnext


theorem uni2_expected_ne_nil {Z : UEntry} {q : Question} {rrs : List RR}
    (hexp : expectedAt Z q = some (.nonAuthoritative rrs none)) : rrs ≠ [] := by
  intro he
  subst he
  unfold expectedAt at hexp
  split at hexp
  · split at hexp
    · cases hexp
    · rename_i hemp
      cases hexp
      exact hemp rfl
  · cases hexp
  · cases hexp

theorem uni2_hostQ_ne {q : Question} {host : Name} (h : isAddrQ q → q.name ≠ host) :
    q ≠ uniHostQ host ∧ q ≠ uniHost6Q host := by
  constructor
  · intro he
    exact h (Or.inl (by rw [he]; rfl)) (by rw [he]; rfl)
  · intro he
    exact h (Or.inr (by rw [he]; rfl)) (by rw [he]; rfl)

theorem uni2_path_last_mem {U : Universe} {q : Question} {Y Z : UEntry} {rest : List UEntry}
    (hp : DelegPath U q Y rest Z) : Z ∈ Y :: rest := by
  induction hp with
  | here _ _ => exact List.mem_cons_self
  | down _ _ _ _ _ _ _ _ _ _ _ ih => exact List.mem_cons_of_mem _ ih

/-- the walk of the simplest glueless resolution. -/
theorem uni2_walk_glueless_one {gp : List RR → List RR} {U : Universe} {zs : Zones} {m : Nat} {q : Question}
    (hq : QuestionOK q) (hk : rtypeIsUnknown q.qtype = false)
    {R P Z2 Y2 Z1 : UEntry} {rest rest2 : List UEntry} {ttl2 : Nat}
    (hp : DelegPath U q R rest P) (hZ2 : Z2 ∈ U)
    (hres2 : P.zone.resolve q.name q.qtype = some (.delegation [Z2.nsRR ttl2])) (httl2 : 0 < ttl2)
    (hdepth2 : P.apex.labels.length < Z2.apex.labels.length)
    (hp2 : DelegPath U (uniHostQ Z2.host) Y2 rest2 Z1)
    (hty1 : Z1.zone.records.Typed) (hty2 : Z2.zone.records.Typed)
    (hs : UniStartGlueless gp U zs m q R rest Z2 ttl2 Y2 rest2)
    {rrsH : List RR} (hexpH : expectedAt Z1 (uniHostQ Z2.host) = some (.nonAuthoritative rrsH none))
    (haddr : ∀ rr ∈ rrsH, rr.fields = [.a Z2.addr] ∧ m ≤ rr.ttl)
    {res : ResolvedRecord} (hexp : expectedAt Z2 q = some res) :
    ∃ V' G', UniWalk gp U zs [] m [q] q [] [] R
      (legExchanges q rest ++
        ((Y2, uniHostQ Z2.host) :: (legExchanges (uniHostQ Z2.host) rest2 ++ []) ++ (Z2, q) :: []))
      ((0 + 2 * rest2.length) + 0 + 6 + 2 * rest.length) V' G' res := by
  have hmem := uni_path_mem hp
  have hmem2 := uni_path_mem hp2
  have hP : (P.zone.resolve q.name q.qtype).isSome = true := by rw [hres2]; rfl
  have hZ1 : (Z1.zone.resolve (uniHostQ Z2.host).name (uniHostQ Z2.host).qtype).isSome = true :=
    uni_expected_isSome hexpH
  have hhq := hs.hostOK
  -- the nested walk
  have hnested : UniWalk gp U zs [] m ([q] ++ [uniHostQ Z2.host]) (uniHostQ Z2.host) (([] ++ rest) ++ [Z2]) ([] ++ rest)
      Y2 (legExchanges (uniHostQ Z2.host) rest2 ++ []) (0 + 2 * rest2.length) ((([] ++ rest) ++ [Z2]) ++ rest2)
      (([] ++ rest) ++ rest2) (.nonAuthoritative rrsH none) := by
    refine uni2_walk_of_path hp2 hZ1 _ _ [] 0 _ _ _ ?_ hs.nsTtl.2
      (UniWalk.last hexpH (uni_zoneSaysWF_of_typed hty1 _ hhq.qtype (by show rtypeIsUnknown RT_A = false; decide)))
    intro C hC
    refine ⟨⟨fun _ => ?_, hs.hostsMiss C (List.mem_append_right _ hC), (fun hk => nomatch hk), ?_,
      by simp [RECURSION_LIMIT]⟩, hs.glued C (List.mem_append_right _ hC)⟩
    · exact fun he => (hs.nestedHosts C (List.mem_cons_of_mem _ hC)).1 he.symm
    · have h1 := hs.nestedHosts C (List.mem_cons_of_mem _ hC)
      simp only [List.cons_append, List.nil_append, List.mem_cons, List.not_mem_nil, or_false, not_or]
      refine ⟨fun he => h1.2 he.symm, fun he => h1.1 ?_⟩
      have : (uniHostQ C.host).name = (uniHostQ Z2.host).name := by rw [he]
      exact this
  -- the node of the parent: a glueless referral to `Z2`
  have hnotZ2 : isAddrQ q → q.name ≠ Z2.host := fun h1 => hs.notHost h1 Z2 (by simp)
  have hunk : HostUnknown zs [] ([] ++ rest) [q] q Z2 := by
    refine ⟨hnotZ2, by simpa using hs.unknown.1, hs.unknown.2.1, hs.unknown.2.2,
      ⟨(fun hk => nomatch hk), (fun hk => nomatch hk), (fun hk => nomatch hk)⟩, ?_, by simp [RECURSION_LIMIT], ?_, hhq⟩
    · have := uni2_hostQ_ne hnotZ2
      simp only [List.mem_singleton]
      exact ⟨fun he => this.1 he.symm, fun he => this.2 he.symm⟩
    · intro q0 hq0
      simp only [List.mem_singleton] at hq0
      subst hq0; exact hs.notNS
  have hY2 := hs.nestedHosts Y2 List.mem_cons_self
  have hstart : NestedStart U zs [] (([] ++ rest) ++ [Z2]) ([] ++ rest) ([q] ++ [uniHostQ Z2.host]) Z2 Y2 := by
    refine ⟨hmem2.1, ?_, (fun hk => nomatch hk), hs.wf, uni_path_sub hp2 hZ1, by simpa using hs.warm, ?_⟩
    · rcases hs.start with ⟨h1, h2⟩ | h1
      · exact Or.inl ⟨by simp [h1], by simpa using h1, h2, hs.hostsMiss Y2 (List.mem_append_left _ h1),
          fun hk => nomatch hk⟩
      · exact Or.inr ⟨by rw [h1]; exact hs.root, by rw [h1]; exact hs.hints⟩
    · simp only [List.cons_append, List.nil_append, List.mem_cons, List.not_mem_nil, or_false, not_or]
      refine ⟨fun he => hY2.2 he.symm, fun he => hY2.1 ?_⟩
      have : (uniHostQ Y2.host).name = (uniHostQ Z2.host).name := by rw [he]
      exact this
  have hnode : UniWalk gp U zs [] m [q] q ([] ++ rest) ([] ++ rest) P
      ((Y2, uniHostQ Z2.host) :: (legExchanges (uniHostQ Z2.host) rest2 ++ []) ++ (Z2, q) :: [])
      ((0 + 2 * rest2.length) + 0 + 6) ((([] ++ rest) ++ [Z2]) ++ rest2) ((([] ++ rest) ++ rest2) ++ [Z2]) res :=
    UniWalk.glueless (resH := .nonAuthoritative rrsH none) (fN := 0 + 2 * rest2.length) (f := 0) hZ2 hres2
      ⟨httl2, uni2_nsTtl (hs.nsTtl.1 P (uni2_path_last_mem hp)) Z2 ttl2 hres2⟩ hdepth2
      (uni_resolve_sub (uni_expected_isSome hexp)) hs.glueless hunk hstart hnested
      ⟨uni2_expected_ne_nil hexpH, haddr⟩
      (UniWalk.last hexp (uni_zoneSaysWF_of_typed hty2 _ hq.qtype hk))
  refine ⟨_, _, uni2_walk_of_path hp hP [] [] _ _ _ _ _ ?_ hs.nsTtl.1 hnode⟩
  intro C hC
  have hnC : isAddrQ q → q.name ≠ C.host := fun h1 => hs.notHost h1 C (List.mem_append_left _ hC)
  refine ⟨⟨hnC, hs.hostsMiss C (List.mem_append_left _ hC), (fun hk => nomatch hk), ?_, by simp [RECURSION_LIMIT]⟩,
    hs.glued C (List.mem_append_left _ hC)⟩
  simp only [List.mem_singleton]
  exact fun he => (uni2_hostQ_ne hnC).1 he.symm


/-! ## The canonical oracle with in-bailiwick glue; the example universe `UniEx.uniG` -/

theorem uni2_glueB_sub (U : Universe) (ns : List RR) (g : RR) (h : g ∈ uniGlueB U ns) : g ∈ uniGlue U ns := by
  unfold uniGlueB at h
  unfold uniGlue
  simp only [List.mem_flatMap, List.mem_filter, List.any_eq_true, Bool.and_eq_true, beq_iff_eq] at h ⊢
  obtain ⟨C, ⟨hC, rr, hrr, ht, _⟩, hg⟩ := h
  exact ⟨C, ⟨hC, by
    simp only [List.contains_iff_mem, List.mem_filterMap]
    exact ⟨rr, hrr, ht⟩⟩, hg⟩

/-- in-bailiwick servers get glue, … -/
theorem uni2_glueB_mem {U : Universe} {C : UEntry} (hC : C ∈ U) (hb : C.host.isSubdomainOf C.apex = true) (ttl : Nat) :
    C.glueRR ∈ uniGlueB U [C.nsRR ttl] := by
  unfold uniGlueB
  simp only [List.mem_flatMap, List.mem_filter, List.any_cons, List.any_nil, Bool.or_false, Bool.and_eq_true,
    beq_iff_eq, uni_nsTarget_nsRR]
  exact ⟨C, ⟨hC, rfl, hb⟩, uni_mem_glueRRs.mpr (Or.inl rfl)⟩

/-- … a zone none of whose servers (by host name) lies inside it gets none. -/
theorem uni2_glueB_nil {U : Universe} {C : UEntry} (hb : ∀ E ∈ U, E.host = C.host → E.host.isSubdomainOf C.apex = false)
    (ttl : Nat) : uniGlueB U [C.nsRR ttl] = [] := by
  unfold uniGlueB
  rw [List.flatMap_eq_nil_iff]
  intro E hE
  simp only [List.mem_filter, List.any_cons, List.any_nil, Bool.or_false, Bool.and_eq_true, beq_iff_eq,
    uni_nsTarget_nsRR, Option.some.injEq] at hE
  obtain ⟨hEU, hh, hs⟩ := hE
  have := hb E hEU hh.symm
  rw [show (C.nsRR ttl).name = C.apex from rfl] at hs
  rw [this] at hs
  cases hs

theorem uni2_oracleB_faithful (U : Universe) (port : Nat) (hnd : (U.map (·.addr)).Nodup) :
    FaithfulG (uniGlueB U) U (uniCfgB U port) := by
  intro E hE q rd tcp
  simp only [uniCfgB, uniOracleG, uni_find_addr U hnd E hE, if_true]

theorem uni2_cfgB_ok (U : Universe) (port : Nat) (hnd : (U.map (·.addr)).Nodup) (hh : HostsFunctional U)
    (ha : ∀ E ∈ U, ∀ E' ∈ U, E.apex = E'.apex → E.host = E'.host)
    (hd : ∀ E ∈ U, E.delayMs < EXCHANGE_TIMEOUT_MS) (hg : ∀ E ∈ U, 0 < E.glueTtl) :
    UniOKG (uniGlueB U) U (uniCfgB U port) :=
  ⟨uni2_oracleB_faithful U port hnd, uni2_glueB_sub U, Or.inl rfl, fun _ => rfl, hh, ha, hd, hg⟩

namespace UniEx

theorem uni2_ex_mem {E : UEntry} (h : E ∈ uniG) : E = eRoot ∨ E = eEG ∨ E = eXE ∨ E = eYEG ∨ E = eZE := by
  simpa [uniG] using h

theorem uni2_ex_ok : UniOKG (uniGlueB uniG) uniG cfgG := by
  apply uni2_cfgB_ok
  · decide
  · intro E hE E' hE'
    rcases uni2_ex_mem hE with rfl | rfl | rfl | rfl | rfl <;>
      rcases uni2_ex_mem hE' with rfl | rfl | rfl | rfl | rfl <;> decide
  · intro E hE E' hE'
    rcases uni2_ex_mem hE with rfl | rfl | rfl | rfl | rfl <;>
      rcases uni2_ex_mem hE' with rfl | rfl | rfl | rfl | rfl <;> decide
  · intro E hE
    rcases uni2_ex_mem hE with rfl | rfl | rfl | rfl | rfl <;> decide
  · intro E hE
    rcases uni2_ex_mem hE with rfl | rfl | rfl | rfl | rfl <;> decide

theorem uni2_ex_root_refers (n : Name) (hn : n = nWZE ∨ n = nKYE) :
    zoneRoot.resolve n RT_A = some (.delegation [eEG.nsRR 3600]) := by
  rcases hn with rfl | rfl <;> (simp only [Zone.resolve, ZNode.resolve_eq_rev]; rfl)

theorem uni2_ex_e_refers_z : zoneEG.resolve nWZE RT_A = some (.delegation [eZE.nsRR 3600]) := by
  simp only [Zone.resolve, ZNode.resolve_eq_rev]; rfl

theorem uni2_ex_e_refers_y : zoneEG.resolve nKYE RT_A = some (.delegation [eYEG.nsRR 3600]) := by
  simp only [Zone.resolve, ZNode.resolve_eq_rev]; rfl

theorem uni2_ex_resolve_K : zoneYEG.resolve nKYE RT_A = some (.answer [rrK]) := by
  simp only [Zone.resolve, ZNode.resolve_eq_rev]; rfl

theorem uni2_ex_resolve_WZ : zoneZE.resolve nWZE RT_A = some (.answer [rrWZ]) := by
  simp only [Zone.resolve, ZNode.resolve_eq_rev]; rfl

/-- the main path of `w.z.e. A`: root → `e.` (which then refers to `z.e.` without glue). -/
theorem uni2_ex_path : DelegPath uniG qZ eRoot [eEG] eEG :=
  .down eRoot eEG eEG [] 3600 (by simp [uniG]) (by simp [uniG]) (uni2_ex_root_refers _ (Or.inl rfl)) (by decide)
    (by decide) (.here eEG (by simp [uniG]))

/-- the path of the name server's address `k.y.e. A`, from `e.` (cached): `e.` → `y.e.`. -/
theorem uni2_ex_path_k : DelegPath uniG (uniHostQ eZE.host) eEG [eYEG] eYEG :=
  .down eEG eYEG eYEG [] 3600 (by simp [uniG]) (by simp [uniG]) uni2_ex_e_refers_y (by decide) (by decide)
    (.here eYEG (by simp [uniG]))

theorem uni2_ex_typed : ∀ E ∈ uniG, E.zone.records.Typed := by
  intro E hE
  rcases uni2_ex_mem hE with rfl | rfl | rfl | rfl | rfl <;> exact uni_typed_of_check _ 2 (by decide)

theorem uni2_ex_expected_K : expectedAt eYEG (uniHostQ eZE.host) = some (.nonAuthoritative [rrK] none) := by
  unfold expectedAt
  show (match zoneYEG.resolve nKYE RT_A, zoneYEG.soaRR with
    | some (.answer rrs), some soa =>
      if rrs.isEmpty then some (ResolvedRecord.nonAuthoritative [] (some soa)) else some (.nonAuthoritative rrs none)
    | some .nameError, some soa => some (.nonAuthoritative [] (some soa))
    | _, _ => none) = _
  rw [uni2_ex_resolve_K]; rfl

theorem uni2_ex_expected_WZ : expectedAt eZE qZ = some (.nonAuthoritative [rrWZ] none) := by
  unfold expectedAt
  show (match zoneZE.resolve nWZE RT_A, zoneZE.soaRR with
    | some (.answer rrs), some soa =>
      if rrs.isEmpty then some (ResolvedRecord.nonAuthoritative [] (some soa)) else some (.nonAuthoritative rrs none)
    | some .nameError, some soa => some (.nonAuthoritative [] (some soa))
    | _, _ => none) = _
  rw [uni2_ex_resolve_WZ]; rfl

/-- all the hypotheses of the simplest glueless resolution hold for `w.z.e. A` in `uniG`. -/
theorem uni2_ex_startGlueless :
    UniStartGlueless (uniGlueB uniG) uniG zones 300 qZ eRoot [eEG] eZE 3600 eEG [eYEG] := by
  refine ⟨rfl, uni_ex_hints, by decide, by decide +kernel, by decide +kernel, ?_, ?_, ?_, by decide +kernel, ?_,
    ⟨by decide, by decide +kernel⟩, Or.inl ⟨by simp, by decide +kernel⟩, by decide, by decide +kernel, ?_, ⟨by decide, ?_⟩,
    ⟨?_, ?_⟩, by decide, by decide⟩
  · intro C hC ttl
    simp only [List.cons_append, List.nil_append, List.mem_cons, List.not_mem_nil, or_false] at hC
    rcases hC with rfl | rfl
    · exact uni2_glueB_mem (by simp [uniG]) (by decide) ttl
    · exact uni2_glueB_mem (by simp [uniG]) (by decide) ttl
  · intro C hC
    simp only [List.cons_append, List.nil_append, List.mem_cons, List.not_mem_nil, or_false] at hC
    rcases hC with rfl | rfl <;> decide +kernel
  · intro _ C hC
    simp only [List.cons_append, List.nil_append, List.mem_cons, List.not_mem_nil, or_false] at hC
    rcases hC with rfl | rfl <;> decide
  · refine ⟨?_, by decide +kernel, by decide +kernel⟩
    intro E hE
    simp only [List.mem_cons, List.not_mem_nil, or_false] at hE
    subst hE; decide
  · intro C hC
    simp only [List.mem_cons, List.not_mem_nil, or_false] at hC
    rcases hC with rfl | rfl <;> decide
  · intro E hE
    rcases uni2_ex_mem hE with rfl | rfl | rfl | rfl | rfl <;> decide
  · intro Y hY
    simp only [List.mem_cons, List.not_mem_nil, or_false] at hY
    rcases hY with rfl | rfl <;> decide +kernel
  · intro Y hY
    simp only [List.mem_cons, List.not_mem_nil, or_false] at hY
    rcases hY with rfl | rfl <;> decide +kernel

end UniEx


/-! ### `UniEx.uni`: a second question after `w.x.e. A` -/

namespace UniEx

theorem uni2_ex_expected_A : expectedAt eXE qA = some (.nonAuthoritative [rrW1, rrW2] none) := by
  unfold expectedAt
  show (match zoneXE.resolve nWXE RT_A, zoneXE.soaRR with
    | some (.answer rrs), some soa =>
      if rrs.isEmpty then some (ResolvedRecord.nonAuthoritative [] (some soa)) else some (.nonAuthoritative rrs none)
    | some .nameError, some soa => some (.nonAuthoritative [] (some soa))
    | _, _ => none) = _
  rw [uni_ex_resolve_A]; rfl

theorem uni2_ex_expected_AAAA : expectedAt eXE qAAAA = some (.nonAuthoritative [] (some soaRRXE)) := by
  unfold expectedAt
  show (match zoneXE.resolve nWXE RT_AAAA, zoneXE.soaRR with
    | some (.answer rrs), some soa =>
      if rrs.isEmpty then some (ResolvedRecord.nonAuthoritative [] (some soa)) else some (.nonAuthoritative rrs none)
    | some .nameError, some soa => some (.nonAuthoritative [] (some soa))
    | _, _ => none) = _
  rw [uni_ex_resolve_AAAA]; rfl

theorem uni2_ex_expected_nx : expectedAt eXE qNx = some (.nonAuthoritative [] (some soaRRXE)) := by
  unfold expectedAt
  show (match zoneXE.resolve nYXE RT_A, zoneXE.soaRR with
    | some (.answer rrs), some soa =>
      if rrs.isEmpty then some (ResolvedRecord.nonAuthoritative [] (some soa)) else some (.nonAuthoritative rrs none)
    | some .nameError, some soa => some (.nonAuthoritative [] (some soa))
    | _, _ => none) = _
  rw [uni_ex_resolve_nx]; rfl

/-- the TTL hypotheses for the example: glue and referrals have 3600 s. -/
theorem uni2_ex_fresh (q : Question) (hq : q = qA ∨ q = qAAAA ∨ q = qNx) (now now' : Nat) (h1 : now ≤ now')
    (h2 : now' + NANOS ≤ now + 3600 * NANOS) : UniFresh uni q eRoot [eE, eXE] 3600 now now' := by
  refine ⟨h1, h2, ?_, ?_⟩
  · intro E hE
    rcases uni_ex_mem hE with rfl | rfl | rfl | rfl <;> decide
  · intro Y hY
    simp only [List.mem_cons, List.not_mem_nil, or_false] at hY
    rcases hq with rfl | rfl | rfl <;> rcases hY with rfl | rfl | rfl <;> decide +kernel

/-- the hypotheses on a sibling question hold for `w.x.e. AAAA` (same name, other type) and
    `y.x.e. A` (other name) after `w.x.e. A`. -/
theorem uni2_ex_sibling (q2 : Question) (hq2 : q2 = qAAAA ∨ q2 = qNx) :
    UniSibling zones [(qA.name, qA.qtype)] eRoot [eE, eXE] eXE q2 := by
  refine ⟨(uni_ex_question q2 (by rcases hq2 with h | h <;> simp [h])).1,
    (uni_ex_question q2 (by rcases hq2 with h | h <;> simp [h])).2, ?_, ?_, ?_, ?_, Or.inl ⟨by simp, by decide +kernel⟩,
    by decide, ?_⟩
  · rcases hq2 with rfl | rfl <;> decide
  · rcases hq2 with rfl | rfl <;> decide +kernel
  · intro _ E hE
    simp only [List.mem_cons, List.not_mem_nil, or_false] at hE
    rcases hq2 with rfl | rfl <;> rcases hE with rfl | rfl <;> decide
  · rcases hq2 with rfl | rfl <;> decide
  · rcases hq2 with rfl | rfl <;> decide +kernel

end UniEx

/-! ### `UniEx.uniG2`: a glueless zone whose name server lies in another glueless zone -/

namespace UniEx

theorem uni2_ex2_mem {E : UEntry} (h : E ∈ uniG2) :
    E = eRoot ∨ E = eEG2 ∨ E = eXE ∨ E = eYEG ∨ E = eZE2 ∨ E = eVE := by
  simpa [uniG2] using h

theorem uni2_ex2_ok : UniOKG (uniGlueB uniG2) uniG2 cfgG2 := by
  apply uni2_cfgB_ok
  · decide
  · intro E hE E' hE'
    rcases uni2_ex2_mem hE with rfl | rfl | rfl | rfl | rfl | rfl <;>
      rcases uni2_ex2_mem hE' with rfl | rfl | rfl | rfl | rfl | rfl <;> decide
  · intro E hE E' hE'
    rcases uni2_ex2_mem hE with rfl | rfl | rfl | rfl | rfl | rfl <;>
      rcases uni2_ex2_mem hE' with rfl | rfl | rfl | rfl | rfl | rfl <;> decide
  · intro E hE
    rcases uni2_ex2_mem hE with rfl | rfl | rfl | rfl | rfl | rfl <;> decide
  · intro E hE
    rcases uni2_ex2_mem hE with rfl | rfl | rfl | rfl | rfl | rfl <;> decide

theorem uni2_ex2_typed : ∀ E ∈ uniG2, E.zone.records.Typed := by
  intro E hE
  rcases uni2_ex2_mem hE with rfl | rfl | rfl | rfl | rfl | rfl <;> exact uni_typed_of_check _ 2 (by decide)

theorem uni2_ex2_says (E : UEntry) (hE : E ∈ uniG2) (q : Question) (hq : lookupNat queryTypeFromU16 q.qtype = none)
    (hk : rtypeIsUnknown q.qtype = false) : ZoneSaysWF E.zone q :=
  uni_zoneSaysWF_of_typed (uni2_ex2_typed E hE) q hq hk

theorem uni2_ex2_expected (Z : UEntry) (q : Question) (rrs : List RR) (soa : RR)
    (h1 : Z.zone.resolve q.name q.qtype = some (.answer rrs)) (h2 : Z.zone.soaRR = some soa)
    (h3 : rrs.isEmpty = false) : expectedAt Z q = some (.nonAuthoritative rrs none) := by
  unfold expectedAt
  rw [h1, h2]
  simp [h3]

/-- the walk of `w.v.e. A`: root → `e.` — glueless referral to `v.e.` (name server `j.z.e.`) — nested:
    `j.z.e. A` from `e.` — glueless referral to `z.e.` (name server `k.y.e.`) — nested in that:
    `k.y.e. A` from `e.` → `y.e.` (6.6.6.6) — then `z.e.` (8.8.8.8) — then `v.e.`. -/
theorem uni2_ex2_walk : ∃ V' G', UniWalk (uniGlueB uniG2) uniG2 zones [] 300 [qV] qV [] [] eRoot
    [(eEG2, qV), (eEG2, uniHostQ nJZE), (eEG2, uniHostQ nKYE), (eYEG, uniHostQ nKYE), (eZE2, uniHostQ nJZE), (eVE, qV)]
    (((0 + 2) + 0 + 6) + 0 + 6 + 2) V' G' (.nonAuthoritative [rrWV] none) := by
  have hqok : ∀ n, n = nJZE ∨ n = nKYE → QuestionOK (uniHostQ n) := by
    intro n hn
    rcases hn with rfl | rfl <;> exact ⟨by decide, by decide +kernel⟩
  -- innermost: `k.y.e. A`, stack `[qV, j.z.e. A, k.y.e. A]`, from `e.`: referral (glue) to `y.e.`, which answers
  have hN2 : UniWalk (uniGlueB uniG2) uniG2 zones [] 300 ([qV] ++ [uniHostQ eVE.host] ++ [uniHostQ eZE2.host])
      (uniHostQ eZE2.host) ((([] ++ [eEG2]) ++ [eVE]) ++ [eZE2]) ([] ++ [eEG2]) eEG2 [(eYEG, uniHostQ eZE2.host)] (0 + 2)
      (((([] ++ [eEG2]) ++ [eVE]) ++ [eZE2]) ++ [eYEG]) (([] ++ [eEG2]) ++ [eYEG]) (.nonAuthoritative [rrK] none) := by
    refine UniWalk.glued (ttl := 3600) (by simp [uniG2]) ?_ (by decide) (by decide) (by decide)
      (uni2_glueB_mem (by simp [uniG2]) (by decide) _) ⟨fun _ => by decide, by decide +kernel, (fun hk => nomatch hk),
        by decide, by decide⟩
      (UniWalk.last (uni2_ex2_expected eYEG _ [rrK] ⟨nYE, 6, soaYE.toFields, 1, 60⟩ uni2_ex_resolve_K rfl rfl)
        (uni2_ex2_says eYEG (by simp [uniG2]) _ (by decide) (by decide)))
    show zoneEG2.resolve nKYE RT_A = _
    simp only [Zone.resolve, ZNode.resolve_eq_rev]; rfl
  -- middle: `j.z.e. A`, stack `[qV, j.z.e. A]`, from `e.`: glueless referral to `z.e.`
  have hN1 : UniWalk (uniGlueB uniG2) uniG2 zones [] 300 ([qV] ++ [uniHostQ eVE.host]) (uniHostQ eVE.host)
      (([] ++ [eEG2]) ++ [eVE]) ([] ++ [eEG2]) eEG2
      ((eEG2, uniHostQ eZE2.host) :: [(eYEG, uniHostQ eZE2.host)] ++ (eZE2, uniHostQ eVE.host) :: [])
      ((0 + 2) + 0 + 6) (((([] ++ [eEG2]) ++ [eVE]) ++ [eZE2]) ++ [eYEG]) ((([] ++ [eEG2]) ++ [eYEG]) ++ [eZE2])
      (.nonAuthoritative [rrJ] none) := by
    refine UniWalk.glueless (ttl := 3600) (resH := .nonAuthoritative [rrK] none) (fN := 0 + 2) (f := 0)
      (by simp [uniG2]) ?_ (by decide) (by decide) (by decide)
      (uni2_glueB_nil (by
        intro E hE hh
        rcases uni2_ex2_mem hE with rfl | rfl | rfl | rfl | rfl | rfl <;>
          first | decide | exact absurd hh (by decide)) _)
      ⟨fun _ => by decide, ?_, by decide +kernel, by decide +kernel,
        ⟨(fun hk => nomatch hk), (fun hk => nomatch hk), (fun hk => nomatch hk)⟩, by decide, by decide, ?_,
        hqok _ (Or.inr rfl)⟩
      ⟨by simp [uniG2], Or.inl ⟨by simp, by simp, by decide +kernel, by decide +kernel, (fun hk => nomatch hk)⟩,
        (fun hk => nomatch hk), by decide, by decide, by decide +kernel, by decide⟩
      hN2 ⟨by simp [ResolvedRecord.rrs], ?_⟩
      (UniWalk.last (uni2_ex2_expected eZE2 _ [rrJ] soaRRZE ?_ rfl rfl)
        (uni2_ex2_says eZE2 (by simp [uniG2]) _ (by decide) (by decide)))
    · show zoneEG2.resolve nJZE RT_A = _
      simp only [Zone.resolve, ZNode.resolve_eq_rev]; rfl
    · intro E hE
      simp only [List.nil_append, List.mem_singleton] at hE
      subst hE; decide
    · intro q0 hq0
      simp only [List.cons_append, List.nil_append, List.mem_cons, List.not_mem_nil, or_false] at hq0
      rcases hq0 with rfl | rfl <;> decide
    · intro rr hr
      simp only [ResolvedRecord.rrs, List.mem_singleton] at hr
      subst hr; decide
    · show zoneZE2.resolve nJZE RT_A = _
      simp only [Zone.resolve, ZNode.resolve_eq_rev]; rfl
  -- the node of `e.` for `w.v.e. A`: glueless referral to `v.e.`
  have hW1 : UniWalk (uniGlueB uniG2) uniG2 zones [] 300 [qV] qV ([] ++ [eEG2]) ([] ++ [eEG2]) eEG2
      ((eEG2, uniHostQ eVE.host) ::
        ((eEG2, uniHostQ eZE2.host) :: [(eYEG, uniHostQ eZE2.host)] ++ (eZE2, uniHostQ eVE.host) :: []) ++
        (eVE, qV) :: [])
      (((0 + 2) + 0 + 6) + 0 + 6) (((([] ++ [eEG2]) ++ [eVE]) ++ [eZE2]) ++ [eYEG])
      (((([] ++ [eEG2]) ++ [eYEG]) ++ [eZE2]) ++ [eVE]) (.nonAuthoritative [rrWV] none) := by
    refine UniWalk.glueless (ttl := 3600) (resH := .nonAuthoritative [rrJ] none) (fN := (0 + 2) + 0 + 6) (f := 0)
      (by simp [uniG2]) ?_ (by decide) (by decide) (by decide)
      (uni2_glueB_nil (by
        intro E hE hh
        rcases uni2_ex2_mem hE with rfl | rfl | rfl | rfl | rfl | rfl <;>
          first | decide | exact absurd hh (by decide)) _)
      ⟨fun _ => by decide, ?_, by decide +kernel, by decide +kernel,
        ⟨(fun hk => nomatch hk), (fun hk => nomatch hk), (fun hk => nomatch hk)⟩, by decide, by decide, ?_,
        hqok _ (Or.inl rfl)⟩
      ⟨by simp [uniG2], Or.inl ⟨by simp, by simp, by decide +kernel, by decide +kernel, (fun hk => nomatch hk)⟩,
        (fun hk => nomatch hk), by decide, by decide, by decide +kernel, by decide⟩
      hN1 ⟨by simp [ResolvedRecord.rrs], ?_⟩
      (UniWalk.last (uni2_ex2_expected eVE _ [rrWV] ⟨nVE, 6, soaVE.toFields, 1, 60⟩ ?_ rfl rfl)
        (uni2_ex2_says eVE (by simp [uniG2]) _ (by decide) (by decide)))
    · show zoneEG2.resolve nWVE RT_A = _
      simp only [Zone.resolve, ZNode.resolve_eq_rev]; rfl
    · intro E hE
      simp only [List.nil_append, List.mem_singleton] at hE
      subst hE; decide
    · intro q0 hq0
      simp only [List.mem_singleton] at hq0
      subst hq0; decide
    · intro rr hr
      simp only [ResolvedRecord.rrs, List.mem_singleton] at hr
      subst hr; decide
    · show zoneVE.resolve nWVE RT_A = _
      simp only [Zone.resolve, ZNode.resolve_eq_rev]; rfl
  -- the root refers to `e.` with glue
  refine ⟨_, _, UniWalk.glued (ttl := 3600) (by simp [uniG2]) ?_ (by decide) (by decide) (by decide)
    (uni2_glueB_mem (by simp [uniG2]) (by decide) _)
    ⟨fun _ => by decide, by decide +kernel, (fun hk => nomatch hk), by decide, by decide⟩ hW1⟩
  show zoneRoot.resolve nWVE RT_A = _
  simp only [Zone.resolve, ZNode.resolve_eq_rev]; rfl

end UniEx

end Resolved
