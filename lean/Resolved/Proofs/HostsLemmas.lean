/-
  Helper lemmas for C14 / C17 (hosts files): slicing of ASCII lines, left-to-right reading of the
  split-based specification, and the refinement of the `parse_line` state machine to it.
-/
import Resolved.Spec.HostsSpec

namespace Resolved

open HostsM

/-! ## character classes: the model's and the specification's agree -/

theorem ws_eq (c : Char) : HSpec.ws c = isWs c := by
  unfold HSpec.ws isWs
  generalize c.toNat = n
  by_cases h1 : n = 32 <;> by_cases h2 : n = 9 <;> by_cases h3 : n = 10 <;> by_cases h4 : n = 11 <;>
    by_cases h5 : n = 12 <;> by_cases h6 : n = 13 <;> simp_all <;> omega

theorem hash_eq (c : Char) : HSpec.hash c = isHash c := rfl
theorem percent_eq (c : Char) : HSpec.percent c = isPercent c := rfl
theorem ascii_eq (c : Char) : HSpec.ascii c = isAscii c := rfl

theorem ws_ascii {c : Char} (h : isWs c = true) : isAscii c = true := by
  unfold isWs at h; unfold isAscii
  simp at h ⊢; omega

theorem hash_ascii {c : Char} (h : isHash c = true) : isAscii c = true := by
  unfold isHash at h; unfold isAscii
  simp at h ⊢; omega

theorem percent_ascii {c : Char} (h : isPercent c = true) : isAscii c = true := by
  unfold isPercent at h; unfold isAscii
  simp at h ⊢; omega

theorem hash_not_ws {c : Char} (h : isHash c = true) : isWs c = false := by
  unfold isHash at h; unfold isWs
  simp at h ⊢; omega

theorem percent_not_ws {c : Char} (h : isPercent c = true) : isWs c = false := by
  unfold isPercent at h; unfold isWs
  simp at h ⊢; omega

theorem percent_not_hash {c : Char} (h : isPercent c = true) : isHash c = false := by
  unfold isPercent at h; unfold isHash
  simp at h ⊢; omega

/-! ## `&line[a..b]` on an ASCII prefix never panics (C17) -/

theorem utf8Len_ascii {c : Char} (h : isAscii c = true) : utf8Len c = 1 := by
  unfold isAscii at h; unfold utf8Len
  simp at h; simp [h]

def AllAscii (s : List Char) : Prop := ∀ c ∈ s, isAscii c = true

theorem dropBytes_ascii (a b : List Char) (ha : AllAscii a) : dropBytes (a ++ b) a.length = some b := by
  induction a with
  | nil => cases b <;> simp [dropBytes]
  | cons c cs ih =>
    have hc : utf8Len c = 1 := utf8Len_ascii (ha c (by simp))
    simp only [List.cons_append, List.length_cons, dropBytes, hc]
    simp
    exact ih (fun d hd => ha d (by simp [hd]))

theorem takeBytes_ascii (a b : List Char) (ha : AllAscii a) : takeBytes (a ++ b) a.length = some a := by
  induction a with
  | nil => cases b <;> simp [takeBytes]
  | cons c cs ih =>
    have hc : utf8Len c = 1 := utf8Len_ascii (ha c (by simp))
    simp only [List.cons_append, List.length_cons, takeBytes, hc]
    simp
    exact ih (fun d hd => ha d (by simp [hd]))

/-- the slice between two offsets of an ASCII prefix is the text between them. -/
theorem strSlice_ascii (p q r : List Char) (hp : AllAscii p) (hq : AllAscii q) :
    strSlice (p ++ q ++ r) p.length (p.length + q.length) = some q := by
  unfold strSlice
  rw [if_pos (by omega), List.append_assoc, dropBytes_ascii p (q ++ r) hp]
  simp only [Nat.add_sub_cancel_left]
  exact takeBytes_ascii q r hq

/-! ## the specification read from left to right -/

namespace HSpec

def NoWs (s : List Char) : Prop := ∀ c ∈ s, ws c = false
def NoHash (s : List Char) : Prop := ∀ c ∈ s, hash c = false

theorem splitRaw_ne_nil (l : List Char) : splitRaw l ≠ [] := by
  cases l with
  | nil => simp [splitRaw]
  | cons c cs =>
    unfold splitRaw
    split
    · simp
    · split <;> simp

theorem splitRaw_append_noWs (cur l : List Char) (h : NoWs cur) :
    splitRaw (cur ++ l) =
      match splitRaw l with
      | p :: ps => (cur ++ p) :: ps
      | [] => [cur] := by
  induction cur with
  | nil =>
    simp only [List.nil_append]
    cases hs : splitRaw l with
    | nil => exact absurd hs (splitRaw_ne_nil l)
    | cons p ps => rfl
  | cons c cs ih =>
    have hc : ws c = false := h c (by simp)
    have ih' := ih (fun d hd => h d (by simp [hd]))
    simp only [List.cons_append]
    rw [splitRaw, if_neg (by simp [hc]), ih']
    cases hs : splitRaw l with
    | nil => exact absurd hs (splitRaw_ne_nil l)
    | cons p ps => simp

theorem splitRaw_noWs (cur : List Char) (h : NoWs cur) : splitRaw cur = [cur] := by
  have := splitRaw_append_noWs cur [] h
  simpa [splitRaw] using this

theorem splitRaw_append_ws (cur b : List Char) (w : Char) (h : NoWs cur) (hw : ws w = true) :
    splitRaw (cur ++ w :: b) = cur :: splitRaw b := by
  rw [splitRaw_append_noWs cur _ h]
  simp [splitRaw, hw]

theorem fields_noWs (cur : List Char) (h : NoWs cur) : fields cur = if cur.isEmpty then [] else [cur] := by
  unfold fields
  rw [splitRaw_noWs cur h]
  cases cur <;> simp

theorem fields_append_ws (cur b : List Char) (w : Char) (h : NoWs cur) (hw : ws w = true) :
    fields (cur ++ w :: b) = (if cur.isEmpty then [] else [cur]) ++ fields b := by
  unfold fields
  rw [splitRaw_append_ws cur b w h hw]
  cases cur <;> simp

theorem fields_ws_cons (b : List Char) (w : Char) (hw : ws w = true) : fields (w :: b) = fields b := by
  have := fields_append_ws [] b w (by intro c hc; simp at hc) hw
  simpa using this

/-- when a non-blank character follows, the field being read goes on. -/
theorem fields_head (cur b : List Char) (c : Char) (h : NoWs cur) (hc : ws c = false) :
    ∃ x y, fields (cur ++ c :: b) = (cur ++ c :: x) :: y := by
  unfold fields
  rw [splitRaw_append_noWs cur _ h]
  rw [splitRaw, if_neg (by simp [hc])]
  cases hs : splitRaw b with
  | nil => exact absurd hs (splitRaw_ne_nil b)
  | cons p ps =>
    refine ⟨p, ps.filter (fun f => !f.isEmpty), ?_⟩
    simp

theorem body_nil : body [] = [] := rfl

theorem body_hash_cons (c : Char) (cs : List Char) (h : hash c = true) : body (c :: cs) = [] := by
  simp [body, List.takeWhile, h]

theorem body_cons (c : Char) (cs : List Char) (h : hash c = false) : body (c :: cs) = c :: body cs := by
  simp [body, List.takeWhile, h]

theorem body_append_noHash (cur l : List Char) (h : NoHash cur) : body (cur ++ l) = cur ++ body l := by
  induction cur with
  | nil => rfl
  | cons c cs ih =>
    simp only [List.cons_append]
    rw [body_cons _ _ (h c (by simp)), ih (fun d hd => h d (by simp [hd]))]

theorem body_noHash (cur : List Char) (h : NoHash cur) : body cur = cur := by
  have := body_append_noHash cur [] h
  simpa [body_nil] using this

/-- what the check of the comment amounts to once the first `#` has been seen. -/
def afterHash (cs : List Char) : Option Char :=
  match cs.dropWhile hash with
  | [] => none
  | d :: _ => if ascii d then none else some d

theorem commentCheck_nil : commentCheck [] = none := rfl

theorem commentCheck_hash_cons (c : Char) (cs : List Char) (h : hash c = true) :
    commentCheck (c :: cs) = afterHash cs := by
  simp [commentCheck, comment, List.dropWhile, h, afterHash]
  rfl

theorem commentCheck_cons (c : Char) (cs : List Char) (h : hash c = false) :
    commentCheck (c :: cs) = commentCheck cs := by
  simp [commentCheck, comment, List.dropWhile, h]

theorem commentCheck_append_noHash (cur l : List Char) (h : NoHash cur) :
    commentCheck (cur ++ l) = commentCheck l := by
  induction cur with
  | nil => rfl
  | cons c cs ih =>
    simp only [List.cons_append]
    rw [commentCheck_cons _ _ (h c (by simp)), ih (fun d hd => h d (by simp [hd]))]

theorem commentCheck_noHash (cur : List Char) (h : NoHash cur) : commentCheck cur = none := by
  have := commentCheck_append_noHash cur [] h
  simpa [commentCheck_nil] using this

theorem afterHash_nil : afterHash [] = none := rfl

theorem afterHash_hash_cons (c : Char) (cs : List Char) (h : hash c = true) :
    afterHash (c :: cs) = afterHash cs := by
  simp [afterHash, List.dropWhile, h]

theorem afterHash_cons (c : Char) (cs : List Char) (h : hash c = false) :
    afterHash (c :: cs) = if ascii c then none else some c := by
  simp [afterHash, List.dropWhile, h]

theorem fft_ws_cons (c : Char) (b : List Char) (h : ws c = true) :
    firstFieldTerminated (c :: b) = firstFieldTerminated b := by
  simp [firstFieldTerminated, List.dropWhile, h]

theorem dropWhile_notWs_append (cur l : List Char) (h : NoWs cur) :
    (cur ++ l).dropWhile (fun c => !ws c) = l.dropWhile (fun c => !ws c) := by
  induction cur with
  | nil => rfl
  | cons c cs ih =>
    simp only [List.cons_append, List.dropWhile, h c (by simp), Bool.not_false]
    exact ih (fun d hd => h d (by simp [hd]))

theorem fft_field (c : Char) (cur l : List Char) (hc : ws c = false) (h : NoWs cur) :
    firstFieldTerminated (c :: cur ++ l) = !(l.dropWhile (fun c => !ws c)).isEmpty := by
  unfold firstFieldTerminated
  have : (c :: cur ++ l).dropWhile ws = c :: cur ++ l := by simp [List.dropWhile, hc]
  rw [this]
  have h' : NoWs (c :: cur) := by
    intro d hd; simp at hd; rcases hd with rfl | hd
    · exact hc
    · exact h d hd
  rw [dropWhile_notWs_append (c :: cur) l h']

theorem firstNonAscii_ascii (s : List Char) (h : AllAscii s) : firstNonAscii s = none := by
  unfold firstNonAscii
  rw [List.find?_eq_none]
  intro c hc
  simp [ascii_eq, h c hc]

theorem firstNonAscii_append (cur x : List Char) (c : Char) (h : AllAscii cur) (hc : isAscii c = false) :
    firstNonAscii (cur ++ c :: x) = some c := by
  induction cur with
  | nil => simp [firstNonAscii, ascii_eq, hc]
  | cons d ds ih =>
    simp only [List.cons_append, firstNonAscii, List.find?, ascii_eq, h d (by simp), Bool.not_true]
    exact ih (fun e he => h e (by simp [he]))

end HSpec

/-! ## one step of the state machine -/

namespace HostsM

/-- the loop from a given position, followed by the code after the loop. -/
def runLoop (line rest : List Char) (i : Nat) (st : PState) (a : IpAddr) (names : List Name) :
    Except HErr (Option (IpAddr × List Name)) :=
  match lineLoop line rest i st a names with
  | .error e => .error e
  | .ok out => finishLine line out

theorem parseLine_eq_runLoop (line : List Char) :
    parseLine line = runLoop line line 0 .skipToAddress LOCALHOST [] := rfl

theorem nameSetInsert_eq (ns : List Name) (n : Name) : nameSetInsert ns n = HSpec.addIfNew ns n := rfl

theorem runLoop_nil_other (line : List Char) (i : Nat) (st : PState) (a : IpAddr) (names : List Name)
    (h : ∀ s, st ≠ .readingName s) :
    runLoop line [] i st a names = .ok (HSpec.lineResult a names) := by
  unfold runLoop
  simp only [lineLoop, finishLine]
  cases st with
  | readingName s => exact absurd rfl (h s)
  | _ => simp [HSpec.lineResult] <;> split <;> rfl

theorem runLoop_nil_readingName (line : List Char) (i start : Nat) (a : IpAddr) (names : List Name)
    (s : List Char) (hs : dropBytes line start = some s) :
    runLoop line [] i (.readingName start) a names =
      match addName names s with
      | .error e => .error e
      | .ok names' => .ok (HSpec.lineResult a names') := by
  unfold runLoop
  simp only [lineLoop, finishLine, hs]
  cases addName names s with
  | error e => simp
  | ok ns => simp [HSpec.lineResult]; split <;> rfl

theorem runLoop_nonascii (line cs : List Char) (c : Char) (i : Nat) (st : PState) (a : IpAddr)
    (names : List Name) (h : isAscii c = false) :
    runLoop line (c :: cs) i st a names = .error (.expectedAscii c) := by
  unfold runLoop
  simp [lineLoop, h]

theorem runLoop_hash_other (line cs : List Char) (c : Char) (i : Nat) (st : PState) (a : IpAddr)
    (names : List Name) (hh : isHash c = true) (h : ∀ s, st ≠ .readingName s) :
    runLoop line (c :: cs) i st a names = runLoop line cs (i + 1) .commentToEndOfLine a names := by
  unfold runLoop
  have ha := hash_ascii hh
  cases st with
  | readingName s => exact absurd rfl (h s)
  | _ => rw [lineLoop]; simp [ha, hh, utf8Len_ascii ha]

theorem runLoop_hash_readingName (line cs : List Char) (c : Char) (i start : Nat) (a : IpAddr)
    (names : List Name) (hh : isHash c = true) (s : List Char) (hs : strSlice line start i = some s) :
    runLoop line (c :: cs) i (.readingName start) a names =
      match addName names s with
      | .error e => .error e
      | .ok names' => runLoop line cs (i + 1) .commentToEndOfLine a names' := by
  unfold runLoop
  have ha := hash_ascii hh
  rw [lineLoop]
  simp only [ha, hh, utf8Len_ascii ha, hs]
  cases addName names s <;> simp

theorem runLoop_comment_other (line cs : List Char) (c : Char) (i : Nat) (a : IpAddr)
    (names : List Name) (ha : isAscii c = true) (hh : isHash c = false) :
    runLoop line (c :: cs) i .commentToEndOfLine a names = .ok (HSpec.lineResult a names) := by
  unfold runLoop
  rw [lineLoop]
  simp [ha, hh, finishLine, HSpec.lineResult]
  split <;> rfl

theorem runLoop_skipToAddress_ws (line cs : List Char) (c : Char) (i : Nat) (a : IpAddr)
    (names : List Name) (hw : isWs c = true) :
    runLoop line (c :: cs) i .skipToAddress a names = runLoop line cs (i + 1) .skipToAddress a names := by
  unfold runLoop
  have ha := ws_ascii hw
  have hh : isHash c = false := by
    cases h : isHash c with
    | false => rfl
    | true => rw [hash_not_ws h] at hw; cases hw
  rw [lineLoop]
  simp [ha, hh, hw, utf8Len_ascii ha]

theorem runLoop_skipToAddress_other (line cs : List Char) (c : Char) (i : Nat) (a : IpAddr)
    (names : List Name) (ha : isAscii c = true) (hh : isHash c = false) (hw : isWs c = false) :
    runLoop line (c :: cs) i .skipToAddress a names =
      runLoop line cs (i + 1) (.readingAddress i) a names := by
  unfold runLoop
  rw [lineLoop]
  simp [ha, hh, hw, utf8Len_ascii ha]

theorem runLoop_readingAddress_percent (line cs : List Char) (c : Char) (i start : Nat) (a : IpAddr)
    (names : List Name) (hp : isPercent c = true) :
    runLoop line (c :: cs) i (.readingAddress start) a names = .ok (HSpec.lineResult a names) := by
  unfold runLoop
  rw [lineLoop]
  simp [percent_ascii hp, percent_not_hash hp, hp, finishLine, HSpec.lineResult]
  split <;> rfl

theorem runLoop_readingAddress_ws (line cs : List Char) (c : Char) (i start : Nat) (a : IpAddr)
    (names : List Name) (hw : isWs c = true) (s : List Char) (hs : strSlice line start i = some s) :
    runLoop line (c :: cs) i (.readingAddress start) a names =
      match Ip.parseIpAddr (utf8Encode s) with
      | some a' => runLoop line cs (i + 1) .skipToName a' names
      | none => .error (.couldNotParseAddress s) := by
  unfold runLoop
  have ha := ws_ascii hw
  have hh : isHash c = false := by
    cases h : isHash c with
    | false => rfl
    | true => rw [hash_not_ws h] at hw; cases hw
  have hp : isPercent c = false := by
    cases h : isPercent c with
    | false => rfl
    | true => rw [percent_not_ws h] at hw; cases hw
  rw [lineLoop]
  simp only [ha, hh, hp, hw, utf8Len_ascii ha, hs]
  cases Ip.parseIpAddr (utf8Encode s) <;> simp

theorem runLoop_readingAddress_other (line cs : List Char) (c : Char) (i start : Nat) (a : IpAddr)
    (names : List Name) (ha : isAscii c = true) (hh : isHash c = false) (hw : isWs c = false)
    (hp : isPercent c = false) :
    runLoop line (c :: cs) i (.readingAddress start) a names =
      runLoop line cs (i + 1) (.readingAddress start) a names := by
  unfold runLoop
  rw [lineLoop]
  simp [ha, hh, hw, hp, utf8Len_ascii ha]

theorem runLoop_skipToName_ws (line cs : List Char) (c : Char) (i : Nat) (a : IpAddr)
    (names : List Name) (hw : isWs c = true) :
    runLoop line (c :: cs) i .skipToName a names = runLoop line cs (i + 1) .skipToName a names := by
  unfold runLoop
  have ha := ws_ascii hw
  have hh : isHash c = false := by
    cases h : isHash c with
    | false => rfl
    | true => rw [hash_not_ws h] at hw; cases hw
  rw [lineLoop]
  simp [ha, hh, hw, utf8Len_ascii ha]

theorem runLoop_skipToName_other (line cs : List Char) (c : Char) (i : Nat) (a : IpAddr)
    (names : List Name) (ha : isAscii c = true) (hh : isHash c = false) (hw : isWs c = false) :
    runLoop line (c :: cs) i .skipToName a names =
      runLoop line cs (i + 1) (.readingName i) a names := by
  unfold runLoop
  rw [lineLoop]
  simp [ha, hh, hw, utf8Len_ascii ha]

theorem runLoop_readingName_ws (line cs : List Char) (c : Char) (i start : Nat) (a : IpAddr)
    (names : List Name) (hw : isWs c = true) (s : List Char) (hs : strSlice line start i = some s) :
    runLoop line (c :: cs) i (.readingName start) a names =
      match addName names s with
      | .error e => .error e
      | .ok names' => runLoop line cs (i + 1) .skipToName a names' := by
  unfold runLoop
  have ha := ws_ascii hw
  have hh : isHash c = false := by
    cases h : isHash c with
    | false => rfl
    | true => rw [hash_not_ws h] at hw; cases hw
  rw [lineLoop]
  simp only [ha, hh, hw, utf8Len_ascii ha, hs]
  cases addName names s <;> simp

theorem runLoop_readingName_other (line cs : List Char) (c : Char) (i start : Nat) (a : IpAddr)
    (names : List Name) (ha : isAscii c = true) (hh : isHash c = false) (hw : isWs c = false) :
    runLoop line (c :: cs) i (.readingName start) a names =
      runLoop line cs (i + 1) (.readingName start) a names := by
  unfold runLoop
  rw [lineLoop]
  simp [ha, hh, hw, utf8Len_ascii ha]

/-! ## the state machine against the specification, state by state -/

open HSpec

theorem nonascii_not_ws {c : Char} (h : isAscii c = false) : isWs c = false := by
  cases hw : isWs c with
  | false => rfl
  | true => rw [ws_ascii hw] at h; cases h

theorem nonascii_not_hash {c : Char} (h : isAscii c = false) : isHash c = false := by
  cases hw : isHash c with
  | false => rfl
  | true => rw [hash_ascii hw] at h; cases h

theorem nonascii_not_percent {c : Char} (h : isAscii c = false) : isPercent c = false := by
  cases hw : isPercent c with
  | false => rfl
  | true => rw [percent_ascii hw] at h; cases h

/-- the specification's verdict once the first `#` has been passed. -/
def specC (r : Option (IpAddr × List Name)) (cs : List Char) : Except HErr (Option (IpAddr × List Name)) :=
  finishComment (afterHash cs) r

theorem runLoop_comment (line rest : List Char) : ∀ (i : Nat) (a : IpAddr) (names : List Name),
    runLoop line rest i .commentToEndOfLine a names = specC (lineResult a names) rest := by
  induction rest with
  | nil =>
    intro i a names
    rw [runLoop_nil_other _ _ _ _ _ (by intro s; simp)]
    simp [specC, afterHash_nil, finishComment]
  | cons c cs ih =>
    intro i a names
    cases ha : isAscii c with
    | true =>
      cases hh : isHash c with
      | true =>
        rw [runLoop_hash_other _ _ _ _ _ _ _ hh (by intro s; simp), ih]
        simp [specC, afterHash_hash_cons c cs hh]
      | false =>
        rw [runLoop_comment_other _ _ _ _ _ _ ha hh]
        simp [specC, afterHash_cons c cs hh, ascii_eq, ha, finishComment]
    | false =>
      rw [runLoop_nonascii _ _ _ _ _ _ _ ha]
      simp [specC, afterHash_cons c cs (nonascii_not_hash ha), ascii_eq, ha, finishComment]

/-- the specification's verdict from a position between fields, once the address is known. -/
def specSN (a : IpAddr) (acc : List Name) (rest : List Char) : Except HErr (Option (IpAddr × List Name)) :=
  match readNames (fields (body rest)) acc with
  | .error e => .error e
  | .ok names => finishComment (commentCheck rest) (lineResult a names)

theorem readNames_cons_ascii (f : List Char) (fs : List (List Char)) (acc : List Name) (hf : AllAscii f) :
    readNames (f :: fs) acc =
      match addName acc f with
      | .error e => .error e
      | .ok names' => readNames fs names' := by
  rw [readNames, firstNonAscii_ascii f hf]
  unfold addName
  cases Name.fromRelativeDotted Name.root (utf8Encode f) <;> simp [nameSetInsert_eq]

theorem specSN_nil (a : IpAddr) (acc : List Name) : specSN a acc [] = .ok (lineResult a acc) := by
  simp [specSN, body_nil, fields, splitRaw, readNames, commentCheck_nil, finishComment]

theorem specSN_ws_cons (a : IpAddr) (acc : List Name) (w : Char) (cs : List Char) (hw : isWs w = true) :
    specSN a acc (w :: cs) = specSN a acc cs := by
  have hh : HSpec.hash w = false := by
    cases h : isHash w with
    | false => exact h
    | true => rw [hash_not_ws h] at hw; cases hw
  unfold specSN
  rw [body_cons w cs hh, fields_ws_cons _ w (by rw [ws_eq]; exact hw), commentCheck_cons w cs hh]

theorem specSN_hash_cons (a : IpAddr) (acc : List Name) (c : Char) (cs : List Char) (hh : isHash c = true) :
    specSN a acc (c :: cs) = specC (lineResult a acc) cs := by
  unfold specSN specC
  rw [body_hash_cons c cs hh, commentCheck_hash_cons c cs hh]
  simp [fields, splitRaw, readNames]

/-- facts about a field being read: ASCII, no blank, no `#`. -/
structure FieldOK (cur : List Char) : Prop where
  ascii : AllAscii cur
  noWs : NoWs cur
  noHash : NoHash cur

theorem FieldOK.nil : FieldOK [] := ⟨by intro c hc; simp at hc, by intro c hc; simp at hc, by intro c hc; simp at hc⟩

theorem FieldOK.snoc {cur : List Char} (h : FieldOK cur) (c : Char) (ha : isAscii c = true)
    (hw : isWs c = false) (hh : isHash c = false) : FieldOK (cur ++ [c]) := by
  refine ⟨?_, ?_, ?_⟩
  · intro d hd; simp at hd; rcases hd with hd | rfl
    · exact h.ascii d hd
    · exact ha
  · intro d hd; simp at hd; rcases hd with hd | rfl
    · exact h.noWs d hd
    · rw [ws_eq]; exact hw
  · intro d hd; simp at hd; rcases hd with hd | rfl
    · exact h.noHash d hd
    · exact hh

theorem specSN_field_end (a : IpAddr) (acc : List Name) (cur : List Char) (h : FieldOK cur) (hne : cur ≠ []) :
    specSN a acc cur =
      match addName acc cur with
      | .error e => .error e
      | .ok names' => .ok (lineResult a names') := by
  unfold specSN
  rw [body_noHash cur h.noHash, fields_noWs cur h.noWs, commentCheck_noHash cur h.noHash]
  have : cur.isEmpty = false := by cases cur <;> simp_all
  simp only [this, Bool.false_eq_true, if_false]
  rw [readNames_cons_ascii cur [] acc h.ascii]
  cases addName acc cur <;> simp [readNames, finishComment]

theorem specSN_field_ws (a : IpAddr) (acc : List Name) (cur cs : List Char) (w : Char) (h : FieldOK cur)
    (hne : cur ≠ []) (hw : isWs w = true) :
    specSN a acc (cur ++ w :: cs) =
      match addName acc cur with
      | .error e => .error e
      | .ok names' => specSN a names' cs := by
  have hh : HSpec.hash w = false := by
    cases h' : isHash w with
    | false => exact h'
    | true => rw [hash_not_ws h'] at hw; cases hw
  unfold specSN
  rw [body_append_noHash cur _ h.noHash, body_cons w cs hh,
    fields_append_ws cur _ w h.noWs (by rw [ws_eq]; exact hw),
    commentCheck_append_noHash cur _ h.noHash, commentCheck_cons w cs hh]
  have : cur.isEmpty = false := by cases cur <;> simp_all
  simp only [this, Bool.false_eq_true, if_false, List.singleton_append]
  rw [readNames_cons_ascii cur _ acc h.ascii]
  cases addName acc cur <;> simp

theorem specSN_field_hash (a : IpAddr) (acc : List Name) (cur cs : List Char) (c : Char) (h : FieldOK cur)
    (hne : cur ≠ []) (hh : isHash c = true) :
    specSN a acc (cur ++ c :: cs) =
      match addName acc cur with
      | .error e => .error e
      | .ok names' => specC (lineResult a names') cs := by
  unfold specSN specC
  rw [body_append_noHash cur _ h.noHash, body_hash_cons c cs hh, List.append_nil,
    fields_noWs cur h.noWs, commentCheck_append_noHash cur _ h.noHash, commentCheck_hash_cons c cs hh]
  have : cur.isEmpty = false := by cases cur <;> simp_all
  simp only [this, Bool.false_eq_true, if_false]
  rw [readNames_cons_ascii cur [] acc h.ascii]
  cases addName acc cur <;> simp [readNames]

theorem specSN_field_nonascii (a : IpAddr) (acc : List Name) (cur cs : List Char) (c : Char) (h : FieldOK cur)
    (ha : isAscii c = false) :
    specSN a acc (cur ++ c :: cs) = .error (.expectedAscii c) := by
  unfold specSN
  rw [body_append_noHash cur _ h.noHash, body_cons c cs (nonascii_not_hash ha)]
  obtain ⟨x, y, hxy⟩ := fields_head cur (body cs) c h.noWs (by rw [ws_eq]; exact nonascii_not_ws ha)
  rw [hxy, readNames, firstNonAscii_append cur x c h.ascii ha]

/-- **states `SkipToName` / `ReadingName`**: from a position `pre` (all ASCII) into the line, the
    rest of the machine computes what the specification says of the rest of the line. -/
theorem runLoop_names (rest : List Char) :
    (∀ (pre : List Char) (a : IpAddr) (names : List Name), AllAscii pre →
      runLoop (pre ++ rest) rest pre.length .skipToName a names = specSN a names rest) ∧
    (∀ (p0 cur : List Char) (a : IpAddr) (names : List Name), AllAscii p0 → FieldOK cur → cur ≠ [] →
      runLoop (p0 ++ cur ++ rest) rest (p0.length + cur.length) (.readingName p0.length) a names =
        specSN a names (cur ++ rest)) := by
  induction rest with
  | nil =>
    constructor
    · intro pre a names _
      rw [runLoop_nil_other _ _ _ _ _ (by intro s; simp), specSN_nil]
    · intro p0 cur a names hp hc hne
      have hd : dropBytes (p0 ++ cur ++ []) p0.length = some cur := by
        simpa using dropBytes_ascii p0 cur hp
      rw [runLoop_nil_readingName _ _ _ _ _ cur hd, List.append_nil, specSN_field_end a names cur hc hne]
  | cons c cs ih =>
    obtain ⟨ihS, ihR⟩ := ih
    constructor
    · intro pre a names hp
      have hline : pre ++ c :: cs = (pre ++ [c]) ++ cs := by simp
      cases ha : isAscii c with
      | false =>
        rw [runLoop_nonascii _ _ _ _ _ _ _ ha]
        have := specSN_field_nonascii a names [] cs c FieldOK.nil ha
        simpa using this.symm
      | true =>
        have hp' : AllAscii (pre ++ [c]) := by
          intro d hd; simp at hd; rcases hd with hd | rfl
          · exact hp d hd
          · exact ha
        cases hh : isHash c with
        | true =>
          rw [runLoop_hash_other _ _ _ _ _ _ _ hh (by intro s; simp), runLoop_comment,
            specSN_hash_cons a names c cs hh]
        | false =>
          cases hw : isWs c with
          | true =>
            rw [runLoop_skipToName_ws _ _ _ _ _ _ hw, specSN_ws_cons a names c cs hw, hline]
            have := ihS (pre ++ [c]) a names hp'
            simpa using this
          | false =>
            rw [runLoop_skipToName_other _ _ _ _ _ _ ha hh hw, hline]
            have hf : FieldOK [c] := by simpa using FieldOK.nil.snoc c ha hw hh
            have := ihR pre [c] a names hp hf (by simp)
            simpa using this
    · intro p0 cur a names hp hc hne
      have hslice : strSlice (p0 ++ cur ++ c :: cs) p0.length (p0.length + cur.length) = some cur :=
        strSlice_ascii p0 cur (c :: cs) hp hc.ascii
      have hline : p0 ++ cur ++ c :: cs = p0 ++ (cur ++ [c]) ++ cs := by simp
      cases ha : isAscii c with
      | false =>
        rw [runLoop_nonascii _ _ _ _ _ _ _ ha, specSN_field_nonascii a names cur cs c hc ha]
      | true =>
        cases hh : isHash c with
        | true =>
          rw [runLoop_hash_readingName _ _ _ _ _ _ _ hh cur hslice, specSN_field_hash a names cur cs c hc hne hh]
          cases addName names cur with
          | error e => rfl
          | ok names' => simp only; rw [runLoop_comment]
        | false =>
          cases hw : isWs c with
          | true =>
            rw [runLoop_readingName_ws _ _ _ _ _ _ _ hw cur hslice, specSN_field_ws a names cur cs c hc hne hw]
            cases addName names cur with
            | error e => rfl
            | ok names' =>
              simp only
              have hp' : AllAscii (p0 ++ cur ++ [c]) := by
                intro d hd; simp at hd; rcases hd with hd | hd | rfl
                · exact hp d hd
                · exact hc.ascii d hd
                · exact ha
              have := ihS (p0 ++ cur ++ [c]) a names' hp'
              simpa [Nat.add_assoc] using this
          | false =>
            rw [runLoop_readingName_other _ _ _ _ _ _ _ ha hh hw, hline]
            have := ihR p0 (cur ++ [c]) a names hp (hc.snoc c ha hw hh) (by simp)
            simpa [Nat.add_assoc] using this

/-! ### the address field -/

def NoPct (s : List Char) : Prop := ∀ c ∈ s, percent c = false

theorem takeWhile_append_stop {p : Char → Bool} (t x : List Char) (c : Char) (ht : ∀ e ∈ t, p e = true)
    (hc : p c = false) : (t ++ c :: x).takeWhile p = t := by
  induction t with
  | nil => simp [List.takeWhile, hc]
  | cons e es ih =>
    simp only [List.cons_append, List.takeWhile, ht e (by simp)]
    rw [ih (fun d hd => ht d (by simp [hd]))]

theorem takeWhile_append_pass {p : Char → Bool} (t x : List Char) (c : Char) (ht : ∀ e ∈ t, p e = true)
    (hc : p c = true) : (t ++ c :: x).takeWhile p = t ++ c :: x.takeWhile p := by
  induction t with
  | nil => simp [List.takeWhile, hc]
  | cons e es ih =>
    simp only [List.cons_append, List.takeWhile, ht e (by simp)]
    rw [ih (fun d hd => ht d (by simp [hd]))]

theorem any_percent_false (s : List Char) (h : NoPct s) : s.any percent = false := by
  rw [List.any_eq_false]
  intro c hc
  simp [h c hc]

theorem lineResult_nil (a : IpAddr) : lineResult a [] = none := rfl

theorem parseLine_nil : HSpec.parseLine [] = .ok none := by
  simp [HSpec.parseLine, body_nil, fields, splitRaw, parseFields, commentCheck_nil, finishComment]

theorem parseLine_ws_cons (w : Char) (cs : List Char) (hw : isWs w = true) :
    HSpec.parseLine (w :: cs) = HSpec.parseLine cs := by
  have hh : HSpec.hash w = false := by
    cases h : isHash w with
    | false => exact h
    | true => rw [hash_not_ws h] at hw; cases hw
  have hw' : ws w = true := by rw [ws_eq]; exact hw
  unfold HSpec.parseLine
  rw [body_cons w cs hh, fields_ws_cons _ w hw', commentCheck_cons w cs hh, fft_ws_cons w _ hw']

theorem parseLine_hash_cons (c : Char) (cs : List Char) (hh : isHash c = true) :
    HSpec.parseLine (c :: cs) = specC none cs := by
  unfold HSpec.parseLine specC
  rw [body_hash_cons c cs hh, commentCheck_hash_cons c cs hh]
  simp [fields, splitRaw, parseFields]

/-- the first field, fully read, neither skipped nor non-ASCII. -/
theorem parseFields_addr (cur : List Char) (fs : List (List Char)) (t : Bool) (cc : Option Char)
    (h : FieldOK cur) (hp : NoPct (cur.drop 1)) :
    parseFields (cur :: fs) t cc =
      if fs.isEmpty && !t then finishComment cc none
      else
        match Ip.parseIpAddr (utf8Encode cur) with
        | none => .error (.couldNotParseAddress cur)
        | some a =>
          match readNames fs [] with
          | .error e => .error e
          | .ok names => finishComment cc (lineResult a names) := by
  rw [parseFields]
  simp only [any_percent_false _ hp, Bool.false_eq_true, if_false, firstNonAscii_ascii cur h.ascii]
  rfl

theorem parseLine_addr_end (cur : List Char) (h : FieldOK cur) (hne : cur ≠ []) (hp : NoPct (cur.drop 1)) :
    HSpec.parseLine cur = .ok none := by
  unfold HSpec.parseLine
  rw [body_noHash cur h.noHash, fields_noWs cur h.noWs, commentCheck_noHash cur h.noHash]
  have he : cur.isEmpty = false := by cases cur <;> simp_all
  simp only [he, Bool.false_eq_true, if_false]
  rw [parseFields_addr cur [] _ _ h hp]
  cases cur with
  | nil => exact absurd rfl hne
  | cons d t =>
    have hd : ws d = false := h.noWs d (by simp)
    have ht : NoWs t := fun e he => h.noWs e (by simp [he])
    have := fft_field d t [] hd ht
    simp only [List.append_nil] at this
    rw [this]
    simp [finishComment]

theorem parseLine_addr_hash (cur cs : List Char) (c : Char) (h : FieldOK cur) (hne : cur ≠ [])
    (hp : NoPct (cur.drop 1)) (hh : isHash c = true) :
    HSpec.parseLine (cur ++ c :: cs) = specC none cs := by
  unfold HSpec.parseLine specC
  rw [body_append_noHash cur _ h.noHash, body_hash_cons c cs hh, List.append_nil, fields_noWs cur h.noWs,
    commentCheck_append_noHash cur _ h.noHash, commentCheck_hash_cons c cs hh]
  have he : cur.isEmpty = false := by cases cur <;> simp_all
  simp only [he, Bool.false_eq_true, if_false]
  rw [parseFields_addr cur [] _ _ h hp]
  cases cur with
  | nil => exact absurd rfl hne
  | cons d t =>
    have hd : ws d = false := h.noWs d (by simp)
    have ht : NoWs t := fun e he => h.noWs e (by simp [he])
    have := fft_field d t [] hd ht
    simp only [List.append_nil] at this
    rw [this]
    simp

theorem parseLine_addr_ws (cur cs : List Char) (w : Char) (h : FieldOK cur) (hne : cur ≠ [])
    (hp : NoPct (cur.drop 1)) (hw : isWs w = true) :
    HSpec.parseLine (cur ++ w :: cs) =
      match Ip.parseIpAddr (utf8Encode cur) with
      | some a => specSN a [] cs
      | none => .error (.couldNotParseAddress cur) := by
  have hh : HSpec.hash w = false := by
    cases h' : isHash w with
    | false => exact h'
    | true => rw [hash_not_ws h'] at hw; cases hw
  have hw' : ws w = true := by rw [ws_eq]; exact hw
  unfold HSpec.parseLine specSN
  rw [body_append_noHash cur _ h.noHash, body_cons w cs hh, fields_append_ws cur _ w h.noWs hw',
    commentCheck_append_noHash cur _ h.noHash, commentCheck_cons w cs hh]
  have he : cur.isEmpty = false := by cases cur <;> simp_all
  simp only [he, Bool.false_eq_true, if_false, List.singleton_append]
  rw [parseFields_addr cur _ _ _ h hp]
  cases cur with
  | nil => exact absurd rfl hne
  | cons d t =>
    have hd : ws d = false := h.noWs d (by simp)
    have ht : NoWs t := fun e he => h.noWs e (by simp [he])
    rw [fft_field d t (w :: body cs) hd ht]
    simp only [List.dropWhile, hw', Bool.not_true, List.isEmpty_cons, Bool.not_false, Bool.and_false,
      Bool.false_eq_true, if_false]
    cases Ip.parseIpAddr (utf8Encode (d :: t)) <;> rfl

theorem parseLine_addr_percent (cur cs : List Char) (c : Char) (h : FieldOK cur) (hne : cur ≠ [])
    (hp : NoPct (cur.drop 1)) (hc : isPercent c = true) :
    HSpec.parseLine (cur ++ c :: cs) = .ok none := by
  have hh : HSpec.hash c = false := percent_not_hash hc
  have hw : ws c = false := by rw [ws_eq]; exact percent_not_ws hc
  unfold HSpec.parseLine
  rw [body_append_noHash cur _ h.noHash, body_cons c cs hh]
  obtain ⟨x, y, hxy⟩ := fields_head cur (body cs) c h.noWs hw
  rw [hxy, parseFields]
  cases cur with
  | nil => exact absurd rfl hne
  | cons d t =>
    have hany : (List.drop 1 (d :: t ++ c :: x)).any percent = true := by
      simp only [List.cons_append, List.drop_succ_cons, List.drop_zero, List.any_append, List.any_cons]
      simp [percent_eq, hc]
    rw [if_pos hany]
    have htw : (List.drop 1 (d :: t ++ c :: x)).takeWhile (fun c => !percent c) = t := by
      simp only [List.cons_append, List.drop_succ_cons, List.drop_zero]
      apply takeWhile_append_stop
      · intro e he
        have := hp e (by simpa using he)
        simp [this]
      · simp [percent_eq, hc]
    rw [htw]
    have : List.take 1 (d :: t ++ c :: x) ++ t = d :: t := by simp
    rw [this, firstNonAscii_ascii _ h.ascii]

theorem parseLine_addr_nonascii (cur cs : List Char) (c : Char) (h : FieldOK cur)
    (hp : NoPct (cur.drop 1)) (ha : isAscii c = false) :
    HSpec.parseLine (cur ++ c :: cs) = .error (.expectedAscii c) := by
  have hh : HSpec.hash c = false := nonascii_not_hash ha
  have hw : ws c = false := by rw [ws_eq]; exact nonascii_not_ws ha
  have hpc : percent c = false := nonascii_not_percent ha
  unfold HSpec.parseLine
  rw [body_append_noHash cur _ h.noHash, body_cons c cs hh]
  obtain ⟨x, y, hxy⟩ := fields_head cur (body cs) c h.noWs hw
  rw [hxy, parseFields]
  split
  · -- a `%` further on: the characters before it are examined
    cases cur with
    | nil =>
      simp [firstNonAscii, ascii_eq, ha]
    | cons d t =>
      have htw : (List.drop 1 (d :: t ++ c :: x)).takeWhile (fun c => !percent c)
          = t ++ c :: x.takeWhile (fun c => !percent c) := by
        simp only [List.cons_append, List.drop_succ_cons, List.drop_zero]
        apply takeWhile_append_pass
        · intro e he
          have := hp e (by simpa using he)
          simp [this]
        · simp [hpc]
      rw [htw]
      have : List.take 1 (d :: t ++ c :: x) ++ (t ++ c :: x.takeWhile (fun c => !percent c))
          = (d :: t) ++ c :: x.takeWhile (fun c => !percent c) := by simp
      rw [this, firstNonAscii_append _ _ c h.ascii ha]
  · rw [firstNonAscii_append cur x c h.ascii ha]

/-- **states `SkipToAddress` / `ReadingAddress`**. -/
theorem runLoop_address (rest : List Char) :
    (∀ (pre : List Char), AllAscii pre →
      runLoop (pre ++ rest) rest pre.length .skipToAddress LOCALHOST [] = HSpec.parseLine rest) ∧
    (∀ (p0 cur : List Char), AllAscii p0 → FieldOK cur → cur ≠ [] → NoPct (cur.drop 1) →
      runLoop (p0 ++ cur ++ rest) rest (p0.length + cur.length) (.readingAddress p0.length) LOCALHOST [] =
        HSpec.parseLine (cur ++ rest)) := by
  induction rest with
  | nil =>
    constructor
    · intro pre _
      rw [runLoop_nil_other _ _ _ _ _ (by intro s; simp), parseLine_nil, lineResult_nil]
    · intro p0 cur _ hc hne hp
      rw [runLoop_nil_other _ _ _ _ _ (by intro s; simp), List.append_nil, parseLine_addr_end cur hc hne hp,
        lineResult_nil]
  | cons c cs ih =>
    obtain ⟨ihS, ihR⟩ := ih
    constructor
    · intro pre hp
      have hline : pre ++ c :: cs = (pre ++ [c]) ++ cs := by simp
      cases ha : isAscii c with
      | false =>
        rw [runLoop_nonascii _ _ _ _ _ _ _ ha]
        have := parseLine_addr_nonascii [] cs c FieldOK.nil (by intro e he; simp at he) ha
        simpa using this.symm
      | true =>
        have hp' : AllAscii (pre ++ [c]) := by
          intro d hd; simp at hd; rcases hd with hd | rfl
          · exact hp d hd
          · exact ha
        cases hh : isHash c with
        | true =>
          rw [runLoop_hash_other _ _ _ _ _ _ _ hh (by intro s; simp), runLoop_comment,
            parseLine_hash_cons c cs hh, lineResult_nil]
        | false =>
          cases hw : isWs c with
          | true =>
            rw [runLoop_skipToAddress_ws _ _ _ _ _ _ hw, parseLine_ws_cons c cs hw, hline]
            have := ihS (pre ++ [c]) hp'
            simpa using this
          | false =>
            rw [runLoop_skipToAddress_other _ _ _ _ _ _ ha hh hw, hline]
            have hf : FieldOK [c] := by simpa using FieldOK.nil.snoc c ha hw hh
            have := ihR pre [c] hp hf (by simp) (by intro e he; simp at he)
            simpa using this
    · intro p0 cur hp hc hne hpc
      have hslice : strSlice (p0 ++ cur ++ c :: cs) p0.length (p0.length + cur.length) = some cur :=
        strSlice_ascii p0 cur (c :: cs) hp hc.ascii
      have hline : p0 ++ cur ++ c :: cs = p0 ++ (cur ++ [c]) ++ cs := by simp
      cases ha : isAscii c with
      | false =>
        rw [runLoop_nonascii _ _ _ _ _ _ _ ha, parseLine_addr_nonascii cur cs c hc hpc ha]
      | true =>
        cases hh : isHash c with
        | true =>
          rw [runLoop_hash_other _ _ _ _ _ _ _ hh (by intro s; simp), runLoop_comment,
            parseLine_addr_hash cur cs c hc hne hpc hh, lineResult_nil]
        | false =>
          cases hpct : isPercent c with
          | true =>
            rw [runLoop_readingAddress_percent _ _ _ _ _ _ _ hpct, parseLine_addr_percent cur cs c hc hne hpc hpct,
              lineResult_nil]
          | false =>
            cases hw : isWs c with
            | true =>
              rw [runLoop_readingAddress_ws _ _ _ _ _ _ _ hw cur hslice, parseLine_addr_ws cur cs c hc hne hpc hw]
              cases Ip.parseIpAddr (utf8Encode cur) with
              | none => rfl
              | some a' =>
                simp only
                have hp' : AllAscii (p0 ++ cur ++ [c]) := by
                  intro d hd; simp at hd; rcases hd with hd | hd | rfl
                  · exact hp d hd
                  · exact hc.ascii d hd
                  · exact ha
                have := (runLoop_names cs).1 (p0 ++ cur ++ [c]) a' [] hp'
                simpa [Nat.add_assoc] using this
            | false =>
              rw [runLoop_readingAddress_other _ _ _ _ _ _ _ ha hh hw hpct, hline]
              have hpc' : NoPct ((cur ++ [c]).drop 1) := by
                intro e he
                cases cur with
                | nil => exact absurd rfl hne
                | cons d t =>
                  simp at he
                  rcases he with he | rfl
                  · exact hpc e (by simpa using he)
                  · exact hpct
              have := ihR p0 (cur ++ [c]) hp (hc.snoc c ha hw hh) (by simp) hpc'
              simpa [Nat.add_assoc] using this

/-- **(d)** the five-state machine computes, for EVERY line (ASCII or not), exactly what the
    split-based reading of hosts(5) says — value, error kind and error payload. -/
theorem parseLine_refines_spec (l : List Char) : parseLine l = HSpec.parseLine l := by
  rw [parseLine_eq_runLoop]
  have := (runLoop_address l).1 [] (by intro c hc; simp at hc)
  simpa using this

/-- C17 for one line: no slice of `parse_line` can panic, whatever the line. -/
theorem readNames_ne_panic (fs : List (List Char)) (acc : List Name) : readNames fs acc ≠ .error .panic := by
  induction fs generalizing acc with
  | nil => simp [readNames]
  | cons f fs ih =>
    rw [readNames]
    split
    · simp
    · split
      · simp
      · exact ih _

theorem finishComment_ne_panic (cc : Option Char) (r : Option (IpAddr × List Name)) :
    finishComment cc r ≠ .error .panic := by
  unfold finishComment; split <;> simp

theorem spec_parseLine_ne_panic (l : List Char) : HSpec.parseLine l ≠ .error .panic := by
  unfold HSpec.parseLine parseFields
  split
  · exact finishComment_ne_panic _ _
  · split
    · split <;> simp
    · split
      · simp
      · split
        · exact finishComment_ne_panic _ _
        · split
          · simp
          · split
            · rename_i e he
              intro h
              injection h with h
              subst h
              exact readNames_ne_panic _ _ he
            · exact finishComment_ne_panic _ _

theorem parseLine_ne_panic (l : List Char) : parseLine l ≠ .error .panic := by
  rw [parseLine_refines_spec]; exact spec_parseLine_ne_panic l

end HostsM

/-! ## the file level: lines, fold, last mapping wins -/

namespace AddrMap

theorem get_insert_eq {α : Type} (m : AddrMap α) (k n : Name) (v : α) :
    (m.insert k v).get n = if k = n then some v else m.get n := by
  induction m with
  | nil => simp [insert, get]
  | cons kv rest ih =>
    obtain ⟨k', v'⟩ := kv
    simp only [insert]
    by_cases hk : k' = k
    · subst hk
      simp only [if_true, get]
      by_cases hn : k' = n <;> simp [hn]
    · simp only [hk, if_false, get, ih]
      by_cases hn : k' = n
      · subst hn
        simp [Ne.symm hk]
      · simp [hn]

end AddrMap

namespace HostsM

open HSpec

/-- one mapping applied to hosts data (`hosts.v4.insert(name, ip)` / `hosts.v6.insert(name, ip)`). -/
def applyMapping (h : Hosts) (m : Name × IpAddr) : Hosts :=
  match m.2 with
  | .v4 ip => { h with v4 := h.v4.insert m.1 ip }
  | .v6 ip => { h with v6 := h.v6.insert m.1 ip }

theorem insertAll_eq (h : Hosts) (a : IpAddr) (names : List Name) :
    h.insertAll a names = (names.map (fun n => (n, a))).foldl applyMapping h := by
  induction names generalizing h with
  | nil => rfl
  | cons n ns ih =>
    cases a with
    | v4 ip => simp only [Hosts.insertAll, List.map, List.foldl, applyMapping]; exact ih _
    | v6 ip => simp only [Hosts.insertAll, List.map, List.foldl, applyMapping]; exact ih _

/-- the `for line in data.lines()` loop = collect the mappings of all lines in order (first bad line
    decides), then apply them in order. -/
theorem deserialiseLines_eq (ls : List (List Char)) (h : Hosts) :
    Hosts.deserialiseLines h ls =
      match mappings ls with
      | .error e => .error e
      | .ok ms => .ok (ms.foldl applyMapping h) := by
  induction ls generalizing h with
  | nil => rfl
  | cons l ls ih =>
    rw [Hosts.deserialiseLines, mappings, parseLine_refines_spec]
    cases hl : HSpec.parseLine l with
    | error e => rfl
    | ok r =>
      cases r with
      | none =>
        simp only
        rw [ih]
        cases mappings ls <;> rfl
      | some an =>
        obtain ⟨a, names⟩ := an
        simp only
        rw [ih]
        cases mappings ls with
        | error e => rfl
        | ok ms => simp only [List.foldl_append, insertAll_eq]

def v4Of : Option IpAddr → Option Nat
  | some (.v4 a) => some a
  | _ => none

def v6Of : Option IpAddr → Option (List Nat)
  | some (.v6 g) => some g
  | _ => none

theorem lastMapping_cons (m : Name × IpAddr) (ms : List (Name × IpAddr)) (n : Name) (f : Bool) :
    lastMapping (m :: ms) n f =
      match lastMapping ms n f with
      | some a => some a
      | none => if m.1 == n && isV4 m.2 == f then some m.2 else none := by
  unfold lastMapping
  simp only [List.reverse_cons, List.find?_append]
  cases List.find? (fun m => m.1 == n && isV4 m.2 == f) ms.reverse with
  | some x => simp
  | none =>
    simp only [Option.none_or, Option.map_none, List.find?]
    split <;> simp_all

theorem lastMapping_family (ms : List (Name × IpAddr)) (n : Name) (f : Bool) (a : IpAddr)
    (h : lastMapping ms n f = some a) : isV4 a = f := by
  unfold lastMapping at h
  cases hx : List.find? (fun m => m.1 == n && isV4 m.2 == f) ms.reverse with
  | none => rw [hx] at h; cases h
  | some x =>
    rw [hx] at h
    have := List.find?_some hx
    simp at h this
    rw [← h]; exact this.2

/-- **(c) last mapping wins**: after applying the mappings in order, the address of a name is the
    address of the last mapping for that name and family; names not mentioned keep what they had. -/
theorem foldl_applyMapping_v4 (ms : List (Name × IpAddr)) (h : Hosts) (n : Name) :
    (ms.foldl applyMapping h).v4.get n =
      match lastMapping ms n true with
      | some a => v4Of (some a)
      | none => h.v4.get n := by
  induction ms generalizing h with
  | nil => rfl
  | cons m ms ih =>
    rw [List.foldl, ih, lastMapping_cons]
    cases hl : lastMapping ms n true with
    | some a => rfl
    | none =>
      simp only
      obtain ⟨k, a⟩ := m
      cases a with
      | v4 ip =>
        simp only [applyMapping, AddrMap.get_insert_eq, isV4]
        by_cases hk : k = n <;> simp [hk, v4Of]
      | v6 g =>
        simp [applyMapping, isV4]

theorem foldl_applyMapping_v6 (ms : List (Name × IpAddr)) (h : Hosts) (n : Name) :
    (ms.foldl applyMapping h).v6.get n =
      match lastMapping ms n false with
      | some a => v6Of (some a)
      | none => h.v6.get n := by
  induction ms generalizing h with
  | nil => rfl
  | cons m ms ih =>
    rw [List.foldl, ih, lastMapping_cons]
    cases hl : lastMapping ms n false with
    | some a => rfl
    | none =>
      simp only
      obtain ⟨k, a⟩ := m
      cases a with
      | v6 ip =>
        simp only [applyMapping, AddrMap.get_insert_eq, isV4]
        by_cases hk : k = n <;> simp [hk, v6Of]
      | v4 g =>
        simp [applyMapping, isV4]

/-! ### `str::lines` = the specification's lines -/

theorem splitNl_ne_nil (s : List Char) : splitNl s ≠ [] := by
  cases s with
  | nil => simp [splitNl]
  | cons c cs =>
    unfold splitNl
    split
    · simp
    · split <;> simp

theorem splitNl_pieces (s : List Char) : ∀ p ∈ splitNl s, ∀ c ∈ p, c.toNat ≠ 10 := by
  induction s with
  | nil => intro p hp; simp [splitNl] at hp; subst hp; simp
  | cons c cs ih =>
    intro p hp
    unfold splitNl at hp
    split at hp
    · simp at hp
      rcases hp with rfl | hp
      · simp
      · exact ih p hp
    · rename_i hc
      split at hp
      · simp at hp; subst hp; intro d hd; simp at hd; subst hd; exact hc
      · rename_i q qs hq
        simp at hp
        rcases hp with rfl | hp
        · intro d hd; simp at hd
          rcases hd with rfl | hd
          · exact hc
          · exact ih q (by rw [hq]; simp) d hd
        · exact ih p (by rw [hq]; simp [hp])

/-- the `\n`-inclusive pieces from the exclusive ones. -/
def glue (nl : Char) : List (List Char) → List (List Char)
  | [] => []
  | [p] => if p.isEmpty then [] else [p]
  | p :: q :: r => (p ++ [nl]) :: glue nl (q :: r)

theorem splitInclusiveNl_eq_glue (s : List Char) :
    splitInclusiveNl s = glue (Char.ofNat 10) (splitNl s) := by
  induction s with
  | nil => simp [splitInclusiveNl, splitNl, glue]
  | cons c cs ih =>
    rw [splitInclusiveNl, splitNl]
    by_cases hc : c.toNat = 10
    · have hc' : c = Char.ofNat 10 := by rw [← hc, Char.ofNat_toNat]
      simp only [hc, if_true]
      cases hs : splitNl cs with
      | nil => exact absurd hs (splitNl_ne_nil cs)
      | cons p ps => rw [ih, hs, glue, hc']; simp
    · simp only [hc, if_false]
      rw [ih]
      cases hs : splitNl cs with
      | nil => exact absurd hs (splitNl_ne_nil cs)
      | cons p ps =>
        cases ps with
        | nil =>
          simp only [glue]
          cases p <;> simp
        | cons q r => simp [glue]

theorem linesMap_nl (p : List Char) : linesMap (p ++ [Char.ofNat 10]) = stripCr p := by
  unfold linesMap stripCr
  simp
  cases p.getLast? <;> rfl

theorem linesMap_noNl (p : List Char) (h : ∀ c ∈ p, c.toNat ≠ 10) : linesMap p = p := by
  unfold linesMap
  cases hl : p.getLast? with
  | none => rfl
  | some c =>
    have : c ∈ p := List.mem_of_getLast? hl
    simp [h c this]

theorem map_linesMap_glue (ps : List (List Char)) (h : ∀ p ∈ ps, ∀ c ∈ p, c.toNat ≠ 10) :
    (glue (Char.ofNat 10) ps).map linesMap =
      ps.dropLast.map stripCr ++
        (match ps.getLast? with
         | some last => if last.isEmpty then [] else [last]
         | none => []) := by
  induction ps with
  | nil => rfl
  | cons p rest ih =>
    cases rest with
    | nil =>
      simp only [glue, List.dropLast_singleton, List.map_nil, List.nil_append, List.getLast?_singleton]
      split
      · rfl
      · simp [linesMap_noNl p (h p (by simp))]
    | cons q r =>
      simp only [glue, List.map_cons, linesMap_nl, List.dropLast_cons_cons, List.cons_append,
        List.getLast?_cons_cons]
      rw [ih (fun p' hp' => h p' (by simp [hp']))]

theorem strLines_eq_spec (s : List Char) : strLines s = HSpec.lines s := by
  unfold strLines HSpec.lines
  rw [splitInclusiveNl_eq_glue, map_linesMap_glue _ (splitNl_pieces s)]
  rfl

/-! ### the specification's `hostsOf` as a map -/

theorem mem_foldl_addIfNew (xs acc : List Name) (n : Name) :
    n ∈ xs.foldl addIfNew acc ↔ n ∈ acc ∨ n ∈ xs := by
  induction xs generalizing acc with
  | nil => simp
  | cons x xs ih =>
    rw [List.foldl, ih]
    unfold addIfNew
    by_cases hx : acc.contains x = true
    · simp only [hx, if_true, List.mem_cons]
      have : x ∈ acc := by simpa using hx
      constructor
      · rintro (h | h)
        · exact Or.inl h
        · exact Or.inr (Or.inr h)
      · rintro (h | h | h)
        · exact Or.inl h
        · subst h; exact Or.inl this
        · exact Or.inr h
    · simp only [hx, Bool.false_eq_true, if_false, List.mem_append, List.mem_singleton, List.mem_cons,
        List.not_mem_nil, or_false]
      constructor
      · rintro ((h | h) | h)
        · exact Or.inl h
        · exact Or.inr (Or.inl h)
        · exact Or.inr (Or.inr h)
      · rintro (h | h | h)
        · exact Or.inl (Or.inl h)
        · exact Or.inl (Or.inr h)
        · exact Or.inr h

theorem lastMapping_none_of_not_mem (ms : List (Name × IpAddr)) (n : Name) (f : Bool)
    (h : n ∉ namesOf ms f) : lastMapping ms n f = none := by
  unfold lastMapping
  rw [Option.map_eq_none_iff, List.find?_eq_none]
  intro m hm hc
  apply h
  unfold namesOf
  rw [mem_foldl_addIfNew]
  right
  simp only [List.mem_map, List.mem_filter]
  simp at hc hm
  exact ⟨m, ⟨hm, by simp [hc.2]⟩, hc.1⟩

theorem get_filterMap_names {α : Type} (names : List Name) (g : Name → Option α) (n : Name) :
    AddrMap.get (names.filterMap (fun k => (g k).map (fun v => (k, v)))) n =
      if n ∈ names then g n else none := by
  induction names with
  | nil => rfl
  | cons k ks ih =>
    simp only [List.filterMap_cons]
    cases hg : g k with
    | none =>
      simp only [Option.map_none, ih, List.mem_cons]
      by_cases hk : n = k
      · subst hk; simp [hg]
      · simp [hk]
    | some v =>
      simp only [Option.map_some, AddrMap.get, ih, List.mem_cons]
      by_cases hk : k = n
      · subst hk; simp [hg]
      · have : ¬ n = k := fun h => hk h.symm
        simp [hk, this]

theorem hostsOf_v4_get (ms : List (Name × IpAddr)) (n : Name) :
    (hostsOf ms).v4.get n = v4Of (lastMapping ms n true) := by
  have hform : (hostsOf ms).v4 = (namesOf ms true).filterMap
      (fun k => (v4Of (lastMapping ms k true)).map (fun v => (k, v))) := by
    unfold hostsOf
    simp only
    congr 1
    funext k
    cases hl : lastMapping ms k true with
    | none => rfl
    | some a => cases a <;> rfl
  rw [hform, get_filterMap_names]
  split
  · rfl
  · rename_i hn
    rw [lastMapping_none_of_not_mem ms n true hn]; rfl

theorem hostsOf_v6_get (ms : List (Name × IpAddr)) (n : Name) :
    (hostsOf ms).v6.get n = v6Of (lastMapping ms n false) := by
  have hform : (hostsOf ms).v6 = (namesOf ms false).filterMap
      (fun k => (v6Of (lastMapping ms k false)).map (fun v => (k, v))) := by
    unfold hostsOf
    simp only
    congr 1
    funext k
    cases hl : lastMapping ms k false with
    | none => rfl
    | some a => cases a <;> rfl
  rw [hform, get_filterMap_names]
  split
  · rfl
  · rename_i hn
    rw [lastMapping_none_of_not_mem ms n false hn]; rfl

theorem AddrMap_get_nil {α : Type} (n : Name) : AddrMap.get ([] : AddrMap α) n = none := rfl

/-- **file level**: `Hosts::deserialise` computes the specification's reading of the whole text:
    same error (that of the first bad line), or the same mappings as maps. -/
theorem deserialise_refines_spec (s : List Char) :
    match HSpec.parse s with
    | .error e => Hosts.deserialise s = .error e
    | .ok h' => ∃ h, Hosts.deserialise s = .ok h ∧ Hosts.Equiv h h' := by
  unfold HSpec.parse Hosts.deserialise
  rw [deserialiseLines_eq, strLines_eq_spec]
  cases mappings (HSpec.lines s) with
  | error e => rfl
  | ok ms =>
    refine ⟨_, rfl, ?_, ?_⟩
    · intro n
      rw [foldl_applyMapping_v4, hostsOf_v4_get]
      cases lastMapping ms n true <;> rfl
    · intro n
      rw [foldl_applyMapping_v6, hostsOf_v6_get]
      cases lastMapping ms n false <;> rfl

/-! ### a comment may start anywhere -/

theorem afterHash_append_comment (p2 rest : List Char) (c : Char) (hc : isHash c = true)
    (hr : afterHash rest = none) : afterHash (p2 ++ c :: rest) = afterHash p2 := by
  induction p2 with
  | nil => simp only [List.nil_append]; rw [afterHash_hash_cons c rest hc, hr, afterHash_nil]
  | cons d ds ih =>
    simp only [List.cons_append]
    cases hd : isHash d with
    | true => rw [afterHash_hash_cons d _ hd, afterHash_hash_cons d _ hd, ih]
    | false => rw [afterHash_cons d _ hd, afterHash_cons d _ hd]

theorem commentCheck_append_comment (pre rest : List Char) (c : Char) (hc : isHash c = true)
    (hr : afterHash rest = none) : commentCheck (pre ++ c :: rest) = commentCheck pre := by
  induction pre with
  | nil => simp only [List.nil_append]; rw [commentCheck_hash_cons c rest hc, hr, commentCheck_nil]
  | cons d ds ih =>
    simp only [List.cons_append]
    cases hd : isHash d with
    | true =>
      rw [commentCheck_hash_cons d _ hd, commentCheck_hash_cons d _ hd,
        afterHash_append_comment ds rest c hc hr]
    | false => rw [commentCheck_cons d _ hd, commentCheck_cons d _ hd, ih]

theorem body_append_comment (pre rest : List Char) (c : Char) (hc : isHash c = true) :
    body (pre ++ c :: rest) = body pre := by
  induction pre with
  | nil => simp only [List.nil_append]; rw [body_hash_cons c rest hc, body_nil]
  | cons d ds ih =>
    simp only [List.cons_append]
    cases hd : isHash d with
    | true => rw [body_hash_cons d _ hd, body_hash_cons d _ hd]
    | false => rw [body_cons d _ hd, body_cons d _ hd, ih]

/-- **(a)** appending a comment to ANY line (`pre`, ASCII or not, already commented or not) does not
    change what the line means, provided the first character behind the run of `#`s is ASCII (or
    absent) — `afterHash rest = none`; see `comment_nonascii` for the other case. -/
theorem comment_anywhere (pre rest : List Char) (c : Char) (hc : isHash c = true)
    (hr : afterHash rest = none) : parseLine (pre ++ c :: rest) = parseLine pre := by
  rw [parseLine_refines_spec, parseLine_refines_spec]
  unfold HSpec.parseLine
  rw [body_append_comment pre rest c hc, commentCheck_append_comment pre rest c hc hr]

end HostsM

end Resolved
