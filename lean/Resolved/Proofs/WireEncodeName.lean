/-
  Helper lemmas for C04, part 2: domain names on the wire.
  * `flatLabels`: the octets `writeLabels` appends;
  * the decoder loop reads an uncompressed name back (`decodeNameLoop_plain`);
  * `NameInv`: every entry of the encoder's pointer table points at an uncompressed copy of its
    name, inside the 14 offset bits; preserved by every encoder step;
  * `encodeName_spec`: what `encodeName` writes decodes back to the name (pointer or not).
-/
import Resolved.Proofs.WireEncodeLemmas

namespace Resolved

open Gen

/-! ## One iteration of the decoder loop -/

theorem decodeNameLoop_root_step (id start : Nat) (pre rest : List UInt8) (len : Nat)
    (acc : List Label) :
    decodeNameLoop id (pre ++ u8 0 :: rest) start pre.length len acc
      = finishName id (acc ++ [[]]) (len + 1) (pre.length + 1) := by
  rw [decodeNameLoop]
  simp [u8, LABEL_MAX_LEN]

theorem decodeNameLoop_label_step (id start : Nat) (pre l rest : List UInt8) (len : Nat)
    (acc : List Label) (h1 : 1 ≤ l.length) (h63 : l.length ≤ 63) (hlen : len + 1 + l.length ≤ 255) :
    decodeNameLoop id (pre ++ u8 l.length :: (l ++ rest)) start pre.length len acc
      = decodeNameLoop id (pre ++ u8 l.length :: (l ++ rest)) start (pre.length + 1 + l.length)
          (len + 1 + l.length) (acc ++ [l.map lowerByte]) := by
  rw [decodeNameLoop]
  have : (u8 l.length).toNat = l.length := u8_toNat _ (by omega)
  have hne : l ≠ [] := by intro h; subst h; simp at h1
  simp [this, LABEL_MAX_LEN, DOMAINNAME_MAX_LEN]
  rw [if_pos h63, if_neg hne, if_pos (by omega), if_neg (by omega)]

/-- the two octets of a compression pointer and the decoder's `(b % 64) * 256 + lo` -/
theorem pointer_arith (off : Nat) (h : off < 16384) :
    (0xC000 + off) / 256 % 256 = 0xC0 + off / 256 ∧ (0xC000 + off) % 256 = off % 256 ∧
    192 ≤ 0xC0 + off / 256 ∧ 0xC0 + off / 256 < 256 ∧
    ((0xC0 + off / 256) % 64) * 256 + off % 256 = off := by
  omega

/-- a compression pointer to `off` -/
theorem decodeNameLoop_ptr_step (id start : Nat) (pre rest : List UInt8) (off len : Nat)
    (acc : List Label) (hoff : off < 16384) (hstart : off < start) :
    decodeNameLoop id (pre ++ u16Bytes (0xC000 + off) ++ rest) start pre.length len acc
      = match decodeNameLoop id (pre ++ u16Bytes (0xC000 + off) ++ rest) off off 0 [] with
        | .error e => .error e
        | .ok (other, _) =>
          finishName id (acc ++ other.labels) (len + other.len) (pre.length + 2) := by
  rw [decodeNameLoop]
  have e1 : (0xC000 + off) / 256 % 256 = 192 + off / 256 := by omega
  have e2 : (0xC000 + off) % 256 = off % 256 := by omega
  have e3 : (192 + off / 256) % 64 * 256 + off % 256 = off := by omega
  have e4 : (192 + off / 256) % 256 = 192 + off / 256 := by omega
  simp [u16Bytes, u8_toNat_mod, LABEL_MAX_LEN, e1, e2, e4]
  rw [if_neg (by omega), e3, if_neg (by omega)]
  rfl

/-! ## Uncompressed names -/

/-- the octets `writeLabels` appends: each label preceded by its length octet -/
def flatLabels : List Label → List UInt8
  | [] => []
  | l :: ls => u8 l.length :: (l ++ flatLabels ls)

theorem flatLabels_length (ls : List Label) : (flatLabels ls).length = ls.length + sumLen ls := by
  induction ls with
  | nil => rfl
  | cons l ls ih => simp [flatLabels, ih]; omega

theorem writeLabels_eq (b : WBuf) (ls : List Label) :
    writeLabels b ls = ⟨b.octets ++ flatLabels ls, b.namePointers⟩ := by
  induction ls generalizing b with
  | nil => simp [writeLabels, flatLabels]
  | cons l ls ih => simp [writeLabels, flatLabels, ih, WBuf.writeU8, WBuf.writeOctets]

theorem LabelsShape_cons (l : Label) (ls : List Label) (h : LabelsShape (l :: ls)) :
    (ls = [] ∧ l = []) ∨ (ls ≠ [] ∧ l ≠ [] ∧ LabelsShape ls) := by
  obtain ⟨_, hlast, hne⟩ := h
  cases ls with
  | nil => left; simpa using hlast
  | cons m ms =>
    right
    refine ⟨by simp, ?_, by simp, ?_, ?_⟩
    · exact hne l (by simp)
    · simpa using hlast
    · intro x hx; exact hne x (by simp [hx])

theorem map_lowerByte_of_ok (l : Label) (h : LabelOK l) : l.map lowerByte = l := by
  have : ∀ b ∈ l, lowerByte b = b := fun b hb => lowerByte_of_not_upper b (h.2 b hb)
  conv => rhs; rw [← List.map_id l]
  exact List.map_congr_left (by simpa using this)

/-- The decoder loop, positioned at an uncompressed encoding of `ls`, appends `ls` to its label
    accumulator and `ls.length + sumLen ls` to its length accumulator. -/
theorem decodeNameLoop_plain (id start : Nat) (ls : List Label) :
    ∀ (pre post : List UInt8) (len : Nat) (acc : List Label),
    LabelsShape ls → (∀ l ∈ ls, LabelOK l) → len + ls.length + sumLen ls ≤ 255 →
    decodeNameLoop id (pre ++ flatLabels ls ++ post) start pre.length len acc
      = .ok (⟨acc ++ ls, len + ls.length + sumLen ls⟩, pre.length + ls.length + sumLen ls) := by
  induction ls with
  | nil => intro _ _ _ _ h; exact absurd rfl h.1
  | cons l ls ih =>
    intro pre post len acc hshape hok hlen
    rcases LabelsShape_cons l ls hshape with ⟨rfl, rfl⟩ | ⟨hls, hl, hshape'⟩
    · have : pre ++ flatLabels [[]] ++ post = pre ++ u8 0 :: post := by simp [flatLabels]
      rw [this, decodeNameLoop_root_step]
      simp only [List.length_cons, List.length_nil, sumLen_cons, sumLen_nil] at hlen ⊢
      unfold finishName
      rw [if_pos (by simp only [DOMAINNAME_MAX_LEN]; omega)]
    · have hokl := hok l (by simp)
      have h63 : l.length ≤ 63 := hokl.1
      have h1 : 1 ≤ l.length := by
        cases l with
        | nil => exact absurd rfl hl
        | cons _ _ => simp
      simp only [List.length_cons, sumLen_cons] at hlen ⊢
      have e1 : pre ++ flatLabels (l :: ls) ++ post
          = pre ++ u8 l.length :: (l ++ (flatLabels ls ++ post)) := by simp [flatLabels]
      have e2 : pre ++ u8 l.length :: (l ++ (flatLabels ls ++ post))
          = (pre ++ u8 l.length :: l) ++ flatLabels ls ++ post := by simp
      have e3 : pre.length + 1 + l.length = (pre ++ u8 l.length :: l).length := by simp; omega
      rw [e1, decodeNameLoop_label_step id start pre l _ len acc h1 h63 (by omega), e2, e3,
        ih _ post _ _ hshape' (fun x hx => hok x (by simp [hx])) (by omega),
        map_lowerByte_of_ok l hokl]
      simp only [List.length_append, List.length_cons, List.append_assoc, List.singleton_append]
      congr 2
      · congr 1; omega
      · omega

/-- `buf` holds the octets `xs` at offset `off`. -/
def HasAt (buf : List UInt8) (off : Nat) (xs : List UInt8) : Prop :=
  ∃ pre post, buf = pre ++ xs ++ post ∧ pre.length = off

theorem HasAt.append {buf : List UInt8} {off : Nat} {xs : List UInt8} (h : HasAt buf off xs)
    (y : List UInt8) : HasAt (buf ++ y) off xs := by
  obtain ⟨pre, post, rfl, hp⟩ := h
  exact ⟨pre, post ++ y, by simp, hp⟩

theorem HasAt.bound {buf : List UInt8} {off : Nat} {xs : List UInt8} (h : HasAt buf off xs) :
    off + xs.length ≤ buf.length := by
  obtain ⟨pre, post, rfl, hp⟩ := h
  simp; omega

theorem NameWF.len_eq {n : Name} (h : NameWF n) : (flatLabels n.labels).length = n.len := by
  rw [flatLabels_length]; exact h.2.2.1.symm

theorem NameWF.len_pos {n : Name} (h : NameWF n) : 1 ≤ n.len := by
  have := h.1.1
  rw [h.2.2.1]
  cases hl : n.labels with
  | nil => exact absurd hl this
  | cons _ _ => simp; omega

/-- An uncompressed copy of a well-formed name decodes to that name, whatever `start` is. -/
theorem decodeNameLoop_hasAt (id start : Nat) (buf : List UInt8) (off : Nat) (n : Name)
    (hwf : NameWF n) (h : HasAt buf off (flatLabels n.labels)) :
    decodeNameLoop id buf start off 0 [] = .ok (n, off + n.len) := by
  obtain ⟨pre, post, rfl, rfl⟩ := h
  obtain ⟨hshape, hok, hlen, hmax⟩ := hwf
  rw [decodeNameLoop_plain id start n.labels pre post 0 [] hshape hok
    (by simp only [DOMAINNAME_MAX_LEN] at hmax; omega)]
  simp only [List.nil_append, Nat.zero_add]
  rw [← hlen, Nat.add_assoc, ← hlen]

/-! ## The pointer-table invariant -/

/-- Numeric part: every recorded pointer is `0xC000 + off` with `off` inside the 14 offset bits and
    inside the octets written so far. -/
def TableInv (b : WBuf) : Prop :=
  ∀ n p, (n, p) ∈ b.namePointers → ∃ off, p = 0xC000 + off ∧ off < 16384 ∧ off ≤ b.octets.length

/-- Full invariant: moreover the entry's name is well-formed and an uncompressed copy of it
    stands at `off`. -/
def NameInv (b : WBuf) : Prop :=
  ∀ n p, (n, p) ∈ b.namePointers →
    ∃ off, p = 0xC000 + off ∧ off < 16384 ∧ NameWF n ∧ HasAt b.octets off (flatLabels n.labels)

theorem NameInv.tableInv {b : WBuf} (h : NameInv b) : TableInv b := by
  intro n p hm
  obtain ⟨off, hp, ho, _, hat⟩ := h n p hm
  exact ⟨off, hp, ho, by have := hat.bound; omega⟩

theorem NameInv.off_lt {b : WBuf} (h : NameInv b) {n : Name} {p : Nat}
    (hm : (n, p) ∈ b.namePointers) :
    ∃ off, p = 0xC000 + off ∧ off < 16384 ∧ off + n.len ≤ b.octets.length ∧ off < b.octets.length := by
  obtain ⟨off, hp, ho, hwf, hat⟩ := h n p hm
  have := hat.bound
  rw [hwf.len_eq] at this
  have := hwf.len_pos
  exact ⟨off, hp, ho, by omega, by omega⟩

theorem TableInv_empty : TableInv WBuf.empty := by
  intro n p h; simp [WBuf.empty] at h

theorem NameInv_empty : NameInv WBuf.empty := by
  intro n p h; simp [WBuf.empty] at h

theorem TableInv.writeOctets {b : WBuf} (h : TableInv b) (x : List UInt8) :
    TableInv (b.writeOctets x) := by
  intro n p hm
  obtain ⟨off, hp, ho, hl⟩ := h n p hm
  exact ⟨off, hp, ho, by simp [WBuf.writeOctets]; omega⟩

theorem NameInv.writeOctets {b : WBuf} (h : NameInv b) (x : List UInt8) :
    NameInv (b.writeOctets x) := by
  intro n p hm
  obtain ⟨off, hp, ho, hwf, hat⟩ := h n p hm
  exact ⟨off, hp, ho, hwf, hat.append x⟩

theorem TableInv.writeU8 {b : WBuf} (h : TableInv b) (o : Nat) : TableInv (b.writeU8 o) :=
  h.writeOctets [u8 o]
theorem TableInv.writeU16 {b : WBuf} (h : TableInv b) (v : Nat) : TableInv (b.writeU16 v) :=
  h.writeOctets _
theorem TableInv.writeU32 {b : WBuf} (h : TableInv b) (v : Nat) : TableInv (b.writeU32 v) :=
  h.writeOctets _
theorem NameInv.writeU8 {b : WBuf} (h : NameInv b) (o : Nat) : NameInv (b.writeU8 o) :=
  h.writeOctets [u8 o]
theorem NameInv.writeU16 {b : WBuf} (h : NameInv b) (v : Nat) : NameInv (b.writeU16 v) :=
  h.writeOctets _
theorem NameInv.writeU32 {b : WBuf} (h : NameInv b) (v : Nat) : NameInv (b.writeU32 v) :=
  h.writeOctets _

theorem memoiseName_octets (b : WBuf) (n : Name) : (b.memoiseName n).octets = b.octets := by
  unfold WBuf.memoiseName
  split
  · split <;> rfl
  · rfl

theorem memoiseName_table (b : WBuf) (n : Name) :
    (b.memoiseName n).namePointers = b.namePointers ∨
    (b.index < 16384 ∧ (b.memoiseName n).namePointers = b.namePointers ++ [(n, 0xC000 + b.index)]) := by
  unfold WBuf.memoiseName
  split
  · split
    · rename_i h; exact Or.inr ⟨h, rfl⟩
    · exact Or.inl rfl
  · exact Or.inl rfl

theorem TableInv.memoiseName {b : WBuf} (h : TableInv b) (n : Name) :
    TableInv (b.memoiseName n) := by
  intro m p hm
  rw [memoiseName_octets]
  rcases memoiseName_table b n with e | ⟨hi, e⟩
  · rw [e] at hm; exact h m p hm
  · rw [e] at hm
    simp only [List.mem_append, List.mem_singleton, Prod.mk.injEq] at hm
    rcases hm with hm | ⟨rfl, rfl⟩
    · exact h m p hm
    · exact ⟨b.index, rfl, hi, Nat.le_refl _⟩

theorem lookupName_mem (tbl : List (Name × Nat)) (n : Name) (p : Nat)
    (h : lookupName tbl n = some p) : (n, p) ∈ tbl := by
  induction tbl with
  | nil => simp [lookupName] at h
  | cons e rest ih =>
    obtain ⟨k, v⟩ := e
    simp only [lookupName] at h
    split at h
    · rename_i hk; cases h; subst hk; simp
    · exact List.mem_cons_of_mem _ (ih h)

/-- closed form of `encodeName` -/
theorem encodeName_eq (b : WBuf) (n : Name) (c : Bool) :
    encodeName b n c =
      match (if c then b.namePointer n else none) with
      | some ptr => ⟨b.octets ++ u16Bytes ptr, b.namePointers⟩
      | none => ⟨b.octets ++ flatLabels n.labels, (b.memoiseName n).namePointers⟩ := by
  unfold encodeName
  cases (if c then b.namePointer n else none) with
  | none => simp only; rw [writeLabels_eq, memoiseName_octets]
  | some ptr => rfl

theorem TableInv.encodeName {b : WBuf} (h : TableInv b) (n : Name) (c : Bool) :
    TableInv (encodeName b n c) := by
  rw [encodeName_eq]
  split
  · exact h.writeOctets _
  · have := (h.memoiseName n).writeOctets (flatLabels n.labels)
    simpa only [WBuf.writeOctets, memoiseName_octets] using this

/-- What `encodeName` does: it appends octets `x`, keeps the invariant, and the decoder, started
    where `x` begins, reads `n` back and stops where `x` ends (whatever follows). -/
theorem encodeName_spec (b : WBuf) (n : Name) (c : Bool) (hinv : NameInv b) (hwf : NameWF n) :
    ∃ x, (encodeName b n c).octets = b.octets ++ x ∧ NameInv (encodeName b n c) ∧
      ∀ id post, decodeName id (b.octets ++ x ++ post) b.octets.length
        = .ok (n, b.octets.length + x.length) := by
  rw [encodeName_eq]
  split
  · rename_i ptr hptr
    refine ⟨u16Bytes ptr, rfl, hinv.writeOctets _, ?_⟩
    intro id post
    have hmem : (n, ptr) ∈ b.namePointers := by
      split at hptr
      · exact lookupName_mem _ _ _ hptr
      · cases hptr
    obtain ⟨off, hp, ho, hwf', hat⟩ := hinv n ptr hmem
    have hlt : off < b.octets.length := by
      have h1 := hat.bound
      rw [hwf'.len_eq] at h1
      have h2 := hwf'.len_pos
      omega
    subst hp
    unfold decodeName
    rw [decodeNameLoop_ptr_step id _ b.octets post off 0 [] ho hlt,
      decodeNameLoop_hasAt id off _ off n hwf' ((hat.append _).append _)]
    simp only [finishName, List.nil_append, Nat.zero_add, u16Bytes_length]
    rw [if_pos hwf.2.2.2]
  · refine ⟨flatLabels n.labels, rfl, ?_, ?_⟩
    · intro m p hm
      simp only at hm ⊢
      rcases memoiseName_table b n with e | ⟨hi, e⟩
      · rw [e] at hm
        obtain ⟨off, hp, ho, hwf', hat⟩ := hinv m p hm
        exact ⟨off, hp, ho, hwf', hat.append _⟩
      · rw [e] at hm
        simp only [List.mem_append, List.mem_singleton, Prod.mk.injEq] at hm
        rcases hm with hm | ⟨rfl, rfl⟩
        · obtain ⟨off, hp, ho, hwf', hat⟩ := hinv m p hm
          exact ⟨off, hp, ho, hwf', hat.append _⟩
        · exact ⟨b.index, rfl, hi, hwf, b.octets, [], by simp, rfl⟩
    · intro id post
      unfold decodeName
      rw [decodeNameLoop_hasAt id _ _ _ n hwf ⟨b.octets, post, rfl, rfl⟩, hwf.len_eq]

end Resolved
