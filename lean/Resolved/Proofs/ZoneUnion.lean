/-
  C12 at the specification level: the merged tree represents the union of the two entry lists
  (the receiver's apex SOA record set dropped when the merged-in zone brings an SOA).
-/
import Resolved.Proofs.ZoneMain

namespace Resolved

open Gen ZSpec

/-! ## list lemmas -/

section
variable {α : Type} [BEq α] [LawfulBEq α]

theorem eraseDups_filter (p : α → Bool) (l : List α) :
    (l.filter p).eraseDups = l.eraseDups.filter p := by
  match l with
  | [] => simp
  | a :: as =>
    have hlen : (as.filter fun b => !b == a).length < as.length + 1 :=
      Nat.lt_succ_of_le (List.length_filter_le _ as)
    have ih := eraseDups_filter p (as.filter fun b => !b == a)
    rw [List.eraseDups_cons (a := a) (as := as)]
    by_cases hp : p a = true
    · simp only [List.filter_cons, hp, if_true]
      rw [List.eraseDups_cons, ← ih]
      congr 2
      rw [List.filter_filter, List.filter_filter]
      apply List.filter_congr
      intro x _; exact Bool.and_comm _ _
    · simp only [List.filter_cons, hp, Bool.false_eq_true, if_false]
      rw [← ih, List.filter_filter]
      congr 1
      apply List.filter_congr
      intro x _
      by_cases hx : x = a
      · subst hx; simp [hp]
      · simp [hx]
termination_by l.length

end

theorem mergeEntries_eraseDups_right (x l : List ZoneRecord) :
    mergeEntries x l.eraseDups = mergeEntries x l := by
  rw [mergeEntries_eq, mergeEntries_eq]
  congr 1
  unfold List.removeAll
  rw [← eraseDups_filter, eraseDups_idem]

theorem recordsAt_append (es1 es2 : List Entry) (rel : List Label) (wild : Bool) :
    recordsAt (es1 ++ es2) rel wild = mergeEntries (recordsAt es1 rel wild) (recordsAt es2 rel wild) := by
  unfold recordsAt
  rw [List.filter_append, List.map_append, mergeEntries_eraseDups_right, mergeEntries_eraseDups]

theorem recordsAt_nodup (es : List Entry) (rel : List Label) (wild : Bool) :
    (recordsAt es rel wild).Nodup := nodup_eraseDups _

theorem mergeEntries_nil_right (x : List ZoneRecord) : mergeEntries x [] = x := rfl

theorem mergeEntries_nil_left_nodup (y : List ZoneRecord) (h : y.Nodup) : mergeEntries [] y = y := by
  rw [mergeEntries_nil_left, eraseDups_of_nodup y h]

theorem ofType_mergeEntries (z1 z2 : List ZoneRecord) (k : Nat) :
    ofType (mergeEntries z1 z2) k = mergeEntries (ofType z1 k) (ofType z2 k) := by
  rw [mergeEntries_eq, mergeEntries_eq, ofType_append]
  congr 1
  unfold ofType
  rw [← eraseDups_filter]
  congr 1
  unfold List.removeAll
  rw [List.filter_filter, List.filter_filter]
  apply List.filter_congr
  intro x _
  by_cases hx : x.rtype = k
  · simp [hx, List.mem_filter]
  · simp [hx]

theorem ofType_nodup (zrs : List ZoneRecord) (k : Nat) (h : zrs.Nodup) : (ofType zrs k).Nodup :=
  h.sublist List.filter_sublist

theorem mergeEntries_eq_nil_iff (x y : List ZoneRecord) : mergeEntries x y = [] ↔ x = [] ∧ y = [] := by
  constructor
  · intro h
    have hx : x = [] := by
      have := mergeEntries_prefix x y
      rw [h] at this; exact List.prefix_nil.mp this
    subst hx
    refine ⟨rfl, ?_⟩
    cases y with
    | nil => rfl
    | cons a as =>
      have : a ∈ mergeEntries [] (a :: as) := (mem_mergeEntries _ _ _).mpr (Or.inr List.mem_cons_self)
      rw [h] at this; cases this
  · rintro ⟨rfl, rfl⟩; rfl

/-! ## record maps -/

theorem recRepr_mergeZrs (m1 m2 : RecMap) (z1 z2 : List ZoneRecord) (h1 : RecRepr m1 z1)
    (h2 : RecRepr m2 z2) (hn : z2.Nodup) : RecRepr (mergeZrs m1 m2) (mergeEntries z1 z2) := by
  refine ⟨RecMap.keys_nodup_mergeZrs m1 m2 h1.1, ?_⟩
  intro k
  rw [RecMap.get_mergeZrs m1 m2 k h2.1, ofType_mergeEntries, h1.2 k, h2.2 k]
  by_cases e1 : ofType z1 k = [] <;> by_cases e2 : ofType z2 k = []
  · simp [e1, e2, mergeEntries]
  · simp only [e1, e2, if_true, if_false]
    rw [mergeEntries_nil_left_nodup _ (ofType_nodup z2 k hn)]
    simp [e2]
  · simp only [e1, e2, if_true, if_false, mergeEntries_nil_right]
  · simp only [e1, e2, if_false]
    rw [if_neg]
    rw [mergeEntries_eq_nil_iff]; exact fun h => e1 h.1

theorem recRepr_nil_iff {zrs : List ZoneRecord} : RecRepr [] zrs ↔ zrs = [] :=
  ⟨fun h => h.nil_right, fun h => h ▸ recRepr_nil⟩

theorem wildRepr_mergeWild (w1 w2 : Option RecMap) (z1 z2 : List ZoneRecord) (h1 : WildRepr w1 z1)
    (h2 : WildRepr w2 z2) (hn : z2.Nodup) :
    WildRepr (ZNode.mergeWild w1 w2) (mergeEntries z1 z2) := by
  cases w2 with
  | none =>
    simp only [WildRepr] at h2; subst h2
    simpa [ZNode.mergeWild, mergeEntries_nil_right] using h1
  | some ow =>
    obtain ⟨hne, hr⟩ := h2
    cases w1 with
    | none =>
      simp only [WildRepr] at h1; subst h1
      simp only [ZNode.mergeWild, mergeEntries_nil_left_nodup z2 hn]
      exact ⟨hne, hr⟩
    | some mw =>
      simp only [ZNode.mergeWild]
      refine ⟨?_, recRepr_mergeZrs mw ow z1 z2 h1.2 hr hn⟩
      rw [Ne, mergeEntries_eq_nil_iff]; exact fun h => hne h.2

theorem viewRepr_merge (v1 v2 : RecMap × Option RecMap) (es1 es2 : List Entry) (rel : List Label)
    (h1 : ViewRepr v1 es1 rel) (h2 : ViewRepr v2 es2 rel) :
    ViewRepr (mergeZrs v1.1 v2.1, ZNode.mergeWild v1.2 v2.2) (es1 ++ es2) rel := by
  unfold ViewRepr
  rw [recordsAt_append, recordsAt_append]
  exact ⟨recRepr_mergeZrs _ _ _ _ h1.1 h2.1 (recordsAt_nodup _ _ _),
    wildRepr_mergeWild _ _ _ _ h1.2 h2.2 (recordsAt_nodup _ _ _)⟩

theorem viewRepr_empty_iff (es : List Entry) (rel : List Label) :
    ViewRepr ([], none) es rel ↔ recordsAt es rel false = [] ∧ recordsAt es rel true = [] := by
  unfold ViewRepr
  simp only [recRepr_nil_iff, WildRepr]

/-! ## trees -/

theorem existsNode_append (es1 es2 : List Entry) (rel : List Label) :
    existsNode (es1 ++ es2) rel = (existsNode es1 rel || existsNode es2 rel) := by
  unfold existsNode
  cases rel <;> simp

/-- the merged tree represents the concatenation of the entry lists. -/
theorem treeRepr_merge (a b : ZNode) (es1 es2 : List Entry) (ha : TreeRepr a es1) (hb : TreeRepr b es2)
    (hname : a.nsdname = b.nsdname) (hk : ZNode.KeysNodup b) :
    TreeRepr (ZNode.merge a b) (es1 ++ es2) := by
  refine ⟨?_, ?_, ?_⟩
  · intro p n hp
    rw [ZNode.descend_merge p a b hk] at hp
    rw [ZNode.merge_nsdname]
    cases hda : a.descend p with
    | none =>
      cases hdb : b.descend p with
      | none => simp [hda, hdb] at hp
      | some y =>
        simp only [hda, hdb, Option.some.injEq] at hp; subst hp
        rw [hname]; exact hb.names p _ hdb
    | some x =>
      have hx := ha.names p x hda
      cases hdb : b.descend p with
      | none => simp only [hda, hdb, Option.some.injEq] at hp; subst hp; exact hx
      | some y =>
        simp only [hda, hdb, Option.some.injEq] at hp; subst hp
        rw [ZNode.merge_nsdname]; exact hx
  · intro p
    rw [ZNode.descend_merge p a b hk, existsNode_append, ← ha.exist p, ← hb.exist p]
    cases a.descend p <;> cases b.descend p <;> rfl
  · intro p
    have h1 := ha.recs p
    have h2 := hb.recs p
    have hm := viewRepr_merge _ _ es1 es2 p.reverse h1 h2
    unfold ZNode.baseView at h1 h2 hm ⊢
    rw [ZNode.descend_merge p a b hk]
    cases hda : a.descend p with
    | none =>
      cases hdb : b.descend p with
      | none => simpa [hda, hdb, mergeZrs, ZNode.mergeWild] using hm
      | some y =>
        simp only [hda, hdb] at h1 h2 ⊢
        obtain ⟨e1, e2⟩ := (viewRepr_empty_iff es1 p.reverse).mp h1
        unfold ViewRepr at h2 ⊢
        rw [recordsAt_append, recordsAt_append, e1, e2,
          mergeEntries_nil_left_nodup _ (recordsAt_nodup _ _ _),
          mergeEntries_nil_left_nodup _ (recordsAt_nodup _ _ _)]
        exact h2
    | some x =>
      cases hdb : b.descend p with
      | none => simpa [hda, hdb, mergeZrs, ZNode.mergeWild] using hm
      | some y => simpa [hda, hdb, ZNode.view] using hm

/-! ## dropping the receiver's apex SOA -/

/-- the entries that survive `dropApexSoa`: everything but SOA records owned by the apex itself. -/
def keepNonApexSoa (e : Entry) : Bool := !(e.rel.isEmpty && !e.wild && e.zr.rtype == RT_SOA)

theorem RecMap.get_filter_ne (m : RecMap) (k0 k : Nat) :
    RecMap.get (m.filter (fun kv => kv.1 != k0)) k = if k = k0 then none else m.get k := by
  induction m with
  | nil => simp
  | cons kv rest ih =>
    obtain ⟨k', v⟩ := kv
    by_cases hk' : k' = k0
    · subst hk'
      simp only [List.filter_cons, bne_self_eq_false, Bool.false_eq_true, if_false, ih, RecMap.get_cons]
      by_cases hk : k = k'
      · simp [hk]
      · have : ¬ k' = k := fun e => hk e.symm
        simp [hk, this]
    · have : (k' != k0) = true := by simp [hk']
      simp only [List.filter_cons, this, if_true, RecMap.get_cons, ih]
      by_cases hk : k' = k
      · subst hk; simp [hk']
      · simp [hk]

theorem recRepr_filter_ne (m : RecMap) (zrs : List ZoneRecord) (k0 : Nat) (h : RecRepr m zrs) :
    RecRepr (m.filter (fun kv => kv.1 != k0)) (zrs.filter (fun z => z.rtype != k0)) := by
  refine ⟨?_, ?_⟩
  · have : (RecMap.keys (m.filter (fun kv => kv.1 != k0))).Sublist m.keys := by
      unfold RecMap.keys
      exact List.Sublist.map _ List.filter_sublist
    exact h.1.sublist this
  · intro k
    rw [RecMap.get_filter_ne, ofType_filter_ne]
    by_cases hk : k = k0
    · simp [hk]
    · simp only [hk, if_false]; exact h.2 k

theorem recordsAt_filter_keep (es : List Entry) (rel : List Label) (wild : Bool) :
    recordsAt (es.filter keepNonApexSoa) rel wild =
      if rel = [] ∧ wild = false then (recordsAt es rel wild).filter (fun z => z.rtype != RT_SOA)
      else recordsAt es rel wild := by
  unfold recordsAt
  rw [List.filter_filter]
  split
  · rename_i h
    obtain ⟨rfl, rfl⟩ := h
    rw [← eraseDups_filter, List.filter_map]
    congr 2
    rw [List.filter_filter]
    apply List.filter_congr
    intro e _
    unfold keepNonApexSoa
    simp only [Function.comp]
    simp only [bne]
    generalize (e.zr.rtype == RT_SOA) = b3
    cases e.rel <;> cases e.wild <;> cases b3 <;> simp
  · rename_i h
    congr 2
    apply List.filter_congr
    intro e _
    unfold keepNonApexSoa
    by_cases h1 : e.rel = rel
    · subst h1
      by_cases h2 : e.wild = wild
      · subst h2
        have : ¬ (e.rel = [] ∧ e.wild = false) := h
        by_cases h3 : e.rel = []
        · have h4 : e.wild = true := by
            cases hw : e.wild with
            | true => rfl
            | false => exact absurd ⟨h3, hw⟩ this
          simp [h3, h4]
        · simp [h3]
      · simp [h2]
    · simp [h1]

theorem existsNode_filter_keep (es : List Entry) (rel : List Label) :
    existsNode (es.filter keepNonApexSoa) rel = existsNode es rel := by
  rw [Bool.eq_iff_iff, existsNode_iff, existsNode_iff]
  constructor
  · rintro (h | ⟨e, he, hs⟩)
    · exact Or.inl h
    · exact Or.inr ⟨e, (List.mem_filter.mp he).1, hs⟩
  · rintro (h | ⟨e, he, hs⟩)
    · exact Or.inl h
    · by_cases hk : keepNonApexSoa e = true
      · exact Or.inr ⟨e, List.mem_filter.mpr ⟨he, hk⟩, hs⟩
      · left
        cases hrel : e.rel with
        | nil => rw [hrel] at hs; exact List.suffix_nil.mp hs
        | cons x xs => simp [keepNonApexSoa, hrel] at hk

theorem dropApexSoa_descend (root : ZNode) (p : List Label) (hp : p ≠ []) :
    (Zone.dropApexSoa root).descend p = root.descend p := by
  cases root with
  | mk nsd this wild ch =>
    cases p with
    | nil => exact absurd rfl hp
    | cons l rest => simp [ZNode.descend_cons, Zone.dropApexSoa]

theorem treeRepr_dropApexSoa (root : ZNode) (es : List Entry) (h : TreeRepr root es) :
    TreeRepr (Zone.dropApexSoa root) (es.filter keepNonApexSoa) := by
  have hnsd : (Zone.dropApexSoa root).nsdname = root.nsdname := by cases root; rfl
  refine ⟨?_, ?_, ?_⟩
  · intro p n hp
    rw [hnsd]
    by_cases hpe : p = []
    · subst hpe
      simp only [ZNode.descend_nil, Option.some.injEq] at hp
      subst hp
      rw [hnsd]; exact h.names [] root rfl
    · rw [dropApexSoa_descend root p hpe] at hp
      exact h.names p n hp
  · intro p
    rw [existsNode_filter_keep, ← h.exist p]
    by_cases hpe : p = []
    · subst hpe; rfl
    · rw [dropApexSoa_descend root p hpe]
  · intro p
    have h1 := h.recs p
    unfold ViewRepr at h1 ⊢
    rw [recordsAt_filter_keep, recordsAt_filter_keep]
    by_cases hpe : p = []
    · subst hpe
      simp only [List.reverse_nil, true_and, if_true, Bool.true_eq_false, if_false]
      cases root with
      | mk nsd this wild ch =>
        simp only [ZNode.baseView, ZNode.descend_nil, ZNode.view, Zone.dropApexSoa, ZNode.this_mk,
          ZNode.wildcards_mk, List.reverse_nil] at h1 ⊢
        exact ⟨recRepr_filter_ne _ _ RT_SOA h1.1, h1.2⟩
    · have : ¬ p.reverse = [] := by simpa using hpe
      simp only [this, false_and, if_false]
      unfold ZNode.baseView at h1 ⊢
      rw [dropApexSoa_descend root p hpe]
      exact h1

/-! ## zones -/

/-- the entry list of `z.merge o`: the receiver's entries (minus its apex SOA records when the
    merged-in zone brings an SOA) followed by the merged-in zone's. -/
def unionEntries (es1 es2 : List Entry) (otherHasSoa : Bool) : List Entry :=
  (if otherHasSoa then es1.filter keepNonApexSoa else es1) ++ es2

theorem Zone.repr_merge (z o m : Zone) (apex : Name) (s1 s2 : Option SOA) (es1 es2 : List Entry)
    (hz : Zone.Repr z apex s1 es1) (ho : Zone.Repr o apex s2 es2) (hk : ZNode.KeysNodup o.records)
    (hm : z.merge o = some m) :
    Zone.Repr m apex (if s2.isSome then s2 else s1) (unionEntries es1 es2 s2.isSome) := by
  unfold Zone.merge at hm
  split at hm
  · cases hm
  · rw [ho.soa_eq] at hm
    unfold unionEntries
    cases s2 with
    | some s =>
      simp only [Option.isSome_some, if_true, Option.some.injEq] at hm ⊢
      subst hm
      have hdn : (Zone.dropApexSoa z.records).nsdname = z.records.nsdname := by
        cases z.records; rfl
      refine ⟨hz.apex_eq, rfl, ?_, ?_⟩
      · simp only [ZNode.merge_nsdname]; rw [hdn]; exact hz.root_name
      · exact treeRepr_merge _ _ _ _ (treeRepr_dropApexSoa _ _ hz.tree) ho.tree
          (by rw [hdn, hz.root_name, ho.root_name]) hk
    | none =>
      simp only [Option.isSome_none, Bool.false_eq_true, if_false, Option.some.injEq] at hm ⊢
      subst hm
      refine ⟨hz.apex_eq, hz.soa_eq, ?_, ?_⟩
      · simp only [ZNode.merge_nsdname]; exact hz.root_name
      · exact treeRepr_merge _ _ _ _ hz.tree ho.tree (by rw [hz.root_name, ho.root_name]) hk

/-- configured zones have distinct child labels everywhere. -/
theorem Zone.keysNodup_applyOps (ops : List ZoneOp) : ∀ (z z' : Zone), ZNode.KeysNodup z.records →
    z.applyOps ops = some z' → ZNode.KeysNodup z'.records := by
  induction ops with
  | nil => intro z z' h ho; simp only [Zone.applyOps, Option.some.injEq] at ho; subst ho; exact h
  | cons op ops ih =>
    intro z z' h ho
    simp only [Zone.applyOps] at ho
    cases h1 : z.applyOp op with
    | none => simp [h1] at ho
    | some z1 =>
      simp only [h1] at ho
      apply ih z1 z' ?_ ho
      obtain ⟨_, _, hc⟩ := Zone.insert_cases z z1 _ _ _ _ _ h1
      rcases hc with ⟨_, rfl⟩ | ⟨rel, _, hi⟩
      · exact h
      · exact ZNode.keysNodup_insertRev _ _ _ _ _ h hi

theorem Zone.keysNodup_build (apex : Name) (soa : Option SOA) (ops : List ZoneOp) (z : Zone)
    (hb : Zone.build apex soa ops = some z) : ZNode.KeysNodup z.records := by
  apply Zone.keysNodup_applyOps ops _ z ?_ hb
  cases soa with
  | none => exact ZNode.keysNodup_new apex
  | some s =>
    exact ZNode.keysNodup_insertRev _ _ _ _ _ (ZNode.keysNodup_new apex) (Zone.new_records_some apex s)

/-! ## `Zones` -/

namespace Zones

/-- every zone is stored under its own apex (what `Zones::insert` / `insert_merge` maintain). -/
def KeyedByApex (zs : Zones) : Prop := ∀ k z, (k, z) ∈ zs.zones → z.apex = k

theorem lookup_mem {l : List (Name × Zone)} {n : Name} {z : Zone} (h : lookup l n = some z) :
    (n, z) ∈ l := by
  induction l with
  | nil => simp [lookup] at h
  | cons kv rest ih =>
    obtain ⟨k, v⟩ := kv
    simp only [lookup] at h
    split at h
    · rename_i hk; cases h; subst hk; simp
    · exact List.mem_cons_of_mem _ (ih h)

theorem mem_setZone {l : List (Name × Zone)} {n k : Name} {v z : Zone} (h : (k, z) ∈ setZone l n v) :
    (k, z) ∈ l ∨ (k = n ∧ z = v) := by
  induction l with
  | nil => simp only [setZone, List.mem_singleton, Prod.mk.injEq] at h; exact Or.inr h
  | cons kv rest ih =>
    obtain ⟨k', v'⟩ := kv
    simp only [setZone] at h
    split at h
    · rename_i hk
      simp only [List.mem_cons, Prod.mk.injEq] at h
      rcases h with ⟨h1, h2⟩ | h
      · exact Or.inr ⟨h1.trans hk, h2⟩
      · exact Or.inl (List.mem_cons_of_mem _ h)
    · simp only [List.mem_cons] at h
      rcases h with h | h
      · exact Or.inl (by rw [h]; exact List.mem_cons_self)
      · rcases ih h with h | h
        · exact Or.inl (List.mem_cons_of_mem _ h)
        · exact Or.inr h

theorem lookup_setZone (l : List (Name × Zone)) (n k : Name) (v : Zone) :
    lookup (setZone l n v) k = if n = k then some v else lookup l k := by
  induction l with
  | nil => simp [setZone, lookup]
  | cons kv rest ih =>
    obtain ⟨k', v'⟩ := kv
    simp only [setZone]
    split
    · rename_i hk
      subst hk
      simp only [lookup]
      split <;> rfl
    · rename_i hk
      simp only [lookup, ih]
      by_cases h1 : k' = k
      · subst h1; simp; intro h; exact absurd h.symm hk
      · simp [h1]

theorem empty_keyed : KeyedByApex Zones.empty := by
  intro k z h; simp [Zones.empty] at h

/-- `Zones::insert_merge` never hits its `unwrap()`, keeps the keying invariant, stores under the
    apex the merge (or the zone itself when the apex is new), and leaves other apexes alone. -/
theorem insertMerge_spec (zs : Zones) (other : Zone) (h : KeyedByApex zs) :
    ∃ zs', zs.insertMerge other = some zs' ∧ KeyedByApex zs' ∧
      (∃ m, lookup zs'.zones other.apex = some m ∧
        (match lookup zs.zones other.apex with
         | some mine => mine.merge other = some m
         | none => m = other)) ∧
      ∀ k, k ≠ other.apex → lookup zs'.zones k = lookup zs.zones k := by
  unfold insertMerge
  cases hl : lookup zs.zones other.apex with
  | none =>
    refine ⟨zs.insert other, rfl, ?_, ⟨other, ?_, rfl⟩, ?_⟩
    · intro k z hm
      rcases mem_setZone hm with hm | ⟨h1, h2⟩
      · exact h k z hm
      · rw [h2, h1]
    · simp [Zones.insert, lookup_setZone]
    · intro k hk
      simp only [Zones.insert, lookup_setZone]
      rw [if_neg (fun e => hk e.symm)]
  | some mine =>
    have hap : mine.apex = other.apex := h _ _ (lookup_mem hl)
    have hsome : (mine.merge other).isSome := by
      unfold Zone.merge; simp [hap]
      split <;> rfl
    obtain ⟨m, hm⟩ := Option.isSome_iff_exists.mp hsome
    have hmap : m.apex = other.apex := by
      unfold Zone.merge at hm
      split at hm
      · cases hm
      · split at hm <;> (cases hm; exact hap)
    simp only [hm]
    refine ⟨⟨setZone zs.zones other.apex m⟩, rfl, ?_, ⟨m, ?_, rfl⟩, ?_⟩
    · intro k z hmem
      rcases mem_setZone hmem with hmem | ⟨h1, h2⟩
      · exact h k z hmem
      · rw [h2, h1]; exact hmap
    · simp [lookup_setZone]
    · intro k hk
      simp only [lookup_setZone]
      rw [if_neg (fun e => hk e.symm)]

end Zones

end Resolved
