/-
  C05, history level: along any history the cache stores, for every key (name, type, data), the
  expiry of the key's LAST insertion — unless a prune has dropped it since.
  The abstract state is the entry list of `Spec/CacheSpec.lean` (`CSpec.State.entries`).
-/
import Resolved.Spec.CacheSpec
import Resolved.Proofs.CachePruneSpec

namespace Resolved

open PCache

/-! ## What `prune` does to the stored tuples -/

theorem get_liveRecs (rs : List (Nat × Tuples)) (now rk : Nat) :
    AL.get (liveRecs rs now) rk = (AL.get rs rk).map (fun ts => ts.filter (fun t => t.2 > now)) := by
  induction rs with
  | nil => rfl
  | cons r rs ih =>
    rw [liveRecs_cons, AL.get_cons, AL.get_cons]
    by_cases h : r.1 = rk <;> simp [h, ih]

/-- the tuple lists of a surviving partition are the live parts of the old ones -/
theorem Inv.tuplesAt_prune {c c' : PCache} {now : Nat} {r : Bool × Nat × Nat × Nat} (h : Inv c)
    (hp : c.prune now = some (c', r)) (k : Name) (rk : Nat) :
    tuplesAt c' k rk =
      if k ∈ AL.keys c'.partitions then (tuplesAt c k rk).filter (fun t => t.2 > now) else [] := by
  obtain ⟨c1, hi1, hi2, s1, _, _, _, l7, _⟩ := h.prune_spec hp
  cases hg : AL.get c'.partitions k with
  | none =>
    have := AL.get_eq_none_iff.mp hg
    simp [tuplesAt_of_none hg, this]
  | some p' =>
    have hk := AL.mem_keys_of_get hg
    simp only [hk, ↓reduceIte]
    have hm := AL.mem_of_get hg
    rw [l7] at hm
    have hk1 := (List.mem_filter.mp hm).1
    rw [s1] at hk1
    obtain ⟨kp, hkp, hpk⟩ := List.mem_filterMap.mp hk1
    obtain ⟨hkk, hpp⟩ := purgeKP_some hpk
    simp only at hkk hpp
    obtain ⟨hrec, _, _, _⟩ := purgeP_some (h.parts kp hkp) hpp
    have hgc : AL.get c.partitions k = some kp.2 := by
      apply AL.get_of_mem h.keysNodup; rw [hkk]; exact hkp
    rw [tuplesAt_of_get hg, tuplesAt_of_get hgc, hrec, get_liveRecs]
    cases AL.get kp.2.records rk <;> simp

theorem lookupTuple_filter {ts : Tuples} (hnd : (ts.map (·.1)).Nodup) (now : Nat) (v : CRec) :
    lookupTuple (ts.filter (fun t => t.2 > now)) v =
      (lookupTuple ts v).bind (fun e => if e > now then some e else none) := by
  have hnd' : ((ts.filter (fun t => t.2 > now)).map (·.1)).Nodup :=
    ((List.filter_sublist (l := ts)).map _).nodup hnd
  cases h : lookupTuple ts v with
  | none =>
    simp only [Option.bind_none]
    rw [lookupTuple_none_iff] at h ⊢
    intro hm
    obtain ⟨t, ht, rfl⟩ := List.mem_map.mp hm
    exact h (List.mem_map.mpr ⟨t, (List.mem_filter.mp ht).1, rfl⟩)
  | some e =>
    simp only [Option.bind_some]
    have hm := lookupTuple_some_mem h
    split
    · rename_i he
      exact lookupTuple_of_mem hnd' (List.mem_filter.mpr ⟨hm, by simpa using he⟩)
    · rename_i he
      rw [lookupTuple_none_iff]
      intro hm'
      obtain ⟨t, ht, hv⟩ := List.mem_map.mp hm'
      obtain ⟨ht1, ht2⟩ := List.mem_filter.mp ht
      have : lookupTuple ts v = some t.2 := by
        apply lookupTuple_of_mem hnd
        rw [← hv]; exact ht1
      rw [h] at this
      cases this
      simp at ht2; omega

/-- `prune` and the stored expiries: a key survives iff its partition survives and its expiry is
    in the future; survivors keep their expiry. -/
theorem Inv.storedExpiry_prune {c c' : PCache} {now : Nat} {r : Bool × Nat × Nat × Nat} (h : Inv c)
    (hp : c.prune now = some (c', r)) (k : Name) (rt : Nat) (fs : List FieldVal) :
    storedExpiry c' k rt fs =
      if k ∈ AL.keys c'.partitions then
        (storedExpiry c k rt fs).bind (fun e => if e > now then some e else none)
      else none := by
  rw [storedExpiry_eq, storedExpiry_eq, h.tuplesAt_prune hp]
  split
  · exact lookupTuple_filter (h.tuplesAt_nodup k rt) now _
  · rfl

/-! ## The abstract map -/

open CSpec (Key)

/-- lookup in the abstract entry list (first match, as `CSpec.State.find`) -/
def absFind (m : List (Key × Nat)) (k : Key) : Option Nat := (m.find? (·.1 == k)).map (·.2)

/-- `CSpec.State.insert` on the entry list: TTL 0 is not stored; re-insertion replaces the expiry -/
def absInsert (m : List (Key × Nat)) (rr : RR) (now : Nat) : List (Key × Nat) :=
  if rr.ttl > 0 then
    (m.filter (·.1 != (⟨rr.name, rr.rtype, rr.fields⟩ : Key))) ++ [(⟨rr.name, rr.rtype, rr.fields⟩, now + rr.ttl * NANOS)]
  else m

/-- the abstract effect of one operation; a prune can only drop entries — those the implementation
    (state `c'` after the operation) no longer stores -/
def absStep (c' : PCache) (m : List (Key × Nat)) : CacheOp → List (Key × Nat)
  | .insert rr now => absInsert m rr now
  | .insertAll rrs now => rrs.foldl (fun m rr => absInsert m rr now) m
  | .get _ _ _ => m
  | .getUnchecked _ _ _ => m
  | .prune _ => m.filter (fun ke => storedExpiry c' ke.1.name ke.1.rtype ke.1.fields == some ke.2)

/-- concrete and abstract state after a history, from `(c, m)` -/
def runBoth (c : PCache) (m : List (Key × Nat)) : List CacheOp → PCache × List (Key × Nat)
  | [] => (c, m)
  | op :: ops => runBoth (op.apply c) (absStep (op.apply c) m op) ops

theorem runBoth_fst (c : PCache) (m : List (Key × Nat)) (ops : List CacheOp) :
    (runBoth c m ops).1 = runFrom c ops := by
  induction ops generalizing c m with
  | nil => rfl
  | cons op ops ih => simp only [runBoth, ih]; rfl

theorem find?_filter_key (m : List (Key × Nat)) (q : Key × Nat → Bool) (k : Key) :
    (m.filter q).find? (·.1 == k) = m.find? (fun x => x.1 == k && q x) := by
  induction m with
  | nil => rfl
  | cons x m ih =>
    by_cases hq : q x = true
    · rw [List.filter_cons_of_pos hq, List.find?_cons, List.find?_cons, ih]; simp [hq]
    · rw [List.filter_cons_of_neg hq, List.find?_cons, ih]; simp [hq]

theorem absFind_insert (m : List (Key × Nat)) (rr : RR) (now : Nat) (k : Key) :
    absFind (absInsert m rr now) k =
      if rr.ttl > 0 ∧ k = ⟨rr.name, rr.rtype, rr.fields⟩ then some (now + rr.ttl * NANOS) else absFind m k := by
  unfold absInsert
  by_cases ht : rr.ttl > 0
  · simp only [ht, ↓reduceIte, true_and]
    unfold absFind
    rw [List.find?_append, find?_filter_key]
    by_cases hk : k = ⟨rr.name, rr.rtype, rr.fields⟩
    · subst hk
      have : List.find? (fun x => x.1 == (⟨rr.name, rr.rtype, rr.fields⟩ : Key) && x.1 != (⟨rr.name, rr.rtype, rr.fields⟩ : Key)) m = none := by
        rw [List.find?_eq_none]; intro x _; simp
      rw [this]; simp
    · have hcongr : List.find? (fun x => x.1 == k && x.1 != (⟨rr.name, rr.rtype, rr.fields⟩ : Key)) m =
          List.find? (fun x => x.1 == k) m := by
        congr 1; funext x
        by_cases hx : x.1 = k
        · subst hx; simp [hk]
        · simp [hx]
      rw [hcongr]
      have hk' : ¬ (⟨rr.name, rr.rtype, rr.fields⟩ : Key) = k := fun e => hk e.symm
      cases List.find? (fun x => x.1 == k) m <;> simp [hk, hk']
  · simp [ht]

/-- the simulation relation: the cache stores exactly the abstract map -/
def CacheSim (c : PCache) (m : List (Key × Nat)) : Prop :=
  ∀ k : Key, storedExpiry c k.name k.rtype k.fields = absFind m k

theorem CacheSim.insert {c : PCache} {m : List (Key × Nat)} (hs : CacheSim c m) (h : Inv c) (rr : RR) (now : Nat) :
    CacheSim (sharedInsert c rr now) (absInsert m rr now) := by
  intro k
  rw [absFind_insert]
  unfold sharedInsert
  by_cases ht : rr.ttl > 0
  · simp only [ht, ↓reduceIte, true_and]
    unfold cacheInsert
    rw [storedExpiry_upsert h rr.name (rk := rr.rtype) (v := ⟨rr.rtype, rr.fields⟩) (rr.ttl * NANOS) now rfl, hs k]
    have : (k.name = rr.name ∧ (⟨k.rtype, k.fields⟩ : CRec) = ⟨rr.rtype, rr.fields⟩) ↔
        k = ⟨rr.name, rr.rtype, rr.fields⟩ := by
      obtain ⟨a, b, d⟩ := k
      simp
    simp only [this]
  · simp only [ht, ↓reduceIte, false_and]; exact hs k

theorem CacheSim.insertAll {c : PCache} {m : List (Key × Nat)} (hs : CacheSim c m) (h : Inv c) (rrs : List RR) (now : Nat) :
    CacheSim (sharedInsertAll c rrs now) (rrs.foldl (fun m rr => absInsert m rr now) m) := by
  unfold sharedInsertAll
  induction rrs generalizing c m with
  | nil => exact hs
  | cons rr rrs ih => exact ih (hs.insert h rr now) (h.sharedInsert rr now)

theorem CacheSim.step {c : PCache} {m : List (Key × Nat)} (hs : CacheSim c m) (h : Inv c) (op : CacheOp) :
    CacheSim (op.apply c) (absStep (op.apply c) m op) := by
  cases op with
  | insert rr now => exact hs.insert h rr now
  | insertAll rrs now => exact hs.insertAll h rrs now
  | get name qtype now =>
    intro k
    exact ((cacheGetUnchecked_touched c name qtype now).storedExpiry _ _ _).trans (hs k)
  | getUnchecked name qtype now =>
    intro k
    exact ((cacheGetUnchecked_touched c name qtype now).storedExpiry _ _ _).trans (hs k)
  | prune now =>
    intro k
    simp only [absStep]
    generalize hc' : CacheOp.apply c (.prune now) = c'
    -- the implementation only drops entries
    have hsub : ∀ e, storedExpiry c' k.name k.rtype k.fields = some e →
        storedExpiry c k.name k.rtype k.fields = some e := by
      simp only [CacheOp.apply] at hc'
      split at hc'
      · rename_i c2 r hp
        subst hc'
        intro e he
        rw [h.storedExpiry_prune hp] at he
        split at he
        · cases hst : storedExpiry c k.name k.rtype k.fields with
          | none => rw [hst] at he; cases he
          | some e0 =>
            rw [hst] at he
            simp only [Option.bind_some] at he
            split at he
            · exact he
            · cases he
        · cases he
      · subst hc'; exact fun e he => he
    unfold absFind
    rw [find?_filter_key]
    cases hst : storedExpiry c' k.name k.rtype k.fields with
    | none =>
      have : List.find? (fun x => x.1 == k &&
          (storedExpiry c' x.1.name x.1.rtype x.1.fields == some x.2)) m = none := by
        rw [List.find?_eq_none]
        intro x _
        by_cases hx : x.1 = k
        · subst hx; simp [hst]
        · simp [hx]
      rw [this]; rfl
    | some e =>
      have hm := (hs k).symm.trans (hsub e hst)
      unfold absFind at hm
      -- the first entry for `k` in `m` is `(k, e)`, and it passes the filter
      obtain ⟨x, hx, hxe⟩ := Option.map_eq_some_iff.mp hm
      have hxk : x.1 = k := by have := List.find?_some hx; simpa using this
      have : List.find? (fun x => x.1 == k &&
          (storedExpiry c' x.1.name x.1.rtype x.1.fields == some x.2)) m = some x := by
        rw [List.find?_eq_some_iff_append] at hx ⊢
        obtain ⟨_, as, bs, rfl, hbefore⟩ := hx
        refine ⟨by simp [hxk, hst, hxe], as, bs, rfl, ?_⟩
        intro a ha
        have := hbefore a ha
        simp only [Bool.not_eq_eq_eq_not, Bool.not_true, beq_eq_false_iff_ne, ne_eq] at this
        simp [this]
      rw [this]; simp [hxe]

theorem CacheSim.new (d : Nat) : CacheSim (PCache.new d) [] := by
  intro k; rfl

theorem CacheSim.runBoth {c : PCache} {m : List (Key × Nat)} (hs : CacheSim c m) (h : Inv c) (ops : List CacheOp) :
    CacheSim (runBoth c m ops).1 (runBoth c m ops).2 := by
  induction ops generalizing c m with
  | nil => exact hs
  | cons op ops ih => exact ih (hs.step h op) (h.apply op)

end Resolved
