/-
  C11: the ten field shapes of `parse_rr`, and the rejections.
-/
import Resolved.Proofs.ZoneTextBasics

namespace Resolved.ZoneText

open Resolved Resolved.IpText Gen

/-! ## falling through the longer shapes -/

/-- no token of `rd` spells a record type (mnemonic or `TYPE<n>`). -/
def NoType (rd : List Token) : Prop := ∀ t ∈ rd, rtypeFromStr t.1 = none

theorem tryParse_nil (o : Option Name) : tryParseRtypeWithData o [] = none := rfl

theorem tryParse_head_none (o : Option Name) (t : Token) (ts : List Token) (h : rtypeFromStr t.1 = none) :
    tryParseRtypeWithData o (t :: ts) = none := by
  simp [tryParseRtypeWithData, h]

/-- every suffix of RDATA tokens none of which spells a type fails to parse as `<type> <rdata>`. -/
theorem tryParse_noType (o : Option Name) (rd : List Token) (h : NoType rd) :
    tryParseRtypeWithData o rd = none := by
  cases rd with
  | nil => rfl
  | cons t ts => exact tryParse_head_none o t ts (h t (by simp))

theorem NoType.tail {t : Token} {ts : List Token} (h : NoType (t :: ts)) : NoType ts :=
  fun x hx => h x (by simp [hx])

theorem parseRr4_none_of_short (o : Option Name) (t0 t1 t2 : Token) :
    parseRr4 o [t0, t1, t2] = none ∧ parseRr4 o [t0, t1] = none ∧ parseRr4 o [t0] = none := by
  exact ⟨rfl, rfl, rfl⟩

/-! ## the ten shapes -/

section shapes

variable (o : Option Name) (pd : Option MaybeWildcard) (pt : Option Nat)
variable (d t ty : Token) (rd : List Token) (rdat : RData)

def tIN : Token := (sIN, [73, 78])

theorem tIN_fst : tIN.1 = sIN := rfl

/-- 1. `<domain-name> <ttl> <class> <type> <rdata>` -/
theorem shape_domain_ttl_class (w : MaybeWildcard) (n : Nat)
    (hty : tryParseRtypeWithData o (ty :: rd) = some rdat)
    (hd : parseDomainOrWildcard o d.1 = .ok w) (ht : parseU32 t.1 = some n) :
    parseRr o pd pt (d :: t :: tIN :: ty :: rd) = .ok (toRr w rdat n) := by
  simp [parseRr, parseRr4, hty, hd, tIN_fst, parseU32E, ht]

/-- 2. `<domain-name> <class> <ttl> <type> <rdata>` -/
theorem shape_domain_class_ttl (w : MaybeWildcard) (n : Nat)
    (hty : tryParseRtypeWithData o (ty :: rd) = some rdat)
    (hd : parseDomainOrWildcard o d.1 = .ok w) (ht : parseU32 t.1 = some n) (htIN : t.1 ≠ sIN) :
    parseRr o pd pt (d :: tIN :: t :: ty :: rd) = .ok (toRr w rdat n) := by
  simp [parseRr, parseRr4, hty, hd, tIN_fst, parseU32E, ht, htIN]

/-- 3. `<domain-name> <ttl> <type> <rdata>` -/
theorem shape_domain_ttl (w : MaybeWildcard) (n : Nat)
    (hty : tryParseRtypeWithData o (ty :: rd) = some rdat) (hrd : NoType rd)
    (hd : parseDomainOrWildcard o d.1 = .ok w) (ht : parseU32 t.1 = some n)
    (htIN : t.1 ≠ sIN) (hdIN : d.1 ≠ sIN) :
    parseRr o pd pt (d :: t :: ty :: rd) = .ok (toRr w rdat n) := by
  have h4 : parseRr4 o (d :: t :: ty :: rd) = none := by
    cases rd with
    | nil => rfl
    | cons r rs => simp [parseRr4, tryParse_noType o _ hrd]
  simp [parseRr, h4, parseRr3, hty, hd, parseU32E, ht, htIN, hdIN]

/-- 4. `<domain-name> <class> <type> <rdata>`: the TTL is inherited (a SOA needs none). -/
theorem shape_domain_class (w : MaybeWildcard)
    (hty : tryParseRtypeWithData o (ty :: rd) = some rdat) (hrd : NoType rd)
    (hd : parseDomainOrWildcard o d.1 = .ok w) (hdig : allDigits d.1 = false) :
    parseRr o pd pt (d :: tIN :: ty :: rd) = withInheritedTtl w rdat pt := by
  have h4 : parseRr4 o (d :: tIN :: ty :: rd) = none := by
    cases rd with
    | nil => rfl
    | cons r rs => simp [parseRr4, tryParse_noType o _ hrd]
  simp [parseRr, h4, parseRr3, hty, hd, tIN_fst, hdig]

/-- 5. `<domain-name> <type> <rdata>` -/
theorem shape_domain (w : MaybeWildcard)
    (hty : tryParseRtypeWithData o (ty :: rd) = some rdat) (hrd : NoType rd)
    (hd : parseDomainOrWildcard o d.1 = .ok w) (hdig : allDigits d.1 = false) (hdIN : d.1 ≠ sIN) :
    parseRr o pd pt (d :: ty :: rd) = withInheritedTtl w rdat pt := by
  have h4 : parseRr4 o (d :: ty :: rd) = none := by
    cases rd with
    | nil => rfl
    | cons r rs =>
      cases rs with
      | nil => rfl
      | cons r2 rs2 => simp [parseRr4, tryParse_noType o _ hrd.tail]
  have h3 : parseRr3 o pd pt (d :: ty :: rd) = none := by
    cases rd with
    | nil => rfl
    | cons r rs => simp [parseRr3, tryParse_noType o _ hrd]
  simp [parseRr, h4, h3, parseRr2, hty, hd, hdig, hdIN]

/-- the owner is the previous one, or `MissingDomainName`. -/
def withPreviousDomain (pd : Option MaybeWildcard) (f : MaybeWildcard → Except Error Entry) : Except Error Entry :=
  match pd with
  | some w => f w
  | none => .error .missingDomainName

/-- 6. `<ttl> <class> <type> <rdata>`: the owner is inherited. -/
theorem shape_ttl_class (n : Nat)
    (hty : tryParseRtypeWithData o (ty :: rd) = some rdat) (hrd : NoType rd)
    (hdig : allDigits t.1 = true) (ht : parseU32 t.1 = some n) :
    parseRr o pd pt (t :: tIN :: ty :: rd) = withPreviousDomain pd (fun w => .ok (toRr w rdat n)) := by
  have h4 : parseRr4 o (t :: tIN :: ty :: rd) = none := by
    cases rd with
    | nil => rfl
    | cons r rs => simp [parseRr4, tryParse_noType o _ hrd]
  cases pd <;> simp [parseRr, h4, parseRr3, hty, tIN_fst, hdig, parseU32E, ht, withPreviousDomain]

/-- 7. `<class> <ttl> <type> <rdata>` -/
theorem shape_class_ttl (n : Nat)
    (hty : tryParseRtypeWithData o (ty :: rd) = some rdat) (hrd : NoType rd)
    (ht : parseU32 t.1 = some n) (htIN : t.1 ≠ sIN) :
    parseRr o pd pt (tIN :: t :: ty :: rd) = withPreviousDomain pd (fun w => .ok (toRr w rdat n)) := by
  have h4 : parseRr4 o (tIN :: t :: ty :: rd) = none := by
    cases rd with
    | nil => rfl
    | cons r rs => simp [parseRr4, tryParse_noType o _ hrd]
  cases pd <;> simp [parseRr, h4, parseRr3, hty, tIN_fst, parseU32E, ht, htIN, withPreviousDomain]

/-- 8. `<ttl> <type> <rdata>` -/
theorem shape_ttl (n : Nat)
    (hty : tryParseRtypeWithData o (ty :: rd) = some rdat) (hrd : NoType rd)
    (hdig : allDigits t.1 = true) (ht : parseU32 t.1 = some n) (htIN : t.1 ≠ sIN) :
    parseRr o pd pt (t :: ty :: rd) = withPreviousDomain pd (fun w => .ok (toRr w rdat n)) := by
  have h4 : parseRr4 o (t :: ty :: rd) = none := by
    cases rd with
    | nil => rfl
    | cons r rs =>
      cases rs with
      | nil => rfl
      | cons r2 rs2 => simp [parseRr4, tryParse_noType o _ hrd.tail]
  have h3 : parseRr3 o pd pt (t :: ty :: rd) = none := by
    cases rd with
    | nil => rfl
    | cons r rs => simp [parseRr3, tryParse_noType o _ hrd]
  cases pd <;> simp [parseRr, h4, h3, parseRr2, hty, hdig, parseU32E, ht, htIN, withPreviousDomain]

/-- 9. `<class> <type> <rdata>` -/
theorem shape_class
    (hty : tryParseRtypeWithData o (ty :: rd) = some rdat) (hrd : NoType rd) :
    parseRr o pd pt (tIN :: ty :: rd) = withPreviousDomain pd (fun w => withInheritedTtl w rdat pt) := by
  have h4 : parseRr4 o (tIN :: ty :: rd) = none := by
    cases rd with
    | nil => rfl
    | cons r rs =>
      cases rs with
      | nil => rfl
      | cons r2 rs2 => simp [parseRr4, tryParse_noType o _ hrd.tail]
  have h3 : parseRr3 o pd pt (tIN :: ty :: rd) = none := by
    cases rd with
    | nil => rfl
    | cons r rs => simp [parseRr3, tryParse_noType o _ hrd]
  cases pd <;> simp [parseRr, h4, h3, parseRr2, hty, tIN_fst, withPreviousDomain]

/-- 10. `<type> <rdata>`: owner, TTL and class are all inherited. -/
theorem shape_bare
    (hty : tryParseRtypeWithData o (ty :: rd) = some rdat) (hrd : NoType rd) :
    parseRr o pd pt (ty :: rd) = withPreviousDomain pd (fun w => withInheritedTtl w rdat pt) := by
  have h4 : parseRr4 o (ty :: rd) = none := by
    cases rd with
    | nil => rfl
    | cons r rs =>
      cases rs with
      | nil => rfl
      | cons r2 rs2 =>
        cases rs2 with
        | nil => rfl
        | cons r3 rs3 => simp [parseRr4, tryParse_noType o _ hrd.tail.tail]
  have h3 : parseRr3 o pd pt (ty :: rd) = none := by
    cases rd with
    | nil => rfl
    | cons r rs =>
      cases rs with
      | nil => rfl
      | cons r2 rs2 => simp [parseRr3, tryParse_noType o _ hrd.tail]
  have h2 : parseRr2 o pd pt (ty :: rd) = none := by
    cases rd with
    | nil => rfl
    | cons r rs => simp [parseRr2, tryParse_noType o _ hrd]
  cases pd <;> simp [parseRr, h4, h3, h2, parseRr1, hty, withPreviousDomain]

end shapes

end Resolved.ZoneText
