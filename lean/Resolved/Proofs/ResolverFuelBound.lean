/-
  Fuel sufficiency of the recursive machine under explicit size bounds (C08).

  The fuel of `resolveRec` / `candidateLoop` / `resolveCombined` / `tryTypes` is a NESTING-DEPTH
  budget: every call passes `fuel` to its callees from `fuel + 1`.  The depth is bounded because
  * nested `resolveRec` calls see a strictly longer question stack and `resolveRec` refuses at
    `RECURSION_LIMIT` (so at most `RECURSION_LIMIT` levels do any work), and
  * at one level the candidate loop makes at most `(labels − mc)·(2H+2) + width` iterations
    (the C07 measure), every iteration nesting at most `|rtypes| + 1 ≤ 3` frames of `tryTypes`
    before the next level starts.
  With at most `H` name-server hosts per delegation (local or referred) and at most `L` labels per
  question name, one level costs at most `fb_PER H L = (L+1)(2H+2) + 3` units, and
  `fb_fuelBound H L = RECURSION_LIMIT · fb_PER H L + 1` units always suffice (`fb_okRec`).

  The hypotheses (`fb_Hyp`) are: the host order returns at most `H` hosts, all taken from the
  referral; NS / CNAME targets in the oracle's replies have at most `L` labels; and every local
  lookup (zones + cache) on a state the machine can reach hands back at most `H` name-server hosts
  and only targets of at most `L` labels (`fb_LocalBounded`).  The last one is discharged from a
  syntactic invariant on zones, cache and oracle in the second half of the file.
-/
import Resolved.Proofs.ResolverMachineFuel
import Resolved.Proofs.ResolverMachineInv
import Resolved.Proofs.ResolverLocalTyped
import Resolved.Proofs.CacheStore
import Resolved.Proofs.ResolverMachineExample

namespace Resolved

open Gen

set_option autoImplicit false

/-! ## The bound -/

/-- fuel one level of the question stack can use up. -/
def fb_PER (H L : Nat) : Nat := (L + 1) * (2 * H + 2) + 3

/-- fuel that suffices for a whole resolution started with an empty question stack. -/
def fb_fuelBound (H L : Nat) : Nat := RECURSION_LIMIT * fb_PER H L + 1

/-! ## The hypotheses -/

/-- NS and CNAME targets in the answer and authority sections of every reply have ≤ `L` labels. -/
def fb_OracleNames (oracle : Oracle) (L : Nat) : Prop :=
  ∀ ex m, (oracle ex).reply = some m → ∀ rr ∈ m.answers ++ m.authority, ∀ t,
    (nsTarget rr = some t ∨ cnameTarget rr = some t) → t.labels.length ≤ L

/-- what the bound needs of the result of ONE local lookup for question `q`: an alias target of at
    most `L` labels; a delegation with at most `H` hosts of at most `L` labels each; for an NS
    question (the lookups of `candidate_nameservers`) at most `H` NS targets of ≤ `L` labels. -/
def fb_LocalBounded (H L : Nat) (q : Question) : Except ResolutionError LocalResult → Prop
  | .ok (.cname _ cq) => cq.name.labels.length ≤ L
  | .ok (.delegation _ _ d) => d.hostnames.length ≤ H ∧ ∀ h ∈ d.hostnames, h.labels.length ≤ L
  | .ok (.done resolved) =>
    q.qtype = RT_NS → (resolved.rrs.filterMap nsTarget).length ≤ H ∧
      ∀ h ∈ resolved.rrs.filterMap nsTarget, h.labels.length ≤ L
  | _ => True

/-- `hs` is the host set of a referral that some reply of the oracle validates to. -/
def fb_Referral (oracle : Oracle) (hs : List Name) : Prop :=
  ∃ ex m q mc rrs zone, (oracle ex).reply = some m ∧
    validateNameserverResponse q m mc = some (.delegation rrs hs zone)

/-- the hypotheses of the fuel bound, relative to the state `st0` the resolution starts from. -/
structure fb_Hyp (cfg : RecCfg) (H L : Nat) (st0 : St) : Prop where
  /-- at most `H` hosts are tried per referral (only needed of host sets of actual referrals) -/
  hostLen : ∀ hs, fb_Referral cfg.oracle hs → (cfg.hostOrder hs).length ≤ H
  /-- the host order only returns hosts of the referral -/
  hostSub : ∀ hs h, h ∈ cfg.hostOrder hs → h ∈ hs
  /-- names in upstream replies have at most `L` labels -/
  oracle : fb_OracleNames cfg.oracle L
  /-- local lookups on reachable states are bounded -/
  loc : ∀ st, Reach cfg.net st0 st → ∀ q,
    fb_LocalBounded H L q (resolveLocal (RECURSION_LIMIT + 1) st.ctx q).2

/-! ## Small facts -/

theorem fb_lookupStep_good (cfg : RecCfg) (fuel : Nat) (st : St) (locally : Bool) (host : Name) (t : Nat) :
    Good cfg.net st (lookupStep cfg fuel st locally host t).1 := by
  unfold lookupStep
  split
  · exact Good.loc cfg.net st _ _
  · exact (machine_good cfg fuel).1 st _

theorem fb_initialCandidates_good (cfg : RecCfg) (st2 : St) (q : Question)
    (other : Except ResolutionError LocalResult) :
    Good cfg.net st2 (initialCandidates st2 q other).1 := by
  unfold initialCandidates
  split
  · exact Good.refl _ _
  · exact candidateNameservers_good cfg.net _ _

/-! ### Where the target of an alias step comes from

  Proved directly from the model text of `followLoop` / `followCnames` /
  `validateNameserverResponse` (not through the C06 lemmas about `followCnames`), and written so
  that it does not depend on how `followCnames` builds its CNAME map beyond "every value of the map
  is the target of a CNAME record of the section". -/

theorem fb_nmGet_nmInsert {m : NameMap} {k v k' w : Name} (h : nmGet (nmInsert m k v) k' = some w) :
    w = v ∨ nmGet m k' = some w := by
  induction m with
  | nil =>
    simp only [nmInsert, nmGet] at h
    split at h
    · cases h; exact Or.inl rfl
    · cases h
  | cons x rest ih =>
    obtain ⟨a, b⟩ := x
    simp only [nmInsert] at h
    split at h
    · simp only [nmGet] at h ⊢
      split at h
      · cases h; exact Or.inl rfl
      · rename_i hak hkk
        subst hak
        rw [if_neg hkk]
        exact Or.inr h
    · rename_i hak
      simp only [nmGet] at h ⊢
      by_cases hkk : a = k'
      · rw [if_pos hkk] at h ⊢; exact Or.inr h
      · rw [if_neg hkk] at h ⊢; exact ih h

/-- every value of the map is the target of a CNAME record of `rrs`. -/
def fb_MapFrom (rrs : List RR) (m : NameMap) : Prop :=
  ∀ k v, nmGet m k = some v → ∃ rr ∈ rrs, cnameTarget rr = some v

theorem fb_mapFrom_nil (rrs : List RR) : fb_MapFrom rrs [] := by
  intro k v h; simp [nmGet] at h

theorem fb_mapFrom_foldl (rrs : List RR) : ∀ (l : List RR) (m : NameMap), (∀ rr ∈ l, rr ∈ rrs) →
    fb_MapFrom rrs m →
    fb_MapFrom rrs (l.foldl (fun m rr =>
      match cnameTarget rr with
      | some t => nmInsert m rr.name t
      | none => m) m) := by
  intro l
  induction l with
  | nil => intro m _ hm; exact hm
  | cons r rest ih =>
    intro m hl hm
    simp only [List.foldl_cons]
    refine ih _ (fun rr hrr => hl rr (List.mem_cons_of_mem _ hrr)) ?_
    cases hc : cnameTarget r with
    | none => exact hm
    | some t =>
      intro k v hg
      rcases fb_nmGet_nmInsert hg with h | h
      · subst h; exact ⟨r, hl r List.mem_cons_self, hc⟩
      · exact hm k v h

theorem fb_mapFrom_ite (rrs : List RR) (c : Prop) [Decidable c] {m : NameMap} (hm : fb_MapFrom rrs m) :
    fb_MapFrom rrs (if c then ([] : NameMap) else m) := by
  split
  · exact fb_mapFrom_nil rrs
  · exact hm

/-- the name the CNAME-following loop ends at is the one it started from or a value of the map. -/
theorem fb_followLoop_fin (cm : NameMap) : ∀ (fuel : Nat) (cur : Name) (seen : List Name) (fol : NameMap)
    (fin : Name) (seen' : List Name) (fol' : NameMap),
    followLoop cm fuel cur seen fol = some (fin, seen', fol') → fin = cur ∨ ∃ k, nmGet cm k = some fin := by
  intro fuel
  induction fuel with
  | zero => intro cur seen fol fin seen' fol' h; simp [followLoop] at h
  | succ n ih =>
    intro cur seen fol fin seen' fol' h
    rw [followLoop] at h
    split at h
    · simp only [Option.some.injEq, Prod.mk.injEq] at h
      exact Or.inl h.1.symm
    · rename_i t ht
      split at h
      · cases h
      · rcases ih _ _ _ _ _ _ h with h1 | h1
        · subst h1; exact Or.inr ⟨cur, ht⟩
        · exact Or.inr h1

/-- the final name of `follow_cnames` is the start or the target of a CNAME record. -/
theorem fb_followCnames_fin {rrs : List RR} {target : Name} {qtype : Nat} {fin : Name} {fol : NameMap}
    (h : followCnames rrs target qtype = some (fin, fol)) :
    fin = target ∨ ∃ rr ∈ rrs, cnameTarget rr = some fin := by
  unfold followCnames at h
  simp only [] at h
  split at h
  · cases h
  · rename_i f s fo heq
    split at h
    · simp only [Option.some.injEq, Prod.mk.injEq] at h
      obtain ⟨hf, _⟩ := h
      subst hf
      rcases fb_followLoop_fin _ _ _ _ _ _ _ _ heq with h1 | ⟨k, hk⟩
      · exact Or.inl h1
      · refine Or.inr ((?_ : fb_MapFrom rrs _) k f hk)
        first
          | exact fb_mapFrom_foldl rrs rrs [] (fun _ h => h) (fb_mapFrom_nil rrs)
          | exact fb_mapFrom_ite rrs _ (fb_mapFrom_foldl rrs rrs [] (fun _ h => h) (fb_mapFrom_nil rrs))
    · cases h

/-- an alias step of the reply filter hands on the final name of `follow_cnames`. -/
theorem fb_validate_cname_fin {q : Question} {m : Message} {mc : Nat} {rrs : List RR} {c : Name}
    (h : validateNameserverResponse q m mc = some (.cname rrs c)) :
    ∃ fol, followCnames m.answers q.name q.qtype = some (c, fol) := by
  unfold validateNameserverResponse at h
  split at h
  · rename_i fin cm hf
    simp only [] at h
    split at h
    · cases h
    · split at h
      · cases h
      · split at h
        · cases h
        · simp only [Option.some.injEq, NameserverResponse.cname.injEq] at h
          obtain ⟨_, h2⟩ := h
          subst h2
          exact ⟨cm, hf⟩
  · simp only [] at h
    split at h
    · cases hs : getNxdomainNodataSoa q m mc with
      | none => rw [hs] at h; cases h
      | some soa => rw [hs] at h; cases h
    · cases h

/-- what a validated reply carries, under the bound on the oracle's names. -/
theorem fb_validate_names {L : Nat} {q : Question} {m : Message} {mc : Nat}
    (hm : ∀ rr ∈ m.answers ++ m.authority, ∀ t,
      (nsTarget rr = some t ∨ cnameTarget rr = some t) → t.labels.length ≤ L)
    (hq : q.name.labels.length ≤ L) :
    (∀ rrs hs zone, validateNameserverResponse q m mc = some (.delegation rrs hs zone) →
      mc < zone.labels.length ∧ zone.labels.length ≤ q.name.labels.length ∧ ∀ h ∈ hs, h.labels.length ≤ L) ∧
    (∀ rrs c, validateNameserverResponse q m mc = some (.cname rrs c) → c.labels.length ≤ L) := by
  constructor
  · intro rrs hs zone h
    obtain ⟨h1, h2, _⟩ := C06_delegation_closer q m mc rrs hs zone h
    refine ⟨h1, (List.isSuffixOf_iff_suffix.mp h2).length_le, ?_⟩
    intro n hn
    obtain ⟨rr, hrr, ht, _⟩ := ((C06_delegation_zone q m mc rrs hs zone h).2.2 n).mp hn
    exact hm rr hrr n (Or.inl ht)
  · intro rrs c h
    obtain ⟨fol, hf⟩ := fb_validate_cname_fin h
    rcases fb_followCnames_fin hf with hc | ⟨rr, hrr, ht⟩
    · rw [hc]; exact hq
    · exact hm rr (List.mem_append_left _ hrr) c (Or.inr ht)

/-- the same for the filtered reply of `queryNameserver`. -/
theorem fb_reply_names {oracle : Oracle} {L : Nat} (ho : fb_OracleNames oracle L) {run : Run} {addr : FieldVal}
    {port : Nat} {q : Question} {rd : Bool} {mc : Nat} {resp : NameserverResponse}
    (hq : q.name.labels.length ≤ L)
    (h : (queryNameserver oracle run addr port q rd).2.bind (fun res => validateNameserverResponse q res mc)
      = some resp) :
    (∀ rrs hs zone, resp = .delegation rrs hs zone →
      mc < zone.labels.length ∧ zone.labels.length ≤ q.name.labels.length ∧
      (∀ h ∈ hs, h.labels.length ≤ L) ∧ fb_Referral oracle hs) ∧
    (∀ rrs c, resp = .cname rrs c → c.labels.length ≤ L) := by
  cases hm : (queryNameserver oracle run addr port q rd).2 with
  | none => rw [hm] at h; cases h
  | some m =>
    rw [hm] at h
    simp only [Option.bind_some] at h
    obtain ⟨⟨ex, _, hex⟩, _⟩ := queryNameserver_reply hm
    obtain ⟨h1, h2⟩ := fb_validate_names (mc := mc) (ho ex m hex) hq
    refine ⟨fun rrs hs zone e => ?_, fun rrs c e => h2 rrs c (e ▸ h)⟩
    obtain ⟨a, b, c⟩ := h1 rrs hs zone (e ▸ h)
    exact ⟨a, b, c, ex, m, q, mc, rrs, zone, hex, e ▸ h⟩

/-! ## The induction -/

section

variable {cfg : RecCfg} {H L : Nat} {st0 : St}

/-- `candidate_nameservers` only hands back bounded host sets. -/
theorem fb_candidateNameservers (hyp : fb_Hyp cfg H L st0) : ∀ (labels : List Label) (st : St),
    Reach cfg.net st0 st → ∀ ns, (candidateNameservers st labels).2 = some ns →
      ns.hostnames.length ≤ H ∧ ∀ h ∈ ns.hostnames, h.labels.length ≤ L := by
  intro labels
  induction labels with
  | nil => intro st _ ns h; rw [candidateNameservers] at h; cases h
  | cons l ls ih =>
    intro st hr ns h
    rw [candidateNameservers] at h
    split at h
    · exact ih st hr ns h
    · rename_i name hname
      have hb := hyp.loc st hr { name := name, qtype := RT_NS, qclass := CLASS_IN }
      have hr1 : Reach cfg.net st0
          ⟨(resolveLocal (RECURSION_LIMIT + 1) st.ctx { name := name, qtype := RT_NS, qclass := CLASS_IN }).1, st.run⟩ :=
        hr.trans (Reach.loc st _ _)
      simp only [] at h
      generalize resolveLocal (RECURSION_LIMIT + 1) st.ctx { name := name, qtype := RT_NS, qclass := CLASS_IN } = p
        at hb hr1 h
      obtain ⟨ctx1, r⟩ := p
      simp only at hb hr1 h
      cases r with
      | error e =>
        simp only [List.isEmpty_nil, Bool.not_true, Bool.false_eq_true, if_false] at h
        exact ih _ hr1 ns h
      | ok lr =>
        cases lr with
        | done resolved =>
          simp only at h
          split at h
          · simp only [Option.some.injEq] at h
            subst h
            exact hb rfl
          · exact ih _ hr1 ns h
        | partialAnswer rrs =>
          simp only [List.isEmpty_nil, Bool.not_true, Bool.false_eq_true, if_false] at h
          exact ih _ hr1 ns h
        | delegation rrs soa d =>
          simp only [List.isEmpty_nil, Bool.not_true, Bool.false_eq_true, if_false] at h
          exact ih _ hr1 ns h
        | cname rrs cq =>
          simp only [List.isEmpty_nil, Bool.not_true, Bool.false_eq_true, if_false] at h
          exact ih _ hr1 ns h

/-- "enough fuel for `ℓ` more levels of the question stack makes `okRec` true". -/
def fb_RecOK (cfg : RecCfg) (H L : Nat) (st0 : St) (ℓ : Nat) : Prop :=
  ∀ st q n, Reach cfg.net st0 st → st.ctx.stack.length + ℓ = RECURSION_LIMIT → q.name.labels.length ≤ L →
    ℓ * fb_PER H L + 1 ≤ n → okRec cfg n st q = true

/-- `tryTypes`: one frame per record type, plus one for the exhausted list, on top of a level. -/
theorem fb_try (ℓ : Nat) (ih : fb_RecOK cfg H L st0 ℓ) : ∀ (types : List Nat) (n : Nat) (st : St)
    (locally : Bool) (host : Name),
    Reach cfg.net st0 st → st.ctx.stack.length + ℓ = RECURSION_LIMIT → host.labels.length ≤ L →
    ℓ * fb_PER H L + 1 + types.length ≤ n → okTry cfg n st locally host types = true := by
  intro types
  induction types with
  | nil =>
    intro n st locally host _ _ _ hn
    obtain ⟨k, rfl⟩ : ∃ k, n = k + 1 := ⟨n - 1, by omega⟩
    rw [okTry]
  | cons t more ihT =>
    intro n st locally host hr hs hl hn
    simp only [List.length_cons] at hn
    obtain ⟨k, rfl⟩ : ∃ k, n = k + 1 := ⟨n - 1, by omega⟩
    rw [okTry]
    by_cases ht : st.run.timedOut = true
    · simp only [if_pos ht]
    simp only [if_neg ht, Bool.and_eq_true, Bool.or_eq_true]
    refine ⟨Or.inr (ih st _ k hr hs hl (by omega)), ?_⟩
    cases hstep : (lookupStep cfg k st locally host t).2 with
    | some a => rfl
    | none =>
      have hg := fb_lookupStep_good cfg k st locally host t
      exact ihT k _ locally host (hr.trans hg.1) (by rw [hg.2]; exact hs) hl (by omega)

/-- iterations the candidate loop can still make with its current delegation. -/
def fb_width (locally : Bool) (cands next : List Name) : Nat :=
  if locally then 2 * cands.length + next.length + 1 else cands.length

/-- the C07 measure on the raw loop variables. -/
def fb_meas (H labels mc : Nat) (locally : Bool) (cands next : List Name) : Nat :=
  (labels - mc) * (2 * H + 2) + fb_width locally cands next

theorem fb_rtypes_len (mode : ProtocolMode) : (rtypesFor mode).length ≤ 2 := by
  cases mode <;> simp [rtypesFor]

/-- the candidate loop at one level: with fuel above its measure plus what the deeper levels
    need, no call in its tree runs out of fuel. -/
theorem fb_loop (hyp : fb_Hyp cfg H L st0) (ℓ : Nat) (ih : fb_RecOK cfg H L st0 ℓ) :
    ∀ (M n : Nat) (st : St) (q : Question) (combined : List RR) (mc : Nat) (cands next : List Name)
      (locally : Bool),
    Reach cfg.net st0 st → st.ctx.stack.length + ℓ = RECURSION_LIMIT → q.name.labels.length ≤ L →
    (∀ c ∈ cands, c.labels.length ≤ L) → (∀ c ∈ next, c.labels.length ≤ L) →
    fb_meas H q.name.labels.length mc locally cands next < M → M + ℓ * fb_PER H L + 3 ≤ n →
    okLoop cfg n st q combined mc cands next locally = true := by
  intro M
  induction M with
  | zero => intro n st q combined mc cands next locally _ _ _ _ _ hm; omega
  | succ M ihM =>
    intro n st q combined mc cands next locally hr hs hq hcands hnext hmeas hn
    obtain ⟨m, rfl⟩ : ∃ m, n = m + 1 := ⟨n - 1, by omega⟩
    rw [okLoop]
    by_cases ht : st.run.timedOut = true
    · simp only [if_pos ht]
    simp only [if_neg ht]
    cases hc : cands.getLast? with
    | none => rfl
    | some candidate =>
      have hcmem : candidate ∈ cands := List.mem_of_getLast? hc
      have hclen : cands.length ≠ 0 := by
        intro h0; rw [List.length_eq_zero_iff] at h0; rw [h0] at hcmem; cases hcmem
      simp only [Bool.and_eq_true]
      refine ⟨fb_try ℓ ih _ m st locally candidate hr hs (hcands _ hcmem)
        (by have := fb_rtypes_len cfg.mode; omega), ?_⟩
      have hgood := (machine_good cfg m).2.2.2 st locally candidate (rtypesFor cfg.mode)
      have hfam := fun addr => tryTypes_family cfg m st locally candidate addr
      generalize tryTypes cfg m st locally candidate (rtypesFor cfg.mode) = p at hgood hfam ⊢
      obtain ⟨st1, ip⟩ := p
      simp only at hgood hfam ⊢
      have hr1 : Reach cfg.net st0 st1 := hr.trans hgood.1
      have hs1 : st1.ctx.stack.length + ℓ = RECURSION_LIMIT := by rw [hgood.2]; exact hs
      by_cases ht1 : st1.run.timedOut = true
      · simp only [if_pos ht1]
      simp only [if_neg ht1]
      cases ip with
      | none =>
        simp only
        have hnext' : ∀ c ∈ next ++ [candidate], c.labels.length ≤ L := by
          intro c hcm
          rcases List.mem_append.mp hcm with h | h
          · exact hnext c h
          · simp only [List.mem_singleton] at h; subst h; exact hcands _ hcmem
        have hdrop : ∀ c ∈ cands.dropLast, c.labels.length ≤ L :=
          fun c hcm => hcands c (List.dropLast_subset _ hcm)
        cases locally with
        | true =>
          simp only [if_true]
          by_cases he : cands.dropLast.isEmpty = true
          · simp only [if_pos he]
            refine ihM m st1 q combined mc _ _ false hr1 hs1 hq hnext' (by simp) ?_ (by omega)
            simp only [fb_meas, fb_width, if_true, Bool.false_eq_true, if_false, List.length_append,
              List.length_singleton] at hmeas ⊢
            omega
          · simp only [if_neg he]
            refine ihM m st1 q combined mc _ _ true hr1 hs1 hq hdrop hnext' ?_ (by omega)
            simp only [fb_meas, fb_width, if_true, List.length_append, List.length_singleton,
              List.length_dropLast] at hmeas ⊢
            omega
        | false =>
          simp only [Bool.false_eq_true, if_false]
          refine ihM m st1 q combined mc _ _ false hr1 hs1 hq hdrop hnext ?_ (by omega)
          simp only [fb_meas, fb_width, Bool.false_eq_true, if_false, List.length_dropLast] at hmeas ⊢
          omega
      | some addr =>
        simp only
        have hq1 := Reach.query (n := cfg.net) st1 addr q (hfam addr rfl) (eq_false_of_ne_true ht1)
        by_cases ht2 : (queryNameserver cfg.oracle st1.run addr cfg.port q false).1.timedOut = true
        · simp only [if_pos ht2]
        simp only [if_neg ht2]
        cases hresp : (queryNameserver cfg.oracle st1.run addr cfg.port q false).2.bind
            (fun res => validateNameserverResponse q res mc) with
        | none => rfl
        | some resp =>
          have hsrc := query_validated_fromLog hresp
          obtain ⟨hdel, hcn⟩ := fb_reply_names hyp.oracle hq hresp
          cases resp with
          | answer rrs soa => rfl
          | cname rrs c =>
            simp only
            have hr3 : Reach cfg.net st0
                ⟨st1.ctx.cacheInsertAll rrs, (queryNameserver cfg.oracle st1.run addr cfg.port q false).1⟩ :=
              hr1.trans (hq1.trans (Reach.cache ⟨st1.ctx, _⟩ rrs hsrc))
            obtain ⟨k, rfl⟩ : ∃ k, m = k + 1 := ⟨m - 1, by omega⟩
            rw [okComb]
            exact ih _ _ k hr3 hs1 (hcn rrs c rfl) (by omega)
          | delegation rrs hs' zone =>
            simp only
            cases hg : glueFor q rrs with
            | some rr => rfl
            | none =>
              simp only
              have hr3 : Reach cfg.net st0
                  ⟨st1.ctx.cacheInsertAll rrs, (queryNameserver cfg.oracle st1.run addr cfg.port q false).1⟩ :=
                hr1.trans (hq1.trans (Reach.cache ⟨st1.ctx, _⟩ rrs hsrc))
              obtain ⟨hz1, hz2, hz3, hz4⟩ := hdel rrs hs' zone rfl
              refine ihM m _ q combined _ _ _ true hr3 hs1 hq
                (fun c hcm => hz3 c (hyp.hostSub _ _ hcm)) (by simp) ?_ (by omega)
              have hh := hyp.hostLen hs' hz4
              have hsplit : q.name.labels.length - mc =
                  (q.name.labels.length - zone.labels.length) + (zone.labels.length - mc) := by omega
              have h4 : (zone.labels.length - mc) * (2 * H + 2) ≥ 2 * H + 2 :=
                Nat.le_mul_of_pos_left _ (by omega)
              simp only [fb_meas, fb_width, if_true, List.length_nil] at hmeas ⊢
              rw [hsplit, Nat.add_mul] at hmeas
              have hw : 0 ≤ (if locally = true then 2 * cands.length + next.length + 1 else cands.length) :=
                Nat.zero_le _
              omega

/-- all the levels: induction on the number of levels the question stack has left. -/
theorem fb_levels (hyp : fb_Hyp cfg H L st0) : ∀ ℓ, fb_RecOK cfg H L st0 ℓ := by
  intro ℓ
  induction ℓ with
  | zero =>
    intro st q n _ hs _ hn
    obtain ⟨m, rfl⟩ : ∃ m, n = m + 1 := ⟨n - 1, by omega⟩
    rw [okRec]
    by_cases ht : st.run.timedOut = true
    · simp only [if_pos ht]
    have hl : st.ctx.atRecursionLimit = true := by
      simp only [Ctx.atRecursionLimit, beq_iff_eq]; omega
    simp only [if_neg ht, if_pos hl]
  | succ ℓ ih =>
    intro st q n hr hs hq hn
    obtain ⟨m, rfl⟩ : ∃ m, n = m + 1 := ⟨n - 1, by omega⟩
    have hper : fb_PER H L = (L + 1) * (2 * H + 2) + 3 := rfl
    have hmul : (ℓ + 1) * fb_PER H L = ℓ * fb_PER H L + fb_PER H L := Nat.succ_mul _ _
    rw [okRec]
    by_cases ht : st.run.timedOut = true
    · simp only [if_pos ht]
    by_cases hl : st.ctx.atRecursionLimit = true
    · simp only [if_neg ht, if_pos hl]
    by_cases hd : st.ctx.isDuplicate q = true
    · simp only [if_neg ht, if_neg hl, if_pos hd]
    simp only [if_neg ht, if_neg hl, if_neg hd]
    have ht' : st.run.timedOut = false := eq_false_of_ne_true ht
    have hl' : (⟨(resolveLocal (RECURSION_LIMIT + 1) st.ctx q).1, st.run⟩ : St).ctx.atRecursionLimit = false := by
      simp only [Ctx.atRecursionLimit, resolveLocal_stack]
      exact eq_false_of_ne_true hl
    have hd' : (⟨(resolveLocal (RECURSION_LIMIT + 1) st.ctx q).1, st.run⟩ : St).ctx.isDuplicate q = false := by
      simp only [Ctx.isDuplicate, resolveLocal_stack]
      exact eq_false_of_ne_true hd
    have hr2 : Reach cfg.net st0 ⟨(resolveLocal (RECURSION_LIMIT + 1) st.ctx q).1.push q, st.run⟩ :=
      hr.trans ((Reach.loc st _ q).trans (Reach.push ⟨_, st.run⟩ q ht' hl' hd'))
    have hs2 : (⟨(resolveLocal (RECURSION_LIMIT + 1) st.ctx q).1.push q, st.run⟩ : St).ctx.stack.length + ℓ
        = RECURSION_LIMIT := by
      simp only [Ctx.push, List.length_append, List.length_singleton, resolveLocal_stack]
      omega
    have hb := hyp.loc st hr q
    generalize (resolveLocal (RECURSION_LIMIT + 1) st.ctx q).2 = loc at hb ⊢
    generalize (resolveLocal (RECURSION_LIMIT + 1) st.ctx q).1 = ctx1 at hr2 hs2 ⊢
    -- the upstream part (no local answer, no local alias)
    have hup : ∀ other : Except ResolutionError LocalResult,
        (∀ rrs soa d, other = .ok (.delegation rrs soa d) →
          d.hostnames.length ≤ H ∧ ∀ h ∈ d.hostnames, h.labels.length ≤ L) →
        (match (initialCandidates ⟨ctx1.push q, st.run⟩ q other).2 with
          | none => true
          | some c => okLoop cfg m (initialCandidates ⟨ctx1.push q, st.run⟩ q other).1 q (initialCombined other)
              c.matchCount c.hostnames [] true) = true := by
      intro other hdel
      have hg := fb_initialCandidates_good cfg ⟨ctx1.push q, st.run⟩ q other
      have hbound : ∀ c, (initialCandidates ⟨ctx1.push q, st.run⟩ q other).2 = some c →
          c.hostnames.length ≤ H ∧ ∀ h ∈ c.hostnames, h.labels.length ≤ L := by
        intro c hc
        unfold initialCandidates at hc
        split at hc
        · rename_i rrs soa d
          simp only [Option.some.injEq] at hc
          subst hc
          exact hdel rrs soa d rfl
        · exact fb_candidateNameservers hyp _ _ hr2 c hc
      cases hc : (initialCandidates ⟨ctx1.push q, st.run⟩ q other).2 with
      | none => rfl
      | some c =>
        simp only
        obtain ⟨hb1, hb2⟩ := hbound c hc
        refine fb_loop hyp ℓ ih ((L + 1) * (2 * H + 2)) m _ q _ _ _ _ true (hr2.trans hg.1)
          (by rw [hg.2]; exact hs2) hq hb2 (by simp) ?_ (by omega)
        simp only [fb_meas, fb_width, if_true, List.length_nil]
        have h1 : (q.name.labels.length - c.matchCount) * (2 * H + 2) ≤ L * (2 * H + 2) :=
          Nat.mul_le_mul_right _ (by omega)
        have h2 : (L + 1) * (2 * H + 2) = L * (2 * H + 2) + (2 * H + 2) := Nat.succ_mul _ _
        omega
    cases loc with
    | error e => exact hup _ (fun _ _ _ h => by cases h)
    | ok lr =>
      cases lr with
      | done r => rfl
      | cname rrs cq =>
        simp only
        obtain ⟨k, rfl⟩ : ∃ k, m = k + 1 := ⟨m - 1, by omega⟩
        rw [okComb]
        exact ih _ _ k hr2 hs2 hb (by omega)
      | partialAnswer rrs => exact hup _ (fun _ _ _ h => by cases h)
      | delegation rrs soa d =>
        refine hup (.ok (.delegation rrs soa d)) (fun rrs' soa' d' h => ?_)
        simp only [Except.ok.injEq, LocalResult.delegation.injEq] at h
        obtain ⟨_, _, h3⟩ := h
        subst h3
        exact hb

/-- Fuel sufficiency: on a state reachable from `st0` whose question stack is within the limit,
    for a question name of at most `L` labels, `fb_fuelBound H L` units of fuel (or more) make
    `okRec` true: no call of the call tree runs out of fuel. -/
theorem fb_okRec (hyp : fb_Hyp cfg H L st0) (st : St) (q : Question) (n : Nat)
    (hr : Reach cfg.net st0 st) (hs : st.ctx.stack.length ≤ RECURSION_LIMIT)
    (hq : q.name.labels.length ≤ L) (hn : fb_fuelBound H L ≤ n) : okRec cfg n st q = true := by
  refine fb_levels hyp (RECURSION_LIMIT - st.ctx.stack.length) st q n hr (by omega) hq ?_
  have : (RECURSION_LIMIT - st.ctx.stack.length) * fb_PER H L ≤ RECURSION_LIMIT * fb_PER H L :=
    Nat.mul_le_mul_right _ (Nat.sub_le _ _)
  unfold fb_fuelBound at hn
  omega

end

/-! # Part 2: the local-lookup bound from a syntactic invariant on zones, cache and oracle -/

/-! ## Names inside RDATA -/

/-- a name field has at most `L` labels. -/
def fb_fieldOK (L : Nat) : FieldVal → Bool
  | .name t => decide (t.labels.length ≤ L)
  | _ => true

/-- every name in the RDATA has at most `L` labels. -/
def fb_fieldsOK (L : Nat) (fs : List FieldVal) : Bool := fs.all (fb_fieldOK L)

theorem fb_fieldsOK_single {L : Nat} {t : Name} (h : fb_fieldsOK L [.name t] = true) : t.labels.length ≤ L := by
  simpa [fb_fieldsOK, fb_fieldOK] using h

theorem fb_nsTarget_len {L : Nat} {rr : RR} {t : Name} (hf : fb_fieldsOK L rr.fields = true)
    (h : nsTarget rr = some t) : t.labels.length ≤ L := by
  unfold nsTarget at h
  split at h
  · split at h
    · rename_i t' hfs
      cases h
      rw [hfs] at hf
      exact fb_fieldsOK_single hf
    · cases h
  · cases h

theorem fb_cnameTarget_len {L : Nat} {rr : RR} {t : Name} (hf : fb_fieldsOK L rr.fields = true)
    (h : cnameTarget rr = some t) : t.labels.length ≤ L := by
  unfold cnameTarget at h
  split at h
  · split at h
    · rename_i t' hfs
      cases h
      rw [hfs] at hf
      exact fb_fieldsOK_single hf
    · cases h
  · cases h

/-- a record whose type is not NS has no NS target. -/
theorem fb_nsTarget_none {rr : RR} (h : rr.rtype ≠ RT_NS) : nsTarget rr = none := by
  unfold nsTarget
  rw [if_neg]
  simpa using h

theorem fb_cnameTarget_rtype {rr : RR} {t : Name} (h : cnameTarget rr = some t) : rr.rtype = RT_CNAME := by
  unfold cnameTarget at h
  split at h
  · rename_i hr; simpa using hr
  · cases h

/-- all RDATA names of a record list are short. -/
def fb_rrsOK (L : Nat) (rrs : List RR) : Prop := ∀ rr ∈ rrs, fb_fieldsOK L rr.fields = true

/-- number of name-server hosts a record list yields. -/
def fb_nsCount (rrs : List RR) : Nat := (rrs.filterMap nsTarget).length

theorem fb_nsCount_le_length (rrs : List RR) : fb_nsCount rrs ≤ rrs.length :=
  List.length_filterMap_le _ _

theorem fb_nsCount_append (a b : List RR) : fb_nsCount (a ++ b) = fb_nsCount a + fb_nsCount b := by
  simp [fb_nsCount, List.filterMap_append]

theorem fb_nsCount_cons_none {rr : RR} (h : nsTarget rr = none) (rrs : List RR) :
    fb_nsCount ([rr] ++ rrs) = fb_nsCount rrs := by
  simp [fb_nsCount, h]

theorem fb_nsCount_filter (p : RR → Bool) (rrs : List RR) : fb_nsCount (rrs.filter p) ≤ fb_nsCount rrs :=
  (List.Sublist.filterMap nsTarget List.filter_sublist).length_le

theorem fb_rrsOK_append {L : Nat} {a b : List RR} (ha : fb_rrsOK L a) (hb : fb_rrsOK L b) : fb_rrsOK L (a ++ b) := by
  intro rr hrr
  rcases List.mem_append.mp hrr with h | h
  · exact ha rr h
  · exact hb rr h

theorem fb_rrsOK_single {L : Nat} {rr : RR} (h : fb_fieldsOK L rr.fields = true) : fb_rrsOK L [rr] := by
  intro r hr
  simp only [List.mem_singleton] at hr
  subst hr; exact h

theorem fb_rrsOK_nil (L : Nat) : fb_rrsOK L [] := by intro r hr; cases hr

theorem fb_mem_prioritisingMerge {a b : List RR} {r : RR} (h : r ∈ prioritisingMerge a b) : r ∈ a ∨ r ∈ b := by
  unfold prioritisingMerge at h
  rcases List.mem_append.mp h with h | h
  · exact Or.inl h
  · exact Or.inr (List.mem_filter.mp h).1

theorem fb_nsTargets_len {L : Nat} {rrs : List RR} (h : fb_rrsOK L rrs) :
    ∀ t ∈ rrs.filterMap nsTarget, t.labels.length ≤ L := by
  intro t ht
  obtain ⟨rr, hrr, hn⟩ := List.mem_filterMap.mp ht
  exact fb_nsTarget_len (h rr hrr) hn

/-! ## Zones: a checkable condition -/

/-- a record map is keyed consistently, its RDATA names have ≤ `L` labels, and its NS set has at
    most `H` records. -/
def fb_recMapOK (H L : Nat) (m : RecMap) : Bool :=
  m.all (fun kv => kv.2.all (fun zr => zr.rtype == kv.1 && fb_fieldsOK L zr.fields) &&
    (kv.1 != RT_NS || decide (kv.2.length ≤ H)))

theorem fb_recMapOK_get {H L : Nat} {m : RecMap} (h : fb_recMapOK H L m = true) {k : Nat} {zrs : List ZoneRecord}
    (hg : m.get k = some zrs) :
    (∀ zr ∈ zrs, zr.rtype = k ∧ fb_fieldsOK L zr.fields = true) ∧ (k = RT_NS → zrs.length ≤ H) := by
  have hm : (k, zrs) ∈ m := RecMap.get_mem hg
  unfold fb_recMapOK at h
  have := List.all_eq_true.mp h (k, zrs) hm
  simp only [Bool.and_eq_true, List.all_eq_true, beq_iff_eq, Bool.or_eq_true, bne_iff_ne, ne_eq,
    decide_eq_true_eq] at this
  refine ⟨fun zr hzr => this.1 zr hzr, fun hk => ?_⟩
  rcases this.2 with h1 | h1
  · exact absurd hk h1
  · exact h1

theorem fb_recMapOK_mem {H L : Nat} {m : RecMap} (h : fb_recMapOK H L m = true) {k : Nat} {zrs : List ZoneRecord}
    (hm : (k, zrs) ∈ m) : ∀ zr ∈ zrs, zr.rtype = k ∧ fb_fieldsOK L zr.fields = true := by
  unfold fb_recMapOK at h
  have := List.all_eq_true.mp h (k, zrs) hm
  simp only [Bool.and_eq_true, List.all_eq_true, beq_iff_eq] at this
  exact fun zr hzr => this.1 zr hzr

mutual
/-- `P` holds of every record map (own and wildcard) of every node of the tree. -/
def fb_nodeAll (P : RecMap → Bool) : ZNode → Bool
  | .mk _ this wild ch =>
    P this && (match wild with | some ws => P ws | none => true) && fb_childrenAll P ch
def fb_childrenAll (P : RecMap → Bool) : List (Label × ZNode) → Bool
  | [] => true
  | (_, c) :: rest => fb_nodeAll P c && fb_childrenAll P rest
end

theorem fb_childrenAll_mem (P : RecMap → Bool) : ∀ (ch : List (Label × ZNode)), fb_childrenAll P ch = true →
    ∀ kv ∈ ch, fb_nodeAll P kv.2 = true := by
  intro ch
  induction ch with
  | nil => intro _ kv h; cases h
  | cons x rest ih =>
    intro h kv hkv
    obtain ⟨l, c⟩ := x
    simp only [fb_childrenAll, Bool.and_eq_true] at h
    rcases List.mem_cons.mp hkv with rfl | hk
    · exact h.1
    · exact ih h.2 kv hk

theorem fb_childGet_mem {cs : List (Label × ZNode)} {l : Label} {c : ZNode}
    (h : ZNode.childGet cs l = some c) : (l, c) ∈ cs := by
  induction cs with
  | nil => simp [ZNode.childGet] at h
  | cons kv rest ih =>
    obtain ⟨k, v⟩ := kv
    simp only [ZNode.childGet] at h
    split at h
    · rename_i hk; cases h; subst hk; simp
    · exact List.mem_cons_of_mem _ (ih h)

theorem fb_nodeAll_descend (P : RecMap → Bool) : ∀ (p : List Label) (node n : ZNode),
    fb_nodeAll P node = true → node.descend p = some n →
    P n.this = true ∧ ∀ ws, n.wildcards = some ws → P ws = true := by
  intro p
  induction p with
  | nil =>
    intro node n h hd
    simp only [ZNode.descend_nil, Option.some.injEq] at hd
    subst hd
    cases node with
    | mk nsd this wild ch =>
      simp only [fb_nodeAll, Bool.and_eq_true] at h
      refine ⟨h.1.1, ?_⟩
      intro ws hws
      simp only [ZNode.wildcards] at hws
      subst hws
      exact h.1.2
  | cons l rest ih =>
    intro node n h hd
    rw [ZNode.descend_cons] at hd
    cases hc : ZNode.childGet node.children l with
    | none => rw [hc] at hd; cases hd
    | some c =>
      rw [hc] at hd
      simp only [Option.bind_some] at hd
      cases node with
      | mk nsd this wild ch =>
        simp only [fb_nodeAll, Bool.and_eq_true] at h
        exact ih c n (fb_childrenAll_mem P ch h.2 (l, c) (fb_childGet_mem hc)) hd

/-- (checkable by evaluation) every zone of the collection has consistently keyed record maps
    whose RDATA names have ≤ `L` labels and whose NS sets have ≤ `H` records. -/
def fb_zonesOK (H L : Nat) (zs : Zones) : Bool :=
  zs.zones.all (fun kz => fb_nodeAll (fb_recMapOK H L) kz.2.records)

theorem fb_lookup_mem {zs : List (Name × Zone)} {k : Name} {z : Zone} (h : Zones.lookup zs k = some z) :
    (k, z) ∈ zs := by
  induction zs with
  | nil => simp [Zones.lookup] at h
  | cons kv rest ih =>
    obtain ⟨k', v⟩ := kv
    simp only [Zones.lookup] at h
    split at h
    · rename_i hk; cases h; subst hk; simp
    · exact List.mem_cons_of_mem _ (ih h)

theorem fb_zonesOK_get {H L : Nat} {zs : Zones} (h : fb_zonesOK H L zs = true) {name : Name} {z : Zone}
    (hg : zs.get name = some z) : fb_nodeAll (fb_recMapOK H L) z.records = true := by
  obtain ⟨k, hl⟩ := Zones.get_mem hg
  exact List.all_eq_true.mp h (k, z) (fb_lookup_mem hl)

/-- what the bound needs of one zone verdict. -/
structure fb_ZrOK (H L : Nat) (qtype : Nat) (zr : ZoneResult) : Prop where
  answer : ∀ rrs, zr = .answer rrs → fb_rrsOK L rrs ∧ (qtype = RT_NS → rrs.length ≤ H)
  cname : ∀ c rr, zr = .cname c rr →
    c.labels.length ≤ L ∧ fb_fieldsOK L rr.fields = true ∧ rr.rtype = RT_CNAME
  delegation : ∀ rrs, zr = .delegation rrs → fb_rrsOK L rrs ∧ rrs.length ≤ H

theorem fb_ZrOK_trivial {H L qtype : Nat} {zr : ZoneResult} (h1 : ∀ rrs, zr ≠ .answer rrs)
    (h2 : ∀ c rr, zr ≠ .cname c rr) (h3 : ∀ rrs, zr ≠ .delegation rrs) : fb_ZrOK H L qtype zr :=
  ⟨fun rrs h => absurd h (h1 rrs), fun c rr h => absurd h (h2 c rr), fun rrs h => absurd h (h3 rrs)⟩

theorem fb_helper_ok {H L : Nat} {recs : RecMap} (hm : fb_recMapOK H L recs = true) (name : Name) (qtype : Nat)
    (nsd : Name) (cd : Bool) : fb_ZrOK H L qtype (zoneResultHelper name qtype recs nsd cd) := by
  refine ⟨?_, ?_, ?_⟩
  · intro rrs h
    refine ⟨?_, ?_⟩
    · intro rr hrr
      obtain ⟨k, zrs, zr, hk, hzr, he, _⟩ := C02_answer_records_are_zone_records name qtype recs nsd cd rrs h rr hrr
      rw [he]
      exact (fb_recMapOK_mem hm hk zr hzr).2
    · intro hq
      subst hq
      rw [zoneResultHelper_eq] at h
      split at h
      · cases h
      · unfold helperData at h
        rcases cnameOf_cases name RT_NS recs with hc | hc | ⟨z, zs, c, _, _, _, hc⟩ <;> rw [hc] at h <;>
          simp only [reduceCtorEq] at h
        unfold answerOf at h
        rw [lookupNat_qt] at h
        simp only [RT_NS, Nat.reduceEqDiff, if_false] at h
        split at h
        · rename_i zrs hg
          cases h
          simp only [List.length_map]
          exact (fb_recMapOK_get hm hg).2 rfl
        · cases h; simp
  · intro c rr h
    obtain ⟨z, zs, hg, hf, he, _⟩ := C02_cname_result_is_first_cname name qtype recs nsd cd c rr h
    obtain ⟨h1, h2⟩ := (fb_recMapOK_get hm hg).1 z List.mem_cons_self
    subst he
    refine ⟨?_, h2, h1⟩
    rw [hf] at h2
    exact fb_fieldsOK_single h2
  · intro rrs h
    obtain ⟨_, _, _, z, zs, hg, he⟩ := C02_delegation_result_is_ns_set name qtype recs nsd cd rrs h
    subst he
    refine ⟨?_, ?_⟩
    · intro rr hrr
      simp only [List.mem_map] at hrr
      obtain ⟨zr, hzr, rfl⟩ := hrr
      exact ((fb_recMapOK_get hm hg).1 zr hzr).2
    · simp only [List.length_map]
      exact (fb_recMapOK_get hm hg).2 rfl

theorem fb_zones_resolve_ok {H L : Nat} {zs : Zones} (hz : fb_zonesOK H L zs = true) {name : Name} {qtype : Nat}
    {z : Zone} {zr : ZoneResult} (h : zs.resolve name qtype = some (z, some zr)) : fb_ZrOK H L qtype zr := by
  obtain ⟨hg, rel, _, he⟩ := Zones.resolve_some h
  have hall := fb_zonesOK_get hz hg
  rw [he, ZNode.resolve_eq_rev]
  rcases ZNode.resolveRev_source name qtype rel.reverse z.records true with
    ⟨p, n, recs, nsd, cd, hd, hr, hres⟩ | hres | hres | ⟨z', zs', n, p, hd, hgn, hres⟩
  · rw [hres]
    obtain ⟨h1, h2⟩ := fb_nodeAll_descend _ p _ n hall hd
    rcases hr with hr | hr
    · rw [hr]; exact fb_helper_ok h1 _ _ _ _
    · exact fb_helper_ok (h2 recs hr) _ _ _ _
  · rw [hres]; exact fb_ZrOK_trivial (by simp) (by simp) (by simp)
  · rw [hres]; exact fb_ZrOK_trivial (by simp) (by simp) (by simp)
  · rw [hres]
    obtain ⟨h1, _⟩ := fb_nodeAll_descend _ p _ n hall hd
    refine ⟨fun _ h => (by cases h), fun _ _ h => (by cases h), fun rrs h => ?_⟩
    simp only [ZoneResult.delegation.injEq] at h
    subst h
    refine ⟨?_, ?_⟩
    · intro rr hrr
      simp only [List.mem_map] at hrr
      obtain ⟨zr', hzr, rfl⟩ := hrr
      exact ((fb_recMapOK_get h1 hgn).1 zr' hzr).2
    · simp only [List.length_map]
      exact (fb_recMapOK_get h1 hgn).2 rfl

/-! ## Cache: the invariant -/

/-- the cache is well-formed (`Inv`), the RDATA names of everything stored have ≤ `L` labels, and
    every NS datum stored under owner `k` belongs to the finite universe `U k`. -/
def fb_CacheOK (L : Nat) (U : Name → List CRec) (c : PCache) : Prop :=
  Inv c ∧ ∀ k rk t, t ∈ tuplesAt c k rk → fb_fieldsOK L t.1.fields = true ∧ (rk = RT_NS → t.1 ∈ U k)

/-- a record that may enter the cache: short RDATA names, NS data inside the universe. -/
def fb_rrOK (L : Nat) (U : Name → List CRec) (rr : RR) : Prop :=
  fb_fieldsOK L rr.fields = true ∧ (rr.rtype = RT_NS → (⟨rr.rtype, rr.fields⟩ : CRec) ∈ U rr.name)

theorem fb_cacheOK_new (L : Nat) (U : Name → List CRec) (d : Nat) : fb_CacheOK L U (PCache.new d) := by
  refine ⟨Inv.new d, ?_⟩
  intro k rk t ht
  simp [tuplesAt, recsAt, PCache.new] at ht

theorem fb_cacheGet_fst (c : PCache) (name : Name) (qtype now : Nat) :
    (cacheGet c name qtype now).1 = (cacheGetUnchecked c name qtype now).1 := rfl

theorem fb_cacheGet_snd (c : PCache) (name : Name) (qtype now : Nat) :
    (cacheGet c name qtype now).2 = (cacheGetUnchecked c name qtype now).2.filter (fun rr => rr.ttl > 0) := rfl

theorem fb_cacheGet_ok {H L : Nat} {U : Name → List CRec} {c : PCache} (h : fb_CacheOK L U c)
    (hU : ∀ k, (U k).length ≤ H) (name : Name) (qtype now : Nat) :
    fb_CacheOK L U (cacheGet c name qtype now).1 ∧ fb_rrsOK L (cacheGet c name qtype now).2 ∧
    (qtype = RT_NS → fb_nsCount (cacheGet c name qtype now).2 ≤ H) := by
  refine ⟨⟨h.1.cacheGet name qtype now, ?_⟩, ?_, ?_⟩
  · intro k rk t ht
    rw [fb_cacheGet_fst, (cacheGetUnchecked_touched c name qtype now).tuplesAt] at ht
    exact h.2 k rk t ht
  · intro rr hrr
    obtain ⟨hrr, _⟩ := (mem_cacheGet_iff name qtype now rr).mp hrr
    obtain ⟨rk, _, hr⟩ := (mem_cacheGetUnchecked_iff h.1 name qtype now rr).mp hrr
    rw [toRRs_eq_map] at hr
    obtain ⟨t, ht, rfl⟩ := List.mem_map.mp hr
    exact (h.2 name rk t ht).1
  · intro hq
    subst hq
    have hqn : lookupNat Gen.queryTypeFromU16 RT_NS = none := by
      rw [lookupNat_qt]; simp [RT_NS]
    rw [fb_cacheGet_snd, cacheGetUnchecked_snd_rec hqn]
    refine Nat.le_trans (fb_nsCount_filter _ _) (Nat.le_trans (fb_nsCount_le_length _) ?_)
    rw [toRRs_eq_map, List.length_map]
    have hnd := h.1.tuplesAt_nodup name RT_NS
    have hsub : ∀ v ∈ (tuplesAt c name RT_NS).map (·.1), v ∈ U name := by
      intro v hv
      obtain ⟨t, ht, rfl⟩ := List.mem_map.mp hv
      exact (h.2 name RT_NS t ht).2 rfl
    have := nodup_subset_length _ _ hnd hsub
    rw [List.length_map] at this
    exact Nat.le_trans this (hU name)

theorem fb_sharedInsert_ok {L : Nat} {U : Name → List CRec} {c : PCache} (h : fb_CacheOK L U c) (rr : RR)
    (hrr : fb_rrOK L U rr) (now : Nat) : fb_CacheOK L U (sharedInsert c rr now) := by
  unfold sharedInsert
  split
  · refine ⟨h.1.cacheInsert rr now, ?_⟩
    intro k rk t ht
    unfold cacheInsert at ht
    by_cases hk : k = rr.name ∧ rk = rr.rtype
    · obtain ⟨rfl, rfl⟩ := hk
      obtain ⟨w, e⟩ := t
      rcases (mem_tuplesAt_upsert h.1 rr.name (rr.ttl * NANOS) now w e).mp ht with ⟨hw, _⟩ | ⟨_, hold⟩
      · subst hw
        exact ⟨hrr.1, fun hns => hrr.2 hns⟩
      · exact h.2 _ _ _ hold
    · rw [tuplesAt_upsert_other h.1 rr.name (rr.ttl * NANOS) now k rk (by
        by_cases h1 : k = rr.name
        · exact Or.inr (fun h2 => hk ⟨h1, h2⟩)
        · exact Or.inl h1)] at ht
      exact h.2 k rk t ht
  · exact h

theorem fb_sharedInsertAll_ok {L : Nat} {U : Name → List CRec} (rrs : List RR) (now : Nat) :
    ∀ {c : PCache}, fb_CacheOK L U c → (∀ rr ∈ rrs, fb_rrOK L U rr) → fb_CacheOK L U (sharedInsertAll c rrs now) := by
  unfold sharedInsertAll
  induction rrs with
  | nil => intro c h _; exact h
  | cons rr rest ih =>
    intro c h hrrs
    simp only [List.foldl_cons]
    exact ih (fb_sharedInsert_ok h rr (hrrs rr List.mem_cons_self) now)
      (fun r hr => hrrs r (List.mem_cons_of_mem _ hr))

/-! ## The local resolver keeps the invariant and hands back bounded results -/

/-- the invariant of a context: bounded zones, bounded cache (the question stack is free). -/
def fb_CtxOK (H L : Nat) (U : Name → List CRec) (ctx : Ctx) : Prop :=
  fb_zonesOK H L ctx.zones = true ∧ fb_CacheOK L U ctx.cache

/-- what the induction over `resolveLocal` carries about a result for question `q`. -/
def fb_ResOK (H L : Nat) (q : Question) : Except ResolutionError LocalResult → Prop
  | .ok (.done r) => fb_rrsOK L r.rrs ∧ (q.qtype = RT_NS → fb_nsCount r.rrs ≤ H)
  | .ok (.partialAnswer rrs) => fb_rrsOK L rrs ∧ (q.qtype = RT_NS → fb_nsCount rrs ≤ H)
  | .ok (.cname _ cq) => cq.name.labels.length ≤ L
  | .ok (.delegation _ _ d) => d.hostnames.length ≤ H ∧ ∀ h ∈ d.hostnames, h.labels.length ≤ L
  | .error _ => True

theorem fb_ResOK_localBounded {H L : Nat} {q : Question} {r : Except ResolutionError LocalResult}
    (h : fb_ResOK H L q r) : fb_LocalBounded H L q r := by
  cases r with
  | error e => trivial
  | ok lr =>
    cases lr with
    | done res =>
      intro hq
      exact ⟨h.2 hq, fb_nsTargets_len h.1⟩
    | partialAnswer rrs => trivial
    | cname rrs cq => exact h
    | delegation rrs soa d => exact h

section

variable {H L : Nat} {U : Name → List CRec}

theorem fb_ctxOK_push {ctx : Ctx} (q : Question) (h : fb_CtxOK H L U ctx) : fb_CtxOK H L U (ctx.push q) := h

theorem fb_ctxOK_pop {ctx : Ctx} (h : fb_CtxOK H L U ctx) : fb_CtxOK H L U ctx.pop := h

theorem fb_ctxOK_cacheGet (hU : ∀ k, (U k).length ≤ H) {ctx : Ctx} (h : fb_CtxOK H L U ctx) (name : Name)
    (qtype : Nat) :
    fb_CtxOK H L U (ctx.cacheGet name qtype).1 ∧ fb_rrsOK L (ctx.cacheGet name qtype).2 ∧
    (qtype = RT_NS → fb_nsCount (ctx.cacheGet name qtype).2 ≤ H) := by
  obtain ⟨h1, h2, h3⟩ := fb_cacheGet_ok h.2 hU name qtype ctx.now
  have hz : (ctx.cacheGet name qtype).1.zones = ctx.zones := by unfold Ctx.cacheGet; rfl
  refine ⟨⟨by rw [hz]; exact h.1, ?_⟩, ?_, ?_⟩
  · rw [Ctx.cacheGet_fst_cache]; exact h1
  · rw [Ctx.cacheGet_snd]; exact h2
  · rw [Ctx.cacheGet_snd]; exact h3

/-- the recursive call keeps the invariant and yields bounded results. -/
def fb_RecSpec (H L : Nat) (U : Name → List CRec) (rec : Ctx → Question → LocalOut) : Prop :=
  ∀ ctx q, fb_CtxOK H L U ctx → fb_CtxOK H L U (rec ctx q).1 ∧ fb_ResOK H L q (rec ctx q).2

theorem fb_cname_not_ns {rr : RR} (h : rr.rtype = RT_CNAME) : nsTarget rr = none :=
  fb_nsTarget_none (by rw [h]; decide)

theorem fb_zoneCnameAnswer_ok {rr : RR} {cq q : Question} {sub : Except ResolutionError LocalResult}
    (hrr : fb_fieldsOK L rr.fields = true) (hrt : rr.rtype = RT_CNAME) (hcq : cq.name.labels.length ≤ L)
    (hqt : cq.qtype = q.qtype) (hsub : fb_ResOK H L cq sub) :
    fb_ResOK H L q (.ok (zoneCnameAnswer rr cq sub)) := by
  have hns := fb_cname_not_ns hrt
  have h1 := fb_rrsOK_single hrr
  cases sub with
  | error e => exact hcq
  | ok lr =>
    cases lr with
    | done r =>
      cases r with
      | authoritative rrs soa =>
        exact ⟨fb_rrsOK_append h1 hsub.1, fun hq => by
          show fb_nsCount ([rr] ++ rrs) ≤ H
          rw [fb_nsCount_cons_none hns]; exact hsub.2 (hqt.trans hq)⟩
      | authoritativeNameError soa =>
        exact ⟨h1, fun _ => by
          have := fb_nsCount_cons_none hns []
          simp only [List.append_nil] at this
          show fb_nsCount [rr] ≤ H
          rw [this]; exact Nat.zero_le _⟩
      | nonAuthoritative rrs soa =>
        exact ⟨fb_rrsOK_append h1 hsub.1, fun hq => by
          show fb_nsCount ([rr] ++ rrs) ≤ H
          rw [fb_nsCount_cons_none hns]; exact hsub.2 (hqt.trans hq)⟩
    | partialAnswer rrs =>
      exact ⟨fb_rrsOK_append h1 hsub.1, fun hq => by
        rw [fb_nsCount_cons_none hns]; exact hsub.2 (hqt.trans hq)⟩
    | cname rrs cq' => exact hsub
    | delegation rrs soa d => exact hcq

/-- what the zone part hands on: a bounded verdict, or (falling through to the cache) records with
    short names, none at all unless the question is `ANY`. -/
def fb_ZpOK (H L : Nat) (q : Question) : (Except ResolutionError LocalResult ⊕ List RR) → Prop
  | .inl r => fb_ResOK H L q r
  | .inr rz => fb_rrsOK L rz ∧ (q.qtype ≠ QTYPE_WILDCARD → rz = [])

theorem fb_ZpOK_nil (q : Question) : fb_ZpOK H L q (.inr []) := ⟨fb_rrsOK_nil L, fun _ => rfl⟩

theorem fb_zoneResultPart_ok {rec : Ctx → Question → LocalOut} (hrec : fb_RecSpec H L U rec) {ctx : Ctx}
    (hctx : fb_CtxOK H L U ctx) (q : Question) (zone : Zone) {zr : ZoneResult} (hzr : fb_ZrOK H L q.qtype zr) :
    fb_CtxOK H L U (zoneResultPart rec ctx q zone zr).1 ∧ fb_ZpOK H L q (zoneResultPart rec ctx q zone zr).2 := by
  unfold zoneResultPart
  split
  · rename_i rrs
    obtain ⟨h1, h2⟩ := hzr.answer rrs rfl
    have hcount : q.qtype = RT_NS → fb_nsCount rrs ≤ H :=
      fun hq => Nat.le_trans (fb_nsCount_le_length _) (h2 hq)
    split
    · exact ⟨hctx, h1, hcount⟩
    · split
      · exact ⟨hctx, h1, hcount⟩
      · rename_i hc
        refine ⟨hctx, h1, fun hq => ?_⟩
        simp only [Bool.and_eq_true, bne_iff_ne, ne_eq, Bool.not_eq_true', not_and,
          Bool.not_eq_false] at hc
        exact List.isEmpty_iff.mp (hc hq)
  · rename_i c rr
    obtain ⟨h1, h2, h3⟩ := hzr.cname c rr rfl
    have hsub := hrec (ctx.push q) { name := c, qtype := q.qtype, qclass := q.qclass } (fb_ctxOK_push q hctx)
    exact ⟨fb_ctxOK_pop hsub.1, fb_zoneCnameAnswer_ok h2 h3 h1 rfl hsub.2⟩
  · rename_i nsRrs
    obtain ⟨h1, h2⟩ := hzr.delegation nsRrs rfl
    split
    · split
      · exact ⟨hctx, trivial⟩
      · refine ⟨hctx, ?_, fb_nsTargets_len h1⟩
        exact Nat.le_trans (List.length_filterMap_le _ _) h2
    · exact ⟨hctx, fb_ZpOK_nil q⟩
  · split
    · exact ⟨hctx, fb_rrsOK_nil L, fun _ => Nat.zero_le _⟩
    · exact ⟨hctx, fb_ZpOK_nil q⟩
  · exact ⟨hctx, fb_ZpOK_nil q⟩

theorem fb_zonePart_ok {rec : Ctx → Question → LocalOut} (hrec : fb_RecSpec H L U rec) {ctx : Ctx}
    (hctx : fb_CtxOK H L U ctx) (q : Question) :
    fb_CtxOK H L U (zonePart rec ctx q).1 ∧ fb_ZpOK H L q (zonePart rec ctx q).2 := by
  unfold zonePart
  split
  · exact ⟨hctx, fb_ZpOK_nil q⟩
  · exact ⟨hctx, fb_ZpOK_nil q⟩
  · rename_i zone zr heq
    exact fb_zoneResultPart_ok hrec hctx q zone (fb_zones_resolve_ok hctx.1 heq)

/-- what the cache part hands on: without a pending alias, records with short names and (for an NS
    question) at most `H` hosts; with one, an alias target of at most `L` labels. -/
def fb_CpOK (H L : Nat) (q : Question) : Except ResolutionError (List RR × Option Name) → Prop
  | .error _ => True
  | .ok (rc, none) => fb_rrsOK L rc ∧ (q.qtype = RT_NS → fb_nsCount rc ≤ H)
  | .ok (_, some c) => c.labels.length ≤ L

theorem fb_cacheCnameFinish_ok {cnameRR : RR} {cname : Name} {cq q : Question} {out : LocalOut}
    (hrr : fb_fieldsOK L cnameRR.fields = true) (hct : cnameTarget cnameRR = some cname)
    (hqt : cq.qtype = q.qtype) (hout : fb_CtxOK H L U out.1 ∧ fb_ResOK H L cq out.2) :
    fb_CtxOK H L U (cacheCnameFinish cnameRR cname out).1 ∧
    fb_CpOK H L q (cacheCnameFinish cnameRR cname out).2 := by
  refine ⟨by rw [cacheCnameFinish_fst]; exact fb_ctxOK_pop hout.1, ?_⟩
  have hns := fb_cname_not_ns (fb_cnameTarget_rtype hct)
  have h1 := fb_rrsOK_single hrr
  have hc := fb_cnameTarget_len hrr hct
  obtain ⟨c1, r⟩ := out
  obtain ⟨_, hres⟩ := hout
  simp only at hres
  cases r with
  | error e => exact hc
  | ok lr =>
    cases lr with
    | done res =>
      exact ⟨fb_rrsOK_append h1 hres.1, fun hq => by
        rw [fb_nsCount_cons_none hns]; exact hres.2 (hqt.trans hq)⟩
    | partialAnswer rrs =>
      exact ⟨fb_rrsOK_append h1 hres.1, fun hq => by
        rw [fb_nsCount_cons_none hns]; exact hres.2 (hqt.trans hq)⟩
    | cname rrs cq' => exact hres
    | delegation rrs soa d => exact hc

theorem fb_cacheCnamePart_ok {rec : Ctx → Question → LocalOut} (hrec : fb_RecSpec H L U rec) {ctx3 : Ctx}
    (hctx : fb_CtxOK H L U ctx3) (q : Question) {cs : List RR} (hcs : fb_rrsOK L cs) :
    fb_CtxOK H L U (cacheCnamePart rec ctx3 q cs).1 ∧ fb_CpOK H L q (cacheCnamePart rec ctx3 q cs).2 := by
  unfold cacheCnamePart
  split
  · exact ⟨hctx, fb_rrsOK_nil L, fun _ => Nat.zero_le _⟩
  · rename_i cnameRR rest
    split
    · rename_i cname hct
      exact fb_cacheCnameFinish_ok (hcs cnameRR List.mem_cons_self) hct rfl
        (hrec (ctx3.push q) { name := cname, qtype := q.qtype, qclass := q.qclass } (fb_ctxOK_push q hctx))
    · exact ⟨hctx, trivial⟩

theorem fb_cachePart_ok (hU : ∀ k, (U k).length ≤ H) {rec : Ctx → Question → LocalOut}
    (hrec : fb_RecSpec H L U rec) {ctx2 : Ctx} (hctx : fb_CtxOK H L U ctx2) (q : Question) {r0 : List RR}
    (hr0 : fb_rrsOK L r0) (hc0 : q.qtype = RT_NS → fb_nsCount r0 ≤ H) :
    fb_CtxOK H L U (cachePart rec ctx2 q r0).1 ∧ fb_CpOK H L q (cachePart rec ctx2 q r0).2 := by
  unfold cachePart
  split
  · obtain ⟨g1, g2, _⟩ := fb_ctxOK_cacheGet hU hctx q.name CNAME_QTYPE
    exact fb_cacheCnamePart_ok hrec g1 q g2
  · exact ⟨hctx, hr0, hc0⟩

theorem fb_nsCount_merge_nil (rc : List RR) : fb_nsCount (prioritisingMerge [] rc) ≤ fb_nsCount rc := by
  unfold prioritisingMerge
  simp only [List.nil_append]
  exact fb_nsCount_filter _ _

theorem fb_finishPart_ok (q : Question) {rz : List RR} (hrz : fb_rrsOK L rz)
    (hrz0 : q.qtype ≠ QTYPE_WILDCARD → rz = [])
    {cp : Ctx × Except ResolutionError (List RR × Option Name)}
    (hcp : fb_CtxOK H L U cp.1 ∧ fb_CpOK H L q cp.2) :
    fb_CtxOK H L U (finishPart q rz cp).1 ∧ fb_ResOK H L q (finishPart q rz cp).2 := by
  refine ⟨by rw [finishPart_fst]; exact hcp.1, ?_⟩
  obtain ⟨c6, r⟩ := cp
  obtain ⟨_, hres⟩ := hcp
  simp only at hres
  cases r with
  | error e => trivial
  | ok p =>
    obtain ⟨rc, fc⟩ := p
    unfold finishPart
    simp only
    split
    · trivial
    · cases fc with
      | some c => exact hres
      | none =>
        have hmerge : fb_rrsOK L (prioritisingMerge rz rc) := by
          intro rr hrr
          rcases fb_mem_prioritisingMerge hrr with h | h
          · exact hrz rr h
          · exact hres.1 rr h
        have hcount : q.qtype = RT_NS → fb_nsCount (prioritisingMerge rz rc) ≤ H := by
          intro hq
          have : rz = [] := hrz0 (by rw [hq]; decide)
          subst this
          exact Nat.le_trans (fb_nsCount_merge_nil rc) (hres.2 hq)
        simp only
        split
        · exact ⟨hmerge, hcount⟩
        · exact ⟨hmerge, hcount⟩

theorem fb_cacheStage_ok (hU : ∀ k, (U k).length ≤ H) {rec : Ctx → Question → LocalOut}
    (hrec : fb_RecSpec H L U rec) {ctx : Ctx} (hctx : fb_CtxOK H L U ctx) (q : Question) {rz : List RR}
    (hrz : fb_rrsOK L rz) (hrz0 : q.qtype ≠ QTYPE_WILDCARD → rz = []) :
    fb_CtxOK H L U (cacheStage rec ctx q rz).1 ∧ fb_ResOK H L q (cacheStage rec ctx q rz).2 := by
  unfold cacheStage
  obtain ⟨g1, g2, g3⟩ := fb_ctxOK_cacheGet hU hctx q.name q.qtype
  exact fb_finishPart_ok q hrz hrz0 (fb_cachePart_ok hU hrec g1 q g2 g3)

theorem fb_localStep_ok (hU : ∀ k, (U k).length ≤ H) {rec : Ctx → Question → LocalOut}
    (hrec : fb_RecSpec H L U rec) : fb_RecSpec H L U (localStep rec) := by
  intro ctx q hctx
  unfold localStep
  split
  · exact ⟨hctx, trivial⟩
  · split
    · exact ⟨hctx, trivial⟩
    · have hz := fb_zonePart_ok hrec hctx q
      split
      · rename_i c r h
        rw [h] at hz
        exact hz
      · rename_i c rz h
        rw [h] at hz
        exact fb_cacheStage_ok hU hrec hz.1 q hz.2.1 hz.2.2

/-- `resolve_local` keeps the invariant of the context and only hands back bounded results. -/
theorem fb_resolveLocal_ok (hU : ∀ k, (U k).length ≤ H) : ∀ fuel, fb_RecSpec H L U (resolveLocal fuel) := by
  intro fuel
  induction fuel with
  | zero => intro ctx q hctx; rw [resolveLocal_zero]; exact ⟨hctx, trivial⟩
  | succ n ih => intro ctx q hctx; rw [resolveLocal_succ]; exact fb_localStep_ok hU ih ctx q hctx

end

/-! ## The oracle, reachable states, and the closed theorem -/

/-- every record of every reply may enter the cache: RDATA names of ≤ `L` labels, NS data inside
    the universe `U` of its owner. -/
def fb_OracleOK (L : Nat) (U : Name → List CRec) (oracle : Oracle) : Prop :=
  ∀ ex m, (oracle ex).reply = some m → ∀ rr ∈ m.allRrs, fb_rrOK L U rr

theorem fb_oracleOK_names {L : Nat} {U : Name → List CRec} {oracle : Oracle} (h : fb_OracleOK L U oracle) :
    fb_OracleNames oracle L := by
  intro ex m hm rr hrr t ht
  have hin : rr ∈ m.allRrs := by
    unfold Message.allRrs
    exact List.mem_append_left _ hrr
  have hf := (h ex m hm rr hin).1
  rcases ht with ht | ht
  · exact fb_nsTarget_len hf ht
  · exact fb_cnameTarget_len hf ht

/-- the invariant of the context holds on every state the machine can reach. -/
theorem fb_reach_ctxOK {H L : Nat} {U : Name → List CRec} (hU : ∀ k, (U k).length ≤ H) {n : Net}
    (ho : fb_OracleOK L U n.oracle) {a b : St} (h : Reach n a b) :
    fb_CtxOK H L U a.ctx → fb_CtxOK H L U b.ctx := by
  induction h with
  | refl => exact id
  | trans _ _ ih1 ih2 => exact fun h => ih2 (ih1 h)
  | loc st fuel q => exact fun h => (fb_resolveLocal_ok hU fuel st.ctx q h).1
  | push | pop | query => exact id
  | cache st rrs hsrc =>
    intro h
    refine ⟨h.1, fb_sharedInsertAll_ok rrs st.ctx.now h.2 ?_⟩
    intro rr hrr
    obtain ⟨ex, _, m, hm, hin⟩ := hsrc rr hrr
    exact ho ex m hm rr hin

/-- the hypotheses of the fuel bound from the syntactic conditions. -/
theorem fb_hyp_of_invariant {cfg : RecCfg} {H L : Nat} {U : Name → List CRec} {st0 : St}
    (hlen : ∀ hs, fb_Referral cfg.oracle hs → (cfg.hostOrder hs).length ≤ H)
    (hsub : ∀ hs h, h ∈ cfg.hostOrder hs → h ∈ hs)
    (hU : ∀ k, (U k).length ≤ H) (ho : fb_OracleOK L U cfg.oracle) (h0 : fb_CtxOK H L U st0.ctx) :
    fb_Hyp cfg H L st0 where
  hostLen := hlen
  hostSub := hsub
  oracle := fb_oracleOK_names ho
  loc := fun st hr q =>
    fb_ResOK_localBounded (fb_resolveLocal_ok hU _ st.ctx q (fb_reach_ctxOK hU (n := cfg.net) ho hr h0)).2

/-- The closed theorem: bounded zones, bounded cache, bounded oracle, a host order that tries at most
    `H` hosts of each referral (all of them hosts of the referral) ⇒ with `fb_fuelBound H L` units of
    fuel or more, no call in the call tree of `resolveRec` runs out of fuel. -/
theorem fb_okRec_of_invariant {cfg : RecCfg} {H L : Nat} {U : Name → List CRec} (st : St) (q : Question) (n : Nat)
    (hlen : ∀ hs, fb_Referral cfg.oracle hs → (cfg.hostOrder hs).length ≤ H)
    (hsub : ∀ hs h, h ∈ cfg.hostOrder hs → h ∈ hs)
    (hU : ∀ k, (U k).length ≤ H) (ho : fb_OracleOK L U cfg.oracle) (h0 : fb_CtxOK H L U st.ctx)
    (hs : st.ctx.stack.length ≤ RECURSION_LIMIT) (hq : q.name.labels.length ≤ L)
    (hn : fb_fuelBound H L ≤ n) : okRec cfg n st q = true :=
  fb_okRec (fb_hyp_of_invariant (st0 := st) hlen hsub hU ho h0) st q n (Reach.refl st) hs hq hn

/-! ## The example universe satisfies the hypotheses -/

/-- the example oracle only ever sends the A record `x. A 5.6.7.8`. -/
theorem fb_exOracle_ok (L : Nat) (U : Name → List CRec) : fb_OracleOK L U exOracle := by
  intro ex m hm rr hrr
  simp only [exOracle, Option.some.injEq] at hm
  subst hm
  simp only [Message.allRrs, exReply, List.append_nil, List.mem_singleton] at hrr
  subst hrr
  exact ⟨rfl, fun h => absurd h (by decide)⟩

/-- … so none of its replies is a referral. -/
theorem fb_exOracle_no_referral (hs : List Name) : ¬ fb_Referral exOracle hs := by
  rintro ⟨ex, m, q, mc, rrs, zone, hm, hv⟩
  simp only [exOracle, Option.some.injEq] at hm
  subst hm
  obtain ⟨⟨rr, hrr, _, hns⟩, _⟩ := C06_delegation_zone q _ mc rrs hs zone hv
  simp only [exReply, List.append_nil, List.mem_singleton] at hrr
  subst hrr
  revert hns
  decide

theorem fb_exCtx_ok (H L : Nat) (U : Name → List CRec) (hz : fb_zonesOK H L exZones = true) :
    fb_CtxOK H L U exCtx :=
  ⟨hz, fb_cacheOK_new L U 512⟩

end Resolved
