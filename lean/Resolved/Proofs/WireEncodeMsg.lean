/-
  Helper lemmas for C04, part 3: RDATA fields, resource records (with the RDLENGTH back-patch),
  questions, sections and the whole message.
-/
import Resolved.Proofs.WireEncodeName

namespace Resolved

open Gen

/-! ## Extension and "reads back" -/

/-- `b'` has the octets of `b` followed by more octets. -/
def Ext (b b' : WBuf) : Prop := ∃ x, b'.octets = b.octets ++ x

theorem Ext.refl (b : WBuf) : Ext b b := ⟨[], by simp⟩

theorem Ext.trans {a b c : WBuf} (h1 : Ext a b) (h2 : Ext b c) : Ext a c := by
  obtain ⟨x, hx⟩ := h1
  obtain ⟨y, hy⟩ := h2
  exact ⟨x ++ y, by rw [hy, hx, List.append_assoc]⟩

theorem Ext.length_le {a b : WBuf} (h : Ext a b) : a.octets.length ≤ b.octets.length := by
  obtain ⟨x, hx⟩ := h
  rw [hx]; simp

theorem Ext.writeOctets (b : WBuf) (x : List UInt8) : Ext b (b.writeOctets x) := ⟨x, rfl⟩

/-- Decoder `dec`, run on any buffer that starts with the octets of `b'`, from the position where
    `b` ended, yields `a` and stops where `b'` ended. -/
def Reads {α} (dec : List UInt8 → Nat → Except DErr (α × Nat)) (b b' : WBuf) (a : α) : Prop :=
  ∀ post, dec (b'.octets ++ post) b.octets.length = .ok (a, b'.octets.length)

theorem Reads.of_append {α} {dec : List UInt8 → Nat → Except DErr (α × Nat)} {b b' : WBuf} {a : α}
    (x : List UInt8) (hx : b'.octets = b.octets ++ x)
    (h : ∀ post, dec (b.octets ++ x ++ post) b.octets.length = .ok (a, b.octets.length + x.length)) :
    Reads dec b b' a := by
  intro post
  rw [hx, h post]; simp

/-- a `Reads` fact survives further writes -/
theorem Reads.ext {α} {dec : List UInt8 → Nat → Except DErr (α × Nat)} {b b' b'' : WBuf} {a : α}
    (h : Reads dec b b' a) (he : Ext b' b'') (post : List UInt8) :
    dec (b''.octets ++ post) b.octets.length = .ok (a, b'.octets.length) := by
  obtain ⟨y, hy⟩ := he
  rw [hy, List.append_assoc]; exact h _

/-! ## Integers written by the encoder -/

theorem reads_writeU16 (b : WBuf) (v : Nat) (h : v < 65536) (post : List UInt8) :
    nextU16 ((b.writeU16 v).octets ++ post) b.octets.length = some (v, (b.writeU16 v).octets.length) := by
  simp only [WBuf.writeU16, WBuf.writeOctets, List.length_append, u16Bytes_length]
  exact nextU16_at _ _ _ h

theorem reads_writeU32 (b : WBuf) (v : Nat) (h : v < 4294967296) (post : List UInt8) :
    nextU32 ((b.writeU32 v).octets ++ post) b.octets.length = some (v, (b.writeU32 v).octets.length) := by
  simp only [WBuf.writeU32, WBuf.writeOctets, List.length_append, u32Bytes_length]
  exact nextU32_at _ _ _ h

/-! ## IPv6 groups -/

def groupBytes : List Nat → List UInt8
  | [] => []
  | g :: gs => u16Bytes g ++ groupBytes gs

theorem groupBytes_length (gs : List Nat) : (groupBytes gs).length = 2 * gs.length := by
  induction gs with
  | nil => rfl
  | cons g gs ih => simp [groupBytes, ih]; omega

theorem writeGroups_eq (b : WBuf) (gs : List Nat) :
    writeGroups b gs = ⟨b.octets ++ groupBytes gs, b.namePointers⟩ := by
  induction gs generalizing b with
  | nil => simp [writeGroups, groupBytes]
  | cons g gs ih => simp [writeGroups, groupBytes, ih, WBuf.writeU16, WBuf.writeOctets]

theorem decodeGroups_at (id : Nat) (gs : List Nat) :
    ∀ (pre post : List UInt8), (∀ g ∈ gs, g < 65536) →
    decodeGroups id (pre ++ groupBytes gs ++ post) gs.length pre.length
      = .ok (gs, pre.length + 2 * gs.length) := by
  induction gs with
  | nil => intro pre post _; simp [decodeGroups]
  | cons g gs ih =>
    intro pre post h
    have e1 : pre ++ groupBytes (g :: gs) ++ post = pre ++ u16Bytes g ++ (groupBytes gs ++ post) := by
      simp [groupBytes]
    have e2 : pre ++ u16Bytes g ++ (groupBytes gs ++ post)
        = (pre ++ u16Bytes g) ++ groupBytes gs ++ post := by simp
    have e3 : pre.length + 2 = (pre ++ u16Bytes g).length := by simp
    simp only [List.length_cons, decodeGroups]
    rw [e1, nextU16_at _ _ _ (h g (by simp))]
    simp only
    rw [e2, e3, ih _ _ (fun x hx => h x (by simp [hx]))]
    simp only [List.length_append, u16Bytes_length]
    congr 2; omega

/-! ## RDATA fields -/

theorem Ext.encodeName (b : WBuf) (n : Name) (c : Bool) : Ext b (encodeName b n c) := by
  rw [encodeName_eq]; split <;> exact ⟨_, rfl⟩

theorem encodeName_reads (b : WBuf) (n : Name) (c : Bool) (hinv : NameInv b) (hwf : NameWF n)
    (id : Nat) : Reads (decodeName id) b (encodeName b n c) n := by
  obtain ⟨x, hx, _, hd⟩ := encodeName_spec b n c hinv hwf
  exact Reads.of_append x hx (hd id)

theorem NameInv.encodeName {b : WBuf} (hinv : NameInv b) {n : Name} (hwf : NameWF n) (c : Bool) :
    NameInv (encodeName b n c) := by
  obtain ⟨x, _, h, _⟩ := encodeName_spec b n c hinv hwf
  exact h

theorem encodeField_spec (b : WBuf) (f : Field) (v : FieldVal) (hinv : NameInv b)
    (hwf : FieldValWF f v) :
    Ext b (encodeField b f v) ∧ NameInv (encodeField b f v) ∧
    ∀ id rdl, (f = .opaque → rdl = (encodeField b f v).octets.length - b.octets.length) →
      Reads (fun buf pos => decodeField id buf rdl f pos) b (encodeField b f v) v := by
  cases f <;> cases v <;> simp only [FieldValWF] at hwf
  case u16.u16 n =>
    refine ⟨Ext.writeOctets _ _, hinv.writeU16 n, ?_⟩
    intro id rdl _ post
    simp only [encodeField, decodeField, reads_writeU16 b n hwf post, orRRShort, Except.map]
  case u32.u32 n =>
    refine ⟨Ext.writeOctets _ _, hinv.writeU32 n, ?_⟩
    intro id rdl _ post
    simp only [encodeField, decodeField, reads_writeU32 b n hwf post, orRRShort, Except.map]
  case a.a n =>
    refine ⟨Ext.writeOctets _ _, hinv.writeU32 n, ?_⟩
    intro id rdl _ post
    simp only [encodeField, decodeField, reads_writeU32 b n hwf post, orRRShort, Except.map]
  case aaaa.aaaa gs =>
    simp only [encodeField, writeGroups_eq]
    refine ⟨⟨_, rfl⟩, hinv.writeOctets (groupBytes gs), ?_⟩
    intro id rdl _ post
    have := decodeGroups_at id gs b.octets post hwf.2
    rw [hwf.1] at this
    simp only [decodeField, this, Except.map, List.length_append, groupBytes_length, hwf.1]
  case opaque.opaque bs =>
    refine ⟨Ext.writeOctets _ _, hinv.writeOctets bs, ?_⟩
    intro id rdl hrdl post
    have hrdl := hrdl rfl
    simp only [encodeField, WBuf.writeOctets, List.length_append, Nat.add_sub_cancel_left] at hrdl ⊢
    subst hrdl
    simp only [decodeField, takeN_at, orRRShort, Except.map]
  case name.name c n =>
    refine ⟨Ext.encodeName b n c, hinv.encodeName hwf c, ?_⟩
    intro id rdl _ post
    simp only [encodeField, decodeField, encodeName_reads b n c hinv hwf id post, Except.map]

theorem encodeFields_spec_noOpaque (fs : List Field) :
    ∀ (vs : List FieldVal) (b : WBuf), NameInv b → FieldsWF fs vs → Field.opaque ∉ fs →
    Ext b (encodeFields b fs vs) ∧ NameInv (encodeFields b fs vs) ∧
    ∀ id rdl, Reads (fun buf pos => decodeFields id buf rdl fs pos) b (encodeFields b fs vs) vs := by
  induction fs with
  | nil =>
    intro vs b hinv hwf _
    cases vs with
    | cons _ _ => simp [FieldsWF] at hwf
    | nil =>
      refine ⟨Ext.refl _, hinv, ?_⟩
      intro id rdl post
      simp [encodeFields, decodeFields]
  | cons f fs ih =>
    intro vs b hinv hwf hno
    cases vs with
    | nil => simp [FieldsWF] at hwf
    | cons v vs =>
      obtain ⟨hwfv, hwfs⟩ := hwf
      obtain ⟨hext1, hinv1, hread1⟩ := encodeField_spec b f v hinv hwfv
      obtain ⟨hext2, hinv2, hread2⟩ :=
        ih vs (encodeField b f v) hinv1 hwfs (fun h => hno (List.mem_cons_of_mem _ h))
      refine ⟨hext1.trans hext2, hinv2, ?_⟩
      intro id rdl post
      have hf : f = Field.opaque → rdl = (encodeField b f v).octets.length - b.octets.length := by
        intro h; subst h; exact absurd (List.mem_cons_self) hno
      have h1 := (hread1 id rdl hf).ext hext2 post
      have h2 := hread2 id rdl post
      simp only [encodeFields, decodeFields] at h1 h2 ⊢
      rw [h1]; simp only; rw [h2]

/-- RDATA round trip for a whole layout; `rdl` must be the RDATA length when the layout is the
    single `.opaque` field. -/
theorem encodeFields_spec (fs : List Field) (vs : List FieldVal) (b : WBuf) (hinv : NameInv b)
    (hwf : FieldsWF fs vs) (hok : LayoutOK fs) :
    Ext b (encodeFields b fs vs) ∧ NameInv (encodeFields b fs vs) ∧
    ∀ id, Reads (fun buf pos => decodeFields id buf
        ((encodeFields b fs vs).octets.length - b.octets.length) fs pos)
      b (encodeFields b fs vs) vs := by
  rcases hok with rfl | hno
  · match vs, hwf with
    | [v], hwf =>
      obtain ⟨hext1, hinv1, hread1⟩ := encodeField_spec b .opaque v hinv hwf.1
      refine ⟨hext1, hinv1, ?_⟩
      intro id post
      have h1 := hread1 id _ (fun _ => rfl) post
      simp only [encodeFields, decodeFields] at h1 ⊢
      rw [h1]
  · obtain ⟨h1, h2, h3⟩ := encodeFields_spec_noOpaque fs vs b hinv hwf hno
    exact ⟨h1, h2, fun id => h3 id _⟩

/-! ## The encoder looks at the octets written so far only through their number

This is what makes the RDLENGTH back-patch harmless: writing the RDATA after a `00 00`
placeholder and patching, or after the final RDLENGTH, gives the same octets and table. -/

def Sim (b1 b2 : WBuf) : Prop :=
  b1.namePointers = b2.namePointers ∧ b1.octets.length = b2.octets.length

def SimRes (b1 b2 b1' b2' : WBuf) : Prop :=
  ∃ x, b1'.octets = b1.octets ++ x ∧ b2'.octets = b2.octets ++ x ∧
    b1'.namePointers = b2'.namePointers

theorem SimRes.sim {b1 b2 b1' b2' : WBuf} (h : Sim b1 b2) (r : SimRes b1 b2 b1' b2') :
    Sim b1' b2' := by
  obtain ⟨x, h1, h2, h3⟩ := r
  exact ⟨h3, by rw [h1, h2, List.length_append, List.length_append, h.2]⟩

theorem SimRes.trans {b1 b2 b1' b2' b1'' b2'' : WBuf} (r : SimRes b1 b2 b1' b2')
    (r' : SimRes b1' b2' b1'' b2'') : SimRes b1 b2 b1'' b2'' := by
  obtain ⟨x, h1, h2, _⟩ := r
  obtain ⟨y, h1', h2', h3'⟩ := r'
  exact ⟨x ++ y, by rw [h1', h1, List.append_assoc], by rw [h2', h2, List.append_assoc], h3'⟩

theorem SimRes.refl {b1 b2 : WBuf} (h : Sim b1 b2) : SimRes b1 b2 b1 b2 :=
  ⟨[], by simp, by simp, h.1⟩

theorem sim_writeOctets {b1 b2 : WBuf} (h : Sim b1 b2) (x : List UInt8) :
    SimRes b1 b2 (b1.writeOctets x) (b2.writeOctets x) := ⟨x, rfl, rfl, h.1⟩

theorem sim_memoiseName {b1 b2 : WBuf} (h : Sim b1 b2) (n : Name) :
    (b1.memoiseName n).namePointers = (b2.memoiseName n).namePointers := by
  unfold WBuf.memoiseName WBuf.index
  rw [h.1, h.2]
  split
  · split <;> simp only [h.1]
  · exact h.1

theorem sim_encodeName {b1 b2 : WBuf} (h : Sim b1 b2) (n : Name) (c : Bool) :
    SimRes b1 b2 (encodeName b1 n c) (encodeName b2 n c) := by
  rw [encodeName_eq, encodeName_eq]
  unfold WBuf.namePointer
  rw [h.1]
  split
  · exact ⟨_, rfl, rfl, rfl⟩
  · exact ⟨_, rfl, rfl, sim_memoiseName h n⟩

theorem sim_encodeField {b1 b2 : WBuf} (h : Sim b1 b2) (f : Field) (v : FieldVal) :
    SimRes b1 b2 (encodeField b1 f v) (encodeField b2 f v) := by
  cases f <;> cases v <;> simp only [encodeField, writeGroups_eq] <;>
    first
    | exact SimRes.refl h
    | exact sim_writeOctets h _
    | exact sim_encodeName h _ _
    | exact ⟨_, rfl, rfl, h.1⟩

theorem sim_encodeFields (fs : List Field) :
    ∀ (vs : List FieldVal) {b1 b2 : WBuf}, Sim b1 b2 →
    SimRes b1 b2 (encodeFields b1 fs vs) (encodeFields b2 fs vs) := by
  induction fs with
  | nil => intro vs b1 b2 h; simp only [encodeFields]; exact SimRes.refl h
  | cons f fs ih =>
    intro vs b1 b2 h
    cases vs with
    | nil => simp only [encodeFields]; exact SimRes.refl h
    | cons v vs =>
      simp only [encodeFields]
      have r := sim_encodeField h f v
      exact r.trans (ih vs (r.sim h))

theorem patchU16_placeholder (pre x : List UInt8) (a c : UInt8) (v : Nat) :
    patchU16 (pre ++ [a, c] ++ x) pre.length v = pre ++ u16Bytes v ++ x := by
  simp [patchU16, u16Bytes]

theorem patchU16_length (os : List UInt8) (i v : Nat) : (patchU16 os i v).length = os.length := by
  simp [patchU16]

/-- The buffer just before the RDATA of `rr` is written, with `rdlength` in place. -/
def rrPrefix (b : WBuf) (rr : RR) (rdlength : Nat) : WBuf :=
  ((((encodeName b rr.name rrNameCompress).writeU16 rr.rtype).writeU16 rr.rclass).writeU32
    rr.ttl).writeU16 rdlength

/-- `encodeRR` without the back-patch: the RDLENGTH written up front is the number of octets the
    RDATA fields append. -/
theorem encodeRR_eq (b : WBuf) (rr : RR) (b' : WBuf) (h : encodeRR b rr = .ok b') :
    ∃ rdl, rdl < 65536 ∧
      b' = encodeFields (rrPrefix b rr rdl) (encodeLayoutOf rr.rtype) rr.fields ∧
      rdl = b'.octets.length - (rrPrefix b rr rdl).octets.length := by
  unfold encodeRR at h
  simp only at h
  have hP : ∀ v, rrPrefix b rr v = ((((encodeName b rr.name rrNameCompress).writeU16
      rr.rtype).writeU16 rr.rclass).writeU32 rr.ttl).writeU16 v := fun _ => rfl
  generalize (((encodeName b rr.name rrNameCompress).writeU16 rr.rtype).writeU16
    rr.rclass).writeU32 rr.ttl = X at h hP
  have hsim : ∀ v, Sim (X.writeU16 0) (X.writeU16 v) := fun v =>
    ⟨rfl, by simp [WBuf.writeU16, WBuf.writeOctets]⟩
  have hB0 : ∀ v, (X.writeU16 v).octets = X.octets ++ u16Bytes v := fun _ => rfl
  obtain ⟨x, h1, h2, h3⟩ :=
    sim_encodeFields (encodeLayoutOf rr.rtype) rr.fields
      (hsim ((encodeFields (X.writeU16 0) (encodeLayoutOf rr.rtype) rr.fields).index - X.index - 2))
  generalize encodeFields (X.writeU16 0) (encodeLayoutOf rr.rtype) rr.fields = F at h h1 h2 h3
  have hlenF : F.octets.length = X.octets.length + 2 + x.length := by
    rw [h1, hB0]; simp only [List.length_append, u16Bytes_length]
  have hv : F.index - X.index - 2 = x.length := by
    unfold WBuf.index; omega
  rw [hv] at h h2 h3
  unfold usizeToU16 at h
  split at h
  · cases h
  · rename_i rdl hrdl
    split at hrdl
    · rename_i hlt
      cases hrdl
      cases h
      have hpatch : patchU16 F.octets X.index x.length = X.octets ++ u16Bytes x.length ++ x := by
        rw [h1, hB0]
        exact patchU16_placeholder X.octets x _ _ _
      refine ⟨x.length, hlt, ?_, ?_⟩
      · rw [hP]
        generalize encodeFields (X.writeU16 x.length) (encodeLayoutOf rr.rtype) rr.fields = R
          at h2 h3
        cases R
        simp only at h2 h3
        simp only [WBuf.mk.injEq]
        refine ⟨?_, h3⟩
        rw [h2, hpatch, hB0]
      · rw [hP]
        simp only [hpatch, hB0, List.length_append, u16Bytes_length]
        omega
    · cases hrdl

/-! ## Resource records and questions -/

theorem nextU16_ext (b : WBuf) (v : Nat) (hv : v < 65536) {b' : WBuf} (he : Ext (b.writeU16 v) b')
    (post : List UInt8) :
    nextU16 (b'.octets ++ post) b.octets.length = some (v, (b.writeU16 v).octets.length) := by
  obtain ⟨y, hy⟩ := he
  rw [hy, List.append_assoc]; exact reads_writeU16 b v hv _

theorem nextU32_ext (b : WBuf) (v : Nat) (hv : v < 4294967296) {b' : WBuf}
    (he : Ext (b.writeU32 v) b') (post : List UInt8) :
    nextU32 (b'.octets ++ post) b.octets.length = some (v, (b.writeU32 v).octets.length) := by
  obtain ⟨y, hy⟩ := he
  rw [hy, List.append_assoc]; exact reads_writeU32 b v hv _

theorem encodeRR_spec (b : WBuf) (rr : RR) (b' : WBuf) (hinv : NameInv b) (hwf : RRWF rr)
    (h : encodeRR b rr = .ok b') :
    Ext b b' ∧ NameInv b' ∧ ∀ id, Reads (decodeRR id) b b' rr := by
  obtain ⟨hname, htype, hclass, httl, hfields⟩ := hwf
  obtain ⟨rdl, hrdl, hb', hrdleq⟩ := encodeRR_eq b rr b' h
  unfold rrPrefix at hb' hrdleq
  generalize hb1 : encodeName b rr.name rrNameCompress = b1 at hb' hrdleq
  have hext1 : Ext b b1 := hb1 ▸ Ext.encodeName b rr.name _
  have hinv1 : NameInv b1 := hb1 ▸ hinv.encodeName hname _
  have hread1 : ∀ id, Reads (decodeName id) b b1 rr.name :=
    fun id => hb1 ▸ encodeName_reads b rr.name _ hinv hname id
  have hinv5 : NameInv ((((b1.writeU16 rr.rtype).writeU16 rr.rclass).writeU32 rr.ttl).writeU16 rdl) :=
    (((hinv1.writeU16 _).writeU16 _).writeU32 _).writeU16 _
  obtain ⟨hext6, hinv6, hread6⟩ :=
    encodeFields_spec (encodeLayoutOf rr.rtype) rr.fields _ hinv5 hfields (encodeLayoutOf_ok _)
  rw [← hb'] at hext6 hinv6 hread6
  rw [← hrdleq] at hread6
  have hext5 := Ext.writeOctets (((b1.writeU16 rr.rtype).writeU16 rr.rclass).writeU32 rr.ttl)
    (u16Bytes rdl)
  have hext4 := Ext.writeOctets ((b1.writeU16 rr.rtype).writeU16 rr.rclass) (u32Bytes rr.ttl)
  have hext3 := Ext.writeOctets (b1.writeU16 rr.rtype) (u16Bytes rr.rclass)
  have hext2 := Ext.writeOctets b1 (u16Bytes rr.rtype)
  have e5 : Ext ((((b1.writeU16 rr.rtype).writeU16 rr.rclass).writeU32 rr.ttl).writeU16 rdl) b' :=
    hext6
  have e4 : Ext (((b1.writeU16 rr.rtype).writeU16 rr.rclass).writeU32 rr.ttl) b' := hext5.trans e5
  have e3 : Ext ((b1.writeU16 rr.rtype).writeU16 rr.rclass) b' := hext4.trans e4
  have e2 : Ext (b1.writeU16 rr.rtype) b' := hext3.trans e3
  have e1 : Ext b1 b' := hext2.trans e2
  refine ⟨hext1.trans e1, hinv6, ?_⟩
  intro id post
  unfold decodeRR
  rw [(hread1 id).ext e1 post]
  simp only
  rw [nextU16_ext b1 rr.rtype htype e2 post]
  simp only
  rw [nextU16_ext _ rr.rclass hclass e3 post]
  simp only
  rw [nextU32_ext _ rr.ttl httl e4 post]
  simp only
  rw [nextU16_ext _ rdl hrdl e5 post]
  simp only
  rw [decodeLayoutOf_eq]
  have h6 := hread6 id post
  simp only at h6
  rw [h6]
  simp only
  have hle := e5.length_le
  rw [if_pos (by omega)]

theorem encodeQuestion_spec (b : WBuf) (q : Question) (hinv : NameInv b) (hwf : QuestionWF q) :
    Ext b (encodeQuestion b q) ∧ NameInv (encodeQuestion b q) ∧
    ∀ id, Reads (decodeQuestion id) b (encodeQuestion b q) q := by
  obtain ⟨hname, htype, hclass⟩ := hwf
  unfold encodeQuestion
  generalize hb1 : encodeName b q.name questionNameCompress = b1
  have hext1 : Ext b b1 := hb1 ▸ Ext.encodeName b q.name _
  have hinv1 : NameInv b1 := hb1 ▸ hinv.encodeName hname _
  have hread1 : ∀ id, Reads (decodeName id) b b1 q.name :=
    fun id => hb1 ▸ encodeName_reads b q.name _ hinv hname id
  have e3 : Ext ((b1.writeU16 q.qtype).writeU16 q.qclass) ((b1.writeU16 q.qtype).writeU16 q.qclass) :=
    Ext.refl _
  have e2 : Ext (b1.writeU16 q.qtype) ((b1.writeU16 q.qtype).writeU16 q.qclass) :=
    Ext.writeOctets _ _
  have e1 : Ext b1 ((b1.writeU16 q.qtype).writeU16 q.qclass) := (Ext.writeOctets _ _).trans e2
  refine ⟨hext1.trans e1, (hinv1.writeU16 _).writeU16 _, ?_⟩
  intro id post
  unfold decodeQuestion
  rw [(hread1 id).ext e1 post]
  simp only
  rw [nextU16_ext b1 q.qtype htype e2 post]
  simp only
  rw [nextU16_ext _ q.qclass hclass e3 post]

/-! ## Sections -/

theorem decodeMany_cons {α} (dec : List UInt8 → Nat → Except DErr (α × Nat)) {b b1 b' : WBuf}
    {a : α} {as : List α} {k : Nat} (h1 : Reads dec b b1 a) (he : Ext b1 b')
    (h2 : ∀ post, decodeMany (dec (b'.octets ++ post)) k b1.octets.length
      = .ok (as, b'.octets.length)) :
    ∀ post, decodeMany (dec (b'.octets ++ post)) (k + 1) b.octets.length
      = .ok (a :: as, b'.octets.length) := by
  intro post
  simp only [decodeMany]
  rw [h1.ext he post]
  simp only
  rw [h2 post]

theorem encodeQuestions_spec (qs : List Question) :
    ∀ (b : WBuf), NameInv b → (∀ q ∈ qs, QuestionWF q) →
    Ext b (qs.foldl encodeQuestion b) ∧ NameInv (qs.foldl encodeQuestion b) ∧
    ∀ id post, decodeMany (decodeQuestion id ((qs.foldl encodeQuestion b).octets ++ post))
      qs.length b.octets.length = .ok (qs, (qs.foldl encodeQuestion b).octets.length) := by
  induction qs with
  | nil =>
    intro b hinv _
    exact ⟨Ext.refl _, hinv, fun id post => by simp [decodeMany]⟩
  | cons q qs ih =>
    intro b hinv hwf
    obtain ⟨hext1, hinv1, hread1⟩ := encodeQuestion_spec b q hinv (hwf q (by simp))
    obtain ⟨hext2, hinv2, hread2⟩ := ih (encodeQuestion b q) hinv1 (fun x hx => hwf x (by simp [hx]))
    simp only [List.foldl_cons, List.length_cons]
    exact ⟨hext1.trans hext2, hinv2, fun id =>
      decodeMany_cons (decodeQuestion id) (hread1 id) hext2 (hread2 id)⟩

theorem encodeRRs_spec (rrs : List RR) :
    ∀ (b b' : WBuf), NameInv b → (∀ r ∈ rrs, RRWF r) → encodeRRs b rrs = .ok b' →
    Ext b b' ∧ NameInv b' ∧
    ∀ id post, decodeMany (decodeRR id (b'.octets ++ post)) rrs.length b.octets.length
      = .ok (rrs, b'.octets.length) := by
  induction rrs with
  | nil =>
    intro b b' hinv _ h
    simp only [encodeRRs, Except.ok.injEq] at h
    subst h
    exact ⟨Ext.refl _, hinv, fun id post => by simp [decodeMany]⟩
  | cons r rrs ih =>
    intro b b' hinv hwf h
    simp only [encodeRRs] at h
    split at h
    · cases h
    · rename_i b1 hb1
      obtain ⟨hext1, hinv1, hread1⟩ := encodeRR_spec b r b1 hinv (hwf r (by simp)) hb1
      obtain ⟨hext2, hinv2, hread2⟩ := ih b1 b' hinv1 (fun x hx => hwf x (by simp [hx])) h
      simp only [List.length_cons]
      exact ⟨hext1.trans hext2, hinv2, fun id =>
        decodeMany_cons (decodeRR id) (hread1 id) hext2 (hread2 id)⟩

/-! ## Whole message -/

theorem usizeToU16_ok {c v : Nat} (h : usizeToU16 c = .ok v) : v = c ∧ c < 65536 := by
  unfold usizeToU16 at h
  split at h
  · rename_i hlt; cases h; exact ⟨rfl, hlt⟩
  · cases h

theorem nextU16_at' {buf : List UInt8} (pre post : List UInt8) {v k : Nat}
    (hbuf : buf = pre ++ u16Bytes v ++ post) (hk : pre.length = k) (hv : v < 65536) :
    nextU16 buf k = some (v, k + 2) := by
  subst hbuf hk; exact nextU16_at _ _ _ hv

theorem nextU8_at' {buf : List UInt8} (pre post : List UInt8) {o : UInt8} {k : Nat}
    (hbuf : buf = pre ++ o :: post) (hk : pre.length = k) :
    nextU8 buf k = some (o.toNat, k + 1) := by
  subst hbuf hk; exact nextU8_at _ _ _

/-- the twelve header octets -/
def header12 (h : Header) (qd an ns ar : Nat) : List UInt8 :=
  headerBytes h ++ u16Bytes qd ++ u16Bytes an ++ u16Bytes ns ++ u16Bytes ar

theorem header12_length (h : Header) (qd an ns ar : Nat) : (header12 h qd an ns ar).length = 12 := by
  simp [header12, headerBytes]

/-- `decodeMessage` on a buffer that starts with an encoded header: the header comes back and the
    four sections are read with the written counts, starting at offset 12. -/
theorem decodeMessage_header12 (h : Header) (hwf : HeaderWF h) (qd an ns ar : Nat)
    (hqd : qd < 65536) (han : an < 65536) (hns : ns < 65536) (har : ar < 65536)
    (rest : List UInt8) :
    decodeMessage (header12 h qd an ns ar ++ rest) =
      match decodeMany (decodeQuestion h.id (header12 h qd an ns ar ++ rest)) qd 12 with
      | .error e => .error e
      | .ok (questions, p8) =>
      match decodeMany (decodeRR h.id (header12 h qd an ns ar ++ rest)) an p8 with
      | .error e => .error e
      | .ok (answers, p9) =>
      match decodeMany (decodeRR h.id (header12 h qd an ns ar ++ rest)) ns p9 with
      | .error e => .error e
      | .ok (authority, p10) =>
      match decodeMany (decodeRR h.id (header12 h qd an ns ar ++ rest)) ar p10 with
      | .error e => .error e
      | .ok (additional, _) => .ok { header := h, questions, answers, authority, additional } := by
  generalize hbuf : header12 h qd an ns ar ++ rest = buf
  have hid := hwf.1
  have hf1 := (flagOctet1_spec h.isResponse h.isAuthoritative h.isTruncated h.recursionDesired
    h.opcode hwf.2.1).1
  have hf2 := (flagOctet2_spec h.recursionAvailable h.rcode hwf.2.2).1
  generalize hF1 : flagOctet1 h.isResponse h.opcode h.isAuthoritative h.isTruncated
    h.recursionDesired = f1 at hf1
  generalize hF2 : flagOctet2 h.recursionAvailable h.rcode = f2 at hf2
  have hbuf' : buf = u16Bytes h.id ++ (u8 f1 :: u8 f2 :: (u16Bytes qd ++ (u16Bytes an ++
      (u16Bytes ns ++ (u16Bytes ar ++ rest))))) := by
    rw [← hbuf]; simp [header12, headerBytes, hF1, hF2]
  have n1 : nextU16 buf 0 = some (h.id, 2) :=
    nextU16_at' [] (u8 f1 :: u8 f2 :: (u16Bytes qd ++ (u16Bytes an ++
      (u16Bytes ns ++ (u16Bytes ar ++ rest))))) (by rw [hbuf']; simp) rfl hid
  have n2 : nextU8 buf 2 = some (f1, 3) := by
    rw [← u8_toNat _ hf1]
    exact nextU8_at' (u16Bytes h.id) (u8 f2 :: (u16Bytes qd ++ (u16Bytes an ++
      (u16Bytes ns ++ (u16Bytes ar ++ rest))))) (by rw [hbuf']) rfl
  have n3 : nextU8 buf 3 = some (f2, 4) := by
    rw [← u8_toNat _ hf2]
    exact nextU8_at' (u16Bytes h.id ++ [u8 f1]) (u16Bytes qd ++ (u16Bytes an ++
      (u16Bytes ns ++ (u16Bytes ar ++ rest)))) (by rw [hbuf']; simp) rfl
  have n4 : nextU16 buf 4 = some (qd, 6) :=
    nextU16_at' (u16Bytes h.id ++ [u8 f1, u8 f2]) (u16Bytes an ++
      (u16Bytes ns ++ (u16Bytes ar ++ rest))) (by rw [hbuf']; simp) rfl hqd
  have n5 : nextU16 buf 6 = some (an, 8) :=
    nextU16_at' (u16Bytes h.id ++ [u8 f1, u8 f2] ++ u16Bytes qd)
      (u16Bytes ns ++ (u16Bytes ar ++ rest)) (by rw [hbuf']; simp) rfl han
  have n6 : nextU16 buf 8 = some (ns, 10) :=
    nextU16_at' (u16Bytes h.id ++ [u8 f1, u8 f2] ++ u16Bytes qd ++ u16Bytes an)
      (u16Bytes ar ++ rest) (by rw [hbuf']; simp) rfl hns
  have n7 : nextU16 buf 10 = some (ar, 12) :=
    nextU16_at' (u16Bytes h.id ++ [u8 f1, u8 f2] ++ u16Bytes qd ++ u16Bytes an ++ u16Bytes ns)
      rest (by rw [hbuf']; simp) rfl har
  have hdf : decodeFlags h.id f1 f2 = h := by
    rw [← hF1, ← hF2]; exact decodeFlags_flagOctets h hwf
  unfold decodeMessage
  simp only [n1, n2, n3, n4, n5, n6, n7, hdf]
  rfl

theorem NameInv_of_table_nil {b : WBuf} (h : b.namePointers = []) : NameInv b := by
  intro n p hm; rw [h] at hm; simp at hm

/-- **Round trip.**  Every well-formed message that the encoder accepts decodes back to itself. -/
theorem encodeMessage_roundtrip (m : Message) (bs : List UInt8) (hwf : WfMsg m)
    (h : encodeMessage m = .ok bs) : decodeMessage bs = .ok m := by
  obtain ⟨hh, hq, han, hns, har⟩ := hwf
  unfold encodeMessage at h
  split at h; · cases h
  rename_i qd hqd
  split at h; · cases h
  rename_i an han'
  split at h; · cases h
  rename_i ns hns'
  split at h; · cases h
  rename_i ar har'
  obtain ⟨rfl, cqd⟩ := usizeToU16_ok hqd
  obtain ⟨rfl, can⟩ := usizeToU16_ok han'
  obtain ⟨rfl, cns⟩ := usizeToU16_ok hns'
  obtain ⟨rfl, car⟩ := usizeToU16_ok har'
  simp only at h
  have hb0 : ((((encodeHeader WBuf.empty m.header).writeU16 m.questions.length).writeU16
      m.answers.length).writeU16 m.authority.length).writeU16 m.additional.length
      = ⟨header12 m.header m.questions.length m.answers.length m.authority.length
          m.additional.length, []⟩ := by
    simp [encodeHeader_eq, WBuf.writeU16, WBuf.writeOctets, WBuf.empty, header12]
  rw [hb0] at h
  generalize hB0 : (⟨header12 m.header m.questions.length m.answers.length m.authority.length
          m.additional.length, []⟩ : WBuf) = b0 at h
  have hlen0 : b0.octets.length = 12 := by rw [← hB0]; exact header12_length _ _ _ _ _
  have hinv0 : NameInv b0 := NameInv_of_table_nil (by rw [← hB0])
  obtain ⟨extQ, invQ, readQ⟩ := encodeQuestions_spec m.questions b0 hinv0 hq
  generalize m.questions.foldl encodeQuestion b0 = bQ at h extQ invQ readQ
  split at h; · cases h
  rename_i bA hbA
  split at h; · cases h
  rename_i bN hbN
  split at h; · cases h
  rename_i bR hbR
  cases h
  obtain ⟨extA, invA, readA⟩ := encodeRRs_spec m.answers bQ bA invQ han hbA
  obtain ⟨extN, invN, readN⟩ := encodeRRs_spec m.authority bA bN invA hns hbN
  obtain ⟨extR, invR, readR⟩ := encodeRRs_spec m.additional bN bR invN har hbR
  obtain ⟨y0, hy0⟩ := ((extQ.trans extA).trans extN).trans extR
  obtain ⟨yQ, hyQ⟩ := (extA.trans extN).trans extR
  obtain ⟨yA, hyA⟩ := extN.trans extR
  obtain ⟨yN, hyN⟩ := extR
  have rQ := readQ m.header.id yQ
  have rA := readA m.header.id yA
  have rN := readN m.header.id yN
  have rR := readR m.header.id []
  rw [← hyQ] at rQ
  rw [← hyA] at rA
  rw [← hyN] at rN
  rw [List.append_nil] at rR
  rw [hlen0] at rQ
  have hbs : bR.octets = header12 m.header m.questions.length m.answers.length m.authority.length
      m.additional.length ++ y0 := by rw [hy0, ← hB0]
  rw [hbs] at rQ rA rN rR ⊢
  rw [decodeMessage_header12 m.header hh _ _ _ _ cqd can cns car y0, rQ]
  simp only
  rw [rA]
  simp only
  rw [rN]
  simp only
  rw [rR]

end Resolved
