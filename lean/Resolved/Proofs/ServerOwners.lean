/-
  Helper lemmas for Props/C09Owners.lean: the owners of the answer section of the server's reply
  in authoritative-only mode (last clause of C09, through the chain shape of C10).
  * `so_ctx zones`                — the context `authOnlyResolver zones` resolves in;
  * `so_authOnly_answers_chain`   — every outcome of `resolveAuthoritativeOnly` other than a referral
                                    carries chain-shaped records (errors and name errors: none);
  * `so_chain_earlier`            — index form of `ChainShaped`: each owner is the question name or
                                    the target of a STRICTLY EARLIER alias record;
  * `so_localStep_cname_owners`   — a CNAME question is answered with records of the question name;
  * `so_referral`                 — what a local referral looks like, and that it is not chain-shaped;
  * `so_load_configured`          — `loadConfiguration` of built zones gives a `Zones.Configured`.
-/
import Resolved.Proofs.ServerLemmas
import Resolved.Proofs.ResolverLocalChain
import Resolved.Proofs.ResolverLocalTyped

namespace Resolved

open Gen

/-- the context in which `authOnlyResolver zones` resolves every question: the configuration, an
    empty cache of 512 entries, clock 0, empty question stack. -/
abbrev so_ctx (zones : Zones) : Ctx := { zones := zones, cache := PCache.new 512, now := 0, stack := [] }

theorem so_authOnly_eq (zones : Zones) (q : Question) (b : Bool) :
    authOnlyResolver zones q b = (resolveAuthoritativeOnly (so_ctx zones) q).2 := rfl

theorem so_resolveAuthOnly_snd (ctx : Ctx) (q : Question) :
    (resolveAuthoritativeOnly ctx q).2 =
      (resolveLocal (RECURSION_LIMIT + 1) ctx q).2.map LocalResult.toResolved := rfl

/-! ## chain shape of every non-referral outcome -/

theorem so_chainShaped_nil (qn : Name) (qtype : Nat) : ChainShaped qn qtype [] :=
  ⟨[], [], qn, rfl, IsChain.nil qn, by simp, by simp⟩

/-- outside a referral the records handed to the server are the local outcome's answer records. -/
theorem so_toResolved_rrs (r : LocalResult) (h : ∀ rs s d, r ≠ .delegation rs s d) :
    r.answerRrs = some r.toResolved.rrs := by
  cases r with
  | done res => rfl
  | partialAnswer rs => rfl
  | cname rs cq => rfl
  | delegation rs s d => exact absurd rfl (h rs s d)

/-- every outcome of the authoritative-only resolver that is not built from a local referral —
    authoritative answer, authoritative name error, non-authoritative answer (SOA-less zone, cache,
    unfinished alias walk), any error — carries chain-shaped records. -/
theorem so_authOnly_answers_chain (ctx : Ctx) (q : Question)
    (hzone : ZoneAnswersTyped ctx.zones) (hcache : CacheTyped ctx.cache)
    (h5 : q.qtype ≠ RT_CNAME) (h255 : q.qtype ≠ QTYPE_WILDCARD)
    (hnd : ∀ rs s d, (resolveLocal (RECURSION_LIMIT + 1) ctx q).2 ≠ .ok (.delegation rs s d)) :
    ChainShaped q.name q.qtype (srvAnswersOf (resolveAuthoritativeOnly ctx q).2) := by
  rw [so_resolveAuthOnly_snd]
  cases hl : (resolveLocal (RECURSION_LIMIT + 1) ctx q).2 with
  | error e => exact so_chainShaped_nil _ _
  | ok r =>
    have hr : ∀ rs s d, r ≠ .delegation rs s d := by
      intro rs s d he; subst he; exact hnd rs s d hl
    have := resolveLocal_chain (RECURSION_LIMIT + 1) ctx q hzone hcache h5 h255 r hl
    show ChainShaped q.name q.qtype r.toResolved.rrs
    cases r with
    | done res => exact this.shaped
    | partialAnswer rs => exact this.shaped
    | delegation rs s d => exact absurd rfl (hr rs s d)
    | cname rs cq =>
      obtain ⟨e, _, hd, _⟩ := this
      exact ⟨rs, [], e, by simp [LocalResult.toResolved, ResolvedRecord.rrs], hd.chain, hd.nodup, by simp⟩

/-! ## index form: owners are the question name or an earlier alias target -/

theorem so_chain_earlier {n e : Name} {cs : List RR} (h : IsChain n cs e) (fs : List RR)
    (hfs : ∀ f ∈ fs, f.name = e) :
    ∀ (i : Nat) (rr : RR), (cs ++ fs)[i]? = some rr →
      rr.name = n ∨ ∃ j c, j < i ∧ (cs ++ fs)[j]? = some c ∧ cnameTarget c = some rr.name := by
  induction h with
  | nil n =>
    intro i rr hi
    left
    rw [List.nil_append] at hi
    exact hfs rr (List.mem_of_getElem? hi)
  | cons n t e r rest hn ht _ ih =>
    intro i rr hi
    cases i with
    | zero =>
      simp only [List.cons_append, List.getElem?_cons_zero, Option.some.injEq] at hi
      subst hi; exact Or.inl hn
    | succ k =>
      simp only [List.cons_append, List.getElem?_cons_succ] at hi
      rcases ih hfs k rr hi with h1 | ⟨j, c, hj, hc, hct⟩
      · right
        exact ⟨0, r, by omega, by simp, by rw [h1]; exact ht⟩
      · right
        exact ⟨j + 1, c, by omega, by simpa using hc, hct⟩

/-- `ChainShaped`, index form. -/
theorem so_chainShaped_earlier {qn : Name} {qtype : Nat} {rrs : List RR} (h : ChainShaped qn qtype rrs) :
    ∀ (i : Nat) (rr : RR), rrs[i]? = some rr →
      rr.name = qn ∨ ∃ j c, j < i ∧ rrs[j]? = some c ∧ cnameTarget c = some rr.name := by
  obtain ⟨cs, fs, e, rfl, hc, _, hf⟩ := h
  exact so_chain_earlier hc fs (fun f hfm => (hf f hfm).1)

/-- `ChainShaped`, membership form. -/
theorem so_chainShaped_owner {qn : Name} {qtype : Nat} {rrs : List RR} (h : ChainShaped qn qtype rrs) :
    ∀ rr ∈ rrs, rr.name = qn ∨ ∃ c ∈ rrs, cnameTarget c = some rr.name := by
  intro rr hrr
  obtain ⟨i, hi, hget⟩ := List.getElem_of_mem hrr
  have hi' : rrs[i]? = some rr := by rw [List.getElem?_eq_getElem hi, hget]
  rcases so_chainShaped_earlier h i rr hi' with h1 | ⟨j, c, _, hc, hct⟩
  · exact Or.inl h1
  · exact Or.inr ⟨c, List.mem_of_getElem? hc, hct⟩

/-- `ChainShaped` also fixes the types: every record is an alias record or has the asked type. -/
theorem so_chainShaped_types {qn : Name} {qtype : Nat} {rrs : List RR} (h : ChainShaped qn qtype rrs) :
    ∀ rr ∈ rrs, (∃ t, cnameTarget rr = some t) ∨ (rr.rtype = qtype ∧ cnameTarget rr = none) := by
  obtain ⟨cs, fs, e, rfl, hc, _, hf⟩ := h
  intro rr hrr
  rcases List.mem_append.mp hrr with h1 | h1
  · exact Or.inl (hc.all_cname rr h1)
  · exact Or.inr (hf rr h1).2

/-! ## the reply to one question -/

/-- the answer section of any reply `handle_raw_message` builds for a buffer that decodes to a
    message with the single question `q`: the resolver's records for `q`, or nothing. -/
theorem so_handle_answers {a : Bool} {res : ServerResolver} {buf : List UInt8} {m r : Message}
    {q : Question} (hd : decodeMessage buf = .ok m) (hq : m.questions = [q])
    (h : handleRawMessage a res buf = some r) :
    r.answers = [] ∨ r.answers = srvAnswersOf (res q (m.header.recursionDesired && !a)) := by
  cases hr : m.header.isResponse with
  | true => rw [srv_handle_response hd hr] at h; cases h
  | false =>
    by_cases ho : m.header.opcode = OPCODE_STANDARD
    · rw [srv_handle_query hd hr ho] at h; cases h
      rcases srv_rabr_cases a res m with h' | h' | ⟨q', hq', _, h'⟩ <;> rw [h']
      · exact Or.inl rfl
      · exact Or.inl rfl
      · rw [hq] at hq'; cases hq'
        exact Or.inr (srv_replyOf_fields a m _).2.2.2.2.2.2.2.1
    · rw [srv_handle_notimp hd hr ho] at h; cases h
      exact Or.inl rfl

/-- … and the whole reply when the message is a standard query and the question's type and class
    are known. -/
theorem so_handle_reply {a : Bool} {res : ServerResolver} {buf : List UInt8} {m r : Message}
    {q : Question} (hd : decodeMessage buf = .ok m) (ho : m.header.opcode = OPCODE_STANDARD)
    (hq : m.questions = [q]) (hk : questionIsUnknown q = false)
    (h : handleRawMessage a res buf = some r) :
    r = srvReplyOf a m (res q (m.header.recursionDesired && !a)) := by
  cases hr : m.header.isResponse with
  | true => rw [srv_handle_response hd hr] at h; cases h
  | false =>
    rw [srv_handle_query hd hr ho] at h; cases h
    exact srv_rabr_question a res m q (srv_triage_one_known hq hk)

/-! ## a CNAME question is answered with records of the question name -/

/-- a zone never answers a CNAME (or ANY) question with an alias verdict. -/
theorem so_resolve_no_cname_verdict {zs : Zones} {name : Name} {qtype : Nat} {z : Zone} {c : Name} {rr : RR}
    (hq : rtypeMatches RT_CNAME qtype = true) :
    zs.resolve name qtype ≠ some (z, some (.cname c rr)) := by
  intro h
  obtain ⟨_, rel, _, he⟩ := Zones.resolve_some h
  rw [ZNode.resolve_eq_rev] at he
  rcases ZNode.resolveRev_source name qtype rel.reverse z.records true with
    ⟨p, n, recs, nsd, cd, _, _, hs⟩ | hs | hs | ⟨z', zs', n, p, _, _, hs⟩ <;> rw [hs] at he
  · exact C02_cname_query_never_cname_result name qtype recs nsd cd hq c rr he.symm
  · cases he
  · cases he
  · cases he

theorem so_rtypeMatches_cname : rtypeMatches RT_CNAME RT_CNAME = true :=
  (C02_cname_matches_iff RT_CNAME).mpr (Or.inl rfl)

/-- one level of `resolve_local` on a CNAME question: a referral, or records of the question name
    (the alias is not followed: no recursive call matters). -/
theorem so_localStep_cname_owners {rec : Ctx → Question → LocalOut} {ctx : Ctx} {q : Question}
    (h5 : q.qtype = RT_CNAME) (r : LocalResult) (h : (localStep rec ctx q).2 = .ok r) :
    (∃ rs s d, r = .delegation rs s d) ∨ ∀ rr ∈ r.toResolved.rrs, rr.name = q.name := by
  have h255 : q.qtype ≠ QTYPE_WILDCARD := by rw [h5]; decide
  unfold localStep at h
  split at h
  · cases h
  · split at h
    · cases h
    · split at h
      · rename_i c res hzp
        simp only at h; subst h
        unfold zonePart at hzp
        split at hzp
        · cases hzp
        · cases hzp
        · rename_i zone zr hres
          have hown := Zones.resolve_owned hres
          unfold zoneResultPart at hzp
          split at hzp
          · rename_i rrs
            have hfin : ∀ f ∈ rrs, f.name = q.name := fun f hf => hown.answer rrs rfl f hf
            split at hzp
            · cases hzp; exact Or.inr hfin
            · split at hzp
              · cases hzp; exact Or.inr hfin
              · cases hzp
          · rename_i cname rr
            rw [h5] at hres
            exact absurd hres (so_resolve_no_cname_verdict so_rtypeMatches_cname)
          · split at hzp
            · split at hzp
              · cases hzp
              · cases hzp; exact Or.inl ⟨_, _, _, rfl⟩
            · cases hzp
          · split at hzp
            · cases hzp; exact Or.inr (by simp [LocalResult.toResolved, ResolvedRecord.rrs])
            · cases hzp
          · cases hzp
      · rename_i c rz hzp
        obtain ⟨hceq, hrz⟩ := zonePart_inr hzp
        subst hceq
        have hrz' : rz = [] := by
          rcases hrz with hrz | ⟨hw, _⟩
          · exact hrz
          · exact absurd hw h255
        subst hrz'
        unfold cacheStage at h
        obtain ⟨rc, fc, hcp, hrrs⟩ := finishPart_ok_rrs h
        right
        rw [hrrs, prioritisingMerge_nil]
        unfold cachePart at hcp
        have hc : (q.qtype != CNAME_QTYPE) = false := by simp [CNAME_QTYPE, h5]
        simp only [hc, Bool.and_false, Bool.false_eq_true, if_false, Except.ok.injEq, Prod.mk.injEq] at hcp
        rw [← hcp.1, Ctx.cacheGet_snd]
        exact cacheGet_owner _ _ _ _

theorem so_resolveLocal_cname_owners (fuel : Nat) (ctx : Ctx) (q : Question) (h5 : q.qtype = RT_CNAME)
    (r : LocalResult) (h : (resolveLocal fuel ctx q).2 = .ok r) :
    (∃ rs s d, r = .delegation rs s d) ∨ ∀ rr ∈ r.toResolved.rrs, rr.name = q.name := by
  cases fuel with
  | zero => rw [resolveLocal_zero] at h; cases h
  | succ n => rw [resolveLocal_succ] at h; exact so_localStep_cname_owners h5 r h

theorem so_authOnly_cname_owners (ctx : Ctx) (q : Question) (h5 : q.qtype = RT_CNAME)
    (hnd : ∀ rs s d, (resolveLocal (RECURSION_LIMIT + 1) ctx q).2 ≠ .ok (.delegation rs s d)) :
    ∀ rr ∈ srvAnswersOf (resolveAuthoritativeOnly ctx q).2, rr.name = q.name := by
  rw [so_resolveAuthOnly_snd]
  cases hl : (resolveLocal (RECURSION_LIMIT + 1) ctx q).2 with
  | error e => intro rr hrr; cases hrr
  | ok r =>
    rcases so_resolveLocal_cname_owners _ ctx q h5 r hl with ⟨rs, s, d, he⟩ | h
    · subst he; exact absurd hl (hnd rs s d)
    · exact h

/-! ## the referral -/

/-- what a local referral is: the NS set of a delegation point of an authoritative zone — at least
    one record, all of one owner (the delegation point `d.name`), with the zone's SOA; of type NS
    (hence no alias records) when the zones are consistently keyed. -/
theorem so_referral {fuel : Nat} {ctx : Ctx} {q : Question} {rs : List RR} {s : Option RR} {d : Nameservers}
    (h : (resolveLocal fuel ctx q).2 = .ok (.delegation rs s d)) :
    ∃ z soa first rest, s = some soa ∧ rs = first :: rest ∧
      ctx.zones.resolve q.name q.qtype = some (z, some (.delegation rs)) ∧ z.soaRR = some soa ∧
      d = { hostnames := rs.filterMap nsTarget, name := first.name } ∧
      (∀ rr ∈ rs, rr.name = d.name) ∧
      (ZoneAnswersTyped ctx.zones → ∀ rr ∈ rs, rr.rtype = RT_NS ∧ cnameTarget rr = none) := by
  cases fuel with
  | zero => rw [resolveLocal_zero] at h; cases h
  | succ n =>
    rw [resolveLocal_succ] at h
    obtain ⟨z, soa, first, rest, h1, h2, h3, h4, h5⟩ := localStep_delegation h
    refine ⟨z, soa, first, rest, h1, h2, h3, h4, h5, ?_, ?_⟩
    · intro rr hrr
      rw [h5]
      exact ((Zones.resolve_owned h3).delegation rs rfl).2 rr hrr first (by rw [h2]; simp)
    · intro hz rr hrr
      have ht := (hz _ _ _ _ h3).delegation rs rfl rr hrr
      exact ⟨ht, cnameTarget_none_of_rtype (by rw [ht]; decide)⟩

/-- a non-empty list of non-alias records of one owner is chain-shaped only if that owner is the
    question name and the records have the asked type. -/
theorem so_not_chainShaped {qn : Name} {qtype : Nat} {first : RR} {rest : List RR}
    (hna : cnameTarget first = none) (h : ChainShaped qn qtype (first :: rest)) :
    first.name = qn ∧ first.rtype = qtype := by
  obtain ⟨cs, fs, e, heq, hc, _, hf⟩ := h
  cases cs with
  | nil =>
    have he : e = qn := hc.last.1 rfl
    simp only [List.nil_append] at heq
    have := hf first (by rw [← heq]; simp)
    exact ⟨this.1.trans he, this.2.1⟩
  | cons c cs' =>
    simp only [List.cons_append, List.cons.injEq] at heq
    obtain ⟨t, ht⟩ := hc.all_cname c (by simp)
    rw [← heq.1, hna] at ht; cases ht

/-! ## configurations -/

/-- a zone as the loaders build it: `Zone::new` and insertions, under an apex `from_labels` accepts. -/
def so_built (z : Zone) : Prop := ∃ apex soa ops, NameOK apex ∧ Zone.build apex soa ops = some z

theorem so_fold_configured : ∀ (l : List Zone) (acc : Option Zones) (cfg : Zones),
    (∀ a, acc = some a → Zones.Configured a) → (∀ z ∈ l, so_built z) →
    l.foldl (fun acc z => acc.bind (·.insertMerge z)) acc = some cfg → Zones.Configured cfg := by
  intro l
  induction l with
  | nil => intro acc cfg ha _ h; exact ha cfg h
  | cons z rest ih =>
    intro acc cfg ha hl h
    simp only [List.foldl_cons] at h
    refine ih _ cfg ?_ (fun z' hz' => hl z' (List.mem_cons_of_mem _ hz')) h
    intro a' ha'
    cases acc with
    | none => cases ha'
    | some a =>
      obtain ⟨apex, soa, ops, hap, hb⟩ := hl z (by simp)
      exact .merge a a' apex soa ops z (ha a rfl) hap hb ha'

/-- what `load_zone_configuration` produces from zone files and a hosts zone that are all built by
    `Zone::new` and insertions is a `Zones.Configured`. -/
theorem so_load_configured {zoneFiles : List (Option Zone)} {hosts : Option Zone} {cfg : Zones}
    (hfiles : ∀ z, some z ∈ zoneFiles → so_built z) (hhosts : ∀ z, hosts = some z → so_built z)
    (h : loadConfiguration zoneFiles hosts = some cfg) : Zones.Configured cfg := by
  unfold loadConfiguration at h
  split at h
  · cases h
  · simp only at h
    cases hosts with
    | none => split at h <;> simp_all
    | some hz =>
      cases hm : (zoneFiles.filterMap id).foldl (fun acc z => acc.bind (·.insertMerge z)) (some Zones.empty) with
      | none => rw [hm] at h; cases h
      | some m =>
        rw [hm] at h
        simp only at h
        have hmc : Zones.Configured m := by
          refine so_fold_configured _ _ m ?_ ?_ hm
          · intro a ha; cases ha; exact .empty
          · intro z hzm
            simp only [List.mem_filterMap, id] at hzm
            obtain ⟨o, ho, rfl⟩ := hzm
            exact hfiles z ho
        obtain ⟨apex, soa, ops, hap, hb⟩ := hhosts hz rfl
        exact .merge m cfg apex soa ops hz hmc hap hb h

end Resolved
