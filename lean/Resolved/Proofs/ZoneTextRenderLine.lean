/-
  C11: the tokeniser inverts the LINE renderings of the specification — separators, parenthesised
  multi-line layout, comments, both line ends.
-/
import Resolved.Proofs.ZoneTextRender

namespace Resolved.ZoneText

open Resolved Resolved.IpText Gen ZTSpec

/-! ## skipping and gaps -/

/-- between tokens, the text `g` is skipped and changes the parenthesis flag from `lc` to `lc'`. -/
def Skip (g : List Char) (lc lc' : Bool) : Prop :=
  ∀ (rest : List Char) (rtoks : List Token),
    tokLoop 0 (g ++ rest) rtoks [] [] .initial lc = tokLoop 0 rest rtoks [] [] .initial lc'

/-- a gap: it also ends an unquoted token under construction. -/
structure Gap (g : List Char) (lc lc' : Bool) : Prop where
  init : Skip g lc lc'
  pend : ∀ (rest : List Char) (rtoks : List Token) (rstr : List Char) (roct : List UInt8), rstr ≠ [] →
    tokLoop 0 (g ++ rest) rtoks rstr roct .unquotedString lc
      = tokLoop 0 rest ((rstr.reverse, roct.reverse) :: rtoks) [] [] .initial lc'

theorem Skip.nil (lc : Bool) : Skip [] lc lc := fun _ _ => rfl

theorem Skip.append {g1 g2 : List Char} {a b c : Bool} (h1 : Skip g1 a b) (h2 : Skip g2 b c) :
    Skip (g1 ++ g2) a c := by
  intro rest rtoks
  rw [List.append_assoc, h1, h2]

theorem Gap.append_skip {g1 g2 : List Char} {a b c : Bool} (h1 : Gap g1 a b) (h2 : Skip g2 b c) :
    Gap (g1 ++ g2) a c := by
  constructor
  · exact h1.init.append h2
  · intro rest rtoks rstr roct hne
    rw [List.append_assoc, h1.pend _ _ _ _ hne, h2]

/-- a blank char: space, tab or carriage return. -/
def isBlank (c : Char) : Prop := c = ' ' ∨ c = '\t' ∨ c = '\r'

theorem skip_blank {c : Char} (hc : isBlank c) (lc : Bool) : Skip [c] lc lc := by
  intro rest rtoks
  rcases hc with h | h | h <;> subst h <;> simp [tokLoop, isWhitespace]

theorem gap_blank {c : Char} (hc : isBlank c) (lc : Bool) : Gap [c] lc lc := by
  refine ⟨skip_blank hc lc, ?_⟩
  intro rest rtoks rstr roct hne
  cases rstr with
  | nil => exact absurd rfl hne
  | cons d ds => rcases hc with h | h | h <;> subst h <;> simp [tokLoop, pushNonEmpty, isWhitespace]

theorem skip_blanks (g : List Char) (h : ∀ c ∈ g, isBlank c) (lc : Bool) : Skip g lc lc := by
  induction g with
  | nil => exact Skip.nil lc
  | cons c cs ih =>
    exact (skip_blank (h c (by simp)) lc).append (ih (fun d hd => h d (by simp [hd])))

theorem gap_blanks (g : List Char) (hne : g ≠ []) (h : ∀ c ∈ g, isBlank c) (lc : Bool) : Gap g lc lc := by
  cases g with
  | nil => exact absurd rfl hne
  | cons c cs =>
    exact (gap_blank (h c (by simp)) lc).append_skip (skip_blanks cs (fun d hd => h d (by simp [hd])) lc)

theorem sepText_blank (k : Nat) : sepText k ≠ [] ∧ ∀ c ∈ sepText k, isBlank c := by
  unfold sepText
  split <;> simp [isBlank]

theorem gap_sep (k : Nat) (lc : Bool) : Gap (sepText k) lc lc :=
  gap_blanks _ (sepText_blank k).1 (sepText_blank k).2 lc

theorem skip_sep (k : Nat) (lc : Bool) : Skip (sepText k) lc lc := (gap_sep k lc).init

theorem skip_open : Skip ['('] false true := by
  intro rest rtoks; simp [tokLoop]

theorem skip_close : Skip [')'] true false := by
  intro rest rtoks; simp [tokLoop]

/-- inside a comment everything up to the line feed is skipped. -/
theorem tokLoop_comment (c : List Char) (hc : '\n' ∉ c) :
    ∀ (rest : List Char) (rtoks : List Token) (lc : Bool),
      tokLoop 0 (c ++ rest) rtoks [] [] .skipToEndOfComment lc = tokLoop 0 rest rtoks [] [] .skipToEndOfComment lc := by
  induction c with
  | nil => intros; rfl
  | cons x xs ih =>
    intro rest rtoks lc
    have hx : x ≠ '\n' := fun h => hc (by simp [h])
    rw [List.cons_append]
    simp only [tokLoop, hx, if_false]
    exact ih (fun h => hc (by simp [h])) rest rtoks lc

/-- a comment and the line feed after it, inside parentheses: the entry goes on. -/
theorem skip_comment_newline_inside (c : List Char) (hc : '\n' ∉ c) : Skip (';' :: c ++ ['\n']) true true := by
  intro rest rtoks
  rw [show (';' :: c ++ ['\n']) ++ rest = ';' :: (c ++ ('\n' :: rest)) by simp]
  simp only [tokLoop, show (';' : Char) ≠ '\n' from by decide, if_false, if_true]
  rw [tokLoop_comment c hc]
  simp [tokLoop]

theorem skip_newline_inside : Skip ['\n'] true true := by
  intro rest rtoks; simp [tokLoop]

/-- a line end (`\n` or `\r\n`) inside parentheses. -/
def IsEol (eol : List Char) : Prop := eol = ['\n'] ∨ eol = ['\r', '\n']

theorem skip_eol_inside {eol : List Char} (h : IsEol eol) : Skip eol true true := by
  rcases h with h | h <;> subst h
  · exact skip_newline_inside
  · exact (skip_blank (Or.inr (Or.inr rfl)) true).append skip_newline_inside

theorem skip_comment_eol_inside {eol : List Char} (h : IsEol eol) (c : List Char) (hc : '\n' ∉ c) :
    Skip (';' :: c ++ eol) true true := by
  rcases h with h | h <;> subst h
  · exact skip_comment_newline_inside c hc
  · have : ';' :: c ++ ['\r', '\n'] = ';' :: (c ++ ['\r']) ++ ['\n'] := by simp
    rw [this]
    exact skip_comment_newline_inside (c ++ ['\r']) (by simp [hc])

/-! ## ends of an entry -/

/-- `e` ends the entry: outside parentheses after it, the line feed is consumed. -/
structure Ender (e : List Char) (lc : Bool) : Prop where
  init : ∀ (rest : List Char) (rtoks : List Token),
    tokLoop 0 (e ++ rest) rtoks [] [] .initial lc = .ok (rtoks.reverse, rest)
  pend : ∀ (rest : List Char) (rtoks : List Token) (rstr : List Char) (roct : List UInt8), rstr ≠ [] →
    tokLoop 0 (e ++ rest) rtoks rstr roct .unquotedString lc
      = .ok (((rstr.reverse, roct.reverse) :: rtoks).reverse, rest)

theorem ender_newline : Ender ['\n'] false := by
  constructor
  · intro rest rtoks; simp [tokLoop, pushNonEmpty]
  · intro rest rtoks rstr roct hne
    cases rstr with
    | nil => exact absurd rfl hne
    | cons d ds => simp [tokLoop, pushNonEmpty]

theorem Ender.of_gap {g e : List Char} {a b : Bool} (hg : Gap g a b) (he : Ender e b) : Ender (g ++ e) a := by
  constructor
  · intro rest rtoks; rw [List.append_assoc, hg.init, he.init]
  · intro rest rtoks rstr roct hne; rw [List.append_assoc, hg.pend _ _ _ _ hne, he.init]

theorem ender_eol {eol : List Char} (h : IsEol eol) : Ender eol false := by
  rcases h with h | h <;> subst h
  · exact ender_newline
  · exact Ender.of_gap (gap_blank (Or.inr (Or.inr rfl)) false) ender_newline

/-- a comment up to the line end ends the entry (outside parentheses). -/
theorem ender_comment {eol : List Char} (h : IsEol eol) (c : List Char) (hc : '\n' ∉ c) :
    Ender (' ' :: ';' :: c ++ eol) false := by
  have hskip : ∀ (rest : List Char) (rtoks : List Token),
      tokLoop 0 (';' :: c ++ eol ++ rest) rtoks [] [] .initial false = .ok (rtoks.reverse, rest) := by
    intro rest rtoks
    rcases h with h | h <;> subst h
    · rw [show (';' :: c ++ ['\n']) ++ rest = ';' :: (c ++ ('\n' :: rest)) by simp]
      simp only [tokLoop, show (';' : Char) ≠ '\n' from by decide, if_false, if_true]
      rw [tokLoop_comment c hc]
      simp [tokLoop, pushNonEmpty]
    · have : ';' :: c ++ ['\r', '\n'] ++ rest = ';' :: ((c ++ ['\r']) ++ ('\n' :: rest)) := by simp
      rw [this]
      simp only [tokLoop, show (';' : Char) ≠ '\n' from by decide, if_false, if_true]
      rw [tokLoop_comment (c ++ ['\r']) (by simp [hc])]
      simp [tokLoop, pushNonEmpty]
  have hg := gap_blank (c := ' ') (Or.inl rfl) false
  constructor
  · intro rest rtoks
    have := hg.init (';' :: c ++ eol ++ rest) rtoks
    simp only [List.singleton_append] at this
    rw [show (' ' :: ';' :: c ++ eol) ++ rest = ' ' :: (';' :: c ++ eol ++ rest) by simp, this, hskip]
  · intro rest rtoks rstr roct hne
    have := hg.pend (';' :: c ++ eol ++ rest) rtoks rstr roct hne
    simp only [List.singleton_append] at this
    rw [show (' ' :: ';' :: c ++ eol) ++ rest = ' ' :: (';' :: c ++ eol ++ rest) by simp, this, hskip]

/-- `e` followed by exactly `rest` ends the entry (used with `rest = []` for the end of the input). -/
structure EnderAt (e : List Char) (lc : Bool) (rest : List Char) : Prop where
  init : ∀ (rtoks : List Token),
    tokLoop 0 (e ++ rest) rtoks [] [] .initial lc = .ok (rtoks.reverse, rest)
  pend : ∀ (rtoks : List Token) (rstr : List Char) (roct : List UInt8), rstr ≠ [] →
    tokLoop 0 (e ++ rest) rtoks rstr roct .unquotedString lc
      = .ok (((rstr.reverse, roct.reverse) :: rtoks).reverse, rest)

theorem Ender.at {e : List Char} {lc : Bool} (h : Ender e lc) (rest : List Char) : EnderAt e lc rest :=
  ⟨fun rtoks => h.init rest rtoks, fun rtoks rstr roct hne => h.pend rest rtoks rstr roct hne⟩

theorem EnderAt.of_gap {g e : List Char} {a b : Bool} {rest : List Char} (hg : Gap g a b)
    (he : EnderAt e b rest) : EnderAt (g ++ e) a rest := by
  constructor
  · intro rtoks; rw [List.append_assoc, hg.init, he.init]
  · intro rtoks rstr roct hne; rw [List.append_assoc, hg.pend _ _ _ _ hne, he.init]

/-- the end of the input ends the entry. -/
theorem enderAt_eof : EnderAt [] false [] := by
  constructor
  · intro rtoks; simp [tokLoop, pushNonEmpty]
  · intro rtoks rstr roct hne
    cases rstr with
    | nil => exact absurd rfl hne
    | cons d ds => simp [tokLoop, pushNonEmpty]

/-- a comment running to the end of the input. -/
theorem enderAt_comment_eof (c : List Char) (hc : '\n' ∉ c) : EnderAt (' ' :: ';' :: c) false [] := by
  have hskip : ∀ (rtoks : List Token),
      tokLoop 0 (';' :: c) rtoks [] [] .initial false = .ok (rtoks.reverse, []) := by
    intro rtoks
    simp only [tokLoop, show (';' : Char) ≠ '\n' from by decide, if_false, if_true]
    have := tokLoop_comment c hc [] rtoks false
    rw [List.append_nil] at this
    rw [this]
    simp [tokLoop, pushNonEmpty]
  have hg := gap_blank (c := ' ') (Or.inl rfl) false
  have he : EnderAt (';' :: c) false [] := ⟨fun rtoks => by simpa using hskip rtoks,
    fun rtoks rstr roct hne => by
      -- a pending token cannot be directly followed by `;` here: the gap before it ends the token
      cases rstr with
      | nil => exact absurd rfl hne
      | cons d ds =>
        simp only [List.append_nil, tokLoop, show (';' : Char) ≠ '\n' from by decide, if_false, if_true]
        have := tokLoop_comment c hc [] (pushNonEmpty rtoks (d :: ds) roct) false
        rw [List.append_nil] at this
        rw [this]
        simp [tokLoop, pushNonEmpty]⟩
  have := EnderAt.of_gap hg he
  simpa using this

/-! ## tokens followed by gaps / ends -/

def tokenOf (atoms : List Atom) : Token := ((atomOctets atoms).map octetAsChar, atomOctets atoms)

/-- a rendered token followed by a gap. -/
theorem tok_gap (tv : TokVar) (atoms : List Atom) (hs : ∀ a ∈ atoms, StructuralOk a)
    {g : List Char} {lc lc' : Bool} (hg : Gap g lc lc') (rest : List Char) (rtoks : List Token) :
    tokLoop 0 (renderToken tv atoms ++ (g ++ rest)) rtoks [] [] .initial lc
      = tokLoop 0 rest (tokenOf atoms :: rtoks) [] [] .initial lc' := by
  by_cases hq : tv.quoted = true ∨ atoms = []
  · rw [tokLoop_renderToken_quoted tv atoms hq hs, hg.init]; rfl
  · have hq1 : tv.quoted = false := by
      cases h : tv.quoted with
      | false => rfl
      | true => exact absurd (Or.inl h) hq
    have hne : atoms ≠ [] := fun h => hq (Or.inr h)
    rw [tokLoop_renderToken_unquoted tv atoms hq1 hne hs, hg.pend]
    · simp [tokenOf]
    · cases atoms with
      | nil => exact absurd rfl hne
      | cons a as => simp [atomOctets]

/-- a rendered token followed by the end of the entry. -/
theorem tok_end (tv : TokVar) (atoms : List Atom) (hs : ∀ a ∈ atoms, StructuralOk a)
    {e : List Char} {lc : Bool} {rest : List Char} (he : EnderAt e lc rest) (rtoks : List Token) :
    tokLoop 0 (renderToken tv atoms ++ (e ++ rest)) rtoks [] [] .initial lc
      = .ok ((tokenOf atoms :: rtoks).reverse, rest) := by
  by_cases hq : tv.quoted = true ∨ atoms = []
  · rw [tokLoop_renderToken_quoted tv atoms hq hs, he.init]; rfl
  · have hq1 : tv.quoted = false := by
      cases h : tv.quoted with
      | false => rfl
      | true => exact absurd (Or.inl h) hq
    have hne : atoms ≠ [] := fun h => hq (Or.inr h)
    rw [tokLoop_renderToken_unquoted tv atoms hq1 hne hs, he.pend]
    · simp [tokenOf]
    · cases atoms with
      | nil => exact absurd rfl hne
      | cons a as => simp [atomOctets]

/-! ## the gaps of a rendered line -/

theorem gap_eol_inside {eol : List Char} (h : IsEol eol) : Gap eol true true := by
  rcases h with h | h <;> subst h
  · refine ⟨skip_newline_inside, ?_⟩
    intro rest rtoks rstr roct hne
    cases rstr with
    | nil => exact absurd rfl hne
    | cons d ds => simp [tokLoop, pushNonEmpty]
  · exact (gap_blank (Or.inr (Or.inr rfl)) true).append_skip skip_newline_inside

section line
variable (lv : LineVar) (eol : List Char) (n : Nat)

/-- are the parentheses of the variant in use on a line of `n` tokens? -/
def parenOn : Prop := ¬ (lv.openAt = 0 ∨ lv.openAt ≥ n)

instance : Decidable (parenOn lv n) := by unfold parenOn; infer_instance

def closeIdx : Nat := min (max lv.closeAt lv.openAt) (n - 1)

/-- the parenthesis flag of the tokeniser after token `k - 1` (before the gap that precedes token `k`). -/
def lcBefore (k : Nat) : Bool := decide (parenOn lv n ∧ lv.openAt < k ∧ k ≤ closeIdx lv n + 1)

theorem gapText_gap (heol : IsEol eol) (k : Nat) (hk1 : 1 ≤ k) (hkn : k < n) :
    Gap (gapText lv eol n k) (lcBefore lv n k) (lcBefore lv n (k + 1)) := by
  unfold gapText
  simp only
  by_cases hp : lv.openAt = 0 ∨ lv.openAt ≥ n
  · rw [if_pos hp]
    have h1 : lcBefore lv n k = false := by simp [lcBefore, parenOn, hp]
    have h2 : lcBefore lv n (k + 1) = false := by simp [lcBefore, parenOn, hp]
    rw [h1, h2]
    exact gap_sep _ _
  · rw [if_neg hp]
    have hpo : parenOn lv n := hp
    have ho0 : lv.openAt ≠ 0 := fun h => hp (Or.inl h)
    have hon : lv.openAt < n := by
      have : ¬ lv.openAt ≥ n := fun h => hp (Or.inr h)
      omega
    have hclose : (if lv.openAt = 0 then 0 else min (max lv.closeAt lv.openAt) (n - 1)) = closeIdx lv n := by
      rw [if_neg ho0]; rfl
    rw [hclose]
    have hoc : lv.openAt ≤ closeIdx lv n := by unfold closeIdx; omega
    have hcn : closeIdx lv n ≤ n - 1 := by unfold closeIdx; omega
    by_cases hk : k = lv.openAt
    · rw [if_pos hk]
      have h1 : lcBefore lv n k = false := by simp [lcBefore, hk]
      have h2 : lcBefore lv n (k + 1) = true := by simp [lcBefore, hpo, hk]; omega
      rw [h1, h2]
      exact ((gap_sep _ false).append_skip skip_open).append_skip (skip_sep _ true)
    · rw [if_neg hk]
      by_cases hin : lv.openAt < k ∧ k ≤ closeIdx lv n
      · rw [if_pos hin]
        have h1 : lcBefore lv n k = true := by simp [lcBefore, hpo]; omega
        have h2 : lcBefore lv n (k + 1) = true := by simp [lcBefore, hpo]; omega
        rw [h1, h2]
        split
        · split
          · have hc : '\n' ∉ [' ', '(', 'c', ' ', '"'] := by decide
            have := ((gap_blank (c := ' ') (Or.inl rfl) true).append_skip
              (skip_comment_eol_inside heol _ hc)).append_skip (skip_sep (cyc lv.seps k) true)
            simpa [commentText, List.append_assoc] using this
          · simpa using (gap_eol_inside heol).append_skip (skip_sep (cyc lv.seps k) true)
        · exact gap_sep _ _
      · rw [if_neg hin]
        by_cases hc : k = closeIdx lv n + 1
        · rw [if_pos hc]
          have h1 : lcBefore lv n k = true := by simp [lcBefore, hpo, hc]; omega
          have h2 : lcBefore lv n (k + 1) = false := by simp [lcBefore, hc]
          rw [h1, h2]
          exact ((gap_sep _ true).append_skip skip_close).append_skip (skip_sep _ false)
        · rw [if_neg hc]
          have h1 : lcBefore lv n k = false := by
            simp only [lcBefore, decide_eq_false_iff_not]
            intro ⟨_, ha, hb⟩
            exact hin ⟨ha, by omega⟩
          have h2 : lcBefore lv n (k + 1) = false := by
            simp only [lcBefore, decide_eq_false_iff_not]
            intro ⟨_, ha, hb⟩
            have : k ≤ closeIdx lv n := by omega
            have : ¬ lv.openAt < k := fun h => hin ⟨h, this⟩
            omega
          rw [h1, h2]
          exact gap_sep _ _

/-- the text after a token: for each further token its gap and its rendering. -/
def afterTok : Nat → List (List Atom) → List Char
  | _, [] => []
  | k, t :: ts => gapText lv eol n k ++ renderToken (cyc lv.toks k) t ++ afterTok (k + 1) ts

theorem renderTokensFrom_succ (k : Nat) (ts : List (List Atom)) :
    renderTokensFrom lv eol n (k + 1) ts = afterTok lv eol n (k + 1) ts := by
  induction ts generalizing k with
  | nil => rfl
  | cons t ts ih => simp [renderTokensFrom, afterTok, ih]

theorem renderTokensFrom_zero (t : List Atom) (ts : List (List Atom)) :
    renderTokensFrom lv eol n 0 (t :: ts) = renderToken (cyc lv.toks 0) t ++ afterTok lv eol n 1 ts := by
  simp [renderTokensFrom, renderTokensFrom_succ]

/-- **the tokens of a line**: token `k`, then the gaps and tokens after it, then an end of entry. -/
theorem tokLoop_line (heol : IsEol eol) (e : List Char) (rest : List Char) (he : EnderAt e (lcBefore lv n n) rest) :
    ∀ (ts : List (List Atom)) (t : List Atom) (k : Nat) (rtoks : List Token),
      k + 1 + ts.length = n → (∀ a ∈ t, StructuralOk a) → (∀ x ∈ ts, ∀ a ∈ x, StructuralOk a) →
      tokLoop 0 (renderToken (cyc lv.toks k) t ++ (afterTok lv eol n (k + 1) ts ++ (e ++ rest))) rtoks [] []
          .initial (lcBefore lv n (k + 1))
        = .ok (rtoks.reverse ++ (t :: ts).map tokenOf, rest) := by
  intro ts
  induction ts with
  | nil =>
    intro t k rtoks hn ht _
    simp only [afterTok, List.nil_append]
    have : k + 1 = n := by simpa using hn
    rw [this, tok_end _ _ ht he]
    simp
  | cons t' ts ih =>
    intro t k rtoks hn ht hts
    simp only [afterTok, List.append_assoc]
    have hk : k + 1 < n := by simp at hn; omega
    rw [tok_gap _ _ ht (gapText_gap lv eol n heol (k + 1) (by omega) hk)]
    rw [ih t' (k + 1) _ (by simp at hn ⊢; omega) (hts t' (by simp)) (fun x hx => hts x (by simp [hx]))]
    simp

end line

/-! ## whole lines -/

/-- the body of `renderLine` for a directive with tokens `toks`. -/
def lineBody (lv : LineVar) (eol : List Char) (omitted : Bool) (toks : List (List Atom)) : List Char :=
  let n := toks.length
  let close := if lv.openAt = 0 ∨ lv.openAt ≥ n then 0 else min (max lv.closeAt lv.openAt) (n - 1)
  (if omitted then sepText (cyc lv.seps 0) else [])
    ++ renderTokensFrom lv eol n 0 toks
    ++ (if lv.openAt ≠ 0 ∧ lv.openAt < n ∧ close = n - 1 then [' ', ')'] else [])
    ++ (match lv.comment with | some c => [' '] ++ commentText c | none => [])

theorem renderLine_eq (lv : LineVar) (eol : List Char) (d : Directive) (h : ∀ c, d ≠ .blank c) :
    renderLine lv eol d = lineBody lv eol (ownerOmitted d) (directiveTokens lv d) := by
  cases d with
  | blank c => exact absurd rfl (h c)
  | origin n => rfl
  | «include» p o => rfl
  | record r => rfl

def CommentOk (lv : LineVar) : Prop := ∀ c, lv.comment = some c → '\n' ∉ c

theorem lcBefore_one (lv : LineVar) (n : Nat) : lcBefore lv n 1 = false := by
  unfold lcBefore parenOn
  apply decide_eq_false
  intro ⟨h1, h2, _⟩
  have : lv.openAt ≠ 0 := fun h => h1 (Or.inl h)
  omega

/-- **the tokeniser inverts the line renderings**: a directive line in ANY lexical variant —
    separators, every token bare / escaped / quoted in any mixture, one line or parenthesised
    across lines with or without comments before the line breaks, a trailing comment, `\n` or
    `\r\n` — is read as exactly the directive's tokens, and the entry ends at the line end. -/
theorem tokenise_lineBody_at (lv : LineVar) (eol : List Char) (heol : IsEol eol)
    (omitted : Bool) (t : List Atom) (ts : List (List Atom))
    (hs : ∀ x ∈ t :: ts, ∀ a ∈ x, StructuralOk a) (tailE rest : List Char)
    (hcm : EnderAt ((match lv.comment with | some c => [' '] ++ commentText c | none => []) ++ tailE) false rest) :
    tokeniseEntry (lineBody lv eol omitted (t :: ts) ++ tailE ++ rest) = .ok ((t :: ts).map tokenOf, rest) := by
  let n := (t :: ts).length
  -- the end of the entry: closing parenthesis (if still open), trailing comment, line end
  have hend : EnderAt ((if lv.openAt ≠ 0 ∧ lv.openAt < n ∧ (if lv.openAt = 0 ∨ lv.openAt ≥ n then 0
        else min (max lv.closeAt lv.openAt) (n - 1)) = n - 1 then [' ', ')'] else [])
      ++ (match lv.comment with | some c => [' '] ++ commentText c | none => []) ++ tailE) (lcBefore lv n n) rest := by
    by_cases hp : lv.openAt = 0 ∨ lv.openAt ≥ n
    · have h1 : lcBefore lv n n = false := by simp [lcBefore, parenOn, hp]
      have h2 : ¬ (lv.openAt ≠ 0 ∧ lv.openAt < n ∧ (if lv.openAt = 0 ∨ lv.openAt ≥ n then 0
          else min (max lv.closeAt lv.openAt) (n - 1)) = n - 1) := by
        intro ⟨a, b, _⟩
        rcases hp with h | h
        · exact a h
        · omega
      rw [h1, if_neg h2]
      simpa using hcm
    · have ho0 : lv.openAt ≠ 0 := fun h => hp (Or.inl h)
      have hon : lv.openAt < n := by
        have : ¬ lv.openAt ≥ n := fun h => hp (Or.inr h)
        omega
      rw [if_neg hp]
      by_cases hcl : min (max lv.closeAt lv.openAt) (n - 1) = n - 1
      · have h1 : lcBefore lv n n = true := by
          simp only [lcBefore, decide_eq_true_eq]
          exact ⟨hp, hon, by unfold closeIdx; omega⟩
        rw [h1, if_pos ⟨ho0, hon, hcl⟩]
        have hg : Gap [' ', ')'] true false := (gap_blank (c := ' ') (Or.inl rfl) true).append_skip skip_close
        have := EnderAt.of_gap hg hcm
        simpa [List.append_assoc] using this
      · have h1 : lcBefore lv n n = false := by
          simp only [lcBefore, decide_eq_false_iff_not]
          intro ⟨_, _, hb⟩
          unfold closeIdx at hb
          omega
        have h2 : ¬ (lv.openAt ≠ 0 ∧ lv.openAt < n ∧ min (max lv.closeAt lv.openAt) (n - 1) = n - 1) :=
          fun ⟨_, _, c⟩ => hcl c
        rw [h1, if_neg h2]
        simpa using hcm
  have hmain := tokLoop_line lv eol n heol _ rest hend ts t 0 [] (by simp [n]; omega)
    (hs t (by simp)) (fun x hx => hs x (by simp [hx]))
  rw [lcBefore_one] at hmain
  unfold tokeniseEntry lineBody
  simp only [renderTokensFrom_zero, List.append_assoc]
  cases omitted with
  | true =>
    simp only [if_true]
    rw [skip_sep (cyc lv.seps 0) false]
    simpa [List.append_assoc, n] using hmain
  | false =>
    simp only [Bool.false_eq_true, if_false, List.nil_append]
    simpa [List.append_assoc, n] using hmain

theorem tokenise_lineBody (lv : LineVar) (eol : List Char) (heol : IsEol eol) (hc : CommentOk lv)
    (omitted : Bool) (t : List Atom) (ts : List (List Atom))
    (hs : ∀ x ∈ t :: ts, ∀ a ∈ x, StructuralOk a) (rest : List Char) :
    tokeniseEntry (lineBody lv eol omitted (t :: ts) ++ eol ++ rest) = .ok ((t :: ts).map tokenOf, rest) := by
  apply tokenise_lineBody_at lv eol heol omitted t ts hs eol rest
  cases hcomm : lv.comment with
  | none => simpa using (ender_eol heol).at rest
  | some c =>
    have := (ender_comment heol c (hc c hcomm)).at rest
    simpa [commentText, List.append_assoc] using this

/-- the same at the end of the input, without a final line end. -/
theorem tokenise_lineBody_eof (lv : LineVar) (eol : List Char) (heol : IsEol eol) (hc : CommentOk lv)
    (omitted : Bool) (t : List Atom) (ts : List (List Atom))
    (hs : ∀ x ∈ t :: ts, ∀ a ∈ x, StructuralOk a) :
    tokeniseEntry (lineBody lv eol omitted (t :: ts)) = .ok ((t :: ts).map tokenOf, []) := by
  have := tokenise_lineBody_at lv eol heol omitted t ts hs [] [] (by
    cases hcomm : lv.comment with
    | none => simpa using enderAt_eof
    | some c =>
      have := enderAt_comment_eof c (hc c hcomm)
      simpa [commentText, List.append_assoc] using this)
  simpa using this

/-- what follows a directive line: the line end, or nothing at the very end of the input. -/
def LineEnd (eol tailE rest : List Char) : Prop := tailE = eol ∨ (tailE = [] ∧ rest = [])

theorem tokenise_lineBody_le (lv : LineVar) (eol : List Char) (heol : IsEol eol) (hc : CommentOk lv)
    (omitted : Bool) (t : List Atom) (ts : List (List Atom))
    (hs : ∀ x ∈ t :: ts, ∀ a ∈ x, StructuralOk a) (tailE rest : List Char) (hle : LineEnd eol tailE rest) :
    tokeniseEntry (lineBody lv eol omitted (t :: ts) ++ tailE ++ rest) = .ok ((t :: ts).map tokenOf, rest) := by
  rcases hle with rfl | ⟨rfl, rfl⟩
  · exact tokenise_lineBody lv tailE heol hc omitted t ts hs rest
  · simpa using tokenise_lineBody_eof lv eol heol hc omitted t ts hs

/-- a blank or comment-only line yields no token. -/
theorem tokenise_blank_line (lv : LineVar) (eol : List Char) (heol : IsEol eol) (c : Option (List Char))
    (hc : ∀ x, c = some x → '\n' ∉ x) (rest : List Char) :
    tokeniseEntry (renderLine lv eol (.blank c) ++ eol ++ rest) = .ok ([], rest) := by
  unfold tokeniseEntry
  cases c with
  | none => simpa [renderLine] using (ender_eol heol).init rest []
  | some x =>
    simp only [renderLine]
    have hx := hc x rfl
    rcases heol with h | h <;> subst h
    · rw [show commentText x ++ ['\n'] ++ rest = ';' :: (x ++ ('\n' :: rest)) by simp [commentText]]
      simp only [tokLoop, show (';' : Char) ≠ '\n' from by decide, if_false, if_true]
      rw [tokLoop_comment x hx]
      simp [tokLoop, pushNonEmpty]
    · rw [show commentText x ++ ['\r', '\n'] ++ rest = ';' :: ((x ++ ['\r']) ++ ('\n' :: rest)) by simp [commentText]]
      simp only [tokLoop, show (';' : Char) ≠ '\n' from by decide, if_false, if_true]
      rw [tokLoop_comment (x ++ ['\r']) (by simp [hx])]
      simp [tokLoop, pushNonEmpty]

theorem tokenise_blank_line_le (lv : LineVar) (eol : List Char) (heol : IsEol eol) (c : Option (List Char))
    (hc : ∀ x, c = some x → '\n' ∉ x) (tailE rest : List Char) (hle : LineEnd eol tailE rest) :
    tokeniseEntry (renderLine lv eol (.blank c) ++ tailE ++ rest) = .ok ([], rest) := by
  rcases hle with rfl | ⟨rfl, rfl⟩
  · exact tokenise_blank_line lv tailE heol c hc rest
  · unfold tokeniseEntry
    cases c with
    | none => simp [renderLine, tokLoop, pushNonEmpty]
    | some x =>
      have hx := hc x rfl
      simp only [renderLine, commentText, List.append_nil, List.singleton_append]
      simp only [tokLoop, show (';' : Char) ≠ '\n' from by decide, if_false, if_true]
      have := tokLoop_comment x hx [] [] false
      rw [List.append_nil] at this
      rw [this]
      simp [tokLoop, pushNonEmpty]

end Resolved.ZoneText
