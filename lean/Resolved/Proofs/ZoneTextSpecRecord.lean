/-
  C11: one record line of the specification's rendering, read by `parse_rr`, against `denoteRecord`:
  owners, RDATA fields, type tokens.
-/
import Resolved.Proofs.ZoneTextSpecNames

namespace Resolved.ZoneText

open Resolved Resolved.IpText Gen ZTSpec

/-! ## names: all three forms -/

theorem nameRefOk_rel {ls : List Label} (h : nameRefOk false (.rel ls) = true) :
    ls ≠ [] ∧ ls.all (labelOk false) = true ∧ ls ≠ [[64]] := by
  unfold nameRefOk at h
  simp only [Bool.false_or, Bool.and_eq_true, Bool.not_eq_true', bne_iff_ne, ne_eq,
    List.isEmpty_eq_false_iff] at h
  exact ⟨h.1.1, h.1.2, h.2⟩

theorem parseDomain_spec (o : Option Name) (ho : ∀ on, o = some on → TextName on) (n : NameRef)
    (hn : nameRefOk false n = true) :
    parseDomain o (nameChars n) = nameResult (resolve o n) := by
  cases n with
  | abs ls => exact parseDomain_abs o ls (by simpa [nameRefOk] using hn)
  | rel ls =>
    obtain ⟨h1, h2, h3⟩ := nameRefOk_rel hn
    exact parseDomain_rel o ho ls h1 h2 h3
  | «at» =>
    have : nameChars .at = ['@'] := rfl
    rw [this]
    cases o <;> rfl

theorem nameChars_ne_nil (n : NameRef) (hn : nameRefOk false n = true) : nameChars n ≠ [] := by
  cases n with
  | abs ls =>
    cases ls with
    | nil => simp [nameChars, nameAtoms, atomOctets, dot]
    | cons l rest => simp [nameChars, nameAtoms, atomOctets, dot]
  | rel ls =>
    have hn := nameRefOk_rel hn
    replace hn : (ls ≠ [] ∧ ls.all (labelOk false) = true) ∧ ls ≠ [[64]] := ⟨⟨hn.1, hn.2.1⟩, hn.2.2⟩
    obtain ⟨hlen, -, -⟩ := labelsOk_props hn.1.2
    have hoct : atomOctets (nameAtoms (.rel ls)) = joinDots ls := by
      unfold nameAtoms
      split
      · rename_i heq; cases heq
      · rename_i heq; cases heq
      · rename_i heq; cases heq; exact absurd rfl hn.2
      · rename_i heq; cases heq; exact atomOctets_dottedLabels ls
      · rename_i heq; cases heq
    unfold nameChars
    rw [hoct]
    simpa using joinDots_ne_nil ls hn.1.1 hlen
  | «at» => simp [nameChars, nameAtoms, atomOctets]

/-! ## owners -/

def mwOf (p : Bool × Name) : MaybeWildcard := if p.1 then .wildcard p.2 else .normal p.2

def ownerChars (o : OwnerRef) : List Char := (atomOctets (ownerAtoms o)).map octetAsChar

def ownerResult : Except SpecError (Bool × Name) → Except Error MaybeWildcard
  | .ok p => .ok (mwOf p)
  | .error e => .error (nameErr e)

/-- a string that is neither `*` nor begins with `*.` is an ordinary owner. -/
theorem parseDomainOrWildcard_normal (o : Option Name) (s : List Char) (hne : s ≠ [])
    (h1 : s ≠ ['*']) (h2 : ∀ rest, s ≠ '*' :: '.' :: rest) :
    parseDomainOrWildcard o s =
      (match parseDomain o s with | .ok name => .ok (.normal name) | .error e => .error e) := by
  unfold parseDomainOrWildcard
  cases s with
  | nil => exact absurd rfl hne
  | cons c0 cs =>
    simp only [List.isEmpty_cons, Bool.false_eq_true, if_false, if_neg h1]
    cases cs with
    | nil => rfl
    | cons c1 rest =>
      have : ¬ (c0 = '*' ∧ c1 = '.') := by
        rintro ⟨rfl, rfl⟩
        exact h2 rest rfl
      simp only [this, if_false]
      cases parseDomain o (c0 :: c1 :: rest) <;> rfl

/-- the first two chars of the text of a name whose first label is not `*`. -/
theorem nameChars_not_wild (n : NameRef) (hn : nameRefOk false n = true) (hs : firstLabelStar n = false) :
    nameChars n ≠ ['*'] ∧ ∀ rest, nameChars n ≠ '*' :: '.' :: rest := by
  have key : ∀ (l : Label) (tail : List UInt8), l ≠ [42] → l ≠ [] → (∀ b ∈ l, b ≠ 46) →
      (tail = [] ∨ tail.head? = some 46) →
      ((l ++ tail).map octetAsChar ≠ ['*'] ∨ tail ≠ []) ∧
      ∀ rest, (l ++ tail).map octetAsChar ≠ '*' :: '.' :: rest := by
    intro l tail h42 hne hnd _
    cases l with
    | nil => exact absurd rfl hne
    | cons b bs =>
      by_cases hb : b = 42
      · subst hb
        cases bs with
        | nil => exact absurd rfl h42
        | cons b2 bs2 =>
          have hb2 : b2 ≠ 46 := hnd b2 (by simp)
          refine ⟨Or.inl (by simp), ?_⟩
          intro rest he
          simp only [List.cons_append, List.map_cons, List.cons.injEq] at he
          exact hb2 (octetAsChar_inj (he.2.1.trans (show '.' = octetAsChar 46 from rfl)))
      · have hc : octetAsChar b ≠ '*' := fun he => hb (octetAsChar_inj (he.trans (show '*' = octetAsChar 42 from rfl)))
        refine ⟨Or.inl ?_, ?_⟩
        · intro he; simp only [List.cons_append, List.map_cons, List.cons.injEq] at he; exact hc he.1
        · intro rest he; simp only [List.cons_append, List.map_cons, List.cons.injEq] at he; exact hc he.1
  cases n with
  | «at» => exact ⟨by decide, fun rest => by simp [nameChars, nameAtoms, atomOctets]⟩
  | abs ls =>
    cases ls with
    | nil => exact ⟨by decide, fun rest => by simp [nameChars, nameAtoms, atomOctets, dot]⟩
    | cons l rest =>
      have hok : (l :: rest).all (labelOk false) = true := by simpa [nameRefOk] using hn
      obtain ⟨hlen, hnd, -⟩ := labelsOk_props hok
      have hl42 : l ≠ [42] := by simpa [firstLabelStar] using hs
      have hlne : l ≠ [] := by
        have := (hlen l (by simp)).1
        intro he; subst he; simp at this
      have hoct : atomOctets (nameAtoms (.abs (l :: rest))) = joinDots (l :: rest) ++ [46] := by
        simp [nameAtoms, atomOctets, ← atomOctets_dottedLabels, dot]
      unfold nameChars
      rw [hoct]
      cases rest with
      | nil =>
        have := key l [46] hl42 hlne (hnd l (by simp)) (Or.inr rfl)
        simp only [joinDots]
        refine ⟨?_, this.2⟩
        intro he
        have hl1 := (hlen l (by simp)).1
        have := congrArg List.length he
        simp only [List.length_map, List.length_append, List.length_cons, List.length_nil] at this
        omega
      | cons m ms =>
        rw [joinDots_cons l _ (by simp)]
        have := key l (46 :: (joinDots (m :: ms) ++ [46])) hl42 hlne (hnd l (by simp)) (Or.inr rfl)
        simp only [List.append_assoc, List.cons_append] at this ⊢
        refine ⟨?_, this.2⟩
        intro he
        have := congrArg List.length he
        simp only [List.length_map, List.length_append, List.length_cons, List.length_nil] at this
        omega
  | rel ls =>
    have hn := nameRefOk_rel hn
    replace hn : (ls ≠ [] ∧ ls.all (labelOk false) = true) ∧ ls ≠ [[64]] := ⟨⟨hn.1, hn.2.1⟩, hn.2.2⟩
    obtain ⟨hlen, hnd, -⟩ := labelsOk_props hn.1.2
    have hoct : atomOctets (nameAtoms (.rel ls)) = joinDots ls := by
      unfold nameAtoms
      split
      · rename_i heq; cases heq
      · rename_i heq; cases heq
      · rename_i heq; cases heq; exact absurd rfl hn.2
      · rename_i heq; cases heq; exact atomOctets_dottedLabels ls
      · rename_i heq; cases heq
    unfold nameChars
    rw [hoct]
    cases ls with
    | nil => exact absurd rfl hn.1.1
    | cons l rest =>
      have hl42 : l ≠ [42] := by simpa [firstLabelStar] using hs
      have hlne : l ≠ [] := by
        have := (hlen l (by simp)).1
        intro he; subst he; simp at this
      cases rest with
      | nil =>
        have := key l [] hl42 hlne (hnd l (by simp)) (Or.inl rfl)
        simp only [List.append_nil] at this
        simp only [joinDots]
        refine ⟨?_, this.2⟩
        rcases this.1 with h | h
        · exact h
        · exact absurd rfl h
      | cons m ms =>
        rw [joinDots_cons l _ (by simp)]
        have := key l (46 :: joinDots (m :: ms)) hl42 hlne (hnd l (by simp)) (Or.inr rfl)
        refine ⟨?_, this.2⟩
        intro he
        have := congrArg List.length he
        simp at this
        have := (hlen l (by simp)).1
        omega

/-- **owners**: the owner field as rendered is read as the specification resolves it. -/
theorem parseOwner_spec (o : Option Name) (ho : ∀ on, o = some on → TextName on) (ow : OwnerRef)
    (hok : ownerRefOk false ow = true) :
    parseDomainOrWildcard o (ownerChars ow) = ownerResult (resolveOwner o ow) := by
  cases ow with
  | star =>
    have : ownerChars .star = ['*'] := rfl
    rw [this]
    cases o <;> rfl
  | wild n =>
    have hn : nameRefOk false n = true := by simpa [ownerRefOk] using hok
    have hch : ownerChars (.wild n) = '*' :: '.' :: nameChars n := by
      simp [ownerChars, ownerAtoms, nameChars, atomOctets, dot]
      exact ⟨rfl, rfl⟩
    rw [hch]
    unfold parseDomainOrWildcard
    have h1 : ('*' :: '.' :: nameChars n) ≠ ['*'] := by simp
    have h2 : (nameChars n).isEmpty = false := by
      cases hc : nameChars n with
      | nil => exact absurd hc (nameChars_ne_nil n hn)
      | cons _ _ => rfl
    simp only [List.isEmpty_cons, Bool.false_eq_true, if_false, if_neg h1, and_self, if_true, h2,
      parseDomain_spec o ho n hn, resolveOwner]
    cases resolve o n <;> rfl
  | name n =>
    simp only [ownerRefOk, Bool.and_eq_true, Bool.not_eq_true', bne_iff_ne, ne_eq] at hok
    obtain ⟨⟨⟨⟨⟨⟨hn, hstar⟩, -⟩, -⟩, -⟩, -⟩, -⟩ := hok
    have hch : ownerChars (.name n) = nameChars n := rfl
    rw [hch]
    obtain ⟨h1, h2⟩ := nameChars_not_wild n hn hstar
    rw [parseDomainOrWildcard_normal o _ (nameChars_ne_nil n hn) h1 h2, parseDomain_spec o ho n hn]
    simp only [resolveOwner]
    cases resolve o n <;> rfl

/-! ## plain tokens -/

theorem octetAsChar_ofNat (c : Char) (h : c.toNat < 256) : octetAsChar (UInt8.ofNat c.toNat) = c := by
  unfold octetAsChar
  have : (UInt8.ofNat c.toNat).toNat = c.toNat := by simp; omega
  rw [this]
  exact Char.ofNat_toNat c

theorem chars_asciiOctets (s : List Char) (h : ∀ c ∈ s, c.toNat < 128) :
    (asciiOctets s).map octetAsChar = s := by
  induction s with
  | nil => rfl
  | cons c cs ih =>
    simp only [asciiOctets, List.map_cons, List.map_map] at ih ⊢
    rw [octetAsChar_ofNat c (by have := h c (by simp); omega)]
    congr 1
    exact ih (fun d hd => h d (by simp [hd]))

theorem atomOctets_plainAtoms (bs : List UInt8) : atomOctets (plainAtoms bs) = bs := by
  simp [atomOctets, plainAtoms, Function.comp_def]

theorem tokenOf_plainAtoms (bs : List UInt8) : tokenOf (plainAtoms bs) = (bs.map octetAsChar, bs) := by
  simp [tokenOf, atomOctets_plainAtoms]

theorem tokenOf_asciiAtoms (s : List Char) (h : ∀ c ∈ s, c.toNat < 128) :
    tokenOf (asciiAtoms s) = (s, asciiOctets s) := by
  simp [asciiAtoms, tokenOf_plainAtoms, chars_asciiOctets s h]

theorem showDec_ascii' (n : Nat) : ∀ c ∈ showDec n, c.toNat < 128 := showDec_ascii n

/-! ## the type token -/

theorem mnemonics_eq_rtypeNames : mnemonics = rtypeNames := rfl

theorem rtypeNames_not_TY : ∀ p ∈ rtypeNames, p.2.take 2 ≠ ['T', 'Y'] := by decide

theorem rtypeFromStr_numeric (code : Nat) (h : code < 65536) :
    rtypeFromStr (['T', 'Y', 'P', 'E'] ++ showDec code) = some code := by
  unfold rtypeFromStr
  rw [lookupByName_none]
  · simp only [List.cons_append, List.nil_append, List.take_succ_cons, List.take_zero, sTYPE, if_true,
      List.drop_succ_cons, List.drop_zero]
    exact parseU16_showDec code h
  · intro p hp he
    have := rtypeNames_not_TY p hp
    rw [← he] at this
    simp at this

theorem rtypeFromStr_mnemonic : ∀ p ∈ rtypeNames, rtypeFromStr p.2 = some p.1 := by decide

theorem rtypeNames_ascii : ∀ p ∈ rtypeNames, ∀ c ∈ p.2, c.toNat < 128 := by decide

/-- the 18 supported type codes. -/
def KnownCode (code : Nat) : Prop := (code, showRtype code) ∈ rtypeNames

theorem mnemonicOf_known {code : Nat} (h : KnownCode code) :
    ∃ name, mnemonicOf code = some name ∧ (code, name) ∈ rtypeNames := by
  have : ∀ p ∈ rtypeNames, mnemonicOf p.1 = some p.2 := by decide
  exact ⟨showRtype code, this (code, showRtype code) h, h⟩

theorem knownCode_lt {code : Nat} (h : KnownCode code) : code < 65536 := by
  have : ∀ p ∈ rtypeNames, p.1 < 65536 := by decide
  exact this (code, showRtype code) h

/-- **the type token**, as mnemonic or as `TYPE<n>`, is read as the type. -/
theorem typeToken_spec (numeric : Bool) (code : Nat) (h : KnownCode code) :
    ∃ s, tokenOf (asciiAtoms (typeText numeric code)) = (s, asciiOctets s) ∧ rtypeFromStr s = some code ∧
      typeText numeric code = s := by
  obtain ⟨name, hmn, hmem⟩ := mnemonicOf_known h
  cases numeric with
  | false =>
    have : typeText false code = name := by simp [typeText, hmn]
    rw [this]
    exact ⟨name, tokenOf_asciiAtoms name (rtypeNames_ascii _ hmem), rtypeFromStr_mnemonic _ hmem, rfl⟩
  | true =>
    have : typeText true code = ['T', 'Y', 'P', 'E'] ++ showDec code := by simp [typeText]
    rw [this]
    refine ⟨_, tokenOf_asciiAtoms _ ?_, rtypeFromStr_numeric code (knownCode_lt h), rfl⟩
    intro c hc
    simp only [List.mem_append, List.mem_cons, List.not_mem_nil, or_false] at hc
    rcases hc with (rfl | rfl | rfl | rfl) | hc
    · decide
    · decide
    · decide
    · decide
    · exact showDec_ascii code c hc

/-! ## RDATA fields -/

/-- the token of one RDATA field as rendered. -/
def fieldTok (lv : LineVar) (f : RField) : Token := tokenOf (fieldAtoms lv f)

/-- RDATA of the specification that fits its type, by layout. -/
inductive SpecRdata : Nat → List RField → Prop where
  | a (x : Nat) (h : x < 4294967296) : SpecRdata 1 [.a x]
  | oneName (c : Nat) (hc : c = 2 ∨ c = 3 ∨ c = 4 ∨ c = 5 ∨ c = 7 ∨ c = 8 ∨ c = 9 ∨ c = 12) (n : NameRef) :
      SpecRdata c [.name n]
  | soa (m r : NameRef) (a b c d e : Nat) (ha : a < 4294967296) (hb : b < 4294967296) (hc : c < 4294967296)
      (hd : d < 4294967296) (he : e < 4294967296) :
      SpecRdata 6 [.name m, .name r, .u32 a, .u32 b, .u32 c, .u32 d, .u32 e]
  | octets (c : Nat) (hc : c = 10 ∨ c = 11 ∨ c = 13 ∨ c = 16) (bs : List UInt8) : SpecRdata c [.octets bs]
  | minfo (r e : NameRef) : SpecRdata 14 [.name r, .name e]
  | mx (p : Nat) (e : NameRef) (hp : p < 65536) : SpecRdata 15 [.u16 p, .name e]
  | aaaa (gs : List Nat) (hl : gs.length = 8) (hg : ∀ g ∈ gs, g < 65536) : SpecRdata 28 [.aaaa gs]
  | srv (p w port : Nat) (t : NameRef) (hp : p < 65536) (hw : w < 65536) (hport : port < 65536) :
      SpecRdata 33 [.u16 p, .u16 w, .u16 port, .name t]

def fitsShape (shape : List Char) (fs : List RField) : Bool :=
  shape.length == fs.length && (shape.zip fs).all (fun p => fieldFits p.1 p.2)

theorem fits_a (fs : List RField) (h : fitsShape ['a'] fs = true) : SpecRdata 1 fs := by
  match fs with
  | [.a x] => simp [fitsShape, fieldFits] at h; exact .a x h
  | [] | [.name _] | [.u16 _] | [.u32 _] | [.aaaa _] | [.octets _] | _ :: _ :: _ => simp [fitsShape, fieldFits] at h

theorem fits_n (c : Nat) (hc : c = 2 ∨ c = 3 ∨ c = 4 ∨ c = 5 ∨ c = 7 ∨ c = 8 ∨ c = 9 ∨ c = 12)
    (fs : List RField) (h : fitsShape ['n'] fs = true) : SpecRdata c fs := by
  match fs with
  | [.name n] => exact .oneName c hc n
  | [] | [.a _] | [.u16 _] | [.u32 _] | [.aaaa _] | [.octets _] | _ :: _ :: _ => simp [fitsShape, fieldFits] at h

theorem fits_o (c : Nat) (hc : c = 10 ∨ c = 11 ∨ c = 13 ∨ c = 16) (fs : List RField)
    (h : fitsShape ['o'] fs = true) : SpecRdata c fs := by
  match fs with
  | [.octets bs] => exact .octets c hc bs
  | [] | [.a _] | [.u16 _] | [.u32 _] | [.aaaa _] | [.name _] | _ :: _ :: _ => simp [fitsShape, fieldFits] at h

theorem fits_q (fs : List RField) (h : fitsShape ['q'] fs = true) : SpecRdata 28 fs := by
  match fs with
  | [.aaaa gs] =>
    simp [fitsShape, fieldFits] at h
    exact .aaaa gs h.1 h.2
  | [] | [.a _] | [.u16 _] | [.u32 _] | [.octets _] | [.name _] | _ :: _ :: _ => simp [fitsShape, fieldFits] at h

theorem fits_nn (fs : List RField) (h : fitsShape ['n', 'n'] fs = true) : SpecRdata 14 fs := by
  match fs with
  | [.name r, .name e] => exact .minfo r e
  | [] | [_] | _ :: _ :: _ :: _ => simp [fitsShape] at h
  | [.a _, _] | [.u16 _, _] | [.u32 _, _] | [.aaaa _, _] | [.octets _, _] => simp [fitsShape, fieldFits] at h
  | [.name _, .a _] | [.name _, .u16 _] | [.name _, .u32 _] | [.name _, .aaaa _] | [.name _, .octets _] =>
    simp [fitsShape, fieldFits] at h

theorem fits_hn (fs : List RField) (h : fitsShape ['h', 'n'] fs = true) : SpecRdata 15 fs := by
  match fs with
  | [.u16 p, .name e] => simp [fitsShape, fieldFits] at h; exact .mx p e h
  | [] | [_] | _ :: _ :: _ :: _ => simp [fitsShape] at h
  | [.a _, _] | [.name _, _] | [.u32 _, _] | [.aaaa _, _] | [.octets _, _] => simp [fitsShape, fieldFits] at h
  | [.u16 _, .a _] | [.u16 _, .u16 _] | [.u16 _, .u32 _] | [.u16 _, .aaaa _] | [.u16 _, .octets _] =>
    simp [fitsShape, fieldFits] at h

theorem fieldFits_h {f : RField} (h : fieldFits 'h' f = true) : ∃ n, f = .u16 n ∧ n < 65536 := by
  cases f <;> simp [fieldFits] at h
  exact ⟨_, rfl, h⟩

theorem fieldFits_w {f : RField} (h : fieldFits 'w' f = true) : ∃ n, f = .u32 n ∧ n < 4294967296 := by
  cases f <;> simp [fieldFits] at h
  exact ⟨_, rfl, h⟩

theorem fieldFits_n {f : RField} (h : fieldFits 'n' f = true) : ∃ n, f = .name n := by
  cases f <;> simp [fieldFits] at h
  exact ⟨_, rfl⟩

theorem fits_hhhn (fs : List RField) (h : fitsShape ['h', 'h', 'h', 'n'] fs = true) : SpecRdata 33 fs := by
  match fs with
  | [f1, f2, f3, f4] =>
    simp only [fitsShape, List.length_cons, List.length_nil, beq_self_eq_true, Bool.true_and, List.zip_cons_cons,
      List.zip_nil_right, List.all_cons, List.all_nil, Bool.and_true, Bool.and_eq_true] at h
    obtain ⟨h1, h2, h3, h4⟩ := h
    obtain ⟨p, rfl, hp⟩ := fieldFits_h h1
    obtain ⟨w, rfl, hw⟩ := fieldFits_h h2
    obtain ⟨q, rfl, hq⟩ := fieldFits_h h3
    obtain ⟨t, rfl⟩ := fieldFits_n h4
    exact .srv p w q t hp hw hq
  | [] | [_] | [_, _] | [_, _, _] | _ :: _ :: _ :: _ :: _ :: _ => simp [fitsShape] at h

theorem fits_soa (fs : List RField) (h : fitsShape ['n', 'n', 'w', 'w', 'w', 'w', 'w'] fs = true) :
    SpecRdata 6 fs := by
  match fs with
  | [f1, f2, f3, f4, f5, f6, f7] =>
    simp only [fitsShape, List.length_cons, List.length_nil, beq_self_eq_true, Bool.true_and, List.zip_cons_cons,
      List.zip_nil_right, List.all_cons, List.all_nil, Bool.and_true, Bool.and_eq_true] at h
    obtain ⟨h1, h2, h3, h4, h5, h6, h7⟩ := h
    obtain ⟨m, rfl⟩ := fieldFits_n h1
    obtain ⟨r, rfl⟩ := fieldFits_n h2
    obtain ⟨a, rfl, ha⟩ := fieldFits_w h3
    obtain ⟨b, rfl, hb⟩ := fieldFits_w h4
    obtain ⟨c, rfl, hc⟩ := fieldFits_w h5
    obtain ⟨d, rfl, hd⟩ := fieldFits_w h6
    obtain ⟨e, rfl, he⟩ := fieldFits_w h7
    exact .soa m r a b c d e ha hb hc hd he
  | [] | [_] | [_, _] | [_, _, _] | [_, _, _, _] | [_, _, _, _, _] | [_, _, _, _, _, _]
  | _ :: _ :: _ :: _ :: _ :: _ :: _ :: _ :: _ => simp [fitsShape] at h

theorem specRdata_of_fits (code : Nat) (fs : List RField) (h : rdataFits code fs = true) :
    SpecRdata code fs := by
  unfold rdataFits at h
  cases hsh : rdataShape code with
  | none => rw [hsh] at h; cases h
  | some shape =>
    rw [hsh] at h
    have hf : fitsShape shape fs = true := h
    unfold rdataShape at hsh
    split at hsh <;> cases hsh
    · exact fits_a fs hf
    · exact fits_n _ (by simp) fs hf
    · exact fits_n _ (by simp) fs hf
    · exact fits_n _ (by simp) fs hf
    · exact fits_n _ (by simp) fs hf
    · exact fits_n _ (by simp) fs hf
    · exact fits_n _ (by simp) fs hf
    · exact fits_n _ (by simp) fs hf
    · exact fits_n _ (by simp) fs hf
    · exact fits_soa fs hf
    · exact fits_o _ (by simp) fs hf
    · exact fits_o _ (by simp) fs hf
    · exact fits_o _ (by simp) fs hf
    · exact fits_o _ (by simp) fs hf
    · exact fits_nn fs hf
    · exact fits_hn fs hf
    · exact fits_q fs hf
    · exact fits_hhhn fs hf

/-! ## reading the rendered RDATA -/

theorem SpecRdata.known {c : Nat} {fs : List RField} (h : SpecRdata c fs) : KnownCode c := by
  unfold KnownCode
  cases h with
  | a => decide
  | oneName c hc n => rcases hc with h | h | h | h | h | h | h | h <;> subst h <;> decide
  | soa => decide
  | octets c hc bs => rcases hc with h | h | h | h <;> subst h <;> decide
  | minfo => decide
  | mx => decide
  | aaaa => decide
  | srv => decide

theorem fieldTok_name (lv : LineVar) (n : NameRef) :
    (fieldTok lv (.name n)).1 = nameChars n := rfl

theorem optName_spec (o : Option Name) (ho : ∀ on, o = some on → TextName on) (n : NameRef)
    (hn : nameRefOk false n = true) {nm : Name} (h : resolve o n = .ok nm) :
    optName o (nameChars n) = some nm := by
  unfold optName
  rw [parseDomain_spec o ho n hn, h]
  rfl

theorem optName_spec_err (o : Option Name) (ho : ∀ on, o = some on → TextName on) (n : NameRef)
    (hn : nameRefOk false n = true) {e : SpecError} (h : resolve o n = .error e) :
    optName o (nameChars n) = none := by
  unfold optName
  rw [parseDomain_spec o ho n hn, h]
  rfl

theorem fieldTok_num (lv : LineVar) (n : Nat) :
    (fieldTok lv (.u16 n)).1 = showDec n ∧ (fieldTok lv (.u32 n)).1 = showDec n := by
  simp [fieldTok, fieldAtoms, tokenOf_asciiAtoms _ (showDec_ascii n)]

theorem showIpv4_ascii (a : Nat) : ∀ c ∈ showIpv4 a, c.toNat < 128 := by
  intro c hc
  have := (showIpv4_words a).2 c hc
  simp only [wordChar, Bool.or_eq_true, Bool.and_eq_true, decide_eq_true_eq, beq_iff_eq] at this
  omega

theorem fieldTok_a (lv : LineVar) (a : Nat) : (fieldTok lv (.a a)).1 = showIpv4 a := by
  simp [fieldTok, fieldAtoms, tokenOf_asciiAtoms _ (showIpv4_ascii a)]

theorem fieldTok_octets (lv : LineVar) (bs : List UInt8) : (fieldTok lv (.octets bs)).2 = bs := by
  simp [fieldTok, fieldAtoms, tokenOf_plainAtoms]

theorem bytesAsChars_ascii (bs : List UInt8) (h : ∀ b ∈ bs, b.toNat < 128) :
    ∀ c ∈ bytesAsChars bs, c.toNat < 128 := by
  intro c hc
  simp only [bytesAsChars, List.mem_map] at hc
  obtain ⟨b, hb, rfl⟩ := hc
  rw [ofNat_toNat_256 _ b.toNat_lt]
  exact h b hb

/-- the AAAA token, in either text form, is read as the address. -/
theorem fieldTok_aaaa (lv : LineVar) (gs : List Nat) (hl : gs.length = 8) (hg : ∀ g ∈ gs, g < 65536) :
    ipv6FromStr (fieldTok lv (.aaaa gs)).1 = some gs := by
  have hne : gs ≠ [] := by intro h; rw [h] at hl; simp at hl
  cases hfull : lv.aaaaFull with
  | false =>
    have hasc : ∀ c ∈ showIpv6 gs, c.toNat < 128 :=
      bytesAsChars_ascii _ (fun b hb => isAddrByte_lt ((showIpv6_bytes gs hg hne).1 b hb))
    simp only [fieldTok, fieldAtoms, hfull, Bool.false_eq_true, if_false, tokenOf_asciiAtoms _ hasc]
    exact ipv6FromStr_showIpv6 gs hl hg
  | true =>
    have hb : ∀ b ∈ Ip.fmtSubslice gs, b.toNat < 128 :=
      fun b hb => isAddrByte_lt (Ip.isAddrByte_of_isHexColon (Ip.fmtSubslice_bytes gs hg b hb))
    have hasc : ∀ c ∈ fullGroups gs, c.toNat < 128 := bytesAsChars_ascii _ hb
    simp only [fieldTok, fieldAtoms, hfull, if_true, tokenOf_asciiAtoms _ hasc]
    unfold ipv6FromStr fullGroups
    rw [utf8Encode_bytesAsChars _ hb, Ip.readIpv6Addr_uncompressed hl hg]

/-- names of the RDATA satisfy the side condition. -/
def RdataNamesOk (rd : List RField) : Prop :=
  ∀ f ∈ rd, match f with | .name n => nameRefOk false n = true | _ => True

/-- **`try_parse_rtype_with_data` on the rendered `<type> <rdata>`** gives the type and the resolved
    fields. -/
theorem tryParse_spec (o : Option Name) (ho : ∀ on, o = some on → TextName on) (lv : LineVar)
    (code : Nat) (rd : List RField) (hfit : SpecRdata code rd) (hnames : RdataNamesOk rd)
    (fields : List FieldVal) (hres : resolveFields o rd = .ok fields) :
    tryParseRtypeWithData o (tokenOf (asciiAtoms (typeText lv.typeNumeric code)) :: rd.map (fieldTok lv))
      = some ⟨code, fields⟩ := by
  obtain ⟨s, htok, hty, -⟩ := typeToken_spec lv.typeNumeric code hfit.known
  rw [htok]
  unfold tryParseRtypeWithData
  simp only [hty]
  have hname : ∀ n, RField.name n ∈ rd → nameRefOk false n = true := fun n hn => hnames _ hn
  cases hfit with
  | a x hx =>
    simp only [resolveFields, resolveField] at hres
    cases hres
    simp [fieldTok_a, ipv4FromStr_showIpv4 x hx]
  | oneName c hc n =>
    simp only [resolveFields, resolveField] at hres
    cases hr : resolve o n with
    | error e => rw [hr] at hres; simp [Except.map] at hres
    | ok nm =>
      rw [hr] at hres
      simp only [Except.map] at hres
      cases hres
      have := optName_spec o ho n (hname n (by simp)) hr
      rcases hc with h | h | h | h | h | h | h | h <;> subst h <;> simp [fieldTok_name, this]
  | octets c hc bs =>
    simp only [resolveFields, resolveField] at hres
    cases hres
    rcases hc with h | h | h | h <;> subst h <;> simp [fieldTok_octets]
  | minfo r e =>
    simp only [resolveFields, resolveField] at hres
    cases hr : resolve o r with
    | error x => rw [hr] at hres; simp [Except.map] at hres
    | ok rn =>
      cases he : resolve o e with
      | error x => rw [hr, he] at hres; simp [Except.map] at hres
      | ok en =>
        rw [hr, he] at hres
        simp only [Except.map] at hres
        cases hres
        simp [fieldTok_name, optName_spec o ho r (hname r (by simp)) hr, optName_spec o ho e (hname e (by simp)) he]
  | mx p e hp =>
    simp only [resolveFields, resolveField] at hres
    cases he : resolve o e with
    | error x => rw [he] at hres; simp [Except.map] at hres
    | ok en =>
      rw [he] at hres
      simp only [Except.map] at hres
      cases hres
      simp [fieldTok_name, (fieldTok_num lv p).1, parseU16_showDec p hp, optName_spec o ho e (hname e (by simp)) he]
  | aaaa gs hl hg =>
    simp only [resolveFields, resolveField] at hres
    cases hres
    simp [fieldTok_aaaa lv gs hl hg]
  | srv p w port t hp hw hport =>
    simp only [resolveFields, resolveField] at hres
    cases ht : resolve o t with
    | error x => rw [ht] at hres; simp [Except.map] at hres
    | ok tn =>
      rw [ht] at hres
      simp only [Except.map] at hres
      cases hres
      simp [fieldTok_name, (fieldTok_num lv p).1, (fieldTok_num lv w).1, (fieldTok_num lv port).1,
        parseU16_showDec p hp, parseU16_showDec w hw, parseU16_showDec port hport,
        optName_spec o ho t (hname t (by simp)) ht]
  | soa m r a b c d e ha hb hc hd he =>
    simp only [resolveFields, resolveField] at hres
    cases hm : resolve o m with
    | error x => rw [hm] at hres; simp [Except.map] at hres
    | ok mn =>
      cases hr : resolve o r with
      | error x => rw [hm, hr] at hres; simp [Except.map] at hres
      | ok rn =>
        rw [hm, hr] at hres
        simp only [Except.map] at hres
        cases hres
        simp [fieldTok_name, (fieldTok_num lv a).2, (fieldTok_num lv b).2, (fieldTok_num lv c).2,
          (fieldTok_num lv d).2, (fieldTok_num lv e).2, parseU32_showDec a ha, parseU32_showDec b hb,
          parseU32_showDec c hc, parseU32_showDec d hd, parseU32_showDec e he,
          optName_spec o ho m (hname m (by simp)) hm, optName_spec o ho r (hname r (by simp)) hr]

end Resolved.ZoneText
