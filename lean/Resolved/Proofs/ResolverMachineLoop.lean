/-
  The candidate loop one iteration at a time: the relation `LoopNext` between the arguments of an
  invocation and those of the invocation it tail-calls, the proof that every iteration either
  ends the loop or makes exactly such a step, the C07 invariant (each referral strictly closer to
  the question name), and a measure that every step decreases (the loop cannot go on forever).
-/
import Resolved.Proofs.ResolverMachineReach
import Resolved.Proofs.NameLemmas

namespace Resolved

open Gen

/-! ## The initial candidates enclose the question name -/

theorem fromLabels_some_labels {ls : List Label} {n : Name} (h : Name.fromLabels ls = some n) : n.labels = ls := by
  rw [fromLabels_eq] at h
  split at h
  · cases h; rfl
  · cases h

theorem candidateNameservers_suffix : ∀ (labels : List Label) (st st' : St) (ns : Nameservers),
    candidateNameservers st labels = (st', some ns) → ns.name.labels <:+ labels ∧ ns.hostnames ≠ [] := by
  intro labels
  induction labels with
  | nil => intro st st' ns h; rw [candidateNameservers] at h; cases h
  | cons l ls ih =>
    intro st st' ns h
    rw [candidateNameservers] at h
    split at h
    · obtain ⟨h1, h2⟩ := ih _ _ _ h
      exact ⟨h1.trans (List.suffix_cons l ls), h2⟩
    · rename_i name hname
      simp only [] at h
      have hrec : ∀ st1, candidateNameservers st1 ls = (st', some ns) →
          ns.name.labels <:+ l :: ls ∧ ns.hostnames ≠ [] := by
        intro st1 h
        obtain ⟨h1, h2⟩ := ih _ _ _ h
        exact ⟨h1.trans (List.suffix_cons l ls), h2⟩
      have hhere : ∀ (st1 : St) (hostnames : List Name), (!hostnames.isEmpty) = true →
          (st1, some ({ hostnames := hostnames, name := name } : Nameservers)) = (st', some ns) →
          ns.name.labels <:+ l :: ls ∧ ns.hostnames ≠ [] := by
        intro st1 hostnames hne h
        simp only [Prod.mk.injEq, Option.some.injEq] at h
        obtain ⟨_, h2⟩ := h
        subst h2
        refine ⟨by rw [fromLabels_some_labels hname]; exact List.suffix_refl _, ?_⟩
        intro hh; simp only at hh; rw [hh] at hne; simp at hne
      split at h
      · split at h
        · rename_i hne
          exact hhere _ _ hne h
        · exact hrec _ h
      · split at h
        · rename_i hne
          exact hhere _ _ hne h
        · exact hrec _ h

/-! ## One iteration of the loop -/

/-- the loop variables of `candidateLoop` (the question and `combined_rrs` never change). -/
structure LoopArgs where
  st : St
  mc : Nat
  cands : List Name
  next : List Name
  locally : Bool

/-- `a'` are the loop variables of the iteration that the iteration with variables `a` goes on
    with. -/
inductive LoopNext (cfg : RecCfg) (q : Question) : LoopArgs → LoopArgs → Prop
  /-- no address held locally for the candidate: it is set aside, more fast candidates remain -/
  | skipFast (a : LoopArgs) (st1 : St) (cand : Name) : a.locally = true → a.cands.getLast? = some cand →
      a.cands.dropLast.isEmpty = false →
      LoopNext cfg q a ⟨st1, a.mc, a.cands.dropLast, a.next ++ [cand], true⟩
  /-- … no fast candidate remains: restart with the ones set aside, resolving them recursively -/
  | switchSlow (a : LoopArgs) (st1 : St) (cand : Name) : a.locally = true → a.cands.getLast? = some cand →
      a.cands.dropLast.isEmpty = true →
      LoopNext cfg q a ⟨st1, a.mc, a.next ++ [cand], [], false⟩
  /-- a candidate that does not resolve recursively either is dropped -/
  | dropSlow (a : LoopArgs) (st1 : St) (cand : Name) : a.locally = false → a.cands.getLast? = some cand →
      LoopNext cfg q a ⟨st1, a.mc, a.cands.dropLast, a.next, false⟩
  /-- a referral is followed: it is for a zone that encloses the question name and has strictly
      more labels than the delegation in use; its (non-empty) host set replaces the candidates -/
  | referral (a : LoopArgs) (st3 : St) (zone : Name) (hosts : List Name) :
      zone.labels.length > a.mc → q.name.isSubdomainOf zone = true → hosts ≠ [] →
      LoopNext cfg q a ⟨st3, zone.labels.length, cfg.hostOrder hosts, [], true⟩

/-- the iteration ends the loop: with an error, an answer, or by handing over to
    `resolveCombined` for an alias. -/
def LoopEnds (cfg : RecCfg) (fuel : Nat) (q : Question) (r : St × Except ResolutionError ResolvedRecord) : Prop :=
  (∃ st', r = (st', .error .timeout)) ∨ (∃ st', r = (st', .error (.deadEnd q))) ∨
  (∃ st' rrs soa, r = (st', .ok (.nonAuthoritative rrs soa))) ∨
  (∃ st3 rrs cname, r = resolveCombined cfg fuel st3 rrs { name := cname, qclass := q.qclass, qtype := q.qtype })

/-- Every iteration of the candidate loop either ends the loop or goes on with loop variables
    related by `LoopNext`. -/
theorem candidateLoop_next (cfg : RecCfg) (fuel : Nat) (q : Question) (combined : List RR) (a : LoopArgs) :
    LoopEnds cfg fuel q (candidateLoop cfg (fuel + 1) a.st q combined a.mc a.cands a.next a.locally) ∨
    ∃ a', LoopNext cfg q a a' ∧
      candidateLoop cfg (fuel + 1) a.st q combined a.mc a.cands a.next a.locally =
        candidateLoop cfg fuel a'.st q combined a'.mc a'.cands a'.next a'.locally := by
  obtain ⟨st, mc, cands, next, locally⟩ := a
  simp only
  rw [candidateLoop_succ]
  split
  · exact Or.inl (Or.inl ⟨_, rfl⟩)
  split
  · exact Or.inl (Or.inr (Or.inl ⟨_, rfl⟩))
  rename_i cand hcand
  split
  · exact Or.inl (Or.inl ⟨_, rfl⟩)
  split
  · -- an address: query
    rename_i addr _
    generalize (tryTypes cfg fuel st locally cand (rtypesFor cfg.mode)).1 = st1
    unfold loopQuery
    split
    · exact Or.inl (Or.inl ⟨_, rfl⟩)
    cases hresp : (queryNameserver cfg.oracle st1.run addr cfg.port q false).2.bind
        (fun res => validateNameserverResponse q res mc) with
    | none => exact Or.inl (Or.inr (Or.inl ⟨_, rfl⟩))
    | some resp =>
      cases resp with
      | answer rrs soa => exact Or.inl (Or.inr (Or.inr (Or.inl ⟨_, _, _, rfl⟩)))
      | cname rrs c => exact Or.inl (Or.inr (Or.inr (Or.inr ⟨_, _, _, rfl⟩)))
      | delegation rrs hs zone =>
        unfold loopAfterReply
        simp only
        split
        · exact Or.inl (Or.inr (Or.inr (Or.inl ⟨_, _, _, rfl⟩)))
        · cases hm : (queryNameserver cfg.oracle st1.run addr cfg.port q false).2 with
          | none => rw [hm] at hresp; cases hresp
          | some m =>
            rw [hm] at hresp
            simp only [Option.bind_some] at hresp
            obtain ⟨h1, h2, h3⟩ := C06_delegation_closer q m mc rrs hs zone hresp
            exact Or.inr ⟨_, LoopNext.referral ⟨st, mc, cands, next, locally⟩ _ zone hs h1 h2 h3, rfl⟩
  · -- no address
    generalize (tryTypes cfg fuel st locally cand (rtypesFor cfg.mode)).1 = st1
    unfold loopNoAddr
    cases locally with
    | true =>
      simp only [if_true]
      split
      · rename_i he
        exact Or.inr ⟨_, LoopNext.switchSlow ⟨st, mc, cands, next, true⟩ st1 cand rfl hcand he, rfl⟩
      · rename_i he
        exact Or.inr ⟨_, LoopNext.skipFast ⟨st, mc, cands, next, true⟩ st1 cand rfl hcand
          (eq_false_of_ne_true he), rfl⟩
    | false =>
      simp only [Bool.false_eq_true, if_false]
      exact Or.inr ⟨_, LoopNext.dropSlow ⟨st, mc, cands, next, false⟩ st1 cand rfl hcand, rfl⟩

/-! ## The C07 invariant along a run of the loop -/

/-- the delegation in use never gets shallower, and never deeper than the question name. -/
theorem LoopNext.mc_mono {cfg : RecCfg} {q : Question} {a a' : LoopArgs} (h : LoopNext cfg q a a') :
    a.mc ≤ a'.mc ∧ (a.mc ≤ q.name.labels.length → a'.mc ≤ q.name.labels.length) := by
  cases h with
  | skipFast | switchSlow | dropSlow => exact ⟨Nat.le_refl _, id⟩
  | referral st3 zone hosts h1 h2 h3 =>
    refine ⟨Nat.le_of_lt h1, fun _ => ?_⟩
    exact (List.isSuffixOf_iff_suffix.mp h2).length_le

/-- several iterations. -/
inductive LoopSteps (cfg : RecCfg) (q : Question) : LoopArgs → LoopArgs → Prop
  | refl (a : LoopArgs) : LoopSteps cfg q a a
  | step {a b c : LoopArgs} : LoopSteps cfg q a b → LoopNext cfg q b c → LoopSteps cfg q a c

theorem LoopSteps.mc_mono {cfg : RecCfg} {q : Question} {a b : LoopArgs} (h : LoopSteps cfg q a b) :
    a.mc ≤ b.mc ∧ (a.mc ≤ q.name.labels.length → b.mc ≤ q.name.labels.length) := by
  induction h with
  | refl => exact ⟨Nat.le_refl _, id⟩
  | step _ hn ih => exact ⟨Nat.le_trans ih.1 hn.mc_mono.1, fun h => hn.mc_mono.2 (ih.2 h)⟩

/-! ## A measure every iteration decreases -/

/-- iterations left before the candidates of the current delegation are used up. -/
def LoopArgs.width (a : LoopArgs) : Nat :=
  if a.locally then 2 * a.cands.length + a.next.length + 1 else a.cands.length

/-- With at most `H` hosts per referral and the delegation at most as deep as the question name,
    `(labels − mc) · (2H + 2) + width` strictly decreases with every iteration. -/
def LoopArgs.measure (L H : Nat) (a : LoopArgs) : Nat := (L - a.mc) * (2 * H + 2) + a.width

theorem LoopNext.measure_lt {cfg : RecCfg} {q : Question} {a a' : LoopArgs} (H : Nat)
    (hH : ∀ hs, (cfg.hostOrder hs).length ≤ H) (h : LoopNext cfg q a a') (hmc : a.mc ≤ q.name.labels.length) :
    a'.measure q.name.labels.length H < a.measure q.name.labels.length H := by
  cases h with
  | skipFast st1 cand hl hc he =>
    have hlen : a.cands.length ≠ 0 := by
      intro h0; rw [List.length_eq_zero_iff] at h0; rw [h0] at hc; cases hc
    simp only [LoopArgs.measure, LoopArgs.width, hl, if_true, List.length_dropLast, List.length_append,
      List.length_singleton]
    omega
  | switchSlow st1 cand hl hc he =>
    have hlen : a.cands.length ≠ 0 := by
      intro h0; rw [List.length_eq_zero_iff] at h0; rw [h0] at hc; cases hc
    simp only [LoopArgs.measure, LoopArgs.width, hl, if_true, Bool.false_eq_true, if_false, List.length_append,
      List.length_singleton]
    omega
  | dropSlow st1 cand hl hc =>
    have hlen : a.cands.length ≠ 0 := by
      intro h0; rw [List.length_eq_zero_iff] at h0; rw [h0] at hc; cases hc
    simp only [LoopArgs.measure, LoopArgs.width, hl, Bool.false_eq_true, if_false, List.length_dropLast]
    omega
  | referral st3 zone hosts h1 h2 h3 =>
    have hz : zone.labels.length ≤ q.name.labels.length := (List.isSuffixOf_iff_suffix.mp h2).length_le
    have hh := hH hosts
    simp only [LoopArgs.measure, LoopArgs.width, if_true, List.length_nil]
    have : q.name.labels.length - a.mc = (q.name.labels.length - zone.labels.length) + (zone.labels.length - a.mc) := by
      omega
    rw [this, Nat.add_mul]
    have h4 : (zone.labels.length - a.mc) * (2 * H + 2) ≥ 2 * H + 2 := by
      have : zone.labels.length - a.mc ≥ 1 := by omega
      exact Nat.le_mul_of_pos_left _ this
    omega

/-- `k` consecutive iterations. -/
inductive LoopChain (cfg : RecCfg) (q : Question) : LoopArgs → Nat → LoopArgs → Prop
  | nil (a : LoopArgs) : LoopChain cfg q a 0 a
  | cons {a b c : LoopArgs} {k : Nat} : LoopNext cfg q a b → LoopChain cfg q b k c → LoopChain cfg q a (k + 1) c

/-- Iteration bound: with at most `H` hosts per referral, a run of the candidate loop started with
    the delegation at most as deep as the question name makes at most `measure` iterations. -/
theorem LoopChain.length_le {cfg : RecCfg} {q : Question} {a c : LoopArgs} {k : Nat} (H : Nat)
    (hH : ∀ hs, (cfg.hostOrder hs).length ≤ H) (h : LoopChain cfg q a k c) (hmc : a.mc ≤ q.name.labels.length) :
    k + c.measure q.name.labels.length H ≤ a.measure q.name.labels.length H := by
  induction h with
  | nil a => omega
  | cons hn _ ih =>
    have h1 := hn.measure_lt H hH hmc
    have h2 := ih (hn.mc_mono.2 hmc)
    omega

/-- The value of the loop is the value of the last iteration of a `LoopNext`-chain starting at its
    arguments; that iteration either ends the loop, or the fuel is used up. -/
theorem candidateLoop_chain (cfg : RecCfg) (q : Question) (combined : List RR) : ∀ (n : Nat) (a : LoopArgs),
    ∃ (k : Nat) (a' : LoopArgs), k ≤ n ∧ LoopChain cfg q a k a' ∧
      candidateLoop cfg n a.st q combined a.mc a.cands a.next a.locally =
        candidateLoop cfg (n - k) a'.st q combined a'.mc a'.cands a'.next a'.locally ∧
      (n - k = 0 ∨ ∃ m, n - k = m + 1 ∧
        LoopEnds cfg m q (candidateLoop cfg (m + 1) a'.st q combined a'.mc a'.cands a'.next a'.locally)) := by
  intro n
  induction n with
  | zero => intro a; exact ⟨0, a, Nat.le_refl _, LoopChain.nil a, rfl, Or.inl rfl⟩
  | succ n ih =>
    intro a
    rcases candidateLoop_next cfg n q combined a with hend | ⟨a1, hn, he⟩
    · exact ⟨0, a, Nat.zero_le _, LoopChain.nil a, rfl, Or.inr ⟨n, rfl, hend⟩⟩
    · obtain ⟨k, a', hk, hc, hv, hfin⟩ := ih a1
      refine ⟨k + 1, a', by omega, LoopChain.cons hn hc, ?_, ?_⟩
      · rw [he, hv]
        have : n + 1 - (k + 1) = n - k := by omega
        rw [this]
      · have : n + 1 - (k + 1) = n - k := by omega
        rw [this]
        exact hfin

/-- With more fuel than its measure the candidate loop never stops for lack of fuel of its own:
    it ends with a time-out, a dead end, an answer, or the hand-over to `resolveCombined`. -/
theorem candidateLoop_ends (cfg : RecCfg) (q : Question) (combined : List RR) (n H : Nat) (a : LoopArgs)
    (hH : ∀ hs, (cfg.hostOrder hs).length ≤ H) (hmc : a.mc ≤ q.name.labels.length)
    (hn : a.measure q.name.labels.length H < n) :
    ∃ (k m : Nat) (a' : LoopArgs), LoopChain cfg q a k a' ∧ n - k = m + 1 ∧
      candidateLoop cfg n a.st q combined a.mc a.cands a.next a.locally =
        candidateLoop cfg (m + 1) a'.st q combined a'.mc a'.cands a'.next a'.locally ∧
      LoopEnds cfg m q (candidateLoop cfg (m + 1) a'.st q combined a'.mc a'.cands a'.next a'.locally) := by
  obtain ⟨k, a', hk, hc, hv, hfin⟩ := candidateLoop_chain cfg q combined n a
  have hb := hc.length_le H hH hmc
  rcases hfin with h0 | ⟨m, hm, he⟩
  · omega
  · exact ⟨k, m, a', hc, hm, by rw [hv, hm], he⟩

end Resolved
