/-
  Helper lemmas for C04, part 4: what the encoder writes for a name is a `WireName` of the
  declarative grammar (Spec/Wire.lean), and the numeric pointer-table invariant `TableInv` is
  preserved by every encoder step unconditionally.
-/
import Resolved.Proofs.WireEncodeMsg

namespace Resolved

open Gen

/-! ## `TableInv` through the remaining encoder steps -/

theorem TableInv.of_eq {b b' : WBuf} (h : TableInv b) (h1 : b'.namePointers = b.namePointers)
    (h2 : b.octets.length ≤ b'.octets.length) : TableInv b' := by
  intro n p hm
  rw [h1] at hm
  obtain ⟨off, hp, ho, hl⟩ := h n p hm
  exact ⟨off, hp, ho, by omega⟩

theorem TableInv.encodeField {b : WBuf} (h : TableInv b) (f : Field) (v : FieldVal) :
    TableInv (encodeField b f v) := by
  cases f <;> cases v <;> simp only [Resolved.encodeField, writeGroups_eq] <;>
    first
    | exact h
    | exact h.writeOctets _
    | exact h.encodeName _ _

theorem TableInv.encodeFields (fs : List Field) :
    ∀ (vs : List FieldVal) {b : WBuf}, TableInv b → TableInv (encodeFields b fs vs) := by
  induction fs with
  | nil => intro vs b h; simpa only [Resolved.encodeFields] using h
  | cons f fs ih =>
    intro vs b h
    cases vs with
    | nil => simpa only [Resolved.encodeFields] using h
    | cons v vs =>
      simp only [Resolved.encodeFields]
      exact ih vs (h.encodeField f v)

theorem TableInv.encodeQuestion {b : WBuf} (h : TableInv b) (q : Question) :
    TableInv (encodeQuestion b q) :=
  ((h.encodeName _ _).writeU16 _).writeU16 _

/-- `patchU16` keeps the length, so the back-patch keeps `TableInv`. -/
theorem TableInv.encodeRR {b b' : WBuf} (h : TableInv b) (rr : RR) (he : encodeRR b rr = .ok b') :
    TableInv b' := by
  unfold Resolved.encodeRR at he
  simp only at he
  split at he
  · cases he
  · cases he
    have := TableInv.encodeFields (encodeLayoutOf rr.rtype) rr.fields
      (((((h.encodeName rr.name rrNameCompress).writeU16 rr.rtype).writeU16 rr.rclass).writeU32
        rr.ttl).writeU16 0)
    exact this.of_eq rfl (by simp only [patchU16_length]; exact Nat.le_refl _)

theorem TableInv.encodeRRs (rrs : List RR) :
    ∀ {b b' : WBuf}, TableInv b → encodeRRs b rrs = .ok b' → TableInv b' := by
  induction rrs with
  | nil => intro b b' h he; simp only [Resolved.encodeRRs, Except.ok.injEq] at he; exact he ▸ h
  | cons r rrs ih =>
    intro b b' h he
    simp only [Resolved.encodeRRs] at he
    split at he
    · cases he
    · rename_i b1 hb1
      exact ih (h.encodeRR r hb1) he

theorem TableInv.encodeHeader {b : WBuf} (h : TableInv b) (hd : Header) :
    TableInv (encodeHeader b hd) := by
  rw [encodeHeader_eq]; exact h.writeOctets _

theorem TableInv.foldl_encodeQuestion (qs : List Question) :
    ∀ {b : WBuf}, TableInv b → TableInv (qs.foldl Resolved.encodeQuestion b) := by
  induction qs with
  | nil => intro b h; exact h
  | cons q qs ih => intro b h; exact ih (h.encodeQuestion q)

/-- A compression pointer the encoder writes: two octets `0xC0 + off / 256`, `off % 256`. -/
theorem encodeName_pointer (b : WBuf) (n : Name) (ptr : Nat) (h : TableInv b)
    (hp : b.namePointer n = some ptr) :
    ∃ off, ptr = 0xC000 + off ∧ off < 16384 ∧ off ≤ b.octets.length ∧
      encodeName b n true = b.writeOctets [u8 (0xC0 + off / 256), u8 (off % 256)] := by
  obtain ⟨off, rfl, ho, hl⟩ := h n ptr (lookupName_mem _ _ _ hp)
  refine ⟨off, rfl, ho, hl, ?_⟩
  have e1 := (pointer_arith off ho).1
  have e2 := (pointer_arith off ho).2.1
  simp only [Resolved.encodeName, if_true, hp, WBuf.writeU16, u16Bytes, e1, e2]

/-- The encoder states: `WBuf.empty` and whatever the encoder steps make of it. -/
inductive EncReach : WBuf → Prop where
  | empty : EncReach WBuf.empty
  | writeU8 {b : WBuf} (o : Nat) : EncReach b → EncReach (b.writeU8 o)
  | writeU16 {b : WBuf} (v : Nat) : EncReach b → EncReach (b.writeU16 v)
  | writeU32 {b : WBuf} (v : Nat) : EncReach b → EncReach (b.writeU32 v)
  | writeOctets {b : WBuf} (x : List UInt8) : EncReach b → EncReach (b.writeOctets x)
  | memoiseName {b : WBuf} (n : Name) : EncReach b → EncReach (b.memoiseName n)
  | encodeName {b : WBuf} (n : Name) (c : Bool) : EncReach b → EncReach (encodeName b n c)
  | encodeField {b : WBuf} (f : Field) (v : FieldVal) : EncReach b → EncReach (encodeField b f v)
  | encodeFields {b : WBuf} (fs : List Field) (vs : List FieldVal) :
      EncReach b → EncReach (encodeFields b fs vs)
  | encodeHeader {b : WBuf} (h : Header) : EncReach b → EncReach (encodeHeader b h)
  | encodeQuestion {b : WBuf} (q : Question) : EncReach b → EncReach (encodeQuestion b q)
  | encodeRR {b b' : WBuf} (rr : RR) : EncReach b → encodeRR b rr = .ok b' → EncReach b'
  | encodeRRs {b b' : WBuf} (rrs : List RR) : EncReach b → encodeRRs b rrs = .ok b' → EncReach b'

theorem EncReach.tableInv {b : WBuf} (h : EncReach b) : TableInv b := by
  induction h with
  | empty => exact TableInv_empty
  | writeU8 o _ ih => exact ih.writeU8 o
  | writeU16 v _ ih => exact ih.writeU16 v
  | writeU32 v _ ih => exact ih.writeU32 v
  | writeOctets x _ ih => exact ih.writeOctets x
  | memoiseName n _ ih => exact ih.memoiseName n
  | encodeName n c _ ih => exact ih.encodeName n c
  | encodeField f v _ ih => exact ih.encodeField f v
  | encodeFields fs vs _ ih => exact TableInv.encodeFields fs vs ih
  | encodeHeader h _ ih => exact ih.encodeHeader h
  | encodeQuestion q _ ih => exact ih.encodeQuestion q
  | encodeRR rr _ he ih => exact ih.encodeRR rr he
  | encodeRRs rrs _ he ih => exact TableInv.encodeRRs rrs ih he

/-! ## The grammar -/

/-- The octets `writeLabels` appends form a pointer-free `WireName`. -/
theorem wireName_flatLabels (ls : List Label) :
    ∀ (pre post : List UInt8) (s : Nat), LabelsShape ls → (∀ l ∈ ls, LabelOK l) →
    WireName (pre ++ flatLabels ls ++ post) s pre.length ls (ls.length + sumLen ls)
      (pre.length + (ls.length + sumLen ls)) := by
  induction ls with
  | nil => intro _ _ _ h; exact absurd rfl h.1
  | cons l ls ih =>
    intro pre post s hshape hok
    rcases LabelsShape_cons l ls hshape with ⟨rfl, rfl⟩ | ⟨hls, hl, hshape'⟩
    · have : (pre ++ flatLabels [[]] ++ post)[pre.length]? = some 0 := by
        simp [flatLabels, u8]
      exact WireName.root this
    · have hokl := hok l (by simp)
      have h63 : l.length ≤ 63 := hokl.1
      have h1 : 1 ≤ l.length := by
        cases l with
        | nil => exact absurd rfl hl
        | cons _ _ => simp
      have hsz : (u8 l.length).toNat = l.length := u8_toNat _ (by omega)
      have e2 : pre ++ flatLabels (l :: ls) ++ post
          = (pre ++ u8 l.length :: l) ++ flatLabels ls ++ post := by simp [flatLabels]
      have e3 : (pre ++ u8 l.length :: l).length = pre.length + 1 + (u8 l.length).toNat := by
        simp [hsz]; omega
      have ih' := ih (pre ++ u8 l.length :: l) post s hshape' (fun x hx => hok x (by simp [hx]))
      rw [← e2, e3] at ih'
      have hget : (pre ++ flatLabels (l :: ls) ++ post)[pre.length]? = some (u8 l.length) := by
        simp [flatLabels]
      have hbound : pre.length + 1 + (u8 l.length).toNat
          ≤ (pre ++ flatLabels (l :: ls) ++ post).length := by
        simp [flatLabels, hsz]; omega
      have hw := WireName.label hget (by omega) (by omega) hbound ih'
      have hlab : (((pre ++ flatLabels (l :: ls) ++ post).drop (pre.length + 1)).take
          (u8 l.length).toNat).map lowerByte = l := by
        rw [hsz]
        have : (pre ++ flatLabels (l :: ls) ++ post).drop (pre.length + 1)
            = l ++ (flatLabels ls ++ post) := by
          simp [flatLabels, List.drop_append]
        rw [this, List.take_left', map_lowerByte_of_ok l hokl]
        rfl
      rw [hlab, hsz] at hw
      have hlen : (l :: ls).length + sumLen (l :: ls) = 1 + l.length + (ls.length + sumLen ls) := by
        simp; omega
      have hend : pre.length + (1 + l.length + (ls.length + sumLen ls))
          = pre.length + 1 + l.length + (ls.length + sumLen ls) := by
        omega
      rw [hlen, hend]
      exact hw

theorem wireName_hasAt {buf : List UInt8} {off : Nat} {n : Name} (hwf : NameWF n)
    (h : HasAt buf off (flatLabels n.labels)) (s : Nat) :
    WireName buf s off n.labels n.len (off + n.len) := by
  obtain ⟨pre, post, rfl, rfl⟩ := h
  have := wireName_flatLabels n.labels pre post s hwf.1 hwf.2.1
  rw [← hwf.2.2.1] at this
  exact this

/-- Whatever `encodeName` writes (labels or a pointer) is a `WireName` for `n` in the sense of the
    declarative grammar, with all pointers pointing strictly backwards. -/
theorem encodeName_wireName (b : WBuf) (n : Name) (c : Bool) (hinv : NameInv b) (hwf : NameWF n)
    (post : List UInt8) :
    WireName ((encodeName b n c).octets ++ post) b.octets.length b.octets.length n.labels n.len
      (encodeName b n c).octets.length := by
  rw [encodeName_eq]
  split
  · rename_i ptr hptr
    have hmem : (n, ptr) ∈ b.namePointers := by
      split at hptr
      · exact lookupName_mem _ _ _ hptr
      · cases hptr
    obtain ⟨off, hp, ho, hwf', hat⟩ := hinv n ptr hmem
    have hlt : off < b.octets.length := by
      have h1 := hat.bound
      rw [hwf'.len_eq] at h1
      have h2 := hwf'.len_pos
      omega
    subst hp
    obtain ⟨e1, e2, e3, e4, e5⟩ := pointer_arith off ho
    have hb : (u8 (0xC0 + off / 256)).toNat = 0xC0 + off / 256 := u8_toNat _ e4
    have hl : (u8 (off % 256)).toNat = off % 256 := u8_toNat _ (by omega)
    have hbuf : b.octets ++ u16Bytes (0xC000 + off) ++ post
        = b.octets ++ u8 (0xC0 + off / 256) :: u8 (off % 256) :: post := by
      simp only [u16Bytes, e1, e2]; simp
    have g0 : (b.octets ++ u16Bytes (0xC000 + off) ++ post)[b.octets.length]?
        = some (u8 (0xC0 + off / 256)) := by rw [hbuf]; simp
    have g1 : (b.octets ++ u16Bytes (0xC000 + off) ++ post)[b.octets.length + 1]?
        = some (u8 (off % 256)) := by rw [hbuf]; simp
    have hoff : (u8 (0xC0 + off / 256)).toNat % 64 * 256 + (u8 (off % 256)).toNat = off := by
      rw [hb, hl]; exact e5
    have hw := wireName_hasAt hwf' ((hat.append (u16Bytes (0xC000 + off))).append post) off
    have := WireName.ptr (start := b.octets.length) g0 (by rw [hb]; exact e3) g1
      (by rw [hoff]; exact hlt) (by rw [hoff]; exact hw)
    simpa using this
  · have := wireName_hasAt hwf ⟨b.octets, post, rfl, rfl⟩ b.octets.length
    simpa [hwf.len_eq] using this

end Resolved
