/-
  C10 for the local resolver: the records of every `ok` outcome of `resolve_local` form an alias
  chain starting at the question name followed by records of the asked type at the chain's end.
-/
import Resolved.Proofs.ResolverLocalSources

namespace Resolved

open Gen

/-- `IsChain n cs e`: `cs` are CNAME records, the first owned by `n`, each next one owned by the
    previous one's target, the last one pointing at `e` (`e = n` when `cs = []`). -/
inductive IsChain : Name → List RR → Name → Prop
  | nil (n : Name) : IsChain n [] n
  | cons (n t e : Name) (r : RR) (rest : List RR) :
      r.name = n → cnameTarget r = some t → IsChain t rest e → IsChain n (r :: rest) e

/-- The shape C10 asks of an answer to a question `(qn, qtype)`: an alias chain from `qn` with
    pairwise distinct owners, then only records of the asked type (themselves no aliases) owned by
    the chain's final target. -/
def ChainShaped (qn : Name) (qtype : Nat) (rrs : List RR) : Prop :=
  ∃ cs fs e, rrs = cs ++ fs ∧ IsChain qn cs e ∧ (cs.map (·.name)).Nodup ∧
    ∀ f ∈ fs, f.name = e ∧ f.rtype = qtype ∧ cnameTarget f = none

/-- the invariant carried through the recursion: additionally no link's owner is (as a question of
    the asked type and class) on the question stack. -/
structure ChainData (stack : List Question) (q : Question) (cs fs : List RR) (e : Name) : Prop where
  chain : IsChain q.name cs e
  nodup : (cs.map (·.name)).Nodup
  off : ∀ c ∈ cs, ({ name := c.name, qtype := q.qtype, qclass := q.qclass } : Question) ∉ stack
  final : ∀ f ∈ fs, f.name = e ∧ f.rtype = q.qtype ∧ cnameTarget f = none

def ChainShapedOff (stack : List Question) (q : Question) (rrs : List RR) : Prop :=
  ∃ cs fs e, rrs = cs ++ fs ∧ ChainData stack q cs fs e

theorem ChainShapedOff.shaped {stack : List Question} {q : Question} {rrs : List RR}
    (h : ChainShapedOff stack q rrs) : ChainShaped q.name q.qtype rrs := by
  obtain ⟨cs, fs, e, h1, h2⟩ := h
  exact ⟨cs, fs, e, h1, h2.chain, h2.nodup, h2.final⟩

/-- what an `ok` outcome at `(stack, q)` must look like. -/
def LocalChainOK (stack : List Question) (q : Question) : LocalResult → Prop
  | .delegation _ _ _ => True
  | .cname rrs cq =>
    ∃ e, rrs ≠ [] ∧ ChainData stack q rrs [] e ∧ cq = { name := e, qtype := q.qtype, qclass := q.qclass }
  | .done res => ChainShapedOff stack q res.rrs
  | .partialAnswer rrs => ChainShapedOff stack q rrs

/-- the records of a local outcome that are (part of) an answer; a referral carries NS records. -/
def LocalResult.answerRrs : LocalResult → Option (List RR)
  | .done res => some res.rrs
  | .partialAnswer rrs => some rrs
  | .cname rrs _ => some rrs
  | .delegation _ _ _ => none

theorem cnameTarget_of_shape {rr : RR} {c : Name} (ht : rr.rtype = RT_CNAME) (hf : rr.fields = [.name c]) :
    cnameTarget rr = some c := by
  simp [cnameTarget, ht, hf]

theorem cnameTarget_none_of_rtype {rr : RR} (ht : rr.rtype ≠ RT_CNAME) : cnameTarget rr = none := by
  simp [cnameTarget, ht]

theorem ChainData.cons {stack : List Question} {q : Question} {c : Name} {rr : RR} {cs fs : List RR}
    {e : Name} (hn : rr.name = q.name) (ht : cnameTarget rr = some c) (hq : q ∉ stack)
    (h : ChainData (stack ++ [q]) { name := c, qtype := q.qtype, qclass := q.qclass } cs fs e) :
    ChainData stack q (rr :: cs) fs e := by
  have hqeq : ({ name := rr.name, qtype := q.qtype, qclass := q.qclass } : Question) = q := by
    rw [hn]
  refine ⟨IsChain.cons _ c e rr cs hn ht h.chain, ?_, ?_, h.final⟩
  · simp only [List.map_cons, List.nodup_cons]
    refine ⟨?_, h.nodup⟩
    intro hmem
    simp only [List.mem_map] at hmem
    obtain ⟨c', hc', hname⟩ := hmem
    have := h.off c' hc'
    simp only at this
    rw [hname, hqeq] at this
    exact this (by simp)
  · intro c' hc'
    simp only [List.mem_cons] at hc'
    rcases hc' with rfl | hc'
    · rw [hqeq]; exact hq
    · have := h.off c' hc'
      simp only at this
      intro hm; exact this (List.mem_append_left _ hm)

theorem ChainData.single {stack : List Question} {q : Question} {c : Name} {rr : RR}
    (hn : rr.name = q.name) (ht : cnameTarget rr = some c) (hq : q ∉ stack) :
    ChainData stack q [rr] [] c := by
  apply ChainData.cons hn ht hq
  exact ⟨IsChain.nil _, by simp, by simp, by simp⟩

theorem ChainData.finals {stack : List Question} {q : Question} {fs : List RR}
    (h : ∀ f ∈ fs, f.name = q.name ∧ f.rtype = q.qtype ∧ cnameTarget f = none) :
    ChainData stack q [] fs q.name :=
  ⟨IsChain.nil _, by simp, by simp, h⟩

theorem ChainShapedOff.finals {stack : List Question} {q : Question} {fs : List RR}
    (h5 : q.qtype ≠ RT_CNAME) (h : ∀ f ∈ fs, f.name = q.name ∧ f.rtype = q.qtype) :
    ChainShapedOff stack q fs :=
  ⟨[], fs, q.name, rfl, ChainData.finals (fun f hf =>
    ⟨(h f hf).1, (h f hf).2, cnameTarget_none_of_rtype (by rw [(h f hf).2]; exact h5)⟩)⟩

theorem ChainShapedOff.cons {stack : List Question} {q : Question} {c : Name} {rr : RR} {rrs : List RR}
    (hn : rr.name = q.name) (ht : cnameTarget rr = some c) (hq : q ∉ stack)
    (h : ChainShapedOff (stack ++ [q]) { name := c, qtype := q.qtype, qclass := q.qclass } rrs) :
    ChainShapedOff stack q ([rr] ++ rrs) := by
  obtain ⟨cs, fs, e, h1, h2⟩ := h
  exact ⟨rr :: cs, fs, e, by simp [h1], ChainData.cons hn ht hq h2⟩

theorem ChainShapedOff.single {stack : List Question} {q : Question} {c : Name} {rr : RR}
    (hn : rr.name = q.name) (ht : cnameTarget rr = some c) (hq : q ∉ stack) :
    ChainShapedOff stack q [rr] :=
  ⟨[rr], [], c, rfl, ChainData.single hn ht hq⟩

/-- the zone CNAME branch keeps the shape. -/
theorem zoneCnameAnswer_chain {stack : List Question} {q : Question} {c : Name} {rr : RR}
    {sub : Except ResolutionError LocalResult}
    (hn : rr.name = q.name) (ht : cnameTarget rr = some c) (hq : q ∉ stack)
    (hsub : ∀ r', sub = .ok r' →
      LocalChainOK (stack ++ [q]) { name := c, qtype := q.qtype, qclass := q.qclass } r') :
    LocalChainOK stack q (zoneCnameAnswer rr { name := c, qtype := q.qtype, qclass := q.qclass } sub) := by
  unfold zoneCnameAnswer
  split
  · exact ChainShapedOff.cons hn ht hq (hsub _ rfl)
  · exact ChainShapedOff.single hn ht hq
  · exact ChainShapedOff.cons hn ht hq (hsub _ rfl)
  · exact ChainShapedOff.cons hn ht hq (hsub _ rfl)
  · obtain ⟨e, _, hd, hcq⟩ := hsub _ rfl
    exact ⟨e, by simp, ChainData.cons hn ht hq hd, hcq⟩
  · exact ⟨c, by simp, ChainData.single hn ht hq, rfl⟩

/-- what the step lemma needs of the recursive function. -/
def RecChainOK (rec : Ctx → Question → LocalOut) (ctx : Ctx) (q : Question) : Prop :=
  ∀ c' q', c'.zones = ctx.zones → c'.stack = ctx.stack ++ [q] → CacheTyped c'.cache →
    q'.qtype = q.qtype → q'.qclass = q.qclass →
    ∀ r, (rec c' q').2 = .ok r → LocalChainOK c'.stack q' r

/-- what the cached-CNAME part hands to the final stage. -/
def CachePartOK (stack : List Question) (q : Question) (rc : List RR) : Option Name → Prop
  | none => ChainShapedOff stack q rc
  | some cn => rc ≠ [] ∧ ChainData stack q rc [] cn

theorem cacheCnameFinish_chain {stack : List Question} {q : Question} {c : Name} {rr : RR}
    {out : LocalOut} (hn : rr.name = q.name) (ht : cnameTarget rr = some c) (hq : q ∉ stack)
    (hsub : ∀ r', out.2 = .ok r' →
      LocalChainOK (stack ++ [q]) { name := c, qtype := q.qtype, qclass := q.qclass } r')
    (rc : List RR) (fc : Option Name) (h : (cacheCnameFinish rr c out).2 = .ok (rc, fc)) :
    CachePartOK stack q rc fc := by
  unfold cacheCnameFinish at h
  split at h
  · rename_i res hout
    cases h
    exact ChainShapedOff.cons hn ht hq (hsub _ hout)
  · rename_i rrs hout
    cases h
    exact ChainShapedOff.cons hn ht hq (hsub _ hout)
  · rename_i rrs cq hout
    cases h
    obtain ⟨e, _, hd, hcq⟩ := hsub _ hout
    subst hcq
    exact ⟨by simp, ChainData.cons hn ht hq hd⟩
  · cases h
    exact ⟨by simp, ChainData.single hn ht hq⟩

theorem cachePart_chain {rec : Ctx → Question → LocalOut} {ctx ctx2 : Ctx} {q : Question} {r0 : List RR}
    (hf : ctx2.SameFrame ctx) (hc2 : CacheTyped ctx2.cache) (hq : q ∉ ctx.stack)
    (h5 : q.qtype ≠ RT_CNAME) (hr0 : ∀ rr ∈ r0, rr.name = q.name ∧ rr.rtype = q.qtype)
    (hrec : RecChainOK rec ctx q) (rc : List RR) (fc : Option Name)
    (h : (cachePart rec ctx2 q r0).2 = .ok (rc, fc)) : CachePartOK ctx.stack q rc fc := by
  unfold cachePart at h
  split at h
  · unfold cacheCnamePart at h
    have hown := cacheGet_owner ctx2.cache q.name CNAME_QTYPE ctx2.now
    obtain ⟨hc3, hty⟩ := cacheGet_typed hc2 q.name CNAME_QTYPE ctx2.now
    rw [← Ctx.cacheGet_snd] at hown hty
    rw [← Ctx.cacheGet_fst_cache] at hc3
    have hf3 : (ctx2.cacheGet q.name CNAME_QTYPE).1.SameFrame ctx := (Ctx.cacheGet_frame _ _ _).trans hf
    generalize (ctx2.cacheGet q.name CNAME_QTYPE).2 = cs at h hown hty
    generalize (ctx2.cacheGet q.name CNAME_QTYPE).1 = ctx3 at h hc3 hf3
    split at h
    · cases h
      exact ChainShapedOff.finals h5 (by simp)
    · rename_i cnameRR rest
      split at h
      · rename_i cname htgt
        have hn : cnameRR.name = q.name := hown cnameRR (by simp)
        apply cacheCnameFinish_chain hn htgt hq _ rc fc h
        intro r' hr'
        have := hrec (ctx3.push q) { name := cname, qtype := q.qtype, qclass := q.qclass } hf3.1
          (by simp [Ctx.push, hf3.2.2]) hc3 rfl rfl r' hr'
        simpa [Ctx.push, hf3.2.2] using this
      · cases h
  · cases h
    exact ChainShapedOff.finals h5 hr0

theorem prioritisingMerge_nil (new : List RR) : prioritisingMerge [] new = new := by
  simp [prioritisingMerge]

/-- one level keeps the shape, given that the levels below do. -/
theorem localStep_chain {rec : Ctx → Question → LocalOut} {ctx : Ctx} {q : Question}
    (hz : ZoneAnswersTyped ctx.zones) (hc : CacheTyped ctx.cache)
    (h5 : q.qtype ≠ RT_CNAME) (h255 : q.qtype ≠ QTYPE_WILDCARD) (hrec : RecChainOK rec ctx q)
    (r : LocalResult) (h : (localStep rec ctx q).2 = .ok r) : LocalChainOK ctx.stack q r := by
  unfold localStep at h
  split at h
  · cases h
  · split at h
    · cases h
    · rename_i hd
      have hq : q ∉ ctx.stack := by simpa [Ctx.isDuplicate] using hd
      split at h
      · rename_i c res hzp
        simp only at h; subst h
        unfold zonePart at hzp
        split at hzp
        · cases hzp
        · cases hzp
        · rename_i zone zr hres
          have hown := Zones.resolve_owned hres
          have hty := hz _ _ _ _ hres
          unfold zoneResultPart at hzp
          split at hzp
          · rename_i rrs
            have hfin : ∀ f ∈ rrs, f.name = q.name ∧ f.rtype = q.qtype := fun f hf =>
              ⟨hown.answer rrs rfl f hf, hty.answer rrs rfl h255 f hf⟩
            split at hzp
            · cases hzp; exact ChainShapedOff.finals h5 hfin
            · split at hzp
              · cases hzp; exact ChainShapedOff.finals h5 hfin
              · cases hzp
          · rename_i cname rr
            simp only [Prod.mk.injEq, Sum.inl.injEq, Except.ok.injEq] at hzp
            rw [← hzp.2]
            obtain ⟨hn, hfld⟩ := hown.cname cname rr rfl
            have ht := cnameTarget_of_shape (hty.cname cname rr rfl) hfld
            apply zoneCnameAnswer_chain hn ht hq
            intro r' hr'
            have := hrec (ctx.push q) { name := cname, qtype := q.qtype, qclass := q.qclass } rfl rfl hc
              rfl rfl r' hr'
            simpa [Ctx.push] using this
          · split at hzp
            · split at hzp
              · cases hzp
              · cases hzp; trivial
            · cases hzp
          · split at hzp
            · cases hzp; exact ChainShapedOff.finals h5 (by simp [ResolvedRecord.rrs])
            · cases hzp
          · cases hzp
      · rename_i c rz hzp
        obtain ⟨hceq, hrz⟩ := zonePart_inr hzp
        subst hceq
        have hrz' : rz = [] := by
          rcases hrz with hrz | ⟨hw, _⟩
          · exact hrz
          · exact absurd hw h255
        subst hrz'
        unfold cacheStage at h
        obtain ⟨rc, fc, hcp, _, hcases⟩ := finishPart_ok h
        rw [prioritisingMerge_nil] at hcases
        have hown := cacheGet_owner c.cache q.name q.qtype c.now
        obtain ⟨hc2, hty⟩ := cacheGet_typed hc q.name q.qtype c.now
        rw [← Ctx.cacheGet_snd] at hown hty
        rw [← Ctx.cacheGet_fst_cache] at hc2
        have hok := cachePart_chain (Ctx.cacheGet_frame c q.name q.qtype) hc2 hq h5
          (fun rr hrr => ⟨hown rr hrr, hty h255 rr hrr⟩) hrec rc fc hcp
        rcases hcases with ⟨cn, hfc, hr⟩ | ⟨_, hw, _⟩ | ⟨hfc, _, hr⟩
        · subst hfc; subst hr
          exact ⟨cn, hok.1, hok.2, rfl⟩
        · exact absurd hw h255
        · subst hfc; subst hr
          exact hok

/-- every `ok` outcome of `resolve_local` has the chain shape (with the stack-avoidance invariant). -/
theorem resolveLocal_chain : ∀ (fuel : Nat) (ctx : Ctx) (q : Question),
    ZoneAnswersTyped ctx.zones → CacheTyped ctx.cache → q.qtype ≠ RT_CNAME → q.qtype ≠ QTYPE_WILDCARD →
    ∀ r, (resolveLocal fuel ctx q).2 = .ok r → LocalChainOK ctx.stack q r := by
  intro fuel
  induction fuel with
  | zero => intro ctx q _ _ _ _ r h; rw [resolveLocal_zero] at h; cases h
  | succ n ih =>
    intro ctx q hz hc h5 h255 r h
    rw [resolveLocal_succ] at h
    refine localStep_chain hz hc h5 h255 ?_ r h
    intro c' q' hzs _ hct hqt _ r' hr'
    exact ih c' q' (hzs ▸ hz) hct (hqt ▸ h5) (hqt ▸ h255) r' hr'

/-! ## index form of `IsChain` -/

theorem IsChain.head {n e : Name} {r : RR} {rest : List RR} (h : IsChain n (r :: rest) e) : r.name = n := by
  cases h; assumption

/-- every link is a CNAME record. -/
theorem IsChain.all_cname {n e : Name} {cs : List RR} (h : IsChain n cs e) :
    ∀ c ∈ cs, ∃ t, cnameTarget c = some t := by
  induction h with
  | nil => simp
  | cons n t e r rest _ ht _ ih =>
    intro c hc
    simp only [List.mem_cons] at hc
    rcases hc with rfl | hc
    · exact ⟨t, ht⟩
    · exact ih c hc

/-- each link's target is the next link's owner. -/
theorem IsChain.link {n e : Name} {cs : List RR} (h : IsChain n cs e) :
    ∀ i (hi : i + 1 < cs.length), cnameTarget (cs[i]'(by omega)) = some (cs[i + 1]'hi).name := by
  induction h with
  | nil => intro i hi; simp at hi
  | cons n t e r rest _ ht hrest ih =>
    intro i hi
    cases i with
    | zero =>
      cases rest with
      | nil => simp at hi
      | cons r2 rest2 => simp only [List.getElem_cons_zero, List.getElem_cons_succ]; rw [hrest.head]; exact ht
    | succ j =>
      simp only [List.getElem_cons_succ]
      exact ih j (by simpa using hi)

/-- the last link points at the chain's end (and the end is the start when there is no link). -/
theorem IsChain.last {n e : Name} {cs : List RR} (h : IsChain n cs e) :
    (cs = [] → e = n) ∧ ∀ l, cs.getLast? = some l → cnameTarget l = some e := by
  induction h with
  | nil => simp
  | cons n t e r rest _ ht hrest ih =>
    refine ⟨by simp, ?_⟩
    intro l hl
    cases rest with
    | nil =>
      simp only [List.getLast?_singleton, Option.some.injEq] at hl
      subst hl
      rw [ih.1 rfl]; exact ht
    | cons r2 rest2 =>
      rw [List.getLast?_cons_cons] at hl
      exact ih.2 l hl

end Resolved
