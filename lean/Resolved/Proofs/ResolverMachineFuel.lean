/-
  Fuel.  `tryTypes` treats every error of a nested `resolveRec` alike, so a fuel exhaustion deep
  in the call tree can be masked (the result is then e.g. `deadEnd`, not `outOfFuel`): the plain
  statement "no `outOfFuel` ⇒ more fuel gives the same result" is FALSE for the model (see the
  counterexample in `Props/C08`).  The ghost functions `okRec` / `okLoop` / `okComb` / `okTry`
  below mirror the call tree of the machine and say "no call of this tree was made with fuel 0";
  `fuel_stable` proves that under this condition the fuel is unobservable: one more unit of fuel
  gives the same state and result, and the condition persists.
-/
import Resolved.Proofs.ResolverMachineReach

namespace Resolved

open Gen

mutual

/-- no call in the call tree of `resolveRec cfg fuel st q` runs out of fuel. -/
def okRec (cfg : RecCfg) : Nat → St → Question → Bool
  | 0, _, _ => false
  | fuel + 1, st, q =>
    if st.run.timedOut then true
    else if st.ctx.atRecursionLimit then true
    else if st.ctx.isDuplicate q then true
    else
      match (resolveLocal (RECURSION_LIMIT + 1) st.ctx q).2 with
      | .ok (.done _) => true
      | .ok (.cname rrs cq) => okComb cfg fuel ⟨(resolveLocal (RECURSION_LIMIT + 1) st.ctx q).1.push q, st.run⟩ rrs cq
      | other =>
        match (initialCandidates ⟨(resolveLocal (RECURSION_LIMIT + 1) st.ctx q).1.push q, st.run⟩ q other).2 with
        | none => true
        | some c =>
          okLoop cfg fuel (initialCandidates ⟨(resolveLocal (RECURSION_LIMIT + 1) st.ctx q).1.push q, st.run⟩ q other).1
            q (initialCombined other) c.matchCount c.hostnames [] true

def okLoop (cfg : RecCfg) : Nat → St → Question → List RR → Nat → List Name → List Name → Bool → Bool
  | 0, _, _, _, _, _, _, _ => false
  | fuel + 1, st, q, combined, mc, cands, next, locally =>
    if st.run.timedOut then true
    else
      match cands.getLast? with
      | none => true
      | some candidate =>
        okTry cfg fuel st locally candidate (rtypesFor cfg.mode) &&
        (if (tryTypes cfg fuel st locally candidate (rtypesFor cfg.mode)).1.run.timedOut then true
         else
           match (tryTypes cfg fuel st locally candidate (rtypesFor cfg.mode)).2 with
           | some addr =>
             if (queryNameserver cfg.oracle (tryTypes cfg fuel st locally candidate (rtypesFor cfg.mode)).1.run
                  addr cfg.port q false).1.timedOut then true
             else
               match (queryNameserver cfg.oracle (tryTypes cfg fuel st locally candidate (rtypesFor cfg.mode)).1.run
                  addr cfg.port q false).2.bind (fun res => validateNameserverResponse q res mc) with
               | some (.answer _ _) => true
               | some (.delegation rrs hostnames name) =>
                 match glueFor q rrs with
                 | some _ => true
                 | none =>
                   okLoop cfg fuel
                     ⟨(tryTypes cfg fuel st locally candidate (rtypesFor cfg.mode)).1.ctx.cacheInsertAll rrs,
                      (queryNameserver cfg.oracle (tryTypes cfg fuel st locally candidate (rtypesFor cfg.mode)).1.run
                        addr cfg.port q false).1⟩
                     q combined name.labels.length (cfg.hostOrder hostnames) [] true
               | some (.cname rrs cname) =>
                 okComb cfg fuel
                   ⟨(tryTypes cfg fuel st locally candidate (rtypesFor cfg.mode)).1.ctx.cacheInsertAll rrs,
                    (queryNameserver cfg.oracle (tryTypes cfg fuel st locally candidate (rtypesFor cfg.mode)).1.run
                      addr cfg.port q false).1⟩
                   (prioritisingMerge combined rrs) { name := cname, qclass := q.qclass, qtype := q.qtype }
               | none => true
           | none =>
             if locally then
               if cands.dropLast.isEmpty then
                 okLoop cfg fuel (tryTypes cfg fuel st locally candidate (rtypesFor cfg.mode)).1 q combined mc
                   (next ++ [candidate]) [] false
               else
                 okLoop cfg fuel (tryTypes cfg fuel st locally candidate (rtypesFor cfg.mode)).1 q combined mc
                   cands.dropLast (next ++ [candidate]) true
             else
               okLoop cfg fuel (tryTypes cfg fuel st locally candidate (rtypesFor cfg.mode)).1 q combined mc
                 cands.dropLast next false)

def okComb (cfg : RecCfg) : Nat → St → List RR → Question → Bool
  | 0, _, _, _ => false
  | fuel + 1, st, _, q => okRec cfg fuel st q

def okTry (cfg : RecCfg) : Nat → St → Bool → Name → List Nat → Bool
  | 0, _, _, _, _ => false
  | _ + 1, _, _, _, [] => true
  | fuel + 1, st, locally, hostname, rtype :: more =>
    if st.run.timedOut then true
    else
      (locally || okRec cfg fuel st { name := hostname, qclass := CLASS_IN, qtype := rtype }) &&
      (match (lookupStep cfg fuel st locally hostname rtype).2 with
       | some _ => true
       | none => okTry cfg fuel (lookupStep cfg fuel st locally hostname rtype).1 locally hostname more)

end

/-- with no exhaustion at fuel `n`, fuel `n + 1` gives the same result, again without exhaustion. -/
def FuelStable (cfg : RecCfg) (n : Nat) : Prop :=
  (∀ st q, okRec cfg n st q = true →
    resolveRec cfg (n + 1) st q = resolveRec cfg n st q ∧ okRec cfg (n + 1) st q = true) ∧
  (∀ st q combined mc cands next locally, okLoop cfg n st q combined mc cands next locally = true →
    candidateLoop cfg (n + 1) st q combined mc cands next locally =
      candidateLoop cfg n st q combined mc cands next locally ∧
    okLoop cfg (n + 1) st q combined mc cands next locally = true) ∧
  (∀ st rrs q, okComb cfg n st rrs q = true →
    resolveCombined cfg (n + 1) st rrs q = resolveCombined cfg n st rrs q ∧ okComb cfg (n + 1) st rrs q = true) ∧
  (∀ st locally host types, okTry cfg n st locally host types = true →
    tryTypes cfg (n + 1) st locally host types = tryTypes cfg n st locally host types ∧
    okTry cfg (n + 1) st locally host types = true)

theorem fuel_stable (cfg : RecCfg) : ∀ n, FuelStable cfg n := by
  intro n
  induction n with
  | zero =>
    refine ⟨?_, ?_, ?_, ?_⟩
    · intro st q h; rw [okRec] at h; cases h
    · intro st q combined mc cands next locally h; rw [okLoop] at h; cases h
    · intro st rrs q h; rw [okComb] at h; cases h
    · intro st locally host types h; rw [okTry] at h; cases h
  | succ n ih =>
    obtain ⟨ihR, ihL, ihC, ihT⟩ := ih
    refine ⟨?_, ?_, ?_, ?_⟩
    · -- resolveRec
      intro st q h
      rw [okRec] at h
      rw [resolveRec_succ cfg (n + 1), resolveRec_succ cfg n, okRec]
      by_cases ht : st.run.timedOut = true
      · simp only [if_pos ht, and_self]
      by_cases hl : st.ctx.atRecursionLimit = true
      · simp only [if_neg ht, if_pos hl, and_self]
      by_cases hd : st.ctx.isDuplicate q = true
      · simp only [if_neg ht, if_neg hl, if_pos hd, and_self]
      simp only [if_neg ht, if_neg hl, if_neg hd] at h ⊢
      generalize (resolveLocal (RECURSION_LIMIT + 1) st.ctx q).2 = loc at h ⊢
      generalize (resolveLocal (RECURSION_LIMIT + 1) st.ctx q).1 = ctx1 at h ⊢
      have hup : ∀ other : Except ResolutionError LocalResult,
          (match (initialCandidates ⟨ctx1.push q, st.run⟩ q other).2 with
            | none => true
            | some c => okLoop cfg n (initialCandidates ⟨ctx1.push q, st.run⟩ q other).1 q (initialCombined other)
                c.matchCount c.hostnames [] true) = true →
          recUpstream cfg (n + 1) ⟨ctx1.push q, st.run⟩ q other = recUpstream cfg n ⟨ctx1.push q, st.run⟩ q other ∧
          (match (initialCandidates ⟨ctx1.push q, st.run⟩ q other).2 with
            | none => true
            | some c => okLoop cfg (n + 1) (initialCandidates ⟨ctx1.push q, st.run⟩ q other).1 q
                (initialCombined other) c.matchCount c.hostnames [] true) = true := by
        intro other h
        unfold recUpstream
        generalize initialCandidates ⟨ctx1.push q, st.run⟩ q other = ic at h ⊢
        obtain ⟨st3, cand⟩ := ic
        cases cand with
        | none => exact ⟨rfl, rfl⟩
        | some c =>
          simp only at h ⊢
          obtain ⟨e, o⟩ := ihL _ _ _ _ _ _ _ h
          rw [e]
          exact ⟨rfl, o⟩
      cases loc with
      | error e => exact hup _ h
      | ok lr =>
        cases lr with
        | done r => exact ⟨rfl, rfl⟩
        | cname rrs cq =>
          simp only at h ⊢
          obtain ⟨e, o⟩ := ihC _ _ _ h
          rw [e]
          exact ⟨rfl, o⟩
        | partialAnswer rrs => exact hup _ h
        | delegation rrs soa d => exact hup _ h
    · -- candidateLoop
      intro st q combined mc cands next locally h
      rw [okLoop] at h
      rw [candidateLoop_succ cfg (n + 1), candidateLoop_succ cfg n, okLoop]
      by_cases ht : st.run.timedOut = true
      · simp only [if_pos ht, and_self]
      simp only [if_neg ht] at h ⊢
      cases hc : cands.getLast? with
      | none => exact ⟨rfl, rfl⟩
      | some candidate =>
        rw [hc] at h
        simp only [Bool.and_eq_true] at h ⊢
        obtain ⟨hT, hrest⟩ := h
        obtain ⟨eT, oT⟩ := ihT _ _ _ _ hT
        rw [eT, oT]
        generalize tryTypes cfg n st locally candidate (rtypesFor cfg.mode) = p at hrest ⊢
        obtain ⟨st1, ip⟩ := p
        simp only at hrest ⊢
        by_cases ht1 : st1.run.timedOut = true
        · simp only [if_pos ht1, and_self]
        simp only [if_neg ht1] at hrest ⊢
        cases ip with
        | none =>
          simp only at hrest ⊢
          unfold loopNoAddr
          cases locally with
          | true =>
            simp only [if_true] at hrest ⊢
            by_cases he : cands.dropLast.isEmpty = true
            · simp only [if_pos he] at hrest ⊢
              obtain ⟨e, o⟩ := ihL _ _ _ _ _ _ _ hrest
              exact ⟨e, trivial, o⟩
            · simp only [if_neg he] at hrest ⊢
              obtain ⟨e, o⟩ := ihL _ _ _ _ _ _ _ hrest
              exact ⟨e, trivial, o⟩
          | false =>
            simp only [Bool.false_eq_true, if_false] at hrest ⊢
            obtain ⟨e, o⟩ := ihL _ _ _ _ _ _ _ hrest
            exact ⟨e, trivial, o⟩
        | some addr =>
          simp only at hrest ⊢
          unfold loopQuery
          generalize queryNameserver cfg.oracle st1.run addr cfg.port q false = qn at hrest ⊢
          obtain ⟨run2, reply⟩ := qn
          simp only at hrest ⊢
          by_cases ht2 : run2.timedOut = true
          · simp only [if_pos ht2, and_self]
          simp only [if_neg ht2] at hrest ⊢
          cases hb : (reply.bind fun res => validateNameserverResponse q res mc) with
          | none => exact ⟨rfl, trivial, rfl⟩
          | some resp =>
            rw [hb] at hrest
            cases resp with
            | answer rrs soa => exact ⟨rfl, trivial, rfl⟩
            | cname rrs c =>
              simp only [loopAfterReply] at hrest ⊢
              obtain ⟨e, o⟩ := ihC _ _ _ hrest
              exact ⟨e, trivial, o⟩
            | delegation rrs hs zone =>
              simp only [loopAfterReply] at hrest ⊢
              cases hg : glueFor q rrs with
              | some rr => exact ⟨rfl, trivial, rfl⟩
              | none =>
                rw [hg] at hrest
                simp only at hrest ⊢
                obtain ⟨e, o⟩ := ihL _ _ _ _ _ _ _ hrest
                exact ⟨e, trivial, o⟩
    · -- resolveCombined
      intro st rrs q h
      rw [okComb] at h
      rw [resolveCombined_succ cfg (n + 1), resolveCombined_succ cfg n, okComb]
      obtain ⟨e, o⟩ := ihR _ _ h
      rw [e]
      exact ⟨rfl, o⟩
    · -- tryTypes
      intro st locally host types h
      cases types with
      | nil => rw [tryTypes_nil, tryTypes_nil, okTry]; exact ⟨rfl, rfl⟩
      | cons t more =>
        rw [okTry] at h
        rw [tryTypes_cons cfg (n + 1), tryTypes_cons cfg n, okTry]
        by_cases ht : st.run.timedOut = true
        · simp only [if_pos ht, and_self]
        simp only [if_neg ht, Bool.and_eq_true, Bool.or_eq_true] at h ⊢
        obtain ⟨h1, h2⟩ := h
        -- the lookup step is the same with one more unit of fuel
        have hstep : lookupStep cfg (n + 1) st locally host t = lookupStep cfg n st locally host t ∧
            (locally = true ∨ okRec cfg (n + 1) st { name := host, qclass := CLASS_IN, qtype := t } = true) := by
          rcases h1 with h1 | h1
          · subst h1
            exact ⟨by simp only [lookupStep, if_true], Or.inl rfl⟩
          · obtain ⟨e, o⟩ := ihR _ _ h1
            refine ⟨?_, Or.inr o⟩
            unfold lookupStep
            rw [e]
        rw [hstep.1]
        refine ⟨?_, hstep.2, ?_⟩
        · cases hs : (lookupStep cfg n st locally host t).2 with
          | some a => rfl
          | none =>
            rw [hs] at h2
            exact (ihT _ _ _ _ h2).1
        · cases hs : (lookupStep cfg n st locally host t).2 with
          | some a => rfl
          | none =>
            rw [hs] at h2
            exact (ihT _ _ _ _ h2).2

/-- any amount of extra fuel. -/
theorem fuel_stable_le (cfg : RecCfg) (n m : Nat) (hm : n ≤ m) (st : St) (q : Question)
    (h : okRec cfg n st q = true) :
    resolveRec cfg m st q = resolveRec cfg n st q ∧ okRec cfg m st q = true := by
  induction m with
  | zero =>
    have : n = 0 := by omega
    subst this
    exact ⟨rfl, h⟩
  | succ m ih =>
    by_cases hnm : n = m + 1
    · subst hnm; exact ⟨rfl, h⟩
    · obtain ⟨e, o⟩ := ih (by omega)
      obtain ⟨e', o'⟩ := (fuel_stable cfg m).1 st q o
      exact ⟨e'.trans e, o'⟩

/-- without exhaustion in the call tree, `outOfFuel` is not the result. -/
def NoOOF (p : St × Except ResolutionError ResolvedRecord) : Prop := p.2 ≠ .error .outOfFuel

theorem ok_no_outOfFuel (cfg : RecCfg) : ∀ n,
    (∀ st q, okRec cfg n st q = true → NoOOF (resolveRec cfg n st q)) ∧
    (∀ st q combined mc cands next locally, okLoop cfg n st q combined mc cands next locally = true →
      NoOOF (candidateLoop cfg n st q combined mc cands next locally)) ∧
    (∀ st rrs q, okComb cfg n st rrs q = true → NoOOF (resolveCombined cfg n st rrs q)) := by
  intro n
  induction n with
  | zero =>
    refine ⟨?_, ?_, ?_⟩
    · intro st q h; rw [okRec] at h; cases h
    · intro st q combined mc cands next locally h; rw [okLoop] at h; cases h
    · intro st rrs q h; rw [okComb] at h; cases h
  | succ n ih =>
    obtain ⟨ihR, ihL, ihC⟩ := ih
    have herr : ∀ (st : St) (e : ResolutionError), e ≠ .outOfFuel →
        NoOOF ((st, .error e) : St × Except ResolutionError ResolvedRecord) := by
      intro st e he h; simp only [Except.error.injEq] at h; exact he h
    have hok : ∀ (st : St) (r : ResolvedRecord),
        NoOOF ((st, .ok r) : St × Except ResolutionError ResolvedRecord) := by
      intro st r h; cases h
    refine ⟨?_, ?_, ?_⟩
    · intro st q h
      rw [okRec] at h
      rw [resolveRec_succ]
      by_cases ht : st.run.timedOut = true
      · simp only [if_pos ht]; exact herr _ _ (by simp)
      by_cases hl : st.ctx.atRecursionLimit = true
      · simp only [if_neg ht, if_pos hl]; exact herr _ _ (by simp)
      by_cases hd : st.ctx.isDuplicate q = true
      · simp only [if_neg ht, if_neg hl, if_pos hd]; exact herr _ _ (by simp)
      simp only [if_neg ht, if_neg hl, if_neg hd] at h ⊢
      generalize (resolveLocal (RECURSION_LIMIT + 1) st.ctx q).2 = loc at h ⊢
      generalize (resolveLocal (RECURSION_LIMIT + 1) st.ctx q).1 = ctx1 at h ⊢
      have hup : ∀ other : Except ResolutionError LocalResult,
          (match (initialCandidates ⟨ctx1.push q, st.run⟩ q other).2 with
            | none => true
            | some c => okLoop cfg n (initialCandidates ⟨ctx1.push q, st.run⟩ q other).1 q (initialCombined other)
                c.matchCount c.hostnames [] true) = true →
          NoOOF (recUpstream cfg n ⟨ctx1.push q, st.run⟩ q other) := by
        intro other h
        unfold recUpstream
        generalize initialCandidates ⟨ctx1.push q, st.run⟩ q other = ic at h ⊢
        obtain ⟨st3, cand⟩ := ic
        cases cand with
        | none => exact herr _ _ (by simp)
        | some c => exact ihL _ _ _ _ _ _ _ h
      cases loc with
      | error e => exact hup _ h
      | ok lr =>
        cases lr with
        | done r => exact hok _ _
        | cname rrs cq => exact ihC _ _ _ h
        | partialAnswer rrs => exact hup _ h
        | delegation rrs soa d => exact hup _ h
    · intro st q combined mc cands next locally h
      rw [okLoop] at h
      rw [candidateLoop_succ]
      by_cases ht : st.run.timedOut = true
      · simp only [if_pos ht]; exact herr _ _ (by simp)
      simp only [if_neg ht] at h ⊢
      cases hc : cands.getLast? with
      | none => exact herr _ _ (by simp)
      | some candidate =>
        rw [hc] at h
        simp only [Bool.and_eq_true] at h ⊢
        obtain ⟨_, hrest⟩ := h
        generalize tryTypes cfg n st locally candidate (rtypesFor cfg.mode) = p at hrest ⊢
        obtain ⟨st1, ip⟩ := p
        simp only at hrest ⊢
        by_cases ht1 : st1.run.timedOut = true
        · simp only [if_pos ht1]; exact herr _ _ (by simp)
        simp only [if_neg ht1] at hrest ⊢
        cases ip with
        | none =>
          simp only at hrest ⊢
          unfold loopNoAddr
          cases locally with
          | true =>
            simp only [if_true] at hrest ⊢
            by_cases he : cands.dropLast.isEmpty = true
            · simp only [if_pos he] at hrest ⊢
              exact ihL _ _ _ _ _ _ _ hrest
            · simp only [if_neg he] at hrest ⊢
              exact ihL _ _ _ _ _ _ _ hrest
          | false =>
            simp only [Bool.false_eq_true, if_false] at hrest ⊢
            exact ihL _ _ _ _ _ _ _ hrest
        | some addr =>
          simp only at hrest ⊢
          unfold loopQuery
          generalize queryNameserver cfg.oracle st1.run addr cfg.port q false = qn at hrest ⊢
          obtain ⟨run2, reply⟩ := qn
          simp only at hrest ⊢
          by_cases ht2 : run2.timedOut = true
          · simp only [if_pos ht2]; exact herr _ _ (by simp)
          simp only [if_neg ht2] at hrest ⊢
          cases hb : (reply.bind fun res => validateNameserverResponse q res mc) with
          | none => exact herr _ _ (by simp)
          | some resp =>
            rw [hb] at hrest
            cases resp with
            | answer rrs soa => exact hok _ _
            | cname rrs c =>
              simp only [loopAfterReply] at hrest ⊢
              exact ihC _ _ _ hrest
            | delegation rrs hs zone =>
              simp only [loopAfterReply] at hrest ⊢
              cases hg : glueFor q rrs with
              | some rr => exact hok _ _
              | none =>
                rw [hg] at hrest
                simp only at hrest ⊢
                exact ihL _ _ _ _ _ _ _ hrest
    · intro st rrs q h
      rw [okComb] at h
      rw [resolveCombined_succ]
      have := ihR _ _ h
      unfold NoOOF at this
      cases hr : (resolveRec cfg n st q).2 with
      | ok r => exact hok _ _
      | error e =>
        rw [hr] at this
        cases e with
        | outOfFuel => exact absurd rfl this
        | timeout => exact herr _ _ (by simp)
        | _ => exact herr _ _ (by simp)

end Resolved
