/-
  The structural invariant of the partitioned cache (C15) and the list-level lemmas it rests on:
  tuple lists (`findDup`, `swapRemove`), minimum expiry, `retainLive`, queue updates.
-/
import Resolved.Proofs.CacheAssoc

namespace Resolved

open PCache

/-! ## Tuples of a partition -/

/-- all `(value, expiry)` tuples of a partition's record map -/
def tuplesOf (rs : List (Nat × Tuples)) : Tuples := rs.flatMap (·.2)

/-- number of tuples of a partition's record map -/
def recCount (rs : List (Nat × Tuples)) : Nat := (rs.map (fun r => r.2.length)).sum

@[simp] theorem tuplesOf_nil : tuplesOf [] = [] := rfl
@[simp] theorem tuplesOf_cons (r : Nat × Tuples) (rs : List (Nat × Tuples)) :
    tuplesOf (r :: rs) = r.2 ++ tuplesOf rs := by simp [tuplesOf]
@[simp] theorem tuplesOf_append (a b : List (Nat × Tuples)) :
    tuplesOf (a ++ b) = tuplesOf a ++ tuplesOf b := by simp [tuplesOf]
@[simp] theorem recCount_nil : recCount [] = 0 := rfl
@[simp] theorem recCount_cons (r : Nat × Tuples) (rs : List (Nat × Tuples)) :
    recCount (r :: rs) = r.2.length + recCount rs := by simp [recCount]
@[simp] theorem recCount_append (a b : List (Nat × Tuples)) :
    recCount (a ++ b) = recCount a + recCount b := by simp [recCount]

theorem length_tuplesOf (rs : List (Nat × Tuples)) : (tuplesOf rs).length = recCount rs := by
  induction rs with
  | nil => rfl
  | cons r rs ih => simp [ih]

theorem mem_tuplesOf {rs : List (Nat × Tuples)} {t : CRec × Nat} :
    t ∈ tuplesOf rs ↔ ∃ r ∈ rs, t ∈ r.2 := by
  simp [tuplesOf, List.mem_flatMap]

/-! ## Minimum expiry -/

/-- `m` is the least expiry occurring in `ts` (in particular `ts` is not empty) -/
def IsMinExpiry (m : Nat) (ts : Tuples) : Prop := (∃ t ∈ ts, t.2 = m) ∧ ∀ t ∈ ts, m ≤ t.2

theorem IsMinExpiry.congr {m : Nat} {ts ts' : Tuples} (h : IsMinExpiry m ts)
    (hm : ∀ t, t ∈ ts' ↔ t ∈ ts) : IsMinExpiry m ts' := by
  obtain ⟨⟨t, ht, he⟩, hle⟩ := h
  exact ⟨⟨t, (hm t).mpr ht, he⟩, fun t' ht' => hle t' ((hm t').mp ht')⟩

theorem IsMinExpiry.unique {m m' : Nat} {ts : Tuples} (h : IsMinExpiry m ts) (h' : IsMinExpiry m' ts) :
    m = m' := by
  obtain ⟨⟨t, ht, he⟩, hle⟩ := h
  obtain ⟨⟨t', ht', he'⟩, hle'⟩ := h'
  have := hle t' ht'; have := hle' t ht; omega

/-- adding one tuple -/
theorem IsMinExpiry.insert {m : Nat} {ts ts' : Tuples} {x : CRec × Nat} (h : IsMinExpiry m ts)
    (hm : ∀ t, t ∈ ts' ↔ t = x ∨ t ∈ ts) : IsMinExpiry (if x.2 < m then x.2 else m) ts' := by
  obtain ⟨⟨t, ht, he⟩, hle⟩ := h
  split
  · refine ⟨⟨x, (hm x).mpr (Or.inl rfl), rfl⟩, ?_⟩
    intro t' ht'
    rcases (hm t').mp ht' with rfl | h'
    · exact Nat.le_refl _
    · have := hle t' h'; omega
  · refine ⟨⟨t, (hm t).mpr (Or.inr ht), he⟩, ?_⟩
    intro t' ht'
    rcases (hm t').mp ht' with rfl | h'
    · omega
    · exact hle t' h'

/-- removing one tuple that does not carry the minimum -/
theorem IsMinExpiry.remove {m : Nat} {ts ts0 : Tuples} {x : CRec × Nat} (h : IsMinExpiry m ts)
    (hm : ∀ t, t ∈ ts ↔ t = x ∨ t ∈ ts0) (hx : x.2 ≠ m) : IsMinExpiry m ts0 := by
  obtain ⟨⟨t, ht, he⟩, hle⟩ := h
  refine ⟨⟨t, ?_, he⟩, fun t' ht' => hle t' ((hm t').mpr (Or.inr ht'))⟩
  rcases (hm t).mp ht with rfl | h'
  · exact absurd he hx
  · exact h'

theorem foldMin_le_init (ts : Tuples) (init : Nat) :
    ts.foldl (fun m t => if t.2 < m then t.2 else m) init ≤ init := by
  induction ts generalizing init with
  | nil => simp
  | cons t ts ih =>
    simp only [List.foldl_cons]
    split
    · have := ih t.2; omega
    · exact ih init

theorem foldMin_le_mem (ts : Tuples) (init : Nat) :
    ∀ t ∈ ts, ts.foldl (fun m t => if t.2 < m then t.2 else m) init ≤ t.2 := by
  induction ts generalizing init with
  | nil => simp
  | cons t ts ih =>
    intro t' ht'
    simp only [List.foldl_cons]
    rcases List.mem_cons.mp ht' with rfl | h
    · split
      · exact foldMin_le_init _ _
      · have := foldMin_le_init ts init; omega
    · exact ih _ t' h

theorem foldMin_mem (ts : Tuples) (init : Nat) :
    ts.foldl (fun m t => if t.2 < m then t.2 else m) init = init ∨
      ∃ t ∈ ts, t.2 = ts.foldl (fun m t => if t.2 < m then t.2 else m) init := by
  induction ts generalizing init with
  | nil => simp
  | cons t ts ih =>
    simp only [List.foldl_cons]
    split
    · rcases ih t.2 with h | ⟨t', ht', he⟩
      · exact Or.inr ⟨t, by simp, h.symm⟩
      · exact Or.inr ⟨t', List.mem_cons_of_mem _ ht', he⟩
    · rcases ih init with h | ⟨t', ht', he⟩
      · exact Or.inl h
      · exact Or.inr ⟨t', List.mem_cons_of_mem _ ht', he⟩

theorem minExpiry_le_init (rs : List (Nat × Tuples)) (init : Nat) : minExpiry rs init ≤ init :=
  foldMin_le_init _ _

/-- `minExpiry` started from an expiry that occurs in the partition is the partition's minimum. -/
theorem minExpiry_isMin {rs : List (Nat × Tuples)} {init : Nat} (h : ∃ t ∈ tuplesOf rs, t.2 = init) :
    IsMinExpiry (minExpiry rs init) (tuplesOf rs) := by
  refine ⟨?_, foldMin_le_mem _ _⟩
  rcases foldMin_mem (tuplesOf rs) init with he | hm
  · obtain ⟨t, ht, hi⟩ := h
    exact ⟨t, ht, by unfold minExpiry; rw [show (List.flatMap (fun x => x.snd) rs) = tuplesOf rs from rfl, he, hi]⟩
  · exact hm

/-! ## `findDup` and `swapRemove` -/

theorem findDup_go_none {ts : Tuples} {v : CRec} {n : Nat} :
    findDup.go v ts n = none ↔ v ∉ ts.map (·.1) := by
  induction ts generalizing n with
  | nil => simp [findDup.go]
  | cons t ts ih =>
    obtain ⟨v', e⟩ := t
    simp only [findDup.go]
    by_cases h : v' = v
    · simp [h]
    · have h2 : ¬ v = v' := fun e => h e.symm
      simp [h, h2, ih]

theorem findDup_none {ts : Tuples} {v : CRec} : findDup ts v = none ↔ v ∉ ts.map (·.1) :=
  findDup_go_none

theorem findDup_go_some {ts : Tuples} {v : CRec} {n i d : Nat} (h : findDup.go v ts n = some (i, d)) :
    n ≤ i ∧ ts[i - n]? = some (v, d) := by
  induction ts generalizing n with
  | nil => simp [findDup.go] at h
  | cons t ts ih =>
    obtain ⟨v', e⟩ := t
    simp only [findDup.go] at h
    by_cases hv : v' = v
    · simp [hv] at h
      obtain ⟨rfl, rfl⟩ := h
      simp [hv]
    · simp [hv] at h
      obtain ⟨h1, h2⟩ := ih h
      refine ⟨by omega, ?_⟩
      have : i - n = (i - (n + 1)) + 1 := by omega
      rw [this, List.getElem?_cons_succ]; exact h2

theorem findDup_some {ts : Tuples} {v : CRec} {i d : Nat} (h : findDup ts v = some (i, d)) :
    ts[i]? = some (v, d) := by
  have := (findDup_go_some (n := 0) h).2
  simpa using this

theorem perm_set_aux {α : Type} (d : List α) (i : Nat) (x y : α) (h : d[i]? = some x) :
    (y :: d).Perm (x :: d.set i y) := by
  induction d generalizing i with
  | nil => simp at h
  | cons a d ih =>
    cases i with
    | zero =>
      simp at h; subst h
      simp only [List.set_cons_zero]
      exact List.Perm.swap _ _ _
    | succ i =>
      simp only [List.getElem?_cons_succ] at h
      simp only [List.set_cons_succ]
      have := ih i h
      -- y :: a :: d ~ a :: y :: d ~ a :: x :: d.set i y ~ x :: a :: d.set i y
      exact ((List.Perm.swap a y d).trans (this.cons a)).trans (List.Perm.swap x a _)

theorem swapRemove_concat (d : Tuples) (last : CRec × Nat) (i : Nat) :
    swapRemove (d ++ [last]) i = if i = d.length then d else ((d ++ [last]).set i last).dropLast := by
  unfold swapRemove
  simp only [List.getLast?_concat, List.length_append, List.length_cons, List.length_nil,
    List.dropLast_concat]
  by_cases h : i = d.length
  · simp [h]
  · simp [h]

/-- `swap_remove(i)` removes exactly the element at index `i` (up to order). -/
theorem swapRemove_perm {ts : Tuples} {i : Nat} {x : CRec × Nat} (h : ts[i]? = some x) :
    ts.Perm (x :: swapRemove ts i) := by
  have hne : ts ≠ [] := by intro e; subst e; simp at h
  have hlt : i < ts.length := by
    rcases Nat.lt_or_ge i ts.length with h' | h'
    · exact h'
    · rw [List.getElem?_eq_none h'] at h; cases h
  have hts : ts = ts.dropLast ++ [ts.getLast hne] := (List.dropLast_concat_getLast hne).symm
  generalize ts.getLast hne = last at hts
  generalize ts.dropLast = d at hts
  subst hts
  rw [swapRemove_concat]
  simp only [List.length_append, List.length_cons, List.length_nil] at hlt
  split
  · rename_i hi
    subst hi
    simp at h; subst h
    exact List.perm_append_singleton _ _
  · rename_i hi
    have hi' : i < d.length := by omega
    rw [List.getElem?_append_left hi'] at h
    rw [List.set_append_left _ _ hi', List.dropLast_concat]
    exact (List.perm_append_singleton _ _).trans (perm_set_aux d i x last h)

end Resolved
