/-
  The recursive and forwarding resolvers return a finished local result as it is, without any
  upstream exchange (C01).
-/
import Resolved.Proofs.ResolverLocalLemmas

namespace Resolved

open Gen

theorem resolveRec_of_local_done (cfg : RecCfg) (fuel : Nat) (st : St) (q : Question) (res : ResolvedRecord)
    (ht : st.run.timedOut = false) (hl : st.ctx.stack.length ≠ RECURSION_LIMIT) (hd : q ∉ st.ctx.stack)
    (h : (resolveLocal (RECURSION_LIMIT + 1) st.ctx q).2 = .ok (.done res)) :
    resolveRec cfg (fuel + 1) st q =
      ({ st with ctx := (resolveLocal (RECURSION_LIMIT + 1) st.ctx q).1 }, .ok res) := by
  rw [resolveRec]
  simp only [ht, Ctx.not_atLimit hl, Ctx.not_duplicate hd, Bool.false_eq_true, if_false]
  generalize resolveLocal (RECURSION_LIMIT + 1) st.ctx q = out at h
  obtain ⟨c, r⟩ := out
  simp only at h
  subst h
  rfl

theorem resolveFwd_of_local_done (cfg : FwdCfg) (fuel : Nat) (st : St) (q : Question) (res : ResolvedRecord)
    (ht : st.run.timedOut = false) (hl : st.ctx.stack.length ≠ RECURSION_LIMIT) (hd : q ∉ st.ctx.stack)
    (h : (resolveLocal (RECURSION_LIMIT + 1) st.ctx q).2 = .ok (.done res)) :
    resolveFwd cfg (fuel + 1) st q =
      ({ st with ctx := (resolveLocal (RECURSION_LIMIT + 1) st.ctx q).1 }, .ok res) := by
  rw [resolveFwd]
  simp only [ht, Ctx.not_atLimit hl, Ctx.not_duplicate hd, Bool.false_eq_true, if_false]
  generalize resolveLocal (RECURSION_LIMIT + 1) st.ctx q = out at h
  obtain ⟨c, r⟩ := out
  simp only at h
  subst h
  rfl

theorem REC_FUEL_succ : REC_FUEL = 999999 + 1 := rfl

/-- `resolve_recursive`: a finished local result is the reply; the exchange log stays empty. -/
theorem resolveRecursive_of_local_done (cfg : RecCfg) (ctx : Ctx) (q : Question) (res : ResolvedRecord)
    (hl : ctx.stack.length ≠ RECURSION_LIMIT) (hd : q ∉ ctx.stack)
    (h : (resolveLocal (RECURSION_LIMIT + 1) ctx q).2 = .ok (.done res)) :
    resolveRecursive cfg ctx q =
      ({ ctx := (resolveLocal (RECURSION_LIMIT + 1) ctx q).1, run := Run.empty }, .ok res) := by
  unfold resolveRecursive
  rw [REC_FUEL_succ, resolveRec_of_local_done cfg 999999 { ctx := ctx, run := Run.empty } q res rfl hl hd h]
  rfl

/-- `resolve_forwarding`: likewise. -/
theorem resolveForwarding_of_local_done (cfg : FwdCfg) (ctx : Ctx) (q : Question) (res : ResolvedRecord)
    (hl : ctx.stack.length ≠ RECURSION_LIMIT) (hd : q ∉ ctx.stack)
    (h : (resolveLocal (RECURSION_LIMIT + 1) ctx q).2 = .ok (.done res)) :
    resolveForwarding cfg ctx q =
      ({ ctx := (resolveLocal (RECURSION_LIMIT + 1) ctx q).1, run := Run.empty }, .ok res) := by
  unfold resolveForwarding
  rw [REC_FUEL_succ, resolveFwd_of_local_done cfg 999999 { ctx := ctx, run := Run.empty } q res rfl hl hd h]
  rfl

/-! ## every authoritative reply is the finished local result -/

/-- the reply is of the `NonAuthoritative` kind. -/
def ResolvedRecord.isNonAuth : ResolvedRecord → Prop
  | .nonAuthoritative _ _ => True
  | _ => False

theorem resolveCombined_ok_nonauth (cfg : RecCfg) (fuel : Nat) (st : St) (rrs : List RR) (q : Question)
    (r : ResolvedRecord) (h : (resolveCombined cfg fuel st rrs q).2 = .ok r) : r.isNonAuth := by
  cases fuel with
  | zero => rw [resolveCombined] at h; cases h
  | succ n =>
    rw [resolveCombined] at h
    split at h
    · cases h; trivial
    · cases h
    · cases h
    · cases h

theorem candidateLoop_ok_nonauth (cfg : RecCfg) : ∀ (fuel : Nat) (st : St) (q : Question) (combined : List RR)
    (mc : Nat) (cands next : List Name) (locally : Bool) (r : ResolvedRecord),
    (candidateLoop cfg fuel st q combined mc cands next locally).2 = .ok r → r.isNonAuth := by
  intro fuel
  induction fuel with
  | zero => intro st q combined mc cands next locally r h; rw [candidateLoop] at h; cases h
  | succ n ih =>
    intro st q combined mc cands next locally r h
    rw [candidateLoop] at h
    split at h
    · cases h
    · split at h
      · cases h
      · simp only at h
        split at h
        · cases h
        · split at h
          · split at h
            · cases h
            · split at h
              · split at h
                · cases h; trivial
                · split at h
                  · cases h; trivial
                  · exact ih _ _ _ _ _ _ _ _ h
                · exact resolveCombined_ok_nonauth _ _ _ _ _ _ h
              · cases h
          · split at h
            · split at h
              · exact ih _ _ _ _ _ _ _ _ h
              · exact ih _ _ _ _ _ _ _ _ h
            · exact ih _ _ _ _ _ _ _ _ h

/-- recursive mode: an `ok` reply is the finished local result or is non-authoritative. -/
theorem resolveRec_ok (cfg : RecCfg) (fuel : Nat) (st : St) (q : Question) (r : ResolvedRecord)
    (h : (resolveRec cfg fuel st q).2 = .ok r) :
    (resolveLocal (RECURSION_LIMIT + 1) st.ctx q).2 = .ok (.done r) ∨ r.isNonAuth := by
  cases fuel with
  | zero => rw [resolveRec] at h; cases h
  | succ n =>
    rw [resolveRec] at h
    split at h
    · cases h
    · split at h
      · cases h
      · split at h
        · cases h
        · simp only at h
          split at h
          · rename_i res hloc
            cases h; exact Or.inl hloc
          · exact Or.inr (resolveCombined_ok_nonauth _ _ _ _ _ _ h)
          · split at h
            · cases h
            · exact Or.inr (candidateLoop_ok_nonauth _ _ _ _ _ _ _ _ _ _ h)

/-- forwarding mode: likewise. -/
theorem resolveFwd_ok (cfg : FwdCfg) (fuel : Nat) (st : St) (q : Question) (r : ResolvedRecord)
    (h : (resolveFwd cfg fuel st q).2 = .ok r) :
    (resolveLocal (RECURSION_LIMIT + 1) st.ctx q).2 = .ok (.done r) ∨ r.isNonAuth := by
  cases fuel with
  | zero => rw [resolveFwd] at h; cases h
  | succ n =>
    rw [resolveFwd] at h
    split at h
    · cases h
    · split at h
      · cases h
      · split at h
        · cases h
        · simp only at h
          split at h
          · rename_i res hloc
            cases h; exact Or.inl hloc
          · split at h
            · cases h; exact Or.inr trivial
            · cases h
            · cases h
            · cases h
          · split at h
            · cases h
            · split at h
              · cases h; exact Or.inr trivial
              · cases h

theorem resolveRecursive_ok (cfg : RecCfg) (ctx : Ctx) (q : Question) (r : ResolvedRecord)
    (h : (resolveRecursive cfg ctx q).2 = .ok r) :
    (resolveLocal (RECURSION_LIMIT + 1) ctx q).2 = .ok (.done r) ∨ r.isNonAuth := by
  unfold resolveRecursive at h
  simp only at h
  split at h
  · cases h
  · exact resolveRec_ok cfg REC_FUEL { ctx := ctx, run := Run.empty } q r h

theorem resolveForwarding_ok (cfg : FwdCfg) (ctx : Ctx) (q : Question) (r : ResolvedRecord)
    (h : (resolveForwarding cfg ctx q).2 = .ok r) :
    (resolveLocal (RECURSION_LIMIT + 1) ctx q).2 = .ok (.done r) ∨ r.isNonAuth := by
  unfold resolveForwarding at h
  simp only at h
  split at h
  · cases h
  · exact resolveFwd_ok cfg REC_FUEL { ctx := ctx, run := Run.empty } q r h

end Resolved
