/-
  Print/parse round-trip lemmas for the `Ip` model (std `IpAddr::from_str` / `Display`).
-/
import Resolved.Model.Hosts

namespace Resolved

namespace Ip

/-! ## digits -/

/-- the head of the list (if any) is not a digit in this radix: `readDigits` stops here -/
def NoDigitHead (radix : Nat) : List UInt8 → Prop
  | [] => True
  | b :: _ => toDigit radix b = none

theorem decDigit_toNat {d : Nat} (h : d < 10) : (decDigit d).toNat = 48 + d := by
  simp [decDigit, UInt8.toNat_ofNat]; omega

theorem toDigit10_decDigit {d : Nat} (h : d < 10) : toDigit 10 (decDigit d) = some d := by
  simp [toDigit, decDigit_toNat h]; omega

theorem hexDigit_toNat {d : Nat} (h : d < 16) :
    (hexDigit d).toNat = if d < 10 then 48 + d else 87 + d := by
  unfold hexDigit; split <;> simp [UInt8.toNat_ofNat] <;> omega

theorem toDigit16_hexDigit {d : Nat} (h : d < 16) : toDigit 16 (hexDigit d) = some d := by
  unfold toDigit
  simp only [hexDigit_toNat h]
  by_cases h10 : d < 10
  · simp [h10]
    rw [if_neg (by omega), if_pos h]
  · simp [h10]
    have : 57 < 87 + d := by omega
    simp [this]
    rw [if_neg (by omega), if_pos (by omega), if_pos h]

theorem readDigits_digit {radix m : Nat} {b : UInt8} {d : Nat} (hd : toDigit radix b = some d)
    (rest : List UInt8) (r c : Nat) (hc : c < m) :
    readDigits radix m (b :: rest) r c = readDigits radix m rest (r * radix + d) (c + 1) := by
  simp [readDigits, hd]; omega

theorem readDigits_stop {radix : Nat} {rest : List UInt8} (h : NoDigitHead radix rest) (m r c : Nat) :
    readDigits radix m rest r c = some (r, c, rest) := by
  cases rest with
  | nil => simp [readDigits]
  | cons b t => simp [NoDigitHead] at h; simp [readDigits, h]

theorem readSeparator_zero {α : Type} (sep : UInt8) (f : List UInt8 → Option (α × List UInt8))
    (s : List UInt8) : readSeparator sep 0 f s = f s := by
  simp [readSeparator]

theorem readSeparator_succ_cons {α : Type} (sep : UInt8) (i : Nat)
    (f : List UInt8 → Option (α × List UInt8)) (s : List UInt8) :
    readSeparator sep (i + 1) f (sep :: s) = f s := by
  simp [readSeparator, readGivenChar]

/-! ## IPv4 -/

theorem decDigit_ne_48 {d : Nat} (h : d < 10) (h0 : 0 < d) : (decDigit d == 48) = false := by
  have := decDigit_toNat h
  apply beq_false_of_ne
  intro e
  rw [e] at this
  simp at this
  omega

theorem readNumber_showOctet {n : Nat} (hn : n < 256) {rest : List UInt8} (hr : NoDigitHead 10 rest) :
    readNumber 10 3 false 255 (showOctet n ++ rest) = some (n, rest) := by
  unfold showOctet
  split
  · rename_i h
    have d0 := toDigit10_decDigit h
    simp only [readNumber, List.cons_append, List.nil_append,
      readDigits_digit d0 _ _ _ (by omega : 0 < 3), readDigits_stop hr]
    simp; omega
  · split
    · rename_i h1 h2
      have d0 := toDigit10_decDigit (by omega : n / 10 < 10)
      have d1 := toDigit10_decDigit (by omega : n % 10 < 10)
      have hz := decDigit_ne_48 (by omega : n / 10 < 10) (by omega)
      simp only [readNumber, List.cons_append, List.nil_append,
        readDigits_digit d0 _ _ _ (by omega : 0 < 3), readDigits_digit d1 _ _ _ (by omega : 0 + 1 < 3),
        readDigits_stop hr]
      simp [hz]; omega
    · rename_i h1 h2
      have d0 := toDigit10_decDigit (by omega : n / 100 < 10)
      have d1 := toDigit10_decDigit (by omega : n / 10 % 10 < 10)
      have d2 := toDigit10_decDigit (by omega : n % 10 < 10)
      have hz := decDigit_ne_48 (by omega : n / 100 < 10) (by omega)
      simp only [readNumber, List.cons_append, List.nil_append,
        readDigits_digit d0 _ _ _ (by omega : 0 < 3), readDigits_digit d1 _ _ _ (by omega : 0 + 1 < 3),
        readDigits_digit d2 _ _ _ (by omega : 0 + 1 + 1 < 3), readDigits_stop hr]
      simp [hz]; omega

theorem noDigitHead10_dot (t : List UInt8) : NoDigitHead 10 (46 :: t) := by
  simp [NoDigitHead, toDigit]

theorem readIpv4Addr_showIpv4 {a : Nat} (h : a < 4294967296) {rest : List UInt8}
    (hr : NoDigitHead 10 rest) : readIpv4Addr (showIpv4 a ++ rest) = some (a, rest) := by
  have e : showIpv4 a ++ rest =
      showOctet (a / 16777216 % 256) ++ (46 :: (showOctet (a / 65536 % 256) ++ (46 ::
        (showOctet (a / 256 % 256) ++ (46 :: (showOctet (a % 256) ++ rest)))))) := by
    simp [showIpv4]
  rw [e]
  have h1 := readNumber_showOctet (Nat.mod_lt (a / 16777216) (by omega : 0 < 256))
    (noDigitHead10_dot (showOctet (a / 65536 % 256) ++ (46 ::
        (showOctet (a / 256 % 256) ++ (46 :: (showOctet (a % 256) ++ rest))))))
  have h2 := readNumber_showOctet (Nat.mod_lt (a / 65536) (by omega : 0 < 256))
    (noDigitHead10_dot (showOctet (a / 256 % 256) ++ (46 :: (showOctet (a % 256) ++ rest))))
  have h3 := readNumber_showOctet (Nat.mod_lt (a / 256) (by omega : 0 < 256))
    (noDigitHead10_dot (showOctet (a % 256) ++ rest))
  have h4 := readNumber_showOctet (Nat.mod_lt a (by omega : 0 < 256)) hr
  simp [readIpv4Addr, readIpv4Loop, readSeparator_zero, readSeparator_succ_cons, h1, h2, h3, h4,
    octetsToU32]
  omega

/-! ## the bytes `Display` produces -/

/-- the characters Display produces: digits, a–f, ':' and '.' only (so: ASCII, no white space,
    no '#', no '%') -/
def isAddrByte (b : UInt8) : Bool :=
  (48 ≤ b.toNat && b.toNat ≤ 57) || (97 ≤ b.toNat && b.toNat ≤ 102) || b.toNat == 58 || b.toNat == 46

/-- hex digit or ':' (what `fmtSubslice` produces) -/
def isHexColon (b : UInt8) : Bool :=
  (48 ≤ b.toNat && b.toNat ≤ 57) || (97 ≤ b.toNat && b.toNat ≤ 102) || b.toNat == 58

theorem isAddrByte_of_isHexColon {b : UInt8} (h : isHexColon b = true) : isAddrByte b = true := by
  simp [isHexColon] at h; simp [isAddrByte]; omega

theorem isAddrByte_decDigit {d : Nat} (h : d < 10) : isAddrByte (decDigit d) = true := by
  simp [isAddrByte, decDigit_toNat h]; omega

theorem isHexColon_hexDigit {d : Nat} (h : d < 16) : isHexColon (hexDigit d) = true := by
  simp only [isHexColon, hexDigit_toNat h]
  split <;> simp <;> omega

theorem showOctet_bytes {n : Nat} (hn : n < 256) : ∀ b ∈ showOctet n, isAddrByte b = true := by
  intro b hb
  unfold showOctet at hb
  split at hb
  · simp at hb; subst hb; exact isAddrByte_decDigit (by omega)
  · split at hb
    · simp at hb
      rcases hb with rfl | rfl <;> exact isAddrByte_decDigit (by omega)
    · simp at hb
      rcases hb with rfl | rfl | rfl <;> exact isAddrByte_decDigit (by omega)

theorem showOctet_ne_nil (n : Nat) : showOctet n ≠ [] := by
  unfold showOctet; repeat' split
  all_goals simp

theorem showHex16_bytes {n : Nat} (hn : n < 65536) : ∀ b ∈ showHex16 n, isHexColon b = true := by
  intro b hb
  unfold showHex16 at hb
  split at hb
  · simp at hb; subst hb; exact isHexColon_hexDigit (by omega)
  · split at hb
    · simp at hb
      rcases hb with rfl | rfl <;> exact isHexColon_hexDigit (by omega)
    · split at hb
      · simp at hb
        rcases hb with rfl | rfl | rfl <;> exact isHexColon_hexDigit (by omega)
      · simp at hb
        rcases hb with rfl | rfl | rfl | rfl <;> exact isHexColon_hexDigit (by omega)

theorem showHex16_ne_nil (n : Nat) : showHex16 n ≠ [] := by
  unfold showHex16; repeat' split
  all_goals simp

theorem fmtSubslice_bytes : ∀ (xs : List Nat), (∀ g ∈ xs, g < 65536) →
    ∀ b ∈ fmtSubslice xs, isHexColon b = true
  | [], _, b, hb => by simp [fmtSubslice] at hb
  | [g], h, b, hb => by
    simp [fmtSubslice] at hb
    exact showHex16_bytes (h g (by simp)) b hb
  | g :: g' :: gs, h, b, hb => by
    simp only [fmtSubslice, List.mem_append, List.mem_singleton] at hb
    rcases hb with (hb | rfl) | hb
    · exact showHex16_bytes (h g (by simp)) b hb
    · decide
    · exact fmtSubslice_bytes (g' :: gs) (fun x hx => h x (by simp [hx])) b hb

theorem fmtSubslice_ne_nil : ∀ (xs : List Nat), xs ≠ [] → fmtSubslice xs ≠ []
  | [], h => absurd rfl h
  | [g], _ => by simpa [fmtSubslice] using showHex16_ne_nil g
  | g :: g' :: gs, _ => by simp [fmtSubslice]

end Ip

theorem showIpv4_bytes (a : Nat) :
    (∀ b ∈ Ip.showIpv4 a, Ip.isAddrByte b = true) ∧ Ip.showIpv4 a ≠ [] := by
  constructor
  · intro b hb
    simp only [Ip.showIpv4, List.mem_append, List.mem_singleton] at hb
    have m : ∀ x, x % 256 < 256 := fun x => Nat.mod_lt _ (by omega)
    rcases hb with (((((hb | rfl) | hb) | rfl) | hb) | rfl) | hb
    · exact Ip.showOctet_bytes (m _) b hb
    · decide
    · exact Ip.showOctet_bytes (m _) b hb
    · decide
    · exact Ip.showOctet_bytes (m _) b hb
    · decide
    · exact Ip.showOctet_bytes (m _) b hb
  · simp [Ip.showIpv4]

theorem Ip.toIpv4Mapped_some {gs : List Nat} {v : Nat} (h : Ip.toIpv4Mapped gs = some v) :
    ∃ a b, gs = [0, 0, 0, 0, 0, 65535, a, b] ∧ v = a * 65536 + b := by
  unfold Ip.toIpv4Mapped at h
  split at h
  · rename_i a b
    exact ⟨a, b, rfl, by simpa using h.symm⟩
  · cases h

/-- `Display for Ipv6Addr` produces only digits, a–f, ':' and '.', and at least one byte.
    (The bound on the groups is needed: `showHex16` of a number ≥ 65536 can produce any byte;
    `gs ≠ []` is needed since `showIpv6 [] = []`.) -/
theorem showIpv6_bytes (gs : List Nat) (hg : ∀ g ∈ gs, g < 65536) (hne : gs ≠ []) :
    (∀ b ∈ Ip.showIpv6 gs, Ip.isAddrByte b = true) ∧ Ip.showIpv6 gs ≠ [] := by
  unfold Ip.showIpv6
  split
  · constructor
    · intro b hb
      simp only [List.mem_append] at hb
      rcases hb with hb | hb
      · revert b; decide
      · exact (showIpv4_bytes _).1 b hb
    · simp
  · simp only
    split
    · constructor
      · intro b hb
        simp only [List.mem_append] at hb
        rcases hb with (hb | hb) | hb
        · exact Ip.isAddrByte_of_isHexColon
            (Ip.fmtSubslice_bytes _ (fun g h => hg g (List.mem_of_mem_take h)) b hb)
        · revert b; decide
        · exact Ip.isAddrByte_of_isHexColon
            (Ip.fmtSubslice_bytes _ (fun g h => hg g (List.mem_of_mem_drop h)) b hb)
      · simp
    · exact ⟨fun b hb => Ip.isAddrByte_of_isHexColon (Ip.fmtSubslice_bytes _ hg b hb),
        Ip.fmtSubslice_ne_nil _ hne⟩

/-- printing then parsing an IPv4 address gives it back -/
theorem ipv4_print_parse (a : Nat) (h : a < 4294967296) :
    Ip.parseIpAddr (Ip.showIpv4 a) = some (.v4 a) := by
  have := Ip.readIpv4Addr_showIpv4 h (rest := []) trivial
  simp only [List.append_nil] at this
  simp [Ip.parseIpAddr, Ip.readIpAddr, this]

namespace Ip

/-! ## IPv6: text without '.' never parses as IPv4 -/

theorem readDigits_mem {radix m : Nat} : ∀ (s : List UInt8) (r c r' c' : Nat) (rest : List UInt8),
    readDigits radix m s r c = some (r', c', rest) → ∀ b ∈ rest, b ∈ s
  | [], r, c, r', c', rest, h, b, hb => by
    simp [readDigits] at h; rw [h.2.2] at hb; exact hb
  | x :: t, r, c, r', c', rest, h, b, hb => by
    unfold readDigits at h
    split at h
    · split at h
      · cases h
      · exact List.mem_cons_of_mem _ (readDigits_mem t _ _ _ _ _ h b hb)
    · simp at h; rw [← h.2.2] at hb; exact hb

theorem readNumber_mem {radix m : Nat} {z : Bool} {mx : Nat} {s : List UInt8} {g : Nat}
    {rest : List UInt8} (h : readNumber radix m z mx s = some (g, rest)) : ∀ b ∈ rest, b ∈ s := by
  unfold readNumber at h
  simp only at h
  split at h
  · cases h
  · rename_i r c rest' hd
    split at h
    · cases h
    · split at h
      · cases h
      · split at h
        · simp at h
          rw [← h.2]
          exact readDigits_mem _ _ _ _ _ _ hd
        · cases h

theorem readGivenChar_none {t : UInt8} {s : List UInt8} (h : t ∉ s) : readGivenChar t s = none := by
  cases s with
  | nil => rfl
  | cons b r =>
    simp at h
    simp [readGivenChar]
    exact fun e => h.1 e.symm

theorem readIpv4Addr_none_of_no_dot {s : List UInt8} (h : (46 : UInt8) ∉ s) : readIpv4Addr s = none := by
  unfold readIpv4Addr
  rw [readIpv4Loop, readSeparator_zero]
  cases hn : readNumber 10 3 false 255 s with
  | none => simp
  | some p =>
    obtain ⟨g, s'⟩ := p
    have h' : (46 : UInt8) ∉ s' := fun hm => h (readNumber_mem hn _ hm)
    simp [readIpv4Loop, readSeparator, readGivenChar_none h']

theorem readSeparator_v4_none {s : List UInt8} (h : (46 : UInt8) ∉ s) (i : Nat) :
    readSeparator 58 i readIpv4Addr s = none := by
  unfold readSeparator
  split
  · cases s with
    | nil => rfl
    | cons b t =>
      simp at h
      by_cases e : b = 58
      · simp [readGivenChar, e, readIpv4Addr_none_of_no_dot h.2]
      · simp [readGivenChar, e]
  · exact readIpv4Addr_none_of_no_dot h

/-! ## IPv6: reading back `fmtSubslice` -/

theorem readNumber_showHex16 {n : Nat} (hn : n < 65536) {rest : List UInt8}
    (hr : NoDigitHead 16 rest) :
    readNumber 16 4 true 65535 (showHex16 n ++ rest) = some (n, rest) := by
  unfold showHex16
  split
  · rename_i h
    have d0 := toDigit16_hexDigit h
    simp only [readNumber, List.cons_append, List.nil_append,
      readDigits_digit d0 _ _ _ (by omega : 0 < 4), readDigits_stop hr]
    simp; omega
  · split
    · have d0 := toDigit16_hexDigit (by omega : n / 16 < 16)
      have d1 := toDigit16_hexDigit (by omega : n % 16 < 16)
      simp only [readNumber, List.cons_append, List.nil_append,
        readDigits_digit d0 _ _ _ (by omega : 0 < 4), readDigits_digit d1 _ _ _ (by omega : 0 + 1 < 4),
        readDigits_stop hr]
      simp; omega
    · split
      · have d0 := toDigit16_hexDigit (by omega : n / 256 < 16)
        have d1 := toDigit16_hexDigit (by omega : n / 16 % 16 < 16)
        have d2 := toDigit16_hexDigit (by omega : n % 16 < 16)
        simp only [readNumber, List.cons_append, List.nil_append,
          readDigits_digit d0 _ _ _ (by omega : 0 < 4), readDigits_digit d1 _ _ _ (by omega : 0 + 1 < 4),
          readDigits_digit d2 _ _ _ (by omega : 0 + 1 + 1 < 4), readDigits_stop hr]
        simp; omega
      · have d0 := toDigit16_hexDigit (by omega : n / 4096 < 16)
        have d1 := toDigit16_hexDigit (by omega : n / 256 % 16 < 16)
        have d2 := toDigit16_hexDigit (by omega : n / 16 % 16 < 16)
        have d3 := toDigit16_hexDigit (by omega : n % 16 < 16)
        simp only [readNumber, List.cons_append, List.nil_append,
          readDigits_digit d0 _ _ _ (by omega : 0 < 4), readDigits_digit d1 _ _ _ (by omega : 0 + 1 < 4),
          readDigits_digit d2 _ _ _ (by omega : 0 + 1 + 1 < 4),
          readDigits_digit d3 _ _ _ (by omega : 0 + 1 + 1 + 1 < 4), readDigits_stop hr]
        simp; omega

/-- `fmtSubslice` after the first group: every group preceded by ':' -/
def colonGroups : List Nat → List UInt8
  | [] => []
  | g :: gs => 58 :: (showHex16 g ++ colonGroups gs)

theorem fmtSubslice_cons (g : Nat) : ∀ gs : List Nat,
    fmtSubslice (g :: gs) = showHex16 g ++ colonGroups gs
  | [] => by simp [fmtSubslice, colonGroups]
  | g' :: gs => by
    have e : fmtSubslice (g :: g' :: gs) = showHex16 g ++ [58] ++ fmtSubslice (g' :: gs) := rfl
    rw [e, fmtSubslice_cons g' gs]
    simp [colonGroups]

/-- where reading groups stops: end of input, or the "::" -/
def Stop (rest : List UInt8) : Prop := rest = [] ∨ ∃ t, rest = 58 :: 58 :: t

theorem readNumber16_colon (t : List UInt8) : readNumber 16 4 true 65535 (58 :: t) = none := by
  have : toDigit 16 58 = none := by decide
  simp [readNumber, readDigits, this]

theorem readNumber_nil (radix m : Nat) (z : Bool) (mx : Nat) : readNumber radix m z mx [] = none := by
  simp [readNumber, readDigits]

theorem Stop.noDigitHead {rest : List UInt8} (h : Stop rest) : NoDigitHead 16 rest := by
  rcases h with rfl | ⟨t, rfl⟩
  · trivial
  · show toDigit 16 58 = none
    decide

theorem readSeparator_num_stop {rest : List UInt8} (h : Stop rest) (i : Nat) :
    readSeparator 58 i (readNumber 16 4 true 65535) rest = none := by
  rcases h with rfl | ⟨t, rfl⟩
  · cases i <;> simp [readSeparator, readGivenChar, readNumber_nil]
  · cases i with
    | zero => rw [readSeparator_zero, readNumber16_colon]
    | succ i => rw [readSeparator_succ_cons, readNumber16_colon]

theorem readGroups_succ_none (limit n i : Nat) {s : List UInt8} (h : (46 : UInt8) ∉ s)
    (hn : readSeparator 58 i (readNumber 16 4 true 65535) s = none) :
    readGroups limit (n + 1) i s = ([], false, s) := by
  rw [readGroups]
  simp only [readSeparator_v4_none h, ite_self, hn]

theorem readGroups_succ_some (limit n i : Nat) {s : List UInt8} (h : (46 : UInt8) ∉ s)
    {g : Nat} {s' : List UInt8}
    (hn : readSeparator 58 i (readNumber 16 4 true 65535) s = some (g, s')) :
    readGroups limit (n + 1) i s =
      (g :: (readGroups limit n (i + 1) s').1, (readGroups limit n (i + 1) s').2.1,
        (readGroups limit n (i + 1) s').2.2) := by
  rw [readGroups]
  simp only [readSeparator_v4_none h, ite_self, hn]

theorem readGroups_stop (limit n i : Nat) {rest : List UInt8} (h : Stop rest)
    (hd : (46 : UInt8) ∉ rest) : readGroups limit n i rest = ([], false, rest) := by
  cases n with
  | zero => rfl
  | succ n => exact readGroups_succ_none _ _ _ hd (readSeparator_num_stop h _)

theorem not_dot_of_isHexColon {l : List UInt8} (h : ∀ b ∈ l, isHexColon b = true) :
    (46 : UInt8) ∉ l := fun hm => by
  have := h _ hm
  revert this
  decide

theorem colonGroups_bytes : ∀ (xs : List Nat), (∀ g ∈ xs, g < 65536) →
    ∀ b ∈ colonGroups xs, isHexColon b = true
  | [], _, b, hb => by simp [colonGroups] at hb
  | g :: gs, h, b, hb => by
    simp only [colonGroups, List.mem_cons, List.mem_append] at hb
    rcases hb with rfl | hb | hb
    · decide
    · exact showHex16_bytes (h g (by simp)) b hb
    · exact colonGroups_bytes gs (fun x hx => h x (by simp [hx])) b hb

theorem noDigitHead_colonGroups (xs : List Nat) {rest : List UInt8} (h : Stop rest) :
    NoDigitHead 16 (colonGroups xs ++ rest) := by
  cases xs with
  | nil => simpa [colonGroups] using h.noDigitHead
  | cons g gs =>
    show toDigit 16 58 = none
    decide

/-- reading groups at an index > 0 -/
theorem readGroups_colonGroups (limit : Nat) : ∀ (xs : List Nat) (n i : Nat) (rest : List UInt8),
    (∀ g ∈ xs, g < 65536) → xs.length ≤ n → Stop rest → (46 : UInt8) ∉ rest →
    readGroups limit n (i + 1) (colonGroups xs ++ rest) = (xs, false, rest)
  | [], n, i, rest, _, _, hs, hd => by
    simpa [colonGroups] using readGroups_stop limit n (i + 1) hs hd
  | g :: xs, 0, i, rest, _, hl, _, _ => by simp at hl
  | g :: xs, n + 1, i, rest, hg, hl, hs, hd => by
    have hg' : ∀ x ∈ xs, x < 65536 := fun x hx => hg x (by simp [hx])
    have hnd : (46 : UInt8) ∉ colonGroups (g :: xs) ++ rest := by
      intro hm
      rcases List.mem_append.1 hm with hm | hm
      · exact not_dot_of_isHexColon (colonGroups_bytes _ hg) hm
      · exact hd hm
    have hnum : readSeparator 58 (i + 1) (readNumber 16 4 true 65535) (colonGroups (g :: xs) ++ rest)
        = some (g, colonGroups xs ++ rest) := by
      simp only [colonGroups, List.cons_append, List.append_assoc, readSeparator_succ_cons]
      exact readNumber_showHex16 (hg g (by simp)) (noDigitHead_colonGroups xs hs)
    rw [readGroups_succ_some _ _ _ hnd hnum,
      readGroups_colonGroups limit xs n (i + 1) rest hg' (by simpa using hl) hs hd]

/-- reading groups from index 0 -/
theorem readGroups_fmtSubslice (limit : Nat) (xs : List Nat) (n : Nat) (rest : List UInt8)
    (hg : ∀ g ∈ xs, g < 65536) (hl : xs.length ≤ n) (hs : Stop rest) (hd : (46 : UInt8) ∉ rest) :
    readGroups limit n 0 (fmtSubslice xs ++ rest) = (xs, false, rest) := by
  cases xs with
  | nil => simpa [fmtSubslice] using readGroups_stop limit n 0 hs hd
  | cons g xs =>
    cases n with
    | zero => simp at hl
    | succ n =>
      have hg' : ∀ x ∈ xs, x < 65536 := fun x hx => hg x (by simp [hx])
      have hnd : (46 : UInt8) ∉ fmtSubslice (g :: xs) ++ rest := by
        intro hm
        rcases List.mem_append.1 hm with hm | hm
        · exact not_dot_of_isHexColon (fmtSubslice_bytes _ hg) hm
        · exact hd hm
      have hnum : readSeparator 58 0 (readNumber 16 4 true 65535) (fmtSubslice (g :: xs) ++ rest)
          = some (g, colonGroups xs ++ rest) := by
        rw [readSeparator_zero, fmtSubslice_cons, List.append_assoc]
        exact readNumber_showHex16 (hg g (by simp)) (noDigitHead_colonGroups xs hs)
      rw [readGroups_succ_some _ _ _ hnd hnum,
        readGroups_colonGroups limit xs n 0 rest hg' (by simpa using hl) hs hd]

/-! ## IPv6: the zero span -/

/-- the span is inside the list and covers only zero groups -/
def ZeroRun (G : List Nat) (sp : Span) : Prop :=
  ∃ a b, G = a ++ List.replicate sp.len 0 ++ b ∧ a.length = sp.start

theorem zeroSpan_inv : ∀ (gs pre : List Nat) (i : Nat) (longest current : Span) (G : List Nat),
    G = pre ++ gs → i = pre.length → ZeroRun G longest →
    (∃ a, pre = a ++ List.replicate current.len 0 ∧ (current.len = 0 ∨ a.length = current.start)) →
    ZeroRun G (zeroSpan gs i longest current)
  | [], pre, i, longest, current, G, _, _, hl, _ => by simpa [zeroSpan] using hl
  | g :: gs, pre, i, longest, current, G, hG, hi, hl, hc => by
    unfold zeroSpan
    obtain ⟨a, hpre, hst⟩ := hc
    have hG' : G = (pre ++ [g]) ++ gs := by simp [hG]
    have hi' : i + 1 = (pre ++ [g]).length := by simp [hi]
    split
    · rename_i h0
      subst h0
      have hstart : a.length = (if current.len = 0 then i else current.start) := by
        split
        · rename_i hz
          rw [hz] at hpre
          simp at hpre
          rw [hi, hpre]
        · rename_i hz
          rcases hst with hst | hst
          · exact absurd hst hz
          · exact hst
      have hpre' : pre ++ [0] = a ++ List.replicate (current.len + 1) 0 := by
        rw [hpre, List.replicate_succ', List.append_assoc]
      apply zeroSpan_inv gs (pre ++ [0]) (i + 1) _ _ G hG' hi'
      · simp only
        split
        · refine ⟨a, gs, ?_, hstart⟩
          rw [hG', hpre']
        · exact hl
      · exact ⟨a, hpre', Or.inr hstart⟩
    · apply zeroSpan_inv gs (pre ++ [g]) (i + 1) _ _ G hG' hi' hl
      exact ⟨pre ++ [g], by simp, Or.inl rfl⟩

theorem zeroSpan_zeroRun (gs : List Nat) : ZeroRun gs (zeroSpan gs 0 ⟨0, 0⟩ ⟨0, 0⟩) :=
  zeroSpan_inv gs [] 0 _ _ gs rfl rfl ⟨[], gs, by simp, rfl⟩ ⟨[], by simp, Or.inl rfl⟩

/-! ## IPv6: the three shapes of the text -/

theorem stop_nil : Stop [] := Or.inl rfl

/-- no "::" in the text -/
theorem readIpv6Addr_uncompressed {gs : List Nat} (hl : gs.length = 8) (hg : ∀ g ∈ gs, g < 65536) :
    readIpv6Addr (fmtSubslice gs) = some (gs, []) := by
  have h1 := readGroups_fmtSubslice 8 gs 8 [] hg (by omega) stop_nil (by simp)
  rw [List.append_nil] at h1
  simp [readIpv6Addr, h1, hl]

/-- the text with a "::" standing for `len` zero groups -/
theorem readIpv6Addr_compressed {a b : List Nat} {len : Nat} (hlen : 1 < len)
    (hl : a.length + len + b.length = 8) (ha : ∀ g ∈ a, g < 65536) (hb : ∀ g ∈ b, g < 65536) :
    readIpv6Addr (fmtSubslice a ++ [58, 58] ++ fmtSubslice b)
      = some (a ++ List.replicate len 0 ++ b, []) := by
  have hd : (46 : UInt8) ∉ 58 :: 58 :: fmtSubslice b := by
    intro hm
    simp only [List.mem_cons] at hm
    rcases hm with hm | hm | hm
    · revert hm; decide
    · revert hm; decide
    · exact not_dot_of_isHexColon (fmtSubslice_bytes _ hb) hm
  have h1 := readGroups_fmtSubslice 8 a 8 (58 :: 58 :: fmtSubslice b) ha (by omega)
    (Or.inr ⟨_, rfl⟩) hd
  have h2 := readGroups_fmtSubslice (7 - a.length) b (7 - a.length) [] hb (by omega)
    stop_nil (by simp)
  rw [List.append_nil] at h2
  have e : fmtSubslice a ++ [58, 58] ++ fmtSubslice b = fmtSubslice a ++ 58 :: 58 :: fmtSubslice b := by
    simp
  have hne : a.length ≠ 8 := by omega
  have hrep : 8 - a.length - b.length = len := by omega
  simp [readIpv6Addr, e, h1, hne, readGivenChar, h2, hrep]

theorem readIpv4Addr_nondigit {b : UInt8} (h : toDigit 10 b = none) (t : List UInt8) :
    readIpv4Addr (b :: t) = none := by
  have : readNumber 10 3 false 255 (b :: t) = none := by simp [readNumber, readDigits, h]
  simp [readIpv4Addr, readIpv4Loop, readSeparator_zero, this]

/-- the IPv4-mapped text `::ffff:a.b.c.d` -/
theorem readIpv6Addr_mapped {hi lo : Nat} (hhi : hi < 65536) (hlo : lo < 65536) :
    readIpv6Addr ([58, 58, 102, 102, 102, 102, 58] ++ showIpv4 (hi * 65536 + lo))
      = some ([0, 0, 0, 0, 0, 65535, hi, lo], []) := by
  have hv : hi * 65536 + lo < 4294967296 := by omega
  have h4 := readIpv4Addr_showIpv4 hv (rest := []) trivial
  rw [List.append_nil] at h4
  have c10 : toDigit 10 58 = none := by decide
  have f10 : toDigit 10 102 = none := by decide
  -- head: nothing before the "::"
  have h1 : ∀ t, readGroups 8 8 0 (58 :: t) = ([], false, 58 :: t) := by
    intro t
    rw [readGroups]
    simp [readSeparator_zero, readIpv4Addr_nondigit c10, readNumber16_colon]
  -- tail: `ffff`, then the embedded IPv4 address
  have hf : readNumber 16 4 true 65535 (102 :: 102 :: 102 :: 102 :: 58 :: showIpv4 (hi * 65536 + lo))
      = some (65535, 58 :: showIpv4 (hi * 65536 + lo)) :=
    readNumber_showHex16 (n := 65535) (by omega) (rest := 58 :: showIpv4 (hi * 65536 + lo))
      (by show toDigit 16 58 = none; decide)
  have h3 : readGroups 7 6 1 (58 :: showIpv4 (hi * 65536 + lo))
      = ([hi, lo], true, []) := by
    rw [readGroups]
    simp only [readSeparator_succ_cons, h4]
    have e1 : (hi * 65536 + lo) / 65536 = hi := by omega
    have e2 : (hi * 65536 + lo) % 65536 = lo := by omega
    simp [e1, e2]
  have h2 : readGroups 7 7 0 (102 :: 102 :: 102 :: 102 :: 58 :: showIpv4 (hi * 65536 + lo))
      = ([65535, hi, lo], true, []) := by
    rw [readGroups]
    simp [readSeparator_zero, readIpv4Addr_nondigit f10, hf, h3]
  simp [readIpv6Addr, h1, readGivenChar, h2]

theorem parseIpAddr_v6 {s : List UInt8} {gs : List Nat} (h4 : readIpv4Addr s = none)
    (h6 : readIpv6Addr s = some (gs, [])) : parseIpAddr s = some (.v6 gs) := by
  simp [parseIpAddr, readIpAddr, h4, h6]

end Ip

/-- printing then parsing an IPv6 address gives it back -/
theorem ipv6_print_parse (gs : List Nat) (hl : gs.length = 8) (hg : ∀ g ∈ gs, g < 65536) :
    Ip.parseIpAddr (Ip.showIpv6 gs) = some (.v6 gs) := by
  unfold Ip.showIpv6
  cases hm : Ip.toIpv4Mapped gs with
  | some v =>
    obtain ⟨hi, lo, rfl, rfl⟩ := Ip.toIpv4Mapped_some hm
    simp only
    have hhi : hi < 65536 := hg hi (by simp)
    have hlo : lo < 65536 := hg lo (by simp)
    exact Ip.parseIpAddr_v6 (Ip.readIpv4Addr_nondigit (by decide) _) (Ip.readIpv6Addr_mapped hhi hlo)
  | none =>
    simp only
    obtain ⟨a, b, hG, hstart⟩ := Ip.zeroSpan_zeroRun gs
    generalize Ip.zeroSpan gs 0 ⟨0, 0⟩ ⟨0, 0⟩ = z at hG hstart
    split
    · rename_i hz
      have ha : ∀ g ∈ a, g < 65536 := fun g h => hg g (by rw [hG]; simp [h])
      have hb : ∀ g ∈ b, g < 65536 := fun g h => hg g (by rw [hG]; simp [h])
      have htake : gs.take z.start = a := by
        rw [hG, ← hstart, List.append_assoc, List.take_left]
      have hdrop : gs.drop (z.start + z.len) = b := by
        have : z.start + z.len = (a ++ List.replicate z.len 0).length := by simp [hstart]
        rw [hG, this, List.drop_left]
      have hlen : a.length + z.len + b.length = 8 := by
        rw [hG] at hl; simpa [Nat.add_assoc] using hl
      rw [htake, hdrop]
      have hnd : (46 : UInt8) ∉ Ip.fmtSubslice a ++ [58, 58] ++ Ip.fmtSubslice b := by
        intro hmem
        simp only [List.mem_append] at hmem
        rcases hmem with (hmem | hmem) | hmem
        · exact Ip.not_dot_of_isHexColon (Ip.fmtSubslice_bytes _ ha) hmem
        · revert hmem; decide
        · exact Ip.not_dot_of_isHexColon (Ip.fmtSubslice_bytes _ hb) hmem
      have h6 := Ip.readIpv6Addr_compressed hz hlen ha hb
      rw [← hG] at h6
      exact Ip.parseIpAddr_v6 (Ip.readIpv4Addr_none_of_no_dot hnd) h6
    · exact Ip.parseIpAddr_v6
        (Ip.readIpv4Addr_none_of_no_dot (Ip.not_dot_of_isHexColon (Ip.fmtSubslice_bytes _ hg)))
        (Ip.readIpv6Addr_uncompressed hl hg)

/-- `showIpv6_bytes` for an address (8 groups) -/
theorem showIpv6_bytes_of_length (gs : List Nat) (hl : gs.length = 8) (hg : ∀ g ∈ gs, g < 65536) :
    (∀ b ∈ Ip.showIpv6 gs, Ip.isAddrByte b = true) ∧ Ip.showIpv6 gs ≠ [] :=
  showIpv6_bytes gs hg (by intro e; rw [e] at hl; cases hl)

/-- the values an `IpAddr` can take: a `u32`, or eight `u16` groups -/
def Ip.WF : IpAddr → Prop
  | .v4 a => a < 4294967296
  | .v6 gs => gs.length = 8 ∧ ∀ g ∈ gs, g < 65536

/-- printing then parsing an address gives it back -/
theorem ip_print_parse (x : IpAddr) (h : Ip.WF x) : Ip.parseIpAddr (Ip.showIpAddr x) = some x := by
  cases x with
  | v4 a => exact ipv4_print_parse a h
  | v6 gs => exact ipv6_print_parse gs h.1 h.2

theorem showIpAddr_bytes (x : IpAddr) (h : Ip.WF x) :
    (∀ b ∈ Ip.showIpAddr x, Ip.isAddrByte b = true) ∧ Ip.showIpAddr x ≠ [] := by
  cases x with
  | v4 a => exact showIpv4_bytes a
  | v6 gs => exact showIpv6_bytes_of_length gs h.1 h.2

end Resolved
