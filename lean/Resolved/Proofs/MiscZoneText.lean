/-
  C11 helper lemmas: a comment glued onto a token (`tok;comment`) is read like `tok ;comment`.
  State-machine facts about `tokLoop` (Model/ZoneText.lean) and their lift to `parseEntry`, the entry
  loop and `deserialise`.
-/
import Resolved.Proofs.ZoneTextSpecReject

namespace Resolved.ZoneText

open Resolved Resolved.IpText Gen ZTSpec

/-! ## positions inside an entry -/

/-- `mx_TokAt pre rtoks rstr roct st lc`: having read `pre` from the start of an entry, the tokeniser
    stands — whatever follows — with the finished tokens `rtoks`, the token under construction
    `rstr` / `roct` (all three reversed), in state `st`, inside parentheses iff `lc`, and no chars owed
    to an escape. -/
def mx_TokAt (pre : List Char) (rtoks : List Token) (rstr : List Char) (roct : List UInt8)
    (st : TState) (lc : Bool) : Prop :=
  ∀ tail, tokeniseEntry (pre ++ tail) = tokLoop 0 tail rtoks rstr roct st lc

theorem mx_TokAt_nil : mx_TokAt [] [] [] [] .initial false := fun _ => rfl

theorem mx_TokAt.append {pre p : List Char} {rt rt' : List Token} {rs rs' : List Char}
    {ro ro' : List UInt8} {st st' : TState} {lc lc' : Bool} (h : mx_TokAt pre rt rs ro st lc)
    (hp : ∀ tail, tokLoop 0 (p ++ tail) rt rs ro st lc = tokLoop 0 tail rt' rs' ro' st' lc') :
    mx_TokAt (pre ++ p) rt' rs' ro' st' lc' := by
  intro tail
  rw [List.append_assoc, h, hp]

/-! ## the two readings coincide -/

/-- in the middle of an unquoted token, `;` finishes the token and opens the comment — exactly what a
    blank followed by `;` does. -/
theorem mx_glue_unquoted (cs : List Char) (rt : List Token) (rs : List Char) (ro : List UInt8) (lc : Bool) :
    tokLoop 0 (';' :: cs) rt rs ro .unquotedString lc = tokLoop 0 (' ' :: ';' :: cs) rt rs ro .unquotedString lc := by
  have h1 : (';' : Char) ≠ '\n' := by decide
  have h2 : (' ' : Char) ≠ '\n' := by decide
  have h3 : (' ' : Char) ≠ ';' := by decide
  have h4 : (' ' : Char) ≠ '\\' := by decide
  have h5 : isWhitespace ' ' = true := by decide
  simp [tokLoop, h1, h2, h3, h4, h5]

/-- between tokens (in particular right after a closing quote) likewise. -/
theorem mx_glue_initial (cs : List Char) (rt : List Token) (rs : List Char) (ro : List UInt8) (lc : Bool) :
    tokLoop 0 (';' :: cs) rt rs ro .initial lc = tokLoop 0 (' ' :: ';' :: cs) rt rs ro .initial lc := by
  have h1 : (';' : Char) ≠ '\n' := by decide
  have h2 : (' ' : Char) ≠ '\n' := by decide
  have h3 : (' ' : Char) ≠ ';' := by decide
  have h4 : (' ' : Char) ≠ '\\' := by decide
  have h5 : isWhitespace ' ' = true := by decide
  have h6 : (' ' : Char) ≠ '(' := by decide
  have h7 : (' ' : Char) ≠ ')' := by decide
  have h8 : (' ' : Char) ≠ '"' := by decide
  simp [tokLoop, h1, h2, h3, h4, h5, h6, h7, h8]

theorem mx_glue (st : TState) (hst : st = .initial ∨ st = .unquotedString) (cs : List Char)
    (rt : List Token) (rs : List Char) (ro : List UInt8) (lc : Bool) :
    tokLoop 0 (';' :: cs) rt rs ro st lc = tokLoop 0 (' ' :: ';' :: cs) rt rs ro st lc := by
  rcases hst with h | h <;> subst h
  · exact mx_glue_initial cs rt rs ro lc
  · exact mx_glue_unquoted cs rt rs ro lc

/-! ## plain tokens -/

/-- plain chars continue an unquoted token. -/
theorem mx_plain_unquoted (tok : List Char) (h : tok.all plainUnq = true) :
    ∀ (tail : List Char) (rt : List Token) (rs : List Char) (ro : List UInt8) (lc : Bool),
      tokLoop 0 (tok ++ tail) rt rs ro .unquotedString lc
        = tokLoop 0 tail rt (tok.reverse ++ rs) ((tok.map charAsU8).reverse ++ ro) .unquotedString lc := by
  induction tok with
  | nil => intros; rfl
  | cons c cs ih =>
    intro tail rt rs ro lc
    simp only [List.all_cons, Bool.and_eq_true] at h
    rw [List.cons_append, tokLoop_unq_plain h.1, ih h.2]
    simp

/-- a plain token read from between tokens. -/
theorem mx_plain_initial (c : Char) (tok : List Char) (hc : plainInit c = true)
    (h : tok.all plainUnq = true) (tail : List Char) (rt : List Token) (rs : List Char)
    (ro : List UInt8) (lc : Bool) :
    tokLoop 0 (c :: tok ++ tail) rt rs ro .initial lc
      = tokLoop 0 tail rt ((c :: tok).reverse ++ rs) (((c :: tok).map charAsU8).reverse ++ ro)
          .unquotedString lc := by
  rw [List.cons_append, tokLoop_init_plain hc, mx_plain_unquoted tok h]
  simp

/-- a quoted token of plain chars read from between tokens. -/
theorem mx_plain_quoted_body (body : List Char) (h : body.all plainQ = true) :
    ∀ (tail : List Char) (rt : List Token) (rs : List Char) (ro : List UInt8) (lc : Bool),
      tokLoop 0 (body ++ tail) rt rs ro .quotedString lc
        = tokLoop 0 tail rt (body.reverse ++ rs) ((body.map charAsU8).reverse ++ ro) .quotedString lc := by
  induction body with
  | nil => intros; rfl
  | cons c cs ih =>
    intro tail rt rs ro lc
    simp only [List.all_cons, Bool.and_eq_true] at h
    rw [List.cons_append, tokLoop_q_plain h.1, ih h.2]
    simp

theorem mx_plain_quoted (body : List Char) (h : body.all plainQ = true) (tail : List Char)
    (rt : List Token) (lc : Bool) :
    tokLoop 0 ('"' :: body ++ '"' :: tail) rt [] [] .initial lc
      = tokLoop 0 tail ((body, body.map charAsU8) :: rt) [] [] .initial lc := by
  have h1 : ('"' : Char) ≠ '\n' := by decide
  have h2 : ('"' : Char) ≠ ';' := by decide
  have h3 : ('"' : Char) ≠ '(' := by decide
  have h4 : ('"' : Char) ≠ ')' := by decide
  rw [List.cons_append]
  rw [show tokLoop 0 ('"' :: (body ++ '"' :: tail)) rt [] [] .initial lc
        = tokLoop 0 (body ++ '"' :: tail) rt [] [] .quotedString lc from by
      simp [tokLoop, h1, h2, h3, h4]]
  rw [mx_plain_quoted_body body h]
  simp [tokLoop]

/-! ## what the glued comment does -/

/-- inside a comment everything up to the line feed is skipped (any accumulators). -/
theorem mx_comment_skip (c : List Char) (hc : '\n' ∉ c) :
    ∀ (rest : List Char) (rt : List Token) (rs : List Char) (ro : List UInt8) (lc : Bool),
      tokLoop 0 (c ++ rest) rt rs ro .skipToEndOfComment lc = tokLoop 0 rest rt rs ro .skipToEndOfComment lc := by
  induction c with
  | nil => intros; rfl
  | cons x xs ih =>
    intro rest rt rs ro lc
    have hx : x ≠ '\n' := fun h => hc (by simp [h])
    rw [List.cons_append]
    simp only [tokLoop, hx, if_false]
    exact ih (fun h => hc (by simp [h])) rest rt rs ro lc

/-- `;comment⏎` directly after the chars of an unquoted token, outside parentheses: the token is
    finished, the comment dropped, the entry ends at the line feed. -/
theorem mx_glued_comment_ends_entry (c : List Char) (hc : '\n' ∉ c) (rest : List Char) (rt : List Token)
    (rs : List Char) (ro : List UInt8) :
    tokLoop 0 (';' :: c ++ '\n' :: rest) rt rs ro .unquotedString false
      = .ok ((pushNonEmpty rt rs ro).reverse, rest) := by
  have h1 : (';' : Char) ≠ '\n' := by decide
  rw [List.cons_append]
  simp only [tokLoop, h1, if_false, if_true]
  rw [mx_comment_skip c hc]
  simp [tokLoop, pushNonEmpty]

/-- … and inside parentheses the entry goes on after the line feed. -/
theorem mx_glued_comment_inside (c : List Char) (hc : '\n' ∉ c) (rest : List Char) (rt : List Token)
    (rs : List Char) (ro : List UInt8) :
    tokLoop 0 (';' :: c ++ '\n' :: rest) rt rs ro .unquotedString true
      = tokLoop 0 rest (pushNonEmpty rt rs ro) [] [] .initial true := by
  have h1 : (';' : Char) ≠ '\n' := by decide
  rw [List.cons_append]
  simp only [tokLoop, h1, if_false, if_true]
  rw [mx_comment_skip c hc]
  simp [tokLoop]

/-! ## lift to `parseEntry`, the entry loop, `deserialise` -/

theorem mx_parseEntry_congr {s1 s2 : List Char} (h : tokeniseEntry s1 = tokeniseEntry s2) (fuel : Nat)
    (o : Option Name) (pd : Option MaybeWildcard) (pt : Option Nat) :
    parseEntry fuel o pd pt s1 = parseEntry fuel o pd pt s2 := by
  cases fuel with
  | zero => rfl
  | succ f => simp only [parseEntry, h]

theorem mx_loopStep_congr {s1 s2 : List Char} (h : tokeniseEntry s1 = tokeniseEntry s2) (st : DState) :
    loopStep st s1 = loopStep st s2 := by
  have hpe : parseEntry (s1.length + 1) st.origin st.previousDomain st.previousTtl s1
      = parseEntry (s2.length + 1) st.origin st.previousDomain st.previousTtl s2 := by
    by_cases hle : s1.length ≤ s2.length
    · rw [parseEntry_fuel_irrelevant (s1.length + 1) (s2.length + 1) _ _ _ s1 (by omega) (by omega)]
      exact mx_parseEntry_congr h _ _ _ _
    · rw [mx_parseEntry_congr h]
      exact parseEntry_fuel_irrelevant (s1.length + 1) (s2.length + 1) _ _ _ s2 (by omega) (by omega)
  unfold loopStep
  rw [hpe]

/-- two files that reach the same loop state in front of two texts with the same first-entry
    tokenisation have the same result. -/
theorem mx_deserialise_congr {data1 data2 s1 s2 : List Char} {st : DState}
    (h1 : Reach data1 st s1) (h2 : Reach data2 st s2) (h : tokeniseEntry s1 = tokeniseEntry s2) :
    deserialiseLoop (data1.length + 1) {} data1 = deserialiseLoop (data2.length + 1) {} data2 := by
  rw [reach_loop h1 (s1.length + 1) (by omega), reach_loop h2 (s2.length + 1) (by omega),
    deserialiseLoop_succ, deserialiseLoop_succ, mx_loopStep_congr h st]
  cases hs : loopStep st s2 with
  | none => rfl
  | some step =>
    cases step with
    | stop r => rfl
    | cont st' rest =>
      simp only
      have hlt2 := loopStep_cont_lt hs
      have hs1 : loopStep st s1 = some (.cont st' rest) := by rw [mx_loopStep_congr h st, hs]
      have hlt1 := loopStep_cont_lt hs1
      exact deserialiseLoop_fuel_irrelevant _ _ _ _ hlt1 hlt2

end Resolved.ZoneText
