/-
  Relating the upstream filter model to the executable specification `USpec.checkValidated`.
-/
import Resolved.Proofs.UpstreamFollow
import Resolved.Spec.Wire

namespace Resolved

open USpec

/-! ### bestZone -/

/-- the fold step of `USpec.bestZone`. -/
def bzStep (best : Option Name) (rr : RR) : Option Name :=
  match best with
  | none => some rr.name
  | some b => if rr.name.labels.length > b.labels.length then some rr.name else some b

def bzCand (q : Question) (mc : Nat) (rr : RR) : Bool :=
  (nsTarget rr).isSome && q.name.isSubdomainOf rr.name && rr.name.labels.length > mc

theorem bestZone_eq (q : Question) (mc : Nat) (resp : Message) :
    bestZone q mc resp = ((resp.answers ++ resp.authority).filter (bzCand q mc)).foldl bzStep none := rfl

/-- `best` is below depth `d`. -/
def BzBelow (d : Nat) (best : Option Name) : Prop := ∀ b, best = some b → b.labels.length < d

theorem bz_prefix {d : Nat} (l : List RR) (init : Option Name) (h0 : BzBelow d init)
    (hl : ∀ r ∈ l, r.name.labels.length < d) : BzBelow d (l.foldl bzStep init) := by
  apply foldl_inv (P := BzBelow d) l init h0
  intro s x hx hs b hb
  unfold bzStep at hb
  split at hb
  · cases hb; exact hl x hx
  · rename_i b'
    split at hb
    · cases hb; exact hl x hx
    · cases hb; exact hs _ rfl

theorem bz_suffix (l : List RR) (b : Name) (hl : ∀ r ∈ l, r.name.labels.length ≤ b.labels.length) :
    l.foldl bzStep (some b) = some b := by
  induction l with
  | nil => rfl
  | cons r l ih =>
    simp only [List.foldl_cons]
    have h1 := hl r List.mem_cons_self
    have : bzStep (some b) r = some b := by
      unfold bzStep
      simp only
      split
      · omega
      · rfl
    rw [this]
    exact ih (fun r' hr' => hl r' (List.mem_cons_of_mem _ hr'))

theorem bz_first_max (pre1 pre2 : List RR) (rr : RR)
    (h1 : ∀ r ∈ pre1, r.name.labels.length < rr.name.labels.length)
    (h2 : ∀ r ∈ pre2, r.name.labels.length ≤ rr.name.labels.length) :
    (pre1 ++ rr :: pre2).foldl bzStep none = some rr.name := by
  rw [List.foldl_append, List.foldl_cons]
  have hb : BzBelow rr.name.labels.length (pre1.foldl bzStep none) :=
    bz_prefix pre1 none (by intro b hb; cases hb) h1
  have : bzStep (pre1.foldl bzStep none) rr = some rr.name := by
    unfold bzStep
    split
    · rfl
    · rename_i b hbe
      have := hb b hbe
      simp [this]
  rw [this]
  exact bz_suffix pre2 rr.name h2

theorem bzCand_iff {q : Question} {mc : Nat} {rr : RR} :
    bzCand q mc rr = true ↔ IsCand q.name rr ∧ mc < rr.name.labels.length := by
  unfold bzCand IsCand
  simp only [Bool.and_eq_true, decide_eq_true_eq, gt_iff_lt]

/-- the zone chosen by the filter is the specification's `bestZone`. -/
theorem bestZone_of_spec {q : Question} {mc : Nat} {resp : Message} {mn : Name} {ns : List Name}
    (sp : GbSpec (resp.answers ++ resp.authority) q.name mc mn ns) :
    bestZone q mc resp = some mn := by
  obtain ⟨pre1, rr, pre2, hp, hn, hc, hlt⟩ := sp.first
  rw [bestZone_eq, hp]
  subst hn
  have hrr : bzCand q mc rr = true := bzCand_iff.mpr ⟨hc, sp.closer⟩
  rw [List.filter_append, List.filter_cons_of_pos hrr]
  apply bz_first_max
  · intro r hr
    obtain ⟨hm, hk⟩ := List.mem_filter.mp hr
    exact hlt r hm (bzCand_iff.mp hk).1
  · intro r hr
    obtain ⟨hm, hk⟩ := List.mem_filter.mp hr
    apply sp.maxd r _ (bzCand_iff.mp hk).1
    rw [hp]
    simp [hm]

/-! ### referrals -/

/-- Well-formedness of the names of a reply: a name is determined by its labels (in the Rust code
    `len` is computed from the labels; the model's `Name` carries it as an independent field). -/
def NamesConsistent (l : List RR) : Prop :=
  ∀ r ∈ l, ∀ r' ∈ l, r.name.labels = r'.name.labels → r.name = r'.name

/-- every decoder output (`WfMsg`) has consistent names: `len` is computed from the labels. -/
theorem namesConsistent_of_nameWF {l : List RR} (h : ∀ r ∈ l, NameWF r.name) : NamesConsistent l := by
  intro r hr r' hr' hl
  have h1 := (h r hr).2.2.1
  have h2 := (h r' hr').2.2.1
  cases hn : r.name with
  | mk ls len =>
    cases hn' : r'.name with
    | mk ls' len' =>
      rw [hn] at h1 hl
      rw [hn'] at h2 hl
      simp only at h1 h2 hl
      subst hl
      rw [h1, h2]

theorem namesConsistent_of_wfMsg {m : Message} (h : WfMsg m) :
    NamesConsistent (m.answers ++ m.authority) := by
  apply namesConsistent_of_nameWF
  intro r hr
  rcases List.mem_append.mp hr with h0 | h0
  · exact (h.2.2.1 r h0).1
  · exact (h.2.2.2.1 r h0).1

theorem suffix_same_length {α : Type} {a b t : List α} (ha : a <:+ t) (hb : b <:+ t)
    (hl : a.length = b.length) : a = b := by
  have h1 := List.suffix_iff_eq_append.mp ha
  have h2 := List.suffix_iff_eq_append.mp hb
  rw [hl] at h1
  exact List.append_cancel_left (h1.trans h2.symm)

theorem enclosing_same_depth {t a b : Name} (ha : t.isSubdomainOf a = true) (hb : t.isSubdomainOf b = true)
    (hl : a.labels.length = b.labels.length) : a.labels = b.labels := by
  unfold Name.isSubdomainOf at ha hb
  exact suffix_same_length (List.isSuffixOf_iff_suffix.mp ha) (List.isSuffixOf_iff_suffix.mp hb) hl

theorem check_delegation {q : Question} {mc : Nat} {resp : Message} {name : Name} {hs : List Name}
    (hwf : NamesConsistent (resp.answers ++ resp.authority))
    (sp : GbSpec (resp.answers ++ resp.authority) q.name mc name hs) :
    checkValidated q mc resp (some (.delegation (delegRrs resp name hs) hs name)) = none := by
  obtain ⟨pre1, rr0, pre2, hp, hn0, hc0, _⟩ := sp.first
  have hrr0 : rr0 ∈ resp.answers ++ resp.authority := by rw [hp]; simp
  have hne : hs.isEmpty = false := by
    cases hs with
    | nil => exact absurd rfl sp.ne
    | cons _ _ => rfl
  have hcl : ¬ name.labels.length ≤ mc := by have := sp.closer; omega
  -- the host names are exactly the NS targets of the records owned by the zone
  have hhosts : ∀ n, n ∈ hs ↔ n ∈ ((resp.answers ++ resp.authority).filter
      (fun rr => (nsTarget rr).isSome && rr.name == name)).filterMap nsTarget := by
    intro n
    rw [sp.hosts n, List.mem_filterMap]
    constructor
    · rintro ⟨r, hr, h1, h2, h3⟩
      refine ⟨r, List.mem_filter.mpr ⟨hr, ?_⟩, h1⟩
      have : r.name = name := by
        rw [← hn0]
        apply hwf r hr rr0 hrr0
        apply enclosing_same_depth h2 hc0.2
        rw [h3, hn0]
      simp [h1, this]
    · rintro ⟨r, hr, h1⟩
      obtain ⟨hm, hk⟩ := List.mem_filter.mp hr
      have hk' : r.name = name := by
        have := (Bool.and_eq_true _ _).mp hk
        simpa using this.2
      exact ⟨r, hm, h1, hk' ▸ sp.sub, by rw [hk']⟩
  have hall : (hs.all (fun x => (((resp.answers ++ resp.authority).filter
      (fun rr => (nsTarget rr).isSome && rr.name == name)).filterMap nsTarget).contains x) &&
      (((resp.answers ++ resp.authority).filter
      (fun rr => (nsTarget rr).isSome && rr.name == name)).filterMap nsTarget).all
        (fun x => hs.contains x)) = true := by
    rw [Bool.and_eq_true, List.all_eq_true, List.all_eq_true]
    constructor
    · intro x hx
      exact List.contains_iff_mem.mpr ((hhosts x).mp hx)
    · intro x hx
      exact List.contains_iff_mem.mpr ((hhosts x).mpr hx)
  have hbad : (delegRrs resp name hs).find? (fun rr =>
      !(((nsTarget rr).isSome && rr.name == name && (resp.answers ++ resp.authority).contains rr) ||
        ((rr.rtype == RT_A || rr.rtype == RT_AAAA) && hs.contains rr.name &&
          (resp.answers ++ resp.additional).contains rr))) = none := by
    rw [List.find?_eq_none]
    intro rr hrr
    simp only [Bool.not_eq_true, Bool.not_eq_false']
    rcases mem_delegRrs.mp hrr with ⟨hm, hk | hk⟩ | ⟨hm, hk⟩ | ⟨hm, hk⟩
    · obtain ⟨t, h1, h2, h3⟩ := isNsOf_iff.mp hk
      simp [h1, h2, hm]
    · obtain ⟨h1, h2⟩ := isGlueOf_iff.mp hk
      have : (rr.rtype == RT_A || rr.rtype == RT_AAAA) = true := by simpa using h1
      simp [this, h2, hm]
    · obtain ⟨t, h1, h2, h3⟩ := isNsOf_iff.mp hk
      simp [h1, h2, hm]
    · obtain ⟨h1, h2⟩ := isGlueOf_iff.mp hk
      have : (rr.rtype == RT_A || rr.rtype == RT_AAAA) = true := by simpa using h1
      simp [this, h2, hm]
  unfold checkValidated
  simp only [bestZone_of_spec sp]
  simp only [bne_self_eq_false, Bool.false_eq_true, if_false, sp.sub, Bool.not_true, hcl, hne, hall,
    hbad]

/-! ### negative answers -/

theorem check_nodata {q : Question} {mc : Nat} {resp : Message} {soa : RR}
    (h : getNxdomainNodataSoa q resp mc = some soa) :
    checkValidated q mc resp (some (.answer [] (some soa))) = none := by
  obtain ⟨h1, _, h3, h4, h5⟩ := getNxdomainNodataSoa_some h
  have hmem : soa ∈ resp.authority.filter (fun rr => rr.rtype == RT_SOA) := by simp [h3]
  have hm := List.mem_filter.mp hmem
  have hlt : ¬ soa.name.labels.length < mc := by omega
  unfold checkValidated
  simp only [List.isEmpty_nil, if_true, List.contains_iff_mem.mpr hm.1, hm.2, Bool.and_self,
    Bool.not_true, Bool.false_eq_true, if_false, h4, hlt, h3, List.length_singleton, bne_self_eq_false,
    h1]

/-! ### CNAME paths -/

/-- `ls = [l₀, l₁, …]` are CNAME records of `cn` realising the chain `n ↦ t₁ ↦ t₂ ↦ …`. -/
def LinkRecs (cn : List RR) : Name → List Name → List RR → Prop
  | _, [], [] => True
  | n, t :: p, l :: ls => l ∈ cn ∧ l.name = n ∧ cnameTarget l = some t ∧ LinkRecs cn t p ls
  | _, _, _ => False

theorem linkRecs_exists {answers : List RR} {n : Name} {path : List Name}
    (hc : ChainFrom (buildMap answers) n path) :
    ∃ ls, LinkRecs (answers.filter (fun rr => (cnameTarget rr).isSome)) n path ls := by
  induction path generalizing n with
  | nil => exact ⟨[], trivial⟩
  | cons t p ih =>
    obtain ⟨hg, hc'⟩ := hc
    obtain ⟨ls, hls⟩ := ih hc'
    rw [nmGet_buildMap] at hg
    obtain ⟨rr, hr, h1, h2⟩ := lastCname_some hg
    exact ⟨rr :: ls, List.mem_filter.mpr ⟨hr, by simp [h2]⟩, h1, h2, hls⟩

theorem linkRecs_length {cn : List RR} {n : Name} {path : List Name} {ls : List RR}
    (h : LinkRecs cn n path ls) : ls.length = path.length := by
  induction path generalizing n ls with
  | nil =>
    cases ls with
    | nil => rfl
    | cons _ _ => exact absurd h (by simp [LinkRecs])
  | cons t p ih =>
    cases ls with
    | nil => exact absurd h (by simp [LinkRecs])
    | cons l ls =>
      simp only [List.length_cons, ih h.2.2.2]

theorem linkRecs_sub {cn : List RR} {n : Name} {path : List Name} {ls : List RR}
    (h : LinkRecs cn n path ls) : ∀ l ∈ ls, l ∈ cn := by
  induction path generalizing n ls with
  | nil =>
    cases ls with
    | nil => intro l hl; cases hl
    | cons _ _ => exact absurd h (by simp [LinkRecs])
  | cons t p ih =>
    cases ls with
    | nil => exact absurd h (by simp [LinkRecs])
    | cons l ls =>
      intro l' hl'
      rcases List.mem_cons.mp hl' with h0 | h0
      · subst h0; exact h.1
      · exact ih h.2.2.2 l' h0

theorem linkRecs_names {cn : List RR} {n : Name} {path : List Name} {ls : List RR}
    (h : LinkRecs cn n path ls) : ∀ l ∈ ls, l.name ∈ n :: path := by
  induction path generalizing n ls with
  | nil =>
    cases ls with
    | nil => intro l hl; cases hl
    | cons _ _ => exact absurd h (by simp [LinkRecs])
  | cons t p ih =>
    cases ls with
    | nil => exact absurd h (by simp [LinkRecs])
    | cons l ls =>
      intro l' hl'
      rcases List.mem_cons.mp hl' with h0 | h0
      · subst h0; rw [h.2.1]; exact List.mem_cons_self
      · exact List.mem_cons_of_mem _ (ih h.2.2.2 l' h0)

theorem linkRecs_nodup {cn : List RR} {n : Name} {path : List Name} {ls : List RR}
    (hnd : (n :: path).Nodup) (h : LinkRecs cn n path ls) : ls.Nodup := by
  induction path generalizing n ls with
  | nil =>
    cases ls with
    | nil => exact List.nodup_nil
    | cons _ _ => exact absurd h (by simp [LinkRecs])
  | cons t p ih =>
    cases ls with
    | nil => exact List.nodup_nil
    | cons l ls =>
      obtain ⟨hn, hnd'⟩ := List.nodup_cons.mp hnd
      refine List.nodup_cons.mpr ⟨?_, ih hnd' h.2.2.2⟩
      intro hl
      have := linkRecs_names h.2.2.2 l hl
      rw [h.2.1] at this
      exact hn this

theorem linkRecs_cover {cn : List RR} {n : Name} {path : List Name} {ls : List RR}
    (h : LinkRecs cn n path ls) {a b : Name} (hab : (a, b) ∈ linksOf n path) :
    ∃ l ∈ ls, l.name = a ∧ cnameTarget l = some b := by
  induction path generalizing n ls with
  | nil => simp [linksOf] at hab
  | cons t p ih =>
    cases ls with
    | nil => exact absurd h (by simp [LinkRecs])
    | cons l ls =>
      rw [linksOf_cons] at hab
      rcases List.mem_cons.mp hab with h0 | h0
      · cases h0
        exact ⟨l, List.mem_cons_self, h.2.1, h.2.2.1⟩
      · obtain ⟨l', hl', h1⟩ := ih h.2.2.2 h0
        exact ⟨l', List.mem_cons_of_mem _ hl', h1⟩

theorem simplePaths_nil_mem (cn : List RR) (fuel : Nat) (cur : Name) (visited : List Name) :
    ([], cur) ∈ simplePaths cn fuel cur visited := by
  cases fuel <;> simp [simplePaths]

theorem simplePaths_mem {cn : List RR} {fuel : Nat} {cur : Name} {visited : List Name}
    {path : List Name} {ls : List RR} (hl : LinkRecs cn cur path ls) (hlen : path.length ≤ fuel)
    (hnd : (cur :: path).Nodup) (hdis : ∀ x ∈ path, x ∉ visited) :
    (ls, lastOr cur path) ∈ simplePaths cn fuel cur visited := by
  induction path generalizing cur visited fuel ls with
  | nil =>
    cases ls with
    | nil => exact simplePaths_nil_mem cn fuel cur visited
    | cons _ _ => exact absurd hl (by simp [LinkRecs])
  | cons t p ih =>
    cases ls with
    | nil => exact absurd hl (by simp [LinkRecs])
    | cons l ls =>
      obtain ⟨h1, h2, h3, h4⟩ := hl
      cases fuel with
      | zero => simp at hlen
      | succ fuel =>
        obtain ⟨hcur, hnd'⟩ := List.nodup_cons.mp hnd
        have htv : t ∉ visited := hdis t List.mem_cons_self
        have htc : t ≠ cur := by intro h; subst h; exact hcur List.mem_cons_self
        have ih' := ih (cur := t) (visited := cur :: visited) (fuel := fuel) h4
          (by simpa using hlen) hnd' (by
            intro x hx hxv
            rcases List.mem_cons.mp hxv with h | h
            · subst h; exact hcur (List.mem_cons_of_mem _ hx)
            · exact hdis x (List.mem_cons_of_mem _ hx) h)
        unfold simplePaths
        refine List.mem_cons_of_mem _ (List.mem_flatMap.mpr ⟨l, List.mem_filter.mpr ⟨h1, by simp [h2]⟩, ?_⟩)
        simp only [h3, List.contains_eq_mem, htv, decide_false, Bool.false_or, beq_iff_eq, htc, if_false]
        exact List.mem_map.mpr ⟨(ls, lastOr t p), ih', rfl⟩

/-- no two different CNAME records of the section share owner and target. -/
def CnameLinksUnique (answers : List RR) : Prop :=
  ∀ r ∈ answers, ∀ r' ∈ answers, ∀ t, cnameTarget r = some t → cnameTarget r' = some t →
    r.name = r'.name → r = r'

theorem onPath_of_chain {answers : List RR} {start : Name} {path : List Name} {links : List RR}
    (huniq : CnameLinksUnique answers)
    (hc : ChainFrom (buildMap answers) start path) (hnd : (start :: path).Nodup)
    (hlinks : ∀ rr ∈ links, rr ∈ answers ∧ ∃ t, cnameTarget rr = some t ∧ (rr.name, t) ∈ linksOf start path) :
    onPath answers start (lastOr start path) links = true := by
  obtain ⟨ls, hls⟩ := linkRecs_exists hc
  have hlen : path.length ≤ (answers.filter (fun rr => (cnameTarget rr).isSome)).length + 1 := by
    rw [← linkRecs_length hls]
    have := nodup_subset_length ls _ (linkRecs_nodup hnd hls) (linkRecs_sub hls)
    omega
  have hmem := simplePaths_mem (visited := []) hls hlen hnd (by simp)
  unfold onPath
  simp only
  rw [List.any_eq_true]
  refine ⟨(ls, lastOr start path), hmem, ?_⟩
  simp only [beq_self_eq_true, Bool.true_and, List.all_eq_true]
  intro rr hrr
  obtain ⟨hra, t, ht, hab⟩ := hlinks rr hrr
  obtain ⟨l, hl, h1, h2⟩ := linkRecs_cover hls hab
  have hla : l ∈ answers := (List.mem_filter.mp (linkRecs_sub hls l hl)).1
  have : rr = l := huniq rr hra l hla t ht h2 h1.symm
  subst this
  exact List.contains_iff_mem.mpr hl

/-! ### CNAME steps and answers -/

/-- the last name of a duplicate-free chain is not the owner of a link. -/
theorem linksOf_key_ne_last (n : Name) (p : List Name) (hnd : (n :: p).Nodup) (a b : Name)
    (hab : (a, b) ∈ linksOf n p) : a ≠ lastOr n p := by
  induction p generalizing n with
  | nil => simp [linksOf] at hab
  | cons t' p' ih =>
    rw [linksOf_cons] at hab
    obtain ⟨hn, hnd'⟩ := List.nodup_cons.mp hnd
    rcases List.mem_cons.mp hab with h0 | h0
    · obtain ⟨ha, _⟩ := Prod.mk.inj h0
      intro hl
      apply hn
      rw [← ha, hl]
      have := lastOr_eq_getLast t' p'
      exact List.mem_of_getLast? this
    · exact ih t' hnd' h0

theorem subset_of_mem {xs ys : List RR} (h : ∀ x ∈ xs, x ∈ ys) : USpec.subset xs ys = true := by
  unfold USpec.subset
  rw [List.all_eq_true]
  intro x hx
  exact List.contains_iff_mem.mpr (h x hx)

theorem check_cname {q : Question} {mc : Nat} {resp : Message} {c : Name} {cm : NameMap}
    (huniq : CnameLinksUnique resp.answers)
    (hf : followCnames resp.answers q.name q.qtype = some (c, cm))
    (hne : (knownOf resp).filter (ansKeep q c cm) ≠ [])
    (hany : (knownOf resp).any (fun an => rtypeMatches an.rtype q.qtype && an.name == c) = false) :
    checkValidated q mc resp (some (.cname ((knownOf resp).filter (ansKeep q c cm)) c)) = none := by
  obtain ⟨path, h1, h2, h3, _, h5, _⟩ := followCnames_some hf
  generalize hrrs : (knownOf resp).filter (ansKeep q c cm) = rrs at hne
  -- every kept record is a followed link
  have hlink : ∀ rr ∈ rrs,
      rr ∈ resp.answers ∧ ∃ t, cnameTarget rr = some t ∧ (rr.name, t) ∈ linksOf q.name path := by
    intro rr hrr
    rw [← hrrs] at hrr
    obtain ⟨hm, hk⟩ := List.mem_filter.mp hrr
    refine ⟨(mem_knownOf.mp hm).1, ?_⟩
    rcases ansKeep_iff.mp hk with h | ⟨t, ht, hg⟩
    · have : (knownOf resp).any (fun an => rtypeMatches an.rtype q.qtype && an.name == c) = true :=
        List.any_eq_true.mpr ⟨rr, hm, by simpa using h⟩
      rw [hany] at this; cases this
    · exact ⟨t, ht, h5 ▸ nmGet_mem hg⟩
  have hsub : USpec.subset rrs resp.answers = true :=
    subset_of_mem (fun x hx => (hlink x hx).1)
  have hall : rrs.all (fun rr => (cnameTarget rr).isSome) = true := by
    rw [List.all_eq_true]
    intro x hx
    obtain ⟨_, t, ht, _⟩ := hlink x hx
    simp [ht]
  have hemp : rrs.isEmpty = false := by
    cases rrs with
    | nil => exact absurd rfl hne
    | cons _ _ => rfl
  have hon : onPath resp.answers q.name c rrs = true := by
    rw [h3]
    exact onPath_of_chain huniq h1 h2 hlink
  unfold checkValidated
  simp only [hsub, hall, hemp, hon, Bool.not_true, Bool.false_eq_true, if_false]

theorem check_answer {q : Question} {mc : Nat} {resp : Message} {fin : Name} {cm : NameMap}
    (huniq : CnameLinksUnique resp.answers)
    (hf : followCnames resp.answers q.name q.qtype = some (fin, cm))
    (hany : (knownOf resp).any (fun an => rtypeMatches an.rtype q.qtype && an.name == fin) = true) :
    checkValidated q mc resp (some (.answer ((knownOf resp).filter (ansKeep q fin cm)) none)) = none := by
  obtain ⟨path, h1, h2, h3, _, h5, _⟩ := followCnames_some hf
  generalize hrrs : (knownOf resp).filter (ansKeep q fin cm) = rrs
  have hmem : ∀ rr ∈ rrs, rr ∈ resp.answers ∧
      ((rtypeMatches rr.rtype q.qtype = true ∧ rr.name = fin) ∨
       (∃ t, cnameTarget rr = some t ∧ (rr.name, t) ∈ linksOf q.name path)) := by
    intro rr hrr
    rw [← hrrs] at hrr
    obtain ⟨hm, hk⟩ := List.mem_filter.mp hrr
    refine ⟨(mem_knownOf.mp hm).1, ?_⟩
    rcases ansKeep_iff.mp hk with h | ⟨t, ht, hg⟩
    · exact Or.inl h
    · exact Or.inr ⟨t, ht, h5 ▸ nmGet_mem hg⟩
  -- a witness of the asked type at the final name
  obtain ⟨w, hwk, hw⟩ := List.any_eq_true.mp hany
  have hw' : rtypeMatches w.rtype q.qtype = true ∧ w.name = fin := by simpa using hw
  have hwr : w ∈ rrs := by
    rw [← hrrs]
    exact List.mem_filter.mpr ⟨hwk, ansKeep_iff.mpr (Or.inl hw')⟩
  have hemp : rrs.isEmpty = false := by
    cases rrs with
    | nil => cases hwr
    | cons _ _ => rfl
  have hsub : USpec.subset rrs resp.answers = true := subset_of_mem (fun x hx => (hmem x hx).1)
  -- link owners are on the chain strictly before `fin`
  have hlink_ne : ∀ (rr : RR) (t : Name), (rr.name, t) ∈ linksOf q.name path → rr.name ≠ fin := by
    intro rr t hab heq
    exact linksOf_key_ne_last q.name path h2 rr.name t hab (heq.trans h3)
  have hfinmem : fin ∈ q.name :: rrs.map (·.name) :=
    List.mem_cons_of_mem _ (List.mem_map.mpr ⟨w, hwr, hw'.2⟩)
  unfold checkValidated
  simp only [hemp, Bool.false_eq_true, if_false, Option.isSome_none, hsub, Bool.not_true]
  rw [if_pos]
  rw [List.any_eq_true]
  refine ⟨fin, hfinmem, ?_⟩
  simp only [Bool.and_eq_true, Bool.not_eq_true', List.all_eq_true]
  refine ⟨⟨?_, ?_⟩, ?_⟩
  · rw [h3]
    apply onPath_of_chain huniq h1 h2
    intro rr hrr
    obtain ⟨hm, hk⟩ := List.mem_filter.mp hrr
    have hk' : (cnameTarget rr).isSome = true ∧ rr.name ≠ lastOr q.name path := by
      simpa using hk
    obtain ⟨hra, h | h⟩ := hmem rr hm
    · exact absurd (h.2.trans h3) hk'.2
    · exact ⟨hra, h⟩
  · cases hfl : rrs.filter (fun rr => !((cnameTarget rr).isSome && rr.name != fin)) with
    | cons _ _ => rfl
    | nil =>
      have : w ∈ rrs.filter (fun rr => !((cnameTarget rr).isSome && rr.name != fin)) :=
        List.mem_filter.mpr ⟨hwr, by simp [hw'.2]⟩
      rw [hfl] at this; cases this
  · intro rr hrr
    obtain ⟨hm, hk⟩ := List.mem_filter.mp hrr
    obtain ⟨_, h | ⟨t, ht, hab⟩⟩ := hmem rr hm
    · simp [h.1, h.2]
    · have hne := hlink_ne rr t hab
      simp [ht, hne] at hk

end Resolved
