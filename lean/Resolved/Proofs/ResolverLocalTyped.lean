/-
  The structural invariants used by C10's hypotheses are established by the constructors:
  `ZNode.Typed` by `Zone::new` / `Zone::insert` / `Zone::insert_wildcard` (every `Zone.Reachable`
  zone), `ZonesTyped` by `Zones::insert`, `CacheTyped` by `SharedCache::insert(_all)`.
-/
import Resolved.Proofs.ResolverLocalZones

namespace Resolved

open Gen

/-! ## record maps -/

theorem recMapTyped_nil : RecMapTyped [] := by
  intro k zrs h; simp at h

theorem recMapTyped_insertRecord {m : RecMap} (h : RecMapTyped m) (zr : ZoneRecord) :
    RecMapTyped (m.insertRecord zr) := by
  intro k zrs hg x hx
  rw [RecMap.get_insertRecord] at hg
  split at hg
  · rename_i hk
    cases hg
    unfold pushNew at hx
    have hold : ∀ y ∈ (m.get k).getD [], y.rtype = k := by
      intro y hy
      cases hm : m.get k with
      | none => simp [hm] at hy
      | some l => simp only [hm, Option.getD_some] at hy; exact h k l hm y hy
    split at hx
    · exact hold x hx
    · simp only [List.mem_append, List.mem_singleton] at hx
      rcases hx with hx | rfl
      · exact hold x hx
      · exact hk
  · exact h k zrs hg x hx

theorem recMapTyped_single (zr : ZoneRecord) : RecMapTyped [(zr.rtype, [zr])] := by
  intro k zrs hg x hx
  simp only [RecMap.get_cons, RecMap.get_nil] at hg
  split at hg
  · rename_i hk; cases hg; simp only [List.mem_singleton] at hx; subst hx; exact hk
  · cases hg

/-- the pair of record sets of a node is typed. -/
def ViewTyped (v : RecMap × Option RecMap) : Prop := RecMapTyped v.1 ∧ ∀ ws, v.2 = some ws → RecMapTyped ws

theorem viewTyped_updView {v : RecMap × Option RecMap} (h : ViewTyped v) (zr : ZoneRecord) (wild : Bool) :
    ViewTyped (ZNode.updView zr wild v) := by
  unfold ZNode.updView
  cases wild with
  | true =>
    simp only [if_true]
    refine ⟨h.1, ?_⟩
    intro ws hws
    cases hws
    apply recMapTyped_insertRecord
    cases hv : v.2 with
    | none => exact recMapTyped_nil
    | some w => exact h.2 w hv
  | false =>
    simp only [Bool.false_eq_true, if_false]
    exact ⟨recMapTyped_insertRecord h.1 zr, h.2⟩

theorem ZNode.typed_iff_view (node : ZNode) :
    node.Typed ↔ ∀ p n, node.descend p = some n → ViewTyped (ZNode.view n) := Iff.rfl

theorem ZNode.typed_new (nsd : Name) : (ZNode.new nsd).Typed := by
  intro p n h
  rw [ZNode.descend_new] at h
  split at h
  · cases h; exact ⟨recMapTyped_nil, fun ws hw => by cases hw⟩
  · cases h

theorem ZNode.baseView_typed {node : ZNode} (h : node.Typed) (p : List Label) :
    ViewTyped (ZNode.baseView node p) := by
  unfold ZNode.baseView
  cases hd : node.descend p with
  | none => exact ⟨recMapTyped_nil, fun ws hw => by cases hw⟩
  | some n => exact h p n hd

/-- `ZoneRecords::insert` / `insert_wildcard` keep the record maps consistently keyed. -/
theorem ZNode.typed_insertRev {node node' : ZNode} (h : node.Typed) (r : List Label) (zr : ZoneRecord)
    (wild : Bool) (hi : node.insertRev r zr wild = some node') : node'.Typed := by
  intro p n hd
  by_cases hp : p <+: r
  · obtain ⟨n', hd', hv⟩ := ZNode.insertRev_descend_on zr wild r node node' p hi hp
    rw [hd] at hd'; cases hd'
    show ViewTyped (ZNode.view n)
    rw [hv]
    split
    · exact viewTyped_updView (ZNode.baseView_typed h p) zr wild
    · exact ZNode.baseView_typed h p
  · rw [ZNode.insertRev_descend_off zr wild r node node' p hi hp] at hd
    exact h p n hd

theorem Zone.typed_new (apex : Name) (soa : Option SOA) : (Zone.new apex soa).records.Typed := by
  cases soa with
  | none => exact ZNode.typed_new apex
  | some s =>
    exact ZNode.typed_insertRev (ZNode.typed_new apex) [] _ false (Zone.new_records_some apex s)

theorem Zone.typed_insert {z z' : Zone} (h : z.records.Typed) (name : Name) (rtype : Nat)
    (fields : List FieldVal) (ttl : Nat) (wild : Bool)
    (hi : z.insert name rtype fields ttl wild = some z') : z'.records.Typed := by
  obtain ⟨_, _, hc⟩ := Zone.insert_cases z z' name rtype fields ttl wild hi
  rcases hc with ⟨_, rfl⟩ | ⟨rel, _, hr⟩
  · exact h
  · exact ZNode.typed_insertRev h _ _ _ hr

/-- every zone built by `Zone::new` followed by insertions is consistently keyed. -/
theorem Zone.typed_of_reachable {apex : Name} {soa : Option SOA} {ops : List ZoneOp} {z : Zone}
    (h : Zone.Reachable apex soa ops z) : z.records.Typed := by
  induction h with
  | new => exact Zone.typed_new apex soa
  | step ops op z z' _ ho ih => exact Zone.typed_insert ih _ _ _ _ _ ho

/-! ## `Zones` -/

theorem Zones.get_mem {zs : Zones} {name : Name} {z : Zone} (h : zs.get name = some z) :
    ∃ k, Zones.lookup zs.zones k = some z := by
  obtain ⟨_, n, _, _, _, hl, _⟩ := Zones.getLoop_some zs name.labels z h
  exact ⟨n, hl⟩

/-- all configured zones consistently keyed ⇒ `ZonesTyped`. -/
theorem zonesTyped_of_all {zs : Zones} (h : ∀ k z, Zones.lookup zs.zones k = some z → z.records.Typed) :
    ZonesTyped zs := by
  intro name z hg
  obtain ⟨k, hl⟩ := Zones.get_mem hg
  exact h k z hl

theorem zonesTyped_empty : ZonesTyped Zones.empty :=
  zonesTyped_of_all (by intro k z h; simp [Zones.empty, Zones.lookup] at h)

/-! ## cache: I6 is established by the empty cache and kept by insertions -/

theorem PCache.getTuples_setTuples (rs : List (Nat × Tuples)) (k : Nat) (t : Tuples) (k2 : Nat) :
    PCache.getTuples (PCache.setTuples rs k t) k2 = if k = k2 then some t else PCache.getTuples rs k2 := by
  induction rs with
  | nil => simp [PCache.setTuples, PCache.getTuples]
  | cons kv rest ih =>
    obtain ⟨k', t'⟩ := kv
    simp only [PCache.setTuples]
    split
    · rename_i hk
      subst hk
      simp only [PCache.getTuples]
      split <;> rfl
    · rename_i hk
      simp only [PCache.getTuples, ih]
      by_cases h1 : k' = k2
      · subst h1; simp; intro h; exact absurd h.symm hk
      · simp [h1]

theorem PCache.mem_swapRemove {ts : Tuples} {i : Nat} {t : CRec × Nat} (h : t ∈ PCache.swapRemove ts i) :
    t ∈ ts := by
  unfold PCache.swapRemove at h
  split at h
  · exact h
  · rename_i last hl
    have hlast : last ∈ ts := List.mem_of_getLast? hl
    split at h
    · exact List.dropLast_subset _ h
    · have := List.dropLast_subset _ h
      rcases List.mem_or_eq_of_mem_set this with h1 | h1
      · exact h1
      · rw [h1]; exact hlast

/-- the records of a partition after `upsert`. -/
def RecsTypedP (rs : List (Nat × Tuples)) : Prop :=
  ∀ rk ts, PCache.getTuples rs rk = some ts → ∀ t ∈ ts, t.1.rtype = rk

theorem recsTyped_set {rs : List (Nat × Tuples)} (h : RecsTypedP rs) (rk : Nat) (ts : Tuples)
    (hts : ∀ t ∈ ts, t.1.rtype = rk) : RecsTypedP (PCache.setTuples rs rk ts) := by
  intro rk2 ts2 hg
  rw [PCache.getTuples_setTuples] at hg
  split at hg
  · rename_i hk; cases hg; subst hk; exact hts
  · exact h rk2 ts2 hg

theorem upsert_typed {c : PCache} (h : CacheTyped c) (k : Name) (v : CRec) (ttl now : Nat) :
    CacheTyped (c.upsert k v.rtype v ttl now) := by
  intro k2 p2 hp2
  unfold PCache.upsert at hp2
  simp only at hp2
  split at hp2
  · rename_i p hp
    have hold : RecsTypedP p.records := h k p hp
    simp only [PCache.getPartition_setPartition] at hp2
    split at hp2
    · cases hp2
      intro rk ts hg
      have key : ∀ (X : Partition × Nat × PQ), RecsTypedP X.1.records →
          ∀ (A B : Partition × PQ), A.1.records = X.1.records → B.1.records = X.1.records →
          ∀ (cnd : Prop) [Decidable cnd], RecsTypedP (if cnd then A else B).1.records := by
        intro X hX A B hA hB cnd _
        split
        · rw [hA]; exact hX
        · rw [hB]; exact hX
      refine key _ ?_ _ _ rfl rfl _ rk ts hg
      split
      · rename_i ts0 hts0
        have h0 := hold _ _ hts0
        split
        · rename_i i dupExpiry hfd
          have : RecsTypedP (PCache.setTuples p.records v.rtype (PCache.swapRemove ts0 i ++ [(v, now + ttl)])) := by
            apply recsTyped_set hold
            intro t ht
            simp only [List.mem_append, List.mem_singleton] at ht
            rcases ht with ht | rfl
            · exact h0 t (PCache.mem_swapRemove ht)
            · rfl
          split <;> exact this
        · apply recsTyped_set hold
          intro t ht
          simp only [List.mem_append, List.mem_singleton] at ht
          rcases ht with ht | rfl
          · exact h0 t ht
          · rfl
      · apply recsTyped_set hold
        intro t ht
        simp only [List.mem_singleton] at ht
        subst ht; rfl
    · exact h k2 p2 hp2
  · simp only [PCache.getPartition_setPartition] at hp2
    split at hp2
    · cases hp2
      intro rk ts hg t ht
      simp only [PCache.getTuples] at hg
      split at hg
      · rename_i hk; cases hg; simp only [List.mem_singleton] at ht; subst ht; exact hk
      · cases hg
    · exact h k2 p2 hp2


theorem cacheInsert_typed {c : PCache} (h : CacheTyped c) (rr : RR) (now : Nat) :
    CacheTyped (cacheInsert c rr now) :=
  upsert_typed h rr.name ⟨rr.rtype, rr.fields⟩ (rr.ttl * NANOS) now

theorem sharedInsert_typed {c : PCache} (h : CacheTyped c) (rr : RR) (now : Nat) :
    CacheTyped (sharedInsert c rr now) := by
  unfold sharedInsert; split
  · exact cacheInsert_typed h rr now
  · exact h

/-- `SharedCache::insert_all` keeps I6: every cache the resolvers build from the empty cache by
    insertions and reads satisfies (H-cache). -/
theorem sharedInsertAll_typed (rrs : List RR) (now : Nat) : ∀ {c : PCache}, CacheTyped c →
    CacheTyped (sharedInsertAll c rrs now) := by
  unfold sharedInsertAll
  induction rrs with
  | nil => intro c h; exact h
  | cons rr rest ih => intro c h; exact ih (sharedInsert_typed h rr now)

/-! ## zones as the server configures them: built zones merged into `Zones` -/

theorem recRepr_typed {m : RecMap} {zrs : List ZoneRecord} (h : RecRepr m zrs) : RecMapTyped m := by
  intro k v hg zr hzr
  rw [h.2 k] at hg
  split at hg
  · cases hg
  · cases hg
    exact (mem_ofType.mp hzr).2

/-- a tree representing an entry list (C02/C12 invariant) is consistently keyed. -/
theorem TreeRepr.typed {root : ZNode} {es : List ZSpec.Entry} (h : TreeRepr root es) : root.Typed := by
  intro p n hd
  have := h.recs p
  simp only [ZNode.baseView, hd, ZNode.view] at this
  refine ⟨recRepr_typed this.1, ?_⟩
  intro ws hws
  have h2 := this.2
  simp only [hws, WildRepr] at h2
  exact recRepr_typed h2.2

/-- `Zones` obtained from `Zones::new()` by `insert_merge` of zones each built by `Zone::new` and
    insertions (what loading zone files and hosts files does). -/
inductive Zones.Configured : Zones → Prop
  | empty : Zones.Configured Zones.empty
  | merge (zs zs' : Zones) (apex : Name) (soa : Option SOA) (ops : List ZoneOp) (o : Zone) :
      Zones.Configured zs → NameOK apex → Zone.build apex soa ops = some o →
      zs.insertMerge o = some zs' → Zones.Configured zs'

theorem Zones.Configured.repr {zs : Zones} (h : Zones.Configured zs) :
    ZonesKeyed zs ∧ ∀ k z, Zones.lookup zs.zones k = some z → ∃ soa es, Zone.Repr z k soa es := by
  induction h with
  | empty => exact ⟨zonesKeyed_empty, by intro k z h; simp [Zones.empty, Zones.lookup] at h⟩
  | merge zs zs' apex soa ops o _ hap hb hm ih =>
    obtain ⟨hk, hr⟩ := ih
    refine ⟨zonesKeyed_insertMerge hk o hm, ?_⟩
    have ho := Zone.repr_build apex soa ops o hap hb
    have hko := Zone.keysNodup_build apex soa ops o hb
    intro k z hl
    unfold Zones.insertMerge at hm
    split at hm
    · rename_i mine hmine
      split at hm
      · rename_i m hmm
        cases hm
        simp only [Zones.lookup_setZone] at hl
        split at hl
        · rename_i hk'
          cases hl
          obtain ⟨s1, es1, hr1⟩ := hr _ _ hmine
          rw [ho.apex_eq] at hr1 hk'
          subst hk'
          exact ⟨_, _, Zone.repr_merge mine o z apex s1 soa es1 _ hr1 ho hko hmm⟩
        · exact hr k z hl
      · cases hm
    · cases hm
      simp only [Zones.insert, Zones.lookup_setZone] at hl
      split at hl
      · rename_i hk'
        cases hl
        rw [ho.apex_eq] at hk'; subst hk'
        exact ⟨_, _, ho⟩
      · exact hr k z hl

/-- (H-zone) holds of every configured `Zones`, merged zones included. -/
theorem Zones.Configured.answersTyped {zs : Zones} (h : Zones.Configured zs) : ZoneAnswersTyped zs := by
  apply zoneAnswersTyped_of_typed
  apply zonesTyped_of_all
  intro k z hl
  obtain ⟨soa, es, hr⟩ := h.repr.2 k z hl
  exact hr.tree.typed

end Resolved
