/-
  What the two local data sources hand to `resolve_local` (C01 / C10):
  * zone lookups: every answer record / CNAME record is owned by the query name (no hypothesis);
    its type is the asked type / CNAME when the record maps are keyed consistently (`ZNode.Typed`);
  * cache lookups: every record is owned by the looked-up name (no hypothesis); its type is the
    asked type under the cache invariant I6 (`CacheTyped`), which cache reads preserve.
-/
import Resolved.Props.C02
import Resolved.Proofs.ResolverLocalLemmas

namespace Resolved

open Gen

/-! ## zones -/

/-- the record sets under key `k` hold records of type `k` (as `insert` / `merge` build them). -/
def RecMapTyped (m : RecMap) : Prop := ∀ k zrs, m.get k = some zrs → ∀ zr ∈ zrs, zr.rtype = k

/-- every node a lookup can reach has consistently keyed record maps. -/
def ZNode.Typed (node : ZNode) : Prop :=
  ∀ p n, node.descend p = some n → RecMapTyped n.this ∧ ∀ ws, n.wildcards = some ws → RecMapTyped ws

/-- where a `resolve` result comes from. -/
theorem ZNode.resolveRev_source (name : Name) (qtype : Nat) : ∀ (r : List Label) (node : ZNode) (isApex : Bool),
    (∃ p n recs nsd cd, node.descend p = some n ∧ (recs = n.this ∨ n.wildcards = some recs) ∧
        node.resolveRev name qtype r isApex = zoneResultHelper name qtype recs nsd cd) ∨
    node.resolveRev name qtype r isApex = .panic ∨
    node.resolveRev name qtype r isApex = .nameError ∨
    ∃ z zs n p, node.descend p = some n ∧ n.this.get RT_NS = some (z :: zs) ∧
      node.resolveRev name qtype r isApex = .delegation ((z :: zs).map (·.toRR n.nsdname)) := by
  intro r
  induction r with
  | nil =>
    intro node isApex
    exact Or.inl ⟨[], node, node.this, node.nsdname, !isApex, rfl, Or.inl rfl, rfl⟩
  | cons lbl rest ih =>
    intro node isApex
    simp only [ZNode.resolveRev]
    cases hc : ZNode.childGet node.children lbl with
    | some child =>
      simp only
      rcases ih child false with ⟨p, n, recs, nsd, cd, hd, hr, he⟩ | h | h | ⟨z, zs, n, p, hd, hg, he⟩
      · exact Or.inl ⟨lbl :: p, n, recs, nsd, cd, by simp [ZNode.descend_cons, hc, hd], hr, he⟩
      · exact Or.inr (Or.inl h)
      · exact Or.inr (Or.inr (Or.inl h))
      · exact Or.inr (Or.inr (Or.inr ⟨z, zs, n, lbl :: p, by simp [ZNode.descend_cons, hc, hd], hg, he⟩))
    | none =>
      simp only
      cases hw : node.wildcards with
      | some ws =>
        simp only
        cases hn : Name.fromLabels (lbl :: node.nsdname.labels) with
        | some nsd => exact Or.inl ⟨[], node, ws, nsd, true, rfl, Or.inr hw, rfl⟩
        | none => exact Or.inr (Or.inl rfl)
      | none =>
        simp only
        cases isApex with
        | true => exact Or.inr (Or.inr (Or.inl rfl))
        | false =>
          simp only [Bool.false_eq_true, if_false]
          split
          · rename_i z zs hg
            exact Or.inr (Or.inr (Or.inr ⟨z, zs, node, [], rfl, hg, rfl⟩))
          · exact Or.inr (Or.inr (Or.inl rfl))

theorem zoneResultHelper_answer_owner {name : Name} {qtype : Nat} {recs : RecMap} {nsd : Name} {cd : Bool}
    {rrs : List RR} (h : zoneResultHelper name qtype recs nsd cd = .answer rrs) :
    ∀ rr ∈ rrs, rr.name = name := by
  intro rr hrr
  obtain ⟨k, zrs, zr, _, _, he, _⟩ := C02_answer_records_are_zone_records name qtype recs nsd cd rrs h rr hrr
  rw [he]; rfl

theorem zoneResultHelper_answer_typed {name : Name} {qtype : Nat} {recs : RecMap} {nsd : Name} {cd : Bool}
    {rrs : List RR} (ht : RecMapTyped recs) (hq : qtype ≠ QTYPE_WILDCARD)
    (h : zoneResultHelper name qtype recs nsd cd = .answer rrs) :
    ∀ rr ∈ rrs, rr.rtype = qtype := by
  rw [zoneResultHelper_eq] at h
  split at h
  · cases h
  · unfold helperData at h
    rcases cnameOf_cases name qtype recs with hc | hc | ⟨z, zs, c, _, _, _, hc⟩ <;> rw [hc] at h <;>
      simp only [reduceCtorEq] at h
    unfold answerOf at h
    rw [lookupNat_qt] at h
    have hq' : ¬ qtype = 255 := hq
    by_cases h1 : qtype = 252
    · simp only [h1, if_true] at h; cases h; simp
    by_cases h2 : qtype = 253
    · subst h2; simp at h; cases h; simp
    by_cases h3 : qtype = 254
    · subst h3; simp at h; cases h; simp
    simp only [h1, h2, h3, hq', if_false] at h
    split at h
    · rename_i zrs hg
      cases h
      intro rr hrr
      simp only [List.mem_map] at hrr
      obtain ⟨zr, hzr, rfl⟩ := hrr
      exact ht qtype zrs hg zr hzr
    · cases h; simp

theorem zoneResultHelper_cname_shape {name : Name} {qtype : Nat} {recs : RecMap} {nsd : Name} {cd : Bool}
    {c : Name} {rr : RR} (h : zoneResultHelper name qtype recs nsd cd = .cname c rr) :
    rr.name = name ∧ rr.fields = [.name c] ∧ (RecMapTyped recs → rr.rtype = RT_CNAME) := by
  obtain ⟨z, zs, hg, hf, he, _⟩ := C02_cname_result_is_first_cname name qtype recs nsd cd c rr h
  subst he
  exact ⟨rfl, hf, fun ht => ht RT_CNAME _ hg z (List.mem_cons_self)⟩

theorem zoneResultHelper_delegation_shape {name : Name} {qtype : Nat} {recs : RecMap} {nsd : Name} {cd : Bool}
    {rrs : List RR} (h : zoneResultHelper name qtype recs nsd cd = .delegation rrs) :
    rrs ≠ [] ∧ ∀ rr ∈ rrs, rr.name = nsd ∧ (RecMapTyped recs → rr.rtype = RT_NS) := by
  obtain ⟨_, _, hne, z, zs, hg, he⟩ := C02_delegation_result_is_ns_set name qtype recs nsd cd rrs h
  refine ⟨hne, ?_⟩
  intro rr hrr
  rw [he] at hrr
  simp only [List.mem_map] at hrr
  obtain ⟨zr, hzr, rfl⟩ := hrr
  exact ⟨rfl, fun ht => ht RT_NS _ hg zr hzr⟩

/-- the shape every zone verdict has: answers and aliases are owned by the query name. -/
structure ZoneResultOwned (name : Name) (zr : ZoneResult) : Prop where
  answer : ∀ rrs, zr = .answer rrs → ∀ rr ∈ rrs, rr.name = name
  cname : ∀ c rr, zr = .cname c rr → rr.name = name ∧ rr.fields = [.name c]
  delegation : ∀ rrs, zr = .delegation rrs → rrs ≠ [] ∧ ∀ rr ∈ rrs, ∀ rr' ∈ rrs, rr.name = rr'.name

/-- … and carry the expected record types when the record maps are keyed consistently. -/
structure ZoneResultTyped (qtype : Nat) (zr : ZoneResult) : Prop where
  answer : ∀ rrs, zr = .answer rrs → qtype ≠ QTYPE_WILDCARD → ∀ rr ∈ rrs, rr.rtype = qtype
  cname : ∀ c rr, zr = .cname c rr → rr.rtype = RT_CNAME
  delegation : ∀ rrs, zr = .delegation rrs → ∀ rr ∈ rrs, rr.rtype = RT_NS

theorem ZNode.resolve_owned (node : ZNode) (name : Name) (qtype : Nat) (rel : List Label) (isApex : Bool) :
    ZoneResultOwned name (node.resolve name qtype rel isApex) := by
  rw [ZNode.resolve_eq_rev]
  rcases ZNode.resolveRev_source name qtype rel.reverse node isApex with
    ⟨p, n, recs, nsd, cd, _, _, he⟩ | h | h | ⟨z, zs, n, p, _, _, he⟩
  · rw [he]
    refine ⟨fun rrs h => zoneResultHelper_answer_owner h, fun c rr h => ?_, fun rrs h => ?_⟩
    · exact ⟨(zoneResultHelper_cname_shape h).1, (zoneResultHelper_cname_shape h).2.1⟩
    · obtain ⟨h1, h2⟩ := zoneResultHelper_delegation_shape h
      exact ⟨h1, fun rr hrr rr' hrr' => (h2 rr hrr).1.trans (h2 rr' hrr').1.symm⟩
  · rw [h]; exact ⟨fun _ h => (by cases h), fun _ _ h => (by cases h), fun _ h => (by cases h)⟩
  · rw [h]; exact ⟨fun _ h => (by cases h), fun _ _ h => (by cases h), fun _ h => (by cases h)⟩
  · rw [he]
    refine ⟨fun _ h => (by cases h), fun _ _ h => (by cases h), fun rrs h => ?_⟩
    cases h
    refine ⟨by simp, ?_⟩
    intro rr hrr rr' hrr'
    simp only [List.mem_map] at hrr hrr'
    obtain ⟨a, _, rfl⟩ := hrr
    obtain ⟨b, _, rfl⟩ := hrr'
    rfl

theorem ZNode.resolve_typed (node : ZNode) (ht : node.Typed) (name : Name) (qtype : Nat) (rel : List Label)
    (isApex : Bool) : ZoneResultTyped qtype (node.resolve name qtype rel isApex) := by
  rw [ZNode.resolve_eq_rev]
  rcases ZNode.resolveRev_source name qtype rel.reverse node isApex with
    ⟨p, n, recs, nsd, cd, hd, hr, he⟩ | h | h | ⟨z, zs, n, p, hd, hg, he⟩
  · rw [he]
    have hrt : RecMapTyped recs := by
      rcases hr with hr | hr
      · rw [hr]; exact (ht p n hd).1
      · exact (ht p n hd).2 recs hr
    refine ⟨fun rrs h hq => zoneResultHelper_answer_typed hrt hq h, fun c rr h => ?_, fun rrs h => ?_⟩
    · exact (zoneResultHelper_cname_shape h).2.2 hrt
    · intro rr hrr
      exact ((zoneResultHelper_delegation_shape h).2 rr hrr).2 hrt
  · rw [h]; exact ⟨fun _ h => (by cases h), fun _ _ h => (by cases h), fun _ h => (by cases h)⟩
  · rw [h]; exact ⟨fun _ h => (by cases h), fun _ _ h => (by cases h), fun _ h => (by cases h)⟩
  · rw [he]
    refine ⟨fun _ h => (by cases h), fun _ _ h => (by cases h), fun rrs h => ?_⟩
    cases h
    intro rr hrr
    simp only [List.mem_map] at hrr
    obtain ⟨a, ha, rfl⟩ := hrr
    exact (ht p n hd).1 RT_NS _ hg a ha

/-- every zone a lookup can select is consistently keyed. -/
def ZonesTyped (zs : Zones) : Prop := ∀ name z, zs.get name = some z → z.records.Typed

/-- (H-zone, semantic form) what `C10_local_chain` needs of the zones: answers carry records of the
    asked type, alias verdicts carry a CNAME record, referrals NS records. -/
def ZoneAnswersTyped (zs : Zones) : Prop :=
  ∀ name qtype z zr, zs.resolve name qtype = some (z, some zr) → ZoneResultTyped qtype zr

theorem Zones.resolve_some {zs : Zones} {name : Name} {qtype : Nat} {z : Zone} {zr : ZoneResult}
    (h : zs.resolve name qtype = some (z, some zr)) :
    zs.get name = some z ∧ ∃ rel, z.relativeDomain name = some rel ∧
      zr = z.records.resolve name qtype rel true := by
  unfold Zones.resolve at h
  cases hg : zs.get name with
  | none => simp [hg] at h
  | some z' =>
    simp only [hg, Option.map_some, Option.some.injEq, Prod.mk.injEq] at h
    obtain ⟨h1, h2⟩ := h
    subst h1
    unfold Zone.resolve at h2
    cases hr : z'.relativeDomain name with
    | none => simp [hr] at h2
    | some rel =>
      simp only [hr, Option.map_some, Option.some.injEq] at h2
      exact ⟨rfl, rel, rfl, h2.symm⟩

/-- zone verdicts are about the query name — no hypothesis on the zones. -/
theorem Zones.resolve_owned {zs : Zones} {name : Name} {qtype : Nat} {z : Zone} {zr : ZoneResult}
    (h : zs.resolve name qtype = some (z, some zr)) : ZoneResultOwned name zr := by
  obtain ⟨_, rel, _, he⟩ := Zones.resolve_some h
  rw [he]; exact ZNode.resolve_owned _ _ _ _ _

/-- (H-zone) follows from the structural invariant. -/
theorem zoneAnswersTyped_of_typed {zs : Zones} (h : ZonesTyped zs) : ZoneAnswersTyped zs := by
  intro name qtype z zr hz
  obtain ⟨hg, rel, _, he⟩ := Zones.resolve_some hz
  rw [he]; exact ZNode.resolve_typed _ (h name z hg) _ _ _ _

/-! ## cache -/

/-- cache invariant I6: the tuples stored under record key `rk` hold records of type `rk`. -/
def CacheTyped (c : PCache) : Prop :=
  ∀ k p, PCache.getPartition c.partitions k = some p →
    ∀ rk ts, PCache.getTuples p.records rk = some ts → ∀ t ∈ ts, t.1.rtype = rk

theorem PCache.getPartition_setPartition (ps : List (Name × Partition)) (k : Name) (p : Partition) (k2 : Name) :
    PCache.getPartition (PCache.setPartition ps k p) k2 =
      if k = k2 then some p else PCache.getPartition ps k2 := by
  induction ps with
  | nil => simp [PCache.setPartition, PCache.getPartition]
  | cons kv rest ih =>
    obtain ⟨k', p'⟩ := kv
    simp only [PCache.setPartition]
    split
    · rename_i hk
      subst hk
      simp only [PCache.getPartition]
      split <;> rfl
    · rename_i hk
      simp only [PCache.getPartition, ih]
      by_cases h1 : k' = k2
      · subst h1; simp; intro h; exact absurd h.symm hk
      · simp [h1]

theorem cacheTyped_new (n : Nat) : CacheTyped (PCache.new n) := by
  intro k p h; simp [PCache.new, PCache.getPartition] at h

/-- touching `last_read` of a partition keeps I6. -/
theorem cacheTyped_touch {c : PCache} (h : CacheTyped c) (k : Name) (p : Partition) (now : Nat)
    (aq : PQ) (hp : PCache.getPartition c.partitions k = some p) :
    CacheTyped { c with partitions := PCache.setPartition c.partitions k { p with lastRead := now }
                        accessPriority := aq } := by
  intro k2 p2 h2
  simp only [PCache.getPartition_setPartition] at h2
  split at h2
  · cases h2; exact h k p hp
  · exact h k2 p2 h2

theorem getTouch_typed {c : PCache} (h : CacheTyped c) (k : Name) (rk now : Nat) :
    CacheTyped (c.getTouch k rk now).1 ∧
      ∀ ts, (c.getTouch k rk now).2 = some ts → ∀ t ∈ ts, t.1.rtype = rk := by
  unfold PCache.getTouch
  cases hp : PCache.getPartition c.partitions k with
  | none => exact ⟨h, fun ts hts => by cases hts⟩
  | some p =>
    simp only
    cases ht : PCache.getTuples p.records rk with
    | none => exact ⟨h, fun ts hts => by cases hts⟩
    | some ts =>
      refine ⟨cacheTyped_touch h k p now _ hp, ?_⟩
      intro ts' hts'
      cases hts'
      exact h k p hp rk ts ht

theorem getPartitionTouch_typed {c : PCache} (h : CacheTyped c) (k : Name) (now : Nat) :
    CacheTyped (c.getPartitionTouch k now).1 := by
  unfold PCache.getPartitionTouch
  cases hp : PCache.getPartition c.partitions k with
  | none => exact h
  | some p => exact cacheTyped_touch h k p now _ hp

theorem toRRs_name (name : Name) (now : Nat) (ts : Tuples) : ∀ rr ∈ toRRs name now ts, rr.name = name := by
  intro rr hrr
  simp only [toRRs, List.mem_map] at hrr
  obtain ⟨t, _, rfl⟩ := hrr; rfl

theorem toRRs_rtype (name : Name) (now : Nat) (ts : Tuples) (rk : Nat) (h : ∀ t ∈ ts, t.1.rtype = rk) :
    ∀ rr ∈ toRRs name now ts, rr.rtype = rk := by
  intro rr hrr
  simp only [toRRs, List.mem_map] at hrr
  obtain ⟨t, ht, rfl⟩ := hrr; exact h t ht

/-- a cache read returns records owned by the looked-up name — no hypothesis. -/
theorem cacheGet_owner (c : PCache) (name : Name) (qtype now : Nat) :
    ∀ rr ∈ (cacheGet c name qtype now).2, rr.name = name := by
  intro rr hrr
  simp only [cacheGet, List.mem_filter] at hrr
  have hrr := hrr.1
  unfold cacheGetUnchecked at hrr
  split at hrr
  · split at hrr
    · simp only [List.mem_flatMap] at hrr
      obtain ⟨r, _, hr⟩ := hrr
      exact toRRs_name _ _ _ rr hr
    · simp at hrr
  · simp at hrr
  · split at hrr
    · exact toRRs_name _ _ _ rr hrr
    · simp at hrr

/-- (H-cache) under I6 a cache read for a non-ANY type returns records of exactly that type,
    and I6 still holds afterwards. -/
theorem cacheGet_typed {c : PCache} (h : CacheTyped c) (name : Name) (qtype now : Nat) :
    CacheTyped (cacheGet c name qtype now).1 ∧
      (qtype ≠ QTYPE_WILDCARD → ∀ rr ∈ (cacheGet c name qtype now).2, rr.rtype = qtype) := by
  simp only [cacheGet]
  unfold cacheGetUnchecked
  rw [lookupNat_qt]
  by_cases h1 : qtype = 252
  · subst h1; exact ⟨h, fun _ rr hrr => by simp at hrr⟩
  by_cases h2 : qtype = 253
  · subst h2; exact ⟨h, fun _ rr hrr => by simp at hrr⟩
  by_cases h3 : qtype = 254
  · subst h3; exact ⟨h, fun _ rr hrr => by simp at hrr⟩
  by_cases h4 : qtype = 255
  · subst h4
    simp only [h1, h2, h3, if_false, if_true]
    refine ⟨?_, fun hq => absurd rfl hq⟩
    have := getPartitionTouch_typed h name now
    split <;> rename_i he <;> rw [he] at this <;> exact this
  · simp only [h1, h2, h3, h4, if_false]
    obtain ⟨ht1, ht2⟩ := getTouch_typed h name qtype now
    split
    · rename_i c' ts he
      rw [he] at ht1 ht2
      refine ⟨ht1, fun _ rr hrr => ?_⟩
      simp only [List.mem_filter] at hrr
      exact toRRs_rtype _ _ _ _ (ht2 ts rfl) rr hrr.1
    · rename_i c' he
      rw [he] at ht1
      exact ⟨ht1, fun _ rr hrr => by simp at hrr⟩

theorem Ctx.cacheGet_fst_cache (c : Ctx) (name : Name) (qtype : Nat) :
    (c.cacheGet name qtype).1.cache = (Resolved.cacheGet c.cache name qtype c.now).1 := rfl

theorem Ctx.cacheGet_snd (c : Ctx) (name : Name) (qtype : Nat) :
    (c.cacheGet name qtype).2 = (Resolved.cacheGet c.cache name qtype c.now).2 := rfl

end Resolved
