/-
  Lemmas about the upstream-reply filter model (`Resolved/Model/Upstream.lean`):
  the `getBetterNsNames` fold invariant and the branch structure of
  `validateNameserverResponse`.
-/
import Resolved.Spec.UpstreamSpec

namespace Resolved

/-- generic fold invariant. -/
theorem foldl_inv {α β : Type} {f : β → α → β} {P : β → Prop} (l : List α) (init : β)
    (h0 : P init) (hstep : ∀ s x, x ∈ l → P s → P (f s x)) : P (l.foldl f init) := by
  induction l generalizing init with
  | nil => exact h0
  | cons a l ih =>
    simp only [List.foldl_cons]
    apply ih
    · exact hstep _ _ (List.mem_cons_self) h0
    · intro s x hx hs
      exact hstep s x (List.mem_cons_of_mem _ hx) hs

/-- fold invariant that also knows the processed prefix. -/
theorem foldl_inv_prefix {α β : Type} {f : β → α → β} {P : List α → β → Prop} (l : List α) (init : β)
    (h0 : P [] init) (hstep : ∀ pre s x, P pre s → P (pre ++ [x]) (f s x)) :
    P l (l.foldl f init) := by
  suffices h : ∀ pre s, P pre s → P (pre ++ l) (l.foldl f s) by simpa using h [] init h0
  induction l with
  | nil => intro pre s h; simpa using h
  | cons a l ih =>
    intro pre s h
    have := ih (pre ++ [a]) (f s a) (hstep pre s a h)
    simpa using this

/-! ### insertSet -/

theorem mem_insertSet {s : List Name} {n x : Name} : x ∈ insertSet s n ↔ x ∈ s ∨ x = n := by
  unfold insertSet
  split
  · rename_i h
    have hn : n ∈ s := by simpa using h
    constructor
    · exact Or.inl
    · rintro (h | h)
      · exact h
      · exact h ▸ hn
  · simp

theorem insertSet_ne_nil (s : List Name) (n : Name) : insertSet s n ≠ [] := by
  intro h
  have : n ∈ insertSet s n := mem_insertSet.mpr (Or.inr rfl)
  rw [h] at this
  cases this

theorem mem_foldl_insertSet {s l : List Name} {x : Name} :
    x ∈ l.foldl insertSet s ↔ x ∈ s ∨ x ∈ l := by
  induction l generalizing s with
  | nil => simp
  | cons a l ih =>
    simp only [List.foldl_cons, ih, mem_insertSet, List.mem_cons]
    constructor
    · rintro ((h | h) | h)
      · exact Or.inl h
      · exact Or.inr (Or.inl h)
      · exact Or.inr (Or.inr h)
    · rintro (h | h | h)
      · exact Or.inl (Or.inl h)
      · exact Or.inl (Or.inr h)
      · exact Or.inr h

/-! ### getBetterNsNames -/

/-- the loop body of `getBetterNsNames`. -/
def gbStep (target : Name) (st : List Name × Nat × Option Name) (rr : RR) : List Name × Nat × Option Name :=
  match nsTarget rr with
  | some nsdname =>
    if target.isSubdomainOf rr.name then
      if rr.name.labels.length > st.2.1 then ([nsdname], rr.name.labels.length, some rr.name)
      else if rr.name.labels.length = st.2.1 then (insertSet st.1 nsdname, st.2.1, st.2.2)
      else st
    else st
  | none => st

theorem getBetterNsNames_eq (rrs : List RR) (target : Name) (mc : Nat) :
    getBetterNsNames rrs target mc =
      (rrs.foldl (gbStep target) ([], mc, none)).2.2.map
        (fun mn => (mn, (rrs.foldl (gbStep target) ([], mc, none)).1)) := by
  rfl

/-- a record that is an NS candidate for `target`. -/
def IsCand (target : Name) (rr : RR) : Prop :=
  (nsTarget rr).isSome = true ∧ target.isSubdomainOf rr.name = true

/-- invariant of the `getBetterNsNames` loop after the records `pre`. -/
structure GbInv (target : Name) (mc : Nat) (pre : List RR) (st : List Name × Nat × Option Name) : Prop where
  ge : mc ≤ st.2.1
  /-- no candidate seen so far is deeper than the counter -/
  maxd : ∀ rr ∈ pre, IsCand target rr → rr.name.labels.length ≤ st.2.1
  none_case : st.2.2 = none → st.2.1 = mc
  /-- the match name is the owner of the first candidate of maximal depth, deeper than `mc` -/
  some_case : ∀ mn, st.2.2 = some mn →
    mn.labels.length = st.2.1 ∧ mc < st.2.1 ∧ target.isSubdomainOf mn = true ∧ st.1 ≠ [] ∧
    (∃ pre1 rr pre2, pre = pre1 ++ rr :: pre2 ∧ rr.name = mn ∧ IsCand target rr ∧
        ∀ r ∈ pre1, IsCand target r → r.name.labels.length < st.2.1)
  /-- the host set is exactly the targets of the candidates at the counter's depth -/
  hosts : ∀ n, n ∈ st.1 ↔
    ∃ rr ∈ pre, nsTarget rr = some n ∧ target.isSubdomainOf rr.name = true ∧
      rr.name.labels.length = st.2.1

theorem gbInv_init (target : Name) (mc : Nat) : GbInv target mc [] ([], mc, none) where
  ge := Nat.le_refl _
  maxd := by intro rr h; cases h
  none_case := fun _ => rfl
  some_case := by intro mn h; cases h
  hosts := by
    intro n
    constructor
    · intro h; cases h
    · rintro ⟨rr, h, _⟩; cases h

theorem gbInv_skip {target : Name} {mc : Nat} {pre : List RR} {st : List Name × Nat × Option Name}
    (x : RR) (inv : GbInv target mc pre st)
    (hx : IsCand target x → x.name.labels.length < st.2.1) : GbInv target mc (pre ++ [x]) st where
  ge := inv.ge
  maxd := by
    intro rr hrr hc
    rcases List.mem_append.mp hrr with h | h
    · exact inv.maxd rr h hc
    · have : rr = x := by simpa using h
      subst this
      exact Nat.le_of_lt (hx hc)
  none_case := inv.none_case
  some_case := by
    intro mn hmn
    obtain ⟨h1, h2, h3, h4, pre1, rr, pre2, hp, hn, hc, hlt⟩ := inv.some_case mn hmn
    refine ⟨h1, h2, h3, h4, pre1, rr, pre2 ++ [x], ?_, hn, hc, hlt⟩
    simp [hp]
  hosts := by
    intro n
    rw [inv.hosts n]
    constructor
    · rintro ⟨rr, hrr, h⟩
      exact ⟨rr, List.mem_append_left _ hrr, h⟩
    · rintro ⟨rr, hrr, h1, h2, h3⟩
      rcases List.mem_append.mp hrr with h | h
      · exact ⟨rr, h, h1, h2, h3⟩
      · have : rr = x := by simpa using h
        subst this
        have := hx ⟨by simp [h1], h2⟩
        omega

theorem gbInv_step {target : Name} {mc : Nat} (pre : List RR) (st : List Name × Nat × Option Name)
    (x : RR) (inv : GbInv target mc pre st) : GbInv target mc (pre ++ [x]) (gbStep target st x) := by
  unfold gbStep
  split
  · rename_i n hn
    split
    · rename_i hsub
      split
      · -- strictly deeper: restart
        rename_i hgt
        refine ⟨?_, ?_, ?_, ?_, ?_⟩
        · have := inv.ge; simp only; omega
        · intro rr hrr hc
          rcases List.mem_append.mp hrr with h | h
          · have := inv.maxd rr h hc; simp only; omega
          · have : rr = x := by simpa using h
            subst this; exact Nat.le_refl _
        · intro h; cases h
        · intro mn hmn
          have hmn' : x.name = mn := by simpa using hmn
          subst hmn'
          refine ⟨rfl, ?_, hsub, by simp, pre, x, [], rfl, rfl, ⟨by simp [hn], hsub⟩, ?_⟩
          · have := inv.ge; simp only; omega
          · intro r hr hc
            have := inv.maxd r hr hc; simp only; omega
        · intro m
          constructor
          · intro hm
            have : m = n := by simpa using hm
            subst this
            exact ⟨x, by simp, hn, hsub, rfl⟩
          · rintro ⟨rr, hrr, h1, h2, h3⟩
            rcases List.mem_append.mp hrr with h | h
            · have := inv.maxd rr h ⟨by simp [h1], h2⟩
              simp only at h3; omega
            · have : rr = x := by simpa using h
              subst this
              rw [hn] at h1
              cases h1; simp
      · split
        · -- same depth: add the host
          rename_i hngt heq
          refine ⟨inv.ge, ?_, inv.none_case, ?_, ?_⟩
          · intro rr hrr hc
            rcases List.mem_append.mp hrr with h | h
            · exact inv.maxd rr h hc
            · have : rr = x := by simpa using h
              subst this; simp only; omega
          · intro mn hmn
            obtain ⟨h1, h2, h3, _, pre1, rr, pre2, hp, hnm, hc, hlt⟩ := inv.some_case mn hmn
            refine ⟨h1, h2, h3, insertSet_ne_nil _ _, pre1, rr, pre2 ++ [x], ?_, hnm, hc, hlt⟩
            simp [hp]
          · intro m
            simp only [mem_insertSet, inv.hosts m]
            constructor
            · rintro (⟨rr, hrr, h⟩ | h)
              · exact ⟨rr, List.mem_append_left _ hrr, h⟩
              · subst h
                exact ⟨x, by simp, hn, hsub, heq⟩
            · rintro ⟨rr, hrr, h1, h2, h3⟩
              rcases List.mem_append.mp hrr with h | h
              · exact Or.inl ⟨rr, h, h1, h2, h3⟩
              · have : rr = x := by simpa using h
                subst this
                rw [hn] at h1
                cases h1; exact Or.inr rfl
        · rename_i hngt hne
          exact gbInv_skip x inv (fun _ => by omega)
    · rename_i hsub
      exact gbInv_skip x inv (fun hc => absurd hc.2 hsub)
  · rename_i hn
    exact gbInv_skip x inv (fun hc => by have := hc.1; rw [hn] at this; cases this)

theorem gbInv_fold (rrs : List RR) (target : Name) (mc : Nat) :
    GbInv target mc rrs (rrs.foldl (gbStep target) ([], mc, none)) :=
  foldl_inv_prefix (P := GbInv target mc) rrs _ (gbInv_init target mc)
    (fun pre s x h => gbInv_step pre s x h)

/-- the candidates of `rrs` (NS records enclosing `target`) deeper than `mc`. -/
theorem getBetterNsNames_some {rrs : List RR} {target : Name} {mc : Nat} {mn : Name} {ns : List Name}
    (h : getBetterNsNames rrs target mc = some (mn, ns)) :
    mc < mn.labels.length ∧ target.isSubdomainOf mn = true ∧ ns ≠ [] ∧
    (∀ rr ∈ rrs, IsCand target rr → rr.name.labels.length ≤ mn.labels.length) ∧
    (∃ pre1 rr pre2, rrs = pre1 ++ rr :: pre2 ∧ rr.name = mn ∧ IsCand target rr ∧
        ∀ r ∈ pre1, IsCand target r → r.name.labels.length < mn.labels.length) ∧
    (∀ n, n ∈ ns ↔ ∃ rr ∈ rrs, nsTarget rr = some n ∧ target.isSubdomainOf rr.name = true ∧
        rr.name.labels.length = mn.labels.length) := by
  rw [getBetterNsNames_eq] at h
  have inv := gbInv_fold rrs target mc
  generalize rrs.foldl (gbStep target) ([], mc, none) = st at h inv
  obtain ⟨ns', cnt, mn'⟩ := st
  simp only [Option.map_eq_some_iff] at h
  obtain ⟨m, hm, heq⟩ := h
  cases heq
  obtain ⟨h1, h2, h3, h4, h5⟩ := inv.some_case mn hm
  simp only at h1 h2 h3 h4 h5
  subst h1
  exact ⟨h2, h3, h4, inv.maxd, h5, inv.hosts⟩

theorem getBetterNsNames_none {rrs : List RR} {target : Name} {mc : Nat}
    (h : getBetterNsNames rrs target mc = none) :
    ∀ rr ∈ rrs, IsCand target rr → rr.name.labels.length ≤ mc := by
  rw [getBetterNsNames_eq] at h
  have inv := gbInv_fold rrs target mc
  generalize rrs.foldl (gbStep target) ([], mc, none) = st at h inv
  obtain ⟨ns', cnt, mn'⟩ := st
  simp only [Option.map_eq_none_iff] at h
  have := inv.none_case h
  simp only at this
  subst this
  exact inv.maxd

/-! ### the shape of `validateNameserverResponse` -/

/-- how the results of the answer and authority sections are combined. -/
def chooseNs (a b : Option (Name × List Name)) : Option (Name × List Name) :=
  match a, b with
  | some (mn1, nss1), some (mn2, nss2) =>
    if mn1.labels.length > mn2.labels.length then some (mn1, nss1)
    else if mn1.labels.length = mn2.labels.length then some (mn1, nss2.foldl insertSet nss1)
    else some (mn2, nss2)
  | some x, none => some x
  | none, some x => some x
  | none, none => none

def isNsOf (matchName : Name) (nsNames : List Name) (rr : RR) : Bool :=
  match nsTarget rr with
  | some t => rr.name == matchName && nsNames.contains t
  | none => false

def isGlueOf (nsNames : List Name) (rr : RR) : Bool :=
  (rr.rtype == RT_A || rr.rtype == RT_AAAA) && nsNames.contains rr.name

def delegRrs (resp : Message) (mn : Name) (ns : List Name) : List RR :=
  resp.answers.filter (fun rr => isNsOf mn ns rr || isGlueOf ns rr)
    ++ resp.authority.filter (isNsOf mn ns)
    ++ resp.additional.filter (isGlueOf ns)

def ansKeep (q : Question) (fin : Name) (cm : NameMap) (an : RR) : Bool :=
  (rtypeMatches an.rtype q.qtype && an.name == fin) ||
  (match cnameTarget an with
   | some t => nmGet cm an.name == some t
   | none => false)

def knownOf (resp : Message) : List RR := resp.answers.filter (fun an => !rrIsUnknown an)

theorem validate_eq (q : Question) (resp : Message) (mc : Nat) :
    validateNameserverResponse q resp mc =
      match followCnames resp.answers q.name q.qtype with
      | some (fin, cm) =>
        if (knownOf resp).isEmpty then none
        else if ((knownOf resp).filter (ansKeep q fin cm)).isEmpty then none
        else if (knownOf resp).any (fun an => rtypeMatches an.rtype q.qtype && an.name == fin) then
          some (.answer ((knownOf resp).filter (ansKeep q fin cm)) none)
        else some (.cname ((knownOf resp).filter (ansKeep q fin cm)) fin)
      | none =>
        match chooseNs (getBetterNsNames resp.answers q.name mc) (getBetterNsNames resp.authority q.name mc) with
        | none => (getNxdomainNodataSoa q resp mc).map (fun soa => .answer [] (some soa))
        | some (mn, ns) => some (.delegation (delegRrs resp mn ns) ns mn) := by
  rfl

/-- what `getBetterNsNames` (and the combination of two runs) computes over the records `rrs`. -/
structure GbSpec (rrs : List RR) (target : Name) (mc : Nat) (mn : Name) (ns : List Name) : Prop where
  closer : mc < mn.labels.length
  sub : target.isSubdomainOf mn = true
  ne : ns ≠ []
  maxd : ∀ rr ∈ rrs, IsCand target rr → rr.name.labels.length ≤ mn.labels.length
  first : ∃ pre1 rr pre2, rrs = pre1 ++ rr :: pre2 ∧ rr.name = mn ∧ IsCand target rr ∧
        ∀ r ∈ pre1, IsCand target r → r.name.labels.length < mn.labels.length
  hosts : ∀ n, n ∈ ns ↔ ∃ rr ∈ rrs, nsTarget rr = some n ∧ target.isSubdomainOf rr.name = true ∧
        rr.name.labels.length = mn.labels.length

theorem getBetterNsNames_spec {rrs : List RR} {target : Name} {mc : Nat} {mn : Name} {ns : List Name}
    (h : getBetterNsNames rrs target mc = some (mn, ns)) : GbSpec rrs target mc mn ns := by
  obtain ⟨h1, h2, h3, h4, h5, h6⟩ := getBetterNsNames_some h
  exact ⟨h1, h2, h3, h4, h5, h6⟩

theorem chooseNs_none {l1 l2 : List RR} {target : Name} {mc : Nat}
    (h : chooseNs (getBetterNsNames l1 target mc) (getBetterNsNames l2 target mc) = none) :
    ∀ rr ∈ l1 ++ l2, IsCand target rr → rr.name.labels.length ≤ mc := by
  unfold chooseNs at h
  split at h
  · split at h
    · cases h
    · split at h <;> cases h
  · cases h
  · cases h
  · rename_i h1 h2
    intro rr hrr hc
    rcases List.mem_append.mp hrr with hm | hm
    · exact getBetterNsNames_none h1 rr hm hc
    · exact getBetterNsNames_none h2 rr hm hc

theorem chooseNs_spec {l1 l2 : List RR} {target : Name} {mc : Nat} {mn : Name} {ns : List Name}
    (h : chooseNs (getBetterNsNames l1 target mc) (getBetterNsNames l2 target mc) = some (mn, ns)) :
    GbSpec (l1 ++ l2) target mc mn ns := by
  unfold chooseNs at h
  split at h
  · rename_i mn1 nss1 mn2 nss2 h1 h2
    have s1 := getBetterNsNames_spec h1
    have s2 := getBetterNsNames_spec h2
    split at h
    · -- answers strictly deeper
      rename_i hgt
      cases h
      obtain ⟨pre1, rr, pre2, hp, hn, hc, hlt⟩ := s1.first
      refine ⟨s1.closer, s1.sub, s1.ne, ?_, ⟨pre1, rr, pre2 ++ l2, by simp [hp], hn, hc, hlt⟩, ?_⟩
      · intro r hr hc
        rcases List.mem_append.mp hr with hm | hm
        · exact s1.maxd r hm hc
        · have := s2.maxd r hm hc; omega
      · intro n
        rw [s1.hosts n]
        constructor
        · rintro ⟨r, hr, h⟩
          exact ⟨r, List.mem_append_left _ hr, h⟩
        · rintro ⟨r, hr, h1, h2, h3⟩
          rcases List.mem_append.mp hr with hm | hm
          · exact ⟨r, hm, h1, h2, h3⟩
          · have := s2.maxd r hm ⟨by simp [h1], h2⟩; omega
    · split at h
      · -- same depth: union of the host sets
        rename_i hngt heq
        cases h
        obtain ⟨pre1, rr, pre2, hp, hn, hc, hlt⟩ := s1.first
        refine ⟨s1.closer, s1.sub, ?_, ?_, ⟨pre1, rr, pre2 ++ l2, by simp [hp], hn, hc, hlt⟩, ?_⟩
        · intro hnil
          obtain ⟨x, hx⟩ := List.exists_mem_of_ne_nil _ s1.ne
          have : x ∈ List.foldl insertSet nss1 nss2 := mem_foldl_insertSet.mpr (Or.inl hx)
          rw [hnil] at this
          cases this
        · intro r hr hc
          rcases List.mem_append.mp hr with hm | hm
          · exact s1.maxd r hm hc
          · have := s2.maxd r hm hc; omega
        · intro n
          rw [mem_foldl_insertSet, s1.hosts n, s2.hosts n]
          constructor
          · rintro (⟨r, hr, h⟩ | ⟨r, hr, h1, h2, h3⟩)
            · exact ⟨r, List.mem_append_left _ hr, h⟩
            · exact ⟨r, List.mem_append_right _ hr, h1, h2, by omega⟩
          · rintro ⟨r, hr, h1, h2, h3⟩
            rcases List.mem_append.mp hr with hm | hm
            · exact Or.inl ⟨r, hm, h1, h2, h3⟩
            · exact Or.inr ⟨r, hm, h1, h2, by omega⟩
      · -- authority strictly deeper
        rename_i hngt hne
        cases h
        obtain ⟨pre1, rr, pre2, hp, hn, hc, hlt⟩ := s2.first
        refine ⟨s2.closer, s2.sub, s2.ne, ?_, ⟨l1 ++ pre1, rr, pre2, by simp [hp], hn, hc, ?_⟩, ?_⟩
        · intro r hr hc
          rcases List.mem_append.mp hr with hm | hm
          · have := s1.maxd r hm hc; omega
          · exact s2.maxd r hm hc
        · intro r hr hc
          rcases List.mem_append.mp hr with hm | hm
          · have := s1.maxd r hm hc; omega
          · exact hlt r hm hc
        · intro n
          rw [s2.hosts n]
          constructor
          · rintro ⟨r, hr, h⟩
            exact ⟨r, List.mem_append_right _ hr, h⟩
          · rintro ⟨r, hr, h1, h2, h3⟩
            rcases List.mem_append.mp hr with hm | hm
            · have := s1.maxd r hm ⟨by simp [h1], h2⟩; omega
            · exact ⟨r, hm, h1, h2, h3⟩
  · -- only the answer section has candidates
    rename_i x h1 h2
    cases h
    have s1 := getBetterNsNames_spec h1
    have n2 := getBetterNsNames_none h2
    obtain ⟨pre1, rr, pre2, hp, hn, hc, hlt⟩ := s1.first
    refine ⟨s1.closer, s1.sub, s1.ne, ?_, ⟨pre1, rr, pre2 ++ l2, by simp [hp], hn, hc, hlt⟩, ?_⟩
    · intro r hr hc
      rcases List.mem_append.mp hr with hm | hm
      · exact s1.maxd r hm hc
      · have := n2 r hm hc; have := s1.closer; omega
    · intro n
      rw [s1.hosts n]
      constructor
      · rintro ⟨r, hr, h⟩
        exact ⟨r, List.mem_append_left _ hr, h⟩
      · rintro ⟨r, hr, h1, h2, h3⟩
        rcases List.mem_append.mp hr with hm | hm
        · exact ⟨r, hm, h1, h2, h3⟩
        · have := n2 r hm ⟨by simp [h1], h2⟩; have := s1.closer; omega
  · -- only the authority section has candidates
    rename_i x h1 h2
    cases h
    have s2 := getBetterNsNames_spec h2
    have n1 := getBetterNsNames_none h1
    obtain ⟨pre1, rr, pre2, hp, hn, hc, hlt⟩ := s2.first
    refine ⟨s2.closer, s2.sub, s2.ne, ?_, ⟨l1 ++ pre1, rr, pre2, by simp [hp], hn, hc, ?_⟩, ?_⟩
    · intro r hr hc
      rcases List.mem_append.mp hr with hm | hm
      · have := n1 r hm hc; have := s2.closer; omega
      · exact s2.maxd r hm hc
    · intro r hr hc
      rcases List.mem_append.mp hr with hm | hm
      · have := n1 r hm hc; have := s2.closer; omega
      · exact hlt r hm hc
    · intro n
      rw [s2.hosts n]
      constructor
      · rintro ⟨r, hr, h⟩
        exact ⟨r, List.mem_append_right _ hr, h⟩
      · rintro ⟨r, hr, h1, h2, h3⟩
        rcases List.mem_append.mp hr with hm | hm
        · have := n1 r hm ⟨by simp [h1], h2⟩; have := s2.closer; omega
        · exact ⟨r, hm, h1, h2, h3⟩
  · cases h

/-! ### inversion of the result constructors -/

theorem validate_delegation {q : Question} {resp : Message} {mc : Nat} {rrs : List RR} {hs : List Name}
    {name : Name} (h : validateNameserverResponse q resp mc = some (.delegation rrs hs name)) :
    followCnames resp.answers q.name q.qtype = none ∧
    chooseNs (getBetterNsNames resp.answers q.name mc) (getBetterNsNames resp.authority q.name mc)
      = some (name, hs) ∧
    rrs = delegRrs resp name hs := by
  rw [validate_eq] at h
  split at h
  · split at h
    · cases h
    · split at h
      · cases h
      · split at h <;> cases h
  · rename_i hf
    split at h
    · simp only [Option.map_eq_some_iff] at h
      obtain ⟨_, _, h⟩ := h
      cases h
    · rename_i mn ns hc
      cases h
      exact ⟨hf, hc, rfl⟩

theorem validate_answer {q : Question} {resp : Message} {mc : Nat} {rrs : List RR}
    (h : validateNameserverResponse q resp mc = some (.answer rrs none)) :
    ∃ fin cm, followCnames resp.answers q.name q.qtype = some (fin, cm) ∧
      rrs = (knownOf resp).filter (ansKeep q fin cm) ∧ rrs ≠ [] ∧
      (knownOf resp).any (fun an => rtypeMatches an.rtype q.qtype && an.name == fin) = true := by
  rw [validate_eq] at h
  split at h
  · rename_i fin cm hf
    split at h
    · cases h
    · split at h
      · cases h
      · rename_i hne
        split at h
        · rename_i hany
          cases h
          refine ⟨fin, cm, hf, rfl, ?_, hany⟩
          intro h0; rw [h0] at hne; exact hne rfl
        · cases h
  · split at h
    · simp only [Option.map_eq_some_iff] at h
      obtain ⟨_, _, h⟩ := h
      cases h
    · cases h

theorem validate_cname {q : Question} {resp : Message} {mc : Nat} {rrs : List RR} {c : Name}
    (h : validateNameserverResponse q resp mc = some (.cname rrs c)) :
    ∃ cm, followCnames resp.answers q.name q.qtype = some (c, cm) ∧
      rrs = (knownOf resp).filter (ansKeep q c cm) ∧ rrs ≠ [] ∧
      (knownOf resp).any (fun an => rtypeMatches an.rtype q.qtype && an.name == c) = false := by
  rw [validate_eq] at h
  split at h
  · rename_i fin cm hf
    split at h
    · cases h
    · split at h
      · cases h
      · rename_i hne
        split at h
        · cases h
        · rename_i hany
          cases h
          refine ⟨cm, hf, rfl, ?_, by simpa using hany⟩
          intro h0; rw [h0] at hne; exact hne rfl
  · split at h
    · simp only [Option.map_eq_some_iff] at h
      obtain ⟨_, _, h⟩ := h
      cases h
    · cases h

theorem validate_nodata {q : Question} {resp : Message} {mc : Nat} {rrs : List RR} {soa : RR}
    (h : validateNameserverResponse q resp mc = some (.answer rrs (some soa))) :
    rrs = [] ∧ followCnames resp.answers q.name q.qtype = none ∧
    chooseNs (getBetterNsNames resp.answers q.name mc) (getBetterNsNames resp.authority q.name mc) = none ∧
    getNxdomainNodataSoa q resp mc = some soa := by
  rw [validate_eq] at h
  split at h
  · split at h
    · cases h
    · split at h
      · cases h
      · split at h <;> cases h
  · rename_i hf
    split at h
    · rename_i hc
      simp only [Option.map_eq_some_iff] at h
      obtain ⟨s, hs, h⟩ := h
      cases h
      exact ⟨rfl, hf, hc, hs⟩
    · cases h

theorem isNsOf_iff {mn : Name} {ns : List Name} {rr : RR} :
    isNsOf mn ns rr = true ↔ ∃ t, nsTarget rr = some t ∧ rr.name = mn ∧ t ∈ ns := by
  unfold isNsOf
  cases hn : nsTarget rr with
  | some t =>
    simp only [Bool.and_eq_true, beq_iff_eq, List.contains_eq_mem, decide_eq_true_eq]
    constructor
    · rintro ⟨h1, h2⟩
      exact ⟨t, rfl, h1, h2⟩
    · rintro ⟨t', h0, h1, h2⟩
      cases h0
      exact ⟨h1, h2⟩
  | none =>
    constructor
    · intro h; cases h
    · rintro ⟨t, h0, _⟩
      cases h0

theorem isGlueOf_iff {ns : List Name} {rr : RR} :
    isGlueOf ns rr = true ↔ (rr.rtype = RT_A ∨ rr.rtype = RT_AAAA) ∧ rr.name ∈ ns := by
  unfold isGlueOf
  simp only [Bool.and_eq_true, Bool.or_eq_true, beq_iff_eq, List.contains_eq_mem, decide_eq_true_eq]

theorem mem_delegRrs {resp : Message} {mn : Name} {ns : List Name} {rr : RR} :
    rr ∈ delegRrs resp mn ns ↔
      (rr ∈ resp.answers ∧ (isNsOf mn ns rr = true ∨ isGlueOf ns rr = true)) ∨
      (rr ∈ resp.authority ∧ isNsOf mn ns rr = true) ∨
      (rr ∈ resp.additional ∧ isGlueOf ns rr = true) := by
  unfold delegRrs
  simp only [List.mem_append, List.mem_filter, Bool.or_eq_true, or_assoc]

theorem ansKeep_iff {q : Question} {fin : Name} {cm : NameMap} {an : RR} :
    ansKeep q fin cm an = true ↔
      (rtypeMatches an.rtype q.qtype = true ∧ an.name = fin) ∨
      (∃ t, cnameTarget an = some t ∧ nmGet cm an.name = some t) := by
  unfold ansKeep
  cases hc : cnameTarget an with
  | some t =>
    simp only [Bool.or_eq_true, Bool.and_eq_true, beq_iff_eq]
    constructor
    · rintro (h | h)
      · exact Or.inl h
      · exact Or.inr ⟨t, rfl, h⟩
    · rintro (h | ⟨t', h0, h⟩)
      · exact Or.inl h
      · cases h0; exact Or.inr h
  | none =>
    simp only [Bool.or_false, Bool.and_eq_true, beq_iff_eq]
    constructor
    · exact Or.inl
    · rintro (h | ⟨t', h0, _⟩)
      · exact h
      · cases h0

theorem mem_knownOf {resp : Message} {rr : RR} :
    rr ∈ knownOf resp ↔ rr ∈ resp.answers ∧ rrIsUnknown rr = false := by
  unfold knownOf
  simp only [List.mem_filter, Bool.not_eq_eq_eq_not, Bool.not_true]

/-! ### getNxdomainNodataSoa -/

theorem getNxdomainNodataSoa_some {q : Question} {resp : Message} {mc : Nat} {soa : RR}
    (h : getNxdomainNodataSoa q resp mc = some soa) :
    resp.answers = [] ∧ (resp.header.rcode = 0 ∨ resp.header.rcode = 3) ∧
    resp.authority.filter (fun rr => rr.rtype == RT_SOA) = [soa] ∧
    q.name.isSubdomainOf soa.name = true ∧ mc ≤ soa.name.labels.length := by
  unfold getNxdomainNodataSoa at h
  split at h
  · cases h
  · rename_i hans
    split at h
    · cases h
    · rename_i hrc
      split at h
      · rename_i rr hf
        split at h
        · cases h
        · rename_i hsub
          split at h
          · cases h
          · rename_i hlen
            cases h
            refine ⟨by simpa using hans, ?_, hf, by simpa using hsub, by simpa using hlen⟩
            simp only [RCODE_NAMEERROR, RCODE_NOERROR, Bool.not_eq_eq_eq_not, Bool.not_true] at hrc
            rcases Nat.decEq resp.header.rcode 0 with h0 | h0
            · rcases Nat.decEq resp.header.rcode 3 with h3 | h3
              · simp [h0, h3] at hrc
              · exact Or.inr h3
            · exact Or.inl h0
      · cases h

end Resolved
