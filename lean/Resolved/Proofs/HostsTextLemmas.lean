/-
  Helper lemmas for the text round trip of C14: `deserialise (serialise h) ≈ h`.
-/
import Resolved.Proofs.HostsLemmas
import Resolved.Proofs.IpLemmas
import Resolved.Proofs.HostsZoneLemmas

namespace Resolved

open HostsM HSpec

/-! ## bytes and chars -/

theorem toNat_ofNat_byte (b : UInt8) : (Char.ofNat b.toNat).toNat = b.toNat := by
  have hb : b.toNat < 256 := b.toNat_lt
  have hv : b.toNat.isValidChar := by left; omega
  simp [Char.ofNat, hv, Char.toNat, Char.ofNatAux]

theorem utf8EncodeChar_byte (b : UInt8) (h : b.toNat < 128) : utf8EncodeChar (Char.ofNat b.toNat) = [b] := by
  unfold utf8EncodeChar
  simp only [toNat_ofNat_byte, h, if_true]
  simp

theorem utf8Encode_asciiChars (bs : List UInt8) (h : ∀ b ∈ bs, b.toNat < 128) :
    utf8Encode (Hosts.asciiChars bs) = bs := by
  induction bs with
  | nil => rfl
  | cons b bs ih =>
    simp only [Hosts.asciiChars, utf8Encode, List.map_cons, List.flatMap_cons]
    rw [utf8EncodeChar_byte b (h b (by simp))]
    have := ih (fun x hx => h x (by simp [hx]))
    simp only [Hosts.asciiChars, utf8Encode] at this
    rw [this]; rfl

/-- a byte that may appear in a hosts-file field: ASCII, not blank, not `#`. -/
def fieldByte (b : UInt8) : Prop :=
  b.toNat < 128 ∧ b.toNat ≠ 32 ∧ ¬ (9 ≤ b.toNat ∧ b.toNat ≤ 13) ∧ b.toNat ≠ 35

instance (b : UInt8) : Decidable (fieldByte b) := by unfold fieldByte; infer_instance

theorem FieldOK_asciiChars (bs : List UInt8) (h : ∀ b ∈ bs, fieldByte b) : FieldOK (Hosts.asciiChars bs) := by
  refine ⟨?_, ?_, ?_⟩
  all_goals
    intro c hc
    simp only [Hosts.asciiChars, List.mem_map] at hc
    obtain ⟨b, hb, rfl⟩ := hc
    obtain ⟨h1, h2, h3, h4⟩ := h b hb
  · simp [isAscii, toNat_ofNat_byte, h1]
  · rw [ws_eq]; simp [isWs, toNat_ofNat_byte, h2]; omega
  · simp [HSpec.hash, toNat_ofNat_byte, h4]

theorem asciiChars_ne_nil (bs : List UInt8) (h : bs ≠ []) : Hosts.asciiChars bs ≠ [] := by
  cases bs with
  | nil => exact absurd rfl h
  | cons b bs => simp [Hosts.asciiChars]

/-! ## the address field -/

theorem isAddrByte_fieldByte (b : UInt8) (h : Ip.isAddrByte b = true) : fieldByte b ∧ b.toNat ≠ 37 := by
  unfold Ip.isAddrByte at h
  unfold fieldByte
  simp at h
  omega

theorem addrText_ok (x : IpAddr) (hx : Ip.WF x) :
    FieldOK (Hosts.asciiChars (Ip.showIpAddr x)) ∧ Hosts.asciiChars (Ip.showIpAddr x) ≠ [] ∧
    NoPct ((Hosts.asciiChars (Ip.showIpAddr x)).drop 1) ∧
    Ip.parseIpAddr (utf8Encode (Hosts.asciiChars (Ip.showIpAddr x))) = some x := by
  obtain ⟨hb, hne⟩ := showIpAddr_bytes x hx
  refine ⟨FieldOK_asciiChars _ (fun b hb' => (isAddrByte_fieldByte b (hb b hb')).1), asciiChars_ne_nil _ hne, ?_, ?_⟩
  · intro c hc
    have hc' : c ∈ Hosts.asciiChars (Ip.showIpAddr x) := List.mem_of_mem_drop hc
    simp only [Hosts.asciiChars, List.mem_map] at hc'
    obtain ⟨b, hb', rfl⟩ := hc'
    have := (isAddrByte_fieldByte b (hb b hb')).2
    simp [HSpec.percent, toNat_ofNat_byte, this]
  · rw [utf8Encode_asciiChars _ (fun b hb' => (isAddrByte_fieldByte b (hb b hb')).1.1)]
    exact ip_print_parse x hx

/-! ## the name field -/

/-- labels joined by dots (no trailing dot). -/
def joinDots : List Label → List UInt8
  | [] => []
  | [l] => l
  | l :: ls => l ++ 46 :: joinDots ls

/-- what a label may contain to survive the text form: field bytes other than `.` -/
def LabelTextOK (l : Label) : Prop := ∀ b ∈ l, fieldByte b ∧ b.toNat ≠ 46

instance (l : Label) : Decidable (LabelTextOK l) := by unfold LabelTextOK; infer_instance

theorem dottedLabelsChars_snoc (ls : List Label) (hne : ls ≠ []) (first : Bool) :
    Hosts.dottedLabelsChars (ls ++ [[]]) first =
      (if first then [] else [Char.ofNat 46]) ++ Hosts.asciiChars (joinDots ls) ++ [Char.ofNat 46] := by
  induction ls generalizing first with
  | nil => exact absurd rfl hne
  | cons l rest ih =>
    cases rest with
    | nil =>
      simp [Hosts.dottedLabelsChars, joinDots, Hosts.asciiChars]
    | cons m r =>
      have := ih (by simp) false
      simp only [List.cons_append] at this ⊢
      rw [Hosts.dottedLabelsChars, this]
      simp [joinDots, Hosts.asciiChars]

theorem splitDot_append_dot (l x : List UInt8) (h : ∀ b ∈ l, b ≠ 46) :
    Name.splitDot (l ++ 46 :: x) = l :: Name.splitDot x := by
  induction l with
  | nil => simp [Name.splitDot]
  | cons b bs ih =>
    have hb : b ≠ 46 := h b (by simp)
    simp only [List.cons_append]
    rw [Name.splitDot, if_neg hb, ih (fun c hc => h c (by simp [hc]))]

theorem splitDot_joinDots (ls : List Label) (hne : ls ≠ []) (h : ∀ l ∈ ls, ∀ b ∈ l, b ≠ 46) :
    Name.splitDot (joinDots ls ++ [46]) = ls ++ [[]] := by
  induction ls with
  | nil => exact absurd rfl hne
  | cons l rest ih =>
    cases rest with
    | nil =>
      simp only [joinDots]
      rw [splitDot_append_dot l [] (h l (by simp))]
      simp [Name.splitDot]
    | cons m r =>
      simp only [joinDots, List.append_assoc, List.cons_append]
      rw [splitDot_append_dot l _ (h l (by simp))]
      have := ih (by simp) (fun l' hl' => h l' (by simp [hl']))
      simp only [joinDots, List.cons_append] at this ⊢
      rw [this]

theorem tryFrom_of_LabelOK (l : Label) (h : LabelOK l) : Label.tryFrom l = some l := by
  unfold Label.tryFrom
  have : ¬ l.length > Gen.LABEL_MAX_LEN := by have := h.1; omega
  rw [if_neg this]
  congr 1
  have : ∀ (l : Label), (∀ b ∈ l, ¬ isUpper b) → l.map lowerByte = l := by
    intro l
    induction l with
    | nil => intro _; rfl
    | cons b bs ih =>
      intro hb
      simp only [List.map_cons]
      rw [lowerByte_of_not_upper b (hb b (by simp)), ih (fun c hc => hb c (by simp [hc]))]
  exact this l h.2

theorem dottedChunksToLabels_labels (ls : List Label) (hne : ∀ l ∈ ls, l ≠ []) (hok : ∀ l ∈ ls, LabelOK l) :
    Name.dottedChunksToLabels (ls ++ [[]]) = some (ls ++ [[]]) := by
  induction ls with
  | nil => simp [Name.dottedChunksToLabels, Label.tryFrom]
  | cons l rest ih =>
    have hl : l ≠ [] := hne l (by simp)
    have ih' := ih (fun x hx => hne x (by simp [hx])) (fun x hx => hok x (by simp [hx]))
    cases hr : rest ++ [[]] with
    | nil => simp at hr
    | cons m r =>
      simp only [List.cons_append, hr]
      rw [Name.dottedChunksToLabels]
      · have : l.isEmpty = false := by cases l <;> simp_all
        simp only [this, Bool.false_eq_true, if_false, tryFrom_of_LabelOK l (hok l (by simp))]
        rw [← hr, ih']
        simp
      · intro h; cases h

/-- the precondition of the text round trip on names: well formed (C16), and every label made of
    ASCII octets other than white space, `#` and `.` (upper case is excluded by `WFName`). -/
def NameTextOK (n : Name) : Prop := WFName n ∧ ∀ l ∈ n.labels, LabelTextOK l

theorem joinDots_bytes (ls : List Label) (h : ∀ l ∈ ls, LabelTextOK l) : ∀ b ∈ joinDots ls, fieldByte b := by
  induction ls with
  | nil => intro b hb; simp [joinDots] at hb
  | cons l rest ih =>
    cases rest with
    | nil => intro b hb; simp only [joinDots] at hb; exact (h l (by simp) b hb).1
    | cons m r =>
      intro b hb
      simp only [joinDots, List.mem_append, List.mem_cons] at hb
      rcases hb with hb | rfl | hb
      · exact (h l (by simp) b hb).1
      · decide
      · exact ih (fun x hx => h x (by simp [hx])) b (by simpa [joinDots] using hb)

theorem joinDots_ne_nil (ls : List Label) (hne : ls ≠ []) (hl : ∀ l ∈ ls, l ≠ []) : joinDots ls ≠ [] := by
  cases ls with
  | nil => exact absurd rfl hne
  | cons l rest =>
    have : l ≠ [] := hl l (by simp)
    cases rest with
    | nil => simpa [joinDots] using this
    | cons m r => simp [joinDots, this]

theorem joinDots_getLast (ls : List Label) (hne : ls ≠ []) (hl : ∀ l ∈ ls, l ≠ []) :
    ∃ b l, (joinDots ls).getLast? = some b ∧ l ∈ ls ∧ b ∈ l := by
  induction ls with
  | nil => exact absurd rfl hne
  | cons l rest ih =>
    cases rest with
    | nil =>
      have hl' : l ≠ [] := hl l (by simp)
      cases hg : l.getLast? with
      | none => simp at hg; exact absurd hg hl'
      | some b => exact ⟨b, l, by simpa [joinDots] using hg, by simp, List.mem_of_getLast? hg⟩
    | cons m r =>
      obtain ⟨b, l', hb, hl'm, hbl⟩ := ih (by simp) (fun x hx => hl x (by simp [hx]))
      refine ⟨b, l', ?_, by simp at hl'm ⊢; exact Or.inr hl'm, hbl⟩
      simp only [joinDots]
      rw [List.getLast?_append]
      have : (46 :: joinDots (m :: r)).getLast? = some b := by
        rw [List.getLast?_cons, hb]; rfl
      rw [this]; rfl

theorem root_toDotted : Name.root.toDotted = [46] := by decide

/-- **name round trip**: the `domain_str` written by `serialise` is a good field and reads back,
    relative to the root, as the same name. -/
theorem nameText_ok (n : Name) (h : NameTextOK n) :
    ∃ ds, Hosts.domainStr n = some ds ∧ FieldOK ds ∧ ds ≠ [] ∧
      Name.fromRelativeDotted Name.root (utf8Encode ds) = some n := by
  obtain ⟨⟨⟨hne, hlast, hmid⟩, hok, hlen, hmax⟩, htext⟩ := h
  have hlabels : n.labels = n.labels.dropLast ++ [[]] := by
    have h1 := List.dropLast_concat_getLast hne
    have h2 : n.labels.getLast hne = [] := by
      have := List.getLast?_eq_some_getLast hne
      rw [hlast] at this
      exact (Option.some.inj this).symm
    rw [h2] at h1
    exact h1.symm
  generalize hls : n.labels.dropLast = ls at hlabels hmid
  obtain ⟨labels, len⟩ := n
  simp only at hlabels hlen hmax hok htext hls
  subst hlabels
  cases ls with
  | nil =>
    -- the root
    simp only [List.nil_append, List.length_singleton, sumLen_cons, List.length_nil, sumLen_nil] at hlen
    subst hlen
    refine ⟨[Char.ofNat 46], by decide, ?_, by simp, by decide⟩
    refine ⟨?_, ?_, ?_⟩ <;> (intro c hc; simp at hc; subst hc; decide)
  | cons l rest =>
    have hlen2 : len ≠ 1 := by
      simp only [List.cons_append, List.length_cons, List.length_append, List.length_singleton] at hlen
      omega
    have hnonempty : ∀ x ∈ l :: rest, x ≠ [] := hmid
    have htext' : ∀ x ∈ l :: rest, LabelTextOK x := fun x hx => htext x (by simp at hx ⊢; rcases hx with rfl | hx <;> simp [*])
    have hok' : ∀ x ∈ l :: rest, LabelOK x := fun x hx => hok x (by simp at hx ⊢; rcases hx with rfl | hx <;> simp [*])
    have hds : Hosts.domainStr ⟨(l :: rest) ++ [[]], len⟩ = some (Hosts.asciiChars (joinDots (l :: rest))) := by
      unfold Hosts.domainStr Name.isRoot?
      simp only [beq_iff_eq, hlen2, if_false]
      rw [dottedLabelsChars_snoc (l :: rest) (by simp) true]
      simp
    have hbytes := joinDots_bytes (l :: rest) htext'
    have hjne := joinDots_ne_nil (l :: rest) (by simp) hnonempty
    refine ⟨_, hds, FieldOK_asciiChars _ hbytes, asciiChars_ne_nil _ hjne, ?_⟩
    rw [utf8Encode_asciiChars _ (fun b hb => (hbytes b hb).1)]
    obtain ⟨b, lb, hb, hlb, hbl⟩ := joinDots_getLast (l :: rest) (by simp) hnonempty
    have hb46 : b ≠ 46 := by
      intro h46
      have := (htext' lb hlb b hbl).2
      rw [h46] at this
      exact this (by decide)
    unfold Name.fromRelativeDotted
    have hemp : (joinDots (l :: rest)).isEmpty = false := by
      cases hj : joinDots (l :: rest) with
      | nil => exact absurd hj hjne
      | cons _ _ => rfl
    simp only [hemp, Bool.false_eq_true, if_false, hb, Option.some.injEq, hb46, root_toDotted, List.head?_cons,
      if_true]
    unfold Name.fromDotted
    have hnot : ¬ joinDots (l :: rest) ++ [46] = [46] := by
      intro h
      have := congrArg List.length h
      simp at this
      exact hjne this
    rw [if_neg hnot, splitDot_joinDots (l :: rest) (by simp)
      (fun x hx b hb h46 => (htext' x hx b hb).2 (by rw [h46]; decide)),
      dottedChunksToLabels_labels (l :: rest) hnonempty hok']
    simp only
    rw [fromLabels_eq]
    have hshape : LabelsShape ((l :: rest) ++ [[]]) := ⟨hne, hlast, by rw [hls]; exact hmid⟩
    rw [if_pos ⟨hshape, by rw [← hlen]; exact hmax⟩, hlen]

/-! ## one written line read back -/

theorem isWs_space : isWs (Char.ofNat 32) = true := by decide

/-- `"{addr} {domain_str}"` means: map `domain` to `addr`. -/
theorem parseLine_mapping (addrText ds : List Char) (x : IpAddr) (n : Name)
    (ha : FieldOK addrText) (hane : addrText ≠ []) (hpct : NoPct (addrText.drop 1))
    (hparse : Ip.parseIpAddr (utf8Encode addrText) = some x)
    (hd : FieldOK ds) (hdne : ds ≠ []) (hname : Name.fromRelativeDotted Name.root (utf8Encode ds) = some n) :
    HSpec.parseLine (addrText ++ Char.ofNat 32 :: ds) = .ok (some (x, [n])) := by
  rw [parseLine_addr_ws addrText ds (Char.ofNat 32) ha hane hpct isWs_space, hparse]
  simp only
  rw [specSN_field_end x [] ds hd hdne]
  simp [addName, hname, nameSetInsert, lineResult]

theorem mappings_cons_none (l : List Char) (ls : List (List Char)) (h : HSpec.parseLine l = .ok none) :
    mappings (l :: ls) = mappings ls := by
  rw [mappings, h]
  simp only
  cases mappings ls <;> rfl

theorem mappings_cons_some (l : List Char) (ls : List (List Char)) (a : IpAddr) (names : List Name)
    (ms : List (Name × IpAddr)) (h : HSpec.parseLine l = .ok (some (a, names))) (hms : mappings ls = .ok ms) :
    mappings (l :: ls) = .ok (names.map (fun n => (n, a)) ++ ms) := by
  rw [mappings, h, hms]

/-! ## `lines` of a text made of `\n`-terminated lines -/

def joinNl (ls : List (List Char)) : List Char := ls.flatMap (fun l => l ++ [Char.ofNat 10])

def NoNlCr (l : List Char) : Prop := ∀ c ∈ l, c.toNat ≠ 10 ∧ c.toNat ≠ 13

theorem splitNl_append_nl (l x : List Char) (h : ∀ c ∈ l, c.toNat ≠ 10) :
    splitNl (l ++ Char.ofNat 10 :: x) = l :: splitNl x := by
  induction l with
  | nil =>
    simp only [List.nil_append]
    rw [splitNl, if_pos (by decide)]
  | cons b bs ih =>
    have hb : b.toNat ≠ 10 := h b (by simp)
    simp only [List.cons_append]
    rw [splitNl, if_neg hb, ih (fun c hc => h c (by simp [hc]))]

theorem splitNl_joinNl (ls : List (List Char)) (h : ∀ l ∈ ls, NoNlCr l) : splitNl (joinNl ls) = ls ++ [[]] := by
  induction ls with
  | nil => simp [joinNl, splitNl]
  | cons l rest ih =>
    have : joinNl (l :: rest) = l ++ Char.ofNat 10 :: joinNl rest := by simp [joinNl]
    rw [this, splitNl_append_nl l _ (fun c hc => (h l (by simp) c hc).1), ih (fun x hx => h x (by simp [hx]))]
    rfl

theorem stripCr_noCr (l : List Char) (h : NoNlCr l) : stripCr l = l := by
  unfold stripCr
  cases hl : l.getLast? with
  | none => rfl
  | some c =>
    have := (h c (List.mem_of_getLast? hl)).2
    simp [this]

theorem lines_joinNl (ls : List (List Char)) (h : ∀ l ∈ ls, NoNlCr l) : HSpec.lines (joinNl ls) = ls := by
  unfold HSpec.lines
  rw [splitNl_joinNl ls h]
  simp only [List.dropLast_concat, List.getLast?_concat, List.isEmpty_nil, if_true, List.append_nil]
  induction ls with
  | nil => rfl
  | cons l rest ih =>
    simp only [List.map_cons]
    rw [stripCr_noCr l (h l (by simp)), ih (fun x hx => h x (by simp [hx]))]

theorem noWs_noNlCr {c : Char} (h : ws c = false) : c.toNat ≠ 10 ∧ c.toNat ≠ 13 := by
  unfold ws at h
  constructor <;> (intro hc; rw [hc] at h; revert h; decide)

theorem NoNlCr_mappingLine (a ds : List Char) (ha : FieldOK a) (hd : FieldOK ds) :
    NoNlCr (a ++ Char.ofNat 32 :: ds) := by
  intro c hc
  simp only [List.mem_append, List.mem_cons] at hc
  rcases hc with hc | rfl | hc
  · exact noWs_noNlCr (ha.noWs c hc)
  · decide
  · exact noWs_noNlCr (hd.noWs c hc)

/-! ## `serialise` as a list of lines, and its reading -/

/-- the mappings `serialise` writes for one domain. -/
def entries (h : Hosts) (n : Name) : List (Name × IpAddr) :=
  (match h.v4.get n with | some a => [(n, IpAddr.v4 a)] | none => []) ++
  (match h.v6.get n with | some g => [(n, IpAddr.v6 g)] | none => [])

/-- the lines `serialise` writes for one domain. -/
def domainLines (h : Hosts) (n : Name) (ds : List Char) : List (List Char) :=
  (match h.v4.get n with
   | some a => [Hosts.asciiChars (Ip.showIpv4 a) ++ Char.ofNat 32 :: ds]
   | none => []) ++
  (match h.v6.get n with
   | some g => [Hosts.asciiChars (Ip.showIpv6 g) ++ Char.ofNat 32 :: ds]
   | none => []) ++ [[]]

theorem serialiseDomain_eq (h : Hosts) (n : Name) (ds : List Char) (hds : Hosts.domainStr n = some ds) :
    Hosts.serialiseDomain h n = some (joinNl (domainLines h n ds)) := by
  unfold Hosts.serialiseDomain domainLines joinNl
  rw [hds]
  cases h.v4.get n <;> cases h.v6.get n <;> simp

/-- the values stored are addresses. -/
def AddrsWF (h : Hosts) : Prop :=
  (∀ n a, h.v4.get n = some a → a < 4294967296) ∧
  (∀ n g, h.v6.get n = some g → g.length = 8 ∧ ∀ x ∈ g, x < 65536)

theorem mappings_domainLines (h : Hosts) (hw : AddrsWF h) (n : Name) (hn : NameTextOK n) (ds : List Char)
    (hds : FieldOK ds) (hdne : ds ≠ []) (hname : Name.fromRelativeDotted Name.root (utf8Encode ds) = some n)
    (rest : List (List Char)) (ms : List (Name × IpAddr)) (hrest : mappings rest = .ok ms) :
    mappings (domainLines h n ds ++ rest) = .ok (entries h n ++ ms) ∧
    ∀ l ∈ domainLines h n ds, NoNlCr l := by
  unfold domainLines entries
  have hblank : mappings ([] :: rest) = .ok ms := by rw [mappings_cons_none [] rest parseLine_nil, hrest]
  have nlBlank : NoNlCr [] := by intro c hc; simp at hc
  cases h4 : h.v4.get n with
  | none =>
    cases h6 : h.v6.get n with
    | none =>
      simp only [List.nil_append, List.singleton_append]
      exact ⟨hblank, by intro l hl; simp at hl; subst hl; exact nlBlank⟩
    | some g =>
      obtain ⟨f6, ne6, p6, r6⟩ := addrText_ok (.v6 g) (hw.2 n g h6)
      simp only [Ip.showIpAddr] at f6 ne6 p6 r6
      simp only [List.nil_append, List.singleton_append, List.cons_append]
      refine ⟨?_, ?_⟩
      · rw [mappings_cons_some _ _ _ _ _ (parseLine_mapping _ ds (.v6 g) n f6 ne6 p6 r6 hds hdne hname) hblank]
        rfl
      · intro l hl; simp at hl
        rcases hl with rfl | rfl
        · exact NoNlCr_mappingLine _ _ f6 hds
        · exact nlBlank
  | some a =>
    obtain ⟨f4, ne4, p4, r4⟩ := addrText_ok (.v4 a) (hw.1 n a h4)
    simp only [Ip.showIpAddr] at f4 ne4 p4 r4
    cases h6 : h.v6.get n with
    | none =>
      simp only [List.nil_append, List.append_nil, List.singleton_append, List.cons_append]
      refine ⟨?_, ?_⟩
      · rw [mappings_cons_some _ _ _ _ _ (parseLine_mapping _ ds (.v4 a) n f4 ne4 p4 r4 hds hdne hname) hblank]
        rfl
      · intro l hl; simp at hl
        rcases hl with rfl | rfl
        · exact NoNlCr_mappingLine _ _ f4 hds
        · exact nlBlank
    | some g =>
      obtain ⟨f6, ne6, p6, r6⟩ := addrText_ok (.v6 g) (hw.2 n g h6)
      simp only [Ip.showIpAddr] at f6 ne6 p6 r6
      simp only [List.singleton_append, List.cons_append, List.nil_append]
      refine ⟨?_, ?_⟩
      · have h2 := mappings_cons_some _ _ _ _ _ (parseLine_mapping _ ds (.v6 g) n f6 ne6 p6 r6 hds hdne hname) hblank
        rw [mappings_cons_some _ _ _ _ _ (parseLine_mapping _ ds (.v4 a) n f4 ne4 p4 r4 hds hdne hname) h2]
        rfl
      · intro l hl; simp at hl
        rcases hl with rfl | rfl | rfl
        · exact NoNlCr_mappingLine _ _ f4 hds
        · exact NoNlCr_mappingLine _ _ f6 hds
        · exact nlBlank

theorem joinNl_append (a b : List (List Char)) : joinNl (a ++ b) = joinNl a ++ joinNl b := by
  simp [joinNl]

/-- `serialise`'s loop writes a list of clean lines whose mappings are exactly the entries. -/
theorem serialiseLoop_ok (h : Hosts) (hw : AddrsWF h) (doms : List Name) (hd : ∀ n ∈ doms, NameTextOK n) :
    ∃ ls, Hosts.serialiseLoop h doms = some (joinNl ls) ∧ (∀ l ∈ ls, NoNlCr l) ∧
      mappings ls = .ok (doms.flatMap (entries h)) := by
  induction doms with
  | nil => exact ⟨[], rfl, by intro l hl; simp at hl, rfl⟩
  | cons n rest ih =>
    obtain ⟨ls, hser, hclean, hmap⟩ := ih (fun x hx => hd x (by simp [hx]))
    obtain ⟨ds, hds, hf, hne, hname⟩ := nameText_ok n (hd n (by simp))
    obtain ⟨hm, hcl⟩ := mappings_domainLines h hw n (hd n (by simp)) ds hf hne hname ls _ hmap
    refine ⟨domainLines h n ds ++ ls, ?_, ?_, ?_⟩
    · rw [Hosts.serialiseLoop, serialiseDomain_eq h n ds hds, hser, joinNl_append]
    · intro l hl
      simp only [List.mem_append] at hl
      rcases hl with hl | hl
      · exact hcl l hl
      · exact hclean l hl
    · rw [hm]; simp

/-! ## the sorted domain list, and which mapping is last -/

theorem nodup_foldl_addIfNew (xs acc : List Name) (h : acc.Nodup) : (xs.foldl addIfNew acc).Nodup := by
  induction xs generalizing acc with
  | nil => exact h
  | cons x xs ih =>
    apply ih
    unfold addIfNew
    by_cases hx : acc.contains x = true
    · have hx' : x ∈ acc := by simpa using hx
      simp [hx', h]
    · simp only [hx, Bool.false_eq_true, if_false]
      have hx' : x ∉ acc := by simpa using hx
      rw [List.nodup_append]
      refine ⟨h, by simp, ?_⟩
      intro a ha b hb
      simp at hb
      subst hb
      intro hab
      exact hx' (hab ▸ ha)

theorem sortedDomains_mem (h : Hosts) (n : Name) :
    n ∈ Hosts.sortedDomains h ↔ n ∈ h.v4.map (·.1) ∨ n ∈ h.v6.map (·.1) := by
  unfold Hosts.sortedDomains
  simp only
  rw [(List.mergeSort_perm _ _).mem_iff]
  have e : Hosts.insertNodup = addIfNew := rfl
  rw [e, mem_foldl_addIfNew, mem_foldl_addIfNew]
  simp

theorem sortedDomains_nodup (h : Hosts) : (Hosts.sortedDomains h).Nodup := by
  unfold Hosts.sortedDomains
  simp only
  rw [(List.mergeSort_perm _ _).nodup_iff]
  have e : Hosts.insertNodup = addIfNew := rfl
  rw [e]
  exact nodup_foldl_addIfNew _ _ (nodup_foldl_addIfNew _ _ List.nodup_nil)

theorem lastMapping_append (xs ys : List (Name × IpAddr)) (n : Name) (f : Bool) :
    lastMapping (xs ++ ys) n f =
      match lastMapping ys n f with
      | some a => some a
      | none => lastMapping xs n f := by
  unfold lastMapping
  simp only [List.reverse_append, List.find?_append]
  cases List.find? (fun m => m.1 == n && isV4 m.2 == f) ys.reverse <;> simp

theorem lastMapping_entries_v4 (h : Hosts) (d n : Name) :
    lastMapping (entries h d) n true = if d = n then (h.v4.get d).map IpAddr.v4 else none := by
  unfold entries lastMapping
  by_cases hd : d = n
  · subst hd
    cases h.v4.get d <;> cases h.v6.get d <;> simp [isV4]
  · cases h.v4.get d <;> cases h.v6.get d <;> simp [isV4, hd]

theorem lastMapping_entries_v6 (h : Hosts) (d n : Name) :
    lastMapping (entries h d) n false = if d = n then (h.v6.get d).map IpAddr.v6 else none := by
  unfold entries lastMapping
  by_cases hd : d = n
  · subst hd
    cases h.v4.get d <;> cases h.v6.get d <;> simp [isV4]
  · cases h.v4.get d <;> cases h.v6.get d <;> simp [isV4, hd]

theorem lastMapping_flatMap_v4 (h : Hosts) (doms : List Name) (hnd : doms.Nodup) (n : Name) :
    lastMapping (doms.flatMap (entries h)) n true = if n ∈ doms then (h.v4.get n).map IpAddr.v4 else none := by
  induction doms with
  | nil => rfl
  | cons d rest ih =>
    rw [List.nodup_cons] at hnd
    rw [List.flatMap_cons, lastMapping_append, ih hnd.2, lastMapping_entries_v4]
    by_cases hd : d = n
    · subst hd
      simp [hnd.1]
    · have : ¬ n = d := fun e => hd e.symm
      simp only [hd, if_false, List.mem_cons, this, false_or]
      generalize (if n ∈ rest then Option.map IpAddr.v4 (h.v4.get n) else none) = o
      cases o <;> rfl

theorem lastMapping_flatMap_v6 (h : Hosts) (doms : List Name) (hnd : doms.Nodup) (n : Name) :
    lastMapping (doms.flatMap (entries h)) n false = if n ∈ doms then (h.v6.get n).map IpAddr.v6 else none := by
  induction doms with
  | nil => rfl
  | cons d rest ih =>
    rw [List.nodup_cons] at hnd
    rw [List.flatMap_cons, lastMapping_append, ih hnd.2, lastMapping_entries_v6]
    by_cases hd : d = n
    · subst hd
      simp [hnd.1]
    · have : ¬ n = d := fun e => hd e.symm
      simp only [hd, if_false, List.mem_cons, this, false_or]
      generalize (if n ∈ rest then Option.map IpAddr.v6 (h.v6.get n) else none) = o
      cases o <;> rfl

/-- the decidable precondition of the text round trip: names as in `NameTextOK`, addresses in range. -/
def HostsWF (h : Hosts) : Prop :=
  (∀ kv ∈ h.v4, NameTextOK kv.1 ∧ kv.2 < 4294967296) ∧
  (∀ kv ∈ h.v6, NameTextOK kv.1 ∧ kv.2.length = 8 ∧ ∀ g ∈ kv.2, g < 65536)

/-- **(e) text round trip**: what `serialise` writes, `deserialise` reads back as the same data. -/
theorem text_roundtrip (h : Hosts) (wf : HostsWF h) :
    ∃ text h', h.serialise = some text ∧ Hosts.deserialise text = .ok h' ∧ Hosts.Equiv h' h := by
  have hw : AddrsWF h := by
    constructor
    · intro n a hg; exact (wf.1 _ (AddrMap.get_mem _ _ _ hg)).2
    · intro n g hg; exact (wf.2 _ (AddrMap.get_mem _ _ _ hg)).2
  have hdoms : ∀ n ∈ Hosts.sortedDomains h, NameTextOK n := by
    intro n hn
    rw [sortedDomains_mem] at hn
    rcases hn with hn | hn
    · simp only [List.mem_map] at hn
      obtain ⟨kv, hkv, rfl⟩ := hn
      exact (wf.1 kv hkv).1
    · simp only [List.mem_map] at hn
      obtain ⟨kv, hkv, rfl⟩ := hn
      exact (wf.2 kv hkv).1
  obtain ⟨ls, hser, hclean, hmap⟩ := serialiseLoop_ok h hw (Hosts.sortedDomains h) hdoms
  have hspec : HSpec.parse (joinNl ls) = .ok (hostsOf ((Hosts.sortedDomains h).flatMap (entries h))) := by
    unfold HSpec.parse
    rw [lines_joinNl ls hclean, hmap]
  have href := deserialise_refines_spec (joinNl ls)
  rw [hspec] at href
  obtain ⟨h', hd, heq⟩ := href
  refine ⟨joinNl ls, h', hser, hd, ?_, ?_⟩
  · intro n
    rw [heq.1 n, hostsOf_v4_get, lastMapping_flatMap_v4 h _ (sortedDomains_nodup h)]
    by_cases hn : n ∈ Hosts.sortedDomains h
    · rw [if_pos hn]; cases h.v4.get n <;> rfl
    · rw [if_neg hn]
      rw [sortedDomains_mem] at hn
      rw [AddrMap.get_none_of_not_mem _ _ (fun hh => hn (Or.inl hh))]
      rfl
  · intro n
    rw [heq.2 n, hostsOf_v6_get, lastMapping_flatMap_v6 h _ (sortedDomains_nodup h)]
    by_cases hn : n ∈ Hosts.sortedDomains h
    · rw [if_pos hn]; cases h.v6.get n <;> rfl
    · rw [if_neg hn]
      rw [sortedDomains_mem] at hn
      rw [AddrMap.get_none_of_not_mem _ _ (fun hh => hn (Or.inr hh))]
      rfl

/-! ## what `deserialise` returns is a proper map of well-formed names -/

theorem insert_keys {α : Type} (m : AddrMap α) (k : Name) (v : α) :
    (m.insert k v).map (·.1) = if k ∈ m.map (·.1) then m.map (·.1) else m.map (·.1) ++ [k] := by
  induction m with
  | nil => simp [AddrMap.insert]
  | cons kv rest ih =>
    obtain ⟨k', v'⟩ := kv
    simp only [AddrMap.insert]
    by_cases hk : k' = k
    · subst hk; simp
    · have hk' : ¬ k = k' := fun e => hk e.symm
      simp only [hk, if_false, List.map_cons, ih, List.mem_cons, hk', false_or]
      split <;> simp

theorem insert_keysNodup {α : Type} (m : AddrMap α) (k : Name) (v : α) (h : m.KeysNodup) :
    (m.insert k v).KeysNodup := by
  unfold AddrMap.KeysNodup at h ⊢
  rw [insert_keys]
  split
  · exact h
  · rename_i hk
    rw [List.nodup_append]
    refine ⟨h, by simp, ?_⟩
    intro a ha b hb
    simp at hb
    subst hb
    intro hab
    exact hk (hab ▸ ha)

theorem insert_mem {α : Type} (m : AddrMap α) (k : Name) (v : α) (kv : Name × α) (h : kv ∈ m.insert k v) :
    kv ∈ m ∨ kv.1 = k := by
  induction m with
  | nil => simp [AddrMap.insert] at h; right; rw [h]
  | cons x rest ih =>
    obtain ⟨k', v'⟩ := x
    simp only [AddrMap.insert] at h
    by_cases hk : k' = k
    · subst hk
      simp only [if_true, List.mem_cons] at h
      rcases h with rfl | h
      · right; rfl
      · left; simp [h]
    · simp only [hk, if_false, List.mem_cons] at h
      rcases h with rfl | h
      · left; simp
      · rcases ih h with h' | h'
        · left; simp [h']
        · right; exact h'

/-- invariant of hosts data under construction. -/
def GoodHosts (h : Hosts) : Prop := HostsNamesWF h ∧ h.v4.KeysNodup ∧ h.v6.KeysNodup

theorem GoodHosts_new : GoodHosts Hosts.new := by
  refine ⟨⟨?_, ?_⟩, ?_, ?_⟩
  · intro kv hkv; simp [Hosts.new] at hkv
  · intro kv hkv; simp [Hosts.new] at hkv
  · simp [Hosts.new, AddrMap.KeysNodup]
  · simp [Hosts.new, AddrMap.KeysNodup]

theorem GoodHosts_applyMapping (h : Hosts) (m : Name × IpAddr) (hg : GoodHosts h) (hm : WFName m.1) :
    GoodHosts (applyMapping h m) := by
  obtain ⟨⟨w4, w6⟩, n4, n6⟩ := hg
  obtain ⟨k, a⟩ := m
  cases a with
  | v4 ip =>
    refine ⟨⟨?_, w6⟩, insert_keysNodup _ _ _ n4, n6⟩
    intro kv hkv
    rcases insert_mem _ _ _ _ hkv with h' | h'
    · exact w4 kv h'
    · rw [h']; exact hm
  | v6 ip =>
    refine ⟨⟨w4, ?_⟩, n4, insert_keysNodup _ _ _ n6⟩
    intro kv hkv
    rcases insert_mem _ _ _ _ hkv with h' | h'
    · exact w6 kv h'
    · rw [h']; exact hm

theorem readNames_wf (fs : List (List Char)) (acc names : List Name) (h : readNames fs acc = .ok names)
    (hacc : ∀ n ∈ acc, WFName n) : ∀ n ∈ names, WFName n := by
  induction fs generalizing acc with
  | nil => simp [readNames] at h; subst h; exact hacc
  | cons f fs ih =>
    rw [readNames] at h
    split at h
    · cases h
    · split at h
      · cases h
      · rename_i n hn
        apply ih _ h
        intro x hx
        unfold addIfNew at hx
        split at hx
        · exact hacc x hx
        · simp at hx
          rcases hx with hx | rfl
          · exact hacc x hx
          · exact C16_fromRelativeDotted_wf _ _ _ C16_root_wf hn

theorem spec_parseLine_wf (l : List Char) (a : IpAddr) (names : List Name)
    (h : HSpec.parseLine l = .ok (some (a, names))) : ∀ n ∈ names, WFName n := by
  unfold HSpec.parseLine parseFields at h
  have hfin : ∀ cc r, finishComment cc r = .ok (some (a, names)) → r = some (a, names) := by
    intro cc r hr
    unfold finishComment at hr
    split at hr
    · cases hr
    · injection hr
  split at h
  · have := hfin _ _ h; cases this
  · split at h
    · split at h <;> cases h
    · split at h
      · cases h
      · split at h
        · have := hfin _ _ h; cases this
        · split at h
          · cases h
          · split at h
            · cases h
            · rename_i ns hns
              have := hfin _ _ h
              unfold lineResult at this
              split at this
              · cases this
              · injection this with this
                injection this with h1 h2
                subst h2
                exact readNames_wf _ _ _ hns (by intro n hn; simp at hn)

theorem mappings_wf (ls : List (List Char)) (ms : List (Name × IpAddr)) (h : mappings ls = .ok ms) :
    ∀ m ∈ ms, WFName m.1 := by
  induction ls generalizing ms with
  | nil => simp [mappings] at h; subst h; intro m hm; simp at hm
  | cons l ls ih =>
    rw [mappings] at h
    split at h
    · cases h
    · rename_i r hr
      split at h
      · cases h
      · rename_i ms' hms'
        split at h
        · injection h with h; subst h; exact ih ms' hms'
        · rename_i a names
          injection h with h; subst h
          intro m hm
          simp only [List.mem_append, List.mem_map] at hm
          rcases hm with ⟨n, hn, rfl⟩ | hm
          · exact spec_parseLine_wf l a names hr n hn
          · exact ih ms' hms' m hm

/-- whatever `deserialise` returns has well-formed names and no key twice — so the zone theorems
    apply to every hosts file that is read successfully. -/
theorem deserialise_good (s : List Char) (h : Hosts) (hd : Hosts.deserialise s = .ok h) : GoodHosts h := by
  unfold Hosts.deserialise at hd
  rw [deserialiseLines_eq] at hd
  cases hm : mappings (strLines s) with
  | error e => rw [hm] at hd; cases hd
  | ok ms =>
    rw [hm] at hd
    injection hd with hd
    subst hd
    have hwf := mappings_wf _ _ hm
    clear hm
    have : ∀ (ms : List (Name × IpAddr)) (h0 : Hosts), GoodHosts h0 → (∀ m ∈ ms, WFName m.1) →
        GoodHosts (ms.foldl applyMapping h0) := by
      intro ms
      induction ms with
      | nil => intro h0 hg _; exact hg
      | cons m ms ih =>
        intro h0 hg hw
        exact ih _ (GoodHosts_applyMapping h0 m hg (hw m (by simp))) (fun x hx => hw x (by simp [hx]))
    exact this ms Hosts.new GoodHosts_new hwf

/-! ## `Hosts::merge` -/

theorem foldl_insert_get {α : Type} (kvs : List (Name × α)) (m : AddrMap α) (n : Name)
    (hnd : (kvs.map (·.1)).Nodup) :
    (kvs.foldl (fun m kv => m.insert kv.1 kv.2) m).get n = (AddrMap.get kvs n).or (m.get n) := by
  induction kvs generalizing m with
  | nil => rfl
  | cons kv rest ih =>
    obtain ⟨k, v⟩ := kv
    simp only [List.map_cons, List.nodup_cons] at hnd
    rw [List.foldl, ih _ hnd.2, AddrMap.get_insert_eq]
    simp only [AddrMap.get]
    by_cases hk : k = n
    · subst hk
      rw [AddrMap.get_none_of_not_mem rest k hnd.1]
      simp
    · simp [hk]

/-- merging: the other file's entry wins per (name, family); everything else stays. -/
theorem merge_get (h o : Hosts) (n4 : o.v4.KeysNodup) (n6 : o.v6.KeysNodup) (n : Name) :
    (h.merge o).v4.get n = (o.v4.get n).or (h.v4.get n) ∧
    (h.merge o).v6.get n = (o.v6.get n).or (h.v6.get n) :=
  ⟨foldl_insert_get o.v4 h.v4 n n4, foldl_insert_get o.v6 h.v6 n n6⟩

end Resolved
