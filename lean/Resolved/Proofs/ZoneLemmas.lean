/-
  Helper lemmas about the zone-tree model (C02 / C12): `RecMap`, `zoneResultHelper`, and the
  reversed-path ("from the apex downwards") presentation of `ZNode.resolve` / `ZNode.insert`.
-/
import Resolved.Spec.ZoneSpec
import Resolved.Proofs.NameLemmas

namespace Resolved

open Gen

/-! ## RecMap basics -/

theorem RecMap.get_mem {m : RecMap} {k : Nat} {v : List ZoneRecord} (h : RecMap.get m k = some v) :
    (k, v) ∈ m := by
  induction m with
  | nil => simp [RecMap.get] at h
  | cons kv rest ih =>
    obtain ⟨k', v'⟩ := kv
    simp only [RecMap.get] at h
    split at h
    · rename_i hk; cases h; subst hk; simp
    · exact List.mem_cons_of_mem _ (ih h)

@[simp] theorem RecMap.get_nil (k : Nat) : RecMap.get [] k = none := rfl

theorem RecMap.get_cons (k' : Nat) (v : List ZoneRecord) (rest : RecMap) (k : Nat) :
    RecMap.get ((k', v) :: rest) k = if k' = k then some v else RecMap.get rest k := rfl

theorem RecMap.get_set_self (m : RecMap) (k : Nat) (v : List ZoneRecord) :
    (m.set k v).get k = some v := by
  induction m with
  | nil => simp [RecMap.set, RecMap.get]
  | cons kv rest ih =>
    obtain ⟨k', v'⟩ := kv
    simp only [RecMap.set]
    split
    · simp [RecMap.get]
    · rename_i hk; simp [RecMap.get, hk, ih]

theorem RecMap.get_set_ne (m : RecMap) (k k2 : Nat) (v : List ZoneRecord) (hne : k ≠ k2) :
    (m.set k v).get k2 = m.get k2 := by
  induction m with
  | nil => simp [RecMap.set, RecMap.get, hne]
  | cons kv rest ih =>
    obtain ⟨k', v'⟩ := kv
    simp only [RecMap.set]
    split
    · rename_i hk; subst hk; simp [RecMap.get, hne]
    · rename_i hk; simp only [RecMap.get]; split <;> simp [ih]

theorem RecMap.get_set (m : RecMap) (k k2 : Nat) (v : List ZoneRecord) :
    (m.set k v).get k2 = if k = k2 then some v else m.get k2 := by
  split
  · rename_i h; subst h; exact RecMap.get_set_self m k v
  · rename_i h; exact RecMap.get_set_ne m k k2 v h

/-- the keys of a record map, in order. -/
def RecMap.keys (m : RecMap) : List Nat := m.map (·.1)

theorem RecMap.get_eq_none_iff (m : RecMap) (k : Nat) : m.get k = none ↔ k ∉ m.keys := by
  induction m with
  | nil => simp [RecMap.keys]
  | cons kv rest ih =>
    obtain ⟨k', v'⟩ := kv
    simp only [RecMap.get, RecMap.keys, List.map_cons, List.mem_cons, not_or]
    split
    · rename_i h; subst h; simp
    · rename_i h
      rw [ih]; simp only [RecMap.keys]
      constructor
      · intro h2; exact ⟨fun e => h e.symm, h2⟩
      · intro h2; exact h2.2

theorem RecMap.keys_set (m : RecMap) (k : Nat) (v : List ZoneRecord) :
    (m.set k v).keys = if k ∈ m.keys then m.keys else m.keys ++ [k] := by
  induction m with
  | nil => simp [RecMap.set, RecMap.keys]
  | cons kv rest ih =>
    obtain ⟨k', v'⟩ := kv
    simp only [RecMap.set]
    split
    · rename_i h; subst h; simp [RecMap.keys]
    · rename_i h
      simp only [RecMap.keys, List.map_cons, List.mem_cons] at ih ⊢
      rw [ih]
      have : ¬ k = k' := fun e => h e.symm
      simp only [this, false_or]
      split <;> rename_i h2 <;> simp [h2]

/-! ## `zoneResultHelper` decomposed -/

theorem lookupNat_qt (qtype : Nat) :
    lookupNat queryTypeFromU16 qtype =
      if qtype = 252 then some "AXFR" else if qtype = 253 then some "MAILB"
      else if qtype = 254 then some "MAILA" else if qtype = 255 then some "Wildcard" else none := by
  simp only [queryTypeFromU16, lookupNat]


/-- the NS record set of a record map (`[]` when absent). -/
def nsOf (records : RecMap) : List ZoneRecord := (records.get RT_NS).getD []

/-- the CNAME step of `zone_result_helper`. -/
def cnameOf (name : Name) (qtype : Nat) (records : RecMap) : Option ZoneResult :=
  if !rtypeMatches RT_CNAME qtype then
    match records.get RT_CNAME with
    | some (z :: _) =>
      match z.fields with
      | [.name cname] => some (.cname cname (z.toRR name))
      | _ => some .panic
    | _ => none
  else none

/-- the data step of `zone_result_helper`. -/
def answerOf (name : Name) (qtype : Nat) (records : RecMap) : ZoneResult :=
  match lookupNat queryTypeFromU16 qtype with
  | some "Wildcard" => .answer (records.flatMap (fun kv => kv.2.map (·.toRR name)))
  | some _ => .answer []
  | none =>
    match records.get qtype with
    | some zrs => .answer (zrs.map (·.toRR name))
    | none => .answer []

/-- `zone_result_helper` after the delegation test: CNAME, then data. -/
def helperData (name : Name) (qtype : Nat) (records : RecMap) : ZoneResult :=
  match cnameOf name qtype records with
  | some r => r
  | none => answerOf name qtype records

theorem zoneResultHelper_eq (name : Name) (qtype : Nat) (records : RecMap) (nsd : Name) (cd : Bool) :
    zoneResultHelper name qtype records nsd cd =
      if cd && qtype != RT_NS && !(nsOf records).isEmpty then
        .delegation ((nsOf records).map (·.toRR nsd))
      else helperData name qtype records := by
  unfold zoneResultHelper nsOf
  cases cd
  · simp only [Bool.false_and, Bool.false_eq_true, if_false]; rfl
  · by_cases hq : qtype = RT_NS
    · simp only [hq, bne_self_eq_false, Bool.and_false, Bool.false_eq_true, if_false, Bool.false_and]; rfl
    · have hq' : (qtype != RT_NS) = true := by simp [hq]
      cases hns : RecMap.get records RT_NS with
      | none => simp only [hq', Bool.and_self, if_true, Option.getD_none, List.isEmpty_nil, Bool.not_true,
          Bool.and_false, Bool.false_eq_true, if_false]; rfl
      | some l =>
        cases l with
        | nil => simp only [hq', Bool.and_self, if_true, Option.getD_some, List.isEmpty_nil, Bool.not_true,
          Bool.and_false, Bool.false_eq_true, if_false]; rfl
        | cons z zs => simp [hq']

theorem cnameOf_cases (name : Name) (qtype : Nat) (records : RecMap) :
    cnameOf name qtype records = none ∨ cnameOf name qtype records = some .panic ∨
    ∃ z zs c, records.get RT_CNAME = some (z :: zs) ∧ z.fields = [.name c] ∧
      rtypeMatches RT_CNAME qtype = false ∧
      cnameOf name qtype records = some (.cname c (z.toRR name)) := by
  unfold cnameOf
  split
  · rename_i hm
    split
    · rename_i z zs hz
      split
      · rename_i c hc
        exact Or.inr (Or.inr ⟨z, zs, c, hz, hc, by simpa using hm, rfl⟩)
      · exact Or.inr (Or.inl rfl)
    · exact Or.inl rfl
  · exact Or.inl rfl

theorem answerOf_cases (name : Name) (qtype : Nat) (records : RecMap) :
    ∃ rrs, answerOf name qtype records = .answer rrs := by
  unfold answerOf
  split
  · exact ⟨_, rfl⟩
  · exact ⟨_, rfl⟩
  · split <;> exact ⟨_, rfl⟩

theorem helperData_ne_delegation (name : Name) (qtype : Nat) (records : RecMap) (rrs : List RR) :
    helperData name qtype records ≠ .delegation rrs := by
  unfold helperData
  rcases cnameOf_cases name qtype records with h | h | ⟨z, zs, c, _, _, _, h⟩ <;> rw [h] <;> simp
  obtain ⟨r, hr⟩ := answerOf_cases name qtype records
  rw [hr]; simp

theorem helperData_ne_nameError (name : Name) (qtype : Nat) (records : RecMap) :
    helperData name qtype records ≠ .nameError := by
  unfold helperData
  rcases cnameOf_cases name qtype records with h | h | ⟨z, zs, c, _, _, _, h⟩ <;> rw [h] <;> simp
  obtain ⟨r, hr⟩ := answerOf_cases name qtype records
  rw [hr]; simp

theorem zoneResultHelper_ne_nameError (name : Name) (qtype : Nat) (records : RecMap) (nsd : Name)
    (cd : Bool) : zoneResultHelper name qtype records nsd cd ≠ .nameError := by
  rw [zoneResultHelper_eq]
  split
  · simp
  · exact helperData_ne_nameError _ _ _

/-! ## clause lemmas for `zoneResultHelper` (A1/A2) -/

theorem zoneResultHelper_delegation_iff (name : Name) (qtype : Nat) (records : RecMap) (nsd : Name)
    (cd : Bool) (rrs : List RR) :
    zoneResultHelper name qtype records nsd cd = .delegation rrs ↔
      cd = true ∧ qtype ≠ RT_NS ∧
      ∃ z zs, records.get RT_NS = some (z :: zs) ∧ rrs = (z :: zs).map (·.toRR nsd) := by
  rw [zoneResultHelper_eq]
  split
  · rename_i hc
    simp only [Bool.and_eq_true, bne_iff_ne, ne_eq, Bool.not_eq_true', List.isEmpty_eq_false_iff] at hc
    obtain ⟨⟨hcd, hq⟩, hns⟩ := hc
    unfold nsOf at hns ⊢
    cases hg : RecMap.get records RT_NS with
    | none => simp [hg] at hns
    | some l =>
      cases l with
      | nil => simp [hg] at hns
      | cons z zs =>
        simp only [Option.getD_some, ZoneResult.delegation.injEq]
        constructor
        · intro h; exact ⟨hcd, hq, z, zs, rfl, h.symm⟩
        · rintro ⟨_, _, z', zs', h1, h⟩
          cases h1; exact h.symm
  · rename_i hc
    constructor
    · intro h; exact absurd h (helperData_ne_delegation _ _ _ _)
    · rintro ⟨hcd, hq, z, zs, hg, _⟩
      exfalso; apply hc
      simp [hcd, hq, nsOf, hg]

theorem zoneResultHelper_no_deleg_eq (name : Name) (qtype : Nat) (records : RecMap) (nsd : Name)
    (cd : Bool) (h : cd = false ∨ qtype = RT_NS ∨ nsOf records = []) :
    zoneResultHelper name qtype records nsd cd = helperData name qtype records := by
  rw [zoneResultHelper_eq]
  rw [if_neg]
  rcases h with h | h | h <;> simp [h]

theorem helperData_answer (name : Name) (qtype : Nat) (records : RecMap) (rrs : List RR)
    (h : helperData name qtype records = .answer rrs) :
    ∀ rr ∈ rrs, ∃ k zrs zr, (k, zrs) ∈ records ∧ zr ∈ zrs ∧ rr = zr.toRR name ∧
      (lookupNat queryTypeFromU16 qtype = none → k = qtype) := by
  unfold helperData at h
  rcases cnameOf_cases name qtype records with hc | hc | ⟨z, zs, c, _, _, _, hc⟩ <;> rw [hc] at h <;>
    simp only [reduceCtorEq] at h
  unfold answerOf at h
  split at h
  · rename_i hq
    cases h
    intro rr hrr
    simp only [List.mem_flatMap, List.mem_map] at hrr
    obtain ⟨⟨k, zrs⟩, hkv, zr, hzr, rfl⟩ := hrr
    exact ⟨k, zrs, zr, hkv, hzr, rfl, by simp [hq]⟩
  · cases h; simp
  · rename_i hq
    split at h
    · rename_i zrs hg
      cases h
      intro rr hrr
      simp only [List.mem_map] at hrr
      obtain ⟨zr, hzr, rfl⟩ := hrr
      exact ⟨qtype, zrs, zr, RecMap.get_mem hg, hzr, rfl, fun _ => rfl⟩
    · cases h; simp

theorem helperData_cname (name : Name) (qtype : Nat) (records : RecMap) (c : Name) (rr : RR)
    (h : helperData name qtype records = .cname c rr) :
    ∃ z zs, records.get RT_CNAME = some (z :: zs) ∧ z.fields = [.name c] ∧ rr = z.toRR name ∧
      rtypeMatches RT_CNAME qtype = false := by
  unfold helperData at h
  rcases cnameOf_cases name qtype records with hc | hc | ⟨z, zs, c', hg, hf, hm, hc⟩ <;> rw [hc] at h <;>
    simp only [reduceCtorEq] at h
  · obtain ⟨r, hr⟩ := answerOf_cases name qtype records
    rw [hr] at h; cases h
  · cases h
    exact ⟨z, zs, hg, hf, rfl, hm⟩

theorem helperData_cname_of (name : Name) (qtype : Nat) (records : RecMap) (z : ZoneRecord)
    (zs : List ZoneRecord) (c : Name) (hg : records.get RT_CNAME = some (z :: zs))
    (hf : z.fields = [.name c]) (hm : rtypeMatches RT_CNAME qtype = false) :
    helperData name qtype records = .cname c (z.toRR name) := by
  unfold helperData cnameOf
  simp [hm, hg, hf]

theorem helperData_of_matches (name : Name) (qtype : Nat) (records : RecMap)
    (hm : rtypeMatches RT_CNAME qtype = true) :
    helperData name qtype records = answerOf name qtype records := by
  unfold helperData cnameOf
  simp [hm]

/-! ## reversed-path presentation: descend from the apex, first label = the one next to the apex -/

namespace ZNode

@[simp] theorem nsdname_mk (n : Name) (t : RecMap) (w : Option RecMap) (c : List (Label × ZNode)) :
    (ZNode.mk n t w c).nsdname = n := rfl
@[simp] theorem this_mk (n : Name) (t : RecMap) (w : Option RecMap) (c : List (Label × ZNode)) :
    (ZNode.mk n t w c).this = t := rfl
@[simp] theorem wildcards_mk (n : Name) (t : RecMap) (w : Option RecMap) (c : List (Label × ZNode)) :
    (ZNode.mk n t w c).wildcards = w := rfl
@[simp] theorem children_mk (n : Name) (t : RecMap) (w : Option RecMap) (c : List (Label × ZNode)) :
    (ZNode.mk n t w c).children = c := rfl
@[simp] theorem nsdname_new (n : Name) : (ZNode.new n).nsdname = n := rfl
@[simp] theorem this_new (n : Name) : (ZNode.new n).this = [] := rfl
@[simp] theorem wildcards_new (n : Name) : (ZNode.new n).wildcards = none := rfl
@[simp] theorem children_new (n : Name) : (ZNode.new n).children = [] := rfl

/-- follow `childGet` along a reversed relative name (apex-side label first). -/
def descend (node : ZNode) : List Label → Option ZNode
  | [] => some node
  | l :: rest =>
    match childGet node.children l with
    | some c => c.descend rest
    | none => none

/-- `resolve` on the reversed relative name, by structural recursion. -/
def resolveRev (node : ZNode) (name : Name) (qtype : Nat) : List Label → Bool → ZoneResult
  | [], isApex => zoneResultHelper name qtype node.this node.nsdname (!isApex)
  | lbl :: rest, isApex =>
    match childGet node.children lbl with
    | some child => child.resolveRev name qtype rest false
    | none =>
      match node.wildcards with
      | some ws =>
        match Name.fromLabels (lbl :: node.nsdname.labels) with
        | some nsd => zoneResultHelper name qtype ws nsd true
        | none => .panic
      | none =>
        if isApex then .nameError
        else
          match node.this.get RT_NS with
          | some (z :: zs) => .delegation ((z :: zs).map (·.toRR node.nsdname))
          | _ => .nameError

theorem resolve_reverse (name : Name) (qtype : Nat) (r : List Label) :
    ∀ (node : ZNode) (isApex : Bool),
      node.resolve name qtype r.reverse isApex = node.resolveRev name qtype r isApex := by
  induction r with
  | nil =>
    intro node isApex
    rw [ZNode.resolve]
    split
    · rfl
    · rename_i h; simp at h
  | cons l rest ih =>
    intro node isApex
    rw [ZNode.resolve]
    split
    · rename_i h; simp at h
    · rename_i lbl h
      have hl : lbl = l := by simpa using h.symm
      subst hl
      simp only [List.reverse_cons, List.dropLast_concat, resolveRev]
      cases hc : childGet node.children lbl with
      | some child => simp only; exact ih child false
      | none => rfl

theorem resolve_eq_rev (node : ZNode) (name : Name) (qtype : Nat) (rel : List Label) (isApex : Bool) :
    node.resolve name qtype rel isApex = node.resolveRev name qtype rel.reverse isApex := by
  have := resolve_reverse name qtype rel.reverse node isApex
  simpa using this

/-- `insert` / `insert_wildcard` on the reversed relative name, by structural recursion. -/
def insertRev (node : ZNode) : List Label → ZoneRecord → Bool → Option ZNode
  | [], zr, wild =>
    if wild then
      match node.wildcards with
      | some ws => some (.mk node.nsdname node.this (some (ws.insertRecord zr)) node.children)
      | none => some (.mk node.nsdname node.this (some [(zr.rtype, [zr])]) node.children)
    else some (.mk node.nsdname (node.this.insertRecord zr) node.wildcards node.children)
  | lbl :: rest, zr, wild =>
    match childGet node.children lbl with
    | some child =>
      match child.insertRev rest zr wild with
      | some child' =>
        some (.mk node.nsdname node.this node.wildcards (childSet node.children lbl child'))
      | none => none
    | none =>
      match Name.fromLabels (lbl :: node.nsdname.labels) with
      | none => none
      | some nsd =>
        match (ZNode.new nsd).insertRev rest zr wild with
        | some child' =>
          some (.mk node.nsdname node.this node.wildcards (childSet node.children lbl child'))
        | none => none

theorem insert_reverse (zr : ZoneRecord) (wild : Bool) (r : List Label) :
    ∀ (node : ZNode), node.insert r.reverse zr wild = node.insertRev r zr wild := by
  induction r with
  | nil =>
    intro node
    rw [ZNode.insert]
    split
    · rfl
    · rename_i h; simp at h
  | cons l rest ih =>
    intro node
    rw [ZNode.insert]
    split
    · rename_i h; simp at h
    · rename_i lbl h
      have hl : lbl = l := by simpa using h.symm
      subst hl
      simp only [List.reverse_cons, List.dropLast_concat, insertRev]
      cases hc : childGet node.children lbl with
      | some child => simp only; rw [ih child]; rfl
      | none =>
        simp only
        cases hn : Name.fromLabels (lbl :: node.nsdname.labels) with
        | none => rfl
        | some nsd => simp only; rw [ih (ZNode.new nsd)]; rfl

theorem insert_eq_rev (node : ZNode) (rel : List Label) (zr : ZoneRecord) (wild : Bool) :
    node.insert rel zr wild = node.insertRev rel.reverse zr wild := by
  have := insert_reverse zr wild rel.reverse node
  simpa using this

/-! ### descend / resolveRev -/

@[simp] theorem descend_nil (node : ZNode) : node.descend [] = some node := rfl

theorem descend_cons (node : ZNode) (l : Label) (rest : List Label) :
    node.descend (l :: rest) = (childGet node.children l).bind (fun c => c.descend rest) := by
  simp only [descend]; cases childGet node.children l <;> rfl

theorem descend_append (node : ZNode) (r1 r2 : List Label) :
    node.descend (r1 ++ r2) = (node.descend r1).bind (fun n => n.descend r2) := by
  induction r1 generalizing node with
  | nil => simp
  | cons l rest ih =>
    simp only [List.cons_append, descend_cons]
    cases childGet node.children l with
    | none => rfl
    | some c => simp [ih]

/-- a prefix of an existing path exists. -/
theorem descend_prefix_isSome (node : ZNode) (r1 r2 : List Label)
    (h : (node.descend (r1 ++ r2)).isSome) : (node.descend r1).isSome := by
  rw [descend_append] at h
  cases hd : node.descend r1 with
  | none => simp [hd] at h
  | some n => rfl

/-- resolving continues from any node reached along the path. -/
theorem resolveRev_descend (name : Name) (qtype : Nat) (r1 r2 : List Label) :
    ∀ (node n : ZNode) (isApex : Bool), node.descend r1 = some n →
      node.resolveRev name qtype (r1 ++ r2) isApex =
        n.resolveRev name qtype r2 (isApex && r1.isEmpty) := by
  induction r1 with
  | nil => intro node n isApex h; simp at h; subst h; simp
  | cons l rest ih =>
    intro node n isApex h
    simp only [descend_cons] at h
    cases hc : childGet node.children l with
    | none => simp [hc] at h
    | some c =>
      simp only [hc, Option.bind_some] at h
      simp only [List.cons_append, resolveRev, hc, List.isEmpty_cons, Bool.and_false]
      rw [ih c n false h]; simp

/-- what `resolve` returns at the node where the descent stops for lack of a child. -/
def stopResult (n : ZNode) (name : Name) (qtype : Nat) (lbl : Label) (isApex : Bool) : ZoneResult :=
  match n.wildcards with
  | some ws =>
    match Name.fromLabels (lbl :: n.nsdname.labels) with
    | some nsd => zoneResultHelper name qtype ws nsd true
    | none => .panic
  | none =>
    if isApex then .nameError
    else
      match n.this.get RT_NS with
      | some (z :: zs) => .delegation ((z :: zs).map (·.toRR n.nsdname))
      | _ => .nameError

theorem resolveRev_stop (n : ZNode) (name : Name) (qtype : Nat) (lbl : Label) (rest : List Label)
    (isApex : Bool) (h : childGet n.children lbl = none) :
    n.resolveRev name qtype (lbl :: rest) isApex = stopResult n name qtype lbl isApex := by
  simp only [resolveRev, h, stopResult]

/-- the full path exists: the result is `zone_result_helper` at the node reached. -/
theorem resolveRev_of_descend (node n : ZNode) (name : Name) (qtype : Nat) (r : List Label)
    (isApex : Bool) (h : node.descend r = some n) :
    node.resolveRev name qtype r isApex =
      zoneResultHelper name qtype n.this n.nsdname (!(isApex && r.isEmpty)) := by
  have := resolveRev_descend name qtype r [] node n isApex h
  simpa [resolveRev] using this

/-- every path either exists in full, or stops at a unique deepest existing node. -/
theorem descend_none_split (r : List Label) : ∀ (node : ZNode), node.descend r = none →
    ∃ r1 l r2 n, r = r1 ++ l :: r2 ∧ node.descend r1 = some n ∧ childGet n.children l = none := by
  induction r with
  | nil => intro node h; simp at h
  | cons l rest ih =>
    intro node h
    cases hc : childGet node.children l with
    | none => exact ⟨[], l, rest, node, rfl, rfl, hc⟩
    | some c =>
      simp only [descend_cons, hc, Option.bind_some] at h
      obtain ⟨r1, l', r2, n, hr, hd, hn⟩ := ih c h
      refine ⟨l :: r1, l', r2, n, by simp [hr], ?_, hn⟩
      simp [descend_cons, hc, hd]

end ZNode

/-- The path `rel` (name order; followed from its LAST label) exists in the tree under `node`. -/
inductive PathExists : ZNode → List Label → Prop
  | here (node : ZNode) : PathExists node []
  | step (node child : ZNode) (rel : List Label) (lbl : Label) :
      ZNode.childGet node.children lbl = some child → PathExists child rel →
      PathExists node (rel ++ [lbl])

theorem pathExists_iff_descend_rev (r : List Label) : ∀ (node : ZNode),
    PathExists node r.reverse ↔ (node.descend r).isSome := by
  induction r with
  | nil => intro node; simp; exact PathExists.here node
  | cons l rest ih =>
    intro node
    simp only [List.reverse_cons, ZNode.descend_cons]
    constructor
    · intro h
      generalize hq : rest.reverse ++ [l] = q at h
      cases h with
      | here => simp at hq
      | step _ child rel lbl hc hp =>
        have := List.append_inj' hq (by simp)
        obtain ⟨h1, h2⟩ := this
        simp only [List.cons.injEq, and_true] at h2
        subst h2; subst h1
        simp [hc, (ih child).mp hp]
    · intro h
      cases hc : ZNode.childGet node.children l with
      | none => simp [hc] at h
      | some c =>
        simp only [hc, Option.bind_some] at h
        exact PathExists.step node c _ l hc ((ih c).mpr h)

theorem pathExists_iff_descend (node : ZNode) (rel : List Label) :
    PathExists node rel ↔ (node.descend rel.reverse).isSome := by
  have := pathExists_iff_descend_rev rel.reverse node
  simpa using this

/-- the node owning the relative name `rel` (name order), if it exists. -/
def ZNode.nodeAt (node : ZNode) (rel : List Label) : Option ZNode := node.descend rel.reverse

theorem pathExists_iff_nodeAt (node : ZNode) (rel : List Label) :
    PathExists node rel ↔ ∃ n, node.nodeAt rel = some n := by
  rw [pathExists_iff_descend, ZNode.nodeAt, Option.isSome_iff_exists]

/-- `resolve` of an existing path. -/
theorem resolve_of_nodeAt (node n : ZNode) (name : Name) (qtype : Nat) (rel : List Label)
    (isApex : Bool) (h : node.nodeAt rel = some n) :
    node.resolve name qtype rel isApex =
      zoneResultHelper name qtype n.this n.nsdname (!(isApex && rel.isEmpty)) := by
  rw [ZNode.resolve_eq_rev, ZNode.resolveRev_of_descend node n name qtype _ isApex h]
  simp

/-- `resolve` of a path that does not exist in full: it stops at the deepest existing node. -/
theorem resolve_of_not_pathExists (node : ZNode) (name : Name) (qtype : Nat) (rel : List Label)
    (isApex : Bool) (h : ¬ PathExists node rel) :
    ∃ pre lbl suf n, rel = pre ++ lbl :: suf ∧ node.nodeAt suf = some n ∧
      ZNode.childGet n.children lbl = none ∧
      node.resolve name qtype rel isApex =
        ZNode.stopResult n name qtype lbl (isApex && suf.isEmpty) := by
  rw [pathExists_iff_descend] at h
  have hn : node.descend rel.reverse = none := by
    cases hd : node.descend rel.reverse with
    | none => rfl
    | some x => simp [hd] at h
  obtain ⟨r1, l, r2, n, hr, hd, hc⟩ := ZNode.descend_none_split _ node hn
  refine ⟨r2.reverse, l, r1.reverse, n, ?_, by simpa [ZNode.nodeAt] using hd, hc, ?_⟩
  · have := congrArg List.reverse hr
    simpa using this
  · rw [ZNode.resolve_eq_rev, hr, ZNode.resolveRev_descend name qtype r1 (l :: r2) node n isApex hd,
      ZNode.resolveRev_stop _ _ _ _ _ _ hc]
    simp

theorem stopResult_nameError (n : ZNode) (name : Name) (qtype : Nat) (lbl : Label) (isApex : Bool)
    (h : ZNode.stopResult n name qtype lbl isApex = .nameError) :
    n.wildcards = none ∧ (isApex = true ∨ nsOf n.this = []) := by
  unfold ZNode.stopResult at h
  split at h
  · split at h
    · exact absurd h (zoneResultHelper_ne_nameError _ _ _ _ _)
    · cases h
  · rename_i hw
    refine ⟨hw, ?_⟩
    split at h
    · rename_i ha; exact Or.inl ha
    · right
      unfold nsOf
      split at h
      · cases h
      · rename_i hns
        cases hg : RecMap.get n.this RT_NS with
        | none => rfl
        | some l =>
          cases l with
          | nil => rfl
          | cons z zs => exact absurd hg (hns z zs)

end Resolved
