/-
  C11: the zone `Zone::deserialise` builds from `render ds v`, against the meaning `denote ds`.
-/
import Resolved.Proofs.ZoneTextSpecLoop
import Resolved.Proofs.ZoneTextTree

namespace Resolved.ZoneText

open Resolved Resolved.IpText Gen ZTSpec

/-! ## the names the specification's state holds -/

structure DstNames (dst : DenoteState) : Prop where
  origin : ∀ on, dst.origin = some on → TextName on
  prev : ∀ p, dst.prevOwner = some p → TextName p.2
  soa : ∀ p, dst.soa = some p → TextName p.1
  recs : ∀ fr ∈ dst.records, TextName fr.owner
  wilds : ∀ fr ∈ dst.wildcards, TextName fr.owner

theorem dstNames_init : DstNames {} := by
  refine ⟨?_, ?_, ?_, ?_, ?_⟩
  · intro _ h; cases h
  · intro _ h; cases h
  · intro _ h; cases h
  · intro _ h; simp at h
  · intro _ h; simp at h

theorem resolveOwner_textName (o : Option Name) (ho : ∀ on, o = some on → TextName on) (ow : OwnerRef)
    (hok : ownerRefOk false ow = true) {p : Bool × Name} (h : resolveOwner o ow = .ok p) : TextName p.2 := by
  cases ow with
  | star =>
    simp only [resolveOwner] at h
    cases o with
    | none => cases h
    | some on => cases h; exact ho _ rfl
  | wild n =>
    have hn : nameRefOk false n = true := by simpa [ownerRefOk] using hok
    simp only [resolveOwner] at h
    cases hr : resolve o n with
    | error e => rw [hr] at h; simp [Except.map] at h
    | ok nm =>
      rw [hr] at h
      simp only [Except.map, Except.ok.injEq] at h
      subst h
      exact resolve_textName o ho n hn hr
  | name n =>
    simp only [ownerRefOk, Bool.and_eq_true] at hok
    have hn : nameRefOk false n = true := hok.1.1.1.1.1.1
    simp only [resolveOwner] at h
    cases hr : resolve o n with
    | error e => rw [hr] at h; simp [Except.map] at h
    | ok nm =>
      rw [hr] at h
      simp only [Except.map, Except.ok.injEq] at h
      subst h
      exact resolve_textName o ho n hn hr

theorem denoteRecord_names (dst : DenoteState) (r : Rec) (dst' : DenoteState) (h : DstNames dst)
    (hok : directiveOk false (.record r) = true) (hd : denoteRecord dst r = .ok dst') : DstNames dst' := by
  obtain ⟨hownOk, -, hfits, -⟩ := directiveOk_record hok
  have hden' : denoteRecord.denoteRecordIN dst r = .ok dst' := by
    unfold denoteRecord at hd
    cases hcl : r.cls with
    | none => rw [hcl] at hd; exact hd
    | some c =>
      rw [hcl] at hd
      simp only at hd
      split at hd
      · cases hd
      · exact hd
  unfold denoteRecord.denoteRecordIN at hden'
  simp only at hden'
  split at hden'
  · cases hden'
  · rename_i wild name howner
    have hname : TextName name := by
      cases ho : r.owner with
      | some ow =>
        rw [ho] at howner
        simp only at howner
        exact resolveOwner_textName dst.origin h.origin ow (hownOk ow ho) howner
      | none =>
        rw [ho] at howner
        simp only at howner
        cases hp : dst.prevOwner with
        | none => rw [hp] at howner; cases howner
        | some p => rw [hp] at howner; cases howner; exact h.prev _ hp
    simp only [hfits, Bool.not_true, Bool.false_eq_true, if_false] at hden'
    split at hden'
    · cases hden'
    · split at hden'
      · split at hden'
        · cases hden'
        · split at hden'
          · cases hden'
          · split at hden'
            · cases hden'
            · simp only [Except.ok.injEq] at hden'
              subst hden'
              exact ⟨h.origin, (fun p hp => by cases hp; exact hname), (fun p hp => by cases hp; exact hname),
                h.recs, h.wilds⟩
      · split at hden'
        · cases hden'
        · simp only [Except.ok.injEq] at hden'
          subst hden'
          cases wild with
          | true =>
            simp only [if_true]
            refine ⟨h.origin, (fun p hp => by cases hp; exact hname), h.soa, h.recs, ?_⟩
            intro fr hfr
            simp only [List.mem_append, List.mem_singleton] at hfr
            rcases hfr with hfr | rfl
            · exact h.wilds fr hfr
            · exact hname
          | false =>
            simp only [Bool.false_eq_true, if_false]
            refine ⟨h.origin, (fun p hp => by cases hp; exact hname), h.soa, ?_, h.wilds⟩
            intro fr hfr
            simp only [List.mem_append, List.mem_singleton] at hfr
            rcases hfr with hfr | rfl
            · exact h.recs fr hfr
            · exact hname

theorem denoteAll_names (ds : List Directive) :
    ∀ (dst dstF : DenoteState), DstNames dst → (∀ d ∈ ds, directiveOk false d = true) →
      denoteAll dst ds = .ok dstF → DstNames dstF := by
  induction ds with
  | nil => intro dst dstF h _ hd; simp only [denoteAll, Except.ok.injEq] at hd; subst hd; exact h
  | cons d ds ih =>
    intro dst dstF h hok hd
    simp only [denoteAll] at hd
    cases hdd : denoteDirective dst d with
    | error e => rw [hdd] at hd; cases hd
    | ok dst1 =>
      rw [hdd] at hd
      have hdOk := hok d (by simp)
      have h1 : DstNames dst1 := by
        cases d with
        | blank c => simp only [denoteDirective, Except.ok.injEq] at hdd; subst hdd; exact h
        | «include» p o => simp [denoteDirective] at hdd
        | origin n =>
          simp only [denoteDirective] at hdd
          cases hr : resolve dst.origin n with
          | error e => rw [hr] at hdd; cases hdd
          | ok o' =>
            rw [hr] at hdd
            simp only [Except.ok.injEq] at hdd
            subst hdd
            exact ⟨(fun on hon => by cases hon; exact resolve_textName dst.origin h.origin n hdOk hr),
              h.prev, h.soa, h.recs, h.wilds⟩
        | record r => exact denoteRecord_names dst r dst1 h hdOk hdd
      exact ih dst1 dstF h1 (fun x hx => hok x (by simp [hx])) hd

section built
open ZSpec ZNode

/-! ## the zone built from the collected records -/

/-- the records of a zone as a flat list. -/
def zoneFlat (m : List (Name × List ZoneRecord)) : List FlatRecord :=
  m.flatMap (fun p => p.2.map (fun zr => { owner := p.1, rtype := zr.rtype, fields := zr.fields, ttl := zr.ttl }))

theorem mem_zoneFlat_records (z : Zone) (r : FlatRecord) :
    r ∈ zoneFlat z.allRecords ↔ FlatRec z r.owner ⟨r.rtype, r.fields, r.ttl⟩ := by
  unfold zoneFlat FlatRec
  simp only [List.mem_flatMap, List.mem_map]
  constructor
  · rintro ⟨⟨n, zrs⟩, hm, zr, hzr, rfl⟩
    exact ⟨zrs, hm, by cases zr; exact hzr⟩
  · rintro ⟨zrs, hm, hzr⟩
    exact ⟨(r.owner, zrs), hm, ⟨r.rtype, r.fields, r.ttl⟩, hzr, by cases r; rfl⟩

theorem mem_zoneFlat_wildcards (z : Zone) (r : FlatRecord) :
    r ∈ zoneFlat z.allWildcardRecords ↔ FlatWild z r.owner ⟨r.rtype, r.fields, r.ttl⟩ := by
  unfold zoneFlat FlatWild
  simp only [List.mem_flatMap, List.mem_map]
  constructor
  · rintro ⟨⟨n, zrs⟩, hm, zr, hzr, rfl⟩
    exact ⟨zrs, hm, by cases zr; exact hzr⟩
  · rintro ⟨zrs, hm, hzr⟩
    exact ⟨(r.owner, zrs), hm, ⟨r.rtype, r.fields, r.ttl⟩, hzr, by cases r; rfl⟩

/-- `Zone::actual_ttl` as a function of the SOA. -/
def clampTtl (soa : Option SOA) (t : Nat) : Nat :=
  match soa with
  | some s => max s.minimum t
  | none => t

/-- the entry the insertion of a collected record contributes. -/
theorem opEntry_fr (apex : Name) (soa : Option SOA) (w : Bool) (fr : FlatRecord)
    (hsub : fr.owner.isSubdomainOf apex = true) :
    ∃ rel, rel ++ apex.labels = fr.owner.labels ∧
      opEntry (Zone.new apex soa) (toOp w (frRR fr)) = some ⟨rel, w, ⟨fr.rtype, fr.fields, clampTtl soa fr.ttl⟩⟩ := by
  obtain ⟨ha, hs⟩ := Zone.new_apex_soa apex soa
  have hsuf : apex.labels <:+ fr.owner.labels := by
    unfold Name.isSubdomainOf at hsub
    simpa using hsub
  obtain ⟨rel, hrel⟩ := hsuf
  refine ⟨rel, hrel, ?_⟩
  unfold opEntry Zone.relativeDomain Zone.actualTtl
  simp only [toOp, frRR, ha, hs, hsub, if_true]
  have htake : fr.owner.labels.take (fr.owner.labels.length - apex.labels.length) = rel := by
    rw [← hrel]; simp
  rw [htake]
  cases soa <;> rfl

theorem mem_entriesOf (apex : Name) (soa : Option SOA) (ops : List ZoneOp) (e : ZSpec.Entry) :
    e ∈ entriesOf apex soa ops ↔
      (∃ s, soa = some s ∧ e = ⟨[], false, Zone.soaRecord s⟩) ∨
      ∃ op ∈ ops, opEntry (Zone.new apex soa) op = some e := by
  unfold entriesOf
  simp only [List.mem_append, List.mem_filterMap]
  constructor
  · rintro (h | h)
    · cases soa with
      | none => simp at h
      | some s => simp at h; exact Or.inl ⟨s, rfl, h⟩
    · exact Or.inr h
  · rintro (⟨s, rfl, rfl⟩ | h)
    · left; simp
    · exact Or.inr h

/-- **what a zone built from collected records lists**: the SOA record at the apex, and every
    collected record with its TTL raised to the SOA minimum. -/
theorem built_flat (apex : Name) (soa : Option SOA) (frs wfrs : List FlatRecord) (z : Zone)
    (hap : NameOK apex)
    (hnames : ∀ fr ∈ frs ++ wfrs, NameOK fr.owner ∧ fr.owner.isSubdomainOf apex = true)
    (hb : Zone.build apex soa ((frs.map frRR).map (toOp false) ++ (wfrs.map frRR).map (toOp true)) = some z) :
    (∀ n zr, FlatRec z n zr ↔
      (∃ s, soa = some s ∧ n = apex ∧ zr = Zone.soaRecord s) ∨
      ∃ fr ∈ frs, n = fr.owner ∧ zr = ⟨fr.rtype, fr.fields, clampTtl soa fr.ttl⟩) ∧
    (∀ n zr, FlatWild z n zr ↔ ∃ fr ∈ wfrs, n = fr.owner ∧ zr = ⟨fr.rtype, fr.fields, clampTtl soa fr.ttl⟩) := by
  obtain ⟨hr, hk⟩ := built_repr apex soa _ z hap hb
  -- entries of the operations
  have hops : ∀ (e : ZSpec.Entry) (n : Name), Name.fromLabels (e.rel ++ apex.labels) = some n →
      ((∃ op ∈ (frs.map frRR).map (toOp false) ++ (wfrs.map frRR).map (toOp true),
          opEntry (Zone.new apex soa) op = some e) ↔
        ∃ fr, ((e.wild = false ∧ fr ∈ frs) ∨ (e.wild = true ∧ fr ∈ wfrs)) ∧ n = fr.owner ∧
          e.zr = ⟨fr.rtype, fr.fields, clampTtl soa fr.ttl⟩) := by
    intro e n hn
    constructor
    · rintro ⟨op, hop, hoe⟩
      simp only [List.mem_append, List.mem_map] at hop
      rcases hop with ⟨rr, ⟨fr, hfr, rfl⟩, rfl⟩ | ⟨rr, ⟨fr, hfr, rfl⟩, rfl⟩
      · obtain ⟨hno, hsub⟩ := hnames fr (by simp [hfr])
        obtain ⟨rel, hrel, hoe'⟩ := opEntry_fr apex soa false fr hsub
        rw [hoe'] at hoe
        cases hoe
        refine ⟨fr, Or.inl ⟨rfl, hfr⟩, ?_, rfl⟩
        simp only at hn
        rw [hrel, hno] at hn
        exact (Option.some.inj hn).symm
      · obtain ⟨hno, hsub⟩ := hnames fr (by simp [hfr])
        obtain ⟨rel, hrel, hoe'⟩ := opEntry_fr apex soa true fr hsub
        rw [hoe'] at hoe
        cases hoe
        refine ⟨fr, Or.inr ⟨rfl, hfr⟩, ?_, rfl⟩
        simp only at hn
        rw [hrel, hno] at hn
        exact (Option.some.inj hn).symm
    · rintro ⟨fr, hw, hnf, hzr⟩
      have hmem : fr ∈ frs ++ wfrs := by
        rcases hw with ⟨-, h⟩ | ⟨-, h⟩ <;> simp [h]
      obtain ⟨hno, hsub⟩ := hnames fr hmem
      have hlab := fromLabels_labels hn
      rw [hnf] at hlab
      rcases hw with ⟨hwf, hfr⟩ | ⟨hwt, hfr⟩
      · obtain ⟨rel, hrel, hoe'⟩ := opEntry_fr apex soa false fr hsub
        have hrel_eq : rel = e.rel := List.append_cancel_right (hrel.trans hlab)
        refine ⟨toOp false (frRR fr), by simp only [List.mem_append, List.mem_map]; exact Or.inl ⟨_, ⟨fr, hfr, rfl⟩, rfl⟩, ?_⟩
        rw [hoe', hrel_eq]
        cases e
        simp only at hwf hzr
        subst hwf; subst hzr; rfl
      · obtain ⟨rel, hrel, hoe'⟩ := opEntry_fr apex soa true fr hsub
        have hrel_eq : rel = e.rel := List.append_cancel_right (hrel.trans hlab)
        refine ⟨toOp true (frRR fr), by simp only [List.mem_append, List.mem_map]; exact Or.inr ⟨_, ⟨fr, hfr, rfl⟩, rfl⟩, ?_⟩
        rw [hoe', hrel_eq]
        cases e
        simp only at hwt hzr
        subst hwt; subst hzr; rfl
  constructor
  · intro n zr
    rw [flatRec_iff hr hk n zr]
    constructor
    · rintro ⟨e, he, hw, hzr, hn⟩
      rcases (mem_entriesOf apex soa _ e).mp he with ⟨s, hs, rfl⟩ | hop
      · left
        refine ⟨s, hs, ?_, hzr.symm⟩
        simp only [List.nil_append] at hn
        rw [hap] at hn
        exact (Option.some.inj hn).symm
      · right
        obtain ⟨fr, hfrw, hnf, hez⟩ := (hops e n hn).mp hop
        rcases hfrw with ⟨-, hfr⟩ | ⟨hwt, -⟩
        · exact ⟨fr, hfr, hnf, by rw [← hzr, hez]⟩
        · rw [hw] at hwt; cases hwt
    · rintro (⟨s, hs, rfl, rfl⟩ | ⟨fr, hfr, rfl, rfl⟩)
      · exact ⟨⟨[], false, Zone.soaRecord s⟩, (mem_entriesOf n soa _ _).mpr (Or.inl ⟨s, hs, rfl⟩), rfl, rfl,
          by simpa [NameOK] using hap⟩
      · obtain ⟨hno, hsub⟩ := hnames fr (by simp [hfr])
        obtain ⟨rel, hrel, hoe'⟩ := opEntry_fr apex soa false fr hsub
        refine ⟨⟨rel, false, ⟨fr.rtype, fr.fields, clampTtl soa fr.ttl⟩⟩, ?_, rfl, rfl, by rw [hrel]; exact hno⟩
        apply (mem_entriesOf apex soa _ _).mpr
        right
        exact ⟨toOp false (frRR fr), by simp only [List.mem_append, List.mem_map]; exact Or.inl ⟨_, ⟨fr, hfr, rfl⟩, rfl⟩, hoe'⟩
  · intro n zr
    rw [flatWild_iff hr hk n zr]
    constructor
    · rintro ⟨e, he, hw, hzr, hn⟩
      rcases (mem_entriesOf apex soa _ e).mp he with ⟨s, hs, rfl⟩ | hop
      · simp at hw
      · obtain ⟨fr, hfrw, hnf, hez⟩ := (hops e n hn).mp hop
        rcases hfrw with ⟨hwf, -⟩ | ⟨-, hfr⟩
        · rw [hw] at hwf; cases hwf
        · exact ⟨fr, hfr, hnf, by rw [← hzr, hez]⟩
    · rintro ⟨fr, hfr, rfl, rfl⟩
      obtain ⟨hno, hsub⟩ := hnames fr (by simp [hfr])
      obtain ⟨rel, hrel, hoe'⟩ := opEntry_fr apex soa true fr hsub
      refine ⟨⟨rel, true, ⟨fr.rtype, fr.fields, clampTtl soa fr.ttl⟩⟩, ?_, rfl, rfl, by rw [hrel]; exact hno⟩
      apply (mem_entriesOf apex soa _ _).mpr
      right
      exact ⟨toOp true (frRR fr), by simp only [List.mem_append, List.mem_map]; exact Or.inr ⟨_, ⟨fr, hfr, rfl⟩, rfl⟩, hoe'⟩

theorem mem_dedup {α} [DecidableEq α] (l : List α) (x : α) : x ∈ ZTSpec.dedup l ↔ x ∈ l := by
  induction l with
  | nil => simp [ZTSpec.dedup]
  | cons a as ih =>
    simp only [ZTSpec.dedup, List.mem_cons, List.mem_filter, ih, decide_eq_true_eq]
    constructor
    · rintro (h | ⟨h, -⟩)
      · exact Or.inl h
      · exact Or.inr h
    · rintro (h | h)
      · exact Or.inl h
      · by_cases hx : x = a
        · exact Or.inl hx
        · exact Or.inr ⟨h, hx⟩

theorem unambiguous_directives {ds : List Directive} (h : Unambiguous ds = true) :
    ∀ d ∈ ds, directiveOk false d = true := by
  simp only [Unambiguous, Bool.and_eq_true, List.all_eq_true] at h
  exact h.1

def apexOf (dst : DenoteState) : Name := match dst.soa with | some (a, _) => a | none => Name.root
def minOf (dst : DenoteState) : Nat := match dst.soa with | some (_, s) => s.minimum | none => 0
def clampFr (dst : DenoteState) (r : FlatRecord) : FlatRecord := { r with ttl := max (minOf dst) r.ttl }
def soaRecOf (dst : DenoteState) : List FlatRecord :=
  match dst.soa with
  | some (a, s) => [{ owner := a, rtype := 6, fields := s.toFields, ttl := s.minimum }]
  | none => []

/-- the final step of `denote`, spelled out. -/
theorem denote_eq (ds : List Directive) :
    denote ds =
      match denoteAll {} ds with
      | .error e => .error e
      | .ok dst =>
        if (dst.records ++ dst.wildcards).all (fun r => ZTSpec.isSuffix (apexOf dst) r.owner) then
          .ok { apex := apexOf dst, soa := dst.soa.map (·.2),
                records := ZTSpec.dedup (soaRecOf dst ++ dst.records.map (clampFr dst)),
                wildcards := ZTSpec.dedup (dst.wildcards.map (clampFr dst)) }
        else .error .outsideApex := by
  unfold denote
  cases hall : denoteAll {} ds with
  | error e => rfl
  | ok dst =>
    simp only
    cases hs : dst.soa with
    | none =>
      have hc : clampFr dst = fun r => { r with ttl := max 0 r.ttl } := by
        funext r; simp [clampFr, minOf, hs]
      simp only [apexOf, soaRecOf, hs, hc]
      cases (dst.records ++ dst.wildcards).all (fun r => ZTSpec.isSuffix Name.root r.owner) <;> rfl
    | some p =>
      obtain ⟨a, s⟩ := p
      have hc : clampFr dst = fun r => { r with ttl := max s.minimum r.ttl } := by
        funext r; simp [clampFr, minOf, hs]
      simp only [apexOf, soaRecOf, hs, hc]
      cases (dst.records ++ dst.wildcards).all (fun r => ZTSpec.isSuffix a r.owner) <;> rfl

theorem clampFr_ttl (dst : DenoteState) (fr : FlatRecord) :
    clampFr dst fr = ⟨fr.owner, fr.rtype, fr.fields, clampTtl (dst.soa.map (·.2)) fr.ttl⟩ := by
  unfold clampFr minOf clampTtl
  cases hs : dst.soa with
  | none => simp
  | some p => rfl

/-- **C11, accepted files**: if `ds` satisfies the side condition and the specification gives it the
    meaning `m`, then parsing `render ds v` — in any lexical variant `v` whose comments hold no line
    feed — succeeds and gives a zone with the apex, the SOA, the records and the wildcard records of
    `m` (records as `(owner, type, fields, ttl)`, TTLs raised to the SOA minimum). -/
theorem parse_render_accepted (ds : List Directive) (v : FileVar) (hu : Unambiguous ds = true)
    (hv : VariantOk v) (m : Meaning) (hm : denote ds = .ok m) :
    ∃ z, deserialise (render ds v) = .ok z ∧ z.apex = m.apex ∧ z.soa = m.soa ∧
      (∀ r, r ∈ zoneFlat z.allRecords ↔ r ∈ m.records) ∧
      (∀ r, r ∈ zoneFlat z.allWildcardRecords ↔ r ∈ m.wildcards) := by
  have hok := unambiguous_directives hu
  rw [denote_eq] at hm
  cases hall : denoteAll {} ds with
  | error e => rw [hall] at hm; cases hm
  | ok dstF =>
    rw [hall] at hm
    simp only at hm
    split at hm
    · rename_i hunder
      simp only [List.all_eq_true, List.mem_append] at hunder
      simp only [Except.ok.injEq] at hm
      obtain ⟨stF, hdes, hrel⟩ := deserialise_render ds v hv hok dstF hall
      have hnames := denoteAll_names ds {} dstF dstNames_init hok hall
      -- apex and SOA
      let apex : Name := apexOf dstF
      let soa : Option SOA := dstF.soa.map (·.2)
      have hapex : NameOK apex := by
        show Name.fromLabels apex.labels = some apex
        cases hs : dstF.soa with
        | none => simp only [apex, apexOf, hs]; decide
        | some p => simp only [apex, apexOf, hs]; exact (hnames.soa p hs).1
      have hbz : buildZone stF = insertBoth (Zone.new apex soa) (dstF.records.map frRR) (dstF.wildcards.map frRR) := by
        rw [buildZone_eq, hrel.soa, hrel.rrs, hrel.wrrs]
        cases hs : dstF.soa with
        | none => simp only [apex, soa, apexOf, hs]; rfl
        | some p => simp only [apex, soa, apexOf, hs]; rfl
      have hfrs : ∀ fr ∈ dstF.records ++ dstF.wildcards, NameOK fr.owner ∧ fr.owner.isSubdomainOf apex = true := by
        intro fr hfr
        simp only [List.mem_append] at hfr
        refine ⟨?_, ?_⟩
        · rcases hfr with h | h
          · exact (hnames.recs fr h).1
          · exact (hnames.wilds fr h).1
        · have := hunder fr hfr
          simpa [ZTSpec.isSuffix, Name.isSubdomainOf, apex] using this
      obtain ⟨hna, hns⟩ := Zone.new_apex_soa apex soa
      have hsubR : ∀ rr ∈ dstF.records.map frRR, rr.name.isSubdomainOf (Zone.new apex soa).apex = true := by
        intro rr hrr
        simp only [List.mem_map] at hrr
        obtain ⟨fr, hfr, rfl⟩ := hrr
        rw [hna]; exact (hfrs fr (by simp [hfr])).2
      have hsubW : ∀ rr ∈ dstF.wildcards.map frRR, rr.name.isSubdomainOf (Zone.new apex soa).apex = true := by
        intro rr hrr
        simp only [List.mem_map] at hrr
        obtain ⟨fr, hfr, rfl⟩ := hrr
        rw [hna]; exact (hfrs fr (by simp [hfr])).2
      let ops := (dstF.records.map frRR).map (toOp false) ++ (dstF.wildcards.map frRR).map (toOp true)
      have hopsOK : ∀ op ∈ ops, NameOK op.name := by
        intro op hop
        simp only [ops, List.mem_append, List.mem_map] at hop
        rcases hop with ⟨rr, ⟨fr, hfr, rfl⟩, rfl⟩ | ⟨rr, ⟨fr, hfr, rfl⟩, rfl⟩
        · exact (hfrs fr (by simp [hfr])).1
        · exact (hfrs fr (by simp [hfr])).1
      have hsome := Zone.applyOps_isSome apex soa ops hopsOK (Zone.new apex soa) _ (Zone.repr_new apex soa hapex)
      obtain ⟨z, hz⟩ := Option.isSome_iff_exists.mp hsome
      have hb : Zone.build apex soa ops = some z := hz
      obtain ⟨hflat, hflatW⟩ := built_flat apex soa dstF.records dstF.wildcards z hapex hfrs hb
      obtain ⟨hza, hzs⟩ := Zone.applyOps_apex_soa ops _ z hz
      refine ⟨z, ?_, ?_, ?_, ?_, ?_⟩
      · rw [hdes, hbz, insertBoth_eq_applyOps _ _ _ hsubR hsubW]
        show resultOf ((Zone.new apex soa).applyOps ops) = .ok z
        rw [hz]; rfl
      · rw [hza, hna, ← hm]
      · rw [hzs, hns, ← hm]
      · intro r
        rw [mem_zoneFlat_records, hflat, ← hm]
        simp only [mem_dedup, List.mem_append, List.mem_map]
        constructor
        · rintro (⟨s, hs, hn, hzr⟩ | ⟨fr, hfr, hn, hzr⟩)
          · left
            cases hds : dstF.soa with
            | none => simp [soa, hds] at hs
            | some p =>
              obtain ⟨a, s'⟩ := p
              have : s' = s := by simpa [soa, hds] using hs
              subst this
              simp only [soaRecOf, hds, List.mem_singleton]
              cases r
              simp only [apex, apexOf, hds] at hn
              simp only [Zone.soaRecord, ZoneRecord.mk.injEq] at hzr
              obtain ⟨h1, h2, h3⟩ := hzr
              subst hn; subst h1; subst h2; subst h3
              rfl
          · right
            refine ⟨fr, hfr, ?_⟩
            rw [clampFr_ttl]
            cases r
            simp only at hn
            simp only [ZoneRecord.mk.injEq] at hzr
            obtain ⟨h1, h2, h3⟩ := hzr
            subst hn; subst h1; subst h2; subst h3
            rfl
        · rintro (hsoa | ⟨fr, hfr, hr⟩)
          · left
            cases hds : dstF.soa with
            | none => simp [soaRecOf, hds] at hsoa
            | some p =>
              obtain ⟨a, s⟩ := p
              simp only [soaRecOf, hds, List.mem_singleton] at hsoa
              subst hsoa
              exact ⟨s, by simp [soa, hds], by simp [apex, apexOf, hds], rfl⟩
          · right
            refine ⟨fr, hfr, ?_⟩
            rw [clampFr_ttl] at hr
            subst hr
            exact ⟨rfl, rfl⟩
      · intro r
        rw [mem_zoneFlat_wildcards, hflatW, ← hm]
        simp only [mem_dedup, List.mem_map]
        constructor
        · rintro ⟨fr, hfr, hn, hzr⟩
          refine ⟨fr, hfr, ?_⟩
          rw [clampFr_ttl]
          cases r
          simp only at hn
          simp only [ZoneRecord.mk.injEq] at hzr
          obtain ⟨h1, h2, h3⟩ := hzr
          subst hn; subst h1; subst h2; subst h3
          rfl
        · rintro ⟨fr, hfr, hr⟩
          refine ⟨fr, hfr, ?_⟩
          rw [clampFr_ttl] at hr
          subst hr
          exact ⟨rfl, rfl⟩
    · cases hm

end built

end Resolved.ZoneText
