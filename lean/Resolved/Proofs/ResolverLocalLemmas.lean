/-
  Helper lemmas about the LOCAL resolver model `resolveLocal` (C01 / C10):
  * `localStep` — one level of `resolve_local` with the recursive call abstracted; `resolveLocal`
    is its fuel-indexed iteration (`resolveLocal_succ`);
  * `subcall` — the (at most one) recursive call a level makes; `localStep_congr`;
  * unfolding lemmas per zone branch; frame lemma (zones / clock / stack are restored);
  * fuel lemmas.
-/
import Resolved.Model.Resolver

namespace Resolved

open Gen

abbrev LocalOut := Ctx × Except ResolutionError LocalResult

/-- how the zone CNAME branch wraps the outcome of following the alias. -/
def zoneCnameAnswer (rr : RR) (cnameQuestion : Question) (sub : Except ResolutionError LocalResult) :
    LocalResult :=
  match sub with
  | .ok (.done (.authoritative cnameRrs soaRR)) => .done (.authoritative ([rr] ++ cnameRrs) soaRR)
  | .ok (.done (.authoritativeNameError soaRR)) => .done (.authoritative [rr] soaRR)
  | .ok (.done (.nonAuthoritative cnameRrs soaRR)) => .done (.nonAuthoritative ([rr] ++ cnameRrs) soaRR)
  | .ok (.partialAnswer cnameRrs) => .partialAnswer ([rr] ++ cnameRrs)
  | .ok (.cname cnameRrs cq) => .cname ([rr] ++ cnameRrs) cq
  | _ => .cname [rr] cnameQuestion

/-- the zone part once the zone lookup produced `zr` in `zone`. -/
def zoneResultPart (rec : Ctx → Question → LocalOut) (ctx : Ctx) (question : Question) (zone : Zone)
    (zr : ZoneResult) : Ctx × (Except ResolutionError LocalResult ⊕ List RR) :=
  match zr with
  | .answer rrs =>
    match zone.soaRR with
    | some soaRR => (ctx, .inl (.ok (.done (.authoritative rrs soaRR))))
    | none =>
      if question.qtype != QTYPE_WILDCARD && !rrs.isEmpty then
        (ctx, .inl (.ok (.done (.nonAuthoritative rrs none))))
      else (ctx, .inr rrs)
  | .cname cname rr =>
    ((rec (ctx.push question) { name := cname, qtype := question.qtype, qclass := question.qclass }).1.pop,
     .inl (.ok (zoneCnameAnswer rr { name := cname, qtype := question.qtype, qclass := question.qclass }
       (rec (ctx.push question) { name := cname, qtype := question.qtype, qclass := question.qclass }).2)))
  | .delegation nsRrs =>
    match zone.soaRR with
    | some soaRR =>
      match nsRrs with
      | [] => (ctx, .inl (.error .localDelegationMissingNS))
      | first :: _ =>
        (ctx, .inl (.ok (.delegation nsRrs (some soaRR)
          { hostnames := nsRrs.filterMap nsTarget, name := first.name })))
    | none => (ctx, .inr [])
  | .nameError =>
    match zone.soaRR with
    | some soaRR => (ctx, .inl (.ok (.done (.authoritativeNameError soaRR))))
    | none => (ctx, .inr [])
  | .panic => (ctx, .inr [])

/-- the zone part of one level of `resolve_local`; `.inr rrs` = fall through to the cache. -/
def zonePart (rec : Ctx → Question → LocalOut) (ctx : Ctx) (question : Question) :
    Ctx × (Except ResolutionError LocalResult ⊕ List RR) :=
  match ctx.zones.resolve question.name question.qtype with
  | none => (ctx, .inr [])
  | some (_, none) => (ctx, .inr [])
  | some (zone, some zr) => zoneResultPart rec ctx question zone zr

/-- how the cached-CNAME branch wraps the outcome of following the alias. -/
def cacheCnameFinish (cnameRR : RR) (cname : Name) (out : LocalOut) :
    Ctx × Except ResolutionError (List RR × Option Name) :=
  match out.2 with
  | .ok (.done resolved) => (out.1.pop, .ok ([cnameRR] ++ resolved.rrs, none))
  | .ok (.partialAnswer rrs) => (out.1.pop, .ok ([cnameRR] ++ rrs, none))
  | .ok (.cname rrs cq) => (out.1.pop, .ok ([cnameRR] ++ rrs, some cq.name))
  | _ => (out.1.pop, .ok ([cnameRR], some cname))

/-- the cached-CNAME branch (`ctx3`, `cs` = the outcome of the CNAME cache read). -/
def cacheCnamePart (rec : Ctx → Question → LocalOut) (ctx3 : Ctx) (question : Question)
    (cs : List RR) : Ctx × Except ResolutionError (List RR × Option Name) :=
  match cs with
  | [] => (ctx3, .ok ([], none))
  | cnameRR :: _ =>
    match cnameTarget cnameRR with
    | some cname =>
      cacheCnameFinish cnameRR cname
        (rec (ctx3.push question) { name := cname, qtype := question.qtype, qclass := question.qclass })
    | none => (ctx3, .error .cacheTypeMismatch)

/-- the CNAME-from-cache part (`ctx2`, `rrsFromCache0` = the outcome of the first cache read). -/
def cachePart (rec : Ctx → Question → LocalOut) (ctx2 : Ctx) (question : Question)
    (rrsFromCache0 : List RR) : Ctx × Except ResolutionError (List RR × Option Name) :=
  if rrsFromCache0.isEmpty && question.qtype != CNAME_QTYPE then
    cacheCnamePart rec (ctx2.cacheGet question.name CNAME_QTYPE).1 question
      (ctx2.cacheGet question.name CNAME_QTYPE).2
  else (ctx2, .ok (rrsFromCache0, none))

/-- the final merge / classification. -/
def finishPart (question : Question) (rrsFromZone : List RR)
    (cp : Ctx × Except ResolutionError (List RR × Option Name)) : LocalOut :=
  match cp with
  | (ctx6, .error e) => (ctx6, .error e)
  | (ctx6, .ok (rrsFromCache, finalCname)) =>
    let rrs := prioritisingMerge rrsFromZone rrsFromCache
    if rrs.isEmpty then (ctx6, .error (.deadEnd question))
    else
      match finalCname with
      | some cname =>
        (ctx6, .ok (.cname rrs { name := cname, qtype := question.qtype, qclass := question.qclass }))
      | none =>
        if question.qtype == QTYPE_WILDCARD then (ctx6, .ok (.partialAnswer rrs))
        else (ctx6, .ok (.done (.nonAuthoritative rrs none)))

/-- everything after the zone part fell through with `rrsFromZone`. -/
def cacheStage (rec : Ctx → Question → LocalOut) (ctx : Ctx) (question : Question)
    (rrsFromZone : List RR) : LocalOut :=
  finishPart question rrsFromZone
    (cachePart rec (ctx.cacheGet question.name question.qtype).1 question
      (ctx.cacheGet question.name question.qtype).2)

/-- one level of `resolve_local`, the recursive call being `rec`. -/
def localStep (rec : Ctx → Question → LocalOut) (ctx : Ctx) (question : Question) : LocalOut :=
  if ctx.atRecursionLimit then (ctx, .error .recursionLimit)
  else if ctx.isDuplicate question then (ctx, .error (.duplicateQuestion question))
  else
    match zonePart rec ctx question with
    | (ctx, .inl r) => (ctx, r)
    | (ctx, .inr rrsFromZone) => cacheStage rec ctx question rrsFromZone

theorem resolveLocal_zero (ctx : Ctx) (q : Question) :
    resolveLocal 0 ctx q = (ctx, .error .outOfFuel) := by
  rw [resolveLocal]

theorem resolveLocal_succ (fuel : Nat) (ctx : Ctx) (q : Question) :
    resolveLocal (fuel + 1) ctx q = localStep (resolveLocal fuel) ctx q := by
  rw [resolveLocal]
  rfl


/-! ## frame: what a level leaves alone -/

/-- same zones, clock and question stack (only the cache may differ). -/
def Ctx.SameFrame (a b : Ctx) : Prop := a.zones = b.zones ∧ a.now = b.now ∧ a.stack = b.stack

theorem Ctx.SameFrame.refl (a : Ctx) : a.SameFrame a := ⟨rfl, rfl, rfl⟩
theorem Ctx.SameFrame.trans {a b c : Ctx} (h1 : a.SameFrame b) (h2 : b.SameFrame c) : a.SameFrame c :=
  ⟨h1.1.trans h2.1, h1.2.1.trans h2.2.1, h1.2.2.trans h2.2.2⟩

theorem Ctx.cacheGet_frame (c : Ctx) (n : Name) (t : Nat) : (c.cacheGet n t).1.SameFrame c := by
  unfold Ctx.cacheGet; exact ⟨rfl, rfl, rfl⟩

theorem Ctx.pop_push_frame {c c' : Ctx} (q : Question) (h : c'.SameFrame (c.push q)) :
    c'.pop.SameFrame c := by
  obtain ⟨h1, h2, h3⟩ := h
  refine ⟨h1, h2, ?_⟩
  simp [Ctx.pop, Ctx.push, h3]

/-- `rec` restores the frame. -/
def FramePreserving (rec : Ctx → Question → LocalOut) : Prop := ∀ c q, (rec c q).1.SameFrame c

theorem zoneResultPart_frame {rec : Ctx → Question → LocalOut} (hrec : FramePreserving rec) (ctx : Ctx)
    (q : Question) (zone : Zone) (zr : ZoneResult) :
    (zoneResultPart rec ctx q zone zr).1.SameFrame ctx := by
  unfold zoneResultPart
  split
  · split
    · exact Ctx.SameFrame.refl _
    · split <;> exact Ctx.SameFrame.refl _
  · exact Ctx.pop_push_frame q (hrec _ _)
  · split
    · split <;> exact Ctx.SameFrame.refl _
    · exact Ctx.SameFrame.refl _
  · split <;> exact Ctx.SameFrame.refl _
  · exact Ctx.SameFrame.refl _

theorem zonePart_frame {rec : Ctx → Question → LocalOut} (hrec : FramePreserving rec) (ctx : Ctx)
    (q : Question) : (zonePart rec ctx q).1.SameFrame ctx := by
  unfold zonePart
  split
  · exact Ctx.SameFrame.refl _
  · exact Ctx.SameFrame.refl _
  · exact zoneResultPart_frame hrec _ _ _ _

theorem cacheCnameFinish_fst (rr : RR) (cname : Name) (out : LocalOut) :
    (cacheCnameFinish rr cname out).1 = out.1.pop := by
  unfold cacheCnameFinish; split <;> rfl

theorem cacheCnamePart_frame {rec : Ctx → Question → LocalOut} (hrec : FramePreserving rec) (ctx3 : Ctx)
    (q : Question) (cs : List RR) : (cacheCnamePart rec ctx3 q cs).1.SameFrame ctx3 := by
  unfold cacheCnamePart
  split
  · exact Ctx.SameFrame.refl _
  · split
    · rw [cacheCnameFinish_fst]; exact Ctx.pop_push_frame q (hrec _ _)
    · exact Ctx.SameFrame.refl _

theorem cachePart_frame {rec : Ctx → Question → LocalOut} (hrec : FramePreserving rec) (ctx2 : Ctx)
    (q : Question) (r0 : List RR) : (cachePart rec ctx2 q r0).1.SameFrame ctx2 := by
  unfold cachePart
  split
  · exact (cacheCnamePart_frame hrec _ _ _).trans (Ctx.cacheGet_frame _ _ _)
  · exact Ctx.SameFrame.refl _

theorem finishPart_fst (q : Question) (rz : List RR)
    (cp : Ctx × Except ResolutionError (List RR × Option Name)) : (finishPart q rz cp).1 = cp.1 := by
  unfold finishPart
  split
  · rfl
  · simp only
    split
    · rfl
    · split
      · rfl
      · split <;> rfl

theorem cacheStage_frame {rec : Ctx → Question → LocalOut} (hrec : FramePreserving rec) (ctx : Ctx)
    (q : Question) (rz : List RR) : (cacheStage rec ctx q rz).1.SameFrame ctx := by
  unfold cacheStage
  simp only [finishPart_fst]
  exact (cachePart_frame hrec _ _ _).trans (Ctx.cacheGet_frame _ _ _)

theorem localStep_frame {rec : Ctx → Question → LocalOut} (hrec : FramePreserving rec) :
    FramePreserving (localStep rec) := by
  intro ctx q
  unfold localStep
  split
  · exact Ctx.SameFrame.refl _
  · split
    · exact Ctx.SameFrame.refl _
    · have hz := zonePart_frame hrec ctx q
      split
      · rename_i c r h; rw [h] at hz; exact hz
      · rename_i c r h; rw [h] at hz
        exact (cacheStage_frame hrec _ _ _).trans hz

/-- Local resolution restores the question stack and never touches zones or clock. -/
theorem resolveLocal_frame (fuel : Nat) : FramePreserving (resolveLocal fuel) := by
  induction fuel with
  | zero => intro c q; rw [resolveLocal_zero]; exact Ctx.SameFrame.refl _
  | succ n ih =>
    intro c q; rw [resolveLocal_succ]; exact localStep_frame ih c q

/-! ## the recursive call: where it happens -/

/-- the contexts/questions on which a level at `(ctx, q)` may call itself: the question pushed on
    the same stack (still within the limit), same zones and clock, same type and class asked. -/
def IsSubcall (ctx : Ctx) (q : Question) (c' : Ctx) (q' : Question) : Prop :=
  c'.stack = ctx.stack ++ [q] ∧ c'.stack.length ≤ RECURSION_LIMIT ∧ q ∉ ctx.stack ∧
  c'.zones = ctx.zones ∧ c'.now = ctx.now ∧ q'.qtype = q.qtype ∧ q'.qclass = q.qclass

theorem zoneResultPart_inr {rec : Ctx → Question → LocalOut} {ctx : Ctx} {q : Question} {zone : Zone}
    {zr : ZoneResult} {c : Ctx} {rz : List RR} (h : zoneResultPart rec ctx q zone zr = (c, .inr rz)) :
    c = ctx ∧ (zone.soaRR = none ∨ zr = .panic) ∧
      (rz = [] ∨ (zr = .answer rz ∧ q.qtype = QTYPE_WILDCARD)) := by
  unfold zoneResultPart at h
  split at h
  · split at h
    · cases h
    · rename_i hs
      split at h
      · cases h
      · rename_i hc
        cases h
        refine ⟨rfl, Or.inl hs, ?_⟩
        simp only [Bool.and_eq_true, bne_iff_ne, ne_eq, Bool.not_eq_true', not_and,
          Bool.not_eq_false, List.isEmpty_iff] at hc
        by_cases hq : q.qtype = QTYPE_WILDCARD
        · exact Or.inr ⟨rfl, hq⟩
        · exact Or.inl (hc hq)
  · cases h
  · split at h
    · split at h <;> cases h
    · rename_i hs; cases h; exact ⟨rfl, Or.inl hs, Or.inl rfl⟩
  · split at h
    · cases h
    · rename_i hs; cases h; exact ⟨rfl, Or.inl hs, Or.inl rfl⟩
  · cases h; exact ⟨rfl, Or.inr rfl, Or.inl rfl⟩

theorem zonePart_inr {rec : Ctx → Question → LocalOut} {ctx : Ctx} {q : Question}
    {c : Ctx} {rz : List RR} (h : zonePart rec ctx q = (c, .inr rz)) :
    c = ctx ∧ (rz = [] ∨ (q.qtype = QTYPE_WILDCARD ∧ ∃ zone, zone.soaRR = none ∧
      ctx.zones.resolve q.name q.qtype = some (zone, some (.answer rz)))) := by
  unfold zonePart at h
  split at h
  · cases h; exact ⟨rfl, Or.inl rfl⟩
  · cases h; exact ⟨rfl, Or.inl rfl⟩
  · rename_i zone zr hz
    obtain ⟨h1, h2, h3⟩ := zoneResultPart_inr h
    refine ⟨h1, ?_⟩
    rcases h3 with h3 | ⟨h3, h4⟩
    · exact Or.inl h3
    · subst h3
      rcases h2 with h2 | h2
      · exact Or.inr ⟨h4, zone, h2, hz⟩
      · cases h2

theorem zoneResultPart_congr {r1 r2 : Ctx → Question → LocalOut} {ctx : Ctx} {q : Question}
    (hlen : ctx.stack.length < RECURSION_LIMIT) (hnd : q ∉ ctx.stack)
    (h : ∀ c' q', IsSubcall ctx q c' q' → r1 c' q' = r2 c' q') (zone : Zone) (zr : ZoneResult) :
    zoneResultPart r1 ctx q zone zr = zoneResultPart r2 ctx q zone zr := by
  unfold zoneResultPart
  split <;> try rfl
  rw [h]
  refine ⟨rfl, ?_, hnd, rfl, rfl, rfl, rfl⟩
  simp only [Ctx.push, List.length_append, List.length_singleton]; omega

theorem zonePart_congr {r1 r2 : Ctx → Question → LocalOut} {ctx : Ctx} {q : Question}
    (hlen : ctx.stack.length < RECURSION_LIMIT) (hnd : q ∉ ctx.stack)
    (h : ∀ c' q', IsSubcall ctx q c' q' → r1 c' q' = r2 c' q') :
    zonePart r1 ctx q = zonePart r2 ctx q := by
  unfold zonePart
  split <;> try rfl
  exact zoneResultPart_congr hlen hnd h _ _

theorem cacheStage_congr {r1 r2 : Ctx → Question → LocalOut} {ctx : Ctx} {q : Question}
    (hlen : ctx.stack.length < RECURSION_LIMIT) (hnd : q ∉ ctx.stack)
    (h : ∀ c' q', IsSubcall ctx q c' q' → r1 c' q' = r2 c' q') (rz : List RR) :
    cacheStage r1 ctx q rz = cacheStage r2 ctx q rz := by
  unfold cacheStage cachePart
  split <;> try rfl
  unfold cacheCnamePart
  split <;> try rfl
  split <;> try rfl
  rw [h]
  have f1 := Ctx.cacheGet_frame ctx q.name q.qtype
  have f2 := Ctx.cacheGet_frame (ctx.cacheGet q.name q.qtype).1 q.name CNAME_QTYPE
  obtain ⟨z, n, s⟩ := f2.trans f1
  refine ⟨by simp only [Ctx.push, s], ?_, hnd, z, n, rfl, rfl⟩
  simp only [Ctx.push, List.length_append, List.length_singleton, s]; omega

/-- A level's outcome depends on the recursive function only through its values at `IsSubcall`
    arguments: the recursive calls are made with the question pushed on the stack, the stack
    staying within `RECURSION_LIMIT`. -/
theorem localStep_congr {r1 r2 : Ctx → Question → LocalOut} {ctx : Ctx} {q : Question}
    (hlen : ctx.stack.length ≤ RECURSION_LIMIT)
    (h : ∀ c' q', IsSubcall ctx q c' q' → r1 c' q' = r2 c' q') :
    localStep r1 ctx q = localStep r2 ctx q := by
  unfold localStep
  split
  · rfl
  · rename_i hl
    split
    · rfl
    · rename_i hd
      have hlen' : ctx.stack.length < RECURSION_LIMIT := by
        simp only [Ctx.atRecursionLimit, beq_iff_eq] at hl; omega
      have hnd : q ∉ ctx.stack := by simpa [Ctx.isDuplicate] using hd
      rw [zonePart_congr hlen' hnd h]
      split
      · rfl
      · rename_i c rz hz
        obtain ⟨hc, _⟩ := zonePart_inr hz
        subst hc
        exact cacheStage_congr hlen' hnd h rz

/-! ## fuel -/

/-- Once `fuel + stack length` covers `RECURSION_LIMIT + 1`, more fuel changes nothing. -/
theorem resolveLocal_fuel_mono : ∀ (fuel : Nat) (ctx : Ctx) (q : Question),
    ctx.stack.length ≤ RECURSION_LIMIT → RECURSION_LIMIT + 1 ≤ fuel + ctx.stack.length →
    ∀ fuel', fuel ≤ fuel' → resolveLocal fuel' ctx q = resolveLocal fuel ctx q := by
  intro fuel
  induction fuel with
  | zero => intro ctx q h1 h2; omega
  | succ n ih =>
    intro ctx q h1 h2 fuel' hf
    obtain ⟨m, rfl⟩ : ∃ m, fuel' = m + 1 := ⟨fuel' - 1, by omega⟩
    rw [resolveLocal_succ, resolveLocal_succ]
    apply localStep_congr h1
    intro c' q' hs
    obtain ⟨hst, hl, _⟩ := hs
    apply ih c' q' hl
    · rw [hst]; simp only [List.length_append, List.length_singleton]; omega
    · omega

theorem finishPart_error {q : Question} {rz : List RR}
    {cp : Ctx × Except ResolutionError (List RR × Option Name)} {e : ResolutionError}
    (h : (finishPart q rz cp).2 = .error e) : cp.2 = .error e ∨ e = .deadEnd q := by
  unfold finishPart at h
  split at h
  · left; simp only at h ⊢; cases h; rfl
  · simp only at h
    split at h
    · right; cases h; rfl
    · split at h
      · cases h
      · split at h <;> cases h

theorem cacheCnameFinish_ok (rr : RR) (cname : Name) (out : LocalOut) :
    ∃ rrs fc, (cacheCnameFinish rr cname out).2 = .ok (rrs, fc) := by
  unfold cacheCnameFinish; split <;> exact ⟨_, _, rfl⟩

theorem cachePart_error {rec : Ctx → Question → LocalOut} {ctx2 : Ctx} {q : Question} {r0 : List RR}
    {e : ResolutionError} (h : (cachePart rec ctx2 q r0).2 = .error e) : e = .cacheTypeMismatch := by
  unfold cachePart at h
  split at h
  · unfold cacheCnamePart at h
    split at h
    · cases h
    · split at h
      · obtain ⟨rrs, fc, h'⟩ := cacheCnameFinish_ok ‹RR› ‹Name› (rec ((ctx2.cacheGet q.name CNAME_QTYPE).1.push q)
          { name := ‹Name›, qtype := q.qtype, qclass := q.qclass })
        rw [h'] at h; cases h
      · cases h; rfl
  · cases h

theorem zoneResultPart_error {rec : Ctx → Question → LocalOut} {ctx : Ctx} {q : Question} {zone : Zone}
    {zr : ZoneResult} {c : Ctx} {e : ResolutionError}
    (h : zoneResultPart rec ctx q zone zr = (c, .inl (.error e))) : e = .localDelegationMissingNS := by
  unfold zoneResultPart at h
  split at h
  · split at h
    · cases h
    · split at h <;> cases h
  · cases h
  · split at h
    · split at h <;> cases h
      rfl
    · cases h
  · split at h <;> cases h
  · cases h

/-- the errors one level can end in (whatever the recursive calls do): `outOfFuel` is not among them. -/
theorem localStep_error {rec : Ctx → Question → LocalOut} {ctx : Ctx} {q : Question}
    {e : ResolutionError} (h : (localStep rec ctx q).2 = .error e) :
    e = .recursionLimit ∨ e = .duplicateQuestion q ∨ e = .localDelegationMissingNS ∨
    e = .cacheTypeMismatch ∨ e = .deadEnd q := by
  unfold localStep at h
  split at h
  · cases h; exact Or.inl rfl
  · split at h
    · cases h; exact Or.inr (Or.inl rfl)
    · split at h
      · rename_i c r hz
        simp only at h; subst h
        unfold zonePart at hz
        split at hz
        · cases hz
        · cases hz
        · exact Or.inr (Or.inr (Or.inl (zoneResultPart_error hz)))
      · unfold cacheStage at h
        rcases finishPart_error h with h | h
        · exact Or.inr (Or.inr (Or.inr (Or.inl (cachePart_error h))))
        · exact Or.inr (Or.inr (Or.inr (Or.inr h)))

theorem resolveLocal_succ_ne_outOfFuel (fuel : Nat) (ctx : Ctx) (q : Question) :
    (resolveLocal (fuel + 1) ctx q).2 ≠ .error .outOfFuel := by
  intro h
  rw [resolveLocal_succ] at h
  rcases localStep_error h with h | h | h | h | h <;> cases h

/-! ## per-branch unfolding -/

theorem Ctx.not_atLimit {ctx : Ctx} (h : ctx.stack.length ≠ RECURSION_LIMIT) :
    ctx.atRecursionLimit = false := by
  simp [Ctx.atRecursionLimit, h]

theorem Ctx.not_duplicate {ctx : Ctx} {q : Question} (h : q ∉ ctx.stack) : ctx.isDuplicate q = false := by
  simp [Ctx.isDuplicate, h]

/-- past the two guards, with the zone lookup known. -/
theorem localStep_of_zone {rec : Ctx → Question → LocalOut} {ctx : Ctx} {q : Question} {zone : Zone}
    {zr : ZoneResult} (hl : ctx.stack.length ≠ RECURSION_LIMIT) (hd : q ∉ ctx.stack)
    (hz : ctx.zones.resolve q.name q.qtype = some (zone, some zr)) :
    localStep rec ctx q =
      match zoneResultPart rec ctx q zone zr with
      | (c, .inl r) => (c, r)
      | (c, .inr rz) => cacheStage rec c q rz := by
  unfold localStep zonePart
  simp only [Ctx.not_atLimit hl, Ctx.not_duplicate hd, hz, Bool.false_eq_true, if_false]

theorem localStep_zone_answer_auth {rec : Ctx → Question → LocalOut} {ctx : Ctx} {q : Question}
    {zone : Zone} {rrs : List RR} {soa : RR} (hl : ctx.stack.length ≠ RECURSION_LIMIT) (hd : q ∉ ctx.stack)
    (hz : ctx.zones.resolve q.name q.qtype = some (zone, some (.answer rrs))) (hs : zone.soaRR = some soa) :
    localStep rec ctx q = (ctx, .ok (.done (.authoritative rrs soa))) := by
  rw [localStep_of_zone hl hd hz]; simp only [zoneResultPart, hs]

theorem localStep_zone_nameError_auth {rec : Ctx → Question → LocalOut} {ctx : Ctx} {q : Question}
    {zone : Zone} {soa : RR} (hl : ctx.stack.length ≠ RECURSION_LIMIT) (hd : q ∉ ctx.stack)
    (hz : ctx.zones.resolve q.name q.qtype = some (zone, some .nameError)) (hs : zone.soaRR = some soa) :
    localStep rec ctx q = (ctx, .ok (.done (.authoritativeNameError soa))) := by
  rw [localStep_of_zone hl hd hz]; simp only [zoneResultPart, hs]

theorem localStep_zone_delegation_auth {rec : Ctx → Question → LocalOut} {ctx : Ctx} {q : Question}
    {zone : Zone} {first : RR} {rest : List RR} {soa : RR} (hl : ctx.stack.length ≠ RECURSION_LIMIT)
    (hd : q ∉ ctx.stack)
    (hz : ctx.zones.resolve q.name q.qtype = some (zone, some (.delegation (first :: rest))))
    (hs : zone.soaRR = some soa) :
    localStep rec ctx q = (ctx, .ok (.delegation (first :: rest) (some soa)
      { hostnames := (first :: rest).filterMap nsTarget, name := first.name })) := by
  rw [localStep_of_zone hl hd hz]; simp only [zoneResultPart, hs]

theorem localStep_zone_answer_nonauth {rec : Ctx → Question → LocalOut} {ctx : Ctx} {q : Question}
    {zone : Zone} {rrs : List RR} (hl : ctx.stack.length ≠ RECURSION_LIMIT) (hd : q ∉ ctx.stack)
    (hz : ctx.zones.resolve q.name q.qtype = some (zone, some (.answer rrs))) (hs : zone.soaRR = none)
    (hq : q.qtype ≠ QTYPE_WILDCARD) (hne : rrs ≠ []) :
    localStep rec ctx q = (ctx, .ok (.done (.nonAuthoritative rrs none))) := by
  rw [localStep_of_zone hl hd hz]
  have : (q.qtype != QTYPE_WILDCARD && !rrs.isEmpty) = true := by
    simp [hq, hne]
  simp only [zoneResultPart, hs, this, if_true]

theorem localStep_zone_answer_nonauth_any {rec : Ctx → Question → LocalOut} {ctx : Ctx} {q : Question}
    {zone : Zone} {rrs : List RR} (hl : ctx.stack.length ≠ RECURSION_LIMIT) (hd : q ∉ ctx.stack)
    (hz : ctx.zones.resolve q.name q.qtype = some (zone, some (.answer rrs))) (hs : zone.soaRR = none)
    (hq : q.qtype = QTYPE_WILDCARD) :
    localStep rec ctx q = cacheStage rec ctx q rrs := by
  rw [localStep_of_zone hl hd hz]
  simp only [zoneResultPart, hs, hq, bne_self_eq_false, Bool.false_and, Bool.false_eq_true, if_false]

/-- every `ok` outcome of the final stage carries `prioritisingMerge rrsFromZone rrsFromCache`. -/
theorem finishPart_ok {q : Question} {rz : List RR}
    {cp : Ctx × Except ResolutionError (List RR × Option Name)} {r : LocalResult}
    (h : (finishPart q rz cp).2 = .ok r) :
    ∃ rc fc, cp.2 = .ok (rc, fc) ∧ prioritisingMerge rz rc ≠ [] ∧
      ((∃ cn, fc = some cn ∧ r = .cname (prioritisingMerge rz rc) { name := cn, qtype := q.qtype, qclass := q.qclass }) ∨
       (fc = none ∧ q.qtype = QTYPE_WILDCARD ∧ r = .partialAnswer (prioritisingMerge rz rc)) ∨
       (fc = none ∧ q.qtype ≠ QTYPE_WILDCARD ∧ r = .done (.nonAuthoritative (prioritisingMerge rz rc) none))) := by
  unfold finishPart at h
  split at h
  · cases h
  · rename_i c rc fc
    simp only at h
    split at h
    · cases h
    · rename_i hne
      refine ⟨rc, fc, rfl, by simpa using hne, ?_⟩
      split at h
      · cases h; exact Or.inl ⟨_, rfl, rfl⟩
      · split at h
        · rename_i hq; cases h; exact Or.inr (Or.inl ⟨rfl, by simpa using hq, rfl⟩)
        · rename_i hq; cases h; exact Or.inr (Or.inr ⟨rfl, by simpa using hq, rfl⟩)

theorem finishPart_ok_rrs {q : Question} {rz : List RR}
    {cp : Ctx × Except ResolutionError (List RR × Option Name)} {r : LocalResult}
    (h : (finishPart q rz cp).2 = .ok r) :
    ∃ rc fc, cp.2 = .ok (rc, fc) ∧ r.toResolved.rrs = prioritisingMerge rz rc := by
  obtain ⟨rc, fc, h1, _, h2⟩ := finishPart_ok h
  refine ⟨rc, fc, h1, ?_⟩
  rcases h2 with ⟨cn, _, rfl⟩ | ⟨_, _, rfl⟩ | ⟨_, _, rfl⟩ <;> rfl

theorem zoneCnameAnswer_ne_nameError (rr : RR) (cq : Question) (sub : Except ResolutionError LocalResult)
    (soa : RR) : zoneCnameAnswer rr cq sub ≠ .done (.authoritativeNameError soa) := by
  unfold zoneCnameAnswer; split <;> simp

/-- a level ends in an authoritative name error only in the name-error branch of an
    authoritative zone. -/
theorem localStep_nameError {rec : Ctx → Question → LocalOut} {ctx : Ctx} {q : Question} {soa : RR}
    (h : (localStep rec ctx q).2 = .ok (.done (.authoritativeNameError soa))) :
    ∃ z, ctx.zones.resolve q.name q.qtype = some (z, some .nameError) ∧ z.soaRR = some soa := by
  unfold localStep at h
  split at h
  · cases h
  · split at h
    · cases h
    · split at h
      · rename_i c r hz
        simp only at h; subst h
        unfold zonePart at hz
        split at hz
        · cases hz
        · cases hz
        · rename_i zone zr hres
          unfold zoneResultPart at hz
          split at hz
          · split at hz
            · cases hz
            · split at hz <;> cases hz
          · simp only [Prod.mk.injEq, Sum.inl.injEq, Except.ok.injEq] at hz
            exact absurd hz.2 (zoneCnameAnswer_ne_nameError _ _ _ _)
          · split at hz
            · split at hz <;> cases hz
            · cases hz
          · split at hz
            · rename_i s hs; cases hz; exact ⟨zone, hres, hs⟩
            · cases hz
          · cases hz
      · unfold cacheStage at h
        obtain ⟨rc, fc, _, _, h2⟩ := finishPart_ok h
        rcases h2 with ⟨cn, _, h2⟩ | ⟨_, _, h2⟩ | ⟨_, _, h2⟩ <;> cases h2

theorem zoneCnameAnswer_ne_delegation (rr : RR) (cq : Question) (sub : Except ResolutionError LocalResult)
    (rrs : List RR) (s : Option RR) (d : Nameservers) :
    zoneCnameAnswer rr cq sub ≠ .delegation rrs s d := by
  unfold zoneCnameAnswer; split <;> simp

/-- a level ends in a referral only in the delegation branch of an authoritative zone. -/
theorem localStep_delegation {rec : Ctx → Question → LocalOut} {ctx : Ctx} {q : Question}
    {rrs : List RR} {s : Option RR} {d : Nameservers}
    (h : (localStep rec ctx q).2 = .ok (.delegation rrs s d)) :
    ∃ z soa first rest, s = some soa ∧ rrs = first :: rest ∧
      ctx.zones.resolve q.name q.qtype = some (z, some (.delegation rrs)) ∧ z.soaRR = some soa ∧
      d = { hostnames := rrs.filterMap nsTarget, name := first.name } := by
  unfold localStep at h
  split at h
  · cases h
  · split at h
    · cases h
    · split at h
      · rename_i c r hz
        simp only at h; subst h
        unfold zonePart at hz
        split at hz
        · cases hz
        · cases hz
        · rename_i zone zr hres
          unfold zoneResultPart at hz
          split at hz
          · split at hz
            · cases hz
            · split at hz <;> cases hz
          · simp only [Prod.mk.injEq, Sum.inl.injEq, Except.ok.injEq] at hz
            exact absurd hz.2 (zoneCnameAnswer_ne_delegation _ _ _ _ _ _)
          · split at hz
            · rename_i soa hs
              split at hz
              · cases hz
              · rename_i first rest
                cases hz
                exact ⟨zone, soa, first, rest, rfl, rfl, hres, hs, rfl⟩
            · cases hz
          · split at hz <;> cases hz
          · cases hz
      · unfold cacheStage at h
        obtain ⟨rc, fc, _, _, h2⟩ := finishPart_ok h
        rcases h2 with ⟨cn, _, h2⟩ | ⟨_, _, h2⟩ | ⟨_, _, h2⟩ <;> cases h2

/-- the local outcome dictated by the verdict of an AUTHORITATIVE zone when that verdict is not an
    alias: a function of the verdict and the zone's SOA alone. -/
def authVerdict (zr : ZoneResult) (soa : RR) : Except ResolutionError LocalResult :=
  match zr with
  | .answer rrs => .ok (.done (.authoritative rrs soa))
  | .nameError => .ok (.done (.authoritativeNameError soa))
  | .delegation [] => .error .localDelegationMissingNS
  | .delegation (first :: rest) =>
    .ok (.delegation (first :: rest) (some soa)
      { hostnames := (first :: rest).filterMap nsTarget, name := first.name })
  | .cname _ rr => .ok (.cname [rr] default)     -- not used: aliases are followed
  | .panic => .error .outOfFuel                   -- not used: modelled panic site

theorem localStep_zone_auth {rec : Ctx → Question → LocalOut} {ctx : Ctx} {q : Question}
    {zone : Zone} {zr : ZoneResult} {soa : RR} (hl : ctx.stack.length ≠ RECURSION_LIMIT) (hd : q ∉ ctx.stack)
    (hz : ctx.zones.resolve q.name q.qtype = some (zone, some zr)) (hs : zone.soaRR = some soa)
    (hnc : ∀ c rr, zr ≠ .cname c rr) (hnp : zr ≠ .panic) :
    localStep rec ctx q = (ctx, authVerdict zr soa) := by
  rw [localStep_of_zone hl hd hz]
  cases zr with
  | answer rrs => simp only [zoneResultPart, hs, authVerdict]
  | cname c rr => exact absurd rfl (hnc c rr)
  | delegation ns =>
    cases ns with
    | nil => simp only [zoneResultPart, hs, authVerdict]
    | cons f r => simp only [zoneResultPart, hs, authVerdict]
  | nameError => simp only [zoneResultPart, hs, authVerdict]
  | panic => exact absurd rfl hnp

theorem localStep_zone_cname {rec : Ctx → Question → LocalOut} {ctx : Ctx} {q : Question}
    {zone : Zone} {c : Name} {rr : RR} (hl : ctx.stack.length ≠ RECURSION_LIMIT) (hd : q ∉ ctx.stack)
    (hz : ctx.zones.resolve q.name q.qtype = some (zone, some (.cname c rr))) :
    localStep rec ctx q =
      ((rec (ctx.push q) { name := c, qtype := q.qtype, qclass := q.qclass }).1.pop,
       .ok (zoneCnameAnswer rr { name := c, qtype := q.qtype, qclass := q.qclass }
         (rec (ctx.push q) { name := c, qtype := q.qtype, qclass := q.qclass }).2)) := by
  rw [localStep_of_zone hl hd hz]; simp only [zoneResultPart]

/-- the alias branch's reply starts with the zone's CNAME record. -/
theorem zoneCnameAnswer_head (rr : RR) (cq : Question) (sub : Except ResolutionError LocalResult) :
    ∃ rest, (zoneCnameAnswer rr cq sub).toResolved.rrs = rr :: rest := by
  unfold zoneCnameAnswer
  split <;> exact ⟨_, rfl⟩

/-- the alias branch's reply is authoritative exactly when the TARGET's resolution was. -/
theorem zoneCnameAnswer_authoritative_iff (rr : RR) (cq : Question)
    (sub : Except ResolutionError LocalResult) (rrs : List RR) (soa : RR) :
    (zoneCnameAnswer rr cq sub).toResolved = .authoritative rrs soa ↔
      (∃ cr, sub = .ok (.done (.authoritative cr soa)) ∧ rrs = rr :: cr) ∨
      (sub = .ok (.done (.authoritativeNameError soa)) ∧ rrs = [rr]) := by
  unfold zoneCnameAnswer
  split
  · rename_i cr s
    simp only [LocalResult.toResolved, ResolvedRecord.authoritative.injEq, List.singleton_append,
      Except.ok.injEq, LocalResult.done.injEq, reduceCtorEq, false_and, or_false]
    constructor
    · rintro ⟨h1, h2⟩; exact ⟨cr, ⟨rfl, h2⟩, h1.symm⟩
    · rintro ⟨cr', ⟨h1, h2⟩, h3⟩; subst h1; exact ⟨h3.symm, h2⟩
  · rename_i s
    simp only [LocalResult.toResolved, ResolvedRecord.authoritative.injEq,
      Except.ok.injEq, LocalResult.done.injEq, reduceCtorEq, false_and, exists_false, false_or,
      ResolvedRecord.authoritativeNameError.injEq]
    constructor
    · rintro ⟨h1, h2⟩; exact ⟨h2, h1.symm⟩
    · rintro ⟨h1, h2⟩; exact ⟨h2.symm, h1⟩
  · simp [LocalResult.toResolved]
  · simp [LocalResult.toResolved]
  · simp [LocalResult.toResolved]
  · rename_i h1 h2 h3 h4 h5
    simp only [LocalResult.toResolved, reduceCtorEq, false_iff, not_or, not_exists, not_and]
    constructor
    · intro cr hsub; exact absurd hsub (h1 cr soa)
    · intro hsub; exact absurd hsub (h2 soa)

/-! ## partial answers only for ANY -/

theorem zoneCnameAnswer_partial {rr : RR} {cq : Question} {sub : Except ResolutionError LocalResult}
    {rrs : List RR} (h : zoneCnameAnswer rr cq sub = .partialAnswer rrs) :
    ∃ rs, sub = .ok (.partialAnswer rs) := by
  unfold zoneCnameAnswer at h
  split at h <;> first | exact ⟨_, rfl⟩ | cases h

theorem localStep_partial {rec : Ctx → Question → LocalOut} {ctx : Ctx} {q : Question} {rrs : List RR}
    (hrec : ∀ c q', q'.qtype = q.qtype → ∀ rs, (rec c q').2 ≠ .ok (.partialAnswer rs))
    (hq : q.qtype ≠ QTYPE_WILDCARD) : (localStep rec ctx q).2 ≠ .ok (.partialAnswer rrs) := by
  intro h
  unfold localStep at h
  split at h
  · cases h
  · split at h
    · cases h
    · split at h
      · rename_i c r hz
        simp only at h; subst h
        unfold zonePart at hz
        split at hz
        · cases hz
        · cases hz
        · unfold zoneResultPart at hz
          split at hz
          · split at hz
            · cases hz
            · split at hz <;> cases hz
          · simp only [Prod.mk.injEq, Sum.inl.injEq, Except.ok.injEq] at hz
            obtain ⟨rs, hrs⟩ := zoneCnameAnswer_partial hz.2
            exact hrec _ _ (by rfl) rs hrs
          · split at hz
            · split at hz <;> cases hz
            · cases hz
          · split at hz <;> cases hz
          · cases hz
      · unfold cacheStage at h
        obtain ⟨rc, fc, _, _, h2⟩ := finishPart_ok h
        rcases h2 with ⟨cn, _, h2⟩ | ⟨_, hw, _⟩ | ⟨_, _, h2⟩
        · cases h2
        · exact hq hw
        · cases h2

/-- a partial answer (which sends the recursive / forwarding resolver upstream for more) is only
    ever produced for an ANY question. -/
theorem resolveLocal_partial_only_any : ∀ (fuel : Nat) (ctx : Ctx) (q : Question) (rrs : List RR),
    q.qtype ≠ QTYPE_WILDCARD → (resolveLocal fuel ctx q).2 ≠ .ok (.partialAnswer rrs) := by
  intro fuel
  induction fuel with
  | zero => intro ctx q rrs _ h; rw [resolveLocal_zero] at h; cases h
  | succ n ih =>
    intro ctx q rrs hq
    rw [resolveLocal_succ]
    exact localStep_partial (fun c q' hq' rs => ih c q' rs (hq' ▸ hq)) hq

end Resolved
