/-
  `format!("{n}")` followed by `u32::from_str` / `u16::from_str` is the identity, and the decimal
  text of a number is a plain token.
-/
import Resolved.Model.IpText

namespace Resolved.IpText

/-- the decimal digits of `n`, most significant first (specification of `showDec`). -/
def digitsOf : Nat → Nat → List Nat
  | 0, _ => []
  | fuel + 1, n => if n < 10 then [n] else digitsOf fuel (n / 10) ++ [n % 10]

theorem decAux_eq (fuel : Nat) : ∀ (n : Nat) (acc : List Char), n < fuel →
    decAux fuel n acc = (digitsOf fuel n).map digitChar ++ acc := by
  induction fuel with
  | zero => intro n acc h; omega
  | succ f ih =>
    intro n acc h
    simp only [decAux, digitsOf]
    split
    · simp
    · rename_i hn
      have : n / 10 < f := by omega
      rw [ih _ _ this]
      simp

theorem showDec_eq (n : Nat) : showDec n = (digitsOf (n + 1) n).map digitChar := by
  unfold showDec
  rw [decAux_eq _ _ _ (by omega)]
  simp

theorem digitsOf_lt10 (fuel : Nat) : ∀ n, ∀ d ∈ digitsOf fuel n, d < 10 := by
  induction fuel with
  | zero => intro n d h; simp [digitsOf] at h
  | succ f ih =>
    intro n d h
    simp only [digitsOf] at h
    split at h
    · simp at h; omega
    · simp only [List.mem_append, List.mem_singleton] at h
      rcases h with h | h
      · exact ih _ _ h
      · omega

theorem digitsOf_ne_nil (fuel : Nat) (n : Nat) (h : n < fuel) : digitsOf fuel n ≠ [] := by
  cases fuel with
  | zero => omega
  | succ f =>
    simp only [digitsOf]
    split <;> simp

/-- value of a digit list. -/
def valOf (ds : List Nat) : Nat := ds.foldl (fun a d => a * 10 + d) 0

theorem foldl_val_append (a : Nat) (xs ys : List Nat) :
    (xs ++ ys).foldl (fun a d => a * 10 + d) a = ys.foldl (fun a d => a * 10 + d) (xs.foldl (fun a d => a * 10 + d) a) := by
  simp [List.foldl_append]

theorem valOf_digitsOf (fuel : Nat) : ∀ n, n < fuel → valOf (digitsOf fuel n) = n := by
  induction fuel with
  | zero => intro n h; omega
  | succ f ih =>
    intro n h
    simp only [digitsOf]
    split
    · simp [valOf]
    · have : n / 10 < f := by omega
      unfold valOf
      rw [foldl_val_append]
      have := ih _ this
      unfold valOf at this
      rw [this]
      simp only [List.foldl_cons, List.foldl_nil]
      omega

theorem toDigit10_digitChar (d : Nat) (h : d < 10) : toDigit10 (digitChar d) = some d := by
  unfold digitChar
  have : ∀ d, d < 10 → toDigit10 (Char.ofNat (48 + d)) = some d := by decide
  exact this d h

theorem decLoop_digits (ds : List Nat) (h : ∀ d ∈ ds, d < 10) :
    ∀ acc, decLoop (ds.map digitChar) acc = some (ds.foldl (fun a d => a * 10 + d) acc) := by
  induction ds with
  | nil => intro acc; rfl
  | cons d ds ih =>
    intro acc
    simp only [List.map_cons, decLoop, toDigit10_digitChar d (h d (by simp)), List.foldl_cons]
    exact ih (fun x hx => h x (by simp [hx])) _

theorem digitChar_ne_sign (d : Nat) (h : d < 10) : digitChar d ≠ '+' ∧ digitChar d ≠ '-' := by
  have : ∀ d, d < 10 → digitChar d ≠ '+' ∧ digitChar d ≠ '-' := by decide
  exact this d h

/-- **`<unsigned>::from_str(&format!("{n}")) == Ok(n)`** for every `n ≤ max`. -/
theorem parseUnsigned_showDec (max n : Nat) (h : n ≤ max) : parseUnsigned max (showDec n) = some n := by
  rw [showDec_eq]
  have hlt := digitsOf_lt10 (n + 1) n
  have hval := valOf_digitsOf (n + 1) n (by omega)
  have hne := digitsOf_ne_nil (n + 1) n (by omega)
  cases hd : digitsOf (n + 1) n with
  | nil => exact absurd hd hne
  | cons d ds =>
    rw [hd] at hlt hval
    have hd10 : d < 10 := hlt d (by simp)
    have hs := digitChar_ne_sign d hd10
    have hdec := decLoop_digits (d :: ds) hlt 0
    simp only [List.map_cons] at hdec
    unfold valOf at hval
    rw [hval] at hdec
    cases ds with
    | nil =>
      simp only [List.map_cons, List.map_nil, parseUnsigned, hs.1, hs.2, or_self, if_false]
      simp only [List.map_nil] at hdec
      rw [hdec]
      simp [h]
    | cons e es =>
      simp only [List.map_cons, parseUnsigned, hs.1, if_false]
      simp only [List.map_cons] at hdec
      rw [hdec]
      simp [h]

theorem parseU32_showDec (n : Nat) (h : n < 4294967296) : parseU32 (showDec n) = some n :=
  parseUnsigned_showDec _ n (by omega)

theorem parseU16_showDec (n : Nat) (h : n < 65536) : parseU16 (showDec n) = some n :=
  parseUnsigned_showDec _ n (by omega)

/-- the decimal text is non-empty and consists of ASCII digits. -/
theorem showDec_digits (n : Nat) : showDec n ≠ [] ∧ ∀ c ∈ showDec n, isAsciiDigit c = true := by
  rw [showDec_eq]
  refine ⟨?_, ?_⟩
  · have := digitsOf_ne_nil (n + 1) n (by omega)
    simpa using this
  · intro c hc
    simp only [List.mem_map] at hc
    obtain ⟨d, hd, rfl⟩ := hc
    have : ∀ d, d < 10 → isAsciiDigit (digitChar d) = true := by decide
    exact this d (digitsOf_lt10 _ _ d hd)

theorem showDec_ascii (n : Nat) : ∀ c ∈ showDec n, c.toNat < 128 := by
  intro c hc
  have := (showDec_digits n).2 c hc
  simp only [isAsciiDigit, Bool.and_eq_true, decide_eq_true_eq] at this
  omega

end Resolved.IpText
