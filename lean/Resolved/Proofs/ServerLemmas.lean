/-
  Helper lemmas for C09 / C19 (server front end: triage, reply building, framing, reload).
  Every lemma name is prefixed `srv_`.
-/
import Resolved.Model.Server
import Resolved.Proofs.WireEncodeReencode

namespace Resolved

open Gen

/-! ## 1. `triage` and `resolve_and_build_response` -/

theorem srv_triage_nil {m : Message} (h : m.questions = []) : triage m = .ok none := by
  unfold triage; rw [h]

theorem srv_triage_one_known {m : Message} {q : Question} (h : m.questions = [q])
    (hk : questionIsUnknown q = false) : triage m = .ok (some q) := by
  unfold triage; rw [h]; simp [hk]

theorem srv_triage_one_unknown {m : Message} {q : Question} (h : m.questions = [q])
    (hk : questionIsUnknown q = true) : triage m = .error () := by
  unfold triage; rw [h]; simp [hk]

theorem srv_triage_many {m : Message} (h : 2 ≤ m.questions.length) : triage m = .error () := by
  unfold triage
  match hq : m.questions with
  | [] => rw [hq] at h; simp at h
  | [_] => rw [hq] at h; simp at h
  | _ :: _ :: _ => rfl

/-- the reply skeleton: `make_response` with RA set from the configuration -/
def srvBase (authOnly : Bool) (m : Message) : Message :=
  { header := { id := m.header.id, isResponse := true, opcode := m.header.opcode,
                isAuthoritative := false, isTruncated := false,
                recursionDesired := m.header.recursionDesired,
                recursionAvailable := !authOnly, rcode := RCODE_NOERROR }
    questions := m.questions, answers := [], authority := [], additional := [] }

/-- the reply carrying only a response code -/
def srvRcodeReply (authOnly : Bool) (m : Message) (rcode : Nat) : Message :=
  { srvBase authOnly m with header := { (srvBase authOnly m).header with rcode := rcode } }

theorem srv_rabr_refused (a : Bool) (r : ServerResolver) (m : Message)
    (h : triage m = .error ()) :
    resolveAndBuildResponse a r m = srvRcodeReply a m RCODE_REFUSED := by
  unfold resolveAndBuildResponse
  simp only [h]
  rfl

theorem srv_rabr_no_question (a : Bool) (r : ServerResolver) (m : Message)
    (h : triage m = .ok none) :
    resolveAndBuildResponse a r m = srvRcodeReply a m RCODE_SERVFAIL := by
  unfold resolveAndBuildResponse
  simp only [h]
  rfl

/-- the reply built from a resolver result for the single question -/
def srvReplyOf (authOnly : Bool) (m : Message) :
    Except ResolutionError ResolvedRecord → Message
  | .ok (.authoritative rrs soa) =>
    { srvBase authOnly m with answers := rrs, authority := [soa]
                              header := { (srvBase authOnly m).header with isAuthoritative := true } }
  | .ok (.authoritativeNameError soa) =>
    { srvBase authOnly m with authority := [soa]
                              header := { (srvBase authOnly m).header with
                                            rcode := RCODE_NAMEERROR, isAuthoritative := true } }
  | .ok (.nonAuthoritative rrs (some s)) =>
    { srvBase authOnly m with answers := rrs, authority := [s] }
  | .ok (.nonAuthoritative [] none) => srvRcodeReply authOnly m RCODE_SERVFAIL
  | .ok (.nonAuthoritative (rr :: rrs) none) => { srvBase authOnly m with answers := rr :: rrs }
  | .error _ => srvRcodeReply authOnly m RCODE_SERVFAIL

theorem srv_rabr_question (a : Bool) (r : ServerResolver) (m : Message) (q : Question)
    (h : triage m = .ok (some q)) :
    resolveAndBuildResponse a r m = srvReplyOf a m (r q (m.header.recursionDesired && !a)) := by
  unfold resolveAndBuildResponse
  simp only [h, makeResponse]
  generalize r q (m.header.recursionDesired && !a) = res
  match res with
  | .ok (.authoritative rrs soa) => cases rrs <;> rfl
  | .ok (.authoritativeNameError soa) => rfl
  | .ok (.nonAuthoritative rrs (some s)) => cases rrs <;> rfl
  | .ok (.nonAuthoritative [] none) => rfl
  | .ok (.nonAuthoritative (rr :: rrs) none) => rfl
  | .error _ => rfl

/-- every `triage` outcome is one of the three above -/
theorem srv_triage_cases (m : Message) :
    triage m = .error () ∨ triage m = .ok none ∨ ∃ q, triage m = .ok (some q) := by
  match h : triage m with
  | .error () => exact .inl rfl
  | .ok none => exact .inr (.inl rfl)
  | .ok (some q) => exact .inr (.inr ⟨q, rfl⟩)

theorem srv_triage_some {m : Message} {q : Question} (h : triage m = .ok (some q)) :
    m.questions = [q] ∧ questionIsUnknown q = false := by
  unfold triage at h
  match hq : m.questions with
  | [] => rw [hq] at h; cases h
  | [q'] =>
    rw [hq] at h
    simp only at h
    split at h
    · cases h
    · rename_i hk; cases h; exact ⟨rfl, by simpa using hk⟩
  | _ :: _ :: _ => rw [hq] at h; cases h

/-! ## 2. `handle_raw_message` -/

theorem srv_handle_response {a : Bool} {r : ServerResolver} {buf : List UInt8} {m : Message}
    (hd : decodeMessage buf = .ok m) (hr : m.header.isResponse = true) :
    handleRawMessage a r buf = none := by
  unfold handleRawMessage; rw [hd]; simp [hr]

theorem srv_handle_query {a : Bool} {r : ServerResolver} {buf : List UInt8} {m : Message}
    (hd : decodeMessage buf = .ok m) (hr : m.header.isResponse = false)
    (ho : m.header.opcode = OPCODE_STANDARD) :
    handleRawMessage a r buf = some (resolveAndBuildResponse a r m) := by
  unfold handleRawMessage; rw [hd]; simp [hr, ho]

/-- the NOTIMP reply: `make_response` with the response code replaced -/
def srvNotImp (m : Message) : Message :=
  { makeResponse m with header := { (makeResponse m).header with rcode := RCODE_NOTIMP } }

theorem srv_handle_notimp {a : Bool} {r : ServerResolver} {buf : List UInt8} {m : Message}
    (hd : decodeMessage buf = .ok m) (hr : m.header.isResponse = false)
    (ho : m.header.opcode ≠ OPCODE_STANDARD) :
    handleRawMessage a r buf = some (srvNotImp m) := by
  unfold handleRawMessage; rw [hd]; simp [hr, ho, srvNotImp]

theorem srv_handle_error {a : Bool} {r : ServerResolver} {buf : List UInt8} {e : DErr}
    (hd : decodeMessage buf = .error e) :
    handleRawMessage a r buf = e.id.map makeFormatErrorResponse := by
  unfold handleRawMessage; rw [hd]

theorem srv_short_is_busted (buf : List UInt8) (h : buf.length < 2) :
    decodeMessage buf = .error .completelyBusted := by
  unfold decodeMessage
  have : nextU16 buf 0 = none := by
    unfold nextU16; rw [dif_neg (by omega)]
  rw [this]

theorem srv_decode_ok_len {buf : List UInt8} {m : Message} (h : decodeMessage buf = .ok m) :
    12 ≤ buf.length := by
  obtain ⟨id, f1, f2, qd, an, ns, ar, p8, p9, p10, p11, _, _, _, _, _, _, h7, _⟩ :=
    decodeMessage_ok h
  obtain ⟨hlt, _, _⟩ := nextU16_some h7
  omega

/-! ## 3. Octet 2 and the TC bit -/

theorem srv_or2_fin : ∀ x : Fin 256,
    (x.val ||| 2) % 256 = x.val ||| 2 ∧ (x.val ||| 2) &&& 2 = 2 ∧
    (x.val ||| 2) &&& 253 = x.val &&& 253 ∧
    (x.val &&& 2 ≠ 0 → x.val ||| 2 = x.val) := by decide +kernel

theorem srv_and253_fin : ∀ x : Fin 256,
    (x.val &&& 253) % 256 = x.val &&& 253 ∧ (x.val &&& 253) &&& 2 = 0 ∧
    (x.val &&& 253) &&& 253 = x.val &&& 253 ∧
    (x.val &&& 2 = 0 → x.val &&& 253 = x.val) := by decide +kernel

/-- octet 2 with the TC bit forced on / off, as `send_udp_bytes_to` / `send_tcp_bytes` do -/
def srvTcOctet (on : Bool) (b : UInt8) : UInt8 :=
  if on then UInt8.ofNat (b.toNat ||| 2) else UInt8.ofNat (b.toNat &&& 253)

theorem srv_tcOctet_toNat (on : Bool) (b : UInt8) :
    (srvTcOctet on b).toNat = if on then b.toNat ||| 2 else b.toNat &&& 253 := by
  have hb : b.toNat < 256 := b.toNat_lt
  cases on
  · simp only [srvTcOctet, Bool.false_eq_true, if_false, UInt8.toNat_ofNat']
    exact (srv_and253_fin ⟨b.toNat, hb⟩).1
  · simp only [srvTcOctet, if_true, UInt8.toNat_ofNat']
    exact (srv_or2_fin ⟨b.toNat, hb⟩).1

/-- the TC bit of the octet is what was asked for … -/
theorem srv_tcOctet_bit (on : Bool) (b : UInt8) :
    testBit (srvTcOctet on b).toNat HEADER_MASK_TC = on := by
  have hb : b.toNat < 256 := b.toNat_lt
  rw [srv_tcOctet_toNat]
  cases on
  · simp only [Bool.false_eq_true, if_false, testBit, HEADER_MASK_TC]
    rw [(srv_and253_fin ⟨b.toNat, hb⟩).2.1]; rfl
  · simp only [if_true, testBit, HEADER_MASK_TC]
    rw [(srv_or2_fin ⟨b.toNat, hb⟩).2.1]; rfl

/-- … and the seven other bits are untouched. -/
theorem srv_tcOctet_others (on : Bool) (b : UInt8) :
    (srvTcOctet on b).toNat &&& 253 = b.toNat &&& 253 := by
  have hb : b.toNat < 256 := b.toNat_lt
  rw [srv_tcOctet_toNat]
  cases on
  · simp only [Bool.false_eq_true, if_false]
    exact (srv_and253_fin ⟨b.toNat, hb⟩).2.2.1
  · simp only [if_true]
    exact (srv_or2_fin ⟨b.toNat, hb⟩).2.2.1

/-- forcing the bit to the value it already has changes nothing -/
theorem srv_tcOctet_same (on : Bool) (b : UInt8) (h : testBit b.toNat HEADER_MASK_TC = on) :
    srvTcOctet on b = b := by
  have hb : b.toNat < 256 := b.toNat_lt
  apply UInt8.toNat_inj.mp
  rw [srv_tcOctet_toNat]
  cases on
  · simp only [Bool.false_eq_true, if_false]
    apply (srv_and253_fin ⟨b.toNat, hb⟩).2.2.2
    simpa [testBit, HEADER_MASK_TC] using h
  · simp only [if_true]
    apply (srv_or2_fin ⟨b.toNat, hb⟩).2.2.2
    simpa [testBit, HEADER_MASK_TC] using h

/-- the TC bit of a serialised message: bit 1 of octet 2 (`none` if there is no octet 2) -/
def srvTcOf (bytes : List UInt8) : Option Bool :=
  bytes[2]?.map (fun b => testBit b.toNat HEADER_MASK_TC)

theorem srv_setTcBit_eq (bytes : List UInt8) (on : Bool) :
    setTcBit bytes on = match bytes[2]? with
      | some b => bytes.set 2 (srvTcOctet on b)
      | none => bytes := by
  unfold setTcBit srvTcOctet; rfl

@[simp] theorem srv_setTcBit_length (bytes : List UInt8) (on : Bool) :
    (setTcBit bytes on).length = bytes.length := by
  unfold setTcBit; split <;> simp

theorem srv_setTcBit_get (bytes : List UInt8) (on : Bool) (i : Nat) :
    (setTcBit bytes on)[i]? = if i = 2 then bytes[2]?.map (srvTcOctet on) else bytes[i]? := by
  rw [srv_setTcBit_eq]
  cases h : bytes[2]? with
  | none =>
    simp only [Option.map_none]
    split
    · rename_i h2; subst h2; exact h
    · rfl
  | some b =>
    simp only [Option.map_some]
    have hlt : 2 < bytes.length := by
      apply Classical.byContradiction; intro hn
      rw [List.getElem?_eq_none (by omega)] at h; cases h
    split
    · rename_i h2; subst h2; simp [hlt]
    · rename_i h2; rw [List.getElem?_set_ne (by omega)]

theorem srv_setTcBit_tc (bytes : List UInt8) (on : Bool) (h : 2 < bytes.length) :
    srvTcOf (setTcBit bytes on) = some on := by
  unfold srvTcOf
  rw [srv_setTcBit_get, if_pos rfl, List.getElem?_eq_getElem h]
  simp [srv_tcOctet_bit]

/-- `setTcBit` with the value the bit already has is the identity -/
theorem srv_setTcBit_same (bytes : List UInt8) (on : Bool) (h : srvTcOf bytes = some on) :
    setTcBit bytes on = bytes := by
  rw [srv_setTcBit_eq]
  unfold srvTcOf at h
  cases hb : bytes[2]? with
  | none => rfl
  | some b =>
    rw [hb] at h
    simp only [Option.map_some, Option.some.injEq] at h
    simp only
    rw [srv_tcOctet_same on b h]
    apply List.ext_getElem? ; intro i
    by_cases hi : i = 2
    · subst hi
      have hlt : 2 < bytes.length := by
        apply Classical.byContradiction; intro hn
        rw [List.getElem?_eq_none (by omega)] at hb; cases hb
      rw [hb]; simp [hlt]
    · rw [List.getElem?_set_ne (by omega)]

/-- the decoder reads `isTruncated` from that bit -/
theorem srv_decode_tc {buf : List UInt8} {m : Message} (h : decodeMessage buf = .ok m) :
    srvTcOf buf = some m.header.isTruncated := by
  obtain ⟨id, f1, f2, qd, an, ns, ar, p8, p9, p10, p11, _, h2, _, _, _, _, _, hh, _⟩ :=
    decodeMessage_ok h
  unfold nextU8 at h2
  split at h2
  · rename_i hlt
    simp only [Option.some.injEq, Prod.mk.injEq] at h2
    unfold srvTcOf
    rw [List.getElem?_eq_getElem hlt, hh]
    simp [decodeFlags, h2.1]
  · cases h2

/-! ## 4. Framing -/

theorem srv_udpFrame_none_iff (bytes : List UInt8) : udpFrame bytes = none ↔ bytes.length < 12 := by
  unfold udpFrame
  constructor
  · intro h; split at h
    · assumption
    · split at h <;> cases h
  · intro h; rw [if_pos h]

theorem srv_udpFrame_big {bytes : List UInt8} (h : bytes.length > 512) :
    udpFrame bytes = some ((setTcBit bytes true).take 512) := by
  unfold udpFrame
  rw [if_neg (by omega), if_pos (by simpa [UDP_MAX] using h)]; rfl

theorem srv_udpFrame_small {bytes : List UInt8} (h12 : 12 ≤ bytes.length) (h : bytes.length ≤ 512) :
    udpFrame bytes = some (setTcBit bytes false) := by
  unfold udpFrame
  rw [if_neg (by omega), if_neg (by simp only [UDP_MAX]; omega)]

theorem srv_tcpFrame_none_iff (bytes : List UInt8) : tcpFrame bytes = none ↔ bytes.length < 12 := by
  unfold tcpFrame
  constructor
  · intro h; split at h
    · assumption
    · split at h <;> cases h
  · intro h; rw [if_pos h]

theorem srv_tcpFrame_big {bytes : List UInt8} (h : bytes.length > 65535) :
    tcpFrame bytes = some (u16Bytes 65535 ++ (setTcBit bytes true).take 65535) := by
  unfold tcpFrame
  rw [if_neg (by omega), if_neg (by omega)]

theorem srv_tcpFrame_small {bytes : List UInt8} (h12 : 12 ≤ bytes.length) (h : bytes.length ≤ 65535) :
    tcpFrame bytes = some (u16Bytes bytes.length ++ setTcBit bytes false) := by
  unfold tcpFrame
  rw [if_neg (by omega), if_pos h]

theorem srv_take_get (l : List UInt8) (n i : Nat) :
    (l.take n)[i]? = if i < n then l[i]? else none := by
  rw [List.getElem?_take]

theorem srv_tcOf_take (l : List UInt8) (n : Nat) (h : 2 < n) : srvTcOf (l.take n) = srvTcOf l := by
  unfold srvTcOf; rw [srv_take_get, if_pos h]

/-! ## 5. The encoder only appends: every encoding starts with the twelve header octets -/

theorem srv_ext_encodeFields (fs : List Field) (vs : List FieldVal) (b : WBuf) :
    Ext b (encodeFields b fs vs) := by
  obtain ⟨x, h1, _, _⟩ := sim_encodeFields fs vs (b1 := b) (b2 := b) ⟨rfl, rfl⟩
  exact ⟨x, h1⟩

theorem srv_ext_encodeRR {b b' : WBuf} {rr : RR} (h : encodeRR b rr = .ok b') : Ext b b' := by
  obtain ⟨rdl, _, hb', _⟩ := encodeRR_eq b rr b' h
  have h1 : Ext b (rrPrefix b rr rdl) := by
    unfold rrPrefix
    exact (((((Ext.encodeName b rr.name rrNameCompress).trans (Ext.writeOctets _ _)).trans
      (Ext.writeOctets _ _)).trans (Ext.writeOctets _ _))).trans (Ext.writeOctets _ _)
  rw [hb']
  exact h1.trans (srv_ext_encodeFields _ _ _)

theorem srv_ext_encodeRRs (rrs : List RR) :
    ∀ {b b' : WBuf}, encodeRRs b rrs = .ok b' → Ext b b' := by
  induction rrs with
  | nil => intro b b' h; simp only [encodeRRs, Except.ok.injEq] at h; subst h; exact Ext.refl _
  | cons r rrs ih =>
    intro b b' h
    simp only [encodeRRs] at h
    split at h
    · cases h
    · rename_i b1 hb1
      exact (srv_ext_encodeRR hb1).trans (ih h)

theorem srv_ext_encodeQuestion (b : WBuf) (q : Question) : Ext b (encodeQuestion b q) := by
  unfold encodeQuestion
  exact ((Ext.encodeName b q.name questionNameCompress).trans (Ext.writeOctets _ _)).trans
    (Ext.writeOctets _ _)

theorem srv_ext_encodeQuestions (qs : List Question) :
    ∀ (b : WBuf), Ext b (qs.foldl encodeQuestion b) := by
  induction qs with
  | nil => intro b; exact Ext.refl _
  | cons q qs ih => intro b; exact (srv_ext_encodeQuestion b q).trans (ih _)

/-- Whatever `Message::to_octets` returns starts with the twelve header octets of the message. -/
theorem srv_encodeMessage_prefix {m : Message} {bs : List UInt8} (h : encodeMessage m = .ok bs) :
    ∃ rest, bs = header12 m.header m.questions.length m.answers.length m.authority.length
      m.additional.length ++ rest := by
  unfold encodeMessage at h
  split at h; · cases h
  rename_i qd hqd
  split at h; · cases h
  rename_i an han'
  split at h; · cases h
  rename_i ns hns'
  split at h; · cases h
  rename_i ar har'
  obtain ⟨rfl, _⟩ := usizeToU16_ok hqd
  obtain ⟨rfl, _⟩ := usizeToU16_ok han'
  obtain ⟨rfl, _⟩ := usizeToU16_ok hns'
  obtain ⟨rfl, _⟩ := usizeToU16_ok har'
  simp only at h
  have hb0 : ((((encodeHeader WBuf.empty m.header).writeU16 m.questions.length).writeU16
      m.answers.length).writeU16 m.authority.length).writeU16 m.additional.length
      = ⟨header12 m.header m.questions.length m.answers.length m.authority.length
          m.additional.length, []⟩ := by
    simp [encodeHeader_eq, WBuf.writeU16, WBuf.writeOctets, WBuf.empty, header12]
  rw [hb0] at h
  generalize hB0 : (⟨header12 m.header m.questions.length m.answers.length m.authority.length
          m.additional.length, []⟩ : WBuf) = b0 at h
  have extQ := srv_ext_encodeQuestions m.questions b0
  generalize m.questions.foldl encodeQuestion b0 = bQ at h extQ
  split at h; · cases h
  rename_i bA hbA
  split at h; · cases h
  rename_i bN hbN
  split at h; · cases h
  rename_i bR hbR
  cases h
  obtain ⟨y0, hy0⟩ := ((extQ.trans (srv_ext_encodeRRs _ hbA)).trans (srv_ext_encodeRRs _ hbN)).trans
    (srv_ext_encodeRRs _ hbR)
  exact ⟨y0, by rw [hy0, ← hB0]⟩

theorem srv_encodeMessage_len {m : Message} {bs : List UInt8} (h : encodeMessage m = .ok bs) :
    12 ≤ bs.length := by
  obtain ⟨rest, hr⟩ := srv_encodeMessage_prefix h
  rw [hr, List.length_append, header12_length]; omega

theorem srv_flagOctet1_tc (qr aa tc rd : Bool) (op : Nat) :
    flagOctet1 qr op aa tc rd < 256 ∧ testBit (flagOctet1 qr op aa tc rd) HEADER_MASK_TC = tc := by
  have key : ∀ (qr aa tc rd : Bool) (o : Fin 32),
      flagOctet1 qr o.val aa tc rd < 256 ∧
      testBit (flagOctet1 qr o.val aa tc rd) HEADER_MASK_TC = tc := by decide +kernel
  have hmod : (op <<< HEADER_OFFSET_OPCODE) % 256 = ((op % 32) <<< HEADER_OFFSET_OPCODE) % 256 := by
    simp only [HEADER_OFFSET_OPCODE, Nat.shiftLeft_eq]; omega
  have heq : flagOctet1 qr op aa tc rd = flagOctet1 qr (op % 32) aa tc rd := by
    unfold flagOctet1; rw [hmod]
  rw [heq]
  exact key qr aa tc rd ⟨op % 32, Nat.mod_lt _ (by omega)⟩

/-- octet 2 of an encoding carries the message's TC flag -/
theorem srv_encodeMessage_tc {m : Message} {bs : List UInt8} (h : encodeMessage m = .ok bs) :
    srvTcOf bs = some m.header.isTruncated := by
  obtain ⟨rest, hr⟩ := srv_encodeMessage_prefix h
  obtain ⟨hlt, htc⟩ := srv_flagOctet1_tc m.header.isResponse m.header.isAuthoritative
    m.header.isTruncated m.header.recursionDesired m.header.opcode
  unfold srvTcOf
  rw [hr]
  simp [header12, headerBytes, u16Bytes, u8_toNat _ hlt, htc]

/-! ## 6. Shape of the replies -/

/-- answers / authority the resolver result asks for -/
def srvAnswersOf : Except ResolutionError ResolvedRecord → List RR
  | .ok rec => rec.rrs
  | .error _ => []

def srvAuthorityOf : Except ResolutionError ResolvedRecord → List RR
  | .ok rec => rec.soaRR.toList
  | .error _ => []

theorem srv_replyOf_fields (a : Bool) (m : Message) (res : Except ResolutionError ResolvedRecord) :
    (srvReplyOf a m res).header.id = m.header.id ∧
    (srvReplyOf a m res).header.isResponse = true ∧
    (srvReplyOf a m res).header.opcode = m.header.opcode ∧
    (srvReplyOf a m res).header.isTruncated = false ∧
    (srvReplyOf a m res).header.recursionDesired = m.header.recursionDesired ∧
    (srvReplyOf a m res).header.recursionAvailable = !a ∧
    (srvReplyOf a m res).questions = m.questions ∧
    (srvReplyOf a m res).answers = srvAnswersOf res ∧
    (srvReplyOf a m res).authority = srvAuthorityOf res ∧
    (srvReplyOf a m res).additional = [] := by
  match res with
  | .ok (.authoritative rrs soa) => exact ⟨rfl, rfl, rfl, rfl, rfl, rfl, rfl, rfl, rfl, rfl⟩
  | .ok (.authoritativeNameError soa) => exact ⟨rfl, rfl, rfl, rfl, rfl, rfl, rfl, rfl, rfl, rfl⟩
  | .ok (.nonAuthoritative rrs (some s)) => exact ⟨rfl, rfl, rfl, rfl, rfl, rfl, rfl, rfl, rfl, rfl⟩
  | .ok (.nonAuthoritative [] none) => exact ⟨rfl, rfl, rfl, rfl, rfl, rfl, rfl, rfl, rfl, rfl⟩
  | .ok (.nonAuthoritative (rr :: rrs) none) =>
    exact ⟨rfl, rfl, rfl, rfl, rfl, rfl, rfl, rfl, rfl, rfl⟩
  | .error _ => exact ⟨rfl, rfl, rfl, rfl, rfl, rfl, rfl, rfl, rfl, rfl⟩

/-- AA and RCODE of the reply as a function of the resolver result -/
theorem srv_replyOf_aa_rcode (a : Bool) (m : Message) (res : Except ResolutionError ResolvedRecord) :
    ((srvReplyOf a m res).header.isAuthoritative = true ↔
      ((∃ rrs soa, res = .ok (.authoritative rrs soa)) ∨
       ∃ soa, res = .ok (.authoritativeNameError soa))) ∧
    ((srvReplyOf a m res).header.rcode = RCODE_NAMEERROR ↔
      ∃ soa, res = .ok (.authoritativeNameError soa)) ∧
    ((srvReplyOf a m res).header.rcode = RCODE_SERVFAIL ↔
      ((∃ e, res = .error e) ∨ res = .ok (.nonAuthoritative [] none))) ∧
    ((srvReplyOf a m res).header.rcode = RCODE_NOERROR ∨
     (srvReplyOf a m res).header.rcode = RCODE_NAMEERROR ∨
     (srvReplyOf a m res).header.rcode = RCODE_SERVFAIL) := by
  match res with
  | .ok (.authoritative rrs soa) =>
    simp [srvReplyOf, srvBase, RCODE_NOERROR, RCODE_NAMEERROR, RCODE_SERVFAIL]
  | .ok (.authoritativeNameError soa) =>
    simp [srvReplyOf, srvBase, RCODE_NOERROR, RCODE_NAMEERROR, RCODE_SERVFAIL]
  | .ok (.nonAuthoritative rrs (some s)) =>
    simp [srvReplyOf, srvBase, RCODE_NOERROR, RCODE_NAMEERROR, RCODE_SERVFAIL]
  | .ok (.nonAuthoritative [] none) =>
    simp [srvReplyOf, srvBase, srvRcodeReply, RCODE_NOERROR, RCODE_NAMEERROR, RCODE_SERVFAIL]
  | .ok (.nonAuthoritative (rr :: rrs) none) =>
    simp [srvReplyOf, srvBase, RCODE_NOERROR, RCODE_NAMEERROR, RCODE_SERVFAIL]
  | .error _ =>
    simp [srvReplyOf, srvBase, srvRcodeReply, RCODE_NOERROR, RCODE_NAMEERROR, RCODE_SERVFAIL]

/-- never NOERROR with nothing to say; SERVFAIL carries nothing and is never authoritative -/
theorem srv_replyOf_servfail (a : Bool) (m : Message) (res : Except ResolutionError ResolvedRecord) :
    ¬ ((srvReplyOf a m res).header.rcode = RCODE_NOERROR ∧ (srvReplyOf a m res).answers = [] ∧
        (srvReplyOf a m res).authority = []) ∧
    ((srvReplyOf a m res).header.rcode = RCODE_SERVFAIL →
      (srvReplyOf a m res).answers = [] ∧ (srvReplyOf a m res).authority = [] ∧
      (srvReplyOf a m res).header.isAuthoritative = false) := by
  match res with
  | .ok (.authoritative rrs soa) =>
    simp [srvReplyOf, srvBase, RCODE_NOERROR, RCODE_SERVFAIL]
  | .ok (.authoritativeNameError soa) =>
    simp [srvReplyOf, srvBase, RCODE_NOERROR, RCODE_NAMEERROR, RCODE_SERVFAIL]
  | .ok (.nonAuthoritative rrs (some s)) =>
    simp [srvReplyOf, srvBase, RCODE_NOERROR, RCODE_SERVFAIL]
  | .ok (.nonAuthoritative [] none) =>
    simp [srvReplyOf, srvBase, srvRcodeReply, RCODE_NOERROR, RCODE_SERVFAIL]
  | .ok (.nonAuthoritative (rr :: rrs) none) =>
    simp [srvReplyOf, srvBase, RCODE_NOERROR, RCODE_SERVFAIL]
  | .error _ =>
    simp [srvReplyOf, srvBase, srvRcodeReply, RCODE_NOERROR, RCODE_SERVFAIL]

/-- the three shapes of a `resolve_and_build_response` reply -/
theorem srv_rabr_cases (a : Bool) (r : ServerResolver) (m : Message) :
    resolveAndBuildResponse a r m = srvRcodeReply a m RCODE_REFUSED ∨
    resolveAndBuildResponse a r m = srvRcodeReply a m RCODE_SERVFAIL ∨
    ∃ q, m.questions = [q] ∧ questionIsUnknown q = false ∧
      resolveAndBuildResponse a r m = srvReplyOf a m (r q (m.header.recursionDesired && !a)) := by
  rcases srv_triage_cases m with h | h | ⟨q, h⟩
  · exact .inl (srv_rabr_refused a r m h)
  · exact .inr (.inl (srv_rabr_no_question a r m h))
  · obtain ⟨h1, h2⟩ := srv_triage_some h
    exact .inr (.inr ⟨q, h1, h2, srv_rabr_question a r m q h⟩)

/-- a resolver result whose records can be serialised -/
def srvResultWF : Except ResolutionError ResolvedRecord → Prop
  | .ok rec => (∀ rr ∈ rec.rrs, RRWF rr) ∧ (∀ s, rec.soaRR = some s → RRWF s)
  | .error _ => True

theorem srv_rcodeReply_wf (a : Bool) (m : Message) (rc : Nat) (hm : WfMsg m) (hrc : rc < 16) :
    WfMsg (srvRcodeReply a m rc) := by
  obtain ⟨⟨h1, h2, _⟩, hq, _⟩ := hm
  refine ⟨⟨h1, h2, hrc⟩, hq, ?_, ?_, ?_⟩ <;> intro r hr <;> cases hr

theorem srv_replyOf_wf (a : Bool) (m : Message) (res : Except ResolutionError ResolvedRecord)
    (hm : WfMsg m) (hres : srvResultWF res) : WfMsg (srvReplyOf a m res) := by
  obtain ⟨rf1, rf2, rf3, rf4, rf5, rf6, rf7, rf8, rf9, rf10⟩ := srv_replyOf_fields a m res
  obtain ⟨_, _, _, hrc⟩ := srv_replyOf_aa_rcode a m res
  obtain ⟨⟨h1, h2, _⟩, hq, _⟩ := hm
  refine ⟨⟨by rw [rf1]; exact h1, by rw [rf3]; exact h2, ?_⟩, by rw [rf7]; exact hq, ?_, ?_, ?_⟩
  · rcases hrc with h | h | h <;> rw [h] <;> decide
  · rw [rf8]
    match res, hres with
    | .ok rec, hres => exact hres.1
    | .error _, _ => intro r hr; cases hr
  · rw [rf9]
    match res, hres with
    | .ok rec, hres =>
      intro r hr
      simp only [srvAuthorityOf, Option.mem_toList] at hr
      exact hres.2 r hr
    | .error _, _ => intro r hr; cases hr
  · rw [rf10]; intro r hr; cases hr

theorem srv_notImp_wf (m : Message) (hm : WfMsg m) : WfMsg (srvNotImp m) := by
  obtain ⟨⟨h1, h2, _⟩, hq, _⟩ := hm
  refine ⟨⟨h1, h2, (by show RCODE_NOTIMP < 16; decide)⟩, hq, ?_, ?_, ?_⟩ <;>
    intro r hr <;> cases hr

theorem srv_formerr_wf (id : Nat) (h : id < 65536) : WfMsg (makeFormatErrorResponse id) := by
  refine ⟨⟨h, (by show OPCODE_STANDARD < 16; decide), (by show RCODE_FORMERR < 16; decide)⟩,
    ?_, ?_, ?_, ?_⟩ <;> intro r hr <;> cases hr

/-- the twelve octets of a FORMERR reply -/
theorem srv_formerr_encode (id : Nat) :
    encodeMessage (makeFormatErrorResponse id) =
      .ok (u16Bytes id ++ [128, 129, 0, 0, 0, 0, 0, 0, 0, 0]) := by
  simp [encodeMessage, makeFormatErrorResponse, usizeToU16, encodeHeader, WBuf.writeU16,
    WBuf.writeU8, WBuf.writeOctets, WBuf.empty, encodeRRs, flag, u16Bytes, u8, OPCODE_STANDARD,
    RCODE_FORMERR, HEADER_MASK_QR, HEADER_MASK_OPCODE, HEADER_OFFSET_OPCODE,
    HEADER_MASK_RA, HEADER_MASK_RCODE, HEADER_OFFSET_RCODE]

/-! ## 7. The send paths -/

/-- serialise (with the SERVFAIL fallback) and frame for UDP (`none` = nothing is sent) -/
def srvSendUdp : Option Message → Option (List UInt8)
  | none => none
  | some m =>
    match serialiseResponse m with
    | some (_, bs) => udpFrame bs
    | none => none

/-- serialise (with the SERVFAIL fallback) and frame for TCP -/
def srvSendTcp : Option Message → Option (List UInt8)
  | none => none
  | some m =>
    match serialiseResponse m with
    | some (_, bs) => tcpFrame bs
    | none => none

theorem srv_serialise_ok {m : Message} {bs : List UInt8} (h : encodeMessage m = .ok bs) :
    serialiseResponse m = some (m, bs) := by
  unfold serialiseResponse; rw [h]

theorem srv_serialise_err {m : Message} {e : EErr} (h : encodeMessage m = .error e) :
    serialiseResponse m =
      match encodeMessage (servfailFallback m) with
      | .ok bs => some (servfailFallback m, bs)
      | .error _ => none := by
  unfold serialiseResponse; rw [h]
  cases encodeMessage (servfailFallback m) <;> rfl

/-- whatever `serialise_response` returns is a message together with its own serialisation, and
    the message is the reply itself or its SERVFAIL fallback -/
theorem srv_serialise_some {m m' : Message} {bs : List UInt8}
    (h : serialiseResponse m = some (m', bs)) :
    encodeMessage m' = .ok bs ∧
    ((m' = m) ∨ (m' = servfailFallback m ∧ ∃ e, encodeMessage m = .error e)) := by
  unfold serialiseResponse at h
  cases he : encodeMessage m with
  | ok bs0 =>
    rw [he] at h
    simp only [Option.some.injEq, Prod.mk.injEq] at h
    obtain ⟨rfl, rfl⟩ := h
    exact ⟨he, .inl rfl⟩
  | error e =>
    rw [he] at h
    simp only at h
    cases hf : encodeMessage (servfailFallback m) with
    | ok bs1 =>
      rw [hf] at h
      simp only [Option.some.injEq, Prod.mk.injEq] at h
      obtain ⟨rfl, rfl⟩ := h
      exact ⟨hf, .inr ⟨rfl, e, rfl⟩⟩
    | error e' => rw [hf] at h; cases h

/-- a message with questions only (fewer than 65 536) always serialises -/
theorem srv_encode_questions_only (m : Message) (hq : m.questions.length < 65536)
    (ha : m.answers = []) (hn : m.authority = []) (hr : m.additional = []) :
    ∃ bs, encodeMessage m = .ok bs := by
  unfold encodeMessage
  simp [usizeToU16, hq, ha, hn, hr, encodeRRs]

/-- the SERVFAIL fallback serialises as soon as the question count fits 16 bits -/
theorem srv_fallback_encodes (m : Message) (hq : m.questions.length < 65536) :
    ∃ bs, encodeMessage (servfailFallback m) = .ok bs :=
  srv_encode_questions_only (servfailFallback m) hq rfl rfl rfl

theorem srv_serialise_total (m : Message) (hq : m.questions.length < 65536) :
    ∃ m' bs, serialiseResponse m = some (m', bs) := by
  cases he : encodeMessage m with
  | ok bs => exact ⟨m, bs, srv_serialise_ok he⟩
  | error e =>
    obtain ⟨bs, hf⟩ := srv_fallback_encodes m hq
    refine ⟨servfailFallback m, bs, ?_⟩
    rw [srv_serialise_err he, hf]

/-- every reply of `handle_raw_message` echoes a decoded question section (or none): its count
    fits 16 bits -/
theorem srv_reply_questions_lt {a : Bool} {r : ServerResolver} {buf : List UInt8} {reply : Message}
    (h : handleRawMessage a r buf = some reply) : reply.questions.length < 65536 := by
  cases hd : decodeMessage buf with
  | error e =>
    rw [srv_handle_error hd] at h
    cases hid : e.id with
    | none => rw [hid] at h; cases h
    | some id => rw [hid] at h; cases h; exact (by decide : (0 : Nat) < 65536)
  | ok m =>
    obtain ⟨cq, _, _, _⟩ := decodeMessage_counts hd
    cases hr : m.header.isResponse with
    | true => rw [srv_handle_response hd hr] at h; cases h
    | false =>
      by_cases ho : m.header.opcode = OPCODE_STANDARD
      · rw [srv_handle_query hd hr ho] at h; cases h
        rcases srv_rabr_cases a r m with h' | h' | ⟨q, _, _, h'⟩ <;> rw [h']
        · exact cq
        · exact cq
        · rw [(srv_replyOf_fields a m _).2.2.2.2.2.2.1]; exact cq
      · rw [srv_handle_notimp hd hr ho] at h; cases h; exact cq

/-- the fallback of a reply to a standard query is the SERVFAIL reply -/
theorem srv_fallback_replyOf (a : Bool) (m : Message) (res : Except ResolutionError ResolvedRecord) :
    servfailFallback (srvReplyOf a m res) = srvRcodeReply a m RCODE_SERVFAIL := by
  match res with
  | .ok (.authoritative rrs soa) => rfl
  | .ok (.authoritativeNameError soa) => rfl
  | .ok (.nonAuthoritative rrs (some s)) => rfl
  | .ok (.nonAuthoritative [] none) => rfl
  | .ok (.nonAuthoritative (rr :: rrs) none) => rfl
  | .error _ => rfl

theorem srv_fallback_rcodeReply (a : Bool) (m : Message) (rc : Nat) :
    servfailFallback (srvRcodeReply a m rc) = srvRcodeReply a m RCODE_SERVFAIL := rfl

theorem srv_serveUdp_eq (a : Bool) (r : ServerResolver) (d : List UInt8) :
    serveUdp a r d = srvSendUdp (handleRawMessage a r d) := by
  unfold serveUdp
  cases handleRawMessage a r d <;> rfl

theorem srv_serveTcp_eq (a : Bool) (r : ServerResolver) (e : Nat) (rec : List UInt8) :
    serveTcp a r e rec = srvSendTcp (match tcpRead e rec with
      | .ok bytes => handleRawMessage a r bytes
      | .error id => id.map makeFormatErrorResponse) := by
  unfold serveTcp
  cases tcpRead e rec with
  | ok b => simp only; cases handleRawMessage a r b <;> rfl
  | error id => cases id <;> rfl

/-- a complete read hands over exactly the announced prefix of what the connection delivered -/
theorem srv_tcpRead_full {e : Nat} {rec : List UInt8} (h : e ≤ rec.length) :
    tcpRead e rec = .ok (rec.take e) := by
  unfold tcpRead; rw [if_pos h]

/-- a complete read: the TCP reply path handles the first `e` octets -/
theorem srv_serveTcp_full (a : Bool) (r : ServerResolver) {e : Nat} {rec : List UInt8}
    (h : e ≤ rec.length) :
    serveTcp a r e rec = srvSendTcp (handleRawMessage a r (rec.take e)) := by
  rw [srv_serveTcp_eq, srv_tcpRead_full h]

theorem srv_tcpRead_short {e : Nat} {rec : List UInt8} (h : rec.length < e) :
    tcpRead e rec = .error (if h2 : 2 ≤ rec.length then
      some ((rec[0]'(by omega)).toNat * 256 + (rec[1]'(by omega)).toNat) else none) := by
  unfold tcpRead; rw [if_neg (by omega)]
  match rec with
  | [] => rfl
  | [_] => rfl
  | _ :: _ :: _ => simp

/-! ## 8. Reload (C19) -/

/-- the live configuration after a sequence of reload attempts (`none` = some file failed) -/
def reloadHistory (init : Zones) (hist : List (Option Zones)) : Zones :=
  hist.foldl (fun live l => (reload live l).1) init

@[simp] theorem srv_reload_none (live : Zones) : (reload live none).1 = live := rfl
@[simp] theorem srv_reload_some (live z : Zones) : (reload live (some z)).1 = z := rfl

@[simp] theorem srv_reloadHistory_nil (init : Zones) : reloadHistory init [] = init := rfl

@[simp] theorem srv_reloadHistory_cons (init : Zones) (l : Option Zones) (hist : List (Option Zones)) :
    reloadHistory init (l :: hist) = reloadHistory (reload init l).1 hist := rfl

theorem srv_reloadHistory_append (init : Zones) (h1 h2 : List (Option Zones)) :
    reloadHistory init (h1 ++ h2) = reloadHistory (reloadHistory init h1) h2 := by
  unfold reloadHistory; rw [List.foldl_append]

theorem srv_getLast_cons_getD {α : Type} (z d : α) (l : List α) :
    ((z :: l).getLast?).getD d = (l.getLast?).getD z := by
  cases l with
  | nil => rfl
  | cons y ys => rw [List.getLast?_cons_cons]; simp [List.getLast?_cons]

theorem srv_reloadHistory_last_good (hist : List (Option Zones)) :
    ∀ init : Zones, reloadHistory init hist = ((hist.filterMap id).getLast?).getD init := by
  induction hist with
  | nil => intro init; rfl
  | cons l hist ih =>
    intro init
    rw [srv_reloadHistory_cons, ih]
    cases l with
    | none => simp
    | some z =>
      simp only [srv_reload_some, List.filterMap_cons, id]
      rw [srv_getLast_cons_getD]

theorem srv_reloadHistory_all_failed (init : Zones) (hist : List (Option Zones))
    (h : ∀ l ∈ hist, l = none) : reloadHistory init hist = init := by
  induction hist generalizing init with
  | nil => rfl
  | cons l hist ih =>
    have hl : l = none := h l (by simp)
    subst hl
    rw [srv_reloadHistory_cons, srv_reload_none]
    exact ih init (fun x hx => h x (by simp [hx]))

/-- the live configuration is always the initial one or one of the loaded ones, whole -/
theorem srv_reloadHistory_mem (hist : List (Option Zones)) :
    ∀ init : Zones, reloadHistory init hist = init ∨ some (reloadHistory init hist) ∈ hist := by
  induction hist with
  | nil => intro init; exact .inl rfl
  | cons l hist ih =>
    intro init
    rw [srv_reloadHistory_cons]
    rcases ih (reload init l).1 with h | h
    · cases l with
      | none => left; rw [h]; rfl
      | some z => right; rw [h]; simp
    · right; exact List.mem_cons_of_mem _ h

theorem srv_load_some {zoneFiles : List (Option Zone)} {hosts : Option Zone} {zs : Zones}
    (h : loadConfiguration zoneFiles hosts = some zs) :
    (∀ f ∈ zoneFiles, f.isSome = true) ∧ hosts.isSome = true := by
  unfold loadConfiguration at h
  split at h
  · cases h
  · rename_i hc
    simp only [Bool.or_eq_true, not_or, Bool.not_eq_true, List.any_eq_false] at hc
    constructor
    · intro f hf
      have := hc.1 f hf
      cases f <;> simp_all
    · cases hosts <;> simp_all

theorem srv_load_all_some (zs : List Zone) (h : Zone) :
    loadConfiguration (zs.map some) (some h) =
      (zs.foldl (fun acc z => acc.bind (·.insertMerge z)) (some Zones.empty)).bind
        (·.insertMerge h) := by
  unfold loadConfiguration
  have h1 : (zs.map some).any Option.isNone = false := by
    simp [List.any_eq_false]
  have h2 : (zs.map some).filterMap id = zs := by
    simp [List.filterMap_map]
  rw [h1, h2]
  simp only [Option.isNone_some, Bool.or_self, Bool.false_eq_true, if_false]
  cases zs.foldl (fun acc z => acc.bind (·.insertMerge z)) (some Zones.empty) <;> rfl

theorem srv_load_none_at (pre suf : List (Option Zone)) (hosts : Option Zone) :
    loadConfiguration (pre ++ none :: suf) hosts = none := by
  unfold loadConfiguration
  have : (pre ++ none :: suf).any Option.isNone = true := by
    simp
  simp [this]

theorem srv_load_no_hosts (zoneFiles : List (Option Zone)) :
    loadConfiguration zoneFiles none = none := by
  unfold loadConfiguration; simp

end Resolved
