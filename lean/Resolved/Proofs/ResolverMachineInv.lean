/-
  Invariants of the recursive machine, each an induction over `Reach`: exchange-log shape (C18),
  time budget and monotonicity (C08), zones / clock untouched, question-stack discipline (C10).
-/
import Resolved.Proofs.ResolverMachineReach

namespace Resolved

open Gen

/-- what a machine's `Net` demands of one logged exchange. -/
def ExOK (n : Net) (e : Exchange) : Prop := e.port = n.port ∧ e.recursionDesired = n.rd ∧ n.addrOK e.addr

/-- every logged exchange went to the configured port, with the machine's RD flag, to an allowed
    address.  For the recursive resolver (`cfg.net`): configured port, RD clear, and under only-vX
    an address of family X. -/
def LogOK (n : Net) (log : List Exchange) : Prop := ∀ e ∈ log, ExOK n e

/-- within the 60 s budget. -/
def RunOK (run : Run) : Prop := run.elapsedMs ≤ RESOLVE_TIMEOUT_MS

/-- the question stack is within the recursion limit and has no repeated question. -/
def StackOK (ctx : Ctx) : Prop := ctx.stack.length ≤ RECURSION_LIMIT ∧ ctx.stack.Nodup

theorem LogOK.nil (n : Net) : LogOK n [] := by intro e he; cases he

theorem Reach.logOK {n : Net} {a b : St} (h : Reach n a b) :
    LogOK n a.run.log → LogOK n b.run.log := by
  induction h with
  | refl => exact id
  | trans _ _ ih1 ih2 => exact fun h => ih2 (ih1 h)
  | loc | push | pop | cache => exact id
  | query st addr q hf ht =>
    intro hl e he
    obtain ⟨l, hlog, hq, _⟩ := queryNameserver_ext n.oracle st.run addr n.port q n.rd
    simp only at he
    rw [hlog] at he
    rcases List.mem_append.mp he with he | he
    · exact hl e he
    · obtain ⟨h1, h2, _, h4⟩ := hq e he
      exact ⟨h2, h4, by rw [h1]; exact hf⟩

theorem Reach.log_prefix {n : Net} {a b : St} (h : Reach n a b) : a.run.log <+: b.run.log := by
  induction h with
  | refl => exact List.prefix_refl _
  | trans _ _ ih1 ih2 => exact ih1.trans ih2
  | loc | push | pop | cache => exact List.prefix_refl _
  | query st addr q hf ht =>
    obtain ⟨l, hlog, _, _⟩ := queryNameserver_ext n.oracle st.run addr n.port q n.rd
    exact ⟨l, hlog.symm⟩

theorem Reach.runOK {n : Net} {a b : St} (h : Reach n a b) :
    RunOK a.run → RunOK b.run ∧ a.run.elapsedMs ≤ b.run.elapsedMs := by
  induction h with
  | refl => exact fun h => ⟨h, Nat.le_refl _⟩
  | trans _ _ ih1 ih2 =>
    intro h
    obtain ⟨h1, h2⟩ := ih1 h
    obtain ⟨h3, h4⟩ := ih2 h1
    exact ⟨h3, Nat.le_trans h2 h4⟩
  | loc | push | pop | cache => exact fun h => ⟨h, Nat.le_refl _⟩
  | query st addr q hf ht =>
    intro h
    obtain ⟨h1, _, h3⟩ := queryNameserver_time n.oracle st.run addr n.port q n.rd h
    exact ⟨h1, h3⟩

/-- once timed out, the run (log, clock) never changes again: no exchange after the deadline. -/
theorem Reach.timedOut_frozen {n : Net} {a b : St} (h : Reach n a b) :
    a.run.timedOut = true → b.run = a.run := by
  induction h with
  | refl => exact fun _ => rfl
  | trans _ _ ih1 ih2 =>
    intro h
    have h1 := ih1 h
    rw [← h1] at h
    rw [ih2 h, h1]
  | loc | push | pop | cache => exact fun _ => rfl
  | query st addr q hf ht => intro h; rw [h] at ht; cases ht

theorem Reach.ctx_same {n : Net} {a b : St} (h : Reach n a b) :
    b.ctx.zones = a.ctx.zones ∧ b.ctx.now = a.ctx.now := by
  induction h with
  | refl => exact ⟨rfl, rfl⟩
  | trans _ _ ih1 ih2 => exact ⟨ih2.1.trans ih1.1, ih2.2.trans ih1.2⟩
  | loc st fuel q => exact ⟨resolveLocal_zones fuel st.ctx q, resolveLocal_now fuel st.ctx q⟩
  | push | pop | cache | query => exact ⟨rfl, rfl⟩

theorem Reach.stackOK {n : Net} {a b : St} (h : Reach n a b) : StackOK a.ctx → StackOK b.ctx := by
  induction h with
  | refl => exact id
  | trans _ _ ih1 ih2 => exact fun h => ih2 (ih1 h)
  | loc st fuel q =>
    intro h
    simp only [StackOK, resolveLocal_stack]
    exact h
  | push st q ht hl hd =>
    intro ⟨h1, h2⟩
    simp only [Ctx.atRecursionLimit, beq_eq_false_iff_ne, ne_eq] at hl
    simp only [Ctx.isDuplicate, List.contains_eq_mem, decide_eq_false_iff_not] at hd
    refine ⟨?_, ?_⟩
    · simp only [Ctx.push, List.length_append, List.length_singleton]; omega
    · simp only [Ctx.push]
      rw [List.nodup_append]
      refine ⟨h2, by simp, ?_⟩
      intro x hx y hy
      simp only [List.mem_singleton] at hy
      subst hy
      intro hxy; subst hxy; exact hd hx
  | pop st =>
    intro ⟨h1, h2⟩
    refine ⟨?_, ?_⟩
    · simp only [Ctx.pop, List.length_dropLast]; omega
    · simp only [Ctx.pop]
      exact (List.dropLast_sublist _).nodup h2
  | cache | query => exact id

theorem Reach.deadline {n : Net} {a b : St} (h : Reach n a b) : Deadline a.run → Deadline b.run := by
  induction h with
  | refl => exact id
  | trans _ _ ih1 ih2 => exact fun h => ih2 (ih1 h)
  | loc | push | pop | cache => exact id
  | query st addr q hf ht => exact queryNameserver_deadline _ _ _ _ _ _

theorem Reach.cost {n : Net} {a b : St} (h : Reach n a b) : CostLe a.run b.run := by
  induction h with
  | refl => exact CostLe.refl _
  | trans _ _ ih1 ih2 => exact ih1.trans ih2
  | loc | push | pop | cache => exact CostLe.refl _
  | query st addr q hf ht => exact queryNameserver_cost _ _ _ _ _ _

/-! ## The wrappers -/

theorem resolveRecursive_fst (cfg : RecCfg) (ctx : Ctx) (q : Question) :
    (resolveRecursive cfg ctx q).1 = (resolveRec cfg REC_FUEL ⟨ctx, Run.empty⟩ q).1 := by
  unfold resolveRecursive
  simp only []
  split <;> rfl

theorem resolveForwarding_fst (cfg : FwdCfg) (ctx : Ctx) (q : Question) :
    (resolveForwarding cfg ctx q).1 = (resolveFwd cfg REC_FUEL ⟨ctx, Run.empty⟩ q).1 := by
  unfold resolveForwarding
  simp only []
  split <;> rfl

theorem resolveRecursive_reach (cfg : RecCfg) (ctx : Ctx) (q : Question) :
    Good cfg.net ⟨ctx, Run.empty⟩ (resolveRecursive cfg ctx q).1 := by
  rw [resolveRecursive_fst]; exact (machine_good cfg REC_FUEL).1 _ _

theorem resolveForwarding_reach (cfg : FwdCfg) (ctx : Ctx) (q : Question) :
    Good cfg.net ⟨ctx, Run.empty⟩ (resolveForwarding cfg ctx q).1 := by
  rw [resolveForwarding_fst]; exact resolveFwd_good cfg REC_FUEL _ _

theorem Deadline.empty : Deadline Run.empty := by
  refine ⟨fun h => ?_, fun _ => ?_⟩
  · cases h
  · show 0 < RESOLVE_TIMEOUT_MS; decide

theorem RunOK.empty : RunOK Run.empty := by
  show 0 ≤ RESOLVE_TIMEOUT_MS; decide

end Resolved
