/-
  Lemmas about the flat specification `ZSpec` (no tree involved): suffix lists, delegation point,
  closest encloser, consequences of hypothesis D1.
-/
import Resolved.Proofs.ZoneClassify

namespace Resolved

open Gen ZSpec

namespace ZSpec

theorem mem_properSuffixes (rel d : List Label) :
    d ∈ properSuffixes rel ↔ d ≠ [] ∧ d <:+ rel := by
  unfold properSuffixes
  simp only [List.mem_map, List.mem_range]
  constructor
  · rintro ⟨i, hi, rfl⟩
    refine ⟨?_, List.drop_suffix _ _⟩
    intro h
    have := congrArg List.length h
    simp only [List.length_drop, List.length_nil] at this
    omega
  · rintro ⟨hne, t, rfl⟩
    have hl : 0 < d.length := List.length_pos_iff.mpr hne
    refine ⟨d.length - 1, by simp only [List.length_append]; omega, ?_⟩
    have : (t ++ d).length - 1 - (d.length - 1) = t.length := by
      simp only [List.length_append]; omega
    rw [this]; simp

theorem delegationPoint_some {es : List Entry} {rel d : List Label}
    (h : delegationPoint es rel = some d) :
    d ≠ [] ∧ d <:+ rel ∧ ofType (recordsAt es d false) RT_NS ≠ [] := by
  unfold delegationPoint at h
  have hm := List.mem_of_find?_eq_some h
  have hp := List.find?_some h
  obtain ⟨h1, h2⟩ := (mem_properSuffixes rel d).mp hm
  refine ⟨h1, h2, ?_⟩
  simpa using hp

theorem delegationPoint_none {es : List Entry} {rel : List Label}
    (h : delegationPoint es rel = none) :
    ∀ d, d ≠ [] → d <:+ rel → ofType (recordsAt es d false) RT_NS = [] := by
  unfold delegationPoint at h
  rw [List.find?_eq_none] at h
  intro d h1 h2
  have := h d ((mem_properSuffixes rel d).mpr ⟨h1, h2⟩)
  simpa using this

theorem mem_recordsAt {es : List Entry} {rel : List Label} {wild : Bool} {zr : ZoneRecord} :
    zr ∈ recordsAt es rel wild ↔ ∃ e ∈ es, e.rel = rel ∧ e.wild = wild ∧ e.zr = zr := by
  unfold recordsAt
  simp only [List.mem_eraseDups, List.mem_map, List.mem_filter, Bool.and_eq_true, beq_iff_eq]
  constructor
  · rintro ⟨e, ⟨he, h1, h2⟩, h3⟩; exact ⟨e, he, h1, h2, h3⟩
  · rintro ⟨e, he, h1, h2, h3⟩; exact ⟨e, ⟨he, h1, h2⟩, h3⟩

theorem exists_entry_of_recordsAt_ne_nil {es : List Entry} {rel : List Label} {wild : Bool}
    (h : recordsAt es rel wild ≠ []) : ∃ e ∈ es, e.rel = rel ∧ e.wild = wild := by
  obtain ⟨zr, hzr⟩ := List.exists_mem_of_ne_nil _ h
  obtain ⟨e, he, h1, h2, _⟩ := mem_recordsAt.mp hzr
  exact ⟨e, he, h1, h2⟩

theorem existsNode_iff {es : List Entry} {rel : List Label} :
    existsNode es rel = true ↔ rel = [] ∨ ∃ e ∈ es, rel <:+ e.rel := by
  simp [existsNode, isSuffix]

theorem existsNode_of_entry {es : List Entry} {e : Entry} (he : e ∈ es) : existsNode es e.rel = true :=
  existsNode_iff.mpr (Or.inr ⟨e, he, List.suffix_refl _⟩)

theorem existsNode_suffix {es : List Entry} (s d : List Label) (h : existsNode es (s ++ d) = true) :
    existsNode es d = true := by
  rw [existsNode_iff] at h ⊢
  rcases h with h | ⟨e, he, hs⟩
  · left; simp only [List.append_eq_nil_iff] at h; exact h.2
  · right; exact ⟨e, he, (List.suffix_append s d).trans hs⟩

/-- D1 spelled out. -/
theorem d1_spec {es : List Entry} (h : d1 es = true) (e : Entry) (he : e ∈ es) (d : List Label)
    (hne : d ≠ []) (hs : d <:+ e.rel) (hb : d.length < e.rel.length ∨ e.wild = true) :
    ofType (recordsAt es d false) RT_NS = [] := by
  unfold d1 at h
  rw [List.all_eq_true] at h
  have h1 := h e he
  rw [List.all_eq_true] at h1
  have h2 := h1 d ((mem_properSuffixes e.rel d).mpr ⟨hne, hs⟩)
  simp only [Bool.not_eq_true', Bool.and_eq_false_iff, Bool.or_eq_false_iff, decide_eq_false_iff_not,
    Bool.not_eq_false', List.isEmpty_iff] at h2
  rcases h2 with h2 | h2
  · exfalso
    rcases hb with hb | hb
    · exact h2.1 hb
    · rw [hb] at h2; exact absurd h2.2 (by simp)
  · exact h2

/-- under D1 nothing exists beneath a delegation point … -/
theorem d1_no_child {es : List Entry} (h : d1 es = true) (d : List Label) (hne : d ≠ [])
    (hns : ofType (recordsAt es d false) RT_NS ≠ []) (l : Label) :
    existsNode es (l :: d) = false := by
  rw [Bool.eq_false_iff]
  intro hex
  rw [existsNode_iff] at hex
  rcases hex with hex | ⟨e, he, hs⟩
  · cases hex
  · apply hns
    apply d1_spec h e he d hne ((List.suffix_cons l d).trans hs)
    left
    have := hs.length_le
    simp only [List.length_cons] at this
    omega

/-- … and it has no wildcard records. -/
theorem d1_no_wild {es : List Entry} (h : d1 es = true) (d : List Label) (hne : d ≠ [])
    (hns : ofType (recordsAt es d false) RT_NS ≠ []) : recordsAt es d true = [] := by
  cases hw : recordsAt es d true with
  | nil => rfl
  | cons z zs =>
    exfalso
    obtain ⟨e, he, h1, h2⟩ := exists_entry_of_recordsAt_ne_nil (es := es) (rel := d) (wild := true)
      (by rw [hw]; simp)
    apply hns
    exact d1_spec h e he d hne (by rw [h1]; exact List.suffix_refl _) (Or.inr h2)

/-! ### closest encloser -/

def candsOf (rel : List Label) : List (List Label × Option Label) :=
  (List.range rel.length).map (fun i => (rel.drop (i + 1), rel[i]?))

theorem candsOf_cons (x : Label) (rel : List Label) :
    candsOf (x :: rel) = (rel, some x) :: candsOf rel := by
  unfold candsOf
  simp only [List.length_cons, List.range_succ_eq_map, List.map_cons, List.map_map]
  simp only [Nat.zero_add, List.drop_succ_cons, List.drop_zero, List.getElem?_cons_zero, List.cons.injEq,
    true_and]
  apply List.map_congr_left
  intro i _
  simp

theorem closestEncloser_eq_find (es : List Entry) (rel : List Label) :
    closestEncloser es rel =
      match (candsOf rel).find? (fun c => existsNode es c.1) with
      | some c => c
      | none => ([], rel.getLast?) := rfl

theorem closestEncloser_eq (es : List Entry) (pre : List Label) (l : Label) (c : List Label)
    (hc : existsNode es c = true) (hl : existsNode es (l :: c) = false) :
    closestEncloser es (pre ++ l :: c) = (c, some l) := by
  rw [closestEncloser_eq_find]
  have : (candsOf (pre ++ l :: c)).find? (fun c => existsNode es c.1) = some (c, some l) := by
    induction pre with
    | nil => simp [candsOf_cons, hc]
    | cons x pre' ih =>
      simp only [List.cons_append, candsOf_cons, List.find?_cons]
      have : existsNode es (pre' ++ l :: c) = false := by
        rw [Bool.eq_false_iff]; intro hh
        have := existsNode_suffix pre' (l :: c) hh
        rw [hl] at this; cases this
      simp only [this]
      exact ih
  rw [this]

/-! ### lookup unfolded -/

/-- the `exact` branch of `lookup`. -/
def specExact (es : List Entry) (apex qname : Name) (rel : List Label) (qtype : Nat) (cd : Bool) :
    ZoneResult :=
  if existsNode es rel then
    classify (recordsAt es rel false) qname qtype (absName rel apex) cd
  else
    let (c, next) := closestEncloser es rel
    let ws := recordsAt es c true
    if ws.isEmpty then .nameError
    else
      match next with
      | some l => classify ws qname qtype (absName (l :: c) apex) true
      | none => .panic

theorem lookup_eq (es : List Entry) (apex qname : Name) (rel : List Label) (qtype : Nat) :
    lookup es apex qname rel qtype =
      match delegationPoint es rel with
      | some d =>
        if d == rel && qtype == RT_NS then specExact es apex qname rel qtype false
        else
          match absName d apex with
          | some o => .delegation ((ofType (recordsAt es d false) RT_NS).map (·.toRR o))
          | none => .panic
      | none => specExact es apex qname rel qtype false := rfl

end ZSpec

end Resolved
