/-
  C13, name level: a name whose labels are ASCII without `.` (and, as every stored label, without
  upper-case letters) is written by `serialise_domain` as a token that `parse_domain` reads back as
  the same name, relative to the `$ORIGIN` that `Zone::serialise` emits.
-/
import Resolved.Proofs.NameLemmas
import Resolved.Proofs.ZoneTextOctets

namespace Resolved.ZoneText

open Resolved Resolved.IpText Gen

/-! ## text labels and text names -/

/-- an octet that may stand in a label of a zone file: ASCII, not `.`, not an upper-case letter
    (labels are stored lower-cased). -/
def TextOctet (b : UInt8) : Prop := b.toNat < 128 ∧ b ≠ 46 ∧ ¬ isUpper b

def TextLabel (l : Label) : Prop := l.length ≤ LABEL_MAX_LEN ∧ ∀ b ∈ l, TextOctet b

/-- a well-formed name (what `from_labels` builds) all of whose labels are text labels. -/
def TextName (n : Name) : Prop := Name.fromLabels n.labels = some n ∧ ∀ l ∈ n.labels, TextLabel l

theorem TextName.shape {n : Name} (h : TextName n) :
    LabelsShape n.labels ∧ n.labels.length + sumLen n.labels ≤ DOMAINNAME_MAX_LEN
      ∧ n = ⟨n.labels, n.labels.length + sumLen n.labels⟩ := by
  have h1 := h.1
  rw [fromLabels_eq] at h1
  split at h1
  · rename_i hc
    refine ⟨hc.1, hc.2, ?_⟩
    exact (Option.some.inj h1).symm
  · cases h1

/-! ## `to_dotted_string` of a text name -/

theorem flatMap_utf8_ascii (l : Label) (h : ∀ b ∈ l, b.toNat < 128) :
    l.flatMap Name.octetAsCharUtf8 = l := by
  induction l with
  | nil => rfl
  | cons b bs ih =>
    have hb : b.toNat < 128 := h b (by simp)
    simp only [List.flatMap_cons, Name.octetAsCharUtf8, hb, if_true]
    rw [ih (fun x hx => h x (by simp [hx]))]
    rfl

theorem splitDot_ne_nil (s : List UInt8) : Name.splitDot s ≠ [] := by
  induction s with
  | nil => simp [Name.splitDot]
  | cons b bs ih =>
    simp only [Name.splitDot]
    split
    · simp
    · split <;> simp

theorem splitDot_nodot (l : List UInt8) (h : ∀ b ∈ l, b ≠ 46) : Name.splitDot l = [l] := by
  induction l with
  | nil => rfl
  | cons b bs ih =>
    have hb : b ≠ 46 := h b (by simp)
    simp only [Name.splitDot, hb, if_false]
    rw [ih (fun x hx => h x (by simp [hx]))]

theorem splitDot_append_dot (l rest : List UInt8) (h : ∀ b ∈ l, b ≠ 46) :
    Name.splitDot (l ++ 46 :: rest) = l :: Name.splitDot rest := by
  induction l with
  | nil => simp [Name.splitDot]
  | cons b bs ih =>
    have hb : b ≠ 46 := h b (by simp)
    simp only [List.cons_append, Name.splitDot, hb, if_false]
    rw [ih (fun x hx => h x (by simp [hx]))]

theorem dottedLabels_cons_true (l : Label) (ls : List Label) (h : ∀ b ∈ l, b.toNat < 128) :
    Name.dottedLabels (l :: ls) true = l ++ Name.dottedLabels ls false := by
  simp [Name.dottedLabels, flatMap_utf8_ascii l h]

theorem dottedLabels_cons_false (l : Label) (ls : List Label) (h : ∀ b ∈ l, b.toNat < 128) :
    Name.dottedLabels (l :: ls) false = 46 :: (l ++ Name.dottedLabels ls false) := by
  simp [Name.dottedLabels, flatMap_utf8_ascii l h]

/-- splitting the dotted string of text labels at the dots gives the labels back. -/
theorem splitDot_dotted (ls : List Label) (hl : ∀ l ∈ ls, TextLabel l) :
    ∀ l : Label, TextLabel l → Name.splitDot (l ++ Name.dottedLabels ls false) = l :: ls := by
  induction ls with
  | nil =>
    intro l htl
    simp only [Name.dottedLabels, List.append_nil]
    exact splitDot_nodot l (fun b hb => (htl.2 b hb).2.1)
  | cons m ms ih =>
    intro l htl
    have hm : TextLabel m := hl m (by simp)
    rw [dottedLabels_cons_false m ms (fun b hb => (hm.2 b hb).1)]
    rw [splitDot_append_dot l _ (fun b hb => (htl.2 b hb).2.1)]
    rw [ih (fun x hx => hl x (by simp [hx])) m hm]

theorem map_lowerByte_text (l : Label) (h : TextLabel l) : l.map lowerByte = l := by
  have : ∀ b ∈ l, lowerByte b = b := fun b hb => lowerByte_of_not_upper b (h.2 b hb).2.2
  induction l with
  | nil => rfl
  | cons b bs ih =>
    simp only [List.map_cons]
    rw [this b (by simp), ih ⟨by have := h.1; simp at this; omega, fun x hx => h.2 x (by simp [hx])⟩
      (fun x hx => this x (by simp [hx]))]

theorem tryFrom_text (l : Label) (h : TextLabel l) : Label.tryFrom l = some l := by
  unfold Label.tryFrom
  have := h.1
  rw [if_neg (by omega), map_lowerByte_text l h]

/-- the chunk loop of `from_dotted_string` accepts a shaped list of text labels unchanged. -/
theorem dottedChunksToLabels_text (ls : List Label) (hl : ∀ l ∈ ls, TextLabel l)
    (hne : ∀ l ∈ ls.dropLast, l ≠ []) : Name.dottedChunksToLabels ls = some ls := by
  induction ls with
  | nil => rfl
  | cons l ls ih =>
    cases ls with
    | nil => simp [Name.dottedChunksToLabels, tryFrom_text l (hl l (by simp))]
    | cons m ms =>
      have hl0 : l ≠ [] := hne l (by simp)
      have hle : l.isEmpty = false := by simp [hl0]
      simp only [Name.dottedChunksToLabels, hle, Bool.false_eq_true, if_false,
        tryFrom_text l (hl l (by simp))]
      rw [ih (fun x hx => hl x (by simp [hx])) (fun x hx => hne x (by simp [hx]))]
      rfl

/-- **`from_dotted_string (to_dotted_string n) = n`** for text names. -/
theorem fromDotted_toDotted {n : Name} (h : TextName n) : Name.fromDotted n.toDotted = some n := by
  obtain ⟨hshape, hlen, hn⟩ := h.shape
  obtain ⟨hne, hlast, hinner⟩ := hshape
  have htl := h.2
  cases hls : n.labels with
  | nil => exact absurd hls hne
  | cons l ls =>
    rw [hls] at hne hlast hinner htl
    cases ls with
    | nil =>
      -- the root
      simp at hlast
      subst hlast
      have hnroot : n = Name.root := by rw [hn, hls]; rfl
      rw [hnroot]
      rfl
    | cons m ms =>
      have hl0 : l ≠ [] := hinner l (by simp)
      have hnotroot : n.isRoot = false := by
        unfold Name.isRoot
        rw [hls]
        simp [hl0]
      have htl_l : TextLabel l := htl l (by simp)
      have hdot : n.toDotted = l ++ Name.dottedLabels (m :: ms) false := by
        unfold Name.toDotted
        rw [hnotroot, hls]
        exact dottedLabels_cons_true l _ (fun b hb => (htl_l.2 b hb).1)
      have hsplit : Name.splitDot n.toDotted = l :: m :: ms := by
        rw [hdot]
        exact splitDot_dotted (m :: ms) (fun x hx => htl x (by simp [hx])) l htl_l
      have hne46 : n.toDotted ≠ [46] := by
        rw [hdot]
        cases l with
        | nil => exact absurd rfl hl0
        | cons b bs =>
          have hb : b ≠ 46 := (htl_l.2 b (by simp)).2.1
          intro hh
          simp at hh
          exact hb hh.1
      unfold Name.fromDotted
      rw [if_neg hne46, hsplit, dottedChunksToLabels_text (l :: m :: ms) htl hinner]
      simp only
      rw [← hls]
      exact h.1

/-! ## shape of the dotted string -/

theorem dottedLabels_false_eq (ls : List Label) (h : ∀ l ∈ ls, ∀ b ∈ l, b.toNat < 128) (hne : ls ≠ []) :
    Name.dottedLabels ls false = 46 :: Name.dottedLabels ls true := by
  cases ls with
  | nil => exact absurd rfl hne
  | cons l ls =>
    rw [dottedLabels_cons_false l ls (h l (by simp)), dottedLabels_cons_true l ls (h l (by simp))]

theorem dottedLabels_append (a b : List Label) (first : Bool)
    (ha : ∀ l ∈ a, ∀ x ∈ l, x.toNat < 128) (hne : a ≠ []) :
    Name.dottedLabels (a ++ b) first = Name.dottedLabels a first ++ Name.dottedLabels b false := by
  induction a generalizing first with
  | nil => exact absurd rfl hne
  | cons l ls ih =>
    cases ls with
    | nil =>
      cases first
      · rw [List.singleton_append, dottedLabels_cons_false l b (ha l (by simp)),
          dottedLabels_cons_false l [] (ha l (by simp))]
        simp [Name.dottedLabels]
      · rw [List.singleton_append, dottedLabels_cons_true l b (ha l (by simp)),
          dottedLabels_cons_true l [] (ha l (by simp))]
        simp [Name.dottedLabels]
    | cons m ms =>
      have ih' := ih false (fun x hx => ha x (by simp [hx])) (by simp)
      cases first
      · rw [List.cons_append, dottedLabels_cons_false l _ (ha l (by simp)), ih',
          dottedLabels_cons_false l (m :: ms) (ha l (by simp))]
        simp
      · rw [List.cons_append, dottedLabels_cons_true l _ (ha l (by simp)), ih',
          dottedLabels_cons_true l (m :: ms) (ha l (by simp))]
        simp

/-- the dotted string of labels none of which is empty does not end with a dot, nor start with one. -/
theorem dottedLabels_true_getLast (ls : List Label) (h : ∀ l ∈ ls, TextLabel l) (hne : ls ≠ [])
    (hnn : ∀ l ∈ ls, l ≠ []) :
    ∃ b, (Name.dottedLabels ls true).getLast? = some b ∧ b ≠ 46 := by
  induction ls with
  | nil => exact absurd rfl hne
  | cons l ls ih =>
    have hl := h l (by simp)
    have hl0 := hnn l (by simp)
    rw [dottedLabels_cons_true l ls (fun b hb => (hl.2 b hb).1)]
    cases ls with
    | nil =>
      simp only [Name.dottedLabels, List.append_nil]
      obtain ⟨b, hb⟩ : ∃ b, l.getLast? = some b := by
        cases hgl : l.getLast? with
        | none => simp at hgl; exact absurd hgl hl0
        | some b => exact ⟨b, rfl⟩
      exact ⟨b, hb, (hl.2 b (List.mem_of_getLast? hb)).2.1⟩
    | cons m ms =>
      obtain ⟨b, hb1, hb2⟩ := ih (fun x hx => h x (by simp [hx])) (by simp) (fun x hx => hnn x (by simp [hx]))
      refine ⟨b, ?_, hb2⟩
      rw [dottedLabels_false_eq (m :: ms) (fun x hx y hy => ((h x (by simp [hx])).2 y hy).1) (by simp)]
      rw [List.getLast?_append]
      cases hd : Name.dottedLabels (m :: ms) true with
      | nil => rw [hd] at hb1; simp at hb1
      | cons y ys =>
        rw [hd] at hb1
        rw [List.getLast?_cons_cons, hb1]; rfl

theorem dottedLabels_true_head (l : Label) (ls : List Label) (hl : TextLabel l) (hl0 : l ≠ []) :
    ∃ b, (Name.dottedLabels (l :: ls) true).head? = some b ∧ b ≠ 46 := by
  rw [dottedLabels_cons_true l ls (fun b hb => (hl.2 b hb).1)]
  cases l with
  | nil => exact absurd rfl hl0
  | cons b bs => exact ⟨b, rfl, (hl.2 b (by simp)).2.1⟩

/-- the dotted string of a text name ends with a dot. -/
theorem toDotted_getLast {n : Name} (h : TextName n) : n.toDotted.getLast? = some 46 := by
  obtain ⟨hshape, -, hn⟩ := h.shape
  obtain ⟨hne, hlast, hinner⟩ := hshape
  unfold Name.toDotted
  split
  · rfl
  · -- labels = init ++ [[]]
    have hsplit : n.labels = n.labels.dropLast ++ [[]] := by
      obtain ⟨ys, hys⟩ := List.getLast?_eq_some_iff.mp hlast
      rw [hys]; simp
    by_cases hinit : n.labels.dropLast = []
    · rw [hinit] at hsplit
      rename_i hroot
      exfalso
      apply hroot
      unfold Name.isRoot
      rw [hn, hsplit]
      simp [sumLen]
    · rw [hsplit, dottedLabels_append _ _ _
        (fun l hl x hx => ((h.2 l (List.dropLast_subset _ hl)).2 x hx).1) hinit]
      simp [Name.dottedLabels]

/-! ## `parse_domain` on a token that came from ASCII octets -/

theorem octetAsChar_inj {a b : UInt8} (h : octetAsChar a = octetAsChar b) : a = b := by
  have := congrArg charAsU8 h
  rwa [charAsU8_octetAsChar, charAsU8_octetAsChar] at this

theorem map_charAsU8_octetAsChar (s : List UInt8) : (s.map octetAsChar).map charAsU8 = s := by
  induction s with
  | nil => rfl
  | cons b bs ih => simp [charAsU8_octetAsChar, ih]

theorem map_octetAsChar_eq_singleton (s : List UInt8) (b : UInt8) :
    s.map octetAsChar = [octetAsChar b] ↔ s = [b] := by
  constructor
  · intro h
    cases s with
    | nil => simp at h
    | cons x xs =>
      cases xs with
      | nil => simp at h; rw [octetAsChar_inj h]
      | cons y ys => simp at h
  · intro h; subst h; rfl

/-- `parse_domain` on the chars of an ASCII octet string, in terms of the octets. -/
theorem parseDomain_of_octets (o : Option Name) (s : List UInt8) (hs : s ≠ [])
    (hascii : ∀ b ∈ s, b.toNat < 128) :
    parseDomain o (s.map octetAsChar) =
      if s = [64] then (match o with | some n => .ok n | none => .error .expectedOrigin)
      else if s.getLast? = some 46 then
        (match Name.fromDotted s with | some d => .ok d | none => .error .expectedDomainName)
      else
        (match o with
         | some name =>
           (match Name.fromRelativeDotted name s with | some d => .ok d | none => .error .expectedDomainName)
         | none => .error .expectedOrigin) := by
  unfold parseDomain
  have h1 : (s.map octetAsChar).isEmpty = false := by
    cases s with
    | nil => exact absurd rfl hs
    | cons _ _ => rfl
  have h2 : (s.map octetAsChar).all isAscii = true := by
    simp only [List.all_map, List.all_eq_true, Function.comp]
    intro b hb
    unfold isAscii
    rw [octetAsChar_toNat]
    simpa using hascii b hb
  have h3 : (s.map octetAsChar = ['@']) ↔ s = [64] := map_octetAsChar_eq_singleton s 64
  rw [h1, h2]
  simp only [Bool.false_eq_true, if_false, Bool.not_true]
  by_cases hat : s = [64]
  · rw [if_pos (h3.mpr hat), if_pos hat]
    cases o <;> rfl
  · rw [if_neg (fun h => hat (h3.mp h)), if_neg hat]
    obtain ⟨b, hb⟩ : ∃ b, s.getLast? = some b := by
      cases hgl : s.getLast? with
      | none => simp at hgl; exact absurd hgl hs
      | some b => exact ⟨b, rfl⟩
    have hgl : (s.map octetAsChar).getLast? = some (octetAsChar b) := by
      rw [List.getLast?_map, hb]; rfl
    rw [hgl, map_charAsU8_octetAsChar]
    simp only
    by_cases hdot : b = 46
    · subst hdot
      rw [if_pos (show octetAsChar 46 = '.' from rfl), hb, if_pos rfl]
      cases Name.fromDotted s <;> rfl
    · have : octetAsChar b ≠ '.' := fun h => hdot (octetAsChar_inj (h.trans (show '.' = octetAsChar 46 from rfl)))
      rw [if_neg this, hb, if_neg (fun h => hdot (Option.some.inj h))]
      cases o with
      | none => rfl
      | some n => simp only; cases n.fromRelativeDotted s <;> rfl

/-! ## `serialise_domain` then `parse_domain` -/

/-- the origin in force when the records written by `Zone::serialise` are read back: the
    `$ORIGIN <apex>` it writes for an authoritative zone whose apex is not the root. -/
def emittedOrigin (z : Zone) : Option Name :=
  if z.isAuthoritative && !z.apex.isRoot then some z.apex else none

theorem dottedLabels_ascii (ls : List Label) (first : Bool) (h : ∀ l ∈ ls, ∀ b ∈ l, b.toNat < 128) :
    ∀ b ∈ Name.dottedLabels ls first, b.toNat < 128 := by
  induction ls generalizing first with
  | nil => intro b hb; simp [Name.dottedLabels] at hb
  | cons l ls ih =>
    intro b hb
    have hl := h l (by simp)
    cases first
    · rw [dottedLabels_cons_false l ls hl] at hb
      simp only [List.mem_cons, List.mem_append] at hb
      rcases hb with hb | hb | hb
      · subst hb; decide
      · exact hl b hb
      · exact ih false (fun x hx => h x (by simp [hx])) b hb
    · rw [dottedLabels_cons_true l ls hl] at hb
      simp only [List.mem_append] at hb
      rcases hb with hb | hb
      · exact hl b hb
      · exact ih false (fun x hx => h x (by simp [hx])) b hb

theorem TextName.labels_ascii {n : Name} (h : TextName n) : ∀ l ∈ n.labels, ∀ b ∈ l, b.toNat < 128 :=
  fun l hl b hb => ((h.2 l hl).2 b hb).1

theorem toDotted_ascii {n : Name} (h : TextName n) : ∀ b ∈ n.toDotted, b.toNat < 128 := by
  unfold Name.toDotted
  split
  · intro b hb; simp at hb; subst hb; decide
  · exact dottedLabels_ascii _ _ h.labels_ascii

theorem toDotted_ne_nil {n : Name} (h : TextName n) : n.toDotted ≠ [] := by
  intro he
  have := toDotted_getLast h
  rw [he] at this
  simp at this

/-- the absolute form of a text name reads back as that name, whatever the origin. -/
theorem parseDomain_absolute (o : Option Name) {n : Name} (h : TextName n) :
    parseDomain o (n.toDotted.map octetAsChar) = .ok n := by
  rw [parseDomain_of_octets o _ (toDotted_ne_nil h) (toDotted_ascii h)]
  have hl := toDotted_getLast h
  have h64 : n.toDotted ≠ [64] := by
    intro he; rw [he] at hl; simp at hl
  rw [if_neg h64, if_pos hl, fromDotted_toDotted h]

/-- first label of a text name that is not the root is not empty. -/
theorem TextName.first_ne_nil {n : Name} (h : TextName n) (hr : n.isRoot = false) :
    ∃ l ls, n.labels = l :: ls ∧ l ≠ [] ∧ ls ≠ [] := by
  obtain ⟨⟨hne, hlast, hinner⟩, -, hn⟩ := h.shape
  cases hls : n.labels with
  | nil => exact absurd hls hne
  | cons l ls =>
    cases ls with
    | nil =>
      rw [hls] at hlast
      simp at hlast
      exfalso
      have : n.isRoot = true := by
        unfold Name.isRoot
        rw [hn, hls, hlast]
        simp [sumLen]
      rw [this] at hr
      cases hr
    | cons m ms =>
      refine ⟨l, m :: ms, rfl, ?_, by simp⟩
      rw [hls] at hinner
      exact hinner l (by simp)

theorem toDotted_nonroot {n : Name} (hr : n.isRoot = false) : n.toDotted = Name.dottedLabels n.labels true := by
  unfold Name.toDotted
  rw [hr]
  rfl

/-- **C13, names**: what `serialise_domain` writes for a text name — absolute, relative to the apex,
    `@`, or absolute again when the relative form would be `@` — is a non-empty ASCII octet string
    that `parse_domain` reads back as the same name under the origin `Zone::serialise` emits. -/
theorem domainStr_roundtrip (z : Zone) (name : Name) (hn : TextName name) (ha : TextName z.apex) :
    domainStr z name ≠ [] ∧ (∀ b ∈ domainStr z name, b.toNat < 128) ∧
      parseDomain (emittedOrigin z) ((domainStr z name).map octetAsChar) = .ok name := by
  unfold domainStr
  simp only
  split
  · exact ⟨toDotted_ne_nil hn, toDotted_ascii hn, parseDomain_absolute _ hn⟩
  · rename_i hcond
    simp only [Bool.or_eq_true, Bool.not_eq_true', not_or, Bool.not_eq_false] at hcond
    obtain ⟨⟨hroot, hauth⟩, hsub⟩ := hcond
    have hroot' : z.apex.isRoot = false := by simpa using hroot
    have horigin : emittedOrigin z = some z.apex := by
      unfold emittedOrigin
      simp [hauth, hroot']
    split
    · -- the apex itself: `@`
      rename_i heq
      refine ⟨by simp, by intro b hb; simp at hb; subst hb; decide, ?_⟩
      rw [horigin, show ([64] : List UInt8).map octetAsChar = ['@'] from rfl, heq]
      unfold parseDomain
      rfl
    · rename_i hneq
      -- name.labels = rel ++ apex.labels
      have hsuf : z.apex.labels <:+ name.labels := by
        unfold Name.isSubdomainOf at hsub
        simpa using hsub
      obtain ⟨rel, hrel⟩ := hsuf
      have hk : name.labels.length - z.apex.labels.length = rel.length := by
        rw [← hrel]; simp
      have htake : name.labels.take (name.labels.length - z.apex.labels.length) = rel := by
        rw [hk, ← hrel]; simp
      rw [htake]
      have hrelne : rel ≠ [] := by
        intro he
        subst he
        simp at hrel
        apply hneq
        rw [hn.shape.2.2, ha.shape.2.2, hrel]
      obtain ⟨a0, as, hapex, ha0, -⟩ := ha.first_ne_nil hroot'
      -- every label of `rel` is a non-empty text label
      have hrel_mem : ∀ l ∈ rel, l ∈ name.labels.dropLast := by
        intro l hl
        rw [← hrel, hapex]
        have : rel ++ a0 :: as = (rel ++ [a0]) ++ as := by simp
        cases as with
        | nil => simp [List.dropLast_append_of_ne_nil, hl]
        | cons x xs =>
          rw [List.dropLast_append_of_ne_nil (by simp)]
          simp [hl]
      have hrel_nn : ∀ l ∈ rel, l ≠ [] := fun l hl => hn.shape.1.2.2 l (hrel_mem l hl)
      have hrel_text : ∀ l ∈ rel, TextLabel l := fun l hl => hn.2 l (List.dropLast_subset _ (hrel_mem l hl))
      obtain ⟨r0, rs, hr0⟩ : ∃ r0 rs, rel = r0 :: rs := by
        cases rel with
        | nil => exact absurd rfl hrelne
        | cons r0 rs => exact ⟨r0, rs, rfl⟩
      have hr0ne : r0 ≠ [] := hrel_nn r0 (by rw [hr0]; simp)
      have hrelroot : (Name.mk rel (name.len - z.apex.len)).isRoot = false := by
        unfold Name.isRoot
        simp [hr0, hr0ne]
      have hnameroot : name.isRoot = false := by
        unfold Name.isRoot
        rw [← hrel, hr0]
        simp [hr0ne]
      rw [toDotted_nonroot hrelroot]
      simp only
      have hs_ascii : ∀ b ∈ Name.dottedLabels rel true, b.toNat < 128 :=
        dottedLabels_ascii _ _ (fun l hl b hb => ((hrel_text l hl).2 b hb).1)
      obtain ⟨lastb, hlast1, hlast2⟩ := dottedLabels_true_getLast rel hrel_text hrelne hrel_nn
      have hs_ne : Name.dottedLabels rel true ≠ [] := by
        intro he; rw [he] at hlast1; simp at hlast1
      split
      · exact ⟨toDotted_ne_nil hn, toDotted_ascii hn, parseDomain_absolute _ hn⟩
      · rename_i hnat
        refine ⟨hs_ne, hs_ascii, ?_⟩
        rw [parseDomain_of_octets _ _ hs_ne hs_ascii, if_neg hnat, horigin]
        have hnl : ¬ (Name.dottedLabels rel true).getLast? = some 46 := by
          rw [hlast1]; intro he; exact hlast2 (Option.some.inj he)
        rw [if_neg hnl]
        simp only
        -- `from_relative_dotted_string`
        have hsuffix : z.apex.toDotted = Name.dottedLabels z.apex.labels true := toDotted_nonroot hroot'
        obtain ⟨hb0, hhead, hhead46⟩ := dottedLabels_true_head a0 as (ha.2 a0 (by rw [hapex]; simp)) ha0
        have hjoin : Name.dottedLabels rel true ++ [46] ++ z.apex.toDotted = name.toDotted := by
          rw [toDotted_nonroot hnameroot, ← hrel,
            dottedLabels_append rel z.apex.labels true (fun l hl b hb => ((hrel_text l hl).2 b hb).1) hrelne,
            dottedLabels_false_eq z.apex.labels ha.labels_ascii (by rw [hapex]; simp), hsuffix]
          simp
        have hfr : Name.fromRelativeDotted z.apex (Name.dottedLabels rel true) = some name := by
          unfold Name.fromRelativeDotted
          have e1 : (Name.dottedLabels rel true).isEmpty = false := by
            cases hd : Name.dottedLabels rel true with
            | nil => exact absurd hd hs_ne
            | cons _ _ => rfl
          rw [e1]
          simp only [Bool.false_eq_true, if_false]
          rw [if_neg hnl]
          have e2 : ¬ z.apex.toDotted.head? = some 46 := by
            rw [hsuffix, hapex, hhead]; intro he; exact hhead46 (Option.some.inj he)
          rw [if_neg e2, hjoin, fromDotted_toDotted hn]
        rw [hfr]

/-! ## owners -/

/-- the three shapes of what `serialise_domain` writes. -/
theorem domainStr_cases (z : Zone) (name : Name) (hn : TextName name) (ha : TextName z.apex) :
    domainStr z name = name.toDotted ∨ domainStr z name = [64] ∨
      ∃ r0 rs, name.labels = (r0 :: rs) ++ z.apex.labels ∧ r0 ≠ [] ∧ (∀ b ∈ r0, b.toNat < 128) ∧
        domainStr z name = Name.dottedLabels (r0 :: rs) true := by
  unfold domainStr
  simp only
  split
  · exact Or.inl rfl
  · rename_i hcond
    simp only [Bool.or_eq_true, Bool.not_eq_true', not_or, Bool.not_eq_false] at hcond
    obtain ⟨⟨hroot, hauth⟩, hsub⟩ := hcond
    have hroot' : z.apex.isRoot = false := by simpa using hroot
    split
    · exact Or.inr (Or.inl rfl)
    · rename_i hneq
      have hsuf : z.apex.labels <:+ name.labels := by
        unfold Name.isSubdomainOf at hsub
        simpa using hsub
      obtain ⟨rel, hrel⟩ := hsuf
      have hk : name.labels.length - z.apex.labels.length = rel.length := by
        rw [← hrel]; simp
      have htake : name.labels.take (name.labels.length - z.apex.labels.length) = rel := by
        rw [hk, ← hrel]; simp
      rw [htake]
      have hrelne : rel ≠ [] := by
        intro he
        subst he
        simp at hrel
        apply hneq
        rw [hn.shape.2.2, ha.shape.2.2, hrel]
      obtain ⟨a0, as, hapex, ha0, -⟩ := ha.first_ne_nil hroot'
      obtain ⟨r0, rs, hr0⟩ : ∃ r0 rs, rel = r0 :: rs := by
        cases rel with
        | nil => exact absurd rfl hrelne
        | cons r0 rs => exact ⟨r0, rs, rfl⟩
      have hr0mem : r0 ∈ name.labels.dropLast := by
        rw [← hrel, hapex, hr0, List.dropLast_append_of_ne_nil (by simp)]
        simp
      have hr0ne : r0 ≠ [] := hn.shape.1.2.2 r0 hr0mem
      have hr0ascii : ∀ b ∈ r0, b.toNat < 128 :=
        fun b hb => ((hn.2 r0 (List.dropLast_subset _ hr0mem)).2 b hb).1
      have hrelroot : (Name.mk rel (name.len - z.apex.len)).isRoot = false := by
        unfold Name.isRoot
        simp [hr0, hr0ne]
      rw [toDotted_nonroot hrelroot]
      simp only
      split
      · exact Or.inl rfl
      · exact Or.inr (Or.inr ⟨r0, rs, by rw [← hr0, hrel], hr0ne, hr0ascii, by rw [hr0]⟩)

/-- first label of a name does not start with `*`. -/
def NoStar (n : Name) : Prop := ∀ l ls, n.labels = l :: ls → l.head? ≠ some 42

/-- what `serialise_domain` writes for a name whose first label does not start with `*` does not
    start with `*` either. -/
theorem domainStr_head_not_star (z : Zone) (name : Name) (hn : TextName name) (ha : TextName z.apex)
    (hs : NoStar name) : (domainStr z name).head? ≠ some 42 := by
  have habs : name.toDotted.head? ≠ some 42 := by
    unfold Name.toDotted
    split
    · simp
    · rename_i hr
      have hr' : name.isRoot = false := by simpa using hr
      obtain ⟨l, ls, hls, hl0, -⟩ := hn.first_ne_nil hr'
      rw [hls, dottedLabels_cons_true l ls (hn.labels_ascii l (by rw [hls]; simp))]
      cases l with
      | nil => exact absurd rfl hl0
      | cons b bs =>
        have := hs _ _ hls
        simpa using this
  rcases domainStr_cases z name hn ha with h | h | ⟨r0, rs, hlab, hr0, hascii, h⟩
  · rw [h]; exact habs
  · rw [h]; simp
  · rw [h, dottedLabels_cons_true r0 rs hascii]
    cases r0 with
    | nil => exact absurd rfl hr0
    | cons b bs =>
      have := hs (b :: bs) (rs ++ z.apex.labels) (by rw [hlab]; rfl)
      simpa using this

/-- `parse_domain_or_wildcard` on a string that does not start with `*` is `parse_domain`. -/
theorem parseDomainOrWildcard_not_star (o : Option Name) (s : List Char) (hne : s ≠ [])
    (h : s.head? ≠ some '*') :
    parseDomainOrWildcard o s =
      (match parseDomain o s with | .ok name => .ok (.normal name) | .error e => .error e) := by
  unfold parseDomainOrWildcard
  cases s with
  | nil => exact absurd rfl hne
  | cons c0 cs =>
    have hc0 : c0 ≠ '*' := by intro he; subst he; simp at h
    have h1 : (c0 :: cs) ≠ ['*'] := by intro he; cases he; exact hc0 rfl
    simp only [List.isEmpty_cons, Bool.false_eq_true, if_false, if_neg h1]
    cases cs with
    | nil => rfl
    | cons c1 rest =>
      simp only [hc0, false_and, if_false]
      cases parseDomain o (c0 :: c1 :: rest) <;> rfl

/-- **C13, owners**: an owner written by `serialise_domain` reads back as that (ordinary) owner. -/
theorem owner_roundtrip (z : Zone) (name : Name) (hn : TextName name) (ha : TextName z.apex)
    (hs : NoStar name) :
    parseDomainOrWildcard (emittedOrigin z) ((domainStr z name).map octetAsChar) = .ok (.normal name) := by
  obtain ⟨hne, -, hp⟩ := domainStr_roundtrip z name hn ha
  rw [parseDomainOrWildcard_not_star, hp]
  · intro he; simp at he; exact hne he
  · have := domainStr_head_not_star z name hn ha hs
    cases hd : domainStr z name with
    | nil => simp
    | cons b bs =>
      rw [hd] at this
      simp only [List.map_cons, List.head?_cons, ne_eq, Option.some.injEq] at this ⊢
      intro he
      exact this (octetAsChar_inj (he.trans (show '*' = octetAsChar 42 from rfl)))

/-- **C13, wildcard owners**: `*.` followed by what `serialise_domain` writes reads back as the
    wildcard beneath that name. -/
theorem wildcard_owner_roundtrip (z : Zone) (name : Name) (hn : TextName name) (ha : TextName z.apex) :
    parseDomainOrWildcard (emittedOrigin z) ('*' :: '.' :: (domainStr z name).map octetAsChar)
      = .ok (.wildcard name) := by
  obtain ⟨hne, -, hp⟩ := domainStr_roundtrip z name hn ha
  unfold parseDomainOrWildcard
  have h1 : ('*' :: '.' :: (domainStr z name).map octetAsChar) ≠ ['*'] := by simp
  have h2 : ((domainStr z name).map octetAsChar).isEmpty = false := by
    cases hd : domainStr z name with
    | nil => exact absurd hd hne
    | cons _ _ => rfl
  simp only [List.isEmpty_cons, Bool.false_eq_true, if_false, if_neg h1, and_self, if_true, h2, hp]

end Resolved.ZoneText
