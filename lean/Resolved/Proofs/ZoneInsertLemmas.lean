/-
  The effect of `ZNode.insert` on the tree, observed through `descend` (C02, step (ii)),
  node-name invariant, and "insert never panics".
-/
import Resolved.Proofs.ZoneMergeLemmas

namespace Resolved

open Gen

namespace ZNode

/-- the record sets of a node. -/
def view (n : ZNode) : RecMap × Option RecMap := (n.this, n.wildcards)

/-- the record sets at reversed path `p`; an absent node counts as empty. -/
def baseView (node : ZNode) (p : List Label) : RecMap × Option RecMap :=
  match node.descend p with
  | some n => view n
  | none => ([], none)

/-- the update `insert` / `insert_wildcard` performs on the owner node's record sets. -/
def updView (zr : ZoneRecord) (wild : Bool) (v : RecMap × Option RecMap) : RecMap × Option RecMap :=
  if wild then (v.1, some ((v.2.getD []).insertRecord zr)) else (v.1.insertRecord zr, v.2)

theorem descend_new (nsd : Name) (p : List Label) :
    (ZNode.new nsd).descend p = if p = [] then some (ZNode.new nsd) else none := by
  cases p with
  | nil => simp
  | cons l rest => simp [descend_cons, ZNode.new, ZNode.children, childGet]

theorem baseView_new (nsd : Name) (p : List Label) : baseView (ZNode.new nsd) p = ([], none) := by
  unfold baseView; rw [descend_new]
  by_cases hp : p = [] <;> simp [hp, view]

theorem insertRev_nil_view (node node' : ZNode) (zr : ZoneRecord) (wild : Bool)
    (h : node.insertRev [] zr wild = some node') :
    view node' = updView zr wild (view node) ∧ node'.nsdname = node.nsdname ∧
      node'.children = node.children := by
  simp only [insertRev] at h
  unfold updView view
  cases wild with
  | true =>
    simp only [if_true] at h ⊢
    cases hw : node.wildcards with
    | none => simp only [hw] at h; cases h; exact ⟨rfl, rfl, rfl⟩
    | some ws => simp only [hw] at h; cases h; exact ⟨rfl, rfl, rfl⟩
  | false =>
    simp only [Bool.false_eq_true, if_false] at h ⊢
    cases h; exact ⟨rfl, rfl, rfl⟩

/-- shape of the result of an insertion below a node. -/
theorem insertRev_cons_shape (node node' : ZNode) (lbl : Label) (rest : List Label) (zr : ZoneRecord)
    (wild : Bool) (h : node.insertRev (lbl :: rest) zr wild = some node') :
    ∃ base child', base.insertRev rest zr wild = some child' ∧
      node' = .mk node.nsdname node.this node.wildcards (childSet node.children lbl child') ∧
      ((childGet node.children lbl = some base) ∨
       (childGet node.children lbl = none ∧ ∃ nsd, Name.fromLabels (lbl :: node.nsdname.labels) = some nsd ∧
          base = ZNode.new nsd)) := by
  simp only [insertRev] at h
  cases hc : childGet node.children lbl with
  | some child =>
    simp only [hc] at h
    cases hci : child.insertRev rest zr wild with
    | none => simp [hci] at h
    | some child' =>
      simp only [hci, Option.some.injEq] at h
      exact ⟨child, child', hci, h.symm, Or.inl rfl⟩
  | none =>
    simp only [hc] at h
    cases hn : Name.fromLabels (lbl :: node.nsdname.labels) with
    | none => simp [hn] at h
    | some nsd =>
      simp only [hn] at h
      cases hci : (ZNode.new nsd).insertRev rest zr wild with
      | none => simp [hci] at h
      | some child' =>
        simp only [hci, Option.some.injEq] at h
        exact ⟨ZNode.new nsd, child', hci, h.symm, Or.inr ⟨rfl, nsd, rfl, rfl⟩⟩

/-- off the insertion path nothing changes. -/
theorem insertRev_descend_off (zr : ZoneRecord) (wild : Bool) (r : List Label) :
    ∀ (node node' : ZNode) (p : List Label), node.insertRev r zr wild = some node' → ¬ p <+: r →
      node'.descend p = node.descend p := by
  induction r with
  | nil =>
    intro node node' p h hp
    obtain ⟨_, _, hch⟩ := insertRev_nil_view node node' zr wild h
    cases p with
    | nil => simp at hp
    | cons l ps => simp only [descend_cons, hch]
  | cons lbl rest ih =>
    intro node node' p h hp
    obtain ⟨base, child', hci, rfl, hb⟩ := insertRev_cons_shape node node' lbl rest zr wild h
    cases p with
    | nil => simp at hp
    | cons l ps =>
      simp only [descend_cons, children_mk, childGet_childSet]
      by_cases hl : lbl = l
      · subst hl
        have hps : ¬ ps <+: rest := fun hh => hp (by simpa using hh)
        simp only [if_true, Option.bind_some]
        rw [ih base child' ps hci hps]
        rcases hb with hb | ⟨hb, nsd, _, rfl⟩
        · simp [hb]
        · rw [hb, descend_new]
          have : ps ≠ [] := by rintro rfl; exact hps (List.nil_prefix)
          simp [this]
      · simp [hl]

/-- on the insertion path every node exists afterwards; only the owner's record sets change. -/
theorem insertRev_descend_on (zr : ZoneRecord) (wild : Bool) (r : List Label) :
    ∀ (node node' : ZNode) (p : List Label), node.insertRev r zr wild = some node' → p <+: r →
      ∃ n', node'.descend p = some n' ∧
        view n' = if p = r then updView zr wild (baseView node p) else baseView node p := by
  induction r with
  | nil =>
    intro node node' p h hp
    have : p = [] := by simpa using hp
    subst this
    obtain ⟨hv, _, _⟩ := insertRev_nil_view node node' zr wild h
    exact ⟨node', rfl, by simpa [baseView] using hv⟩
  | cons lbl rest ih =>
    intro node node' p h hp
    obtain ⟨base, child', hci, rfl, hb⟩ := insertRev_cons_shape node node' lbl rest zr wild h
    cases p with
    | nil =>
      refine ⟨_, rfl, ?_⟩
      simp [baseView, view]
    | cons l ps =>
      have hl : l = lbl ∧ ps <+: rest := by simpa using hp
      obtain ⟨rfl, hps⟩ := hl
      obtain ⟨n', hd, hv⟩ := ih base child' ps hci hps
      refine ⟨n', ?_, ?_⟩
      · simp [descend_cons, childGet_childSet_self, hd]
      · rw [hv]
        have hbv : baseView base ps = baseView node (l :: ps) := by
          rcases hb with hb | ⟨hb, nsd, _, rfl⟩
          · simp [baseView, descend_cons, hb]
          · rw [baseView_new]; simp [baseView, descend_cons, hb]
        simp only [hbv, List.cons.injEq, true_and]

/-- which paths exist after an insertion. -/
theorem insertRev_descend_isSome (zr : ZoneRecord) (wild : Bool) (r : List Label)
    (node node' : ZNode) (p : List Label) (h : node.insertRev r zr wild = some node') :
    (node'.descend p).isSome = ((node.descend p).isSome || decide (p <+: r)) := by
  by_cases hp : p <+: r
  · obtain ⟨n', hd, _⟩ := insertRev_descend_on zr wild r node node' p h hp
    simp [hd, hp]
  · rw [insertRev_descend_off zr wild r node node' p h hp]; simp [hp]

/-! ### node names -/

/-- every node's name is the valid name spelled by its path. -/
def NamesOK (node : ZNode) : Prop :=
  ∀ p n, node.descend p = some n →
    Name.fromLabels (p.reverse ++ node.nsdname.labels) = some n.nsdname

theorem fromLabels_labels {ls : List Label} {n : Name} (h : Name.fromLabels ls = some n) :
    n.labels = ls := by
  rw [fromLabels_eq] at h
  split at h
  · cases h; rfl
  · cases h

theorem NamesOK.child {node c : ZNode} {l : Label} (h : NamesOK node)
    (hc : childGet node.children l = some c) :
    NamesOK c ∧ c.nsdname.labels = l :: node.nsdname.labels := by
  have h1 := h [l] c (by simp [descend_cons, hc])
  have hl := fromLabels_labels h1
  simp only [List.reverse_cons, List.reverse_nil, List.nil_append, List.singleton_append] at hl
  refine ⟨?_, hl⟩
  intro p n hp
  have := h (l :: p) n (by simp [descend_cons, hc, hp])
  rw [hl]
  simpa using this

theorem namesOK_new (nsd : Name) (h : Name.fromLabels nsd.labels = some nsd) :
    NamesOK (ZNode.new nsd) := by
  intro p n hp
  rw [descend_new] at hp
  split at hp
  · rename_i hp'; subst hp'; cases hp; simpa using h
  · cases hp

theorem namesOK_of (node : ZNode) (h0 : Name.fromLabels node.nsdname.labels = some node.nsdname)
    (h1 : ∀ l c, childGet node.children l = some c →
      NamesOK c ∧ c.nsdname.labels = l :: node.nsdname.labels) : NamesOK node := by
  intro p n hp
  cases p with
  | nil => simp at hp; subst hp; simpa using h0
  | cons l rest =>
    simp only [descend_cons] at hp
    cases hc : childGet node.children l with
    | none => simp [hc] at hp
    | some c =>
      simp only [hc, Option.bind_some] at hp
      obtain ⟨hok, hl⟩ := h1 l c hc
      have := hok rest n hp
      rw [hl] at this
      simpa using this

theorem namesOK_insertRev (zr : ZoneRecord) (wild : Bool) (r : List Label) :
    ∀ (node node' : ZNode), NamesOK node → node.insertRev r zr wild = some node' →
      NamesOK node' ∧ node'.nsdname = node.nsdname := by
  induction r with
  | nil =>
    intro node node' hn h
    obtain ⟨_, hnsd, hch⟩ := insertRev_nil_view node node' zr wild h
    refine ⟨?_, hnsd⟩
    apply namesOK_of
    · rw [hnsd]; simpa using hn [] node rfl
    · intro l c hc; rw [hch] at hc; rw [hnsd]; exact hn.child hc
  | cons lbl rest ih =>
    intro node node' hn h
    obtain ⟨base, child', hci, rfl, hb⟩ := insertRev_cons_shape node node' lbl rest zr wild h
    refine ⟨?_, rfl⟩
    have hbase : NamesOK base ∧ base.nsdname.labels = lbl :: node.nsdname.labels := by
      rcases hb with hb | ⟨hb, nsd, hnsd, rfl⟩
      · exact hn.child hb
      · have hl := fromLabels_labels hnsd
        refine ⟨namesOK_new nsd (by rw [hl]; exact hnsd), hl⟩
    obtain ⟨hc', hcn⟩ := ih base child' hbase.1 hci
    apply namesOK_of
    · simpa using hn [] node rfl
    · intro l c hc
      simp only [children_mk, childGet_childSet] at hc
      split at hc
      · rename_i hl; subst hl; cases hc
        exact ⟨hc', by rw [hcn]; exact hbase.2⟩
      · exact hn.child hc

/-! ### insertion never panics -/

/-- a non-empty suffix of an acceptable label sequence is acceptable. -/
theorem fromLabels_suffix_isSome (a b : List Label) (hb : b ≠ [])
    (h : (Name.fromLabels (a ++ b)).isSome) : (Name.fromLabels b).isSome := by
  rw [fromLabels_eq] at h ⊢
  split at h
  · rename_i hc
    obtain ⟨⟨hne, hlast, hmid⟩, hlen⟩ := hc
    rw [if_pos]
    · rfl
    · refine ⟨⟨hb, ?_, ?_⟩, ?_⟩
      · rw [List.getLast?_append] at hlast
        cases hg : b.getLast? with
        | none => simp [List.getLast?_eq_none_iff, hb] at hg
        | some x => simpa [hg] using hlast
      · intro l hl
        apply hmid
        rw [List.dropLast_append_of_ne_nil hb]
        exact List.mem_append_right _ hl
      · simp only [List.length_append, sumLen_append] at hlen
        omega
  · cases h

theorem insertRev_isSome (zr : ZoneRecord) (wild : Bool) (r : List Label) :
    ∀ (node : ZNode), NamesOK node →
      (Name.fromLabels (r.reverse ++ node.nsdname.labels)).isSome →
      (node.insertRev r zr wild).isSome := by
  induction r with
  | nil =>
    intro node _ _
    simp only [insertRev]
    split
    · split <;> rfl
    · rfl
  | cons lbl rest ih =>
    intro node hn hv
    simp only [List.reverse_cons, List.append_assoc, List.singleton_append] at hv
    simp only [insertRev]
    cases hc : childGet node.children lbl with
    | some child =>
      simp only
      obtain ⟨hcok, hcl⟩ := hn.child hc
      have := ih child hcok (by rw [hcl]; exact hv)
      cases hi : child.insertRev rest zr wild with
      | none => simp [hi] at this
      | some c' => rfl
    | none =>
      simp only
      have hs := fromLabels_suffix_isSome rest.reverse (lbl :: node.nsdname.labels) (by simp) hv
      cases hf : Name.fromLabels (lbl :: node.nsdname.labels) with
      | none => simp [hf] at hs
      | some nsd =>
        simp only
        have hl := fromLabels_labels hf
        have := ih (ZNode.new nsd) (namesOK_new nsd (by rw [hl]; exact hf))
          (by rw [nsdname_new, hl]; exact hv)
        cases hi : (ZNode.new nsd).insertRev rest zr wild with
        | none => simp [hi] at this
        | some c' => rfl

end ZNode

end Resolved
