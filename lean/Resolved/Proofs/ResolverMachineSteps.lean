/-
  One-step unfoldings of the mutual block `resolveRec` / `candidateLoop` / `resolveCombined` in
  terms of small named pieces, so that the inductions over the machine stay readable.  Each piece
  is a verbatim fragment of the model text; the `_succ` theorems are proved by unfolding only.
-/
import Resolved.Proofs.ResolverMachine

namespace Resolved

open Gen

/-- the RRs already known when the upstream part starts (`combined_rrs`). -/
def initialCombined : Except ResolutionError LocalResult → List RR
  | .ok (.partialAnswer rrs) => rrs
  | _ => []

/-- the first candidate nameservers: the local delegation, else `candidate_nameservers`. -/
def initialCandidates (st2 : St) (q : Question) : Except ResolutionError LocalResult → St × Option Nameservers
  | .ok (.delegation _ _ d) => (st2, some d)
  | _ => candidateNameservers st2 q.name.labels

/-- the upstream part of `resolveRec` (question already pushed). -/
def recUpstream (cfg : RecCfg) (fuel : Nat) (st2 : St) (q : Question)
    (other : Except ResolutionError LocalResult) : St × Except ResolutionError ResolvedRecord :=
  match (initialCandidates st2 q other).2 with
  | none =>
    (⟨(initialCandidates st2 q other).1.ctx.pop, (initialCandidates st2 q other).1.run⟩, .error (.deadEnd q))
  | some c =>
    (⟨(candidateLoop cfg fuel (initialCandidates st2 q other).1 q (initialCombined other) c.matchCount
          c.hostnames [] true).1.ctx.pop,
      (candidateLoop cfg fuel (initialCandidates st2 q other).1 q (initialCombined other) c.matchCount
          c.hostnames [] true).1.run⟩,
     (candidateLoop cfg fuel (initialCandidates st2 q other).1 q (initialCombined other) c.matchCount
          c.hostnames [] true).2)

theorem resolveRec_succ (cfg : RecCfg) (fuel : Nat) (st : St) (q : Question) :
    resolveRec cfg (fuel + 1) st q =
      if st.run.timedOut then (st, .error .timeout)
      else if st.ctx.atRecursionLimit then (st, .error .recursionLimit)
      else if st.ctx.isDuplicate q then (st, .error (.duplicateQuestion q))
      else
        match (resolveLocal (RECURSION_LIMIT + 1) st.ctx q).2 with
        | .ok (.done resolved) => (⟨(resolveLocal (RECURSION_LIMIT + 1) st.ctx q).1, st.run⟩, .ok resolved)
        | .ok (.cname rrs cq) =>
          (⟨(resolveCombined cfg fuel ⟨(resolveLocal (RECURSION_LIMIT + 1) st.ctx q).1.push q, st.run⟩ rrs cq).1.ctx.pop,
            (resolveCombined cfg fuel ⟨(resolveLocal (RECURSION_LIMIT + 1) st.ctx q).1.push q, st.run⟩ rrs cq).1.run⟩,
           (resolveCombined cfg fuel ⟨(resolveLocal (RECURSION_LIMIT + 1) st.ctx q).1.push q, st.run⟩ rrs cq).2)
        | other => recUpstream cfg fuel ⟨(resolveLocal (RECURSION_LIMIT + 1) st.ctx q).1.push q, st.run⟩ q other := by
  rw [resolveRec]
  split
  · rfl
  split
  · rfl
  split
  · rfl
  simp only []
  generalize (resolveLocal (RECURSION_LIMIT + 1) st.ctx q).snd = loc
  generalize (resolveLocal (RECURSION_LIMIT + 1) st.ctx q).fst = ctx1
  cases loc with
  | error e => rfl
  | ok lr =>
    cases lr with
    | done r => rfl
    | cname rrs cq => rfl
    | partialAnswer rrs => rfl
    | delegation rrs soa d => rfl

/-- the glue short-cut of the referral branch. -/
def glueFor (q : Question) (rrs : List RR) : Option RR :=
  if q.qtype == RT_A then getRecord rrs q.name RT_A
  else if q.qtype == RT_AAAA then getRecord rrs q.name RT_AAAA
  else none

/-- what the loop does with the (validated) reply of the queried nameserver. -/
def loopAfterReply (cfg : RecCfg) (fuel : Nat) (st2 : St) (q : Question) (combined : List RR) :
    Option NameserverResponse → St × Except ResolutionError ResolvedRecord
  | some (.answer rrs soaRR) =>
    (⟨st2.ctx.cacheInsertAll rrs, st2.run⟩, .ok (.nonAuthoritative (prioritisingMerge combined rrs) soaRR))
  | some (.delegation rrs hostnames name) =>
    match glueFor q rrs with
    | some rr => (⟨st2.ctx.cacheInsertAll rrs, st2.run⟩, .ok (.nonAuthoritative (prioritisingMerge combined [rr]) none))
    | none =>
      candidateLoop cfg fuel ⟨st2.ctx.cacheInsertAll rrs, st2.run⟩ q combined name.labels.length
        (cfg.hostOrder hostnames) [] true
  | some (.cname rrs cname) =>
    resolveCombined cfg fuel ⟨st2.ctx.cacheInsertAll rrs, st2.run⟩ (prioritisingMerge combined rrs)
      { name := cname, qclass := q.qclass, qtype := q.qtype }
  | none => (st2, .error (.deadEnd q))

/-- the nameserver at `addr` is queried and its reply filtered. -/
def loopQuery (cfg : RecCfg) (fuel : Nat) (st1 : St) (q : Question) (combined : List RR) (mc : Nat)
    (addr : FieldVal) : St × Except ResolutionError ResolvedRecord :=
  if (queryNameserver cfg.oracle st1.run addr cfg.port q false).1.timedOut then
    (⟨st1.ctx, (queryNameserver cfg.oracle st1.run addr cfg.port q false).1⟩, .error .timeout)
  else
    loopAfterReply cfg fuel ⟨st1.ctx, (queryNameserver cfg.oracle st1.run addr cfg.port q false).1⟩ q combined
      ((queryNameserver cfg.oracle st1.run addr cfg.port q false).2.bind
        (fun res => validateNameserverResponse q res mc))

/-- no address for the candidate: next candidate (or switch to recursive address lookups). -/
def loopNoAddr (cfg : RecCfg) (fuel : Nat) (st1 : St) (q : Question) (combined : List RR) (mc : Nat)
    (candidate : Name) (rest next : List Name) (locally : Bool) : St × Except ResolutionError ResolvedRecord :=
  if locally then
    if rest.isEmpty then candidateLoop cfg fuel st1 q combined mc (next ++ [candidate]) [] false
    else candidateLoop cfg fuel st1 q combined mc rest (next ++ [candidate]) true
  else candidateLoop cfg fuel st1 q combined mc rest next false

theorem candidateLoop_succ (cfg : RecCfg) (fuel : Nat) (st : St) (q : Question) (combined : List RR)
    (mc : Nat) (cands next : List Name) (locally : Bool) :
    candidateLoop cfg (fuel + 1) st q combined mc cands next locally =
      if st.run.timedOut then (st, .error .timeout)
      else
        match cands.getLast? with
        | none => (st, .error (.deadEnd q))
        | some candidate =>
          if (tryTypes cfg fuel st locally candidate (rtypesFor cfg.mode)).1.run.timedOut then
            ((tryTypes cfg fuel st locally candidate (rtypesFor cfg.mode)).1, .error .timeout)
          else
            match (tryTypes cfg fuel st locally candidate (rtypesFor cfg.mode)).2 with
            | some addr =>
              loopQuery cfg fuel (tryTypes cfg fuel st locally candidate (rtypesFor cfg.mode)).1 q combined mc addr
            | none =>
              loopNoAddr cfg fuel (tryTypes cfg fuel st locally candidate (rtypesFor cfg.mode)).1 q combined mc
                candidate cands.dropLast next locally := by
  rw [candidateLoop]
  by_cases ht : st.run.timedOut = true
  · rw [if_pos ht, if_pos ht]
  rw [if_neg ht, if_neg ht]
  cases cands.getLast? with
  | none => rfl
  | some candidate =>
    simp only []
    generalize tryTypes cfg fuel st locally candidate (rtypesFor cfg.mode) = p
    obtain ⟨st1, ip⟩ := p
    simp only []
    by_cases ht1 : st1.run.timedOut = true
    · rw [if_pos ht1, if_pos ht1]
    rw [if_neg ht1, if_neg ht1]
    cases ip with
    | none => rfl
    | some addr =>
      simp only [loopQuery]
      generalize queryNameserver cfg.oracle st1.run addr cfg.port q false = qn
      obtain ⟨run2, reply⟩ := qn
      simp only []
      by_cases ht2 : run2.timedOut = true
      · rw [if_pos ht2, if_pos ht2]
      rw [if_neg ht2, if_neg ht2]
      cases (reply.bind fun res => validateNameserverResponse q res mc) with
      | none => rfl
      | some resp => cases resp <;> rfl

theorem resolveCombined_succ (cfg : RecCfg) (fuel : Nat) (st : St) (rrs : List RR) (q : Question) :
    resolveCombined cfg (fuel + 1) st rrs q =
      match (resolveRec cfg fuel st q).2 with
      | .ok resolved => ((resolveRec cfg fuel st q).1, .ok (.nonAuthoritative (rrs ++ resolved.rrs) resolved.soaRR))
      | .error .timeout => ((resolveRec cfg fuel st q).1, .error .timeout)
      | .error .outOfFuel => ((resolveRec cfg fuel st q).1, .error .outOfFuel)
      | .error _ => ((resolveRec cfg fuel st q).1, .error (.deadEnd q)) := by
  rw [resolveCombined]
  generalize resolveRec cfg fuel st q = p
  obtain ⟨st1, r⟩ := p
  cases r with
  | ok r => rfl
  | error e => cases e <;> rfl

end Resolved
