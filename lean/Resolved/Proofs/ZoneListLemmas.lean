/-
  List-level lemmas for the zone model: `eraseDups`, `mergeEntries`, `RecMap.insertRecord`,
  `mergeZrs` (C02 / C12).
-/
import Resolved.Proofs.ZoneLemmas

namespace Resolved

open Gen

/-! ## eraseDups -/

section EraseDups
variable {α : Type} [BEq α] [LawfulBEq α]

theorem nodup_eraseDups (l : List α) : l.eraseDups.Nodup := by
  match l with
  | [] => simp
  | a :: as =>
    rw [List.eraseDups_cons]
    have : (as.filter fun b => !b == a).length < as.length + 1 :=
      Nat.lt_succ_of_le (List.length_filter_le _ as)
    have ih := nodup_eraseDups (as.filter fun b => !b == a)
    rw [List.nodup_cons]
    refine ⟨?_, ih⟩
    simp
termination_by l.length

theorem eraseDups_of_nodup (l : List α) (h : l.Nodup) : l.eraseDups = l := by
  induction l with
  | nil => simp
  | cons a as ih =>
    rw [List.nodup_cons] at h
    rw [List.eraseDups_cons]
    have : (as.filter fun b => !b == a) = as := by
      rw [List.filter_eq_self]
      intro b hb
      simp only [Bool.not_eq_eq_eq_not, Bool.not_true, beq_eq_false_iff_ne, ne_eq]
      rintro rfl; exact h.1 hb
    rw [this, ih h.2]

theorem eraseDups_idem (l : List α) : l.eraseDups.eraseDups = l.eraseDups :=
  eraseDups_of_nodup _ (nodup_eraseDups l)

theorem eraseDups_snoc (l : List α) (x : α) :
    (l ++ [x]).eraseDups = if l.eraseDups.contains x then l.eraseDups else l.eraseDups ++ [x] := by
  rw [List.eraseDups_append]
  by_cases h : x ∈ l
  · simp [List.removeAll, h]
  · simp [List.removeAll, h, List.eraseDups_cons]

theorem removeAll_congr (xs a b : List α) (h : ∀ x, x ∈ a ↔ x ∈ b) :
    xs.removeAll a = xs.removeAll b := by
  unfold List.removeAll
  apply List.filter_congr
  intro x _
  simp [h x]

end EraseDups

/-! ## mergeEntries -/

theorem mergeEntries_eq (mine other : List ZoneRecord) :
    mergeEntries mine other = mine ++ (other.removeAll mine).eraseDups := by
  induction other generalizing mine with
  | nil => simp [mergeEntries]
  | cons n rest ih =>
    simp only [mergeEntries]
    by_cases h : n ∈ mine
    · simp only [List.contains_eq_mem, h, decide_true, if_true]
      rw [ih]
      simp [List.cons_removeAll, h]
    · simp only [List.contains_eq_mem, h, decide_false, Bool.false_eq_true, if_false]
      rw [ih]
      simp only [List.cons_removeAll, List.elem_eq_mem, h, decide_false, if_true,
        List.eraseDups_cons, List.append_assoc, List.cons_append, List.nil_append]
      congr 3
      unfold List.removeAll
      rw [List.filter_filter]
      apply List.filter_congr
      intro x _
      by_cases hx : x = n <;> simp [hx]

theorem mem_mergeEntries (mine other : List ZoneRecord) (x : ZoneRecord) :
    x ∈ mergeEntries mine other ↔ x ∈ mine ∨ x ∈ other := by
  rw [mergeEntries_eq]
  simp only [List.mem_append, List.mem_eraseDups, List.removeAll, List.mem_filter, List.elem_eq_mem,
    Bool.not_eq_eq_eq_not, Bool.not_true, decide_eq_false_iff_not]
  constructor
  · rintro (h | ⟨h, _⟩)
    · exact Or.inl h
    · exact Or.inr h
  · rintro (h | h)
    · exact Or.inl h
    · by_cases hm : x ∈ mine
      · exact Or.inl hm
      · exact Or.inr ⟨h, hm⟩

theorem mergeEntries_prefix (mine other : List ZoneRecord) : mine <+: mergeEntries mine other := by
  rw [mergeEntries_eq]; exact List.prefix_append _ _

theorem mergeEntries_nodup (mine other : List ZoneRecord) (h : mine.Nodup) :
    (mergeEntries mine other).Nodup := by
  rw [mergeEntries_eq, List.nodup_append]
  refine ⟨h, nodup_eraseDups _, ?_⟩
  intro a ha b hb
  simp only [List.mem_eraseDups, List.removeAll, List.mem_filter, List.elem_eq_mem,
    Bool.not_eq_eq_eq_not, Bool.not_true, decide_eq_false_iff_not] at hb
  rintro rfl; exact hb.2 ha

/-- merging into a duplicate-free list = de-duplicating the concatenation. -/
theorem mergeEntries_eraseDups (a b : List ZoneRecord) :
    mergeEntries a.eraseDups b = (a ++ b).eraseDups := by
  rw [mergeEntries_eq, List.eraseDups_append]
  congr 2
  exact removeAll_congr b _ _ (fun x => List.mem_eraseDups)

theorem mergeEntries_nil_left (other : List ZoneRecord) : mergeEntries [] other = other.eraseDups := by
  have := mergeEntries_eraseDups [] other
  simpa using this

/-! ## RecMap.insertRecord -/

/-- `push` unless already present. -/
def pushNew (l : List ZoneRecord) (zr : ZoneRecord) : List ZoneRecord :=
  if l.contains zr then l else l ++ [zr]

theorem RecMap.get_insertRecord (m : RecMap) (zr : ZoneRecord) (k : Nat) :
    (m.insertRecord zr).get k =
      if zr.rtype = k then some (pushNew ((m.get k).getD []) zr) else m.get k := by
  unfold RecMap.insertRecord
  cases hg : m.get zr.rtype with
  | none =>
    simp only [RecMap.get_set]
    split
    · rename_i h; subst h; simp [hg, pushNew]
    · rfl
  | some entries =>
    simp only
    split
    · rename_i hc
      split
      · rename_i h; subst h; simp [hg, pushNew]; simpa using hc
      · rfl
    · rename_i hc
      simp only [RecMap.get_set]
      split
      · rename_i h; subst h; simp [hg, pushNew]; simpa using hc
      · rfl

theorem RecMap.keys_insertRecord (m : RecMap) (zr : ZoneRecord) :
    (m.insertRecord zr).keys = if zr.rtype ∈ m.keys then m.keys else m.keys ++ [zr.rtype] := by
  unfold RecMap.insertRecord
  cases hg : m.get zr.rtype with
  | none =>
    have := (RecMap.get_eq_none_iff m zr.rtype).mp hg
    simp [RecMap.keys_set, this]
  | some entries =>
    have hin : zr.rtype ∈ m.keys := by
      by_cases hn : zr.rtype ∈ m.keys
      · exact hn
      · rw [← RecMap.get_eq_none_iff, hg] at hn; cases hn
    simp only [hin, if_true]
    split
    · rfl
    · simp [RecMap.keys_set, hin]

/-! ## mergeZrs -/

theorem RecMap.get_mergeZrs (a b : RecMap) (k : Nat) (hb : b.keys.Nodup) :
    (mergeZrs a b).get k =
      match a.get k, b.get k with
      | none, none => none
      | some x, none => some x
      | none, some y => some y
      | some x, some y => some (mergeEntries x y) := by
  induction b generalizing a with
  | nil => simp only [mergeZrs, RecMap.get_nil]; cases a.get k <;> rfl
  | cons kv rest ih =>
    obtain ⟨k', o⟩ := kv
    simp only [RecMap.keys, List.map_cons, List.nodup_cons] at hb
    simp only [mergeZrs]
    rw [ih _ hb.2]
    by_cases hk : k' = k
    · subst hk
      have hr : RecMap.get rest k' = none := (RecMap.get_eq_none_iff rest k').mpr hb.1
      simp only [hr, RecMap.get_cons, if_true]
      cases ha : a.get k' with
      | none => simp [RecMap.get_set_self]
      | some x => simp [RecMap.get_set_self]
    · simp only [RecMap.get_cons, hk, if_false]
      have : ∀ v, (a.set k' v).get k = a.get k := fun v => RecMap.get_set_ne a k' k v hk
      cases ha : a.get k' with
      | none => simp only [this]
      | some x => simp only [this]

theorem RecMap.keys_nodup_set (m : RecMap) (k : Nat) (v : List ZoneRecord) (h : m.keys.Nodup) :
    (m.set k v).keys.Nodup := by
  rw [RecMap.keys_set]
  split
  · exact h
  · rename_i hk
    rw [List.nodup_append]
    refine ⟨h, by simp, ?_⟩
    intro a ha b hb
    simp only [List.mem_singleton] at hb
    subst hb; rintro rfl; exact hk ha

theorem RecMap.keys_nodup_insertRecord (m : RecMap) (zr : ZoneRecord) (h : m.keys.Nodup) :
    (m.insertRecord zr).keys.Nodup := by
  unfold RecMap.insertRecord
  split
  · split
    · exact h
    · exact RecMap.keys_nodup_set _ _ _ h
  · exact RecMap.keys_nodup_set _ _ _ h

theorem RecMap.keys_nodup_mergeZrs (a b : RecMap) (h : a.keys.Nodup) : (mergeZrs a b).keys.Nodup := by
  induction b generalizing a with
  | nil => exact h
  | cons kv rest ih =>
    obtain ⟨k', o⟩ := kv
    simp only [mergeZrs]
    apply ih
    split <;> exact RecMap.keys_nodup_set _ _ _ h

end Resolved
