/-
  C13, octet level: the tokeniser inverts `serialiseOctets` for EVERY octet string, quoted and not.
-/
import Resolved.Proofs.ZoneTextBasics

namespace Resolved.ZoneText

open Resolved Resolved.IpText Gen

/-! ## chars of octets -/

set_option maxRecDepth 20000 in
theorem ofNat_toNat_lt256 : ∀ n, n < 256 → (Char.ofNat n).toNat = n := by decide

theorem octetAsChar_toNat (b : UInt8) : (octetAsChar b).toNat = b.toNat :=
  ofNat_toNat_lt256 _ b.toNat_lt

theorem charAsU8_octetAsChar (b : UInt8) : charAsU8 (octetAsChar b) = b := by
  unfold charAsU8
  rw [octetAsChar_toNat]
  exact UInt8.ofNat_toNat

theorem char_ne_of_toNat_ne {c d : Char} (h : c.toNat ≠ d.toNat) : c ≠ d := by
  intro e; exact h (by rw [e])

/-! ## single steps of the tokeniser -/

/-- a char that stands for itself inside an unquoted token. -/
def plainUnq (c : Char) : Bool :=
  c != '\n' && c != ';' && c != '\\' && !isWhitespace c && isAscii c

/-- a char that stands for itself inside a quoted token. -/
def plainQ (c : Char) : Bool := c != '"' && c != '\\' && isAscii c

/-- a char that stands for itself at the start of an unquoted token. -/
def plainInit (c : Char) : Bool := plainUnq c && c != '(' && c != ')' && c != '"'

theorem tokLoop_unq_plain {c : Char} (h : plainUnq c = true) (cs : List Char) (rtoks : List Token)
    (rstr : List Char) (roct : List UInt8) (lc : Bool) :
    tokLoop 0 (c :: cs) rtoks rstr roct .unquotedString lc
      = tokLoop 0 cs rtoks (c :: rstr) (charAsU8 c :: roct) .unquotedString lc := by
  simp only [plainUnq, Bool.and_eq_true, bne_iff_ne, ne_eq, Bool.not_eq_true'] at h
  obtain ⟨⟨⟨⟨h1, h2⟩, h3⟩, h4⟩, h5⟩ := h
  simp [tokLoop, h1, h2, h3, h4, h5]

theorem tokLoop_q_plain {c : Char} (h : plainQ c = true) (cs : List Char) (rtoks : List Token)
    (rstr : List Char) (roct : List UInt8) (lc : Bool) :
    tokLoop 0 (c :: cs) rtoks rstr roct .quotedString lc
      = tokLoop 0 cs rtoks (c :: rstr) (charAsU8 c :: roct) .quotedString lc := by
  simp only [plainQ, Bool.and_eq_true, bne_iff_ne, ne_eq] at h
  obtain ⟨⟨h1, h2⟩, h3⟩ := h
  simp [tokLoop, h1, h2, h3]

theorem tokLoop_init_plain {c : Char} (h : plainInit c = true) (cs : List Char) (rtoks : List Token)
    (rstr : List Char) (roct : List UInt8) (lc : Bool) :
    tokLoop 0 (c :: cs) rtoks rstr roct .initial lc
      = tokLoop 0 cs rtoks (c :: rstr) (charAsU8 c :: roct) .unquotedString lc := by
  simp only [plainInit, plainUnq, Bool.and_eq_true, bne_iff_ne, ne_eq, Bool.not_eq_true'] at h
  obtain ⟨⟨⟨⟨⟨⟨⟨h1, h2⟩, h3⟩, h4⟩, h5⟩, h6⟩, h7⟩, h8⟩ := h
  simp [tokLoop, h1, h2, h3, h4, h5, h6, h7, h8]

/-- `\` in any of the three token-building states reads an escape and continues the token
    (`st' = unquotedString` from `initial`). -/
def afterEscape : TState → TState
  | .initial => .unquotedString
  | .unquotedString => .unquotedString
  | .quotedString => .quotedString
  | .skipToEndOfComment => .skipToEndOfComment

theorem tokLoop_escape {st : TState} (hst : st ≠ .skipToEndOfComment) {cs : List Char} {o : UInt8} {n : Nat}
    (he : tokeniseEscape cs = .ok (o, n)) (rtoks : List Token) (rstr : List Char) (roct : List UInt8)
    (lc : Bool) :
    tokLoop 0 ('\\' :: cs) rtoks rstr roct st lc
      = tokLoop n cs rtoks (octetAsChar o :: rstr) (o :: roct) (afterEscape st) lc := by
  cases st <;> simp_all [tokLoop, afterEscape]

theorem tokLoop_skip1 (c : Char) (cs : List Char) (rtoks : List Token) (rstr : List Char)
    (roct : List UInt8) (st : TState) (lc : Bool) :
    tokLoop 1 (c :: cs) rtoks rstr roct st lc = tokLoop 0 cs rtoks rstr roct st lc := by
  simp [tokLoop]

theorem tokLoop_skip3 (c1 c2 c3 : Char) (cs : List Char) (rtoks : List Token) (rstr : List Char)
    (roct : List UInt8) (st : TState) (lc : Bool) :
    tokLoop 3 (c1 :: c2 :: c3 :: cs) rtoks rstr roct st lc = tokLoop 0 cs rtoks rstr roct st lc := by
  simp [tokLoop]

/-! ## the escape reader on what the serialiser writes -/

theorem toDigit10_digit : ∀ d, d < 10 → toDigit10 (Char.ofNat (d + 48)) = some d := by decide

/-- `\DDD` as written by `serialise_octets` reads back as the octet. -/
theorem tokeniseEscape_decimal (b : UInt8) (rest : List Char) :
    tokeniseEscape (Char.ofNat (b.toNat / 100 % 10 + 48) :: Char.ofNat (b.toNat / 10 % 10 + 48)
        :: Char.ofNat (b.toNat % 10 + 48) :: rest) = .ok (b, 3) := by
  have hb := b.toNat_lt
  have h1 := toDigit10_digit (b.toNat / 100 % 10) (by omega)
  have h2 := toDigit10_digit (b.toNat / 10 % 10) (by omega)
  have h3 := toDigit10_digit (b.toNat % 10) (by omega)
  have hsum : b.toNat / 100 % 10 * 100 + b.toNat / 10 % 10 * 10 + b.toNat % 10 = b.toNat := by omega
  simp only [tokeniseEscape, h1, h2, h3, hsum]
  have : b.toNat ≤ 255 := by omega
  simp [this]

set_option maxRecDepth 20000 in
/-- the chars written as `\X` are not digits, so `\X` reads back as `X`. -/
theorem escapeSet_facts : ∀ n, n < 256 → zoneEscapeBackslash.contains n = true →
    toDigit10 (Char.ofNat n) = none ∧ isAscii (Char.ofNat n) = true := by decide

theorem tokeniseEscape_backslash (b : UInt8) (h : zoneEscapeBackslash.contains b.toNat = true)
    (rest : List Char) : tokeniseEscape (octetAsChar b :: rest) = .ok (b, 1) := by
  have ⟨h1, h2⟩ := escapeSet_facts _ b.toNat_lt h
  simp only [tokeniseEscape, octetAsChar, h1, h2]
  simp only [if_true]
  rw [show Char.ofNat b.toNat = octetAsChar b from rfl, charAsU8_octetAsChar]

set_option maxRecDepth 20000 in
/-- the octets written bare are plain chars of the state they are written in. -/
theorem bare_facts : ∀ n, n < 256 → zoneEscapeBackslash.contains n = false →
    ¬ (n < 32 ∨ n > 126) →
      plainQ (Char.ofNat n) = true ∧ (n ≠ 32 → plainInit (Char.ofNat n) = true) := by decide

/-! ## one octet -/

/-- In a token-building state, what `serialise_octets` writes for one octet appends exactly that
    octet to the token (`quoted` must match the state: a space is written bare only inside quotes). -/
theorem tokLoop_serialiseOctet_quoted (b : UInt8) (rest : List Char) (rtoks : List Token)
    (rstr : List Char) (roct : List UInt8) (lc : Bool) :
    tokLoop 0 (serialiseOctet true b ++ rest) rtoks rstr roct .quotedString lc
      = tokLoop 0 rest rtoks (octetAsChar b :: rstr) (b :: roct) .quotedString lc := by
  unfold serialiseOctet
  split
  · rename_i h
    simp only [List.cons_append, List.nil_append]
    rw [tokLoop_escape (by decide) (tokeniseEscape_backslash b h _), tokLoop_skip1]
    rfl
  · rename_i h
    split
    · simp only [List.cons_append, List.nil_append]
      rw [tokLoop_escape (by decide) (tokeniseEscape_decimal b _), tokLoop_skip3]
      rfl
    · rename_i h2
      simp only [Bool.or_eq_true, decide_eq_true_eq, Bool.and_eq_true, beq_iff_eq, Bool.not_true,
        Bool.false_eq_true, and_false, or_false] at h2
      have hf : plainQ (octetAsChar b) = true := (bare_facts _ b.toNat_lt (by simpa using h) h2).1
      simp only [List.cons_append, List.nil_append]
      rw [tokLoop_q_plain hf, charAsU8_octetAsChar]

theorem tokLoop_serialiseOctet_unquoted (b : UInt8) (rest : List Char) (rtoks : List Token)
    (rstr : List Char) (roct : List UInt8) (lc : Bool) (st : TState)
    (hst : st = .initial ∨ st = .unquotedString) :
    tokLoop 0 (serialiseOctet false b ++ rest) rtoks rstr roct st lc
      = tokLoop 0 rest rtoks (octetAsChar b :: rstr) (b :: roct) .unquotedString lc := by
  have hst' : st ≠ .skipToEndOfComment ∧ afterEscape st = .unquotedString := by
    rcases hst with h | h <;> subst h <;> exact ⟨by decide, rfl⟩
  unfold serialiseOctet
  split
  · rename_i h
    simp only [List.cons_append, List.nil_append]
    rw [tokLoop_escape hst'.1 (tokeniseEscape_backslash b h _), tokLoop_skip1, hst'.2]
  · rename_i h
    split
    · simp only [List.cons_append, List.nil_append]
      rw [tokLoop_escape hst'.1 (tokeniseEscape_decimal b _), tokLoop_skip3, hst'.2]
    · rename_i h2
      simp only [Bool.or_eq_true, decide_eq_true_eq, Bool.and_eq_true, beq_iff_eq, Bool.not_false,
        and_true] at h2
      have h2' : ¬ (b.toNat < 32 ∨ b.toNat > 126) := fun hh => h2 (Or.inl hh)
      have h32 : b.toNat ≠ 32 := fun hh => h2 (Or.inr hh)
      have hf : plainInit (octetAsChar b) = true := (bare_facts _ b.toNat_lt (by simpa using h) h2').2 h32
      simp only [List.cons_append, List.nil_append]
      rcases hst with hs | hs <;> subst hs
      · rw [tokLoop_init_plain hf, charAsU8_octetAsChar]
      · have hf' : plainUnq (octetAsChar b) = true := by
          simp only [plainInit, Bool.and_eq_true] at hf
          exact hf.1.1.1
        rw [tokLoop_unq_plain hf', charAsU8_octetAsChar]

/-! ## octet strings -/

theorem tokLoop_serialise_quoted_body (bs : List UInt8) :
    ∀ (rest : List Char) (rtoks : List Token) (rstr : List Char) (roct : List UInt8) (lc : Bool),
    tokLoop 0 (bs.flatMap (serialiseOctet true) ++ rest) rtoks rstr roct .quotedString lc
      = tokLoop 0 rest rtoks ((bs.map octetAsChar).reverse ++ rstr) (bs.reverse ++ roct) .quotedString lc := by
  induction bs with
  | nil => intros; rfl
  | cons b bs ih =>
    intro rest rtoks rstr roct lc
    simp only [List.flatMap_cons, List.append_assoc]
    rw [tokLoop_serialiseOctet_quoted, ih]
    simp

theorem tokLoop_serialise_unquoted_body (bs : List UInt8) :
    ∀ (rest : List Char) (rtoks : List Token) (rstr : List Char) (roct : List UInt8) (lc : Bool),
    tokLoop 0 (bs.flatMap (serialiseOctet false) ++ rest) rtoks rstr roct .unquotedString lc
      = tokLoop 0 rest rtoks ((bs.map octetAsChar).reverse ++ rstr) (bs.reverse ++ roct) .unquotedString lc := by
  induction bs with
  | nil => intros; rfl
  | cons b bs ih =>
    intro rest rtoks rstr roct lc
    simp only [List.flatMap_cons, List.append_assoc]
    rw [tokLoop_serialiseOctet_unquoted _ _ _ _ _ _ _ (Or.inr rfl), ih]
    simp

/-- **quoted**: between tokens, `serialise_octets(bs, true)` is read as exactly one token with
    octets `bs` (also for the empty string), and the tokeniser is between tokens again. -/
theorem tokLoop_serialiseOctets_quoted (bs : List UInt8) (rest : List Char) (rtoks : List Token) (lc : Bool) :
    tokLoop 0 (serialiseOctets bs true ++ rest) rtoks [] [] .initial lc
      = tokLoop 0 rest ((bs.map octetAsChar, bs) :: rtoks) [] [] .initial lc := by
  simp only [serialiseOctets, if_true, List.append_assoc, List.cons_append, List.nil_append]
  rw [show tokLoop 0 ('"' :: (bs.flatMap (serialiseOctet true) ++ ('"' :: rest))) rtoks [] [] .initial lc
        = tokLoop 0 (bs.flatMap (serialiseOctet true) ++ ('"' :: rest)) rtoks [] [] .quotedString lc from by
      simp [tokLoop]]
  rw [tokLoop_serialise_quoted_body]
  simp [tokLoop]

/-- **unquoted**: between tokens, `serialise_octets(bs, false)` for non-empty `bs` starts a token
    whose octets so far are exactly `bs`; what ends it is what follows. -/
theorem tokLoop_serialiseOctets_unquoted (bs : List UInt8) (hne : bs ≠ []) (rest : List Char)
    (rtoks : List Token) (lc : Bool) :
    tokLoop 0 (serialiseOctets bs false ++ rest) rtoks [] [] .initial lc
      = tokLoop 0 rest rtoks (bs.map octetAsChar).reverse bs.reverse .unquotedString lc := by
  cases bs with
  | nil => exact absurd rfl hne
  | cons b bs =>
    simp only [serialiseOctets, Bool.false_eq_true, if_false, List.nil_append, List.append_nil,
      List.flatMap_cons, List.append_assoc]
    rw [tokLoop_serialiseOctet_unquoted _ _ _ _ _ _ _ (Or.inl rfl), tokLoop_serialise_unquoted_body]
    simp

/-- an unquoted token under construction is finished by the end of the input … -/
theorem tokLoop_unquoted_end (rtoks : List Token) (rstr : List Char) (roct : List UInt8) (lc : Bool)
    (h : rstr ≠ []) :
    tokLoop 0 [] rtoks rstr roct .unquotedString lc = .ok (((rstr.reverse, roct.reverse) :: rtoks).reverse, []) := by
  cases rstr with
  | nil => exact absurd rfl h
  | cons c cs => simp [tokLoop, pushNonEmpty]

/-- … by a space or tab (any whitespace but a line feed) … -/
theorem tokLoop_unquoted_space (c : Char) (hc : c = ' ' ∨ c = '\t') (cs : List Char) (rtoks : List Token)
    (rstr : List Char) (roct : List UInt8) (lc : Bool) (h : rstr ≠ []) :
    tokLoop 0 (c :: cs) rtoks rstr roct .unquotedString lc
      = tokLoop 0 cs ((rstr.reverse, roct.reverse) :: rtoks) [] [] .initial lc := by
  cases rstr with
  | nil => exact absurd rfl h
  | cons d ds => rcases hc with hc | hc <;> subst hc <;> simp [tokLoop, pushNonEmpty, isWhitespace] <;> decide

/-- … and by a line feed, which outside parentheses also ends the entry. -/
theorem tokLoop_unquoted_newline (cs : List Char) (rtoks : List Token) (rstr : List Char)
    (roct : List UInt8) (h : rstr ≠ []) :
    tokLoop 0 ('\n' :: cs) rtoks rstr roct .unquotedString false
      = .ok (((rstr.reverse, roct.reverse) :: rtoks).reverse, cs) := by
  cases rstr with
  | nil => exact absurd rfl h
  | cons d ds => simp [tokLoop, pushNonEmpty]

end Resolved.ZoneText
