/-
  `Zones::get` selects the zone with the longest matching apex (C01); the keying invariant of
  `Zones`; where a local referral comes from.
-/
import Resolved.Proofs.ZoneUnion
import Resolved.Proofs.ResolverLocalSources

namespace Resolved

open Gen

/-- every zone is found under its own apex (what `Zones::insert` / `insert_merge` maintain). -/
def ZonesKeyed (zs : Zones) : Prop := ∀ k z, Zones.lookup zs.zones k = some z → z.apex = k

theorem zonesKeyed_empty : ZonesKeyed Zones.empty := by
  intro k z h; simp [Zones.empty, Zones.lookup] at h

theorem zonesKeyed_insert {zs : Zones} (h : ZonesKeyed zs) (z : Zone) : ZonesKeyed (zs.insert z) := by
  intro k z' hl
  simp only [Zones.insert, Zones.lookup_setZone] at hl
  split at hl
  · rename_i hk; cases hl; exact hk
  · exact h k z' hl

theorem Zone.merge_apex {z other m : Zone} (h : z.merge other = some m) : m.apex = z.apex := by
  unfold Zone.merge at h
  split at h
  · cases h
  · split at h <;> (cases h; rfl)

theorem zonesKeyed_insertMerge {zs zs' : Zones} (h : ZonesKeyed zs) (other : Zone)
    (hm : zs.insertMerge other = some zs') : ZonesKeyed zs' := by
  unfold Zones.insertMerge at hm
  split at hm
  · rename_i mine hl
    split at hm
    · rename_i m hmm
      cases hm
      intro k z' hl'
      simp only [Zones.lookup_setZone] at hl'
      split at hl'
      · rename_i hk; cases hl'
        rw [Zone.merge_apex hmm, h _ _ hl]; exact hk
      · exact h k z' hl'
    · cases hm
  · cases hm; exact zonesKeyed_insert h other

/-- the `for i in 0..len` loop of `Zones::get`: the first (longest) suffix that names a configured
    zone wins. -/
theorem Zones.getLoop_some (zs : Zones) : ∀ (ls : List Label) (z : Zone), zs.getLoop ls = some z →
    ∃ suf n, suf <:+ ls ∧ suf ≠ [] ∧ Name.fromLabels suf = some n ∧ Zones.lookup zs.zones n = some z ∧
      ∀ suf', suf' <:+ ls → suf.length < suf'.length →
        (Name.fromLabels suf').bind (Zones.lookup zs.zones) = none := by
  intro ls
  induction ls with
  | nil => intro z h; simp [Zones.getLoop] at h
  | cons l rest ih =>
    intro z h
    simp only [Zones.getLoop] at h
    cases hb : (Name.fromLabels (l :: rest)).bind (Zones.lookup zs.zones) with
    | some z' =>
      rw [hb] at h
      simp only [Option.some.injEq] at h; subst h
      cases hf : Name.fromLabels (l :: rest) with
      | none => simp [hf] at hb
      | some n =>
        simp only [hf, Option.bind_some] at hb
        refine ⟨l :: rest, n, List.suffix_refl _, by simp, hf, hb, ?_⟩
        intro suf' hs hlen
        have := hs.length_le
        omega
    | none =>
      rw [hb] at h
      simp only at h
      obtain ⟨suf, n, hs, hne, hf, hl, hmax⟩ := ih z h
      refine ⟨suf, n, List.suffix_cons_iff.mpr (Or.inr hs), hne, hf, hl, ?_⟩
      intro suf' hs' hlen
      rcases List.suffix_cons_iff.mp hs' with rfl | hs'
      · exact hb
      · exact hmax suf' hs' hlen

theorem Zones.resolve_get {zs : Zones} {name : Name} {qtype : Nat} {z : Zone} {o : Option ZoneResult}
    (h : zs.resolve name qtype = some (z, o)) : zs.get name = some z := by
  unfold Zones.resolve at h
  cases hg : zs.get name with
  | none => simp [hg] at h
  | some z' => simp only [hg, Option.map_some, Option.some.injEq, Prod.mk.injEq] at h; rw [h.1]

end Resolved
