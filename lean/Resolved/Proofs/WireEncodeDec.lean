/-
  Helper for C04: `Decidable` instances for the well-formedness predicates of `Spec/Wire.lean`,
  so that non-vacuity examples on concrete messages are closed by `decide`.
-/
import Resolved.Spec.Wire

namespace Resolved

open Gen

/-- `Except` has no `DecidableEq` instance in core; named so that it cannot clash. -/
instance instDecidableEqExceptC04 {ε α : Type} [DecidableEq ε] [DecidableEq α] :
    DecidableEq (Except ε α)
  | .ok a, .ok b =>
    if h : a = b then isTrue (h ▸ rfl) else isFalse (fun h' => h (Except.ok.inj h'))
  | .error a, .error b =>
    if h : a = b then isTrue (h ▸ rfl) else isFalse (fun h' => h (Except.error.inj h'))
  | .ok _, .error _ => isFalse (fun h => nomatch h)
  | .error _, .ok _ => isFalse (fun h => nomatch h)

instance (l : Label) : Decidable (LabelOK l) := by unfold LabelOK; infer_instance

instance (n : Name) : Decidable (NameWF n) := by unfold NameWF; infer_instance

instance instDecidableFieldValWF (f : Field) (v : FieldVal) : Decidable (FieldValWF f v) :=
  match f, v with
  | .u16, .u16 n => inferInstanceAs (Decidable (n < 65536))
  | .u32, .u32 n => inferInstanceAs (Decidable (n < 4294967296))
  | .a, .a n => inferInstanceAs (Decidable (n < 4294967296))
  | .aaaa, .aaaa gs => inferInstanceAs (Decidable (gs.length = 8 ∧ ∀ g ∈ gs, g < 65536))
  | .opaque, .opaque bs => inferInstanceAs (Decidable (bs.length < 65536))
  | .name _, .name n => inferInstanceAs (Decidable (NameWF n))
  | .u16, .u32 _ | .u16, .a _ | .u16, .aaaa _ | .u16, .opaque _ | .u16, .name _
  | .u32, .u16 _ | .u32, .a _ | .u32, .aaaa _ | .u32, .opaque _ | .u32, .name _
  | .a, .u16 _ | .a, .u32 _ | .a, .aaaa _ | .a, .opaque _ | .a, .name _
  | .aaaa, .u16 _ | .aaaa, .u32 _ | .aaaa, .a _ | .aaaa, .opaque _ | .aaaa, .name _
  | .opaque, .u16 _ | .opaque, .u32 _ | .opaque, .a _ | .opaque, .aaaa _ | .opaque, .name _
  | .name _, .u16 _ | .name _, .u32 _ | .name _, .a _ | .name _, .aaaa _ | .name _, .opaque _ =>
    inferInstanceAs (Decidable False)

instance instDecidableFieldsWF : (fs : List Field) → (vs : List FieldVal) → Decidable (FieldsWF fs vs)
  | [], [] => inferInstanceAs (Decidable True)
  | f :: fs, v :: vs =>
    have := instDecidableFieldsWF fs vs
    inferInstanceAs (Decidable (FieldValWF f v ∧ FieldsWF fs vs))
  | [], _ :: _ => inferInstanceAs (Decidable False)
  | _ :: _, [] => inferInstanceAs (Decidable False)

instance (r : RR) : Decidable (RRWF r) := by unfold RRWF; infer_instance
instance (q : Question) : Decidable (QuestionWF q) := by unfold QuestionWF; infer_instance
instance (h : Header) : Decidable (HeaderWF h) := by unfold HeaderWF; infer_instance
instance (m : Message) : Decidable (WfMsg m) := by unfold WfMsg; infer_instance

/-! ## Example data for the non-vacuity examples of Props/C04.lean -/

/-- `a.bc.` -/
def C04ex.name : Name := ⟨[[97], [98, 99], []], 6⟩

/-- response, id 0x1234, RD RA AA, rcode 3; one question and two answers (A and MX), all with the
    same owner name, the MX exchange being that name again. -/
def C04ex.msg : Message :=
  { header := ⟨0x1234, true, 0, true, false, true, true, 3⟩
    questions := [⟨C04ex.name, 1, 1⟩]
    answers := [⟨C04ex.name, 1, [.a 0x7f000001], 1, 300⟩,
                ⟨C04ex.name, 15, [.u16 10, .name C04ex.name], 1, 300⟩]
    authority := []
    additional := [] }

/-- its encoding: the owner names of both answers are the pointer `C0 0C` (192, 12) to offset 12;
    the MX exchange (RDATA names are written with `compress = false`) is spelled out; RDLENGTHs 4
    and 8 were back-patched. -/
def C04ex.bytes : List UInt8 :=
  [18, 52, 133, 131, 0, 1, 0, 2, 0, 0, 0, 0,
   1, 97, 2, 98, 99, 0, 0, 1, 0, 1,
   192, 12, 0, 1, 0, 1, 0, 0, 1, 44, 0, 4, 127, 0, 0, 1,
   192, 12, 0, 15, 0, 1, 0, 0, 1, 44, 0, 8, 0, 10, 1, 97, 2, 98, 99, 0]

end Resolved
