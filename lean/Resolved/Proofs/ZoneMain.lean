/-
  C02 at the `Zone` level: configured zones (`Zone.build`) represent their entry list; no panics.
-/
import Resolved.Proofs.ZoneRefine

namespace Resolved

open Gen ZSpec

/-- the name is one `from_labels` accepts (all names the Rust code constructs are). -/
def NameOK (n : Name) : Prop := Name.fromLabels n.labels = some n

instance (n : Name) : Decidable (NameOK n) := by unfold NameOK; infer_instance

namespace Zone

theorem relativeDomain_some {z : Zone} {name : Name} {rel : List Label}
    (h : z.relativeDomain name = some rel) : rel ++ z.apex.labels = name.labels := by
  unfold Zone.relativeDomain at h
  split at h
  · rename_i hs
    cases h
    unfold Name.isSubdomainOf at hs
    obtain ⟨t, ht⟩ := List.isSuffixOf_iff_suffix.mp hs
    rw [← ht]; simp
  · cases h

theorem relativeDomain_isSome {z : Zone} {name : Name} (h : name.isSubdomainOf z.apex = true) :
    ∃ rel, z.relativeDomain name = some rel := by
  unfold Zone.relativeDomain; simp [h]

/-- invariant of configured zones. -/
structure Repr (z : Zone) (apex : Name) (soa : Option SOA) (es : List Entry) : Prop where
  apex_eq : z.apex = apex
  soa_eq : z.soa = soa
  root_name : z.records.nsdname = apex
  tree : TreeRepr z.records es

theorem repr_new (apex : Name) (soa : Option SOA) (hap : NameOK apex) :
    Repr (Zone.new apex soa) apex soa (entriesOf apex soa []) := by
  obtain ⟨h1, h2⟩ := new_apex_soa apex soa
  cases soa with
  | none =>
    exact ⟨h1, h2, rfl, by simpa [entriesOf, new_records_none] using treeRepr_new apex hap⟩
  | some s =>
    have hi := new_records_some apex s
    have ht := treeRepr_insertRev _ _ [] [] (soaRecord s) false (treeRepr_new apex hap) hi
    have hn := (ZNode.namesOK_insertRev _ _ _ _ _ (ZNode.namesOK_new apex hap) hi).2
    exact ⟨h1, h2, by rw [hn]; rfl, by simpa [entriesOf] using ht⟩

theorem repr_applyOp (z z' : Zone) (apex : Name) (soa : Option SOA) (es : List Entry) (op : ZoneOp)
    (h : Repr z apex soa es) (ho : z.applyOp op = some z') :
    Repr z' apex soa (es ++ (opEntry (Zone.new apex soa) op).toList) := by
  obtain ⟨h1, h2, hc⟩ := insert_cases z z' _ _ _ _ _ ho
  obtain ⟨n1, n2⟩ := new_apex_soa apex soa
  have hrd : (Zone.new apex soa).relativeDomain op.name = z.relativeDomain op.name :=
    relativeDomain_congr _ _ (by rw [n1, h.apex_eq]) _
  have htt : (Zone.new apex soa).actualTtl op.ttl = z.actualTtl op.ttl :=
    actualTtl_congr _ _ (by rw [n2, h.soa_eq]) _
  rcases hc with ⟨hnone, rfl⟩ | ⟨rel, hrel, hi⟩
  · have : opEntry (Zone.new apex soa) op = none := by unfold opEntry; rw [hrd, hnone]
    rw [this]; simpa using h
  · have : opEntry (Zone.new apex soa) op =
        some ⟨rel, op.wild, ⟨op.rtype, op.fields, z.actualTtl op.ttl⟩⟩ := by
      unfold opEntry; rw [hrd, hrel, htt]
    rw [this]
    have ht := treeRepr_insertRev _ _ es _ _ _ h.tree hi
    have hn := (ZNode.namesOK_insertRev _ _ _ _ _ h.tree.names hi).2
    refine ⟨h1.trans h.apex_eq, h2.trans h.soa_eq, hn.trans h.root_name, ?_⟩
    simpa using ht

theorem repr_applyOps (apex : Name) (soa : Option SOA) (ops : List ZoneOp) :
    ∀ (z z' : Zone) (es : List Entry), Repr z apex soa es → z.applyOps ops = some z' →
      Repr z' apex soa (es ++ ops.filterMap (opEntry (Zone.new apex soa))) := by
  induction ops with
  | nil => intro z z' es h ho; simp only [applyOps, Option.some.injEq] at ho; subst ho; simpa using h
  | cons op ops ih =>
    intro z z' es h ho
    simp only [applyOps] at ho
    cases h1 : z.applyOp op with
    | none => simp [h1] at ho
    | some z1 =>
      simp only [h1] at ho
      have := ih z1 z' _ (repr_applyOp z z1 apex soa es op h h1) ho
      rw [List.filterMap_cons]
      cases he : opEntry (Zone.new apex soa) op with
      | none => simpa [he] using this
      | some e => simpa [he] using this

/-- every configured zone represents its entry list. -/
theorem repr_build (apex : Name) (soa : Option SOA) (ops : List ZoneOp) (z : Zone)
    (hap : NameOK apex) (hb : Zone.build apex soa ops = some z) :
    Repr z apex soa (entriesOf apex soa ops) := by
  have := repr_applyOps apex soa ops _ z _ (repr_new apex soa hap) hb
  simpa [entriesOf, List.append_assoc] using this

/-! ### no panics -/

theorem insert_isSome (z : Zone) (name : Name) (rtype : Nat) (fields : List FieldVal) (ttl : Nat)
    (wild : Bool) (hn : ZNode.NamesOK z.records) (hroot : z.records.nsdname = z.apex)
    (hname : NameOK name) : (z.insert name rtype fields ttl wild).isSome := by
  unfold Zone.insert
  cases hr : z.relativeDomain name with
  | none => rfl
  | some rel =>
    simp only
    have hl := relativeDomain_some hr
    have := ZNode.insertRev_isSome ⟨rtype, fields, z.actualTtl ttl⟩ wild rel.reverse z.records hn
      (by rw [List.reverse_reverse, hroot, hl, hname]; rfl)
    rw [ZNode.insert_eq_rev]
    cases hi : z.records.insertRev rel.reverse ⟨rtype, fields, z.actualTtl ttl⟩ wild with
    | none => simp [hi] at this
    | some r => rfl

theorem applyOps_isSome (apex : Name) (soa : Option SOA) (ops : List ZoneOp)
    (hops : ∀ op ∈ ops, NameOK op.name) :
    ∀ (z : Zone) (es : List Entry), Repr z apex soa es → (z.applyOps ops).isSome := by
  induction ops with
  | nil => intro z es _; rfl
  | cons op ops ih =>
    intro z es h
    simp only [applyOps]
    have h1 := insert_isSome z op.name op.rtype op.fields op.ttl op.wild h.tree.names
      (h.root_name.trans h.apex_eq.symm) (hops op List.mem_cons_self)
    obtain ⟨z1, hz1⟩ := Option.isSome_iff_exists.mp h1
    have hz1' : z.applyOp op = some z1 := hz1
    rw [hz1']
    exact ih (fun o ho => hops o (List.mem_cons_of_mem _ ho)) z1 _ (repr_applyOp z z1 apex soa es op h hz1')

end Zone

/-! ### resolve never panics -/

/-- every configured CNAME record carries a single domain name (what the zone-file parser builds). -/
def CnameFieldsOK (es : List Entry) : Prop :=
  ∀ e ∈ es, e.zr.rtype = RT_CNAME → ∃ c, e.zr.fields = [.name c]

theorem helperData_ne_panic (name : Name) (qtype : Nat) (m : RecMap)
    (h : ∀ z zs, m.get RT_CNAME = some (z :: zs) → ∃ c, z.fields = [.name c]) :
    helperData name qtype m ≠ .panic := by
  unfold helperData
  rcases cnameOf_cases name qtype m with hc | hc | ⟨z, zs, c, _, _, _, hc⟩
  · rw [hc]; obtain ⟨r, hr⟩ := answerOf_cases name qtype m; rw [hr]; simp
  · exfalso
    unfold cnameOf at hc
    split at hc
    · split at hc
      · rename_i z zs hg
        obtain ⟨c, hcf⟩ := h z zs hg
        rw [hcf] at hc; simp at hc
      · cases hc
    · cases hc
  · rw [hc]; simp

theorem zoneResultHelper_ne_panic (name : Name) (qtype : Nat) (m : RecMap) (nsd : Name) (cd : Bool)
    (h : ∀ z zs, m.get RT_CNAME = some (z :: zs) → ∃ c, z.fields = [.name c]) :
    zoneResultHelper name qtype m nsd cd ≠ .panic := by
  rw [zoneResultHelper_eq]
  split
  · simp
  · exact helperData_ne_panic name qtype m h

theorem RecRepr.cname_ok {m : RecMap} {es : List Entry} {rel : List Label} {wild : Bool}
    (h : RecRepr m (recordsAt es rel wild)) (hok : CnameFieldsOK es) :
    ∀ z zs, m.get RT_CNAME = some (z :: zs) → ∃ c, z.fields = [.name c] := by
  intro z zs hg
  have h2 := h.2 RT_CNAME
  rw [hg] at h2
  split at h2
  · cases h2
  · have hz : z ∈ ofType (recordsAt es rel wild) RT_CNAME := by
      rw [← Option.some.inj h2]; exact List.mem_cons_self
    obtain ⟨hz1, hz2⟩ := mem_ofType.mp hz
    obtain ⟨e, he, _, _, hzr⟩ := mem_recordsAt.mp hz1
    subst hzr
    exact hok e he hz2

theorem resolve_ne_panic {root : ZNode} {es : List Entry} {apex qname : Name} (qtype : Nat)
    (h : TreeRepr root es) (hap : root.nsdname = apex)
    (hq : Name.fromLabels qname.labels = some qname) (rel : List Label)
    (hrel : rel ++ apex.labels = qname.labels) (hok : CnameFieldsOK es) :
    root.resolve qname qtype rel true ≠ .panic := by
  cases hd : root.descend rel.reverse with
  | some n =>
    rw [resolve_of_nodeAt root n qname qtype rel true hd]
    have hv := h.recs rel.reverse
    simp only [ZNode.baseView, hd, List.reverse_reverse] at hv
    exact zoneResultHelper_ne_panic _ _ _ _ _ (hv.1.cname_ok hok)
  | none =>
    obtain ⟨r1, l, r2, n, hr, hdn, hc⟩ := ZNode.descend_none_split _ root hd
    have hrel' : rel = r2.reverse ++ l :: r1.reverse := by
      have := congrArg List.reverse hr
      simpa using this
    rw [ZNode.resolve_eq_rev, hr, ZNode.resolveRev_descend qname qtype r1 (l :: r2) root n true hdn,
      ZNode.resolveRev_stop _ _ _ _ _ _ hc]
    unfold ZNode.stopResult
    have hv := h.recs r1
    simp only [ZNode.baseView, hdn] at hv
    cases hw : n.wildcards with
    | none =>
      simp only
      split
      · simp
      · split <;> simp
    | some ws =>
      simp only
      have hname := h.names r1 n hdn
      have hlab : n.nsdname.labels = r1.reverse ++ apex.labels := by
        have := ZNode.fromLabels_labels hname
        rw [hap] at this; exact this
      have hsome : (Name.fromLabels (l :: n.nsdname.labels)).isSome := by
        apply ZNode.fromLabels_suffix_isSome r2.reverse (l :: n.nsdname.labels) (by simp)
        have : r2.reverse ++ l :: n.nsdname.labels = qname.labels := by
          rw [hlab, ← hrel, hrel']; simp
        rw [this, hq]; rfl
      obtain ⟨nsd, hnsd⟩ := Option.isSome_iff_exists.mp hsome
      rw [hnsd]
      simp only
      have hwr := hv.2
      simp only [ZNode.view, hw, WildRepr] at hwr
      exact zoneResultHelper_ne_panic _ _ _ _ _ (hwr.2.cname_ok hok)

end Resolved
