/-
  C16 helper lemmas: `Name.fromDotted` (Model/Name.lean) against the independent specification
  `dottedOk` / `dottedSpecLabels` (Spec/NameTextSpec.lean).
-/
import Resolved.Spec.NameTextSpec
import Resolved.Proofs.NameLemmas

namespace Resolved

open Gen

theorem mx_asciiLower_eq (b : UInt8) : asciiLower b = lowerByte b := by
  unfold asciiLower lowerByte
  by_cases h : 65 ≤ b.toNat ∧ b.toNat ≤ 90
  · simp [h, UInt8.ofNat_add]
  · have : (decide (65 ≤ b.toNat) && decide (b.toNat ≤ 90)) = false := by
      simpa using h
    simp [h, this]

theorem mx_asciiLower_fun : asciiLower = lowerByte := funext mx_asciiLower_eq

theorem mx_isDot (b : UInt8) : (b.toNat == 46) = decide (b = 46) := by
  by_cases h : b = 46
  · subst h; rfl
  · have : b.toNat ≠ 46 := fun h2 => h (UInt8.toNat_inj.mp h2)
    simp [h, this]

/-! ## `splitDots` (specification, `foldl`) = `splitDot` (model, recursion) -/

/-- the step of the specification's `foldl`. -/
def mx_dotStep (p : List UInt8 × List (List UInt8)) (b : UInt8) : List UInt8 × List (List UInt8) :=
  if b.toNat == 46 then ([], p.2 ++ [p.1]) else (p.1 ++ [b], p.2)

theorem mx_splitDots_eq (s : List UInt8) :
    splitDots s = (s.foldl mx_dotStep ([], [])).2 ++ [(s.foldl mx_dotStep ([], [])).1] := rfl

/-- prepend the chunk under construction to the first chunk of what follows. -/
def mx_glue (cur : List UInt8) : List (List UInt8) → List (List UInt8)
  | [] => [cur]
  | c :: cs => (cur ++ c) :: cs

theorem mx_splitDot_ne_nil (s : List UInt8) : Name.splitDot s ≠ [] := by
  induction s with
  | nil => simp [Name.splitDot]
  | cons b bs ih =>
    unfold Name.splitDot
    split
    · simp
    · split <;> simp

theorem mx_foldl_dotStep (s : List UInt8) :
    ∀ cur acc, (s.foldl mx_dotStep (cur, acc)).2 ++ [(s.foldl mx_dotStep (cur, acc)).1]
      = acc ++ mx_glue cur (Name.splitDot s) := by
  induction s with
  | nil => intro cur acc; simp [Name.splitDot, mx_glue]
  | cons b bs ih =>
    intro cur acc
    rw [List.foldl_cons]
    by_cases hb : b = 46
    · subst hb
      have hstep : mx_dotStep (cur, acc) 46 = ([], acc ++ [cur]) := by
        simp [mx_dotStep]
      rw [hstep, ih]
      have hsd : Name.splitDot (46 :: bs) = [] :: Name.splitDot bs := by
        rw [Name.splitDot]; simp
      rw [hsd]
      cases hs : Name.splitDot bs with
      | nil => exact absurd hs (mx_splitDot_ne_nil bs)
      | cons c cs => simp [mx_glue]
    · have hstep : mx_dotStep (cur, acc) b = (cur ++ [b], acc) := by
        simp [mx_dotStep, mx_isDot, hb]
      rw [hstep, ih]
      rw [Name.splitDot, if_neg hb]
      cases hs : Name.splitDot bs with
      | nil => exact absurd hs (mx_splitDot_ne_nil bs)
      | cons c cs => simp [mx_glue]

theorem mx_splitDots_eq_splitDot (s : List UInt8) : splitDots s = Name.splitDot s := by
  rw [mx_splitDots_eq, mx_foldl_dotStep]
  cases hs : Name.splitDot s with
  | nil => exact absurd hs (mx_splitDot_ne_nil s)
  | cons c cs => simp [mx_glue]

/-- a final dot adds an empty last chunk. -/
theorem mx_splitDot_snoc_dot (t : List UInt8) : Name.splitDot (t ++ [46]) = Name.splitDot t ++ [[]] := by
  rw [← mx_splitDots_eq_splitDot, ← mx_splitDots_eq_splitDot, mx_splitDots_eq, mx_splitDots_eq,
    List.foldl_append]
  simp [mx_dotStep]

/-- any other final octet makes the last chunk non-empty. -/
theorem mx_splitDot_snoc_other (t : List UInt8) (b : UInt8) (hb : b ≠ 46) :
    ∃ init last, Name.splitDot (t ++ [b]) = init ++ [last ++ [b]] := by
  refine ⟨(t.foldl mx_dotStep ([], [])).2, (t.foldl mx_dotStep ([], [])).1, ?_⟩
  rw [← mx_splitDots_eq_splitDot, mx_splitDots_eq, List.foldl_append]
  simp [mx_dotStep, mx_isDot, hb]

/-! ## the label loop -/

theorem mx_dottedChunksToLabels_eq (cs : List (List UInt8)) :
    Name.dottedChunksToLabels cs =
      if (∀ c ∈ cs.dropLast, c ≠ []) ∧ (∀ c ∈ cs, c.length ≤ 63) then some (cs.map (·.map lowerByte))
      else none := by
  fun_induction Name.dottedChunksToLabels cs with
  | case1 => simp
  | case2 c =>
    unfold Label.tryFrom LABEL_MAX_LEN
    by_cases h : c.length ≤ 63
    · have : ¬ c.length > 63 := by omega
      simp [h, this]
    · have : c.length > 63 := by omega
      simp [h, this]
  | case3 c cs hne hempty =>
    have hc : c = [] := by simpa using hempty
    subst hc
    cases cs with
    | nil => exact absurd rfl hne
    | cons d ds => simp
  | case4 c cs hne hnempty hnone =>
    have : c.length > 63 := (Label.tryFrom_none_iff c).mp hnone
    rw [if_neg]
    intro h
    have := h.2 c (by simp)
    omega
  | case5 c cs hne hnempty l hl ih =>
    rw [ih]
    have hcl : l = c.map lowerByte ∧ c.length ≤ 63 := by
      unfold Label.tryFrom LABEL_MAX_LEN at hl
      split at hl
      · cases hl
      · cases hl; exact ⟨rfl, by omega⟩
    have hc : c ≠ [] := by simpa using hnempty
    cases cs with
    | nil => exact absurd rfl hne
    | cons d ds =>
      by_cases h : (∀ x ∈ (d :: ds).dropLast, x ≠ []) ∧ (∀ x ∈ (d :: ds), x.length ≤ 63)
      · rw [if_pos h, if_pos]
        · simp [hcl.1]
        · refine ⟨?_, ?_⟩
          · intro x hx
            simp only [List.dropLast_cons_cons, List.mem_cons] at hx
            rcases hx with rfl | hx
            · exact hc
            · exact h.1 x hx
          · intro x hx
            simp only [List.mem_cons] at hx
            rcases hx with rfl | hx
            · exact hcl.2
            · exact h.2 x (by simpa using hx)
      · rw [if_neg h, if_neg]
        · rfl
        · intro h2
          apply h
          refine ⟨?_, ?_⟩
          · intro x hx
            exact h2.1 x (by simp only [List.dropLast_cons_cons, List.mem_cons]; exact Or.inr hx)
          · intro x hx
            exact h2.2 x (List.mem_cons_of_mem _ hx)

theorem mx_sumLen_map_lower (cs : List (List UInt8)) :
    sumLen (cs.map (·.map lowerByte)) = sumLen cs := by
  induction cs with
  | nil => rfl
  | cons c cs ih => simp [ih]

theorem mx_sum_succ (cs : List (List UInt8)) :
    (cs.map (·.length + 1)).sum = cs.length + sumLen cs := by
  induction cs with
  | nil => rfl
  | cons c cs ih => simp [ih]; omega

/-! ## `fromDotted` by the shape of the text -/

/-- the acceptance condition on the chunks before the final dot. -/
def mx_ChunksOk (cs : List (List UInt8)) : Prop :=
  (∀ c ∈ cs, c ≠ [] ∧ c.length ≤ 63) ∧ cs.length + 1 + sumLen cs ≤ 255

instance (cs : List (List UInt8)) : Decidable (mx_ChunksOk cs) := by unfold mx_ChunksOk; infer_instance

/-- a text `t.` with `t` non-empty. -/
theorem mx_fromDotted_snoc_dot (t : List UInt8) (ht : t ≠ []) :
    Name.fromDotted (t ++ [46]) =
      if mx_ChunksOk (Name.splitDot t) then
        some ⟨(Name.splitDot t).map (·.map lowerByte) ++ [[]], (Name.splitDot t).length + 1 + sumLen (Name.splitDot t)⟩
      else none := by
  unfold Name.fromDotted
  have hne : t ++ [46] ≠ [46] := by
    cases t with
    | nil => exact absurd rfl ht
    | cons a as => simp
  rw [if_neg hne, mx_splitDot_snoc_dot, mx_dottedChunksToLabels_eq]
  generalize Name.splitDot t = cs
  have hlen : (cs.map (fun (c : List UInt8) => c.map lowerByte) ++ [[]]).length
        + sumLen (cs.map (fun (c : List UInt8) => c.map lowerByte) ++ [[]])
      = cs.length + 1 + sumLen cs := by
    simp [mx_sumLen_map_lower]
  by_cases h1 : (∀ c ∈ (cs ++ [[]]).dropLast, c ≠ []) ∧ (∀ c ∈ cs ++ [[]], c.length ≤ 63)
  · rw [if_pos h1]
    simp only [List.dropLast_concat] at h1
    simp only [List.map_append, List.map_cons, List.map_nil]
    rw [fromLabels_eq, hlen]
    have hshape : LabelsShape (cs.map (fun (c : List UInt8) => c.map lowerByte) ++ [[]]) := by
      refine ⟨by simp, by simp, ?_⟩
      intro l hl
      simp only [List.dropLast_concat, List.mem_map] at hl
      obtain ⟨c, hc, rfl⟩ := hl
      have := h1.1 c hc
      simpa using this
    have hall : ∀ c ∈ cs, c ≠ [] ∧ c.length ≤ 63 :=
      fun c hc => ⟨h1.1 c hc, h1.2 c (by simp [hc])⟩
    by_cases h2 : cs.length + 1 + sumLen cs ≤ 255
    · have hc : mx_ChunksOk cs := ⟨hall, h2⟩
      rw [if_pos ⟨hshape, by simpa [DOMAINNAME_MAX_LEN] using h2⟩, if_pos hc]
    · have hc : ¬ mx_ChunksOk cs := fun h => h2 h.2
      rw [if_neg (by intro h; exact h2 (by simpa [DOMAINNAME_MAX_LEN] using h.2)), if_neg hc]
  · have hc : ¬ mx_ChunksOk cs := by
      intro h
      apply h1
      simp only [List.dropLast_concat]
      refine ⟨fun c hc => (h.1 c hc).1, ?_⟩
      intro c hc
      simp only [List.mem_append, List.mem_singleton] at hc
      rcases hc with hc | rfl
      · exact (h.1 c hc).2
      · simp
    rw [if_neg h1, if_neg hc]

/-- a text that does not end with a dot (and is not empty) is rejected. -/
theorem mx_fromDotted_snoc_other (t : List UInt8) (b : UInt8) (hb : b ≠ 46) :
    Name.fromDotted (t ++ [b]) = none := by
  unfold Name.fromDotted
  have hne : t ++ [b] ≠ [46] := by
    intro h
    have := congrArg List.getLast? h
    simp at this
    exact hb this
  rw [if_neg hne, mx_dottedChunksToLabels_eq]
  obtain ⟨init, last, hs⟩ := mx_splitDot_snoc_other t b hb
  rw [hs]
  by_cases h1 : (∀ c ∈ (init ++ [last ++ [b]]).dropLast, c ≠ []) ∧ (∀ c ∈ init ++ [last ++ [b]], c.length ≤ 63)
  · rw [if_pos h1]
    simp only
    rw [fromLabels_eq, if_neg]
    intro h
    have := h.1.2.1
    simp at this
  · rw [if_neg h1]

theorem mx_fromDotted_nil : Name.fromDotted [] = some ⟨[[]], 1⟩ := by decide

theorem mx_fromDotted_dot : Name.fromDotted [46] = some ⟨[[]], 1⟩ := by decide

/-! ## the specification by the shape of the text -/

theorem mx_dottedOk_snoc_dot (t : List UInt8) (ht : t ≠ []) :
    dottedOk (t ++ [46]) = decide (mx_ChunksOk (Name.splitDot t)) := by
  have hne : (t ++ [46] == [46]) = false := by
    cases t with
    | nil => exact absurd rfl ht
    | cons a as => simp
  have hemp : (t ++ [46]).isEmpty = false := by simp
  unfold dottedOk
  simp only [hne, hemp, Bool.or_false, Bool.false_eq_true, if_false, List.getLast?_concat,
    List.dropLast_concat, mx_splitDots_eq_splitDot]
  have h46 : ((46 : UInt8).toNat != 46) = false := by decide
  simp only [h46, Bool.false_eq_true, if_false]
  generalize Name.splitDot t = cs
  rw [mx_sum_succ, Bool.eq_iff_iff, decide_eq_true_iff]
  simp only [Bool.and_eq_true, List.all_eq_true, decide_eq_true_eq]
  constructor
  · rintro ⟨h1, h2⟩
    refine ⟨fun c hc => ?_, by omega⟩
    have := h1 c hc
    exact ⟨by simpa using this.1, this.2⟩
  · rintro ⟨h1, h2⟩
    refine ⟨fun c hc => ?_, by omega⟩
    have := h1 c hc
    exact ⟨by simpa using this.1, this.2⟩

theorem mx_dottedOk_snoc_other (t : List UInt8) (b : UInt8) (hb : b ≠ 46) :
    dottedOk (t ++ [b]) = false := by
  have hne : (t ++ [b] == [46]) = false := by
    rw [beq_eq_false_iff_ne]
    intro h
    have := congrArg List.getLast? h
    simp at this
    exact hb this
  have hemp : (t ++ [b]).isEmpty = false := by simp
  have hb2 : (b.toNat != 46) = true := by
    have := mx_isDot b
    simp only [hb, decide_false] at this
    simp [bne, this]
  unfold dottedOk
  simp only [hne, hemp, Bool.or_false, Bool.false_eq_true, if_false, List.getLast?_concat, hb2, if_true]

/-- every text is empty, `.`, `t.` with `t` non-empty, or ends with an octet that is not a dot. -/
theorem mx_text_cases (s : List UInt8) :
    s = [] ∨ s = [46] ∨ (∃ t, t ≠ [] ∧ s = t ++ [46]) ∨ (∃ t b, b ≠ 46 ∧ s = t ++ [b]) := by
  rcases List.eq_nil_or_concat s with h | ⟨t, b, h⟩
  · exact Or.inl h
  · by_cases hb : b = 46
    · subst hb
      cases t with
      | nil => exact Or.inr (Or.inl (by simpa using h))
      | cons a as => exact Or.inr (Or.inr (Or.inl ⟨a :: as, by simp, by simpa using h⟩))
    · exact Or.inr (Or.inr (Or.inr ⟨t, b, hb, by simpa using h⟩))

/-! ## empty labels -/

theorem mx_splitDot_append_dot (a r : List UInt8) :
    Name.splitDot (a ++ 46 :: r) = Name.splitDot a ++ Name.splitDot r := by
  induction a with
  | nil =>
    simp [Name.splitDot]
  | cons b bs ih =>
    rw [List.cons_append, Name.splitDot, Name.splitDot, ih]
    by_cases hb : b = 46
    · simp [hb]
    · rw [if_neg hb, if_neg hb]
      cases hs : Name.splitDot bs with
      | nil => exact absurd hs (mx_splitDot_ne_nil bs)
      | cons c cs => simp

/-- an empty chunk that is not the last one: rejected. -/
theorem mx_fromDotted_empty_chunk (s : List UInt8) (hs : s ≠ [46])
    (h : [] ∈ (Name.splitDot s).dropLast) : Name.fromDotted s = none := by
  unfold Name.fromDotted
  rw [if_neg hs, mx_dottedChunksToLabels_eq, if_neg]
  intro h2
  exact h2.1 [] h rfl

end Resolved
