/-
  Helper lemmas for C07 over consistent universes (`Spec/UniverseSpec.lean`).  Self-contained with
  respect to the machine / filter lemma files (it works from the model definitions directly):
  * the local lookup in the start context (root hints, empty cache), after glue has been cached,
    and with a warm cache (`uni_local_*`);
  * the cache invariant of a resolution (`UniSound`, `UniPresent`, `UniCache`) and what lookups
    return under it;
  * one exchange with a faithful server (`uni_query`), completeness of the reply filter for
    faithful answers / NODATA / NXDOMAIN / referrals (one or several NS records, `A` and `AAAA`
    glue) / aliases (`uni_validate_*`);
  * one iteration of the candidate loop (`uni_loop_query`, `uni_loop_query_cands`);
  * THE DESCENT along a delegation path (`uni_descend`, `uni_descendM`), the loop invariant
    (`uni_loop`), the machine from the start context (`uni_resolveRec`, `uni_resolveRecursive`,
    `uni_resolveRecursiveM`), from a warm state (`uni_candidates_warm`, `uni_resolveRec_warm`), on
    an alias (`uni_resolveRec_cname`) and on a plan (`uni_plan`);
  * consistent universes: existence of paths, the decidable check;
  * the root hints zone as `Zone::insert` builds it, for arbitrary names (`uni_hints_resolve`);
  * the facts about the concrete universe `UniEx`.
-/
import Resolved.Spec.UniverseSpec
import Resolved.Proofs.ResolverLocalLemmas
import Resolved.Proofs.ResolverLocalChain
import Resolved.Proofs.ResolverLocalSources
import Resolved.Proofs.ResolverMachineLocal
import Resolved.Proofs.CacheStore
import Resolved.Proofs.ResolverLocalExamples

namespace Resolved

open Gen

set_option autoImplicit false

/-! ## The local lookup -/

theorem uni_soaRR_none {z : Zone} (h : z.soa.isNone = true) : z.soaRR = none := by
  unfold Zone.soaRR
  cases hs : z.soa with
  | none => rfl
  | some s => rw [hs] at h; cases h

/-- a local miss: the zone part falls through to the cache with no records. -/
theorem uni_zonePart_miss (rec : Ctx → Question → LocalOut) (ctx : Ctx) (q : Question)
    (h : localMiss ctx.zones q.name q.qtype = true) : zonePart rec ctx q = (ctx, .inr []) := by
  unfold localMiss at h
  unfold zonePart
  cases hz : ctx.zones.resolve q.name q.qtype with
  | none => rfl
  | some p =>
    obtain ⟨z, o⟩ := p
    cases o with
    | none => rfl
    | some zr =>
      rw [hz] at h
      simp only [Bool.and_eq_true] at h
      have hs := uni_soaRR_none h.1
      cases zr with
      | answer rrs =>
        have : rrs = [] := by simpa using h.2
        subst this
        simp [zoneResultPart, hs]
      | cname c rr => simp at h
      | delegation ns => simp [zoneResultPart, hs]
      | nameError => simp [zoneResultPart, hs]
      | panic => simp [zoneResultPart]

theorem uni_cacheGet_new (d : Nat) (n : Name) (t now : Nat) :
    cacheGet (PCache.new d) n t now = (PCache.new d, []) := by
  unfold cacheGet cacheGetUnchecked PCache.getPartitionTouch PCache.getTouch PCache.new
  simp only [PCache.getPartition]
  split <;> rfl

theorem uni_ctx_cacheGet_new (ctx : Ctx) (d : Nat) (hc : ctx.cache = PCache.new d) (n : Name) (t : Nat) :
    ctx.cacheGet n t = (ctx, []) := by
  obtain ⟨zs, c, now, stack⟩ := ctx
  simp only at hc
  subst hc
  simp [Ctx.cacheGet, uni_cacheGet_new]

/-- with an empty cache, a question the local zones miss ends in an error and leaves the context
    untouched. -/
theorem uni_local_empty (n : Nat) (ctx : Ctx) (q : Question) (d : Nat) (hc : ctx.cache = PCache.new d)
    (h : localMiss ctx.zones q.name q.qtype = true) :
    ∃ e, resolveLocal (n + 1) ctx q = (ctx, .error e) := by
  rw [resolveLocal_succ]
  unfold localStep
  split
  · exact ⟨_, rfl⟩
  split
  · exact ⟨_, rfl⟩
  rw [uni_zonePart_miss _ _ _ h]
  simp only [cacheStage, uni_ctx_cacheGet_new ctx d hc, cachePart, List.isEmpty_nil, Bool.true_and,
    cacheCnamePart]
  refine ⟨.deadEnd q, ?_⟩
  split <;> simp [finishPart, prioritisingMerge]

/-- a question the local zones miss but the cache answers. -/
theorem uni_local_hit (n : Nat) (ctx : Ctx) (q : Question)
    (hl : ctx.stack.length ≠ RECURSION_LIMIT) (hd : q ∉ ctx.stack)
    (h : localMiss ctx.zones q.name q.qtype = true) (hq : q.qtype ≠ QTYPE_WILDCARD)
    (hne : (ctx.cacheGet q.name q.qtype).2 ≠ []) :
    resolveLocal (n + 1) ctx q =
      ((ctx.cacheGet q.name q.qtype).1, .ok (.done (.nonAuthoritative (ctx.cacheGet q.name q.qtype).2 none))) := by
  rw [resolveLocal_succ]
  unfold localStep
  rw [Ctx.not_atLimit hl, Ctx.not_duplicate hd]
  simp only [Bool.false_eq_true, if_false]
  rw [uni_zonePart_miss _ _ _ h]
  simp only [cacheStage, cachePart]
  have : (ctx.cacheGet q.name q.qtype).2.isEmpty = false := by
    cases hh : (ctx.cacheGet q.name q.qtype).2 with
    | nil => exact absurd hh hne
    | cons a b => rfl
  simp only [this, Bool.false_and, Bool.false_eq_true, if_false, finishPart, prioritisingMerge_nil]
  have hq' : (q.qtype == QTYPE_WILDCARD) = false := by simp [hq]
  simp [hq']

/-- a question the (non-authoritative) local zones answer. -/
theorem uni_local_zone_answer (n : Nat) (ctx : Ctx) (q : Question) (z : Zone) (rrs : List RR)
    (hl : ctx.stack.length ≠ RECURSION_LIMIT) (hd : q ∉ ctx.stack)
    (hz : ctx.zones.resolve q.name q.qtype = some (z, some (.answer rrs))) (hs : z.soa = none)
    (hq : q.qtype ≠ QTYPE_WILDCARD) (hne : rrs ≠ []) :
    resolveLocal (n + 1) ctx q = (ctx, .ok (.done (.nonAuthoritative rrs none))) := by
  rw [resolveLocal_succ]
  exact localStep_zone_answer_nonauth hl hd hz (by simp [Zone.soaRR, hs]) hq hne

/-! ## The cache along the descent -/

/-- lookups only touch: the same tuples stay stored, the structural invariant is kept. -/
def UniSameStore (c c' : PCache) : Prop := (Inv c → Inv c') ∧ ∀ k rk, tuplesAt c' k rk = tuplesAt c k rk

theorem uni_sameStore_refl (c : PCache) : UniSameStore c c := ⟨id, fun _ _ => rfl⟩

theorem uni_sameStore_trans {a b c : PCache} (h1 : UniSameStore a b) (h2 : UniSameStore b c) : UniSameStore a c :=
  ⟨fun h => h2.1 (h1.1 h), fun k rk => (h2.2 k rk).trans (h1.2 k rk)⟩

theorem uni_sameStore_get (c : PCache) (n : Name) (t now : Nat) : UniSameStore c (cacheGet c n t now).1 := by
  refine ⟨fun h => h.cacheGet n t now, ?_⟩
  intro k rk
  have h2 : (cacheGet c n t now).1 = (cacheGetUnchecked c n t now).1 := rfl
  rw [h2]
  exact (cacheGetUnchecked_touched c n t now).tuplesAt k rk

/-- what a stored tuple may be during a resolution in the universe: the address of a server of the
    universe under its host name (`A`), the NS record of one of the zones `V` referred to so far
    (`NS`), an alias owned by one of the names `cn` (`CNAME`), or some `AAAA` record under a server's
    host name (dual-stack glue, never used); `A` / `NS` tuples have at least one full second left. -/
def UniTupleOK (U : Universe) (V : List UEntry) (cn : List Name) (now : Nat) (name : Name) (rk : Nat)
    (t : CRec × Nat) : Prop :=
  (rk = RT_A ∧ ∃ E ∈ U, E.host = name ∧ t.1 = ⟨RT_A, [.a E.addr]⟩ ∧ now + NANOS ≤ t.2) ∨
  (rk = RT_NS ∧ ∃ C ∈ V, C.apex = name ∧ t.1 = ⟨RT_NS, [.name C.host]⟩ ∧ now + NANOS ≤ t.2) ∨
  (rk = RT_CNAME ∧ name ∈ cn) ∨
  (rk = RT_AAAA ∧ ∃ E ∈ U, E.host = name)

/-- soundness part of the cache invariant: structural invariant + every tuple is `UniTupleOK`. -/
def UniSound (U : Universe) (V : List UEntry) (cn : List Name) (c : PCache) (now : Nat) : Prop :=
  Inv c ∧ ∀ name rk, ∀ t ∈ tuplesAt c name rk, UniTupleOK U V cn now name rk t

/-- presence part: glue and NS set of every zone referred to so far are stored. -/
def UniPresent (V : List UEntry) (c : PCache) : Prop :=
  ∀ C ∈ V, tuplesAt c C.host RT_A ≠ [] ∧ tuplesAt c C.apex RT_NS ≠ []

/-- the cache invariant of a resolution. -/
def UniCache (U : Universe) (V : List UEntry) (cn : List Name) (c : PCache) (now : Nat) : Prop :=
  UniSound U V cn c now ∧ UniPresent V c

/-- records that may be cached. -/
def UniRROK (U : Universe) (V : List UEntry) (cn : List Name) (rr : RR) : Prop :=
  (rr.rtype = RT_A ∧ ∃ E ∈ U, E.host = rr.name ∧ rr.fields = [.a E.addr]) ∨
  (rr.rtype = RT_NS ∧ ∃ C ∈ V, C.apex = rr.name ∧ rr.fields = [.name C.host]) ∨
  (rr.rtype = RT_CNAME ∧ rr.name ∈ cn) ∨
  (rr.rtype = RT_AAAA ∧ ∃ E ∈ U, E.host = rr.name)

theorem uni_cache_new (U : Universe) (d now : Nat) : UniCache U [] [] (PCache.new d) now := by
  refine ⟨⟨Inv.new d, ?_⟩, by intro C hC; cases hC⟩
  intro name rk t ht
  simp [tuplesAt, recsAt, PCache.new] at ht

theorem uni_sound_same {U : Universe} {V : List UEntry} {cn : List Name} {c c' : PCache} {now : Nat}
    (h : UniSound U V cn c now) (hs : UniSameStore c c') : UniSound U V cn c' now :=
  ⟨hs.1 h.1, fun name rk t ht => h.2 name rk t (by rw [hs.2] at ht; exact ht)⟩

theorem uni_cache_same {U : Universe} {V : List UEntry} {cn : List Name} {c c' : PCache} {now : Nat}
    (h : UniCache U V cn c now) (hs : UniSameStore c c') : UniCache U V cn c' now :=
  ⟨uni_sound_same h.1 hs, fun C hC => by rw [hs.2, hs.2]; exact h.2 C hC⟩

theorem uni_tupleOK_mono {U : Universe} {V V' : List UEntry} {cn cn' : List Name} {now : Nat} {name : Name}
    {rk : Nat} {t : CRec × Nat} (hV : ∀ C ∈ V, C ∈ V') (hcn : ∀ n ∈ cn, n ∈ cn')
    (h : UniTupleOK U V cn now name rk t) : UniTupleOK U V' cn' now name rk t := by
  rcases h with h | ⟨h1, C, hC, h2⟩ | ⟨h1, h2⟩ | h
  · exact Or.inl h
  · exact Or.inr (Or.inl ⟨h1, C, hV C hC, h2⟩)
  · exact Or.inr (Or.inr (Or.inl ⟨h1, hcn _ h2⟩))
  · exact Or.inr (Or.inr (Or.inr h))

theorem uni_sound_mono {U : Universe} {V V' : List UEntry} {cn cn' : List Name} {c : PCache} {now : Nat}
    (hV : ∀ C ∈ V, C ∈ V') (hcn : ∀ n ∈ cn, n ∈ cn') (h : UniSound U V cn c now) : UniSound U V' cn' c now :=
  ⟨h.1, fun name rk t ht => uni_tupleOK_mono hV hcn (h.2 name rk t ht)⟩

theorem uni_sound_insert {U : Universe} {V : List UEntry} {cn : List Name} {c : PCache} {now : Nat}
    (h : UniSound U V cn c now) (rr : RR) (hrr : UniRROK U V cn rr) : UniSound U V cn (sharedInsert c rr now) now := by
  refine ⟨h.1.sharedInsert rr now, ?_⟩
  unfold sharedInsert
  split
  · rename_i hpos
    intro name rk t ht
    unfold cacheInsert at ht
    by_cases hk : name = rr.name ∧ rk = rr.rtype
    · obtain ⟨hk1, hk2⟩ := hk
      subst hk1; subst hk2
      obtain ⟨w, e⟩ := t
      rw [mem_tuplesAt_upsert h.1 rr.name (rr.ttl * NANOS) now] at ht
      rcases ht with ⟨hw, he⟩ | ⟨_, hold⟩
      · have hlive : now + NANOS ≤ e := by
          rw [he]
          have hn : NANOS = 1000000000 := rfl
          have : 1 * NANOS ≤ rr.ttl * NANOS := Nat.mul_le_mul_right _ hpos
          omega
        rcases hrr with ⟨h1, E, hE, hh, hf⟩ | ⟨h1, C, hC, hh, hf⟩ | ⟨h1, h2⟩ | ⟨h1, h2⟩
        · exact Or.inl ⟨h1, E, hE, hh, by simp only [hw, h1, hf], hlive⟩
        · exact Or.inr (Or.inl ⟨h1, C, hC, hh, by simp only [hw, h1, hf], hlive⟩)
        · exact Or.inr (Or.inr (Or.inl ⟨h1, h2⟩))
        · exact Or.inr (Or.inr (Or.inr ⟨h1, h2⟩))
      · exact h.2 _ _ _ hold
    · have hne : name ≠ rr.name ∨ rk ≠ rr.rtype := by
        by_cases h1 : name = rr.name
        · exact Or.inr (fun h2 => hk ⟨h1, h2⟩)
        · exact Or.inl h1
      rw [tuplesAt_upsert_other h.1 rr.name (rr.ttl * NANOS) now name rk hne] at ht
      exact h.2 name rk t ht
  · exact h.2

theorem uni_sound_insertAll {U : Universe} {V : List UEntry} {cn : List Name} {now : Nat} (rrs : List RR) :
    ∀ {c : PCache}, UniSound U V cn c now → (∀ rr ∈ rrs, UniRROK U V cn rr) →
      UniSound U V cn (sharedInsertAll c rrs now) now := by
  unfold sharedInsertAll
  induction rrs with
  | nil => intro c h _; exact h
  | cons rr rrs ih =>
    intro c h hall
    exact ih (uni_sound_insert h rr (hall rr List.mem_cons_self))
      (fun r hr => hall r (List.mem_cons_of_mem _ hr))

/-- an insertion never empties a tuple list, and fills the one of its own key. -/
theorem uni_tuples_insert_ne {c : PCache} (hi : Inv c) (rr : RR) (now : Nat) (k : Name) (rk : Nat)
    (h : tuplesAt c k rk ≠ [] ∨ (rr.ttl > 0 ∧ k = rr.name ∧ rk = rr.rtype)) :
    tuplesAt (sharedInsert c rr now) k rk ≠ [] := by
  unfold sharedInsert
  split
  · unfold cacheInsert
    by_cases hk : k = rr.name ∧ rk = rr.rtype
    · obtain ⟨h1, h2⟩ := hk
      subst h1; subst h2
      have : ((⟨rr.rtype, rr.fields⟩ : CRec), now + rr.ttl * NANOS) ∈
          tuplesAt (c.upsert rr.name rr.rtype ⟨rr.rtype, rr.fields⟩ (rr.ttl * NANOS) now) rr.name rr.rtype :=
        (mem_tuplesAt_upsert hi rr.name (rr.ttl * NANOS) now _ _).mpr (Or.inl ⟨rfl, rfl⟩)
      exact List.ne_nil_of_mem this
    · have hne : k ≠ rr.name ∨ rk ≠ rr.rtype := by
        by_cases h1 : k = rr.name
        · exact Or.inr (fun h2 => hk ⟨h1, h2⟩)
        · exact Or.inl h1
      rw [tuplesAt_upsert_other hi rr.name (rr.ttl * NANOS) now k rk hne]
      rcases h with h | ⟨_, h1, h2⟩
      · exact h
      · exact absurd ⟨h1, h2⟩ hk
  · rename_i hpos
    rcases h with h | ⟨h0, _, _⟩
    · exact h
    · exact absurd h0 hpos

theorem uni_tuples_insertAll_ne (rrs : List RR) (now : Nat) (k : Name) (rk : Nat) : ∀ {c : PCache}, Inv c →
    (tuplesAt c k rk ≠ [] ∨ ∃ rr ∈ rrs, rr.ttl > 0 ∧ k = rr.name ∧ rk = rr.rtype) →
    tuplesAt (sharedInsertAll c rrs now) k rk ≠ [] := by
  unfold sharedInsertAll
  induction rrs with
  | nil =>
    intro c _ h
    rcases h with h | ⟨rr, hr, _⟩
    · exact h
    · cases hr
  | cons r rrs ih =>
    intro c hi h
    apply ih (hi.sharedInsert r now)
    rcases h with h | ⟨rr, hr, h3⟩
    · exact Or.inl (uni_tuples_insert_ne hi r now k rk (Or.inl h))
    · rcases List.mem_cons.mp hr with rfl | hr
      · exact Or.inl (uni_tuples_insert_ne hi rr now k rk (Or.inr h3))
      · exact Or.inr ⟨rr, hr, h3⟩

theorem uni_present_insertAll {V : List UEntry} {c : PCache} (hi : Inv c) (h : UniPresent V c) (rrs : List RR)
    (now : Nat) : UniPresent V (sharedInsertAll c rrs now) :=
  fun C hC => ⟨uni_tuples_insertAll_ne rrs now _ _ hi (Or.inl (h C hC).1),
    uni_tuples_insertAll_ne rrs now _ _ hi (Or.inl (h C hC).2)⟩

theorem uni_lookupNat_A : lookupNat queryTypeFromU16 RT_A = none := by decide
theorem uni_lookupNat_NS : lookupNat queryTypeFromU16 RT_NS = none := by decide

/-- a lookup of an ordinary type returns the stored tuples as records, when all of them have at
    least a full second left. -/
theorem uni_cacheGet_live (c : PCache) (name : Name) (rk now : Nat) (hq : lookupNat queryTypeFromU16 rk = none)
    (hlive : ∀ t ∈ tuplesAt c name rk, now + NANOS ≤ t.2) :
    (cacheGet c name rk now).2 = (tuplesAt c name rk).map (mkRR name now) := by
  unfold cacheGet
  simp only
  rw [cacheGetUnchecked_snd_rec hq, toRRs_eq_map]
  apply List.filter_eq_self.mpr
  intro rr hrr
  obtain ⟨t, ht, rfl⟩ := List.mem_map.mp hrr
  have := hlive t ht
  apply decide_eq_true
  show 0 < min ((t.2 - now) / NANOS) U32_MAX
  have hn : NANOS = 1000000000 := rfl
  have hu : U32_MAX = 4294967295 := rfl
  have : 1 ≤ (t.2 - now) / NANOS := by
    rw [Nat.le_div_iff_mul_le (by omega)]; omega
  exact Nat.lt_min.mpr ⟨by omega, by omega⟩

/-- the lookup of a cached glue record: non-empty, and every record returned is an `A` record of
    the host with the server's address. -/
theorem uni_cache_lookup {U : Universe} {V : List UEntry} {cn : List Name} {c : PCache} {now : Nat}
    (h : UniSound U V cn c now) (hU : HostsFunctional U)
    (E : UEntry) (hE : E ∈ U) (hne : tuplesAt c E.host RT_A ≠ []) :
    (cacheGet c E.host RT_A now).2 ≠ [] ∧
    ∀ rr ∈ (cacheGet c E.host RT_A now).2, rr.name = E.host ∧ rr.rtype = RT_A ∧ rr.fields = [.a E.addr] := by
  have hall : ∀ t ∈ tuplesAt c E.host RT_A, t.1 = ⟨RT_A, [.a E.addr]⟩ ∧ now + NANOS ≤ t.2 := by
    intro t ht
    rcases h.2 E.host RT_A t ht with ⟨_, E', hE', hh, ht1, ht2⟩ | ⟨h1, _⟩ | ⟨h1, _⟩ | ⟨h1, _⟩
    · rw [hU E' hE' E hE hh] at ht1
      exact ⟨ht1, ht2⟩
    · exact absurd h1 (by decide)
    · exact absurd h1 (by decide)
    · exact absurd h1 (by decide)
  rw [uni_cacheGet_live c E.host RT_A now uni_lookupNat_A (fun t ht => (hall t ht).2)]
  constructor
  · intro hh
    exact hne (List.map_eq_nil_iff.mp hh)
  · intro rr hrr
    obtain ⟨t, ht, rfl⟩ := List.mem_map.mp hrr
    have := (hall t ht).1
    simp [mkRR, this]

theorem uni_nodup_const {α β : Type} (f : α → β) (v : β) : ∀ (l : List α), (l.map f).Nodup →
    (∀ x ∈ l, f x = v) → l.length ≤ 1
  | [], _, _ => by simp
  | [_], _, _ => by simp
  | a :: b :: l, hnd, hall => by
    exfalso
    simp only [List.map_cons, List.nodup_cons, List.mem_cons, not_or] at hnd
    have h1 := hall a List.mem_cons_self
    have h2 := hall b (List.mem_cons_of_mem _ List.mem_cons_self)
    exact hnd.1.1 (h1.trans h2.symm)

/-- the lookup of the cached NS set of a zone referred to: exactly one record, naming the zone's
    host. -/
theorem uni_cache_lookup_ns {U : Universe} {V : List UEntry} {cn : List Name} {c : PCache} {now : Nat}
    (h : UniSound U V cn c now) (hV : ∀ C ∈ V, C ∈ U)
    (ha : ∀ E ∈ U, ∀ E' ∈ U, E.apex = E'.apex → E.host = E'.host)
    (C : UEntry) (hC : C ∈ V) (hne : tuplesAt c C.apex RT_NS ≠ []) :
    (cacheGet c C.apex RT_NS now).2 ≠ [] ∧ (cacheGet c C.apex RT_NS now).2.filterMap nsTarget = [C.host] := by
  have hall : ∀ t ∈ tuplesAt c C.apex RT_NS, t.1 = ⟨RT_NS, [.name C.host]⟩ ∧ now + NANOS ≤ t.2 := by
    intro t ht
    rcases h.2 C.apex RT_NS t ht with ⟨h1, _⟩ | ⟨_, C', hC', hh, ht1, ht2⟩ | ⟨h1, _⟩ | ⟨h1, _⟩
    · exact absurd h1 (by decide)
    · rw [ha C' (hV C' hC') C (hV C hC) hh] at ht1
      exact ⟨ht1, ht2⟩
    · exact absurd h1 (by decide)
    · exact absurd h1 (by decide)
  rw [uni_cacheGet_live c C.apex RT_NS now uni_lookupNat_NS (fun t ht => (hall t ht).2)]
  have hlen : (tuplesAt c C.apex RT_NS).length ≤ 1 :=
    uni_nodup_const (·.1) ⟨RT_NS, [.name C.host]⟩ _ (h.1.tuplesAt_nodup C.apex RT_NS) (fun t ht => (hall t ht).1)
  cases hts : tuplesAt c C.apex RT_NS with
  | nil => exact absurd hts hne
  | cons t rest =>
    rw [hts] at hlen hall
    have hrest : rest = [] := by
      cases rest with
      | nil => rfl
      | cons _ _ => simp at hlen
    subst hrest
    have ht := (hall t List.mem_cons_self).1
    refine ⟨by simp, ?_⟩
    simp [mkRR, nsTarget, ht]

/-- a lookup where nothing is stored returns nothing. -/
theorem uni_cacheGet_empty (c : PCache) (name : Name) (rk now : Nat) (hq : lookupNat queryTypeFromU16 rk = none)
    (h : tuplesAt c name rk = []) : (cacheGet c name rk now).2 = [] := by
  rw [uni_cacheGet_live c name rk now hq (by rw [h]; simp), h]
  rfl

/-- nothing is stored where the invariant allows nothing. -/
theorem uni_sound_empty {U : Universe} {V : List UEntry} {cn : List Name} {c : PCache} {now : Nat}
    (h : UniSound U V cn c now) (name : Name) (rk : Nat)
    (hA : rk = RT_A ∨ rk = RT_AAAA → ∀ E ∈ U, E.host ≠ name) (hN : rk = RT_NS → ∀ C ∈ V, C.apex ≠ name)
    (hC : rk = RT_CNAME → name ∉ cn) : tuplesAt c name rk = [] := by
  apply List.eq_nil_iff_forall_not_mem.mpr
  intro t ht
  rcases h.2 name rk t ht with ⟨h1, E, hE, hh, _⟩ | ⟨h1, C, hC', hh, _⟩ | ⟨h1, h2⟩ | ⟨h1, E, hE, hh⟩
  · exact hA (Or.inl h1) E hE hh
  · exact hN h1 C hC' hh
  · exact hC h1 h2
  · exact hA (Or.inr h1) E hE hh

theorem uni_foldl_id {α β : Type} (f : β → α → β) (l : List α) (h : ∀ m, ∀ a ∈ l, f m a = m) (m : β) :
    l.foldl f m = m := by
  induction l generalizing m with
  | nil => rfl
  | cons r l ih =>
    simp only [List.foldl_cons]
    rw [h m r List.mem_cons_self]
    exact ih (fun m a ha => h m a (List.mem_cons_of_mem _ ha)) m

theorem uni_cnameTarget_none {rr : RR} (h : rr.rtype ≠ RT_CNAME) : cnameTarget rr = none := by
  unfold cnameTarget; simp [h]

/-- `follow_cnames` for a CNAME-type question (whose aliases are not followed), or over records
    none of which is a CNAME: the target itself, if it has a matching record. -/
theorem uni_followCnames_noCname (rrs : List RR) (target : Name) (qtype : Nat)
    (h : qtype = RT_CNAME ∨ ∀ rr ∈ rrs, rr.rtype ≠ RT_CNAME) :
    followCnames rrs target qtype =
      if rrs.any (fun rr => rr.name == target && rtypeMatches rr.rtype qtype) then some (target, []) else none := by
  unfold followCnames
  rcases h with h | h
  · subst h
    simp only [beq_self_eq_true, if_true, List.length_nil, Nat.zero_add, followLoop, nmGet,
      List.isEmpty_nil, Bool.not_true, Bool.or_false]
  · rw [uni_foldl_id _ rrs (fun m rr hr => by simp only [uni_cnameTarget_none (h rr hr)]) []]
    simp only [ite_self, followLoop, nmGet, List.isEmpty_nil, Bool.not_true, Bool.or_false]

/-- `get_ip` on a non-empty list of `A` records of the host, all with the same address. -/
theorem uni_getIp (rrs : List RR) (host : Name) (x : Nat) (hne : rrs ≠ [])
    (hall : ∀ rr ∈ rrs, rr.name = host ∧ rr.rtype = RT_A ∧ rr.fields = [.a x]) :
    getIp rrs host RT_A = some (.a x) := by
  have hf := uni_followCnames_noCname rrs host QTYPE_WILDCARD
    (Or.inr (fun rr hr => by rw [(hall rr hr).2.1]; decide))
  cases rrs with
  | nil => exact absurd rfl hne
  | cons r rest =>
    obtain ⟨h1, h2, h3⟩ := hall r List.mem_cons_self
    have hm : rtypeMatches RT_A QTYPE_WILDCARD = true := rfl
    unfold getIp
    rw [hf]
    simp only [List.any_cons, h1, beq_self_eq_true, h2, hm, Bool.and_self, Bool.true_or, if_true, getRecord,
      List.find?_cons]
    simp [h3]

/-! ## One exchange with a faithful server -/

/-- a reply that arrives in time over UDP and matches the request is what `queryNameserver`
    returns, after exactly one logged exchange. -/
theorem uni_query (oracle : Oracle) (run : Run) (addr : FieldVal) (port : Nat) (q : Question) (delay : Nat)
    (m : Message)
    (ho : oracle { addr := addr, port := port, tcp := false, question := q, recursionDesired := false } =
      { delayMs := delay, reply := some m })
    (hfit : udpFits q = true) (hlive : run.timedOut = false) (hd : delay < EXCHANGE_TIMEOUT_MS)
    (ht : run.elapsedMs + delay < RESOLVE_TIMEOUT_MS)
    (hm : responseMatchesRequest (requestFor q false) m = true) :
    queryNameserver oracle run addr port q false =
      ({ log := run.log ++ [{ addr := addr, port := port, tcp := false, question := q, recursionDesired := false }],
         elapsedMs := run.elapsedMs + delay, timedOut := false }, some m) := by
  have hmin : min delay EXCHANGE_TIMEOUT_MS = delay := Nat.min_eq_left (Nat.le_of_lt hd)
  have h1 : attempt oracle run { addr := addr, port := port, tcp := false, question := q, recursionDesired := false } =
      ({ log := run.log ++ [{ addr := addr, port := port, tcp := false, question := q, recursionDesired := false }],
         elapsedMs := run.elapsedMs + delay, timedOut := false }, some m) := by
    unfold attempt
    rw [hlive, ho]
    simp only [Bool.false_eq_true, if_false, hmin]
    rw [if_neg (by omega), if_neg (by omega)]
  unfold udpFits at hfit
  unfold queryNameserver
  cases he : encodeMessage (requestFor q false) with
  | error e => rw [he] at hfit; cases hfit
  | ok bs =>
    rw [he] at hfit
    simp only at hfit
    simp only [he, hfit, if_true, h1, Option.bind_some, hm]

theorem uni_matches_hdr (q : Question) (rd aa : Bool) (rc : Nat) (a b c : List RR)
    (hrc : rc = RCODE_NOERROR ∨ rc = RCODE_NAMEERROR) :
    responseMatchesRequest (requestFor q rd)
      { header := replyHeader rd aa rc, questions := [q], answers := a, authority := b, additional := c } = true := by
  rcases hrc with h | h <;> subst h <;>
    simp [responseMatchesRequest, requestFor, replyHeader, RCODE_NOERROR, RCODE_NAMEERROR]

theorem uni_authReply_matches {U : Universe} {E : UEntry} {q : Question} {rd : Bool} {m : Message}
    (h : authReply U E q rd = some m) : responseMatchesRequest (requestFor q rd) m = true := by
  unfold authReply at h
  repeat' split at h
  all_goals first
    | (cases h; exact uni_matches_hdr _ _ _ _ _ _ _ (Or.inl rfl))
    | (cases h; exact uni_matches_hdr _ _ _ _ _ _ _ (Or.inr rfl))
    | cases h

/-! ## The reply filter accepts faithful replies -/

theorem uni_filter_all {α : Type} (l : List α) (p : α → Bool) (h : ∀ a ∈ l, p a = true) : l.filter p = l :=
  List.filter_eq_self.mpr h

/-- completeness for answers: a non-empty answer section consisting of records of the question's
    name and (known, non-CNAME) type is accepted as it is. -/
theorem uni_validate_answer (q : Question) (m : Message) (mc : Nat)
    (hq : lookupNat queryTypeFromU16 q.qtype = none) (hne : m.answers ≠ [])
    (hall : ∀ rr ∈ m.answers, rr.name = q.name ∧ rr.rtype = q.qtype ∧ rrIsUnknown rr = false) :
    validateNameserverResponse q m mc = some (.answer m.answers none) := by
  have hmatch : ∀ rr ∈ m.answers, rtypeMatches rr.rtype q.qtype = true := by
    intro rr hr
    unfold rtypeMatches
    rw [hq, (hall rr hr).2.1]
    simp
  have hany : m.answers.any (fun rr => rr.name == q.name && rtypeMatches rr.rtype q.qtype) = true := by
    cases hm : m.answers with
    | nil => exact absurd hm hne
    | cons r rest =>
      have hr : r ∈ m.answers := by rw [hm]; exact List.mem_cons_self
      simp [(hall r hr).1, hmatch r hr]
  have hf : followCnames m.answers q.name q.qtype = some (q.name, []) := by
    have hc : q.qtype = RT_CNAME ∨ ∀ rr ∈ m.answers, rr.rtype ≠ RT_CNAME := by
      by_cases hcn : q.qtype = RT_CNAME
      · exact Or.inl hcn
      · exact Or.inr (fun rr hr => by rw [(hall rr hr).2.1]; exact hcn)
    rw [uni_followCnames_noCname _ _ _ hc, hany]
    rfl
  have hany2 : m.answers.any (fun an => rtypeMatches an.rtype q.qtype && an.name == q.name) = true := by
    cases hm : m.answers with
    | nil => exact absurd hm hne
    | cons r rest =>
      have hr : r ∈ m.answers := by rw [hm]; exact List.mem_cons_self
      simp [(hall r hr).1, hmatch r hr]
  have hemp : m.answers.isEmpty = false := by
    cases hm : m.answers with
    | nil => exact absurd hm hne
    | cons r rest => rfl
  unfold validateNameserverResponse
  rw [hf]
  simp only []
  rw [uni_filter_all m.answers _ (fun rr hr => by simp [(hall rr hr).2.2])]
  rw [uni_filter_all m.answers _ (fun rr hr => by simp [hmatch rr hr, (hall rr hr).1])]
  rw [hany2]
  simp [hemp]

theorem uni_followCnames_nil (target : Name) (qtype : Nat) : followCnames [] target qtype = none := by
  rw [uni_followCnames_noCname [] target qtype (Or.inr (by simp))]
  rfl

theorem uni_getBetter_nil (target : Name) (mc : Nat) : getBetterNsNames [] target mc = none := by
  simp [getBetterNsNames]

/-- completeness for NODATA / NXDOMAIN: an empty answer with the enclosing zone's SOA (at least as
    deep as the delegation in use) as the only authority record is accepted. -/
theorem uni_validate_nodata (q : Question) (m : Message) (mc : Nat) (soa : RR)
    (hans : m.answers = []) (hauth : m.authority = [soa]) (hsoa : soa.rtype = RT_SOA)
    (hrc : m.header.rcode = RCODE_NOERROR ∨ m.header.rcode = RCODE_NAMEERROR)
    (hsub : q.name.isSubdomainOf soa.name = true) (hmc : mc ≤ soa.name.labels.length) :
    validateNameserverResponse q m mc = some (.answer [] (some soa)) := by
  have hns : nsTarget soa = none := by
    unfold nsTarget; simp [hsoa, RT_SOA, RT_NS]
  have hg : getBetterNsNames [soa] q.name mc = none := by
    simp [getBetterNsNames, hns]
  have hsoa' : getNxdomainNodataSoa q m mc = some soa := by
    unfold getNxdomainNodataSoa
    have hrc' : (m.header.rcode == RCODE_NAMEERROR || m.header.rcode == RCODE_NOERROR) = true := by
      rcases hrc with h | h <;> simp [h]
    have hlt : ¬ soa.name.labels.length < mc := by omega
    simp [hans, hauth, hsoa, hrc', hsub, hlt]
  unfold validateNameserverResponse
  rw [hans, uni_followCnames_nil, uni_getBetter_nil, hauth, hg]
  simp [hsoa']

/-- completeness for referrals: a single NS record for a zone that encloses the question name and
    is strictly deeper than the delegation in use, with glue `A` records for its host, is accepted
    whole: NS record plus glue, to be cached, and the host as the next candidate. -/
theorem uni_validate_referral (q : Question) (m : Message) (mc : Nat) (ns : RR) (zone host : Name)
    (hans : m.answers = []) (hauth : m.authority = [ns])
    (hnsn : ns.name = zone) (hnst : ns.rtype = RT_NS) (hnsf : ns.fields = [.name host])
    (hglue : ∀ g ∈ m.additional, (g.rtype = RT_A ∨ g.rtype = RT_AAAA) ∧ g.name = host)
    (hsub : q.name.isSubdomainOf zone = true) (hmc : mc < zone.labels.length) :
    validateNameserverResponse q m mc = some (.delegation ([ns] ++ m.additional) [host] zone) := by
  have hns : nsTarget ns = some host := by
    unfold nsTarget; simp [hnst, hnsf]
  have hg : getBetterNsNames [ns] q.name mc = some (zone, [host]) := by
    simp [getBetterNsNames, hns, hnsn, hsub, hmc]
  unfold validateNameserverResponse
  rw [hans, uni_followCnames_nil, uni_getBetter_nil, hauth, hg]
  simp only [List.filter_nil, List.nil_append]
  rw [uni_filter_all m.additional _ (fun g hgm => by
    rcases (hglue g hgm).1 with h1 | h1 <;> simp [h1, (hglue g hgm).2])]
  simp [hns, hnsn]

/-! ## The address of the candidate is known locally -/

/-- The LOCAL lookup of the candidate loop finds the address of `host`, and only touches the
    cache. -/
def UniAddrKnown (ctx : Ctx) (host : Name) (addr : Nat) : Prop :=
  ∃ r, (resolveLocal (RECURSION_LIMIT + 1) ctx (uniHostQ host)).2 = .ok (.done r) ∧
    getIp r.rrs host RT_A = some (.a addr) ∧
    UniSameStore ctx.cache (resolveLocal (RECURSION_LIMIT + 1) ctx (uniHostQ host)).1.cache

theorem uni_A_ne_wildcard : RT_A ≠ QTYPE_WILDCARD := by decide

/-- the root server's address comes from the root hints. -/
theorem uni_addr_hints {ctx : Ctx} {host : Name} {addr : Nat}
    (hh : RootHints ctx.zones host addr)
    (hl : ctx.stack.length ≠ RECURSION_LIMIT) (hd : uniHostQ host ∉ ctx.stack) :
    UniAddrKnown ctx host addr := by
  obtain ⟨z, ttl, hz, hs⟩ := hh.a
  have := uni_local_zone_answer RECURSION_LIMIT ctx (uniHostQ host) z _ hl hd hz hs uni_A_ne_wildcard (by simp)
  refine ⟨_, by rw [this], ?_, by rw [this]; exact uni_sameStore_refl _⟩
  show getIp [_] host RT_A = _
  exact uni_getIp _ host addr (by simp) (by intro rr hr; simp at hr; subst hr; exact ⟨rfl, rfl, rfl⟩)

/-- a server's address comes from the cache once its glue has been stored. -/
theorem uni_addr_cached {U : Universe} {V : List UEntry} {cn : List Name} {ctx : Ctx} (hU : HostsFunctional U)
    (E : UEntry) (hE : E ∈ U)
    (hc : UniSound U V cn ctx.cache ctx.now) (hne : tuplesAt ctx.cache E.host RT_A ≠ [])
    (hmiss : localMiss ctx.zones E.host RT_A = true)
    (hl : ctx.stack.length ≠ RECURSION_LIMIT) (hd : uniHostQ E.host ∉ ctx.stack) :
    UniAddrKnown ctx E.host E.addr := by
  obtain ⟨h1, h2⟩ := uni_cache_lookup hc hU E hE hne
  have := uni_local_hit RECURSION_LIMIT ctx (uniHostQ E.host) hl hd hmiss uni_A_ne_wildcard
    (by rw [Ctx.cacheGet_snd]; exact h1)
  refine ⟨_, by rw [this], ?_, ?_⟩
  · exact uni_getIp _ E.host E.addr (by rw [Ctx.cacheGet_snd]; exact h1)
      (by rw [Ctx.cacheGet_snd]; exact h2)
  · rw [this]
    simp only
    rw [Ctx.cacheGet_fst_cache]
    exact uni_sameStore_get _ _ _ _

/-- `resolve_hostname_to_ip` (local; IPv4 only, or IPv4 preferred) on a host whose `A` record is
    known: the `A` lookup comes first and succeeds. -/
theorem uni_tryTypes (cfg : RecCfg) (f : Nat) (st : St) (host : Name) (addr : Nat)
    (hmode : cfg.mode = .onlyV4 ∨ cfg.mode = .preferV4) (hlive : st.run.timedOut = false)
    (hk : UniAddrKnown st.ctx host addr) :
    tryTypes cfg (f + 1) st true host (rtypesFor cfg.mode) =
      (⟨(resolveLocal (RECURSION_LIMIT + 1) st.ctx (uniHostQ host)).1, st.run⟩, some (.a addr)) := by
  obtain ⟨r, h1, h2, _⟩ := hk
  have key : ∀ more, tryTypes cfg (f + 1) st true host (RT_A :: more) =
      (⟨(resolveLocal (RECURSION_LIMIT + 1) st.ctx (uniHostQ host)).1, st.run⟩, some (.a addr)) := by
    intro more
    rw [tryTypes]
    simp only [hlive, Bool.false_eq_true, if_false, if_true]
    have e : ({ name := host, qclass := CLASS_IN, qtype := RT_A } : Question) = uniHostQ host := rfl
    rw [e]
    generalize resolveLocal (RECURSION_LIMIT + 1) st.ctx (uniHostQ host) = p at h1 ⊢
    obtain ⟨c1, r1⟩ := p
    simp only at h1
    subst h1
    simp only [h2]
  rcases hmode with hm | hm <;> rw [hm] <;> simp only [rtypesFor] <;> exact key _

/-- the glue short-cut of the referral branch of the candidate loop. -/
def uni_glueFor (q : Question) (rrs : List RR) : Option RR :=
  if q.qtype == RT_A then getRecord rrs q.name RT_A
  else if q.qtype == RT_AAAA then getRecord rrs q.name RT_AAAA
  else none

/-- what the candidate loop does with the (validated) reply of the queried name server. -/
def uni_afterReply (cfg : RecCfg) (fuel : Nat) (st2 : St) (q : Question) (combined : List RR) :
    Option NameserverResponse → St × Except ResolutionError ResolvedRecord
  | some (.answer rrs soaRR) =>
    (⟨st2.ctx.cacheInsertAll rrs, st2.run⟩, .ok (.nonAuthoritative (prioritisingMerge combined rrs) soaRR))
  | some (.delegation rrs hostnames name) =>
    match uni_glueFor q rrs with
    | some rr => (⟨st2.ctx.cacheInsertAll rrs, st2.run⟩, .ok (.nonAuthoritative (prioritisingMerge combined [rr]) none))
    | none =>
      candidateLoop cfg fuel ⟨st2.ctx.cacheInsertAll rrs, st2.run⟩ q combined name.labels.length
        (cfg.hostOrder hostnames) [] true
  | some (.cname rrs cname) =>
    resolveCombined cfg fuel ⟨st2.ctx.cacheInsertAll rrs, st2.run⟩ (prioritisingMerge combined rrs)
      { name := cname, qclass := q.qclass, qtype := q.qtype }
  | none => (st2, .error (.deadEnd q))

/-- One iteration of the candidate loop with the single candidate `E.host` whose address is known
    locally and whose server answers in time with a reply `m` matching the request: the loop goes
    on with the filter's verdict on `m`, one exchange logged, the server's delay on the clock. -/
theorem uni_loop_query (cfg : RecCfg) (f : Nat) (st : St) (q : Question) (mc : Nat) (E : UEntry)
    (m : Message) (hmode : cfg.mode = .onlyV4 ∨ cfg.mode = .preferV4) (hlive : st.run.timedOut = false)
    (hk : UniAddrKnown st.ctx E.host E.addr)
    (ho : cfg.oracle { addr := .a E.addr, port := cfg.port, tcp := false, question := q, recursionDesired := false } =
      { delayMs := E.delayMs, reply := some m })
    (hfit : udpFits q = true) (hd : E.delayMs < EXCHANGE_TIMEOUT_MS)
    (ht : st.run.elapsedMs + E.delayMs < RESOLVE_TIMEOUT_MS)
    (hm : responseMatchesRequest (requestFor q false) m = true) :
    candidateLoop cfg (f + 2) st q [] mc [E.host] [] true =
      uni_afterReply cfg (f + 1)
        ⟨(resolveLocal (RECURSION_LIMIT + 1) st.ctx (uniHostQ E.host)).1,
         { log := st.run.log ++ [E.exchange cfg.port q], elapsedMs := st.run.elapsedMs + E.delayMs,
           timedOut := false }⟩ q [] (validateNameserverResponse q m mc) := by
  rw [candidateLoop]
  simp only [hlive, Bool.false_eq_true, if_false, List.getLast?_singleton]
  rw [uni_tryTypes cfg f st E.host E.addr hmode hlive hk]
  simp only [hlive, Bool.false_eq_true, if_false]
  rw [uni_query cfg.oracle st.run (.a E.addr) cfg.port q E.delayMs m ho hfit hlive hd ht hm]
  simp only [Bool.false_eq_true, if_false, Option.bind_some]
  cases validateNameserverResponse q m mc with
  | none => rfl
  | some resp => cases resp <;> rfl

/-! ## The loop invariant along a delegation path -/

/-- the records of an answer are owned by the question name, of the asked type, of a known type
    and class. -/
def UniAnswerOK (q : Question) (rrs : List RR) : Prop :=
  ∀ rr ∈ rrs, rr.name = q.name ∧ rr.rtype = q.qtype ∧ rrIsUnknown rr = false

theorem uni_resolve_sub {z : Zone} {name : Name} {qtype : Nat} (h : (z.resolve name qtype).isSome = true) :
    name.isSubdomainOf z.apex = true := by
  unfold Zone.resolve Zone.relativeDomain at h
  by_cases hs : name.isSubdomainOf z.apex = true
  · exact hs
  · simp [hs] at h

theorem uni_path_sub {U : Universe} {q : Question} {Y Z : UEntry} {rest : List UEntry}
    (hp : DelegPath U q Y rest Z) (hz : (Z.zone.resolve q.name q.qtype).isSome = true) :
    q.name.isSubdomainOf Y.apex = true := by
  cases hp with
  | here _ _ => exact uni_resolve_sub hz
  | down _ C _ rest ttl _ _ hres _ _ _ => exact uni_resolve_sub (by rw [hres]; rfl)

theorem uni_path_mem {U : Universe} {q : Question} {Y Z : UEntry} {rest : List UEntry}
    (hp : DelegPath U q Y rest Z) : Y ∈ U ∧ ∀ C ∈ rest, C ∈ U := by
  induction hp with
  | here Z hZ => exact ⟨hZ, by simp⟩
  | down Y C Z rest ttl hY hC _ _ _ _ ih =>
    refine ⟨hY, ?_⟩
    intro D hD
    rcases List.mem_cons.mp hD with rfl | hD
    · exact hC
    · exact ih.2 D hD

theorem uni_path_end_mem {U : Universe} {q : Question} {Y Z : UEntry} {rest : List UEntry}
    (hp : DelegPath U q Y rest Z) : Z ∈ U := by
  induction hp with
  | here _ h1 => exact h1
  | down _ _ _ _ _ _ _ _ _ _ _ ih => exact ih

theorem uni_soaRR_shape {z : Zone} {soa : RR} (h : z.soaRR = some soa) : soa.rtype = RT_SOA ∧ soa.name = z.apex := by
  unfold Zone.soaRR at h
  cases hs : z.soa with
  | none => rw [hs] at h; cases h
  | some s => rw [hs] at h; cases h; exact ⟨rfl, rfl⟩

/-- What the last server of the path replies, and what the filter makes of it: the expected
    result. -/
theorem uni_terminal {U : Universe} (Z : UEntry) (q : Question) (res : ResolvedRecord) (mc : Nat)
    (hq : lookupNat queryTypeFromU16 q.qtype = none) (hexp : expectedAt Z q = some res)
    (hans : ∀ rrs, Z.zone.resolve q.name q.qtype = some (.answer rrs) → UniAnswerOK q rrs)
    (hmc : mc ≤ Z.apex.labels.length) :
    ∃ m rrs soa, authReply U Z q false = some m ∧
      validateNameserverResponse q m mc = some (.answer rrs soa) ∧ res = .nonAuthoritative rrs soa := by
  have hsub : ∀ {x}, Z.zone.resolve q.name q.qtype = some x → q.name.isSubdomainOf Z.zone.apex = true := by
    intro x hx; exact uni_resolve_sub (by rw [hx]; rfl)
  unfold expectedAt at hexp
  unfold authReply
  split at hexp
  · rename_i rrs soa hres hsoa
    obtain ⟨hs1, hs2⟩ := uni_soaRR_shape hsoa
    rw [hres, hsoa]
    simp only
    split at hexp
    · rename_i hemp
      rw [if_pos hemp]
      cases hexp
      refine ⟨_, [], some soa, rfl, ?_, rfl⟩
      exact uni_validate_nodata q _ mc soa rfl rfl hs1 (Or.inl rfl) (by rw [hs2]; exact hsub hres)
        (by rw [hs2]; exact hmc)
    · rename_i hemp
      rw [if_neg hemp]
      cases hexp
      refine ⟨_, rrs, none, rfl, ?_, rfl⟩
      exact uni_validate_answer q _ mc hq (by simpa using hemp) (hans rrs hres)
  · rename_i soa hres hsoa
    obtain ⟨hs1, hs2⟩ := uni_soaRR_shape hsoa
    rw [hres, hsoa]
    cases hexp
    refine ⟨_, [], some soa, rfl, ?_, rfl⟩
    exact uni_validate_nodata q _ mc soa rfl rfl hs1 (Or.inr rfl) (by rw [hs2]; exact hsub hres)
      (by rw [hs2]; exact hmc)
  · cases hexp

theorem uni_nsTarget_nsRR (C : UEntry) (ttl : Nat) : nsTarget (C.nsRR ttl) = some C.host := by
  simp [nsTarget, UEntry.nsRR]

theorem uni_mem_glueRRs {E : UEntry} {g : RR} :
    g ∈ E.glueRRs ↔ g = E.glueRR ∨ ∃ g6, E.addr6 = some g6 ∧ g = E.glue6RR g6 := by
  unfold UEntry.glueRRs
  cases h6 : E.addr6 with
  | none => simp
  | some g6 => simp

theorem uni_mem_glue {U : Universe} {C : UEntry} {ttl : Nat} {g : RR} :
    g ∈ uniGlue U [C.nsRR ttl] ↔ ∃ E ∈ U, E.host = C.host ∧ g ∈ E.glueRRs := by
  unfold uniGlue
  simp only [List.filterMap_cons, uni_nsTarget_nsRR, List.filterMap_nil, List.mem_flatMap, List.mem_filter,
    List.contains_cons, List.contains_nil, Bool.or_false, beq_iff_eq]
  constructor
  · rintro ⟨E, ⟨hE, hh⟩, hg⟩; exact ⟨E, hE, hh, hg⟩
  · rintro ⟨E, hE, hh, hg⟩; exact ⟨E, ⟨hE, hh⟩, hg⟩

/-- the referral a server on the path gives, as filtered: NS record plus glue, host, zone; no glue
    short-cut applies; the records may be cached; the next server's glue is among them. -/
theorem uni_referral {U : Universe} (Y C : UEntry) (q : Question) (ttl : Nat)
    (hres : Y.zone.resolve q.name q.qtype = some (.delegation [C.nsRR ttl]))
    (hdepth : Y.apex.labels.length < C.apex.labels.length)
    (hsub : q.name.isSubdomainOf C.apex = true) (hC : C ∈ U)
    (hqa : isAddrQ q → q.name ≠ C.host) :
    ∃ m, authReply U Y q false = some m ∧
      validateNameserverResponse q m Y.apex.labels.length =
        some (.delegation ([C.nsRR ttl] ++ uniGlue U [C.nsRR ttl]) [C.host] C.apex) ∧
      uni_glueFor q ([C.nsRR ttl] ++ uniGlue U [C.nsRR ttl]) = none ∧
      (∀ V cn, C ∈ V → ∀ rr ∈ [C.nsRR ttl] ++ uniGlue U [C.nsRR ttl], UniRROK U V cn rr) ∧
      C.glueRR ∈ [C.nsRR ttl] ++ uniGlue U [C.nsRR ttl] := by
  have hglue : ∀ g ∈ uniGlue U [C.nsRR ttl], (g.rtype = RT_A ∨ g.rtype = RT_AAAA) ∧ g.name = C.host := by
    intro g hg
    obtain ⟨E, _, hh, hgE⟩ := uni_mem_glue.mp hg
    rcases uni_mem_glueRRs.mp hgE with rfl | ⟨g6, _, rfl⟩
    · exact ⟨Or.inl rfl, hh⟩
    · exact ⟨Or.inr rfl, hh⟩
  refine ⟨_, by unfold authReply; rw [hres], ?_, ?_, ?_, ?_⟩
  · exact uni_validate_referral q _ _ (C.nsRR ttl) C.apex C.host rfl rfl rfl rfl rfl hglue hsub hdepth
  · have hnone : ∀ t, (t = RT_A ∨ t = RT_AAAA → q.name ≠ C.host) → t ≠ RT_NS →
        getRecord ([C.nsRR ttl] ++ uniGlue U [C.nsRR ttl]) q.name t = none := by
      intro t ht hns
      unfold getRecord
      rw [List.find?_eq_none]
      intro rr hrr
      rcases List.mem_append.mp hrr with h1 | h1
      · simp only [List.mem_singleton] at h1
        subst h1
        simp [UEntry.nsRR, Ne.symm hns]
      · obtain ⟨h2, h3⟩ := hglue rr h1
        by_cases hta : t = RT_A ∨ t = RT_AAAA
        · have := ht hta
          simp [h3, Ne.symm this]
        · have hne : rr.rtype ≠ t := by
            intro he
            rcases h2 with h2 | h2
            · exact hta (Or.inl (by rw [← he, h2]))
            · exact hta (Or.inr (by rw [← he, h2]))
          simp [hne]
    unfold uni_glueFor
    by_cases h1 : q.qtype = RT_A
    · simp only [h1, beq_self_eq_true, if_true]
      exact hnone RT_A (fun _ => hqa (Or.inl h1)) (by decide)
    · have h1' : (q.qtype == RT_A) = false := by simp [h1]
      simp only [h1', Bool.false_eq_true, if_false]
      split
      · rename_i h6
        exact hnone RT_AAAA (fun _ => hqa (Or.inr (by simpa using h6))) (by decide)
      · rfl
  · intro V cn hCV rr hrr
    rcases List.mem_append.mp hrr with h1 | h1
    · simp only [List.mem_singleton] at h1
      subst h1
      exact Or.inr (Or.inl ⟨rfl, C, hCV, rfl, rfl⟩)
    · obtain ⟨E, hE, _, hgE⟩ := uni_mem_glue.mp h1
      rcases uni_mem_glueRRs.mp hgE with rfl | ⟨g6, _, rfl⟩
      · exact Or.inl ⟨rfl, E, hE, rfl, rfl⟩
      · exact Or.inr (Or.inr (Or.inr ⟨rfl, E, hE, rfl⟩))
  · exact List.mem_append_right _ (uni_mem_glue.mpr ⟨C, hC, rfl, uni_mem_glueRRs.mpr (Or.inl rfl)⟩)

/-- the run after one UDP exchange with each of the servers `es`, in order. -/
def uniRun (run : Run) (port : Nat) (q : Question) (es : List UEntry) : Run :=
  { log := run.log ++ es.map (·.exchange port q), elapsedMs := run.elapsedMs + totalDelay es, timedOut := false }

theorem uni_totalDelay_cons (E : UEntry) (es : List UEntry) : totalDelay (E :: es) = E.delayMs + totalDelay es := by
  simp [totalDelay]

theorem uni_expected_isSome {Z : UEntry} {q : Question} {res : ResolvedRecord} (h : expectedAt Z q = some res) :
    (Z.zone.resolve q.name q.qtype).isSome = true := by
  unfold expectedAt at h
  split at h
  · rename_i hres _; rw [hres]; rfl
  · rename_i hres _; rw [hres]; rfl
  · cases h

theorem uni_hostQ_notin {q : Question} {C : UEntry} (hqa : isAddrQ q → q.name ≠ C.host) :
    uniHostQ C.host ∉ [q] := by
  simp only [List.mem_singleton]
  intro he
  have h1 : q.qtype = RT_A := by rw [← he]; rfl
  exact hqa (Or.inl h1) (by rw [← he]; rfl)

/-- THE DESCENT.  The candidate loop, started with the host of a server `Y` of a delegation path
    for `q` as its only candidate (`match_count` = the depth of `Y`'s zone), `Y`'s address being
    available to the local lookup, follows the referrals down to the last server `Z` of the path:
    one exchange per server passed, each referral accepted, its NS record and glue cached; it
    arrives at the iteration that has `Z`'s host as its only candidate, `Z`'s address available. -/
theorem uni_descend {U : Universe} {cfg : RecCfg} (h : UniOK U cfg) (q : Question) (hq : QuestionOK q)
    {Y Z : UEntry} {rest : List UEntry} (hp : DelegPath U q Y rest Z)
    (hz : (Z.zone.resolve q.name q.qtype).isSome = true) :
    ∀ (f : Nat) (st : St) (V : List UEntry) (cn : List Name), st.run.timedOut = false →
      st.run.elapsedMs + totalDelay (Y :: rest) < RESOLVE_TIMEOUT_MS →
      st.ctx.stack.length ≠ RECURSION_LIMIT →
      (∀ C ∈ rest, uniHostQ C.host ∉ st.ctx.stack) →
      (isAddrQ q → ∀ C ∈ rest, q.name ≠ C.host) →
      (∀ C ∈ rest, localMiss st.ctx.zones C.host RT_A = true) →
      UniCache U V cn st.ctx.cache st.ctx.now →
      UniAddrKnown st.ctx Y.host Y.addr →
      ∃ stZ, candidateLoop cfg (rest.length + f + 2) st q [] Y.apex.labels.length [Y.host] [] true =
          candidateLoop cfg (f + 2) stZ q [] Z.apex.labels.length [Z.host] [] true ∧
        stZ.run.timedOut = false ∧
        stZ.run.elapsedMs + Z.delayMs = st.run.elapsedMs + totalDelay (Y :: rest) ∧
        stZ.run.log ++ [Z.exchange cfg.port q] = st.run.log ++ (Y :: rest).map (·.exchange cfg.port q) ∧
        stZ.ctx.stack = st.ctx.stack ∧ stZ.ctx.zones = st.ctx.zones ∧ stZ.ctx.now = st.ctx.now ∧
        UniCache U (V ++ rest) cn stZ.ctx.cache stZ.ctx.now ∧
        UniAddrKnown stZ.ctx Z.host Z.addr := by
  have hfit : udpFits q = true := hq.fits
  induction hp with
  | here Z hZ =>
    intro f st V cn hlive _ _ _ _ _ hcache hk
    refine ⟨st, by simp, hlive, by simp [totalDelay], by simp, rfl, rfl, rfl, by simpa using hcache, hk⟩
  | down Y C Z rest ttl hY hC hres httl hdepth hpath ih =>
    intro f st V cn hlive ht hlim hnotin hqa hmiss hcache hk
    have hsub := uni_path_sub hpath hz
    obtain ⟨m, hm, hv, hg, hrr, hmem⟩ := uni_referral (U := U) Y C q ttl hres hdepth hsub hC
      (fun h1 => hqa h1 C List.mem_cons_self)
    have ho := h.faithful Y hY q false false
    rw [hm] at ho
    rw [uni_totalDelay_cons] at ht
    have hfuel : (C :: rest).length + f + 2 = (rest.length + f + 1) + 2 := by
      simp only [List.length_cons]; omega
    rw [hfuel, uni_loop_query cfg (rest.length + f + 1) st q _ Y m h.mode hlive hk ho hfit (h.delay Y hY) (by omega)
      (uni_authReply_matches hm), hv]
    simp only [uni_afterReply, hg, h.order]
    obtain ⟨r0, _, _, hsame⟩ := hk
    have hst1 := resolveLocal_stack (RECURSION_LIMIT + 1) st.ctx (uniHostQ Y.host)
    have hzs1 := resolveLocal_zones (RECURSION_LIMIT + 1) st.ctx (uniHostQ Y.host)
    have hnow1 := resolveLocal_now (RECURSION_LIMIT + 1) st.ctx (uniHostQ Y.host)
    generalize hc1 : (resolveLocal (RECURSION_LIMIT + 1) st.ctx (uniHostQ Y.host)).1 = ctx1 at *
    have hcache1 : UniCache U V cn ctx1.cache ctx1.now := by rw [hnow1]; exact uni_cache_same hcache hsame
    have hCV : C ∈ V ++ [C] := by simp
    have hsound3 : UniSound U (V ++ [C]) cn
        (sharedInsertAll ctx1.cache ([C.nsRR ttl] ++ uniGlue U [C.nsRR ttl]) ctx1.now) ctx1.now :=
      uni_sound_insertAll _ (uni_sound_mono (fun D hD => List.mem_append_left _ hD) (fun _ hn => hn) hcache1.1)
        (hrr (V ++ [C]) cn hCV)
    have hglue3 : tuplesAt (sharedInsertAll ctx1.cache ([C.nsRR ttl] ++ uniGlue U [C.nsRR ttl]) ctx1.now)
        C.host RT_A ≠ [] :=
      uni_tuples_insertAll_ne _ _ _ _ hcache1.1.1 (Or.inr ⟨C.glueRR, hmem, h.glueTtl C hC, rfl, rfl⟩)
    have hns3 : tuplesAt (sharedInsertAll ctx1.cache ([C.nsRR ttl] ++ uniGlue U [C.nsRR ttl]) ctx1.now)
        C.apex RT_NS ≠ [] :=
      uni_tuples_insertAll_ne _ _ _ _ hcache1.1.1
        (Or.inr ⟨C.nsRR ttl, List.mem_append_left _ List.mem_cons_self, httl, rfl, rfl⟩)
    have hcache3 : UniCache U (V ++ [C]) cn
        (sharedInsertAll ctx1.cache ([C.nsRR ttl] ++ uniGlue U [C.nsRR ttl]) ctx1.now) ctx1.now := by
      refine ⟨hsound3, ?_⟩
      intro D hD
      rcases List.mem_append.mp hD with hD | hD
      · exact uni_present_insertAll hcache1.1.1 hcache1.2 _ _ D hD
      · simp only [List.mem_singleton] at hD
        subst hD
        exact ⟨hglue3, hns3⟩
    have hk3 : UniAddrKnown (ctx1.cacheInsertAll ([C.nsRR ttl] ++ uniGlue U [C.nsRR ttl])) C.host C.addr := by
      apply uni_addr_cached (V := V ++ [C]) (cn := cn) h.hosts C hC
      · exact hsound3
      · exact hglue3
      · show localMiss ctx1.zones C.host RT_A = true
        rw [hzs1]; exact hmiss C List.mem_cons_self
      · show ctx1.stack.length ≠ RECURSION_LIMIT
        rw [hst1]; exact hlim
      · show uniHostQ C.host ∉ ctx1.stack
        rw [hst1]; exact hnotin C List.mem_cons_self
    obtain ⟨stZ, h1, h2, h3, h4, h5, h6, h7, h8, h9⟩ := ih hz f
      ⟨ctx1.cacheInsertAll ([C.nsRR ttl] ++ uniGlue U [C.nsRR ttl]),
        { log := st.run.log ++ [Y.exchange cfg.port q], elapsedMs := st.run.elapsedMs + Y.delayMs,
          timedOut := false }⟩ (V ++ [C]) cn
      rfl (by simp only; omega)
      (by show ctx1.stack.length ≠ RECURSION_LIMIT; rw [hst1]; exact hlim)
      (fun D hD => by show uniHostQ D.host ∉ ctx1.stack; rw [hst1]; exact hnotin D (List.mem_cons_of_mem _ hD))
      (fun h1 D hD => hqa h1 D (List.mem_cons_of_mem _ hD))
      (fun D hD => by show localMiss ctx1.zones D.host RT_A = true; rw [hzs1]; exact hmiss D (List.mem_cons_of_mem _ hD))
      hcache3 hk3
    refine ⟨stZ, h1, h2, ?_, ?_, ?_, ?_, ?_, ?_, h9⟩
    · rw [h3]; simp only [uni_totalDelay_cons]; omega
    · rw [h4]; simp
    · rw [h5]; exact hst1
    · rw [h6]; exact hzs1
    · rw [h7]; exact hnow1
    · have : V ++ C :: rest = (V ++ [C]) ++ rest := by simp
      rw [this]; exact h8

/-- THE LOOP INVARIANT.  … and ends with the expected result of the last server. -/
theorem uni_loop {U : Universe} {cfg : RecCfg} (h : UniOK U cfg) (q : Question) (hq : QuestionOK q)
    {Y Z : UEntry} {rest : List UEntry} (hp : DelegPath U q Y rest Z) (res : ResolvedRecord)
    (hexp : expectedAt Z q = some res)
    (hans : ∀ rrs, Z.zone.resolve q.name q.qtype = some (.answer rrs) → UniAnswerOK q rrs) :
    ∀ (f : Nat) (st : St) (V : List UEntry) (cn : List Name), rest.length ≤ f → st.run.timedOut = false →
      st.run.elapsedMs + totalDelay (Y :: rest) < RESOLVE_TIMEOUT_MS →
      st.ctx.stack.length ≠ RECURSION_LIMIT →
      (∀ C ∈ rest, uniHostQ C.host ∉ st.ctx.stack) →
      (isAddrQ q → ∀ C ∈ rest, q.name ≠ C.host) →
      (∀ C ∈ rest, localMiss st.ctx.zones C.host RT_A = true) →
      UniCache U V cn st.ctx.cache st.ctx.now →
      UniAddrKnown st.ctx Y.host Y.addr →
      ∃ st', candidateLoop cfg (f + 2) st q [] Y.apex.labels.length [Y.host] [] true = (st', .ok res) ∧
        st'.run = uniRun st.run cfg.port q (Y :: rest) ∧
        st'.ctx.stack = st.ctx.stack ∧ st'.ctx.zones = st.ctx.zones ∧ st'.ctx.now = st.ctx.now := by
  intro f st V cn hf hlive ht hlim hnotin hqa hmiss hcache hk
  obtain ⟨stZ, h1, h2, h3, h4, h5, h6, h7, _, h9⟩ := uni_descend h q hq hp (uni_expected_isSome hexp)
    (f - rest.length) st V cn hlive ht hlim hnotin hqa hmiss hcache hk
  have hfu : rest.length + (f - rest.length) + 2 = f + 2 := by omega
  rw [hfu] at h1
  have hZ := uni_path_end_mem hp
  obtain ⟨m, rrs, soa, hm, hv, hr⟩ :=
    uni_terminal (U := U) Z q res Z.apex.labels.length hq.qtype hexp hans (Nat.le_refl _)
  have ho := h.faithful Z hZ q false false
  rw [hm] at ho
  rw [h1, uni_loop_query cfg (f - rest.length) stZ q _ Z m h.mode h2 h9 ho hq.fits (h.delay Z hZ)
    (by omega) (uni_authReply_matches hm), hv]
  subst hr
  simp only [uni_afterReply, prioritisingMerge_nil]
  refine ⟨_, rfl, ?_, ?_, ?_, ?_⟩
  · simp only [uniRun, h3, h4]
  · simp only [Ctx.cacheInsertAll]; rw [resolveLocal_stack]; exact h5
  · simp only [Ctx.cacheInsertAll]; rw [resolveLocal_zones]; exact h6
  · simp only [Ctx.cacheInsertAll]; rw [resolveLocal_now]; exact h7

/-! ## From the start context to the root server -/

theorem uni_fromLabels_root : Name.fromLabels [[]] = some Name.root := by decide

/-- In the start context (root hints, empty cache) the walk up from the question name finds no
    name servers below the root and ends with the root hints. -/
theorem uni_candidates (st : St) (d : Nat) (hc : st.ctx.cache = PCache.new d) (rootHost : Name) (addr : Nat)
    (hh : RootHints st.ctx.zones rootHost addr) (hl : st.ctx.stack.length ≠ RECURSION_LIMIT)
    (hd : uniNsQ Name.root ∉ st.ctx.stack) :
    ∀ (pre : List Label), candMiss st.ctx.zones (pre ++ [[]]) = true →
      candidateNameservers st (pre ++ [[]]) = (st, some ⟨[rootHost], Name.root⟩) := by
  intro pre
  induction pre with
  | nil =>
    intro _
    obtain ⟨z, ttl, hz, hs⟩ := hh.ns
    have := uni_local_zone_answer RECURSION_LIMIT st.ctx (uniNsQ Name.root) z _ hl hd hz hs (by decide) (by simp)
    simp only [List.nil_append]
    rw [candidateNameservers, uni_fromLabels_root]
    simp only
    have e : ({ name := Name.root, qtype := RT_NS, qclass := CLASS_IN } : Question) = uniNsQ Name.root := rfl
    rw [e, this]
    simp [ResolvedRecord.rrs, nsTarget]
  | cons l pre ih =>
    intro hcm
    simp only [List.cons_append] at hcm ⊢
    unfold candMiss at hcm
    have hne : (pre ++ [[]]).isEmpty = false := by cases pre <;> rfl
    simp only [hne, Bool.false_or, Bool.and_eq_true] at hcm
    rw [candidateNameservers]
    cases hn : Name.fromLabels (l :: (pre ++ [[]])) with
    | none => simp only; exact ih hcm.2
    | some name =>
      rw [hn] at hcm
      obtain ⟨e, he⟩ := uni_local_empty RECURSION_LIMIT st.ctx (uniNsQ name) d hc hcm.1
      simp only
      have e : ({ name := name, qtype := RT_NS, qclass := CLASS_IN } : Question) = uniNsQ name := rfl
      rw [e, he]
      simp only [List.isEmpty_nil, Bool.not_true, Bool.false_eq_true, if_false]
      exact ih hcm.2

/-- a question the hints answer is not missed. -/
theorem uni_miss_ne_hints {zs : Zones} {host : Name} {addr : Nat} (hh : RootHints zs host addr) (q : Question)
    (hq : localMiss zs q.name q.qtype = true) : q ≠ uniNsQ Name.root ∧ q ≠ uniHostQ host := by
  constructor
  · intro he
    obtain ⟨z, ttl, hz, _⟩ := hh.ns
    subst he
    unfold localMiss at hq
    simp only [uniNsQ] at hq
    rw [hz] at hq
    simp at hq
  · intro he
    obtain ⟨z, ttl, hz, _⟩ := hh.a
    subst he
    unfold localMiss at hq
    simp only [uniHostQ] at hq
    rw [hz] at hq
    simp at hq

theorem uni_labels_root {n : Name} (h : n.isSubdomainOf Name.root = true) : ∃ pre, n.labels = pre ++ [[]] := by
  unfold Name.isSubdomainOf Name.root at h
  simp only [List.isSuffixOf_iff_suffix] at h
  obtain ⟨pre, hp⟩ := h
  exact ⟨pre, hp.symm⟩

/-- THE MACHINE on a delegation path from the root: starting from root hints and an empty cache,
    `resolveRec` (with `f + 3` units of fuel for a path of at most `f` referrals) returns the
    expected result of the last server, after one exchange with each server of the path. -/
theorem uni_resolveRec {U : Universe} {cfg : RecCfg} (h : UniOK U cfg) (q : Question) (hq : QuestionOK q)
    {R Z : UEntry} {rest : List UEntry} (hp : DelegPath U q R rest Z) (res : ResolvedRecord)
    (hexp : expectedAt Z q = some res)
    (hans : ∀ rrs, Z.zone.resolve q.name q.qtype = some (.answer rrs) → UniAnswerOK q rrs)
    (zs : Zones) (d now : Nat) (hroot : R.apex = Name.root) (hh : RootHints zs R.host R.addr)
    (hqmiss : localMiss zs q.name q.qtype = true) (hcand : candMiss zs q.name.labels = true)
    (hqa : isAddrQ q → ∀ C ∈ rest, q.name ≠ C.host)
    (hmiss : ∀ C ∈ rest, localMiss zs C.host RT_A = true)
    (ht : totalDelay (R :: rest) < RESOLVE_TIMEOUT_MS) (f : Nat) (hf : rest.length ≤ f) :
    ∃ st', resolveRec cfg (f + 3) ⟨startCtx zs d now, Run.empty⟩ q = (st', .ok res) ∧
      st'.run = uniRun Run.empty cfg.port q (R :: rest) ∧ st'.ctx.stack = [] := by
  obtain ⟨hne1, hne2⟩ := uni_miss_ne_hints hh q hqmiss
  have hsubR := uni_path_sub hp (uni_expected_isSome hexp)
  rw [hroot] at hsubR
  obtain ⟨pre, hpre⟩ := uni_labels_root hsubR
  obtain ⟨e, hloc⟩ := uni_local_empty RECURSION_LIMIT (startCtx zs d now) q d rfl hqmiss
  -- the state after the push
  have hc2 : ((startCtx zs d now).push q).cache = PCache.new d := rfl
  have hcands := uni_candidates ⟨(startCtx zs d now).push q, Run.empty⟩ d hc2 R.host R.addr hh
    (by simp [Ctx.push, startCtx, RECURSION_LIMIT])
    (by simp only [Ctx.push, startCtx, List.nil_append, List.mem_singleton]; exact fun he => hne1 he.symm)
    pre (by rw [← hpre]; exact hcand)
  have hk : UniAddrKnown ((startCtx zs d now).push q) R.host R.addr :=
    uni_addr_hints hh (by simp [Ctx.push, startCtx, RECURSION_LIMIT])
      (by simp only [Ctx.push, startCtx, List.nil_append, List.mem_singleton]; exact fun he => hne2 he.symm)
  obtain ⟨st', h1, h2, h3, _, _⟩ := uni_loop h q hq hp res hexp hans f
    ⟨(startCtx zs d now).push q, Run.empty⟩ [] [] hf rfl (by simpa [Run.empty] using ht)
    (by simp [Ctx.push, startCtx, RECURSION_LIMIT])
    (fun C hC => uni_hostQ_notin (fun h1 => hqa h1 C hC)) hqa hmiss (uni_cache_new U d now) hk
  have h3 : st'.ctx.stack = [q] := h3
  refine ⟨⟨st'.ctx.pop, st'.run⟩, ?_, h2, by simp [Ctx.pop, h3]⟩
  have hlim : (startCtx zs d now).atRecursionLimit = false := by
    simp [Ctx.atRecursionLimit, startCtx, RECURSION_LIMIT]
  have hdup : (startCtx zs d now).isDuplicate q = false := by simp [Ctx.isDuplicate, startCtx]
  have hrun : Run.empty.timedOut = false := rfl
  rw [← hpre] at hcands
  have hmc : Name.root.labels.length = R.apex.labels.length := by rw [hroot]
  rw [resolveRec]
  simp only [hrun, hlim, hdup, Bool.false_eq_true, if_false, hloc, hcands, Nameservers.matchCount, hmc, h1]

/-- … and under the 60 s wrapper, with the fuel `resolve_recursive` is run with. -/
theorem uni_resolveRecursive {U : Universe} {cfg : RecCfg} (h : UniOK U cfg) (q : Question) (hq : QuestionOK q)
    {R Z : UEntry} {rest : List UEntry} (hp : DelegPath U q R rest Z) (res : ResolvedRecord)
    (hexp : expectedAt Z q = some res)
    (hans : ∀ rrs, Z.zone.resolve q.name q.qtype = some (.answer rrs) → UniAnswerOK q rrs)
    (zs : Zones) (d now : Nat) (hroot : R.apex = Name.root) (hh : RootHints zs R.host R.addr)
    (hqmiss : localMiss zs q.name q.qtype = true) (hcand : candMiss zs q.name.labels = true)
    (hqa : isAddrQ q → ∀ C ∈ rest, q.name ≠ C.host)
    (hmiss : ∀ C ∈ rest, localMiss zs C.host RT_A = true)
    (ht : totalDelay (R :: rest) < RESOLVE_TIMEOUT_MS) (hf : rest.length + 3 ≤ REC_FUEL) :
    ∃ st', resolveRecursive cfg (startCtx zs d now) q = (st', .ok res) ∧
      st'.run = uniRun Run.empty cfg.port q (R :: rest) ∧ st'.ctx.stack = [] := by
  obtain ⟨st', h1, h2, h3⟩ := uni_resolveRec h q hq hp res hexp hans zs d now hroot hh hqmiss hcand hqa hmiss ht
    (REC_FUEL - 3) (by omega)
  have hfu : REC_FUEL - 3 + 3 = REC_FUEL := by omega
  rw [hfu] at h1
  refine ⟨st', ?_, h2, h3⟩
  unfold resolveRecursive
  rw [h1]
  simp only [h2, uniRun, Bool.false_eq_true, if_false]

/-! ## Aliases crossing zones -/

theorem uni_lookupNat_CNAME : lookupNat queryTypeFromU16 RT_CNAME = none := by decide

/-- a question the local zones miss and about which the (warm) cache holds nothing — no record of
    the type, no alias: a dead end; the cache is only touched. -/
theorem uni_local_warm_miss (n : Nat) (ctx : Ctx) (q : Question)
    (hl : ctx.stack.length ≠ RECURSION_LIMIT) (hd : q ∉ ctx.stack)
    (h : localMiss ctx.zones q.name q.qtype = true) (hq : lookupNat queryTypeFromU16 q.qtype = none)
    (h1 : tuplesAt ctx.cache q.name q.qtype = []) (h2 : tuplesAt ctx.cache q.name RT_CNAME = []) :
    ∃ ctx', resolveLocal (n + 1) ctx q = (ctx', .error (.deadEnd q)) ∧ ctx'.stack = ctx.stack ∧
      ctx'.zones = ctx.zones ∧ ctx'.now = ctx.now ∧ UniSameStore ctx.cache ctx'.cache := by
  have e1 : (ctx.cacheGet q.name q.qtype).2 = [] := by
    rw [Ctx.cacheGet_snd]; exact uni_cacheGet_empty _ _ _ _ hq h1
  have hs1 : UniSameStore ctx.cache (ctx.cacheGet q.name q.qtype).1.cache := by
    rw [Ctx.cacheGet_fst_cache]; exact uni_sameStore_get _ _ _ _
  have e2 : ((ctx.cacheGet q.name q.qtype).1.cacheGet q.name CNAME_QTYPE).2 = [] := by
    rw [Ctx.cacheGet_snd]
    exact uni_cacheGet_empty _ _ _ _ uni_lookupNat_CNAME (by rw [hs1.2]; exact h2)
  have hs2 : UniSameStore ctx.cache ((ctx.cacheGet q.name q.qtype).1.cacheGet q.name CNAME_QTYPE).1.cache := by
    rw [Ctx.cacheGet_fst_cache]; exact uni_sameStore_trans hs1 (uni_sameStore_get _ _ _ _)
  rw [resolveLocal_succ]
  unfold localStep
  rw [Ctx.not_atLimit hl, Ctx.not_duplicate hd]
  simp only [Bool.false_eq_true, if_false]
  rw [uni_zonePart_miss _ _ _ h]
  simp only [cacheStage, cachePart, e1, List.isEmpty_nil, Bool.true_and]
  split
  · simp only [cacheCnamePart, e2, finishPart, prioritisingMerge, List.filter_nil, List.append_nil,
      List.isEmpty_nil, if_true]
    exact ⟨_, rfl, by simp [Ctx.cacheGet], by simp [Ctx.cacheGet], by simp [Ctx.cacheGet], hs2⟩
  · simp only [finishPart, prioritisingMerge, List.filter_nil, List.append_nil, List.isEmpty_nil, if_true]
    exact ⟨_, rfl, by simp [Ctx.cacheGet], by simp [Ctx.cacheGet], by simp [Ctx.cacheGet], hs1⟩

/-- completeness of the filter for an alias: the single CNAME record of the question name, for a
    question of another (ordinary) type, is accepted as an alias to follow. -/
theorem uni_validate_cname (q : Question) (m : Message) (mc : Nat) (rr : RR) (tn : Name)
    (hq : lookupNat queryTypeFromU16 q.qtype = none) (hcn : q.qtype ≠ RT_CNAME)
    (hans : m.answers = [rr]) (hn : rr.name = q.name) (ht : rr.rtype = RT_CNAME) (hf : rr.fields = [.name tn])
    (hk : rrIsUnknown rr = false) (hne : tn ≠ q.name) :
    validateNameserverResponse q m mc = some (.cname [rr] tn) := by
  have hct : cnameTarget rr = some tn := by unfold cnameTarget; simp [ht, hf]
  have hmatch : rtypeMatches RT_CNAME q.qtype = false := by
    unfold rtypeMatches
    rw [hq]
    simp [Ne.symm hcn]
  have hb : (q.qtype == RT_CNAME) = false := by simp [hcn]
  have hne' : ¬ q.name = tn := fun h => hne h.symm
  have hf' : followCnames [rr] q.name q.qtype = some (tn, [(q.name, tn)]) := by
    unfold followCnames
    simp only [hb, Bool.false_eq_true, if_false, List.foldl_cons, List.foldl_nil, hct, nmInsert,
      List.length_singleton, followLoop, nmGet, hn, if_true, List.contains_nil, List.nil_append, hne',
      List.any_cons, List.any_nil, ht, hmatch, Bool.and_false, Bool.or_false, List.isEmpty_cons, Bool.not_false,
      Bool.false_or]
  unfold validateNameserverResponse
  rw [hans, hf']
  simp only [List.filter_cons, List.filter_nil, hk, Bool.not_false, if_true, ht, hmatch, Bool.false_and,
    Bool.false_or, hct, hn, nmGet, beq_self_eq_true, List.isEmpty_cons, Bool.false_eq_true, if_false,
    List.any_cons, List.any_nil, Bool.or_false]

/-- With a warm cache the walk up from a name ends at the deepest zone `Y'` whose NS set is cached
    (or at the root hints): the candidates are `Y'`'s host, for `Y'`'s zone. -/
theorem uni_candidates_warm {U : Universe} (hapex : ∀ E ∈ U, ∀ E' ∈ U, E.apex = E'.apex → E.host = E'.host)
    (zs : Zones) (V : List UEntry) (cn : List Name) (hV : ∀ C ∈ V, C ∈ U) (Y' : UEntry)
    (hY' : (Y' ∈ V ∧ localMiss zs Y'.apex RT_NS = true) ∨ (Y'.apex = Name.root ∧ RootHints zs Y'.host Y'.addr))
    (hwf : Name.fromLabels Y'.apex.labels = some Y'.apex) :
    ∀ (ls : List Label) (st : St), st.ctx.zones = zs → UniCache U V cn st.ctx.cache st.ctx.now →
      st.ctx.stack.length ≠ RECURSION_LIMIT → (∀ q0 ∈ st.ctx.stack, q0.qtype ≠ RT_NS) →
      Y'.apex.labels <:+ ls → warmMiss zs V cn Y'.apex.labels.length ls = true →
      ∃ st', candidateNameservers st ls = (st', some ⟨[Y'.host], Y'.apex⟩) ∧ st'.run = st.run ∧
        st'.ctx.stack = st.ctx.stack ∧ st'.ctx.zones = st.ctx.zones ∧ st'.ctx.now = st.ctx.now ∧
        UniSameStore st.ctx.cache st'.ctx.cache := by
  intro ls
  induction ls with
  | nil =>
    intro st _ _ _ _ hsuf _
    have : Y'.apex.labels = [] := by simpa using hsuf
    rw [this] at hwf
    simp [Name.fromLabels] at hwf
  | cons l ls ih =>
    intro st hzs hcache hlim hstack hsuf hwm
    have hnotin : ∀ n, uniNsQ n ∉ st.ctx.stack := fun n hn => hstack _ hn rfl
    unfold warmMiss at hwm
    by_cases hlen : (l :: ls).length ≤ Y'.apex.labels.length
    · -- arrived at `Y'`'s zone
      have heq : Y'.apex.labels = l :: ls := by
        rcases List.suffix_cons_iff.mp hsuf with h1 | h1
        · exact h1
        · have := h1.length_le
          simp only [List.length_cons] at hlen
          omega
      rw [candidateNameservers, ← heq, hwf]
      simp only
      have e : ({ name := Y'.apex, qtype := RT_NS, qclass := CLASS_IN } : Question) = uniNsQ Y'.apex := rfl
      rw [e]
      rcases hY' with ⟨hYV, hmiss⟩ | ⟨hroot, hh⟩
      · obtain ⟨h1, h2⟩ := uni_cache_lookup_ns hcache.1 hV hapex Y' hYV (hcache.2 Y' hYV).2
        have := uni_local_hit RECURSION_LIMIT st.ctx (uniNsQ Y'.apex) hlim (hnotin _) (by rw [hzs]; exact hmiss)
          (by show RT_NS ≠ QTYPE_WILDCARD; decide) (by rw [Ctx.cacheGet_snd]; exact h1)
        rw [this]
        have e2 : (st.ctx.cacheGet (uniNsQ Y'.apex).name (uniNsQ Y'.apex).qtype).2 =
            (cacheGet st.ctx.cache Y'.apex RT_NS st.ctx.now).2 := rfl
        simp only [ResolvedRecord.rrs, e2, h2, List.isEmpty_cons, Bool.not_false, if_true]
        refine ⟨_, rfl, rfl, by simp [Ctx.cacheGet], by simp [Ctx.cacheGet], by simp [Ctx.cacheGet], ?_⟩
        show UniSameStore st.ctx.cache (st.ctx.cacheGet Y'.apex RT_NS).1.cache
        rw [Ctx.cacheGet_fst_cache]; exact uni_sameStore_get _ _ _ _
      · obtain ⟨z, ttl, hz, hs⟩ := hh.ns
        rw [hroot]
        have := uni_local_zone_answer RECURSION_LIMIT st.ctx (uniNsQ Name.root) z _ hlim (hnotin _)
          (by rw [hzs]; exact hz) hs (by show RT_NS ≠ QTYPE_WILDCARD; decide) (by simp)
        rw [this]
        simp only [ResolvedRecord.rrs, List.filterMap_cons, nsTarget, List.filterMap_nil]
        simp only [beq_self_eq_true, if_true, List.isEmpty_cons, Bool.not_false]
        exact ⟨_, rfl, rfl, rfl, rfl, rfl, uni_sameStore_refl _⟩
    · -- still above `Y'`'s zone: nothing known here
      rw [if_neg hlen] at hwm
      simp only [Bool.and_eq_true] at hwm
      have hsuf' : Y'.apex.labels <:+ ls := by
        rcases List.suffix_cons_iff.mp hsuf with h1 | h1
        · rw [h1] at hlen; exact absurd (Nat.le_refl _) hlen
        · exact h1
      rw [candidateNameservers]
      cases hn : Name.fromLabels (l :: ls) with
      | none => simp only; exact ih st hzs hcache hlim hstack hsuf' hwm.2
      | some name =>
        rw [hn] at hwm
        simp only [Bool.and_eq_true, Bool.not_eq_true', List.all_eq_true, bne_iff_ne, ne_eq] at hwm
        obtain ⟨⟨⟨hm1, hm2⟩, hm3⟩, hm4⟩ := hwm
        have hcn : name ∉ cn := by
          intro hc
          have : cn.contains name = true := by simpa using hc
          rw [this] at hm2; cases hm2
        have ht1 : tuplesAt st.ctx.cache name RT_NS = [] :=
          uni_sound_empty hcache.1 name RT_NS (fun hh => by rcases hh with hh | hh <;> cases hh) (fun _ C hC => hm3 C hC)
            (fun hh => by cases hh)
        have ht2 : tuplesAt st.ctx.cache name RT_CNAME = [] :=
          uni_sound_empty hcache.1 name RT_CNAME (fun hh => by rcases hh with hh | hh <;> cases hh) (fun hh => by cases hh) (fun _ => hcn)
        obtain ⟨ctx', he, hs1, hs2, hs3, hs4⟩ := uni_local_warm_miss RECURSION_LIMIT st.ctx (uniNsQ name) hlim
          (hnotin _) (by rw [hzs]; exact hm1) uni_lookupNat_NS ht1 ht2
        simp only
        have e : ({ name := name, qtype := RT_NS, qclass := CLASS_IN } : Question) = uniNsQ name := rfl
        rw [e, he]
        simp only [List.isEmpty_nil, Bool.not_true, Bool.false_eq_true, if_false]
        obtain ⟨st', h1, h2, h3, h4, h5, h6⟩ := ih ⟨ctx', st.run⟩ (by show ctx'.zones = zs; rw [hs2]; exact hzs)
          (by show UniCache U V cn ctx'.cache ctx'.now; rw [hs3]; exact uni_cache_same hcache hs4)
          (by show ctx'.stack.length ≠ RECURSION_LIMIT; rw [hs1]; exact hlim)
          (by show ∀ q0 ∈ ctx'.stack, q0.qtype ≠ RT_NS; rw [hs1]; exact hstack) hsuf' hm4
        exact ⟨st', h1, h2, by rw [h3]; exact hs1, by rw [h4]; exact hs2, by rw [h5]; exact hs3,
          uni_sameStore_trans hs4 h6⟩

/-- THE MACHINE from a warm state: `resolveRec` on a question `q'` about which the local zones and
    the cache hold nothing, the deepest zone above `q'`'s name whose NS set is cached being `Y'`
    (or none: the root hints), follows the delegation path from `Y'` and returns the expected
    result of its last server. -/
theorem uni_resolveRec_warm {U : Universe} {cfg : RecCfg} (h : UniOK U cfg) (q' : Question) (hq' : QuestionOK q')
    (hnotNS : q'.qtype ≠ RT_NS) (hnotCN : q'.qtype ≠ RT_CNAME)
    {Y' Z' : UEntry} {rest' : List UEntry} (hp' : DelegPath U q' Y' rest' Z') (res' : ResolvedRecord)
    (hexp' : expectedAt Z' q' = some res')
    (hans' : ∀ rrs, Z'.zone.resolve q'.name q'.qtype = some (.answer rrs) → UniAnswerOK q' rrs)
    (zs : Zones) (V : List UEntry) (cn : List Name) (hV : ∀ C ∈ V, C ∈ U)
    (hY' : (Y' ∈ V ∧ localMiss zs Y'.apex RT_NS = true ∧ localMiss zs Y'.host RT_A = true) ∨
      (Y'.apex = Name.root ∧ RootHints zs Y'.host Y'.addr))
    (hwf : Name.fromLabels Y'.apex.labels = some Y'.apex)
    (st : St) (hzs : st.ctx.zones = zs) (hcache : UniCache U V cn st.ctx.cache st.ctx.now)
    (hlive : st.run.timedOut = false) (hlim : st.ctx.stack.length + 1 < RECURSION_LIMIT)
    (hst : ∀ q0 ∈ st.ctx.stack, q0.qtype ≠ RT_NS ∧ q0 ≠ q' ∧ ∀ E ∈ U, q0 ≠ uniHostQ E.host)
    (hqmiss : localMiss zs q'.name q'.qtype = true)
    (hqA : isAddrQ q' → ∀ E ∈ U, q'.name ≠ E.host) (hqcn : q'.name ∉ cn)
    (hwarm : warmMiss zs V cn Y'.apex.labels.length q'.name.labels = true)
    (hmiss' : ∀ C ∈ rest', localMiss zs C.host RT_A = true)
    (ht : st.run.elapsedMs + totalDelay (Y' :: rest') < RESOLVE_TIMEOUT_MS) (f2 : Nat) (hf : rest'.length ≤ f2) :
    ∃ st', resolveRec cfg (f2 + 3) st q' = (st', .ok res') ∧
      st'.run = uniRun st.run cfg.port q' (Y' :: rest') ∧ st'.ctx.stack = st.ctx.stack := by
  have hmem := uni_path_mem hp'
  have hsuf : Y'.apex.labels <:+ q'.name.labels := by
    have := uni_path_sub hp' (uni_expected_isSome hexp')
    unfold Name.isSubdomainOf at this
    exact List.isSuffixOf_iff_suffix.mp this
  -- the local lookup of `q'`: a dead end
  have ht1 : tuplesAt st.ctx.cache q'.name q'.qtype = [] :=
    uni_sound_empty hcache.1 q'.name q'.qtype (fun hh E hE he => hqA hh E hE he.symm)
      (fun hh => absurd hh hnotNS) (fun hh => absurd hh hnotCN)
  have ht2 : tuplesAt st.ctx.cache q'.name RT_CNAME = [] :=
    uni_sound_empty hcache.1 q'.name RT_CNAME (fun hh => by rcases hh with hh | hh <;> cases hh) (fun hh => by cases hh) (fun _ => hqcn)
  have hnd : q' ∉ st.ctx.stack := fun hin => (hst q' hin).2.1 rfl
  obtain ⟨ctx4, hloc, hs1, hs2, hs3, hs4⟩ := uni_local_warm_miss RECURSION_LIMIT st.ctx q' (by omega) hnd
    (by rw [hzs]; exact hqmiss) hq'.qtype ht1 ht2
  -- the walk up, from the state after the push
  have hcands := uni_candidates_warm h.apexes zs V cn hV Y'
    (hY'.imp (fun hh => ⟨hh.1, hh.2.1⟩) id) hwf q'.name.labels ⟨ctx4.push q', st.run⟩
    (by show ctx4.zones = zs; rw [hs2]; exact hzs)
    (by show UniCache U V cn ctx4.cache ctx4.now; rw [hs3]; exact uni_cache_same hcache hs4)
    (by simp only [Ctx.push, List.length_append, List.length_singleton, hs1]; omega)
    (by
      intro q0 hq0
      simp only [Ctx.push, List.mem_append, List.mem_singleton, hs1] at hq0
      rcases hq0 with hq0 | rfl
      · exact (hst q0 hq0).1
      · exact hnotNS)
    hsuf hwarm
  obtain ⟨st5, hc1, hc2, hc3, hc4, hc5, hc6⟩ := hcands
  have hc3' : st5.ctx.stack = st.ctx.stack ++ [q'] := by rw [hc3]; simp [Ctx.push, hs1]
  have hc4' : st5.ctx.zones = zs := by rw [hc4]; show ctx4.zones = zs; rw [hs2]; exact hzs
  have hc5' : st5.ctx.now = st.ctx.now := by rw [hc5]; exact hs3
  have hcache5 : UniCache U V cn st5.ctx.cache st5.ctx.now := by
    rw [hc5']; exact uni_cache_same (uni_cache_same hcache hs4) hc6
  have hnotinE : ∀ E ∈ U, uniHostQ E.host ∉ st5.ctx.stack := by
    intro E hE hin
    rw [hc3'] at hin
    rcases List.mem_append.mp hin with hin | hin
    · exact (hst _ hin).2.2 E hE rfl
    · simp only [List.mem_singleton] at hin
      have h1 : q'.qtype = RT_A := by rw [← hin]; rfl
      exact hqA (Or.inl h1) E hE (by rw [← hin]; rfl)
  have hlim5 : st5.ctx.stack.length ≠ RECURSION_LIMIT := by
    rw [hc3']; simp only [List.length_append, List.length_singleton]; omega
  have hk5 : UniAddrKnown st5.ctx Y'.host Y'.addr := by
    rcases hY' with ⟨hYV, _, hm2⟩ | ⟨_, hh⟩
    · exact uni_addr_cached h.hosts Y' hmem.1 hcache5.1 (hcache5.2 Y' hYV).1 (by rw [hc4']; exact hm2) hlim5
        (hnotinE Y' hmem.1)
    · exact uni_addr_hints (by rw [hc4']; exact hh) hlim5 (hnotinE Y' hmem.1)
  obtain ⟨st6, h1, h2, h3, _, _⟩ := uni_loop h q' hq' hp' res' hexp' hans' f2 st5 V cn hf
    (by rw [hc2]; exact hlive) (by rw [hc2]; exact ht) hlim5
    (fun C hC => hnotinE C (hmem.2 C hC)) (fun h1 C hC => hqA h1 C (hmem.2 C hC))
    (fun C hC => by rw [hc4']; exact hmiss' C hC) hcache5 hk5
  refine ⟨⟨st6.ctx.pop, st6.run⟩, ?_, by rw [h2, hc2], by simp [Ctx.pop, h3, hc3']⟩
  have hlimb : st.ctx.atRecursionLimit = false := by
    simp only [Ctx.atRecursionLimit, beq_eq_false_iff_ne, ne_eq]; omega
  have hdup : st.ctx.isDuplicate q' = false := Ctx.not_duplicate hnd
  rw [show f2 + 3 = (f2 + 2) + 1 from rfl, resolveRec]
  simp only [hlive, hlimb, hdup, Bool.false_eq_true, if_false, hloc, hc1, Nameservers.matchCount, h1]

/-- the reply of an authoritative server for an alias. -/
def uniCnameMsg (q : Question) (rr : RR) : Message :=
  { header := replyHeader false true RCODE_NOERROR, questions := [q], answers := [rr], authority := [],
    additional := [] }

/-- THE MACHINE on an alias crossing zones: the path for `q` ends at a zone `Z` where the name is
    an alias (`CNAME`) for `tn`; the resolver caches the alias, restarts for `tn` from the deepest
    zone `Y'` of the first path that encloses `tn` (its NS set and glue are cached; the root hints
    if there is none), follows the path for `tn` and returns the alias record followed by what the
    last server of the second path holds for `tn`. -/
theorem uni_resolveRec_cname {U : Universe} {cfg : RecCfg} (h : UniOK U cfg) (q : Question) (hq : QuestionOK q)
    (hnotNS : q.qtype ≠ RT_NS) (hnotCN : q.qtype ≠ RT_CNAME)
    {R Z : UEntry} {rest : List UEntry} (hp : DelegPath U q R rest Z) (tn : Name) (rr : RR)
    (hcres : Z.zone.resolve q.name q.qtype = some (.cname tn rr))
    (hrr : rr.name = q.name ∧ rr.rtype = RT_CNAME ∧ rr.fields = [.name tn] ∧ rrIsUnknown rr = false)
    (htn : tn ≠ q.name) (hq' : QuestionOK (aliasQ q tn))
    {Y' Z' : UEntry} {rest' : List UEntry} (hp' : DelegPath U (aliasQ q tn) Y' rest' Z') (res' : ResolvedRecord)
    (hexp' : expectedAt Z' (aliasQ q tn) = some res')
    (hans' : ∀ rrs, Z'.zone.resolve tn q.qtype = some (.answer rrs) → UniAnswerOK (aliasQ q tn) rrs)
    (zs : Zones) (d now : Nat) (hroot : R.apex = Name.root) (hh : RootHints zs R.host R.addr)
    (hqmiss : localMiss zs q.name q.qtype = true) (hcand : candMiss zs q.name.labels = true)
    (hqa : isAddrQ q → ∀ E ∈ U, q.name ≠ E.host)
    (hmiss : ∀ C ∈ rest, localMiss zs C.host RT_A = true)
    (hY' : (Y' ∈ rest ∧ localMiss zs Y'.apex RT_NS = true) ∨ Y' = R)
    (hwf : Name.fromLabels Y'.apex.labels = some Y'.apex)
    (hqmiss' : localMiss zs tn q.qtype = true)
    (hqa' : isAddrQ q → ∀ E ∈ U, tn ≠ E.host)
    (hwarm : warmMiss zs rest [q.name] Y'.apex.labels.length tn.labels = true)
    (hmiss' : ∀ C ∈ rest', localMiss zs C.host RT_A = true)
    (ht : totalDelay (R :: rest) + totalDelay (Y' :: rest') < RESOLVE_TIMEOUT_MS)
    (f : Nat) (hf : rest.length + rest'.length ≤ f) :
    ∃ st', resolveRec cfg (f + 6) ⟨startCtx zs d now, Run.empty⟩ q =
        (st', .ok (.nonAuthoritative ([rr] ++ res'.rrs) res'.soaRR)) ∧
      st'.run = uniRun (uniRun Run.empty cfg.port q (R :: rest)) cfg.port (aliasQ q tn) (Y' :: rest') ∧
      st'.ctx.stack = [] := by
  obtain ⟨hne1, hne2⟩ := uni_miss_ne_hints hh q hqmiss
  have hz : (Z.zone.resolve q.name q.qtype).isSome = true := by rw [hcres]; rfl
  have hsubR := uni_path_sub hp hz
  rw [hroot] at hsubR
  obtain ⟨pre, hpre⟩ := uni_labels_root hsubR
  obtain ⟨e, hloc⟩ := uni_local_empty RECURSION_LIMIT (startCtx zs d now) q d rfl hqmiss
  have hmemp := uni_path_mem hp
  have hZ := uni_path_end_mem hp
  have hc2 : ((startCtx zs d now).push q).cache = PCache.new d := rfl
  have hcands := uni_candidates ⟨(startCtx zs d now).push q, Run.empty⟩ d hc2 R.host R.addr hh
    (by simp [Ctx.push, startCtx, RECURSION_LIMIT])
    (by simp only [Ctx.push, startCtx, List.nil_append, List.mem_singleton]; exact fun he => hne1 he.symm)
    pre (by rw [← hpre]; exact hcand)
  have hk : UniAddrKnown ((startCtx zs d now).push q) R.host R.addr :=
    uni_addr_hints hh (by simp [Ctx.push, startCtx, RECURSION_LIMIT])
      (by simp only [Ctx.push, startCtx, List.nil_append, List.mem_singleton]; exact fun he => hne2 he.symm)
  -- the descent to `Z`
  obtain ⟨stZ, hd1, hd2, hd3, hd4, hd5, hd6, hd7, hd8, hd9⟩ := uni_descend h q hq hp hz (f - rest.length + 3)
    ⟨(startCtx zs d now).push q, Run.empty⟩ [] [] rfl
    (by simp only [Run.empty]; rw [uni_totalDelay_cons] at ht ⊢; omega)
    (by simp [Ctx.push, startCtx, RECURSION_LIMIT])
    (fun C hC => uni_hostQ_notin (fun h1 => hqa h1 C (hmemp.2 C hC)))
    (fun h1 C hC => hqa h1 C (hmemp.2 C hC)) hmiss (uni_cache_new U d now) hk
  have hd5 : stZ.ctx.stack = [q] := hd5
  have hd6 : stZ.ctx.zones = zs := hd6
  have hd7 : stZ.ctx.now = now := hd7
  simp only [List.nil_append] at hd8
  -- `Z`'s reply: the alias
  have hm : authReply U Z q false = some (uniCnameMsg q rr) := by
    unfold authReply uniCnameMsg; rw [hcres]
  have hv := uni_validate_cname q (uniCnameMsg q rr) Z.apex.labels.length rr tn hq.qtype hnotCN rfl hrr.1 hrr.2.1
    hrr.2.2.1 hrr.2.2.2 htn
  have ho := h.faithful Z hZ q false false
  rw [hm] at ho
  have hdelayZ : stZ.run.elapsedMs + Z.delayMs < RESOLVE_TIMEOUT_MS := by
    rw [hd3]; simp only [Run.empty]; omega
  have hquery := uni_loop_query cfg (f - rest.length + 3) stZ q Z.apex.labels.length Z _ h.mode hd2 hd9 ho hq.fits
    (h.delay Z hZ) hdelayZ (uni_authReply_matches hm)
  rw [hv] at hquery
  simp only [uni_afterReply, prioritisingMerge_nil] at hquery
  -- the state the alias is followed from
  obtain ⟨r0, _, _, hsame⟩ := hd9
  have hst1 := resolveLocal_stack (RECURSION_LIMIT + 1) stZ.ctx (uniHostQ Z.host)
  have hzs1 := resolveLocal_zones (RECURSION_LIMIT + 1) stZ.ctx (uniHostQ Z.host)
  have hnow1 := resolveLocal_now (RECURSION_LIMIT + 1) stZ.ctx (uniHostQ Z.host)
  generalize hc1 : (resolveLocal (RECURSION_LIMIT + 1) stZ.ctx (uniHostQ Z.host)).1 = ctx1 at *
  have hcache1 : UniCache U rest [] ctx1.cache ctx1.now := by rw [hnow1]; exact uni_cache_same hd8 hsame
  have hcache3 : UniCache U rest [q.name] (sharedInsertAll ctx1.cache [rr] ctx1.now) ctx1.now := by
    refine ⟨uni_sound_insertAll _ (uni_sound_mono (fun _ hD => hD) (fun _ hn => by cases hn) hcache1.1) ?_,
      uni_present_insertAll hcache1.1.1 hcache1.2 _ _⟩
    intro r hr
    simp only [List.mem_singleton] at hr
    subst hr
    exact Or.inr (Or.inr (Or.inl ⟨hrr.2.1, by rw [hrr.1]; simp⟩))
  have hrunZ : (⟨stZ.run.log ++ [Z.exchange cfg.port q], stZ.run.elapsedMs + Z.delayMs, false⟩ : Run) =
      uniRun Run.empty cfg.port q (R :: rest) := by
    simp only [uniRun, hd3, hd4]
  rw [hrunZ] at hquery
  obtain ⟨st7, hw1, hw2, hw3⟩ := uni_resolveRec_warm h (aliasQ q tn) hq' hnotNS hnotCN hp' res' hexp' hans' zs rest
    [q.name] hmemp.2
    (by
      rcases hY' with ⟨h1, h2⟩ | h1
      · exact Or.inl ⟨h1, h2, hmiss Y' h1⟩
      · exact Or.inr ⟨by rw [h1]; exact hroot, by rw [h1]; exact hh⟩)
    hwf ⟨ctx1.cacheInsertAll [rr], uniRun Run.empty cfg.port q (R :: rest)⟩
    (by show ctx1.zones = zs; rw [hzs1]; exact hd6) hcache3 rfl
    (by show ctx1.stack.length + 1 < RECURSION_LIMIT; rw [hst1, hd5]; simp [RECURSION_LIMIT])
    (by
      show ∀ q0 ∈ ctx1.stack, _
      rw [hst1, hd5]
      intro q0 hq0
      simp only [List.mem_singleton] at hq0
      subst hq0
      refine ⟨hnotNS, ?_, ?_⟩
      · intro he
        exact htn (by rw [he]; rfl)
      · intro E hE he
        have h1 : q0.qtype = RT_A := by rw [he]; rfl
        exact hqa (Or.inl h1) E hE (by rw [he]; rfl))
    hqmiss' hqa' (by simp only [aliasQ, List.mem_singleton]; exact htn) hwarm hmiss'
    (by simp only [uniRun, Run.empty]; omega) (f - rest.length) (by omega)
  refine ⟨⟨st7.ctx.pop, st7.run⟩, ?_, hw2, ?_⟩
  · have hlim : (startCtx zs d now).atRecursionLimit = false := by
      simp [Ctx.atRecursionLimit, startCtx, RECURSION_LIMIT]
    have hdup : (startCtx zs d now).isDuplicate q = false := by simp [Ctx.isDuplicate, startCtx]
    have hrun : Run.empty.timedOut = false := rfl
    rw [← hpre] at hcands
    have hmc : Name.root.labels.length = R.apex.labels.length := by rw [hroot]
    have hfu : f + 6 = (rest.length + (f - rest.length + 3) + 2) + 1 := by omega
    have hfu2 : f - rest.length + 3 + 1 = (f - rest.length + 3) + 1 := rfl
    have hfu3 : f - rest.length + 3 = (f - rest.length) + 3 := rfl
    rw [hfu, resolveRec]
    simp only [hrun, hlim, hdup, Bool.false_eq_true, if_false, hloc, hcands, Nameservers.matchCount, hmc, hd1,
      hquery]
    rw [resolveCombined]
    have e : ({ name := tn, qclass := q.qclass, qtype := q.qtype } : Question) = aliasQ q tn := rfl
    rw [e, hw1]
  · show st7.ctx.stack.dropLast = []
    rw [hw3]
    show ctx1.stack.dropLast = []
    rw [hst1, hd5]; rfl

/-- … and under the 60 s wrapper, with the fuel `resolve_recursive` is run with. -/
theorem uni_resolveRecursive_cname {U : Universe} {cfg : RecCfg} (h : UniOK U cfg) (q : Question) (hq : QuestionOK q)
    (hnotCN : q.qtype ≠ RT_CNAME)
    {R Z : UEntry} {rest : List UEntry} (hp : DelegPath U q R rest Z) (tn : Name) (rr : RR)
    (hcres : Z.zone.resolve q.name q.qtype = some (.cname tn rr))
    (hrr : rr.name = q.name ∧ rr.rtype = RT_CNAME ∧ rr.fields = [.name tn] ∧ rrIsUnknown rr = false)
    (hq' : QuestionOK (aliasQ q tn))
    {Y' Z' : UEntry} {rest' : List UEntry} (hp' : DelegPath U (aliasQ q tn) Y' rest' Z') (res' : ResolvedRecord)
    (hexp' : expectedAt Z' (aliasQ q tn) = some res')
    (hans' : ∀ rrs, Z'.zone.resolve tn q.qtype = some (.answer rrs) → UniAnswerOK (aliasQ q tn) rrs)
    (zs : Zones) (d now : Nat) (hs : UniStartAlias U zs q tn R rest Y' rest') :
    ∃ st', resolveRecursive cfg (startCtx zs d now) q =
        (st', .ok (.nonAuthoritative ([rr] ++ res'.rrs) res'.soaRR)) ∧
      st'.run = uniRun (uniRun Run.empty cfg.port q (R :: rest)) cfg.port (aliasQ q tn) (Y' :: rest') ∧
      st'.ctx.stack = [] := by
  obtain ⟨st', h1, h2, h3⟩ := uni_resolveRec_cname h q hq hs.notNS hnotCN hp tn rr hcres hrr hs.target hq' hp' res'
    hexp' hans' zs d now hs.root hs.hints hs.qmiss hs.cand (fun h1 E hE => (hs.notHost h1 E hE).1)
    (fun C hC => hs.hostsMiss C (List.mem_append_left _ hC)) hs.restart hs.restartWf hs.tmiss
    (fun h1 E hE => (hs.notHost h1 E hE).2) hs.warm (fun C hC => hs.hostsMiss C (List.mem_append_right _ hC))
    hs.time (REC_FUEL - 6) (by have := hs.fuel; omega)
  have hfu : REC_FUEL - 6 + 6 = REC_FUEL := by have := hs.fuel; omega
  rw [hfu] at h1
  refine ⟨st', ?_, h2, h3⟩
  unfold resolveRecursive
  rw [h1]
  simp only [h2, uniRun, Bool.false_eq_true, if_false]

/-! ## Several name servers per zone: the single steps -/

theorem uni_mem_insertSet {s : List Name} {n x : Name} : x ∈ insertSet s n ↔ x ∈ s ∨ x = n := by
  unfold insertSet
  split
  · rename_i h
    constructor
    · intro hx; exact Or.inl hx
    · rintro (hx | rfl)
      · exact hx
      · simpa using h
  · simp

theorem uni_mem_foldl_insertSet (l : List Name) : ∀ (s : List Name) (x : Name),
    x ∈ l.foldl insertSet s ↔ x ∈ s ∨ x ∈ l := by
  induction l with
  | nil => intro s x; simp
  | cons a l ih =>
    intro s x
    simp only [List.foldl_cons, ih, uni_mem_insertSet, List.mem_cons]
    constructor
    · rintro ((h | h) | h)
      · exact Or.inl h
      · exact Or.inr (Or.inl h)
      · exact Or.inr (Or.inr h)
    · rintro (h | h | h)
      · exact Or.inl (Or.inl h)
      · exact Or.inl (Or.inr h)
      · exact Or.inr h

theorem uni_mem_nsHosts {nsRrs : List RR} {x : Name} :
    x ∈ nsHosts nsRrs ↔ ∃ rr ∈ nsRrs, nsTarget rr = some x := by
  unfold nsHosts
  rw [uni_mem_foldl_insertSet]
  simp [List.mem_filterMap]

theorem uni_foldl_ns (f : List Name × Nat × Option Name → RR → List Name × Nat × Option Name) (k : Nat) (z : Name) :
    ∀ (l : List RR) (acc : List Name),
      (∀ acc rr, rr ∈ l → ∃ t, nsTarget rr = some t ∧ f (acc, k, some z) rr = (insertSet acc t, k, some z)) →
      l.foldl f (acc, k, some z) = ((l.filterMap nsTarget).foldl insertSet acc, k, some z) := by
  intro l
  induction l with
  | nil => intro acc _; rfl
  | cons r l ih =>
    intro acc hf
    obtain ⟨t, ht, hft⟩ := hf acc r List.mem_cons_self
    simp only [List.foldl_cons, hft, List.filterMap_cons, ht]
    exact ih _ (fun a rr hr => hf a rr (List.mem_cons_of_mem _ hr))

/-- `get_better_ns_names` on NS records that all belong to one zone enclosing the target, deeper
    than the delegation in use: that zone, and all the hosts named. -/
theorem uni_getBetter_same_owner (target : Name) (mc : Nat) (zone : Name)
    (hsub : target.isSubdomainOf zone = true) (hmc : mc < zone.labels.length) :
    ∀ (nsRrs : List RR), nsRrs ≠ [] → (∀ rr ∈ nsRrs, rr.name = zone ∧ (nsTarget rr).isSome = true) →
      getBetterNsNames nsRrs target mc = some (zone, nsHosts nsRrs) := by
  intro nsRrs hne hall
  cases nsRrs with
  | nil => exact absurd rfl hne
  | cons r l =>
    obtain ⟨hn, ht⟩ := hall r List.mem_cons_self
    cases htt : nsTarget r with
    | none => rw [htt] at ht; cases ht
    | some t =>
      unfold getBetterNsNames
      simp only [List.foldl_cons, htt, hn, hsub, if_true, gt_iff_lt, hmc]
      rw [uni_foldl_ns _ zone.labels.length zone l [t] (by
        intro acc rr hr
        obtain ⟨hn', ht'⟩ := hall rr (List.mem_cons_of_mem _ hr)
        cases htt' : nsTarget rr with
        | none => rw [htt'] at ht'; cases ht'
        | some t' =>
          refine ⟨t', rfl, ?_⟩
          simp only [hn', hsub, if_true, Nat.lt_irrefl, if_false])]
      simp [nsHosts, htt, insertSet]

/-- completeness of the filter for referrals naming SEVERAL name servers: the NS set of a zone that
    encloses the question name and is strictly deeper than the delegation in use, with `A` / `AAAA`
    glue for hosts it names, is accepted whole; the candidates are all the hosts named. -/
theorem uni_validate_referral_multi (q : Question) (m : Message) (mc : Nat) (zone : Name)
    (hans : m.answers = []) (hne : m.authority ≠ [])
    (hns : ∀ rr ∈ m.authority, rr.name = zone ∧ (nsTarget rr).isSome = true)
    (hglue : ∀ g ∈ m.additional, (g.rtype = RT_A ∨ g.rtype = RT_AAAA) ∧ g.name ∈ nsHosts m.authority)
    (hsub : q.name.isSubdomainOf zone = true) (hmc : mc < zone.labels.length) :
    validateNameserverResponse q m mc =
      some (.delegation (m.authority ++ m.additional) (nsHosts m.authority) zone) := by
  have hg := uni_getBetter_same_owner q.name mc zone hsub hmc m.authority hne hns
  unfold validateNameserverResponse
  rw [hans, uni_followCnames_nil, uni_getBetter_nil, hg]
  simp only [List.filter_nil, List.nil_append]
  rw [uni_filter_all m.authority _ (fun rr hr => by
    obtain ⟨h1, h2⟩ := hns rr hr
    cases ht : nsTarget rr with
    | none => rw [ht] at h2; cases h2
    | some t =>
      have : t ∈ nsHosts m.authority := uni_mem_nsHosts.mpr ⟨rr, hr, ht⟩
      simp [h1, this])]
  rw [uni_filter_all m.additional _ (fun g hgm => by
    rcases (hglue g hgm).1 with h1 | h1 <;> simp [h1, (hglue g hgm).2])]

/-- One iteration of the candidate loop with SEVERAL candidates, the last of which (the one the
    loop tries first) is a host whose address is known locally and whose server answers in time:
    the other candidates are not even looked at. -/
theorem uni_loop_query_cands (cfg : RecCfg) (f : Nat) (st : St) (q : Question) (mc : Nat) (E : UEntry)
    (cands : List Name) (hlast : cands.getLast? = some E.host)
    (m : Message) (hmode : cfg.mode = .onlyV4 ∨ cfg.mode = .preferV4) (hlive : st.run.timedOut = false)
    (hk : UniAddrKnown st.ctx E.host E.addr)
    (ho : cfg.oracle { addr := .a E.addr, port := cfg.port, tcp := false, question := q, recursionDesired := false } =
      { delayMs := E.delayMs, reply := some m })
    (hfit : udpFits q = true) (hd : E.delayMs < EXCHANGE_TIMEOUT_MS)
    (ht : st.run.elapsedMs + E.delayMs < RESOLVE_TIMEOUT_MS)
    (hm : responseMatchesRequest (requestFor q false) m = true) :
    candidateLoop cfg (f + 2) st q [] mc cands [] true =
      uni_afterReply cfg (f + 1)
        ⟨(resolveLocal (RECURSION_LIMIT + 1) st.ctx (uniHostQ E.host)).1,
         { log := st.run.log ++ [E.exchange cfg.port q], elapsedMs := st.run.elapsedMs + E.delayMs,
           timedOut := false }⟩ q [] (validateNameserverResponse q m mc) := by
  rw [candidateLoop]
  simp only [hlive, Bool.false_eq_true, if_false, hlast]
  rw [uni_tryTypes cfg f st E.host E.addr hmode hlive hk]
  simp only [hlive, Bool.false_eq_true, if_false]
  rw [uni_query cfg.oracle st.run (.a E.addr) cfg.port q E.delayMs m ho hfit hlive hd ht hm]
  simp only [Bool.false_eq_true, if_false, Option.bind_some]
  cases validateNameserverResponse q m mc with
  | none => rfl
  | some resp => cases resp <;> rfl

/-! ## Several name servers per zone: the induction -/

theorem uni_mem_glue_gen {U : Universe} {nsRrs : List RR} {g : RR} :
    g ∈ uniGlue U nsRrs ↔ ∃ E ∈ U, E.host ∈ nsRrs.filterMap nsTarget ∧ g ∈ E.glueRRs := by
  unfold uniGlue
  simp only [List.mem_flatMap, List.mem_filter, List.contains_iff_mem]
  constructor
  · rintro ⟨E, ⟨hE, hh⟩, hg⟩; exact ⟨E, hE, hh, hg⟩
  · rintro ⟨E, hE, hh, hg⟩; exact ⟨E, ⟨hE, hh⟩, hg⟩

/-- the referral a server on the path gives when the next zone has several servers, as filtered. -/
theorem uni_referralM {U : Universe} (Y C : UEntry) (sibs : List UEntry) (q : Question) (nsRrs : List RR)
    (hres : Y.zone.resolve q.name q.qtype = some (.delegation nsRrs)) (hCs : C ∈ sibs)
    (hsibs : ∀ D ∈ sibs, D ∈ U ∧ D.apex = C.apex)
    (hns : ∀ rr ∈ nsRrs, 0 < rr.ttl ∧ ∃ D ∈ sibs, rr = D.nsRR rr.ttl)
    (hall : ∀ D ∈ sibs, ∃ rr ∈ nsRrs, rr = D.nsRR rr.ttl)
    (hdepth : Y.apex.labels.length < C.apex.labels.length)
    (hsub : q.name.isSubdomainOf C.apex = true) (hU : HostsFunctional U)
    (hqa : isAddrQ q → ∀ D ∈ sibs, q.name ≠ D.host) :
    ∃ m, authReply U Y q false = some m ∧
      validateNameserverResponse q m Y.apex.labels.length =
        some (.delegation (nsRrs ++ uniGlue U nsRrs) (nsHosts nsRrs) C.apex) ∧
      uni_glueFor q (nsRrs ++ uniGlue U nsRrs) = none ∧
      (∀ V cn, (∀ D ∈ sibs, D ∈ V) → ∀ rr ∈ nsRrs ++ uniGlue U nsRrs, UniRROK U V cn rr) ∧
      (∀ D ∈ sibs, D.glueRR ∈ nsRrs ++ uniGlue U nsRrs ∧ ∃ rr ∈ nsRrs ++ uniGlue U nsRrs,
        0 < rr.ttl ∧ rr.name = D.apex ∧ rr.rtype = RT_NS) := by
  have htarget : ∀ rr ∈ nsRrs, ∃ D ∈ sibs, rr.name = C.apex ∧ nsTarget rr = some D.host ∧ rr.rtype = RT_NS := by
    intro rr hr
    obtain ⟨_, D, hD, he⟩ := hns rr hr
    refine ⟨D, hD, ?_, ?_, ?_⟩
    · rw [he]; exact (hsibs D hD).2
    · rw [he]; exact uni_nsTarget_nsRR D rr.ttl
    · rw [he]; rfl
  have hne : nsRrs ≠ [] := by
    obtain ⟨rr, hr, _⟩ := hall C hCs
    exact List.ne_nil_of_mem hr
  have hglue : ∀ g ∈ uniGlue U nsRrs, (g.rtype = RT_A ∨ g.rtype = RT_AAAA) ∧
      (∃ D ∈ sibs, g.name = D.host) ∧ g.name ∈ nsHosts nsRrs := by
    intro g hg
    obtain ⟨E, _, hh, hgE⟩ := uni_mem_glue_gen.mp hg
    obtain ⟨rr, hr, ht⟩ := List.mem_filterMap.mp hh
    obtain ⟨D, hD, _, htD, _⟩ := htarget rr hr
    have hED : E.host = D.host := by rw [htD] at ht; exact (Option.some.inj ht).symm
    have hnm : g.name = E.host := by
      rcases uni_mem_glueRRs.mp hgE with rfl | ⟨g6, _, rfl⟩ <;> rfl
    refine ⟨?_, ⟨D, hD, by rw [hnm, hED]⟩, ?_⟩
    · rcases uni_mem_glueRRs.mp hgE with rfl | ⟨g6, _, rfl⟩
      · exact Or.inl rfl
      · exact Or.inr rfl
    · rw [hnm]; exact uni_mem_nsHosts.mpr ⟨rr, hr, ht⟩
  refine ⟨_, by unfold authReply; rw [hres], ?_, ?_, ?_, ?_⟩
  · exact uni_validate_referral_multi q _ _ C.apex rfl hne
      (fun rr hr => by
        obtain ⟨D, _, h1, h2, _⟩ := htarget rr hr
        exact ⟨h1, by rw [h2]; rfl⟩)
      (fun g hg => ⟨(hglue g hg).1, (hglue g hg).2.2⟩) hsub hdepth
  · have hnone : ∀ t, (t = RT_A ∨ t = RT_AAAA → ∀ D ∈ sibs, q.name ≠ D.host) → t ≠ RT_NS →
        getRecord (nsRrs ++ uniGlue U nsRrs) q.name t = none := by
      intro t ht hnst
      unfold getRecord
      rw [List.find?_eq_none]
      intro rr hrr
      rcases List.mem_append.mp hrr with h1 | h1
      · obtain ⟨_, _, _, _, h5⟩ := htarget rr h1
        simp [h5, Ne.symm hnst]
      · obtain ⟨h2, ⟨D, hD, h3⟩, _⟩ := hglue rr h1
        by_cases hta : t = RT_A ∨ t = RT_AAAA
        · have := ht hta D hD
          simp [h3, Ne.symm this]
        · have hne' : rr.rtype ≠ t := by
            intro he
            rcases h2 with h2 | h2
            · exact hta (Or.inl (by rw [← he, h2]))
            · exact hta (Or.inr (by rw [← he, h2]))
          simp [hne']
    unfold uni_glueFor
    by_cases h1 : q.qtype = RT_A
    · simp only [h1, beq_self_eq_true, if_true]
      exact hnone RT_A (fun _ => hqa (Or.inl h1)) (by decide)
    · have h1' : (q.qtype == RT_A) = false := by simp [h1]
      simp only [h1', Bool.false_eq_true, if_false]
      split
      · rename_i h6
        exact hnone RT_AAAA (fun _ => hqa (Or.inr (by simpa using h6))) (by decide)
      · rfl
  · intro V cn hV rr hrr
    rcases List.mem_append.mp hrr with h1 | h1
    · obtain ⟨_, D, hD, he⟩ := hns rr h1
      rw [he]
      exact Or.inr (Or.inl ⟨rfl, D, hV D hD, rfl, rfl⟩)
    · obtain ⟨E, hE, _, hgE⟩ := uni_mem_glue_gen.mp h1
      rcases uni_mem_glueRRs.mp hgE with rfl | ⟨g6, _, rfl⟩
      · exact Or.inl ⟨rfl, E, hE, rfl, rfl⟩
      · exact Or.inr (Or.inr (Or.inr ⟨rfl, E, hE, rfl⟩))
  · intro D hD
    obtain ⟨rr, hr, he⟩ := hall D hD
    refine ⟨List.mem_append_right _ (uni_mem_glue_gen.mpr ⟨D, (hsibs D hD).1, ?_,
      uni_mem_glueRRs.mpr (Or.inl rfl)⟩), rr, List.mem_append_left _ hr, (hns rr hr).1, ?_, ?_⟩
    · exact List.mem_filterMap.mpr ⟨rr, hr, by rw [he]; exact uni_nsTarget_nsRR D rr.ttl⟩
    · rw [he]; rfl
    · rw [he]; rfl

theorem uni_pathM_sub {U : Universe} {order : List Name → List Name} {q : Question} {Y Z : UEntry}
    {rest vis : List UEntry} (hp : DelegPathM U order q Y rest vis Z)
    (hz : (Z.zone.resolve q.name q.qtype).isSome = true) : q.name.isSubdomainOf Y.apex = true := by
  cases hp with
  | here _ _ => exact uni_resolve_sub hz
  | down _ _ _ _ _ _ _ _ _ _ hres _ _ _ _ _ => exact uni_resolve_sub (by rw [hres]; rfl)

theorem uni_pathM_end_mem {U : Universe} {order : List Name → List Name} {q : Question} {Y Z : UEntry}
    {rest vis : List UEntry} (hp : DelegPathM U order q Y rest vis Z) : Y ∈ U ∧ Z ∈ U := by
  induction hp with
  | here _ h1 => exact ⟨h1, h1⟩
  | down _ _ _ _ _ _ _ hY _ _ _ _ _ _ _ _ ih => exact ⟨hY, ih.2⟩

/-- THE DESCENT with several servers per zone: as `uni_descend`; the candidates of each iteration
    are the hosts of the referral in the order `cfg.hostOrder` gives them, the loop contacts the
    one that comes last. -/
theorem uni_descendM {U : Universe} {cfg : RecCfg} (h : UniOKM U cfg) (q : Question) (hq : QuestionOK q)
    {Y Z : UEntry} {rest vis : List UEntry} (hp : DelegPathM U cfg.hostOrder q Y rest vis Z)
    (hz : (Z.zone.resolve q.name q.qtype).isSome = true) :
    ∀ (f : Nat) (st : St) (V : List UEntry) (cn : List Name) (cands : List Name),
      cands.getLast? = some Y.host → st.run.timedOut = false →
      st.run.elapsedMs + totalDelay (Y :: rest) < RESOLVE_TIMEOUT_MS →
      st.ctx.stack.length ≠ RECURSION_LIMIT →
      (∀ C ∈ vis, uniHostQ C.host ∉ st.ctx.stack) →
      (isAddrQ q → ∀ C ∈ vis, q.name ≠ C.host) →
      (∀ C ∈ vis, localMiss st.ctx.zones C.host RT_A = true) →
      UniCache U V cn st.ctx.cache st.ctx.now →
      UniAddrKnown st.ctx Y.host Y.addr →
      ∃ stZ candsZ, candsZ.getLast? = some Z.host ∧
        candidateLoop cfg (rest.length + f + 2) st q [] Y.apex.labels.length cands [] true =
          candidateLoop cfg (f + 2) stZ q [] Z.apex.labels.length candsZ [] true ∧
        stZ.run.timedOut = false ∧
        stZ.run.elapsedMs + Z.delayMs = st.run.elapsedMs + totalDelay (Y :: rest) ∧
        stZ.run.log ++ [Z.exchange cfg.port q] = st.run.log ++ (Y :: rest).map (·.exchange cfg.port q) ∧
        stZ.ctx.stack = st.ctx.stack ∧ stZ.ctx.zones = st.ctx.zones ∧ stZ.ctx.now = st.ctx.now ∧
        UniCache U (V ++ vis) cn stZ.ctx.cache stZ.ctx.now ∧
        UniAddrKnown stZ.ctx Z.host Z.addr := by
  have hfit : udpFits q = true := hq.fits
  induction hp with
  | here Z hZ =>
    intro f st V cn cands hlast hlive _ _ _ _ _ hcache hk
    refine ⟨st, cands, hlast, by simp, hlive, by simp [totalDelay], by simp, rfl, rfl, rfl, by simpa using hcache, hk⟩
  | down Y C Z rest vis sibs nsRrs hY hCs hsibs hres hns hall hlastC hdepth hpath ih =>
    intro f st V cn cands hlast hlive ht hlim hnotin hqa hmiss hcache hk
    have hsub := uni_pathM_sub hpath hz
    have hC : C ∈ U := (hsibs C hCs).1
    obtain ⟨m, hm, hv, hg, hrr, hpres⟩ := uni_referralM (U := U) Y C sibs q nsRrs hres hCs hsibs hns hall hdepth hsub
      h.hosts (fun h1 D hD => hqa h1 D (List.mem_append_left _ hD))
    have ho := h.faithful Y hY q false false
    rw [hm] at ho
    rw [uni_totalDelay_cons] at ht
    have hfuel : (C :: rest).length + f + 2 = (rest.length + f + 1) + 2 := by
      simp only [List.length_cons]; omega
    rw [hfuel, uni_loop_query_cands cfg (rest.length + f + 1) st q _ Y cands hlast m h.mode hlive hk ho hfit
      (h.delay Y hY) (by omega) (uni_authReply_matches hm), hv]
    simp only [uni_afterReply, hg]
    obtain ⟨r0, _, _, hsame⟩ := hk
    have hst1 := resolveLocal_stack (RECURSION_LIMIT + 1) st.ctx (uniHostQ Y.host)
    have hzs1 := resolveLocal_zones (RECURSION_LIMIT + 1) st.ctx (uniHostQ Y.host)
    have hnow1 := resolveLocal_now (RECURSION_LIMIT + 1) st.ctx (uniHostQ Y.host)
    generalize hc1 : (resolveLocal (RECURSION_LIMIT + 1) st.ctx (uniHostQ Y.host)).1 = ctx1 at *
    have hcache1 : UniCache U V cn ctx1.cache ctx1.now := by rw [hnow1]; exact uni_cache_same hcache hsame
    have hsound3 : UniSound U (V ++ sibs) cn
        (sharedInsertAll ctx1.cache (nsRrs ++ uniGlue U nsRrs) ctx1.now) ctx1.now :=
      uni_sound_insertAll _ (uni_sound_mono (fun D hD => List.mem_append_left _ hD) (fun _ hn => hn) hcache1.1)
        (hrr (V ++ sibs) cn (fun D hD => List.mem_append_right _ hD))
    have hpres3 : ∀ D ∈ sibs, tuplesAt (sharedInsertAll ctx1.cache (nsRrs ++ uniGlue U nsRrs) ctx1.now) D.host RT_A ≠ [] ∧
        tuplesAt (sharedInsertAll ctx1.cache (nsRrs ++ uniGlue U nsRrs) ctx1.now) D.apex RT_NS ≠ [] := by
      intro D hD
      obtain ⟨hg1, rr, hrm, httl, hnm, hty⟩ := hpres D hD
      exact ⟨uni_tuples_insertAll_ne _ _ _ _ hcache1.1.1
          (Or.inr ⟨D.glueRR, hg1, h.glueTtl D (hsibs D hD).1, rfl, rfl⟩),
        uni_tuples_insertAll_ne _ _ _ _ hcache1.1.1 (Or.inr ⟨rr, hrm, httl, hnm.symm, hty.symm⟩)⟩
    have hcache3 : UniCache U (V ++ sibs) cn
        (sharedInsertAll ctx1.cache (nsRrs ++ uniGlue U nsRrs) ctx1.now) ctx1.now := by
      refine ⟨hsound3, ?_⟩
      intro D hD
      rcases List.mem_append.mp hD with hD | hD
      · exact uni_present_insertAll hcache1.1.1 hcache1.2 _ _ D hD
      · exact hpres3 D hD
    have hk3 : UniAddrKnown (ctx1.cacheInsertAll (nsRrs ++ uniGlue U nsRrs)) C.host C.addr := by
      apply uni_addr_cached (V := V ++ sibs) (cn := cn) h.hosts C hC
      · exact hsound3
      · exact (hpres3 C hCs).1
      · show localMiss ctx1.zones C.host RT_A = true
        rw [hzs1]; exact hmiss C (List.mem_append_left _ hCs)
      · show ctx1.stack.length ≠ RECURSION_LIMIT
        rw [hst1]; exact hlim
      · show uniHostQ C.host ∉ ctx1.stack
        rw [hst1]; exact hnotin C (List.mem_append_left _ hCs)
    obtain ⟨stZ, candsZ, h0, h1, h2, h3, h4, h5, h6, h7, h8, h9⟩ := ih hz f
      ⟨ctx1.cacheInsertAll (nsRrs ++ uniGlue U nsRrs),
        { log := st.run.log ++ [Y.exchange cfg.port q], elapsedMs := st.run.elapsedMs + Y.delayMs,
          timedOut := false }⟩ (V ++ sibs) cn (cfg.hostOrder (nsHosts nsRrs)) hlastC
      rfl (by simp only; omega)
      (by show ctx1.stack.length ≠ RECURSION_LIMIT; rw [hst1]; exact hlim)
      (fun D hD => by show uniHostQ D.host ∉ ctx1.stack; rw [hst1]; exact hnotin D (List.mem_append_right _ hD))
      (fun h1 D hD => hqa h1 D (List.mem_append_right _ hD))
      (fun D hD => by
        show localMiss ctx1.zones D.host RT_A = true; rw [hzs1]; exact hmiss D (List.mem_append_right _ hD))
      hcache3 hk3
    refine ⟨stZ, candsZ, h0, h1, h2, ?_, ?_, ?_, ?_, ?_, ?_, h9⟩
    · rw [h3]; simp only [uni_totalDelay_cons]; omega
    · rw [h4]; simp
    · rw [h5]; exact hst1
    · rw [h6]; exact hzs1
    · rw [h7]; exact hnow1
    · have : V ++ (sibs ++ vis) = (V ++ sibs) ++ vis := by simp
      rw [this]; exact h8

/-- THE MACHINE on a path with several servers per zone, from root hints and an empty cache. -/
theorem uni_resolveRecursiveM {U : Universe} {cfg : RecCfg} (h : UniOKM U cfg) (q : Question) (hq : QuestionOK q)
    {R Z : UEntry} {rest vis : List UEntry} (hp : DelegPathM U cfg.hostOrder q R rest vis Z)
    (res : ResolvedRecord) (hexp : expectedAt Z q = some res)
    (hans : ∀ rrs, Z.zone.resolve q.name q.qtype = some (.answer rrs) → UniAnswerOK q rrs)
    (zs : Zones) (d now : Nat) (hs : UniStartM zs q R rest vis) :
    ∃ st', resolveRecursive cfg (startCtx zs d now) q = (st', .ok res) ∧
      st'.run = uniRun Run.empty cfg.port q (R :: rest) ∧ st'.ctx.stack = [] := by
  obtain ⟨hne1, hne2⟩ := uni_miss_ne_hints hs.hints q hs.qmiss
  have hzs := uni_expected_isSome hexp
  have hsubR := uni_pathM_sub hp hzs
  rw [hs.root] at hsubR
  obtain ⟨pre, hpre⟩ := uni_labels_root hsubR
  obtain ⟨e, hloc⟩ := uni_local_empty RECURSION_LIMIT (startCtx zs d now) q d rfl hs.qmiss
  have hZ := (uni_pathM_end_mem hp).2
  have hc2 : ((startCtx zs d now).push q).cache = PCache.new d := rfl
  have hcands := uni_candidates ⟨(startCtx zs d now).push q, Run.empty⟩ d hc2 R.host R.addr hs.hints
    (by simp [Ctx.push, startCtx, RECURSION_LIMIT])
    (by simp only [Ctx.push, startCtx, List.nil_append, List.mem_singleton]; exact fun he => hne1 he.symm)
    pre (by rw [← hpre]; exact hs.cand)
  have hk : UniAddrKnown ((startCtx zs d now).push q) R.host R.addr :=
    uni_addr_hints hs.hints (by simp [Ctx.push, startCtx, RECURSION_LIMIT])
      (by simp only [Ctx.push, startCtx, List.nil_append, List.mem_singleton]; exact fun he => hne2 he.symm)
  obtain ⟨F, hF⟩ : ∃ F, (rest.length + F + 2) + 1 = REC_FUEL := ⟨REC_FUEL - 3 - rest.length, by have := hs.fuel; omega⟩
  obtain ⟨stZ, candsZ, hd0, hd1, hd2, hd3, hd4, hd5, hd6, hd7, _, hd9⟩ := uni_descendM h q hq hp hzs
    F ⟨(startCtx zs d now).push q, Run.empty⟩ [] [] [R.host] rfl rfl
    (by simpa [Run.empty] using hs.time) (by simp [Ctx.push, startCtx, RECURSION_LIMIT])
    (fun C hC => uni_hostQ_notin (fun h1 => hs.notHost h1 C hC)) hs.notHost hs.hostsMiss (uni_cache_new U d now) hk
  obtain ⟨m, rrs, soa, hm, hv, hr⟩ :=
    uni_terminal (U := U) Z q res Z.apex.labels.length hq.qtype hexp hans (Nat.le_refl _)
  have ho := h.faithful Z hZ q false false
  rw [hm] at ho
  have hquery := uni_loop_query_cands cfg F stZ q Z.apex.labels.length Z candsZ hd0 m h.mode
    hd2 hd9 ho hq.fits (h.delay Z hZ) (by rw [hd3]; simpa [Run.empty] using hs.time) (uni_authReply_matches hm)
  rw [hv] at hquery
  subst hr
  simp only [uni_afterReply, prioritisingMerge_nil] at hquery
  have hlim : (startCtx zs d now).atRecursionLimit = false := by
    simp [Ctx.atRecursionLimit, startCtx, RECURSION_LIMIT]
  have hdup : (startCtx zs d now).isDuplicate q = false := by simp [Ctx.isDuplicate, startCtx]
  have hrun : Run.empty.timedOut = false := rfl
  rw [← hpre] at hcands
  have hmc : Name.root.labels.length = R.apex.labels.length := by rw [hs.root]
  have hrec : resolveRec cfg ((rest.length + F + 2) + 1) ⟨startCtx zs d now, Run.empty⟩ q =
      (⟨(((resolveLocal (RECURSION_LIMIT + 1) stZ.ctx (uniHostQ Z.host)).1).cacheInsertAll rrs).pop,
        ⟨stZ.run.log ++ [Z.exchange cfg.port q], stZ.run.elapsedMs + Z.delayMs, false⟩⟩,
       .ok (.nonAuthoritative rrs soa)) := by
    rw [resolveRec]
    simp only [hrun, hlim, hdup, Bool.false_eq_true, if_false, hloc, hcands, Nameservers.matchCount, hmc, hd1, hquery]
  rw [hF] at hrec
  refine ⟨⟨(((resolveLocal (RECURSION_LIMIT + 1) stZ.ctx (uniHostQ Z.host)).1).cacheInsertAll rrs).pop,
    ⟨stZ.run.log ++ [Z.exchange cfg.port q], stZ.run.elapsedMs + Z.delayMs, false⟩⟩, ?_, ?_, ?_⟩
  · unfold resolveRecursive
    rw [hrec]
    simp only [Bool.false_eq_true, if_false]
  · simp only [uniRun, hd3, hd4]
  · show ((resolveLocal (RECURSION_LIMIT + 1) stZ.ctx (uniHostQ Z.host)).1.cacheInsertAll rrs).stack.dropLast = []
    simp only [Ctx.cacheInsertAll]
    rw [resolveLocal_stack, hd5]
    rfl

/-! ## Answers of well-keyed zones are well-formed -/

theorem uni_answer_class (node : ZNode) (name : Name) (qtype : Nat) (rel : List Label) (isApex : Bool)
    (rrs : List RR) (h : node.resolve name qtype rel isApex = .answer rrs) : ∀ rr ∈ rrs, rr.rclass = CLASS_IN := by
  rw [ZNode.resolve_eq_rev] at h
  rcases ZNode.resolveRev_source name qtype rel.reverse node isApex with
    ⟨p, n, recs, nsd, cd, _, _, he⟩ | h1 | h1 | ⟨z, zs, n, p, _, _, he⟩
  · rw [he] at h
    intro rr hrr
    obtain ⟨k, zrs, zr, _, _, hrr', _⟩ := C02_answer_records_are_zone_records name qtype recs nsd cd rrs h rr hrr
    rw [hrr']; rfl
  · rw [h1] at h; cases h
  · rw [h1] at h; cases h
  · rw [he] at h; cases h

/-- the answers of a zone whose record maps are keyed consistently (as `Zone::insert` builds
    them) are owned by the question name, of the asked type and of class IN. -/
theorem uni_answerOK {z : Zone} (ht : z.records.Typed) (q : Question)
    (hq : lookupNat queryTypeFromU16 q.qtype = none) (hk : rtypeIsUnknown q.qtype = false) (rrs : List RR)
    (h : z.resolve q.name q.qtype = some (.answer rrs)) : UniAnswerOK q rrs := by
  unfold Zone.resolve at h
  cases hr : z.relativeDomain q.name with
  | none => rw [hr] at h; cases h
  | some rel =>
    rw [hr] at h
    simp only [Option.map_some, Option.some.injEq] at h
    have hw : q.qtype ≠ QTYPE_WILDCARD := by
      intro hw; rw [hw] at hq; revert hq; decide
    intro rr hrr
    have h1 := (ZNode.resolve_owned z.records q.name q.qtype rel true).answer rrs h rr hrr
    have h2 := (ZNode.resolve_typed z.records ht q.name q.qtype rel true).answer rrs h hw rr hrr
    have h3 := uni_answer_class z.records q.name q.qtype rel true rrs h rr hrr
    refine ⟨h1, h2, ?_⟩
    unfold rrIsUnknown
    rw [h2, hk, h3]
    decide

theorem uni_cname_source (node : ZNode) (name : Name) (qtype : Nat) (rel : List Label) (isApex : Bool)
    (c : Name) (rr : RR) (h : node.resolve name qtype rel isApex = .cname c rr) :
    rr.rclass = CLASS_IN ∧ qtype ≠ RT_CNAME := by
  rw [ZNode.resolve_eq_rev] at h
  rcases ZNode.resolveRev_source name qtype rel.reverse node isApex with
    ⟨p, n, recs, nsd, cd, _, _, he⟩ | h1 | h1 | ⟨z, zs, n, p, _, _, he⟩
  · rw [he] at h
    obtain ⟨z, zs, _, _, hrr', hm⟩ := C02_cname_result_is_first_cname name qtype recs nsd cd c rr h
    refine ⟨by rw [hrr']; rfl, ?_⟩
    intro hq
    rw [hq] at hm
    revert hm; decide
  · rw [h1] at h; cases h
  · rw [h1] at h; cases h
  · rw [he] at h; cases h

/-- the alias record of a zone whose record maps are keyed consistently: owned by the question
    name, a CNAME record of class IN naming the target; and the question is not a CNAME question. -/
theorem uni_cnameOK {z : Zone} (ht : z.records.Typed) (q : Question) (tn : Name) (rr : RR)
    (h : z.resolve q.name q.qtype = some (.cname tn rr)) :
    (rr.name = q.name ∧ rr.rtype = RT_CNAME ∧ rr.fields = [.name tn] ∧ rrIsUnknown rr = false) ∧
    q.qtype ≠ RT_CNAME := by
  unfold Zone.resolve at h
  cases hr : z.relativeDomain q.name with
  | none => rw [hr] at h; cases h
  | some rel =>
    rw [hr] at h
    simp only [Option.map_some, Option.some.injEq] at h
    have h1 := (ZNode.resolve_owned z.records q.name q.qtype rel true).cname tn rr h
    have h2 := (ZNode.resolve_typed z.records ht q.name q.qtype rel true).cname tn rr h
    have h3 := uni_cname_source z.records q.name q.qtype rel true tn rr h
    refine ⟨⟨h1.1, h2, h1.2, ?_⟩, h3.2⟩
    unfold rrIsUnknown
    rw [h2, h3.1]
    decide

/-! ## Resolution plans: alias chains of any length -/

theorem uni_zoneSaysWF_of_typed {z : Zone} (ht : z.records.Typed) (q : Question)
    (hq : lookupNat queryTypeFromU16 q.qtype = none) (hk : rtypeIsUnknown q.qtype = false) : ZoneSaysWF z q :=
  ⟨fun rrs h => uni_answerOK ht q hq hk rrs h, fun tn rr h => (uni_cnameOK ht q tn rr h).1⟩

/-- the first part of every leg: the local lookup of the question is a dead end, the walk up ends
    at `Y`, whose address the local lookup knows. -/
theorem uni_leg_start {U : Universe} {cfg : RecCfg} (h : UniOK U cfg) {zs : Zones} {V : List UEntry} {cn : List Name}
    {stack : List Question} {q : Question} {Y Z : UEntry} {rest : List UEntry}
    (leg : UniLeg U zs V cn stack q Y rest Z) (hz : (Z.zone.resolve q.name q.qtype).isSome = true)
    (hV : ∀ C ∈ V, C ∈ U) (st : St) (hzs : st.ctx.zones = zs) (hstack : st.ctx.stack = stack)
    (hcache : UniCache U V cn st.ctx.cache st.ctx.now) :
    ∃ ctx4 st5, resolveLocal (RECURSION_LIMIT + 1) st.ctx q = (ctx4, .error (.deadEnd q)) ∧
      candidateNameservers ⟨ctx4.push q, st.run⟩ q.name.labels = (st5, some ⟨[Y.host], Y.apex⟩) ∧
      st5.run = st.run ∧ st5.ctx.stack = stack ++ [q] ∧ st5.ctx.zones = zs ∧ st5.ctx.now = st.ctx.now ∧
      UniCache U V cn st5.ctx.cache st5.ctx.now ∧ UniAddrKnown st5.ctx Y.host Y.addr ∧
      (∀ E ∈ U, uniHostQ E.host ∉ st5.ctx.stack) ∧ st5.ctx.stack.length ≠ RECURSION_LIMIT ∧
      st.ctx.atRecursionLimit = false ∧ st.ctx.isDuplicate q = false := by
  have hmem := uni_path_mem leg.path
  have hsuf : Y.apex.labels <:+ q.name.labels := by
    have := uni_path_sub leg.path hz
    unfold Name.isSubdomainOf at this
    exact List.isSuffixOf_iff_suffix.mp this
  have hdepth := leg.depth
  rw [← hstack] at hdepth
  have hst := leg.stackOK
  rw [← hstack] at hst
  have ht1 : tuplesAt st.ctx.cache q.name q.qtype = [] :=
    uni_sound_empty hcache.1 q.name q.qtype (fun hh E hE he => leg.notHost hh E hE he.symm)
      (fun hh => absurd hh leg.notNS) (fun hh => absurd hh leg.notCN)
  have ht2 : tuplesAt st.ctx.cache q.name RT_CNAME = [] :=
    uni_sound_empty hcache.1 q.name RT_CNAME (fun hh => by rcases hh with hh | hh <;> cases hh) (fun hh => by cases hh) (fun _ => leg.notAlias)
  have hnd : q ∉ st.ctx.stack := fun hin => (hst q hin).2.1 rfl
  obtain ⟨ctx4, hloc, hs1, hs2, hs3, hs4⟩ := uni_local_warm_miss RECURSION_LIMIT st.ctx q (by omega) hnd
    (by rw [hzs]; exact leg.qmiss) leg.ok.qtype ht1 ht2
  obtain ⟨st5, hc1, hc2, hc3, hc4, hc5, hc6⟩ := uni_candidates_warm h.apexes zs V cn hV Y
    (leg.start.imp (fun hh => ⟨hh.1, hh.2.1⟩) id) leg.startWf q.name.labels ⟨ctx4.push q, st.run⟩
    (by show ctx4.zones = zs; rw [hs2]; exact hzs)
    (by show UniCache U V cn ctx4.cache ctx4.now; rw [hs3]; exact uni_cache_same hcache hs4)
    (by simp only [Ctx.push, List.length_append, List.length_singleton, hs1]; omega)
    (by
      intro q0 hq0
      simp only [Ctx.push, List.mem_append, List.mem_singleton, hs1] at hq0
      rcases hq0 with hq0 | rfl
      · exact (hst q0 hq0).1
      · exact leg.notNS)
    hsuf leg.warm
  have hc3' : st5.ctx.stack = stack ++ [q] := by rw [hc3]; simp [Ctx.push, hs1, hstack]
  have hc4' : st5.ctx.zones = zs := by rw [hc4]; show ctx4.zones = zs; rw [hs2]; exact hzs
  have hc5' : st5.ctx.now = st.ctx.now := by rw [hc5]; exact hs3
  have hcache5 : UniCache U V cn st5.ctx.cache st5.ctx.now := by
    rw [hc5']; exact uni_cache_same (uni_cache_same hcache hs4) hc6
  have hnotinE : ∀ E ∈ U, uniHostQ E.host ∉ st5.ctx.stack := by
    intro E hE hin
    rw [hc3'] at hin
    rcases List.mem_append.mp hin with hin | hin
    · exact (leg.stackOK _ hin).2.2 E hE rfl
    · simp only [List.mem_singleton] at hin
      have h1 : q.qtype = RT_A := by rw [← hin]; rfl
      exact leg.notHost (Or.inl h1) E hE (by rw [← hin]; rfl)
  have hlim5 : st5.ctx.stack.length ≠ RECURSION_LIMIT := by
    rw [hc3']; simp only [List.length_append, List.length_singleton]; have := leg.depth; omega
  have hk5 : UniAddrKnown st5.ctx Y.host Y.addr := by
    rcases leg.start with ⟨hYV, _, hm2⟩ | ⟨_, hh⟩
    · exact uni_addr_cached h.hosts Y hmem.1 hcache5.1 (hcache5.2 Y hYV).1 (by rw [hc4']; exact hm2) hlim5
        (hnotinE Y hmem.1)
    · exact uni_addr_hints (by rw [hc4']; exact hh) hlim5 (hnotinE Y hmem.1)
  have hlimb : st.ctx.atRecursionLimit = false := by
    simp only [Ctx.atRecursionLimit, beq_eq_false_iff_ne, ne_eq]; omega
  exact ⟨ctx4, st5, hloc, hc1, hc2, hc3', hc4', hc5', hcache5, hk5, hnotinE, hlim5, hlimb, Ctx.not_duplicate hnd⟩

theorem uni_planDelay_append (a b : List (UEntry × Question)) : planDelay (a ++ b) = planDelay a + planDelay b := by
  simp [planDelay, totalDelay]

theorem uni_planDelay_leg (q : Question) (es : List UEntry) : planDelay (legExchanges q es) = totalDelay es := by
  simp [planDelay, legExchanges, List.map_map, Function.comp_def]

theorem uni_planLog_leg (port : Nat) (q : Question) (es : List UEntry) :
    planLog port (legExchanges q es) = es.map (·.exchange port q) := by
  simp [planLog, legExchanges, List.map_map, Function.comp_def]

/-- THE MACHINE ON A PLAN: `resolveRec`, from any state matching the plan (zones, question stack,
    cache invariant for the zones and aliases known so far), with at least the fuel the plan needs
    and the time it takes, returns the plan's result after exactly the plan's exchanges. -/
theorem uni_plan {U : Universe} {cfg : RecCfg} (h : UniOK U cfg) {zs : Zones} {V : List UEntry} {cn : List Name}
    {stack : List Question} {q : Question} {ex : List (UEntry × Question)} {n : Nat} {res : ResolvedRecord}
    (hplan : UniPlan U zs V cn stack q ex n res) :
    ∀ (st : St) (f : Nat), n ≤ f → st.ctx.zones = zs → st.ctx.stack = stack →
      UniCache U V cn st.ctx.cache st.ctx.now → (∀ C ∈ V, C ∈ U) → st.run.timedOut = false →
      st.run.elapsedMs + planDelay ex < RESOLVE_TIMEOUT_MS →
      ∃ st', resolveRec cfg f st q = (st', .ok res) ∧
        st'.run = ⟨st.run.log ++ planLog cfg.port ex, st.run.elapsedMs + planDelay ex, false⟩ ∧
        st'.ctx.stack = st.ctx.stack := by
  induction hplan with
  | @final V cn stack q Y Z rest res leg hexp =>
    intro st f hf hzs hstack hcache hV hlive ht
    rw [uni_planDelay_leg] at ht
    obtain ⟨st', h1, h2, h3⟩ := uni_resolveRec_warm h q leg.ok leg.notNS leg.notCN leg.path res hexp leg.says.1 zs V cn hV
      leg.start leg.startWf st hzs hcache hlive (by rw [hstack]; exact leg.depth)
      (by rw [hstack]; exact leg.stackOK) leg.qmiss leg.notHost leg.notAlias leg.warm leg.hostsMiss ht
      (f - 3) (by omega)
    have hfu : f - 3 + 3 = f := by omega
    rw [hfu] at h1
    refine ⟨st', h1, ?_, h3⟩
    rw [h2, uni_planDelay_leg, uni_planLog_leg]
    rfl
  | @alias V cn stack q Y Z rest tn rr ex n res' leg hcres htn _ ih =>
    intro st f hf hzs hstack hcache hV hlive ht
    have hz : (Z.zone.resolve q.name q.qtype).isSome = true := by rw [hcres]; rfl
    have hmemp := uni_path_mem leg.path
    have hZ := uni_path_end_mem leg.path
    rw [uni_planDelay_append, uni_planDelay_leg] at ht
    obtain ⟨ctx4, st5, hloc, hc1, hc2, hc3, hc4, hc5, hcache5, hk5, hnotinE, hlim5, hlimb, hdup⟩ :=
      uni_leg_start h leg hz hV st hzs hstack hcache
    -- the descent to `Z`
    obtain ⟨stZ, hd1, hd2, hd3, hd4, hd5, hd6, hd7, hd8, hd9⟩ := uni_descend h q leg.ok leg.path hz
      (f - rest.length - 3) st5 V cn (by rw [hc2]; exact hlive) (by rw [hc2]; omega) hlim5
      (fun C hC => hnotinE C (hmemp.2 C hC)) (fun h1 C hC => leg.notHost h1 C (hmemp.2 C hC))
      (fun C hC => by rw [hc4]; exact leg.hostsMiss C hC) hcache5 hk5
    -- `Z`'s reply: the alias
    have hrr := leg.says.2 tn rr hcres
    have hm : authReply U Z q false = some (uniCnameMsg q rr) := by
      unfold authReply uniCnameMsg; rw [hcres]
    have hv := uni_validate_cname q (uniCnameMsg q rr) Z.apex.labels.length rr tn leg.ok.qtype leg.notCN rfl hrr.1
      hrr.2.1 hrr.2.2.1 hrr.2.2.2 htn
    have ho := h.faithful Z hZ q false false
    rw [hm] at ho
    have hdelayZ : stZ.run.elapsedMs + Z.delayMs < RESOLVE_TIMEOUT_MS := by
      rw [hd3, hc2]; omega
    have hquery := uni_loop_query cfg (f - rest.length - 3) stZ q Z.apex.labels.length Z _ h.mode hd2 hd9 ho
      leg.ok.fits (h.delay Z hZ) hdelayZ (uni_authReply_matches hm)
    rw [hv] at hquery
    simp only [uni_afterReply, prioritisingMerge_nil] at hquery
    -- the state the alias is followed from
    obtain ⟨r0, _, _, hsame⟩ := hd9
    have hst1 := resolveLocal_stack (RECURSION_LIMIT + 1) stZ.ctx (uniHostQ Z.host)
    have hzs1 := resolveLocal_zones (RECURSION_LIMIT + 1) stZ.ctx (uniHostQ Z.host)
    have hnow1 := resolveLocal_now (RECURSION_LIMIT + 1) stZ.ctx (uniHostQ Z.host)
    generalize hcg : (resolveLocal (RECURSION_LIMIT + 1) stZ.ctx (uniHostQ Z.host)).1 = ctx1 at *
    have hcache1 : UniCache U (V ++ rest) cn ctx1.cache ctx1.now := by
      rw [hnow1]; exact uni_cache_same hd8 hsame
    have hcache3 : UniCache U (V ++ rest) (q.name :: cn) (sharedInsertAll ctx1.cache [rr] ctx1.now) ctx1.now := by
      refine ⟨uni_sound_insertAll _ (uni_sound_mono (fun _ hD => hD) (fun _ hn => List.mem_cons_of_mem _ hn)
        hcache1.1) ?_, uni_present_insertAll hcache1.1.1 hcache1.2 _ _⟩
      intro r hr
      simp only [List.mem_singleton] at hr
      subst hr
      exact Or.inr (Or.inr (Or.inl ⟨hrr.2.1, by rw [hrr.1]; simp⟩))
    obtain ⟨st7, hw1, hw2, hw3⟩ := ih
      ⟨ctx1.cacheInsertAll [rr], ⟨stZ.run.log ++ [Z.exchange cfg.port q], stZ.run.elapsedMs + Z.delayMs, false⟩⟩
      (f - rest.length - 3) (by omega)
      (by show ctx1.zones = zs; rw [hzs1, hd6]; exact hc4)
      (by show ctx1.stack = stack ++ [q]; rw [hst1, hd5]; exact hc3)
      hcache3
      (by
        intro C hC
        rcases List.mem_append.mp hC with hC | hC
        · exact hV C hC
        · exact hmemp.2 C hC)
      rfl (by simp only; rw [hd3, hc2]; omega)
    refine ⟨⟨st7.ctx.pop, st7.run⟩, ?_, ?_, ?_⟩
    · have hfu : f = (rest.length + (f - rest.length - 3) + 2) + 1 := by omega
      have e : ({ name := tn, qclass := q.qclass, qtype := q.qtype } : Question) = aliasQ q tn := rfl
      rw [hfu, resolveRec]
      simp only [hlive, hlimb, hdup, Bool.false_eq_true, if_false, hloc, hc1, Nameservers.matchCount, hd1, hquery]
      rw [show f - rest.length - 3 + 1 = (f - rest.length - 3) + 1 from rfl, resolveCombined, e, hw1]
    · rw [hw2]
      simp only [uni_planDelay_append, uni_planDelay_leg, planLog, List.map_append]
      have hl : stZ.run.log ++ [Z.exchange cfg.port q] =
          st.run.log ++ List.map (fun p => p.1.exchange cfg.port p.2) (legExchanges q (Y :: rest)) := by
        rw [hd4, hc2]
        have := uni_planLog_leg cfg.port q (Y :: rest)
        unfold planLog at this
        rw [this]
      rw [hl, hd3, hc2]
      simp [Nat.add_assoc]
    · show st7.ctx.stack.dropLast = st.ctx.stack
      rw [hw3]
      show ctx1.stack.dropLast = st.ctx.stack
      rw [hst1, hd5, hc3, hstack]; simp

/-! ## Consistent universes: a path exists for every question -/

theorem uni_depth_bound (U : Universe) : ∃ B, ∀ E ∈ U, E.apex.labels.length ≤ B := by
  induction U with
  | nil => exact ⟨0, by simp⟩
  | cons F rest ih =>
    obtain ⟨B, hB⟩ := ih
    refine ⟨B + F.apex.labels.length, ?_⟩
    intro E hE
    rcases List.mem_cons.mp hE with rfl | hE
    · omega
    · have := hB E hE; omega

theorem uni_path_exists_aux {U : Universe} (hU : Consistent U) (q : Question) (B : Nat)
    (hB : ∀ E ∈ U, E.apex.labels.length ≤ B) :
    ∀ (n : Nat) (Y : UEntry), Y ∈ U → B - Y.apex.labels.length ≤ n →
      ∃ rest Z, DelegPath U q Y rest Z ∧ ∀ ns, Z.zone.resolve q.name q.qtype ≠ some (.delegation ns) := by
  intro n
  induction n with
  | zero =>
    intro Y hY hn
    by_cases hd : ∃ ns, Y.zone.resolve q.name q.qtype = some (.delegation ns)
    · obtain ⟨ns, hns⟩ := hd
      obtain ⟨C, hC, ttl, _, _, hlt⟩ := hU Y hY q.name q.qtype ns hns
      have := hB C hC
      have := hB Y hY
      omega
    · exact ⟨[], Y, .here Y hY, fun ns hns => hd ⟨ns, hns⟩⟩
  | succ n ih =>
    intro Y hY hn
    by_cases hd : ∃ ns, Y.zone.resolve q.name q.qtype = some (.delegation ns)
    · obtain ⟨ns, hns⟩ := hd
      obtain ⟨C, hC, ttl, hnsEq, httl, hlt⟩ := hU Y hY q.name q.qtype ns hns
      obtain ⟨rest, Z, hp, hz⟩ := ih C hC (by have := hB C hC; omega)
      rw [hnsEq] at hns
      exact ⟨C :: rest, Z, .down Y C Z rest ttl hY hC hns httl hlt hp, hz⟩
    · exact ⟨[], Y, .here Y hY, fun ns hns => hd ⟨ns, hns⟩⟩

/-- In a consistent universe the referrals for any question, followed from any server, end at a
    server that does not refer further. -/
theorem uni_path_exists {U : Universe} (hU : Consistent U) (q : Question) (Y : UEntry) (hY : Y ∈ U) :
    ∃ rest Z, DelegPath U q Y rest Z ∧ ∀ ns, Z.zone.resolve q.name q.qtype ≠ some (.delegation ns) := by
  obtain ⟨B, hB⟩ := uni_depth_bound U
  exact uni_path_exists_aux hU q B hB _ Y hY (Nat.le_refl _)

/-- a path is no longer than the question name is deep below its first zone. -/
theorem uni_path_length {U : Universe} {q : Question} {Y Z : UEntry} {rest : List UEntry}
    (hp : DelegPath U q Y rest Z) (hz : (Z.zone.resolve q.name q.qtype).isSome = true) :
    rest.length + Y.apex.labels.length ≤ q.name.labels.length ∧
    ∀ C ∈ rest, Y.apex.labels.length < C.apex.labels.length := by
  induction hp with
  | here Z _ =>
    have := uni_resolve_sub hz
    unfold Name.isSubdomainOf at this
    have := (List.isSuffixOf_iff_suffix.mp this).length_le
    exact ⟨by simp only [List.length_nil, Nat.zero_add]; exact this, by simp⟩
  | down Y C Z rest ttl _ _ _ _ hd _ ih =>
    obtain ⟨ih1, ih2⟩ := ih hz
    refine ⟨by simp only [List.length_cons]; show rest.length + 1 + Y.apex.labels.length ≤ _; omega, ?_⟩
    intro D hD
    rcases List.mem_cons.mp hD with rfl | hD
    · exact hd
    · exact Nat.lt_trans hd (ih2 D hD)

theorem uni_totalDelay_le (es : List UEntry) (D : Nat) (h : ∀ E ∈ es, E.delayMs ≤ D) :
    totalDelay es ≤ D * es.length := by
  induction es with
  | nil => simp [totalDelay]
  | cons E es ih =>
    rw [uni_totalDelay_cons, List.length_cons, Nat.mul_succ]
    have := h E List.mem_cons_self
    have := ih (fun F hF => h F (List.mem_cons_of_mem _ hF))
    omega

/-- the path-free start hypotheses give the start hypotheses for any path ending in a zone that
    has something to say about the question. -/
theorem uni_start_of_all {U : Universe} {zs : Zones} {q : Question} {R Z : UEntry} {D : Nat} {rest : List UEntry}
    (hs : UniStartAll U zs q R D) (hp : DelegPath U q R rest Z)
    (hz : (Z.zone.resolve q.name q.qtype).isSome = true) : UniStart zs q R rest := by
  obtain ⟨hlen, hdeep⟩ := uni_path_length hp hz
  have hmem := (uni_path_mem hp)
  have hr1 : R.apex.labels.length = 1 := by rw [hs.root]; rfl
  have hne : ∀ C ∈ rest, C.apex.labels.length ≠ 1 := by
    intro C hC; have := hdeep C hC; omega
  refine ⟨hs.root, hs.hints, hs.qmiss, hs.cand, ?_, ?_, ?_, ?_⟩
  · intro C hC; exact hs.hostsMiss C (hmem.2 C hC) (hne C hC)
  · intro h1 C hC; exact hs.notHost h1 C (hmem.2 C hC) (hne C hC)
  · have h1 := uni_totalDelay_le (R :: rest) D (by
      intro E hE
      rcases List.mem_cons.mp hE with rfl | hE
      · exact hs.delay _ hmem.1
      · exact hs.delay E (hmem.2 E hE))
    have h2 : (R :: rest).length ≤ q.name.labels.length := by
      simp only [List.length_cons]; omega
    have h3 : D * (R :: rest).length ≤ D * q.name.labels.length := Nat.mul_le_mul_left D h2
    have := hs.time
    omega
  · have := hs.fuel; omega

/-! ## A decidable check for `Consistent` -/

theorem uni_nodesAll_descend (P : ZNode → Bool) : ∀ (fuel : Nat) (node : ZNode) (p : List Label) (n : ZNode),
    nodesAll P fuel node = true → node.descend p = some n → P n = true := by
  intro fuel
  induction fuel with
  | zero =>
    intro node p n h hd
    simp only [nodesAll, Bool.and_eq_true] at h
    cases p with
    | nil => simp at hd; subst hd; exact h.1
    | cons l rest =>
      rw [ZNode.descend_cons] at hd
      have : node.children = [] := by simpa using h.2
      rw [this] at hd
      simp [ZNode.childGet] at hd
  | succ fuel ih =>
    intro node p n h hd
    simp only [nodesAll, Bool.and_eq_true, List.all_eq_true] at h
    cases p with
    | nil => simp at hd; subst hd; exact h.1
    | cons l rest =>
      rw [ZNode.descend_cons] at hd
      cases hc : ZNode.childGet node.children l with
      | none => rw [hc] at hd; cases hd
      | some c =>
        rw [hc] at hd
        exact ih c rest n (h.2 (l, c) (ZNode.childGet_mem hc)) hd

/-- where a referral comes from, in a tree without wildcards: the NS set of a node on the way
    (never the apex node). -/
theorem uni_resolveRev_deleg (name : Name) (qtype : Nat) : ∀ (r : List Label) (node : ZNode) (isApex : Bool)
    (rrs : List RR), (∀ p n, node.descend p = some n → n.wildcards = none) →
    node.resolveRev name qtype r isApex = .delegation rrs →
    ∃ p n z zs, node.descend p = some n ∧ (p = [] → isApex = false) ∧
      n.this.get RT_NS = some (z :: zs) ∧ rrs = (z :: zs).map (·.toRR n.nsdname) := by
  intro r
  induction r with
  | nil =>
    intro node isApex rrs _ h
    simp only [ZNode.resolveRev] at h
    obtain ⟨hcd, _, z, zs, hg, he⟩ := (zoneResultHelper_delegation_iff _ _ _ _ _ _).mp h
    exact ⟨[], node, z, zs, rfl, fun _ => by simpa using hcd, hg, he⟩
  | cons lbl rest ih =>
    intro node isApex rrs hw h
    simp only [ZNode.resolveRev] at h
    cases hc : ZNode.childGet node.children lbl with
    | some child =>
      rw [hc] at h
      simp only at h
      obtain ⟨p, n, z, zs, hd, _, hg, he⟩ := ih child false rrs
        (fun p n hp => hw (lbl :: p) n (by rw [ZNode.descend_cons, hc]; exact hp)) h
      exact ⟨lbl :: p, n, z, zs, (by rw [ZNode.descend_cons, hc]; exact hd), (fun hh => by cases hh), hg, he⟩
    | none =>
      rw [hc] at h
      simp only at h
      rw [hw [] node rfl] at h
      simp only at h
      cases isApex with
      | true => simp at h
      | false =>
        simp only [Bool.false_eq_true, if_false] at h
        split at h
        · rename_i z zs hg
          cases h
          exact ⟨[], node, z, zs, rfl, fun _ => rfl, hg, rfl⟩
        · cases h

/-- the decidable check implies consistency. -/
theorem uni_consistent_of_check (U : Universe) (fuel : Nat) (h : universeConsistent U fuel = true) :
    Consistent U := by
  intro Y hY name qtype ns hres
  unfold universeConsistent at h
  have hz := List.all_eq_true.mp h Y hY
  unfold zoneConsistent at hz
  simp only [Bool.and_eq_true, List.all_eq_true] at hz
  obtain ⟨hw0, hch⟩ := hz
  -- every proper descendant satisfies `nsOK`
  have hdesc : ∀ p n, p ≠ [] → Y.zone.records.descend p = some n → nsOK U Y.apex.labels.length n = true := by
    intro p n hp hd
    cases p with
    | nil => exact absurd rfl hp
    | cons l rest =>
      rw [ZNode.descend_cons] at hd
      cases hc : ZNode.childGet Y.zone.records.children l with
      | none => rw [hc] at hd; cases hd
      | some c =>
        rw [hc] at hd
        exact uni_nodesAll_descend _ fuel c rest n (hch (l, c) (ZNode.childGet_mem hc)) hd
  have hwild : ∀ p n, Y.zone.records.descend p = some n → n.wildcards = none := by
    intro p n hd
    by_cases hp : p = []
    · subst hp; simp at hd; subst hd; simpa using hw0
    · have := hdesc p n hp hd
      unfold nsOK at this
      simp only [Bool.and_eq_true] at this
      simpa using this.1
  unfold Zone.resolve at hres
  cases hr : Y.zone.relativeDomain name with
  | none => rw [hr] at hres; cases hres
  | some rel =>
    rw [hr] at hres
    simp only [Option.map_some, Option.some.injEq] at hres
    rw [ZNode.resolve_eq_rev] at hres
    obtain ⟨p, n, z, zs, hd, hp, hg, he⟩ := uni_resolveRev_deleg name qtype _ _ _ _ hwild hres
    have hpne : p ≠ [] := fun hh => by have := hp hh; cases this
    have hok := hdesc p n hpne hd
    unfold nsOK at hok
    rw [hg] at hok
    simp only [Bool.and_eq_true] at hok
    cases zs with
    | cons z2 zs2 => simp at hok
    | nil =>
      simp only [Bool.and_eq_true, List.any_eq_true, beq_iff_eq, decide_eq_true_eq] at hok
      obtain ⟨_, ⟨hrt, httl⟩, C, hC, ⟨hf, hn⟩, hdep⟩ := hok
      refine ⟨C, hC, z.ttl, ?_, httl, hdep⟩
      rw [he]
      simp only [List.map_cons, List.map_nil, ZoneRecord.toRR, UEntry.nsRR, hrt, hf, hn, UEntry.apex]

/-- the decidable check implies that the record maps are keyed consistently. -/
theorem uni_typed_of_check (node : ZNode) (fuel : Nat) (h : nodesAll typedNode fuel node = true) : node.Typed := by
  intro p n hd
  have h1 := uni_nodesAll_descend typedNode fuel node p n h hd
  unfold typedNode at h1
  simp only [Bool.and_eq_true, List.all_eq_true, beq_iff_eq] at h1
  refine ⟨recMapTyped_of_all (fun kv hkv zr hzr => h1.1 kv hkv zr hzr), ?_⟩
  intro ws hws
  rw [hws] at h1
  simp only [List.all_eq_true, beq_iff_eq] at h1
  exact recMapTyped_of_all (fun kv hkv zr hzr => h1.2 kv hkv zr hzr)

/-! ## The root hints zone, in general -/

/-- `zone_result_helper` on a record map without (usable) NS set and without CNAME, for an ordinary
    query type: the records of that type. -/
theorem uni_helper_simple (name : Name) (qtype : Nat) (recs : RecMap) (nsd : Name) (cd : Bool)
    (hns : cd = false ∨ recs.get RT_NS = none) (hcn : recs.get RT_CNAME = none)
    (hq : lookupNat queryTypeFromU16 qtype = none) :
    zoneResultHelper name qtype recs nsd cd = .answer (((recs.get qtype).getD []).map (·.toRR name)) := by
  rw [zoneResultHelper_eq]
  have hc : (cd && qtype != RT_NS && !(nsOf recs).isEmpty) = false := by
    rcases hns with h | h
    · simp [h]
    · simp [nsOf, h]
  rw [hc]
  simp only [Bool.false_eq_true, if_false, helperData, cnameOf, hcn, ite_self, answerOf, hq]
  cases recs.get qtype <;> rfl

/-- a chain of nodes leading to the single record `rec` (what `insert` builds below a node without
    children). -/
inductive UniChain (rec : ZoneRecord) : ZNode → List Label → Prop
  | leaf (nsd : Name) : UniChain rec (.mk nsd [(rec.rtype, [rec])] none []) []
  | step (nsd : Name) (l : Label) (child : ZNode) (rest : List Label) : UniChain rec child rest →
      UniChain rec (.mk nsd [] none [(l, child)]) (l :: rest)

theorem uni_chain_insert (rec : ZoneRecord) : ∀ (path : List Label) (nsd : Name) (n : ZNode),
    (ZNode.new nsd).insertRev path rec false = some n → UniChain rec n path := by
  intro path
  induction path with
  | nil =>
    intro nsd n h
    simp only [ZNode.insertRev, Bool.false_eq_true, if_false, Option.some.injEq] at h
    subst h
    simp only [ZNode.nsdname_new, ZNode.this_new, ZNode.wildcards_new, ZNode.children_new,
      RecMap.insertRecord, RecMap.get, RecMap.set]
    exact UniChain.leaf nsd
  | cons l rest ih =>
    intro nsd n h
    simp only [ZNode.insertRev, ZNode.children_new, ZNode.childGet, ZNode.nsdname_new] at h
    cases hn : Name.fromLabels (l :: nsd.labels) with
    | none => rw [hn] at h; cases h
    | some nsd' =>
      rw [hn] at h
      simp only at h
      cases hc : (ZNode.new nsd').insertRev rest rec false with
      | none => rw [hc] at h; cases h
      | some child' =>
        rw [hc] at h
        simp only [Option.some.injEq, ZNode.this_new, ZNode.wildcards_new, ZNode.childSet] at h
        subst h
        exact UniChain.step nsd l child' rest (ih nsd' child' hc)

/-- what a lookup below a chain returns. -/
theorem uni_chain_resolve (rec : ZoneRecord) (hns : rec.rtype ≠ RT_NS) (hcn : rec.rtype ≠ RT_CNAME)
    (name : Name) (qtype : Nat) (hq : lookupNat queryTypeFromU16 qtype = none) :
    ∀ (n : ZNode) (path : List Label), UniChain rec n path → ∀ r,
      (r = path → qtype = rec.rtype → n.resolveRev name qtype r false = .answer [rec.toRR name]) ∧
      (¬ (r = path ∧ qtype = rec.rtype) →
        n.resolveRev name qtype r false = .nameError ∨ n.resolveRev name qtype r false = .answer []) := by
  intro n path hc
  induction hc with
  | leaf nsd =>
    intro r
    cases r with
    | nil =>
      simp only [ZNode.resolveRev, ZNode.this_mk, ZNode.nsdname_mk, Bool.not_false]
      rw [uni_helper_simple name qtype _ nsd true (Or.inr (by simp [RecMap.get, hns])) (by simp [RecMap.get, hcn]) hq]
      constructor
      · intro _ hqt
        simp [RecMap.get, hqt]
      · intro hne
        have : rec.rtype ≠ qtype := fun h => hne (by simp [h])
        simp [RecMap.get, this]
    | cons l r' =>
      simp only [ZNode.resolveRev, ZNode.children_mk, ZNode.childGet, ZNode.wildcards_mk, Bool.false_eq_true,
        if_false, ZNode.this_mk]
      constructor
      · intro h; cases h
      · intro _; left; simp [RecMap.get, hns]
  | step nsd l child rest _ ih =>
    intro r
    cases r with
    | nil =>
      simp only [ZNode.resolveRev, ZNode.this_mk, ZNode.nsdname_mk, Bool.not_false]
      rw [uni_helper_simple name qtype _ nsd true (Or.inr rfl) rfl hq]
      constructor
      · intro h; cases h
      · intro _; right; rfl
    | cons l' r' =>
      simp only [ZNode.resolveRev, ZNode.children_mk, ZNode.childGet]
      by_cases hl : l = l'
      · subst hl
        simp only [if_true]
        obtain ⟨ih1, ih2⟩ := ih r'
        constructor
        · intro h hqt
          exact ih1 (by simpa using h) hqt
        · intro hne
          exact ih2 (fun hh => hne ⟨by rw [hh.1], hh.2⟩)
      · simp only [hl, if_false, ZNode.wildcards_mk, Bool.false_eq_true, ZNode.this_mk, RecMap.get]
        constructor
        · intro h; exact absurd (by simpa using h : l' = l ∧ r' = rest).1.symm hl
        · intro _; left; trivial

theorem uni_hints_shape (host : Name) (addr ttl : Nat) (hz : Zone) (hb : rootHintsZone host addr ttl = some hz)
    (hsub : host.isSubdomainOf Name.root = true) (hlen : 2 ≤ host.labels.length) :
    hz.apex = Name.root ∧ hz.soa = none ∧
    ∃ l rest child, (host.labels.take (host.labels.length - 1)).reverse = l :: rest ∧
      hz.records = .mk Name.root [(RT_NS, [⟨RT_NS, [.name host], ttl⟩])] none [(l, child)] ∧
      UniChain ⟨RT_A, [.a addr], ttl⟩ child rest := by
  have h1 : Zone.default.insert Name.root RT_NS [.name host] ttl false =
      some { apex := Name.root, soa := none,
             records := .mk Name.root [(RT_NS, [⟨RT_NS, [.name host], ttl⟩])] none [] } := by
    simp only [Zone.insert, Zone.default, Zone.new, ZNode.insert_eq_rev]
    rfl
  unfold rootHintsZone at hb
  rw [h1] at hb
  simp only [Option.bind_some, Zone.insert, Zone.relativeDomain, hsub, if_true, Zone.actualTtl, ZNode.insert_eq_rev] at hb
  have hr1 : Name.root.labels.length = 1 := rfl
  rw [hr1] at hb
  cases hrev : (List.take (host.labels.length - 1) host.labels).reverse with
  | nil =>
    have : (List.take (host.labels.length - 1) host.labels).length = 0 := by
      have := congrArg List.length hrev; simpa using this
    simp only [List.length_take] at this
    omega
  | cons l rest =>
    rw [hrev] at hb
    simp only [ZNode.insertRev, ZNode.children_mk, ZNode.childGet, ZNode.nsdname_mk] at hb
    cases hn : Name.fromLabels (l :: Name.root.labels) with
    | none => rw [hn] at hb; cases hb
    | some nsd =>
      rw [hn] at hb
      simp only at hb
      cases hc : (ZNode.new nsd).insertRev rest ⟨RT_A, [.a addr], ttl⟩ false with
      | none => rw [hc] at hb; cases hb
      | some child =>
        rw [hc] at hb
        simp only [Option.some.injEq, ZNode.this_mk, ZNode.wildcards_mk, ZNode.childSet] at hb
        subst hb
        exact ⟨rfl, rfl, l, rest, child, rfl, rfl, uni_chain_insert _ rest nsd child hc⟩

/-- facts about a name `from_labels` accepts. -/
theorem uni_name_wf {n : Name} (h : Name.fromLabels n.labels = some n) :
    n.isSubdomainOf Name.root = true ∧ (n.labels.length = 1 → n = Name.root) ∧ 1 ≤ n.labels.length ∧
    ∀ m : Name, Name.fromLabels m.labels = some m → m.labels = n.labels → m = n := by
  rw [fromLabels_eq] at h
  split at h
  · rename_i hs
    obtain ⟨⟨hne, hlast, _⟩, _⟩ := hs
    have hn : n = ⟨n.labels, n.labels.length + sumLen n.labels⟩ := by
      simp only [Option.some.injEq] at h; exact h.symm
    refine ⟨?_, ?_, ?_, ?_⟩
    · unfold Name.isSubdomainOf Name.root
      simp only [List.isSuffixOf_iff_suffix]
      obtain ⟨pre, hp⟩ := List.getLast?_eq_some_iff.mp hlast
      exact ⟨pre, hp.symm⟩
    · intro h1
      cases hl : n.labels with
      | nil => exact absurd hl hne
      | cons a rest =>
        rw [hl] at h1 hlast
        have : rest = [] := by
          cases rest with
          | nil => rfl
          | cons _ _ => simp at h1
        subst this
        simp only [List.getLast?_singleton, Option.some.injEq] at hlast
        subst hlast
        rw [hn, hl]; rfl
    · cases hl : n.labels with
      | nil => exact absurd hl hne
      | cons a rest => simp
    · intro m hm hml
      rw [fromLabels_eq] at hm
      split at hm
      · simp only [Option.some.injEq] at hm
        rw [← hm, hn, hml]
      · cases hm
  · cases h

theorem uni_hints_get (hz : Zone) (ha : hz.apex = Name.root) : ∀ (pre : List Label),
    (Zones.empty.insert hz).getLoop (pre ++ [[]]) = some hz := by
  have hl : ∀ n, Zones.lookup (Zones.empty.insert hz).zones n = none ∨
      Zones.lookup (Zones.empty.insert hz).zones n = some hz := by
    intro n
    simp only [Zones.insert, Zones.empty, Zones.setZone, Zones.lookup]
    split
    · exact Or.inr rfl
    · exact Or.inl rfl
  intro pre
  induction pre with
  | nil =>
    simp only [List.nil_append, Zones.getLoop, uni_fromLabels_root, Option.bind_some]
    simp [Zones.insert, Zones.empty, Zones.setZone, Zones.lookup, ha]
  | cons l pre ih =>
    simp only [List.cons_append, Zones.getLoop]
    cases hn : Name.fromLabels (l :: (pre ++ [[]])) with
    | none => simp only [Option.bind_none]; exact ih
    | some n =>
      simp only [Option.bind_some]
      rcases hl n with h | h
      · rw [h]; exact ih
      · rw [h]

/-- THE ROOT HINTS ZONE as `Zone::insert` builds it (`. NS host`, `host A addr`), looked up for any
    well-formed name and ordinary type: it answers `. NS` and `host A` with its single records, and
    has nothing (NXDOMAIN or an empty answer, without authority) for everything else. -/
theorem uni_hints_resolve (host : Name) (addr ttl : Nat) (hz : Zone) (hb : rootHintsZone host addr ttl = some hz)
    (hhost : Name.fromLabels host.labels = some host) (hne : host ≠ Name.root)
    (name : Name) (hname : Name.fromLabels name.labels = some name) (qtype : Nat)
    (hq : lookupNat queryTypeFromU16 qtype = none) :
    ∃ r, (Zones.empty.insert hz).resolve name qtype = some (hz, some r) ∧ hz.soa = none ∧
      (name = Name.root → qtype = RT_NS →
        r = .answer [{ name := Name.root, rtype := RT_NS, fields := [.name host], rclass := CLASS_IN, ttl := ttl }]) ∧
      (name = host → qtype = RT_A →
        r = .answer [{ name := host, rtype := RT_A, fields := [.a addr], rclass := CLASS_IN, ttl := ttl }]) ∧
      (¬ (name = Name.root ∧ qtype = RT_NS) → ¬ (name = host ∧ qtype = RT_A) → r = .nameError ∨ r = .answer []) := by
  obtain ⟨hh1, hh2, hh3, _⟩ := uni_name_wf hhost
  obtain ⟨hn1, hn2, hn3, hn4⟩ := uni_name_wf hname
  have hhlen : 2 ≤ host.labels.length := by
    rcases Nat.lt_or_ge host.labels.length 2 with h | h
    · exact absurd (hh2 (by omega)) hne
    · exact h
  obtain ⟨hapex, hsoa, l, rest, child, hrev, hrec, hchain⟩ := uni_hints_shape host addr ttl hz hb hh1 hhlen
  obtain ⟨pre, hpre⟩ := uni_labels_root hn1
  have hget : (Zones.empty.insert hz).get name = some hz := by
    unfold Zones.get; rw [hpre]; exact uni_hints_get hz hapex pre
  have hrel : hz.relativeDomain name = some (name.labels.take (name.labels.length - 1)) := by
    unfold Zone.relativeDomain
    rw [hapex, hn1]
    rfl
  refine ⟨hz.records.resolve name qtype (name.labels.take (name.labels.length - 1)) true, ?_, hsoa, ?_⟩
  · simp only [Zones.resolve, hget, Option.map_some, Zone.resolve, hrel]
  rw [ZNode.resolve_eq_rev, hrec]
  -- names and their relative parts
  have hlab : ∀ {m : Name}, m.isSubdomainOf Name.root = true → 1 ≤ m.labels.length →
      m.labels = m.labels.take (m.labels.length - 1) ++ [[]] := by
    intro m hm hlen
    obtain ⟨p, hp⟩ := uni_labels_root hm
    rw [hp]; simp
  cases hrr : (name.labels.take (name.labels.length - 1)).reverse with
  | nil =>
    -- the apex
    have hlen1 : name.labels.length = 1 := by
      have := congrArg List.length hrr
      simp only [List.length_reverse, List.length_take, List.length_nil] at this
      omega
    have hroot := hn2 hlen1
    simp only [ZNode.resolveRev, ZNode.this_mk, ZNode.nsdname_mk, Bool.not_true]
    rw [uni_helper_simple name qtype _ Name.root false (Or.inl rfl) (by simp [RecMap.get]; decide) hq]
    refine ⟨?_, ?_, ?_⟩
    · intro _ hqt
      simp [RecMap.get, hqt, hroot, ZoneRecord.toRR]
    · intro hnh; exact absurd (hroot ▸ hnh).symm hne
    · intro h1 _
      have : RT_NS ≠ qtype := fun hh => h1 ⟨hroot, hh.symm⟩
      right
      simp [RecMap.get, this]
  | cons l' r' =>
    have hlen2 : 2 ≤ name.labels.length := by
      have := congrArg List.length hrr
      simp only [List.length_reverse, List.length_take, List.length_cons] at this
      omega
    have hnroot : name ≠ Name.root := by
      intro hh; rw [hh] at hlen2; simp [Name.root] at hlen2
    simp only [ZNode.resolveRev, ZNode.children_mk, ZNode.childGet]
    by_cases hl : l = l'
    · subst hl
      simp only [if_true]
      obtain ⟨c1, c2⟩ := uni_chain_resolve ⟨RT_A, [.a addr], ttl⟩ (by show RT_A ≠ RT_NS; decide)
        (by show RT_A ≠ RT_CNAME; decide) name qtype hq child rest hchain r'
      have hiff : r' = rest ↔ name = host := by
        constructor
        · intro hr
          have h1 : (name.labels.take (name.labels.length - 1)).reverse =
              (host.labels.take (host.labels.length - 1)).reverse := by rw [hrr, hrev, hr]
          have h2 := List.reverse_inj.mp h1
          have h3 : host.labels = name.labels := by
            rw [hlab hh1 hh3, hlab hn1 hn3, h2]
          exact (hn4 host hhost h3).symm
        · intro hnh
          rw [hnh, hrev] at hrr
          simpa using hrr.symm
      refine ⟨fun hh => absurd hh hnroot, ?_, ?_⟩
      · intro hnh hqt
        rw [c1 (hiff.mpr hnh) hqt, hnh]; rfl
      · intro _ h2
        exact c2 (fun hh => h2 ⟨hiff.mp hh.1, hh.2⟩)
    · simp only [hl, if_false, ZNode.wildcards_mk, if_true]
      refine ⟨fun hh => absurd hh hnroot, ?_, fun _ _ => by simp⟩
      intro hnh _
      rw [hnh, hrev] at hrr
      exact absurd (by simpa using hrr : l = l' ∧ rest = r').1 hl

theorem uni_hints_rootHints (host : Name) (addr ttl : Nat) (hz : Zone) (hb : rootHintsZone host addr ttl = some hz)
    (hhost : Name.fromLabels host.labels = some host) (hne : host ≠ Name.root) :
    RootHints (Zones.empty.insert hz) host addr := by
  constructor
  · obtain ⟨r, h1, h2, h3, _, _⟩ := uni_hints_resolve host addr ttl hz hb hhost hne Name.root (by decide) RT_NS
      (by decide)
    exact ⟨hz, ttl, by rw [h1, h3 rfl rfl], h2⟩
  · obtain ⟨r, h1, h2, _, h4, _⟩ := uni_hints_resolve host addr ttl hz hb hhost hne host hhost RT_A (by decide)
    exact ⟨hz, ttl, by rw [h1, h4 rfl rfl], h2⟩

/-- the root hints zone misses every well-formed name and ordinary type other than `. NS` and
    `host A`. -/
theorem uni_hints_miss (host : Name) (addr ttl : Nat) (hz : Zone) (hb : rootHintsZone host addr ttl = some hz)
    (hhost : Name.fromLabels host.labels = some host) (hne : host ≠ Name.root)
    (name : Name) (hname : Name.fromLabels name.labels = some name) (qtype : Nat)
    (hq : lookupNat queryTypeFromU16 qtype = none)
    (h1 : ¬ (name = Name.root ∧ qtype = RT_NS)) (h2 : ¬ (name = host ∧ qtype = RT_A)) :
    localMiss (Zones.empty.insert hz) name qtype = true := by
  obtain ⟨r, hr, hs, _, _, h5⟩ := uni_hints_resolve host addr ttl hz hb hhost hne name hname qtype hq
  unfold localMiss
  rw [hr]
  simp only [hs, Option.isNone_none, Bool.true_and]
  rcases h5 h1 h2 with h | h <;> rw [h] <;> rfl

theorem uni_fromLabels_wf {ls : List Label} {n : Name} (h : Name.fromLabels ls = some n) :
    n.labels = ls ∧ Name.fromLabels n.labels = some n := by
  have h0 := h
  rw [fromLabels_eq] at h
  split at h
  · simp only [Option.some.injEq] at h
    have : n.labels = ls := by rw [← h]
    exact ⟨this, by rw [this]; exact h0⟩
  · cases h

/-- … hence no name servers are found on the way up from any name to the root. -/
theorem uni_hints_candMiss (host : Name) (addr ttl : Nat) (hz : Zone) (hb : rootHintsZone host addr ttl = some hz)
    (hhost : Name.fromLabels host.labels = some host) (hne : host ≠ Name.root) :
    ∀ ls : List Label, candMiss (Zones.empty.insert hz) ls = true := by
  intro ls
  induction ls with
  | nil => rfl
  | cons l ls ih =>
    unfold candMiss
    rw [ih, Bool.and_true]
    cases hls : ls with
    | nil => rfl
    | cons l2 ls2 =>
      simp only [List.isEmpty_cons, Bool.false_or]
      cases hn : Name.fromLabels (l :: l2 :: ls2) with
      | none => rfl
      | some n =>
        simp only
        obtain ⟨hl, hwf⟩ := uni_fromLabels_wf hn
        apply uni_hints_miss host addr ttl hz hb hhost hne n hwf RT_NS (by decide)
        · intro hh
          have : n.labels.length = 1 := by rw [hh.1]; rfl
          rw [hl] at this
          simp at this
        · intro hh
          exact absurd hh.2 (by decide)

/-- With the local zones being exactly the root hints zone `Zone::insert` builds for the root
    server, the path-free start hypotheses reduce to facts about names. -/
theorem uni_startAll_of_hints {U : Universe} {q : Question} {R : UEntry} {D ttl : Nat} {hz : Zone}
    (hb : rootHintsZone R.host R.addr ttl = some hz) (hroot : R.apex = Name.root)
    (hRwf : Name.fromLabels R.host.labels = some R.host) (hRne : R.host ≠ Name.root)
    (hq : QuestionOK q) (hqwf : Name.fromLabels q.name.labels = some q.name)
    (hq1 : ¬ (q.name = Name.root ∧ q.qtype = RT_NS)) (hq2 : ¬ (q.name = R.host ∧ q.qtype = RT_A))
    (hhosts : ∀ C ∈ U, C.apex.labels.length ≠ 1 → Name.fromLabels C.host.labels = some C.host ∧ C.host ≠ R.host)
    (hnot : isAddrQ q → ∀ C ∈ U, C.apex.labels.length ≠ 1 → q.name ≠ C.host)
    (hdelay : ∀ E ∈ U, E.delayMs ≤ D) (htime : D * q.name.labels.length < RESOLVE_TIMEOUT_MS)
    (hfuel : q.name.labels.length + 2 ≤ REC_FUEL) :
    UniStartAll U (Zones.empty.insert hz) q R D :=
  ⟨hroot, uni_hints_rootHints R.host R.addr ttl hz hb hRwf hRne,
    uni_hints_miss R.host R.addr ttl hz hb hRwf hRne q.name hqwf q.qtype hq.qtype hq1 hq2,
    uni_hints_candMiss R.host R.addr ttl hz hb hRwf hRne _,
    fun C hC hd => uni_hints_miss R.host R.addr ttl hz hb hRwf hRne C.host (hhosts C hC hd).1 RT_A (by decide)
      (fun hh => absurd hh.2 (by decide)) (fun hh => (hhosts C hC hd).2 hh.1),
    hnot, hdelay, htime, hfuel⟩

/-! ## The canonical oracle is faithful -/

theorem uni_find_addr (U : Universe) (hnd : (U.map (·.addr)).Nodup) (E : UEntry) (hE : E ∈ U) :
    U.find? (fun E' => E'.addr == E.addr) = some E := by
  induction U with
  | nil => cases hE
  | cons F rest ih =>
    simp only [List.map_cons, List.nodup_cons] at hnd
    rcases List.mem_cons.mp hE with rfl | hE
    · simp
    · have hne : F.addr ≠ E.addr := by
        intro he
        exact hnd.1 (by rw [he]; exact List.mem_map.mpr ⟨E, hE, rfl⟩)
      rw [List.find?_cons]
      have : (F.addr == E.addr) = false := by simp [hne]
      rw [this]
      exact ih hnd.2 hE

/-- distinct addresses: `uniOracle` answers for each server of the universe. -/
theorem uni_oracle_faithful (U : Universe) (port : Nat) (hnd : (U.map (·.addr)).Nodup) :
    Faithful U (uniCfg U port) := by
  intro E hE q rd tcp
  simp only [uniCfg, uniOracle, uni_find_addr U hnd E hE, if_true]

theorem uni_cfg_ok (U : Universe) (port : Nat) (hnd : (U.map (·.addr)).Nodup) (hh : HostsFunctional U)
    (ha : ∀ E ∈ U, ∀ E' ∈ U, E.apex = E'.apex → E.host = E'.host)
    (hd : ∀ E ∈ U, E.delayMs < EXCHANGE_TIMEOUT_MS) (hg : ∀ E ∈ U, 0 < E.glueTtl) : UniOK U (uniCfg U port) :=
  ⟨uni_oracle_faithful U port hnd, Or.inl rfl, fun _ => rfl, hh, ha, hd, hg⟩

theorem uni_cfg_prefer_ok (U : Universe) (port : Nat) (hnd : (U.map (·.addr)).Nodup) (hh : HostsFunctional U)
    (ha : ∀ E ∈ U, ∀ E' ∈ U, E.apex = E'.apex → E.host = E'.host)
    (hd : ∀ E ∈ U, E.delayMs < EXCHANGE_TIMEOUT_MS) (hg : ∀ E ∈ U, 0 < E.glueTtl) :
    UniOK U (uniCfgPrefer U port) :=
  ⟨uni_oracle_faithful U port hnd, Or.inr rfl, fun _ => rfl, hh, ha, hd, hg⟩

/-! ## The concrete universe `UniEx` -/

namespace UniEx

theorem uni_ex_hints_built : rootHintsZone nA 16909060 3600 = some hintsZone := by
  simp only [rootHintsZone, Zone.insert, Zone.default, Zone.new, ZNode.insert_eq_rev]
  rfl

theorem uni_ex_mem {E : UEntry} (h : E ∈ uni) : E = eRoot ∨ E = eE ∨ E = eXE ∨ E = eYE := by
  simpa [uni] using h

theorem uni_ex_ok : UniOK uni cfg := by
  apply uni_cfg_ok
  · decide
  · intro E hE E' hE'
    rcases uni_ex_mem hE with rfl | rfl | rfl | rfl <;> rcases uni_ex_mem hE' with rfl | rfl | rfl | rfl <;> decide
  · intro E hE E' hE'
    rcases uni_ex_mem hE with rfl | rfl | rfl | rfl <;> rcases uni_ex_mem hE' with rfl | rfl | rfl | rfl <;> decide
  · intro E hE
    rcases uni_ex_mem hE with rfl | rfl | rfl | rfl <;> decide
  · intro E hE
    rcases uni_ex_mem hE with rfl | rfl | rfl | rfl <;> decide

theorem uni_ex_prefer_ok : UniOK uni cfgPrefer :=
  ⟨uni_ex_ok.faithful, Or.inr rfl, fun _ => rfl, uni_ex_ok.hosts, uni_ex_ok.apexes, uni_ex_ok.delay, uni_ex_ok.glueTtl⟩

theorem uni_ex_hints : RootHints zones eRoot.host eRoot.addr := by
  constructor
  · refine ⟨hintsZone, 3600, ?_, rfl⟩
    simp only [Zones.resolve, Zone.resolve, ZNode.resolve_eq_rev]; rfl
  · refine ⟨hintsZone, 3600, ?_, rfl⟩
    simp only [Zones.resolve, Zone.resolve, ZNode.resolve_eq_rev]; rfl

theorem uni_ex_root_refers (n : Name) (t : Nat) (hn : n = nWXE ∨ n = nYXE ∨ n = nCXE ∨ n = nWYE)
    (ht : t = RT_A ∨ t = RT_AAAA) :
    zoneRoot.resolve n t = some (.delegation [eE.nsRR 3600]) := by
  rcases hn with rfl | rfl | rfl | rfl <;> rcases ht with rfl | rfl <;>
    (simp only [Zone.resolve, ZNode.resolve_eq_rev]; rfl)

theorem uni_ex_e_refers (n : Name) (t : Nat) (hn : n = nWXE ∨ n = nYXE ∨ n = nCXE) (ht : t = RT_A ∨ t = RT_AAAA) :
    zoneE.resolve n t = some (.delegation [eXE.nsRR 3600]) := by
  rcases hn with rfl | rfl | rfl <;> rcases ht with rfl | rfl <;>
    (simp only [Zone.resolve, ZNode.resolve_eq_rev]; rfl)

theorem uni_ex_e_refers_y : zoneE.resolve nWYE RT_A = some (.delegation [eYE.nsRR 3600]) := by
  simp only [Zone.resolve, ZNode.resolve_eq_rev]; rfl

/-- the delegation path of the example questions under `x.e.`: root → `e.` → `x.e.`. -/
theorem uni_ex_path (q : Question) (hn : q.name = nWXE ∨ q.name = nYXE ∨ q.name = nCXE)
    (ht : q.qtype = RT_A ∨ q.qtype = RT_AAAA) :
    DelegPath uni q eRoot [eE, eXE] eXE :=
  .down eRoot eE eXE [eXE] 3600 (by simp [uni]) (by simp [uni])
    (uni_ex_root_refers _ _ (by rcases hn with h | h | h <;> simp [h]) ht) (by decide) (by decide)
    (.down eE eXE eXE [] 3600 (by simp [uni]) (by simp [uni]) (uni_ex_e_refers _ _ hn ht) (by decide) (by decide)
      (.here eXE (by simp [uni])))

/-- … and of the alias target `w.y.e.`, from `e.` (whose NS set is cached by then): `e.` → `y.e.`. -/
theorem uni_ex_path_y : DelegPath uni (aliasQ qC nWYE) eE [eYE] eYE :=
  .down eE eYE eYE [] 3600 (by simp [uni]) (by simp [uni]) uni_ex_e_refers_y (by decide) (by decide)
    (.here eYE (by simp [uni]))

theorem uni_ex_typed : ∀ E ∈ uni, E.zone.records.Typed := by
  intro E hE
  rcases uni_ex_mem hE with rfl | rfl | rfl | rfl <;> exact uni_typed_of_check _ 2 (by decide)

theorem uni_ex_xe_typed : zoneXE.records.Typed := uni_ex_typed eXE (by simp [uni])

theorem uni_ex_start (q : Question) (hq : q = qA ∨ q = qAAAA ∨ q = qNx) : UniStart zones q eRoot [eE, eXE] := by
  refine ⟨rfl, uni_ex_hints, ?_, ?_, ?_, ?_, by decide, by decide⟩
  · rcases hq with rfl | rfl | rfl <;> decide +kernel
  · rcases hq with rfl | rfl | rfl <;> decide +kernel
  · intro C hC
    simp only [List.mem_cons, List.not_mem_nil, or_false] at hC
    rcases hC with rfl | rfl <;> decide +kernel
  · intro _ C hC
    simp only [List.mem_cons, List.not_mem_nil, or_false] at hC
    rcases hq with rfl | rfl | rfl <;> rcases hC with rfl | rfl <;> decide

theorem uni_ex_question (q : Question) (hq : q = qA ∨ q = qAAAA ∨ q = qNx ∨ q = qC ∨ q = aliasQ qC nWYE ∨ q = qD) :
    QuestionOK q ∧ rtypeIsUnknown q.qtype = false := by
  rcases hq with rfl | rfl | rfl | rfl | rfl | rfl <;> exact ⟨⟨by decide, by decide +kernel⟩, by decide⟩

theorem uni_ex_resolve_A : zoneXE.resolve nWXE RT_A = some (.answer [rrW1, rrW2]) := by
  simp only [Zone.resolve, ZNode.resolve_eq_rev]; rfl

theorem uni_ex_resolve_AAAA : zoneXE.resolve nWXE RT_AAAA = some (.answer []) := by
  simp only [Zone.resolve, ZNode.resolve_eq_rev]; rfl

theorem uni_ex_resolve_nx : zoneXE.resolve nYXE RT_A = some .nameError := by
  simp only [Zone.resolve, ZNode.resolve_eq_rev]; rfl

theorem uni_ex_resolve_C : zoneXE.resolve nCXE RT_A = some (.cname nWYE rrC) := by
  simp only [Zone.resolve, ZNode.resolve_eq_rev]; rfl

theorem uni_ex_resolve_WY : zoneYE.resolve nWYE RT_A = some (.answer [rrWY]) := by
  simp only [Zone.resolve, ZNode.resolve_eq_rev]; rfl

theorem uni_ex_consistent : Consistent uni := uni_consistent_of_check uni 2 (by decide)

theorem uni_ex_startAll (q : Question) (hq : q = qA ∨ q = qAAAA ∨ q = qNx) : UniStartAll uni zones q eRoot 30 := by
  refine ⟨rfl, uni_ex_hints, ?_, ?_, ?_, ?_, ?_, ?_, ?_⟩
  · rcases hq with rfl | rfl | rfl <;> decide +kernel
  · rcases hq with rfl | rfl | rfl <;> decide +kernel
  · intro C hC
    rcases uni_ex_mem hC with rfl | rfl | rfl | rfl
    · intro h; exact absurd rfl h
    · intro _; decide +kernel
    · intro _; decide +kernel
    · intro _; decide +kernel
  · intro _ C hC
    rcases hq with rfl | rfl | rfl <;> rcases uni_ex_mem hC with rfl | rfl | rfl | rfl <;> decide
  · intro E hE
    rcases uni_ex_mem hE with rfl | rfl | rfl | rfl <;> decide
  · rcases hq with rfl | rfl | rfl <;> decide
  · rcases hq with rfl | rfl | rfl <;> decide

theorem uni_ex_startAlias : UniStartAlias uni zones qC nWYE eRoot [eE, eXE] eE [eYE] := by
  refine ⟨rfl, uni_ex_hints, by decide +kernel, by decide +kernel, by decide, ?_, ?_, by decide, by decide +kernel,
    Or.inl ⟨by simp, by decide +kernel⟩, by decide, by decide +kernel, by decide, by decide⟩
  · intro _ E hE
    rcases uni_ex_mem hE with rfl | rfl | rfl | rfl <;> decide
  · intro C hC
    simp only [List.cons_append, List.nil_append, List.mem_cons, List.not_mem_nil, or_false] at hC
    rcases hC with rfl | rfl | rfl <;> decide +kernel

theorem uni_ex_resolve_D : zoneXE.resolve nDXE RT_A = some (.cname nCXE rrD) := by
  simp only [Zone.resolve, ZNode.resolve_eq_rev]; rfl

theorem uni_ex_says (E : UEntry) (hE : E ∈ uni) (q : Question) (hq : lookupNat queryTypeFromU16 q.qtype = none)
    (hk : rtypeIsUnknown q.qtype = false) : ZoneSaysWF E.zone q :=
  uni_zoneSaysWF_of_typed (uni_ex_typed E hE) q hq hk

theorem uni_ex_stackOK (stack : List Question) (q : Question)
    (h : ∀ q0 ∈ stack, q0.qtype = RT_A ∧ q0 ≠ q ∧ q0.name ≠ nA ∧ q0.name ≠ nNE ∧ q0.name ≠ nMXE ∧ q0.name ≠ nMYE) :
    ∀ q0 ∈ stack, q0.qtype ≠ RT_NS ∧ q0 ≠ q ∧ ∀ E ∈ uni, q0 ≠ uniHostQ E.host := by
  intro q0 hq0
  obtain ⟨h1, h2, h3, h4, h5, h6⟩ := h q0 hq0
  refine ⟨by rw [h1]; decide, h2, ?_⟩
  intro E hE he
  rcases uni_ex_mem hE with rfl | rfl | rfl | rfl
  · exact h3 (by rw [he]; rfl)
  · exact h4 (by rw [he]; rfl)
  · exact h5 (by rw [he]; rfl)
  · exact h6 (by rw [he]; rfl)

theorem uni_ex_notHost (n : Name) (h : n ≠ nA ∧ n ≠ nNE ∧ n ≠ nMXE ∧ n ≠ nMYE) : ∀ E ∈ uni, n ≠ E.host := by
  intro E hE
  rcases uni_ex_mem hE with rfl | rfl | rfl | rfl
  · exact h.1
  · exact h.2.1
  · exact h.2.2.1
  · exact h.2.2.2

/-- the plan for `d.x.e. A`: root → `e.` → `x.e.` (alias for `c.x.e.`), `x.e.` again (alias for
    `w.y.e.`), `e.` → `y.e.` (the address). -/
theorem uni_ex_plan_D : ∃ ex n, UniPlan uni zones [] [] [] qD ex n (.nonAuthoritative [rrD, rrC, rrWY] none) ∧
    n ≤ REC_FUEL ∧ planDelay ex < RESOLVE_TIMEOUT_MS ∧
    planLog 53 ex = [eRoot.exchange 53 qD, eE.exchange 53 qD, eXE.exchange 53 qD, eXE.exchange 53 qC,
      eE.exchange 53 (aliasQ qC nWYE), eYE.exchange 53 (aliasQ qC nWYE)] := by
  have hq : ∀ q : Question, q.qtype = RT_A → lookupNat queryTypeFromU16 q.qtype = none ∧ rtypeIsUnknown q.qtype = false :=
    fun q h => by rw [h]; exact ⟨by decide, by decide⟩
  -- third leg: `w.y.e.` from `e.`
  have leg3 : UniLeg uni zones ([] ++ [eE, eXE] ++ []) [nCXE, nDXE] ([] ++ [qD] ++ [aliasQ qD nCXE])
      (aliasQ (aliasQ qD nCXE) nWYE) eE [eYE] eYE :=
    { ok := ⟨by decide, by decide +kernel⟩, notNS := by decide, notCN := by decide
      path := uni_ex_path_y
      says := uni_ex_says eYE (by simp [uni]) _ (by decide) (by decide)
      start := Or.inl ⟨by simp, by decide +kernel, by decide +kernel⟩
      startWf := by decide
      depth := by decide
      stackOK := uni_ex_stackOK _ _ (by
        intro q0 hq0
        simp only [List.nil_append, List.cons_append, List.mem_cons, List.not_mem_nil, or_false] at hq0
        rcases hq0 with rfl | rfl <;> decide)
      qmiss := by decide +kernel
      notHost := fun _ => uni_ex_notHost _ (by decide)
      notAlias := by decide
      warm := by decide +kernel
      hostsMiss := by
        intro C hC
        simp only [List.mem_singleton] at hC
        subst hC; decide +kernel }
  have plan3 := UniPlan.final leg3 (res := .nonAuthoritative [rrWY] none) (by
    unfold expectedAt
    show (match zoneYE.resolve nWYE RT_A, zoneYE.soaRR with
      | some (.answer rrs), some soa =>
        if rrs.isEmpty then some (ResolvedRecord.nonAuthoritative [] (some soa)) else some (.nonAuthoritative rrs none)
      | some .nameError, some soa => some (.nonAuthoritative [] (some soa))
      | _, _ => none) = _
    rw [uni_ex_resolve_WY]; rfl)
  -- second leg: `c.x.e.` from `x.e.`
  have leg2 : UniLeg uni zones ([] ++ [eE, eXE]) [nDXE] ([] ++ [qD]) (aliasQ qD nCXE) eXE [] eXE :=
    { ok := ⟨by decide, by decide +kernel⟩, notNS := by decide, notCN := by decide
      path := .here eXE (by simp [uni])
      says := uni_ex_says eXE (by simp [uni]) _ (by decide) (by decide)
      start := Or.inl ⟨by simp, by decide +kernel, by decide +kernel⟩
      startWf := by decide
      depth := by decide
      stackOK := uni_ex_stackOK _ _ (by
        intro q0 hq0
        simp only [List.nil_append, List.mem_cons, List.not_mem_nil, or_false] at hq0
        subst hq0; decide)
      qmiss := by decide +kernel
      notHost := fun _ => uni_ex_notHost _ (by decide)
      notAlias := by decide
      warm := by decide +kernel
      hostsMiss := by intro C hC; cases hC }
  have plan2 := UniPlan.alias leg2 (tn := nWYE) (rr := rrC) uni_ex_resolve_C (by decide) plan3
  -- first leg: `d.x.e.` from the root hints
  have leg1 : UniLeg uni zones [] [] [] qD eRoot [eE, eXE] eXE :=
    { ok := ⟨by decide, by decide +kernel⟩, notNS := by decide, notCN := by decide
      path := .down eRoot eE eXE [eXE] 3600 (by simp [uni]) (by simp [uni])
        (by simp only [Zone.resolve, ZNode.resolve_eq_rev]; rfl) (by decide) (by decide)
        (.down eE eXE eXE [] 3600 (by simp [uni]) (by simp [uni])
          (by simp only [Zone.resolve, ZNode.resolve_eq_rev]; rfl) (by decide) (by decide)
          (.here eXE (by simp [uni])))
      says := uni_ex_says eXE (by simp [uni]) _ (by decide) (by decide)
      start := Or.inr ⟨rfl, uni_ex_hints⟩
      startWf := by decide
      depth := by decide
      stackOK := by intro q0 hq0; cases hq0
      qmiss := by decide +kernel
      notHost := fun _ => uni_ex_notHost _ (by decide)
      notAlias := by simp
      warm := by decide +kernel
      hostsMiss := by
        intro C hC
        simp only [List.mem_cons, List.not_mem_nil, or_false] at hC
        rcases hC with rfl | rfl <;> decide +kernel }
  have plan1 := UniPlan.alias leg1 (tn := nCXE) (rr := rrD) uni_ex_resolve_D (by decide) plan2
  exact ⟨_, _, plan1, by decide, by decide, by decide⟩

/-! ### the variant with two name servers for `x.e.` -/

theorem uni_ex_memM {E : UEntry} (h : E ∈ uniM) : E = eRoot ∨ E = eEM ∨ E = eXE ∨ E = eXE2 ∨ E = eYE := by
  simpa [uniM] using h

theorem uni_ex_okM : UniOKM uniM cfgM := by
  refine ⟨uni_oracle_faithful uniM 53 (by decide), Or.inl rfl, ?_, ?_, ?_⟩
  · intro E hE E' hE'
    rcases uni_ex_memM hE with rfl | rfl | rfl | rfl | rfl <;>
      rcases uni_ex_memM hE' with rfl | rfl | rfl | rfl | rfl <;> decide
  · intro E hE
    rcases uni_ex_memM hE with rfl | rfl | rfl | rfl | rfl <;> decide
  · intro E hE
    rcases uni_ex_memM hE with rfl | rfl | rfl | rfl | rfl <;> decide

/-- root → `e.` → `x.e.`, the referral to `x.e.` naming `m.x.e.` and `m2.x.e.`; with `hostOrder = id`
    the loop contacts the one named last, `m2.x.e.`. -/
theorem uni_ex_pathM : DelegPathM uniM cfgM.hostOrder qA eRoot [eEM, eXE2] ([eEM] ++ ([eXE, eXE2] ++ [])) eXE2 :=
  .down eRoot eEM eXE2 [eXE2] ([eXE, eXE2] ++ []) [eEM] [eEM.nsRR 3600] (by simp [uniM]) (by simp)
    (by intro D hD; simp only [List.mem_singleton] at hD; subst hD; exact ⟨by simp [uniM], rfl⟩)
    (by simp only [Zone.resolve, ZNode.resolve_eq_rev]; rfl)
    (by intro rr hr; simp only [List.mem_singleton] at hr; subst hr; exact ⟨by decide, eEM, by simp, rfl⟩)
    (by intro D hD; simp only [List.mem_singleton] at hD; subst hD; exact ⟨eEM.nsRR 3600, by simp, rfl⟩)
    (by decide) (by decide)
    (.down eEM eXE2 eXE2 [] [] [eXE, eXE2] [eXE.nsRR 3600, eXE2.nsRR 3600] (by simp [uniM]) (by simp)
      (by
        intro D hD
        simp only [List.mem_cons, List.not_mem_nil, or_false] at hD
        rcases hD with rfl | rfl <;> exact ⟨by simp [uniM], rfl⟩)
      (by simp only [Zone.resolve, ZNode.resolve_eq_rev]; rfl)
      (by
        intro rr hr
        simp only [List.mem_cons, List.not_mem_nil, or_false] at hr
        rcases hr with rfl | rfl
        · exact ⟨by decide, eXE, by simp, rfl⟩
        · exact ⟨by decide, eXE2, by simp, rfl⟩)
      (by
        intro D hD
        simp only [List.mem_cons, List.not_mem_nil, or_false] at hD
        rcases hD with rfl | rfl
        · exact ⟨eXE.nsRR 3600, by simp, rfl⟩
        · exact ⟨eXE2.nsRR 3600, by simp, rfl⟩)
      (by decide) (by decide) (.here eXE2 (by simp [uniM])))

theorem uni_ex_startM : UniStartM zones qA eRoot [eEM, eXE2] ([eEM] ++ ([eXE, eXE2] ++ [])) := by
  refine ⟨rfl, uni_ex_hints, by decide +kernel, by decide +kernel, ?_, ?_, by decide, by decide⟩
  · intro C hC
    simp only [List.cons_append, List.nil_append, List.append_nil, List.mem_cons, List.not_mem_nil, or_false] at hC
    rcases hC with rfl | rfl | rfl <;> decide +kernel
  · intro _ C hC
    simp only [List.cons_append, List.nil_append, List.append_nil, List.mem_cons, List.not_mem_nil, or_false] at hC
    rcases hC with rfl | rfl | rfl <;> decide

end UniEx

end Resolved
